# sourced by every script: toolchain + offline go settings
export VERIF_ROOT="${VERIF_ROOT:-/verif}"
export VERIF_REPO="${VERIF_REPO:-/repo}"
_tc=/root/go/pkg/mod/golang.org/toolchain@v0.0.1-go1.25.3.linux-amd64
if [ -d "$_tc/bin" ]; then export PATH="$_tc/bin:$PATH"; export GOROOT="$_tc"; fi
export GOTOOLCHAIN=local GOFLAGS=-mod=readonly GOPROXY=off GOSUMDB=off
export CGO_ENABLED=1
