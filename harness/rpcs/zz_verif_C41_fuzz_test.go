package rpcs

// C41 native fuzz targets (thorough tier only) for the wire types of this package; seed corpora live in
// /verif/corpus/<FuzzName>/ (written once by TestVerif_C41_WriteCorpus_* with VERIF_WRITE_CORPUS=<dir>).

import "testing"

func FuzzVerif_C41_EncodedBlockCert(f *testing.F) { c41FuzzRun(f, "EncodedBlockCert") }

func TestVerif_C41_WriteCorpus_rpcs(t *testing.T) {
	c41WriteCorpus(t, "FuzzVerif_C41_EncodedBlockCert", "EncodedBlockCert")
}
