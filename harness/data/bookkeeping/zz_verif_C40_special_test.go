package bookkeeping

// C40 (hand-written part for data/bookkeeping): block identifiers and blocks with a real payset.

import (
	"crypto/sha512"
	"fmt"
	"testing"

	"pgregory.net/rapid"

	"github.com/algorand/go-algorand/crypto"
	"github.com/algorand/go-algorand/data/transactions"
	"github.com/algorand/go-algorand/protocol"
)

func init() { c40Extra = append(c40Extra, c40BlockExtra) }

func c40HeaderIDs(bh *BlockHeader) error {
	re := protocol.EncodeReflect(bh)
	want := BlockHash(eDigest(protocol.BlockHeader, re))
	if got := bh.Hash(); got != want {
		return fmt.Errorf("BlockHeader.Hash() = %v but sha512/256(\"BH\"||reflection encoding) = %v", got, want)
	}
	if got, w := bh.Hash512(), crypto.Sha512Digest(sha512.Sum512(append([]byte(protocol.BlockHeader), re...))); got != w {
		return fmt.Errorf("BlockHeader.Hash512() differs from sha512(\"BH\"||reflection encoding)")
	}
	var back BlockHeader
	if err := protocol.DecodeReflect(re, &back); err != nil {
		return fmt.Errorf("DecodeReflect(BlockHeader): %v", err)
	}
	if back.Hash() != want {
		return fmt.Errorf("block hash changes across a reflection round trip")
	}
	var back2 BlockHeader
	if err := protocol.Decode(re, &back2); err != nil {
		return fmt.Errorf("Decode(BlockHeader): %v", err)
	}
	if back2.Hash() != want {
		return fmt.Errorf("block hash changes across a msgp round trip")
	}
	return nil
}

func c40BlockExtra(ty *eType, obj eObj, enc []byte) error {
	switch v := obj.(type) {
	case *BlockHeader:
		return c40HeaderIDs(v)
	case *Block:
		if err := c40HeaderIDs(&v.BlockHeader); err != nil {
			return err
		}
		if crypto.Digest(v.Hash()) != v.Digest() {
			return fmt.Errorf("Block.Digest() != Block.Hash()")
		}
		// the block decoded by the reflection decoder from the msgp bytes has the same hash and payset commitment
		var back Block
		if err := protocol.DecodeReflect(enc, &back); err != nil {
			return fmt.Errorf("DecodeReflect(Block): %v", err)
		}
		if back.Hash() != v.Hash() {
			return fmt.Errorf("Block.Hash() differs after decoding with the reflection decoder")
		}
		if len(v.Payset) > 0 {
			if got, w := v.Payset.CommitFlat(), crypto.Digest(eDigest(protocol.PaysetFlat, protocol.EncodeReflect(back.Payset))); got != w {
				return fmt.Errorf("flat payset commitment differs across code paths: %v vs %v", got, w)
			}
		}
	}
	return nil
}

func c40BkType(name string) *eType {
	for i := range eTypes {
		if eTypes[i].Name == name {
			return &eTypes[i]
		}
	}
	return nil
}

var c40BkTxTypes = []protocol.TxType{protocol.PaymentTx, protocol.KeyRegistrationTx, protocol.AssetConfigTx, protocol.AssetTransferTx,
	protocol.AssetFreezeTx, protocol.ApplicationCallTx, protocol.StateProofTx, protocol.HeartbeatTx}

// c40BkTxn: a SignedTxnInBlock of one transaction type (header + that type's fields) with one signature kind.
func c40BkTxn(tt protocol.TxType, sigKind int, withAD bool, seed int64, o eOpts) (transactions.SignedTxnInBlock, error) {
	ty := eType{Name: "transactions.SignedTxnInBlock", New: func() eObj { return new(transactions.SignedTxnInBlock) }}
	obj, err := eRandomize(&ty, seed, o)
	if err != nil {
		return transactions.SignedTxnInBlock{}, err
	}
	full := obj.(*transactions.SignedTxnInBlock)
	var out transactions.SignedTxnInBlock
	out.Txn.Type = tt
	out.Txn.Header = full.Txn.Header
	switch tt {
	case protocol.PaymentTx:
		out.Txn.PaymentTxnFields = full.Txn.PaymentTxnFields
	case protocol.KeyRegistrationTx:
		out.Txn.KeyregTxnFields = full.Txn.KeyregTxnFields
	case protocol.AssetConfigTx:
		out.Txn.AssetConfigTxnFields = full.Txn.AssetConfigTxnFields
	case protocol.AssetTransferTx:
		out.Txn.AssetTransferTxnFields = full.Txn.AssetTransferTxnFields
	case protocol.AssetFreezeTx:
		out.Txn.AssetFreezeTxnFields = full.Txn.AssetFreezeTxnFields
	case protocol.ApplicationCallTx:
		out.Txn.ApplicationCallTxnFields = full.Txn.ApplicationCallTxnFields
	case protocol.StateProofTx:
		out.Txn.StateProofTxnFields = full.Txn.StateProofTxnFields
	case protocol.HeartbeatTx:
		out.Txn.HeartbeatTxnFields = full.Txn.HeartbeatTxnFields
	}
	switch sigKind {
	case 1:
		out.Sig = full.Sig
	case 2:
		out.Msig = full.Msig
	case 3:
		out.Lsig = full.Lsig
	case 4:
		out.PQsig = full.PQsig
		out.AuthAddr = full.AuthAddr
	}
	if withAD {
		out.ApplyData = full.ApplyData
	}
	out.HasGenesisID, out.HasGenesisHash = full.HasGenesisID, full.HasGenesisHash
	return out, nil
}

// TestVerif_C40_Shapes_data_bookkeeping: blocks whose payset holds 0..12 typed transactions.
func TestVerif_C40_Shapes_data_bookkeeping(t *testing.T) {
	vk := vkBegin(t, "C40")
	vk.Rule("block header from RandomizeObject(seed) + payset of 0..12 typed transactions (type, signature kind, apply data drawn); full C40 oracle on Block plus Hash/Hash512/Digest/CommitFlat recomputed from the reflection encoding and across both decoders; non-trivial = payset with >= 2 transactions of >= 2 types; distinct by encoded block")
	if !eSeedable() {
		t.Skip("math/rand global source cannot be seeded")
	}
	tBlock := c40BkType("Block")
	if tBlock == nil {
		t.Skip("registry lacks Block")
	}
	rapid.Check(t, func(rt *rapid.T) {
		seed := rapid.Int64().Draw(rt, "seed")
		opts := c40DrawOpts(rt)
		obj, err := eRandomize(tBlock, seed, opts)
		if err != nil {
			rt.Fatalf("RandomizeObject(Block): %v", err)
		}
		blk := obj.(*Block)
		n := rapid.IntRange(0, 12).Draw(rt, "payset")
		blk.Payset = nil
		types := map[protocol.TxType]bool{}
		for i := 0; i < n; i++ {
			tt := rapid.SampledFrom(c40BkTxTypes).Draw(rt, "txtype")
			stib, err := c40BkTxn(tt, rapid.IntRange(0, 4).Draw(rt, "sigKind"), rapid.Bool().Draw(rt, "applyData"), rapid.Int64().Draw(rt, "txseed"), opts)
			if err != nil {
				rt.Fatalf("RandomizeObject(SignedTxnInBlock): %v", err)
			}
			types[tt] = true
			blk.Payset = append(blk.Payset, stib)
		}
		enc, cerr := c40CheckOne(tBlock, blk, vk)
		if cerr != nil {
			rt.Fatalf("C40 block seed=%d %s payset=%d: %v\n encoded(%d): %s", seed, opts, n, cerr, len(enc), eHex(enc))
		}
		vk.Labelf("payset=%d", min(n, 3))
		nt := n >= 2 && len(types) >= 2
		vk.Case(nt, fmt.Sprintf("%x", eDigest("", enc)))
		if vk.WantSample(nt) {
			vk.Sample(nt, map[string]interface{}{"seed": seed, "opts": opts.String(), "payset_len": n, "distinct_types": len(types), "encoded_len": len(enc), "hash": blk.Hash().String()})
		}
	})
}
