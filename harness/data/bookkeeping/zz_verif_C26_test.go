package bookkeeping

// C26 — Protocol upgrades switch only when approved, at the announced round.
//
// Subjects: UpgradeState.applyUpgradeVote, BlockHeader.PreCheck (upgrade part), ProcessUpgradeParams, MakeBlock.
// Oracles: (1) a step-wise reference state machine written from the doc comments of BlockHeader.UpgradeState /
// ConsensusParams (c26Model); (2) a declarative checker over the whole accepted history that never looks at the
// previous UpgradeState (c26CheckHistory): windows are derived from the votes alone.
//
// config.Consensus is a package-global map: everything here is single-threaded, temporary protocols are registered
// per case and removed with defer.

import (
	"fmt"
	"strings"
	"testing"

	"github.com/algorand/go-algorand/config"
	"github.com/algorand/go-algorand/crypto"
	"github.com/algorand/go-algorand/data/basics"
	"github.com/algorand/go-algorand/protocol"
	"pgregory.net/rapid"
)

// ---------------------------------------------------------------------------------------------------------------
// world: a handful of temporary consensus protocols with tiny upgrade windows

type c26Params struct {
	VR, TH, Def, Min, Max uint64
	MaxLen                int
	Approved              map[protocol.ConsensusVersion]uint64
	Base                  protocol.ConsensusVersion
}

func (p c26Params) String() string {
	ap := ""
	for k, v := range p.Approved {
		ap = fmt.Sprintf("%s:%d", k, v)
	}
	return fmt.Sprintf("vr%d th%d def%d min%d max%d len%d ap[%s]", p.VR, p.TH, p.Def, p.Min, p.Max, p.MaxLen, ap)
}

type c26World struct {
	names  []protocol.ConsensusVersion // registered, sorted
	params map[protocol.ConsensusVersion]c26Params
}

func (w *c26World) String() string {
	var sb strings.Builder
	for _, n := range w.names {
		fmt.Fprintf(&sb, "%s{%s} ", n, w.params[n])
	}
	return sb.String()
}

// c26Register installs the world's protocols in config.Consensus and returns the function that removes them again.
func c26Register(w *c26World) func() {
	saved := map[protocol.ConsensusVersion]*config.ConsensusParams{}
	for _, n := range w.names {
		if old, ok := config.Consensus[n]; ok {
			o := old
			saved[n] = &o
		} else {
			saved[n] = nil
		}
		sp := w.params[n]
		base := sp.Base
		if base == "" {
			base = protocol.ConsensusCurrentVersion
		}
		p := config.Consensus[base]
		p.UpgradeVoteRounds = sp.VR
		p.UpgradeThreshold = sp.TH
		p.DefaultUpgradeWaitRounds = sp.Def
		p.MinUpgradeWaitRounds = sp.Min
		p.MaxUpgradeWaitRounds = sp.Max
		p.MaxVersionStringLen = sp.MaxLen
		p.ApprovedUpgrades = map[protocol.ConsensusVersion]uint64{}
		for k, v := range sp.Approved {
			p.ApprovedUpgrades[k] = v
		}
		config.Consensus[n] = p
	}
	return func() {
		for n, old := range saved {
			if old == nil {
				delete(config.Consensus, n)
			} else {
				config.Consensus[n] = *old
			}
		}
	}
}

// ---------------------------------------------------------------------------------------------------------------
// (1) step-wise reference model

type c26Pending struct {
	Version  protocol.ConsensusVersion
	Deadline basics.Round // voting is open in rounds < Deadline
	SwitchAt basics.Round
	Yes      uint64
}

type c26Model struct {
	Current protocol.ConsensusVersion
	Pending *c26Pending
}

func (m c26Model) state() UpgradeState {
	s := UpgradeState{CurrentProtocol: m.Current}
	if m.Pending != nil {
		s.NextProtocol = m.Pending.Version
		s.NextProtocolApprovals = basics.Round(m.Pending.Yes)
		s.NextProtocolVoteBefore = m.Pending.Deadline
		s.NextProtocolSwitchOn = m.Pending.SwitchAt
	}
	return s
}

// what one step did (for labels / semantic header mutants)
type c26Event struct {
	Proposed, Approved, Failed, Switched, DefaultDelay bool
	FailedYes, TH                                      uint64
	Old                                                *c26Pending // the pending record before resolution at this round
}

// step applies the vote of the block of round r. legal=false => the block must be rejected (why says which rule).
func (m c26Model) step(w *c26World, r basics.Round, v UpgradeVote) (next c26Model, legal bool, why string, ev c26Event) {
	p, ok := w.params[m.Current]
	if !ok {
		return m, false, "unsupported-current", ev
	}
	next = c26Model{Current: m.Current}
	if m.Pending != nil {
		cp := *m.Pending
		next.Pending = &cp
	}
	if v.UpgradePropose != "" {
		if next.Pending != nil {
			return m, false, "propose-while-pending", ev
		}
		if len(v.UpgradePropose) > p.MaxLen {
			return m, false, "version-too-long", ev
		}
		d := uint64(v.UpgradeDelay)
		if d < p.Min || d > p.Max {
			return m, false, "delay-out-of-range", ev
		}
		if d == 0 {
			d = p.Def
			ev.DefaultDelay = true
		}
		next.Pending = &c26Pending{Version: v.UpgradePropose, Deadline: r + basics.Round(p.VR), SwitchAt: r + basics.Round(p.VR) + basics.Round(d)}
		ev.Proposed = true
	} else if v.UpgradeDelay != 0 {
		return m, false, "delay-without-proposal", ev
	}
	if v.UpgradeApprove {
		if next.Pending == nil {
			return m, false, "approve-without-proposal", ev
		}
		if r >= next.Pending.Deadline {
			return m, false, "approve-after-deadline", ev
		}
		next.Pending.Yes++
		ev.Approved = true
	}
	ev.TH = p.TH
	if next.Pending != nil && r == next.Pending.Deadline && next.Pending.Yes < p.TH {
		ev.Failed, ev.FailedYes = true, next.Pending.Yes
		ev.Old = next.Pending
		next.Pending = nil
	}
	if next.Pending != nil && r == next.Pending.SwitchAt {
		ev.Switched = true
		ev.Old = next.Pending
		next.Current = next.Pending.Version
		next.Pending = nil
	}
	return next, true, "", ev
}

// permissive applies a vote ignoring every legality rule (what a too-lenient implementation would write in a header).
func (m c26Model) permissive(w *c26World, r basics.Round, v UpgradeVote) UpgradeState {
	p := w.params[m.Current]
	s := m.state()
	if v.UpgradePropose != "" {
		d := uint64(v.UpgradeDelay)
		if d == 0 {
			d = p.Def
		}
		s.NextProtocol = v.UpgradePropose
		s.NextProtocolApprovals = 0
		s.NextProtocolVoteBefore = r + basics.Round(p.VR)
		s.NextProtocolSwitchOn = r + basics.Round(p.VR) + basics.Round(d)
	}
	if v.UpgradeApprove {
		s.NextProtocolApprovals++
	}
	return s
}

// ---------------------------------------------------------------------------------------------------------------
// (2) declarative history checker

type c26Step struct {
	R     basics.Round
	Vote  UpgradeVote
	State UpgradeState // what the code under test returned for this (accepted) block
}

// c26CheckHistory derives every voting window from the accepted votes alone and checks the states the code produced
// against them. steps are consecutive rounds; initCur is the protocol before the first step (no proposal pending).
func c26CheckHistory(w *c26World, initCur protocol.ConsensusVersion, steps []c26Step) error {
	type prop struct {
		r0, deadline, switchAt, end basics.Round
		ver                         protocol.ConsensusVersion
		th, yes                     uint64
		approved                    bool
	}
	before := func(i int) protocol.ConsensusVersion {
		if i == 0 {
			return initCur
		}
		return steps[i-1].State.CurrentProtocol
	}
	var props []prop
	for i, st := range steps {
		if i > 0 && st.R != steps[i-1].R+1 {
			return fmt.Errorf("harness: rounds not consecutive at %d", st.R)
		}
		if st.Vote.UpgradePropose == "" {
			continue
		}
		p, ok := w.params[before(i)]
		if !ok {
			return fmt.Errorf("round %d: a proposal was accepted under unsupported protocol %q", st.R, before(i))
		}
		wait := uint64(st.Vote.UpgradeDelay)
		if wait < p.Min || wait > p.Max {
			return fmt.Errorf("round %d: accepted proposal with delay %d outside [%d,%d]", st.R, wait, p.Min, p.Max)
		}
		if wait == 0 {
			wait = p.Def
		}
		props = append(props, prop{r0: st.R, deadline: st.R + basics.Round(p.VR), switchAt: st.R + basics.Round(p.VR+wait),
			ver: st.Vote.UpgradePropose, th: p.TH})
	}
	for k := range props {
		for _, st := range steps {
			if st.Vote.UpgradeApprove && st.R >= props[k].r0 && st.R < props[k].deadline {
				props[k].yes++
			}
		}
		props[k].approved = props[k].yes >= props[k].th
		props[k].end = props[k].deadline
		if props[k].approved {
			props[k].end = props[k].switchAt
		}
	}
	for k := 1; k < len(props); k++ {
		if props[k].r0 <= props[k-1].end {
			return fmt.Errorf("two proposals pending: %q proposed at round %d while %q (round %d) is unresolved until round %d",
				props[k].ver, props[k].r0, props[k-1].ver, props[k-1].r0, props[k-1].end)
		}
	}
	for i, st := range steps {
		var cover *prop
		for k := range props {
			if st.R >= props[k].r0 && st.R <= props[k].end {
				cover = &props[k]
			}
		}
		if st.Vote.UpgradeApprove && (cover == nil || st.R >= cover.deadline) {
			return fmt.Errorf("round %d: approval accepted outside any open voting window", st.R)
		}
		want := UpgradeState{CurrentProtocol: before(i)}
		switch {
		case cover == nil:
		case st.R < cover.end:
			var yes basics.Round
			for _, s2 := range steps {
				if s2.Vote.UpgradeApprove && s2.R >= cover.r0 && s2.R <= st.R && s2.R < cover.deadline {
					yes++
				}
			}
			want.NextProtocol = cover.ver
			want.NextProtocolApprovals = yes
			want.NextProtocolVoteBefore = cover.deadline
			want.NextProtocolSwitchOn = cover.switchAt
		default: // st.R == cover.end
			if cover.approved {
				want.CurrentProtocol = cover.ver
			}
		}
		if st.State != want {
			return fmt.Errorf("round %d: state %+v, history implies %+v", st.R, st.State, want)
		}
		// headline statement, spelled out separately from the state comparison
		if st.State.CurrentProtocol != before(i) {
			if cover == nil || !cover.approved || cover.switchAt != st.R || cover.ver != st.State.CurrentProtocol {
				return fmt.Errorf("round %d: protocol changed %q -> %q without an approved proposal announcing this round",
					st.R, before(i), st.State.CurrentProtocol)
			}
		}
	}
	return nil
}

// ---------------------------------------------------------------------------------------------------------------
// headers

func c26Genesis(cur protocol.ConsensusVersion, round basics.Round) BlockHeader {
	var gh crypto.Digest
	copy(gh[:], "verif-c26-genesis-hash-0123456789")
	h := BlockHeader{Round: round, GenesisID: "vk26", GenesisHash: gh, TimeStamp: 100}
	h.CurrentProtocol = cur
	h.FeeSink[0], h.RewardsPool[0] = 1, 2
	return h
}

// c26Next builds an otherwise valid successor header carrying the given vote and claimed upgrade state.
func c26Next(prev BlockHeader, v UpgradeVote, s UpgradeState) BlockHeader {
	h := BlockHeader{Round: prev.Round + 1, Branch: prev.Hash(), GenesisID: prev.GenesisID, GenesisHash: prev.GenesisHash,
		TimeStamp: prev.TimeStamp + 1, UpgradeVote: v, UpgradeState: s}
	h.FeeSink, h.RewardsPool = prev.FeeSink, prev.RewardsPool
	if params, ok := config.Consensus[s.CurrentProtocol]; ok {
		if params.EnableSha512BlockHash {
			h.Branch512 = prev.Hash512()
		}
		if _, ok := config.Consensus[prev.CurrentProtocol]; ok {
			h.Bonus = NextBonus(prev, &params)
		}
		h.CongestionTax = NextCongestionTax(prev.Load, prev.CongestionTax)
		if !params.SupportGenesisHash {
			h.GenesisHash = crypto.Digest{}
		}
	}
	return h
}

func c26VoteStr(v UpgradeVote) string {
	s := "-"
	if v.UpgradePropose != "" || v.UpgradeDelay != 0 {
		s = fmt.Sprintf("P(%s,%d)", v.UpgradePropose, v.UpgradeDelay)
	}
	if v.UpgradeApprove {
		s += "+Y"
	}
	return s
}

// single-field mutants of a correct state (all different from s)
func c26FieldMutants(w *c26World, s UpgradeState) []UpgradeState {
	var out []UpgradeState
	add := func(m UpgradeState) {
		if m != s {
			out = append(out, m)
		}
	}
	for _, n := range w.names {
		m := s
		m.CurrentProtocol = n
		add(m)
		m = s
		m.NextProtocol = n
		add(m)
	}
	m := s
	m.NextProtocol = ""
	add(m)
	for _, d := range []basics.Round{1, ^basics.Round(0)} { // +1, -1 (wrapping)
		m = s
		m.NextProtocolApprovals += d
		add(m)
		m = s
		m.NextProtocolVoteBefore += d
		add(m)
		m = s
		m.NextProtocolSwitchOn += d
		add(m)
	}
	m = s
	m.NextProtocolVoteBefore = 0
	add(m)
	m = s
	m.NextProtocolSwitchOn = 0
	add(m)
	return out
}

// "semantic" mutants: the state another plausible rule would have produced at this step
func c26SemanticMutants(prevM, nextM c26Model, r basics.Round, ev c26Event) []UpgradeState {
	var out []UpgradeState
	s := nextM.state()
	if nextM.Pending != nil { // premature switch
		out = append(out, UpgradeState{CurrentProtocol: nextM.Pending.Version})
		c := s // early clear
		c.NextProtocol, c.NextProtocolApprovals, c.NextProtocolVoteBefore, c.NextProtocolSwitchOn = "", 0, 0, 0
		out = append(out, c)
	}
	if ev.Failed && ev.Old != nil { // failed proposal kept alive / switched anyway
		k := s
		k.NextProtocol, k.NextProtocolApprovals = ev.Old.Version, basics.Round(ev.Old.Yes)
		k.NextProtocolVoteBefore, k.NextProtocolSwitchOn = ev.Old.Deadline, ev.Old.SwitchAt
		out = append(out, k, UpgradeState{CurrentProtocol: ev.Old.Version})
	}
	if ev.Switched && ev.Old != nil { // switch skipped
		k := UpgradeState{CurrentProtocol: prevM.Current, NextProtocol: ev.Old.Version, NextProtocolApprovals: basics.Round(ev.Old.Yes),
			NextProtocolVoteBefore: ev.Old.Deadline, NextProtocolSwitchOn: ev.Old.SwitchAt}
		out = append(out, k, UpgradeState{CurrentProtocol: prevM.Current})
	}
	var res []UpgradeState
	for _, m := range out {
		if m != s {
			res = append(res, m)
		}
	}
	return res
}

// c26CheckStep runs the code under test on one (state, vote) and compares with the model. Returns the model's verdict.
// fail is called with a message on disagreement.
func c26CheckStep(w *c26World, m c26Model, prev BlockHeader, v UpgradeVote, mutPick int, fail func(string, ...interface{})) (next c26Model, legal bool, why string, ev c26Event, hdr BlockHeader) {
	r := prev.Round + 1
	next, legal, why, ev = m.step(w, r, v)
	got, err := prev.UpgradeState.applyUpgradeVote(r, v)
	if legal {
		if err != nil {
			fail("round %d vote %s from %+v: legal vote rejected: %v", r, c26VoteStr(v), prev.UpgradeState, err)
		}
		if got != next.state() {
			fail("round %d vote %s from %+v: code %+v, model %+v", r, c26VoteStr(v), prev.UpgradeState, got, next.state())
		}
		hdr = c26Next(prev, v, next.state())
		_, supported := w.params[next.Current]
		perr := hdr.PreCheck(prev)
		if supported && perr != nil {
			fail("round %d vote %s: PreCheck rejected the correct header: %v", r, c26VoteStr(v), perr)
		}
		if !supported && perr == nil {
			fail("round %d: PreCheck accepted a header whose protocol %q is not supported", r, next.Current)
		}
		// headers whose upgrade state differs from the rules must be rejected
		muts := append(c26SemanticMutants(m, next, r, ev), c26FieldMutants(w, next.state())...)
		if mutPick < 0 { // all
			for _, ms := range muts {
				if e := c26Next(prev, v, ms).PreCheck(prev); e == nil {
					fail("round %d vote %s: PreCheck accepted wrong upgrade state %+v (correct %+v)", r, c26VoteStr(v), ms, next.state())
				}
			}
		} else if len(muts) > 0 {
			for _, ms := range []UpgradeState{muts[mutPick%len(muts)], muts[(mutPick/97)%len(muts)]} {
				if e := c26Next(prev, v, ms).PreCheck(prev); e == nil {
					fail("round %d vote %s: PreCheck accepted wrong upgrade state %+v (correct %+v)", r, c26VoteStr(v), ms, next.state())
				}
			}
		}
		return
	}
	if err == nil {
		fail("round %d vote %s from %+v: illegal vote (%s) accepted -> %+v", r, c26VoteStr(v), prev.UpgradeState, why, got)
	}
	// no claimed state can make a header with an illegal vote acceptable
	cands := []UpgradeState{prev.UpgradeState, m.permissive(w, r, v)}
	if n2, ok, _, _ := m.step(w, r, UpgradeVote{}); ok {
		cands = append(cands, n2.state())
	}
	for _, cs := range cands {
		if e := c26Next(prev, v, cs).PreCheck(prev); e == nil {
			fail("round %d: PreCheck accepted illegal vote %s (%s) with claimed state %+v", r, c26VoteStr(v), why, cs)
		}
	}
	return
}

// ---------------------------------------------------------------------------------------------------------------
// random histories

var c26Names = []protocol.ConsensusVersion{"vk26a", "vk26bb", "vk26ccc", "vk26dddd"}

const c26Unknown = protocol.ConsensusVersion("vk26zz") // never registered
const c26TooLong = protocol.ConsensusVersion("vk26-much-too-long-name")

func c26DrawWorld(t *rapid.T) *c26World {
	n := rapid.IntRange(2, 4).Draw(t, "nproto")
	w := &c26World{params: map[protocol.ConsensusVersion]c26Params{}}
	bases := []protocol.ConsensusVersion{protocol.ConsensusCurrentVersion, protocol.ConsensusFuture, protocol.ConsensusV39, protocol.ConsensusV41}
	for i := 0; i < n; i++ {
		name := c26Names[i]
		var p c26Params
		p.VR = uint64(rapid.IntRange(1, 6).Draw(t, "vr"))
		if rapid.IntRange(0, 9).Draw(t, "thKind") == 0 {
			p.TH = uint64(rapid.IntRange(1, 7).Draw(t, "th")) // may exceed VR: proposal can never pass
		} else {
			p.TH = uint64(rapid.IntRange(1, int(p.VR)).Draw(t, "th"))
		}
		p.Min = uint64(rapid.IntRange(0, 2).Draw(t, "min"))
		if rapid.Bool().Draw(t, "min0") {
			p.Min = 0
		}
		p.Max = p.Min + uint64(rapid.IntRange(0, 3).Draw(t, "maxd"))
		p.Def = uint64(rapid.IntRange(0, 5).Draw(t, "def"))
		p.MaxLen = rapid.IntRange(5, 9).Draw(t, "maxlen")
		p.Base = bases[rapid.IntRange(0, len(bases)-1).Draw(t, "base")]
		w.names = append(w.names, name)
		w.params[name] = p
	}
	// approved upgrades: at most one per protocol, always a vote the protocol itself accepts
	for _, name := range w.names {
		p := w.params[name]
		if rapid.IntRange(0, 2).Draw(t, "hasApproved") == 0 {
			continue
		}
		var cands []protocol.ConsensusVersion
		for _, o := range w.names {
			if o != name && len(o) <= p.MaxLen {
				cands = append(cands, o)
			}
		}
		if len(c26Unknown) <= p.MaxLen && rapid.IntRange(0, 7).Draw(t, "apUnknown") == 0 {
			cands = append(cands, c26Unknown)
		}
		if len(cands) == 0 {
			continue
		}
		tgt := cands[rapid.IntRange(0, len(cands)-1).Draw(t, "apTarget")]
		d := p.Min + uint64(rapid.IntRange(0, int(p.Max-p.Min)).Draw(t, "apDelay"))
		p.Approved = map[protocol.ConsensusVersion]uint64{tgt: d}
		w.params[name] = p
	}
	return w
}

func c26DrawVote(t *rapid.T, w *c26World, m c26Model, r basics.Round, yesPct int) UpgradeVote {
	p := w.params[m.Current]
	k := rapid.IntRange(0, 99).Draw(t, "k")
	drawVersion := func() protocol.ConsensusVersion {
		x := rapid.IntRange(0, len(w.names)+1).Draw(t, "ver")
		switch {
		case x < len(w.names):
			return w.names[x]
		case x == len(w.names):
			return c26Unknown
		default:
			return c26TooLong
		}
	}
	drawDelay := func() basics.Round {
		switch rapid.IntRange(0, 9).Draw(t, "dk") {
		case 0:
			return basics.Round(p.Max + 1)
		case 1:
			if p.Min > 0 {
				return basics.Round(p.Min - 1)
			}
			return 0
		case 2:
			return basics.Round(p.Min)
		case 3:
			return basics.Round(p.Max)
		case 4:
			return basics.Round(rapid.Uint64Range(0, 8).Draw(t, "dAny"))
		default:
			return basics.Round(p.Min + rapid.Uint64Range(0, p.Max-p.Min).Draw(t, "dIn"))
		}
	}
	yes := rapid.IntRange(0, 99).Draw(t, "yes") < yesPct
	switch {
	case m.Pending == nil:
		switch {
		case k < 55:
			return UpgradeVote{UpgradePropose: drawVersion(), UpgradeDelay: drawDelay(), UpgradeApprove: yes}
		case k < 62:
			return UpgradeVote{UpgradeApprove: true}
		case k < 66:
			return UpgradeVote{UpgradeDelay: basics.Round(rapid.Uint64Range(1, 3).Draw(t, "strayDelay"))}
		default:
			return UpgradeVote{}
		}
	case r < m.Pending.Deadline:
		switch {
		case k < 5:
			return UpgradeVote{UpgradePropose: drawVersion(), UpgradeDelay: drawDelay(), UpgradeApprove: yes}
		case k < 8:
			return UpgradeVote{UpgradeDelay: 1, UpgradeApprove: yes}
		default:
			return UpgradeVote{UpgradeApprove: yes}
		}
	default: // voting closed: deadline round itself, or waiting for the switch
		switch {
		case k < 12:
			return UpgradeVote{UpgradeApprove: true}
		case k < 22:
			return UpgradeVote{UpgradePropose: drawVersion(), UpgradeDelay: drawDelay(), UpgradeApprove: yes}
		default:
			return UpgradeVote{}
		}
	}
}

func TestVerif_C26_Histories(t *testing.T) {
	vk := vkBegin(t, "C26")
	vk.Rule("2-4 temporary protocols with drawn tiny windows (vote rounds 1-6, threshold 1-7, wait 0-5, version length limit 5-9, 0/1 approved upgrade); histories of up to 80 block votes drawn per phase (idle/voting/closed) incl. illegal ones, ~25% of blocks voted by ProcessUpgradeParams/MakeBlock; each block is checked against a step model, PreCheck on correct and mutated headers, and the whole accepted history against a declarative window checker. Non-trivial = at least one proposal resolved (switch or failure at the deadline). Distinct by world + vote sequence")
	vk.Assume("headers other than the upgrade fields are made valid with the code's own NextBonus/NextCongestionTax/Hash")
	rapid.Check(t, func(t *rapid.T) {
		w := c26DrawWorld(t)
		restore := c26Register(w)
		defer restore()

		startRounds := []basics.Round{0, 1, 999, 1<<32 - 3, 1 << 40}
		prev := c26Genesis(w.names[0], startRounds[rapid.IntRange(0, len(startRounds)-1).Draw(t, "start")])
		initCur := prev.CurrentProtocol
		m := c26Model{Current: initCur}
		nsteps := rapid.IntRange(5, 80).Draw(t, "nsteps")
		yesPct := []int{20, 50, 70, 85, 100}[rapid.IntRange(0, 4).Draw(t, "yesPct")]
		honestPct := []int{0, 25, 25, 60, 100}[rapid.IntRange(0, 4).Draw(t, "honestPct")]
		var steps []c26Step
		var fp strings.Builder
		fp.WriteString(w.String())
		fmt.Fprintf(&fp, "@%d ", prev.Round)
		switches, failures, illegal, honest := 0, 0, 0, 0
		fail := func(f string, a ...interface{}) {
			t.Fatalf("%s\nworld: %s\nhistory: %s", fmt.Sprintf(f, a...), w, fp.String())
		}
		for i := 0; i < nsteps; i++ {
			r := prev.Round + 1
			var v UpgradeVote
			isHonest := rapid.IntRange(0, 99).Draw(t, "honest") < honestPct
			if isHonest {
				uv, us, err := ProcessUpgradeParams(prev)
				if err != nil {
					fail("round %d: ProcessUpgradeParams failed: %v", r, err)
				}
				// documented policy
				p := w.params[m.Current]
				var want UpgradeVote
				if m.Pending == nil {
					for k, d := range p.Approved {
						want = UpgradeVote{UpgradePropose: k, UpgradeDelay: basics.Round(d), UpgradeApprove: true}
					}
				} else if r < m.Pending.Deadline {
					_, ok := p.Approved[m.Pending.Version]
					want.UpgradeApprove = ok
				}
				if uv != want {
					fail("round %d: ProcessUpgradeParams voted %s, policy says %s", r, c26VoteStr(uv), c26VoteStr(want))
				}
				nm, legal, why, _ := m.step(w, r, uv)
				if !legal {
					fail("round %d: ProcessUpgradeParams produced an illegal vote %s (%s)", r, c26VoteStr(uv), why)
				}
				if us != nm.state() {
					fail("round %d: ProcessUpgradeParams state %+v, model %+v", r, us, nm.state())
				}
				if _, ok := w.params[nm.Current]; ok {
					blk := MakeBlock(prev)
					if blk.UpgradeVote != uv || blk.UpgradeState != us {
						fail("round %d: MakeBlock upgrade fields differ from ProcessUpgradeParams", r)
					}
					if e := blk.BlockHeader.PreCheck(prev); e != nil {
						fail("round %d: MakeBlock header fails PreCheck: %v", r, e)
					}
				}
				v = uv
				honest++
				fp.WriteString("h")
			} else {
				v = c26DrawVote(t, w, m, r, yesPct)
			}
			fp.WriteString(c26VoteStr(v))
			fp.WriteString(" ")
			mutPick := rapid.IntRange(0, 9408).Draw(t, "mutPick")
			next, legal, why, ev, hdr := c26CheckStep(w, m, prev, v, mutPick, fail)
			if !legal {
				illegal++
				vk.Label("illegal:" + why)
				continue
			}
			steps = append(steps, c26Step{R: r, Vote: v, State: hdr.UpgradeState})
			if ev.Proposed {
				vk.Label("proposal")
				if ev.DefaultDelay {
					vk.Label("proposal:default-delay")
				}
				if len(v.UpgradePropose) == w.params[m.Current].MaxLen {
					vk.Label("proposal:len==max")
				}
			}
			if ev.Failed {
				failures++
				vk.Label("failed")
				if ev.FailedYes+1 == ev.TH {
					vk.Label("failed:one-short")
				}
			}
			if ev.Switched {
				switches++
				vk.Label("switch")
				if ev.Old.Yes == ev.TH {
					vk.Label("switch:exact-threshold")
				}
				if ev.Old.SwitchAt == ev.Old.Deadline {
					vk.Label("switch:at-deadline(wait0)")
				}
			}
			m, prev = next, hdr
			if _, ok := w.params[m.Current]; !ok {
				vk.Label("switch-to-unsupported")
				// nothing can follow under an unknown protocol
				if _, err := prev.UpgradeState.applyUpgradeVote(prev.Round+1, UpgradeVote{}); err == nil {
					fail("round %d: vote applied under unsupported protocol %q", prev.Round+1, m.Current)
				}
				break
			}
		}
		if err := c26CheckHistory(w, initCur, steps); err != nil {
			fail("history invariant: %v", err)
		}
		nt := switches+failures > 0
		vk.Case(nt, fp.String())
		vk.Labelf("switches=%d", c26Min(switches, 3))
		vk.Labelf("failures=%d", c26Min(failures, 3))
		if illegal > 0 {
			vk.Label("has-illegal")
		}
		if honest > 0 {
			vk.Label("has-honest")
		}
		vk.Add("blocks", int64(len(steps)))
		vk.Add("illegal_votes", int64(illegal))
		if vk.WantSample(nt) {
			vk.Sample(nt, fp.String())
		}
	})
}

func c26Min(a, b int) int {
	if a < b {
		return a
	}
	return b
}

// ---------------------------------------------------------------------------------------------------------------
// exhaustive small sub-space

type c26ExhSet struct {
	A, B c26Params // B is the only registered target; "vk26ccc" is proposed too but unsupported
}

func c26ExhSets() []c26ExhSet {
	mk := func(vr, th, def, min, max uint64) c26Params {
		return c26Params{VR: vr, TH: th, Def: def, Min: min, Max: max, MaxLen: 7}
	}
	b := mk(2, 1, 0, 0, 1)
	return []c26ExhSet{
		{mk(2, 2, 1, 0, 2), b},
		{mk(2, 1, 0, 0, 1), b},
		{mk(3, 2, 2, 0, 2), b},
		{mk(3, 3, 0, 0, 0), b},
		{mk(1, 1, 1, 0, 1), b},
		{mk(2, 2, 0, 1, 2), b},
		{mk(4, 2, 1, 0, 1), b},
		{mk(3, 1, 1, 1, 1), b},
		{mk(2, 3, 1, 0, 1), b}, // threshold unreachable
		{mk(4, 4, 0, 0, 1), b},
		{mk(3, 2, 0, 0, 1), mk(1, 1, 2, 0, 2)},
		{mk(2, 2, 2, 2, 2), b},
		{mk(5, 3, 0, 0, 0), b},
		{mk(1, 1, 0, 0, 0), mk(1, 1, 0, 0, 0)},
		{mk(3, 3, 1, 0, 2), b},
		{mk(2, 1, 2, 1, 3), b},
	}
}

func TestVerif_C26_Exhaustive(t *testing.T) {
	vk := vkBegin(t, "C26")
	budget := int64(vkN(3000, 100000))
	vk.Rule(fmt.Sprintf("for each tiny parameter set, every vote sequence up to the largest length (<= 14) whose tree has <= %d nodes, over the alphabet propose in {none, vk26bb (registered), vk26ccc (unsupported), 8-char name (too long)} x delay 0..3 x approve {no,yes}: each symbol is tried at every reachable node (illegal ones must be rejected and are not extended); every maximal path is checked with the declarative history checker. Non-trivial = path with a resolved proposal; distinct by set + path", budget))
	sets := c26ExhSets()
	type sym = UpgradeVote
	var alphabet []sym
	for _, pv := range []protocol.ConsensusVersion{"", "vk26bb", "vk26ccc", "vk26eeee"} {
		for d := 0; d <= 3; d++ {
			for _, y := range []bool{false, true} {
				alphabet = append(alphabet, UpgradeVote{UpgradePropose: pv, UpgradeDelay: basics.Round(d), UpgradeApprove: y})
			}
		}
	}
	var nodes, paths int64
	for si, set := range sets {
		if si%vkNShards() != vkShard() {
			continue
		}
		if !vkThorough() && si >= 8 {
			continue
		}
		func() {
			w := &c26World{names: []protocol.ConsensusVersion{"vk26a", "vk26bb"},
				params: map[protocol.ConsensusVersion]c26Params{"vk26a": set.A, "vk26bb": set.B}}
			restore := c26Register(w)
			defer restore()
			// largest depth whose tree (counted with the model alone) fits the node budget
			var count func(m c26Model, r basics.Round, d, depth int, n *int64)
			count = func(m c26Model, r basics.Round, d, depth int, n *int64) {
				*n++
				if d == depth || *n > budget {
					return
				}
				if _, ok := w.params[m.Current]; !ok {
					return
				}
				for _, v := range alphabet {
					if nx, ok, _, _ := m.step(w, r+1, v); ok {
						count(nx, r+1, d+1, depth, n)
					}
				}
			}
			depth := 4
			for d := 5; d <= 14; d++ {
				var n int64
				count(c26Model{Current: "vk26a"}, 0, 0, d, &n)
				if n > budget {
					break
				}
				depth = d
			}
			vk.Labelf("exh:depth=%d", depth)
			gen := c26Genesis("vk26a", 0)
			var path []string
			var steps []c26Step
			resolved := 0
			fail := func(f string, a ...interface{}) {
				vk.Failf(map[string]interface{}{"set": si, "world": w.String(), "path": strings.Join(path, " ")},
					"%s | set %d world %s path %s", fmt.Sprintf(f, a...), si, w, strings.Join(path, " "))
			}
			var dfs func(m c26Model, prev BlockHeader, d int)
			leaf := func() {
				paths++
				if err := c26CheckHistory(w, "vk26a", steps); err != nil {
					fail("history invariant: %v", err)
				}
				fp := fmt.Sprintf("set%d:%s", si, strings.Join(path, " "))
				vk.Case(resolved > 0, fp)
				if vk.WantSample(resolved > 0) {
					vk.Sample(resolved > 0, fp)
				}
			}
			dfs = func(m c26Model, prev BlockHeader, d int) {
				nodes++
				if d == depth {
					leaf()
					return
				}
				if _, ok := w.params[m.Current]; !ok {
					if _, err := prev.UpgradeState.applyUpgradeVote(prev.Round+1, UpgradeVote{}); err == nil {
						fail("vote applied under unsupported protocol")
					}
					vk.Label("exh:switch-to-unsupported")
					leaf()
					return
				}
				for ai, v := range alphabet {
					path = append(path, c26VoteStr(v))
					next, legal, why, ev, hdr := c26CheckStep(w, m, prev, v, int(nodes)*31+ai, fail)
					if legal {
						steps = append(steps, c26Step{R: prev.Round + 1, Vote: v, State: hdr.UpgradeState})
						if ev.Failed || ev.Switched {
							resolved++
						}
						dfs(next, hdr, d+1)
						if ev.Failed || ev.Switched {
							resolved--
						}
						steps = steps[:len(steps)-1]
					} else {
						vk.Add("exh_illegal:"+why, 1)
					}
					path = path[:len(path)-1]
				}
			}
			dfs(c26Model{Current: "vk26a"}, gen, 0)
			vk.Exhaustive(fmt.Sprintf("parameter set %d (%s): all vote sequences of length <= %d over a 32-symbol alphabet", si, w, depth))
		}()
	}
	vk.Add("exh_nodes", nodes)
	vk.Add("exh_paths", paths)
}
