package bookkeeping

// C25 — Rewards accounting distributes exactly the rewards rate.
//
// Subject: RewardsState.NextRewardsState. Oracle: math/big restatement of the property
//   (L'-L)*U + R' - R == rate in effect,   R' < U,
//   newRate*interval <= pool - MinBalance (- R if PendingResidueRewards) < (newRate+1)*interval,
// plus the documented fallbacks (no units / overflow: level and residue keep their old values; negative budget: rate 0),
// and history-level invariants over chains of rounds in which the pool is debited the way ledger/eval does it.

import (
	"bytes"
	"fmt"
	"math"
	"math/big"
	"testing"

	"github.com/algorand/go-algorand/config"
	"github.com/algorand/go-algorand/data/basics"
	"github.com/algorand/go-algorand/logging"
	"github.com/algorand/go-algorand/protocol"
	"pgregory.net/rapid"
)

var c25Max64 = new(big.Int).SetUint64(math.MaxUint64)

func c25B(x uint64) *big.Int { return new(big.Int).SetUint64(x) }

// boundary-heavy uint64
func c25U64() *rapid.Generator[uint64] {
	return rapid.Custom(func(t *rapid.T) uint64 {
		switch rapid.IntRange(0, 9).Draw(t, "kind") {
		case 0:
			return rapid.Uint64().Draw(t, "u")
		case 1:
			return rapid.Uint64Range(0, 3).Draw(t, "small")
		case 2:
			return math.MaxUint64 - rapid.Uint64Range(0, 3).Draw(t, "nearmax")
		case 3:
			return uint64(1<<32) + uint64(rapid.IntRange(-2, 2).Draw(t, "s32"))
		case 4:
			return uint64(1<<63) + uint64(rapid.IntRange(-2, 2).Draw(t, "s63"))
		case 5, 6:
			k := rapid.IntRange(1, 63).Draw(t, "k")
			return (uint64(1) << uint(k)) + rapid.Uint64Range(0, 2).Draw(t, "d") - 1
		default:
			k := rapid.IntRange(1, 64).Draw(t, "bits")
			return rapid.Uint64().Draw(t, "u") >> uint(64-k)
		}
	})
}

// realistic magnitudes (microalgos up to 10^16, units up to 10^10)
func c25Real(max uint64) *rapid.Generator[uint64] {
	return rapid.Custom(func(t *rapid.T) uint64 {
		switch rapid.IntRange(0, 5).Draw(t, "rk") {
		case 0:
			return rapid.Uint64Range(0, 5).Draw(t, "tiny")
		case 1:
			return max - rapid.Uint64Range(0, 5).Draw(t, "top")
		default:
			k := rapid.IntRange(1, 63).Draw(t, "rbits")
			v := rapid.Uint64().Draw(t, "rv") >> uint(64-k)
			if v > max {
				v %= max + 1
			}
			return v
		}
	})
}

type c25In struct {
	S           RewardsState
	NextRound   basics.Round
	Pool, Units uint64
	Pending     bool
	Fix         bool
	Interval    uint64
	MinBalance  uint64
}

func (in c25In) proto() config.ConsensusParams {
	p := config.Consensus[protocol.ConsensusCurrentVersion]
	p.PendingResidueRewards = in.Pending
	p.RewardsCalculationFix = in.Fix
	p.RewardsRateRefreshInterval = in.Interval
	p.MinBalance = in.MinBalance
	return p
}

func (in c25In) String() string {
	return fmt.Sprintf("L%d/rate%d/R%d/recalc%d next%d pool%d U%d pend%v fix%v I%d MB%d", in.S.RewardsLevel, in.S.RewardsRate,
		in.S.RewardsResidue, in.S.RewardsRecalculationRound, in.NextRound, in.Pool, in.Units, in.Pending, in.Fix, in.Interval, in.MinBalance)
}

type c25Out struct {
	Refresh, NoUnits, Overflow, NegBudget bool
	RateEff                             *big.Int
	Distributed                         *big.Int // (L'-L)*U
}

// c25Check verifies one NextRewardsState call against the property; returns a description of a violation or "".
func c25Check(in c25In, res RewardsState, logged bool) (out c25Out, bad string) {
	s := in.S
	L, R, U := c25B(s.RewardsLevel), c25B(s.RewardsResidue), c25B(in.Units)
	out.Refresh = in.NextRound == s.RewardsRecalculationRound
	if res.FeeSink != s.FeeSink || res.RewardsPool != s.RewardsPool {
		return out, "special addresses changed"
	}
	// --- rate
	if out.Refresh {
		budget := new(big.Int).Sub(c25B(in.Pool), c25B(in.MinBalance))
		if in.Pending {
			budget.Sub(budget, R)
		}
		I := c25B(in.Interval)
		sched := new(big.Int).Mul(c25B(res.RewardsRate), I)
		if budget.Sign() < 0 {
			out.NegBudget = true
			if res.RewardsRate != 0 {
				return out, fmt.Sprintf("pool below its floor but refreshed rate is %d", res.RewardsRate)
			}
		} else {
			if sched.Cmp(budget) > 0 {
				return out, fmt.Sprintf("refresh schedules %s over the interval, pool holds only %s above its floor", sched, budget)
			}
			if new(big.Int).Add(sched, I).Cmp(budget) <= 0 {
				return out, fmt.Sprintf("refresh schedules %s, more than one whole interval (%d) below the budget %s", sched, in.Interval, budget)
			}
		}
		want := new(big.Int).Add(c25B(uint64(in.NextRound)), I)
		if want.Cmp(c25Max64) <= 0 && uint64(res.RewardsRecalculationRound) != want.Uint64() {
			return out, fmt.Sprintf("next recalculation round %d, want %s", res.RewardsRecalculationRound, want)
		}
	} else {
		if res.RewardsRate != s.RewardsRate {
			return out, fmt.Sprintf("rate changed %d -> %d outside a refresh round", s.RewardsRate, res.RewardsRate)
		}
		if res.RewardsRecalculationRound != s.RewardsRecalculationRound {
			return out, "recalculation round changed outside a refresh round"
		}
	}
	// --- rate in effect
	eff := s.RewardsRate
	if in.Fix {
		eff = res.RewardsRate
	}
	out.RateEff = c25B(eff)
	out.Distributed = new(big.Int)
	// --- level / residue
	if in.Units == 0 {
		out.NoUnits = true
		if res.RewardsLevel != s.RewardsLevel || res.RewardsResidue != s.RewardsResidue {
			return out, "no reward units but level/residue changed"
		}
		return out, ""
	}
	tot := new(big.Int).Add(out.RateEff, R)
	q := new(big.Int).Quo(tot, U)
	if tot.Cmp(c25Max64) > 0 || new(big.Int).Add(L, q).Cmp(c25Max64) > 0 {
		out.Overflow = true
		if res.RewardsLevel != s.RewardsLevel || res.RewardsResidue != s.RewardsResidue {
			return out, "unrepresentable result but level/residue changed (documented fallback: keep the old level)"
		}
		if !logged {
			return out, "overflow fallback taken silently (no error logged)"
		}
		return out, ""
	}
	if res.RewardsLevel < s.RewardsLevel {
		return out, "rewards level decreased"
	}
	dL := new(big.Int).Sub(c25B(res.RewardsLevel), L)
	out.Distributed.Mul(dL, U)
	lhs := new(big.Int).Add(out.Distributed, c25B(res.RewardsResidue))
	lhs.Sub(lhs, R)
	if lhs.Cmp(out.RateEff) != 0 {
		return out, fmt.Sprintf("(L'-L)*U + R' - R = %s but the rate in effect is %s", lhs, out.RateEff)
	}
	if res.RewardsResidue >= in.Units {
		return out, fmt.Sprintf("residue %d not below the number of reward units %d", res.RewardsResidue, in.Units)
	}
	return out, ""
}

func c25DrawIn(t *rapid.T) c25In {
	var in c25In
	wild := rapid.IntRange(0, 9).Draw(t, "wild") < 4
	g := c25Real(1e16)
	gu := c25Real(1e10)
	if wild {
		g, gu = c25U64(), c25U64()
	}
	in.S.RewardsLevel = g.Draw(t, "level")
	in.S.RewardsRate = g.Draw(t, "rate")
	in.S.RewardsResidue = gu.Draw(t, "residue")
	in.S.FeeSink[0], in.S.RewardsPool[0] = 7, 9
	in.Pool = g.Draw(t, "pool")
	in.Units = gu.Draw(t, "units")
	if in.Units == 0 && rapid.IntRange(0, 4).Draw(t, "keepZeroUnits") > 0 {
		in.Units = 1 + rapid.Uint64Range(0, 1000).Draw(t, "unitsNZ")
	}
	if !wild && rapid.Bool().Draw(t, "rateAboveUnits") && in.S.RewardsRate < in.Units {
		in.S.RewardsRate, in.Units = in.Units, in.S.RewardsRate+1
	}
	if rapid.IntRange(0, 3).Draw(t, "resLtU") > 0 && in.Units > 0 {
		in.S.RewardsResidue %= in.Units // the usual situation: residue below the unit count
	}
	in.Pending = rapid.Bool().Draw(t, "pending")
	in.Fix = rapid.Bool().Draw(t, "fix")
	switch rapid.IntRange(0, 5).Draw(t, "ik") {
	case 0:
		in.Interval = rapid.Uint64Range(1, 4).Draw(t, "ismall")
	case 1:
		in.Interval = 500000
	case 2:
		in.Interval = c25U64().Draw(t, "iwild")
	default:
		in.Interval = rapid.Uint64Range(1, 1000000).Draw(t, "imid")
	}
	if in.Interval == 0 {
		in.Interval = 1 // every protocol has a positive refresh interval (division by it)
	}
	switch rapid.IntRange(0, 5).Draw(t, "mk") {
	case 0:
		in.MinBalance = 0
	case 1, 2, 3:
		in.MinBalance = 100000
		if rapid.IntRange(0, 5).Draw(t, "mbWild") == 0 {
			in.MinBalance = c25U64().Draw(t, "mbwild")
		}
	default:
		// around the pool balance: budget near zero on either side
		d := rapid.Uint64Range(0, 3).Draw(t, "mbd")
		if rapid.Bool().Draw(t, "mbAbove") {
			in.MinBalance = basics.AddSaturate(in.Pool, d)
		} else {
			in.MinBalance = basics.SubSaturate(in.Pool, d)
		}
		if in.Pending && rapid.Bool().Draw(t, "mbMinusR") {
			in.MinBalance = basics.SubSaturate(in.MinBalance, in.S.RewardsResidue)
		}
	}
	if !wild && rapid.Bool().Draw(t, "poolAboveFloor") {
		in.Pool = basics.AddSaturate(in.Pool, in.MinBalance)
	}
	in.S.RewardsRecalculationRound = basics.Round(c25U64().Draw(t, "recalc"))
	switch rapid.IntRange(0, 3).Draw(t, "rk") {
	case 0, 1:
		in.NextRound = in.S.RewardsRecalculationRound
	case 2:
		in.NextRound = in.S.RewardsRecalculationRound + basics.Round(rapid.IntRange(-2, 2).Draw(t, "near"))
	default:
		in.NextRound = basics.Round(c25U64().Draw(t, "next"))
	}
	return in
}

func TestVerif_C25_Step(t *testing.T) {
	vk := vkBegin(t, "C25")
	vk.Rule("single NextRewardsState calls: state/pool/units from a realistic profile (<=1e16 / <=1e10) or a boundary-heavy uint64 profile (0,1,2^32+-1,2^63+-1,2^k,MaxUint64), both protocol flags, refresh interval 1..4/500000/wild, MinBalance 0/100000/wild/around the pool balance, nextRound == / near / far from the recalculation round. Non-trivial = refresh round, overflow fallback, or a round that both raises the level and leaves a residue. Distinct by input tuple")
	var buf bytes.Buffer
	log := logging.NewLogger()
	log.SetOutput(&buf)
	rapid.Check(t, func(t *rapid.T) {
		in := c25DrawIn(t)
		buf.Reset()
		res := in.S.NextRewardsState(in.NextRound, in.proto(), basics.MicroAlgos{Raw: in.Pool}, in.Units, log)
		out, bad := c25Check(in, res, buf.Len() > 0)
		if bad != "" {
			t.Fatalf("%s\ninput: %s\nresult: %+v", bad, in, res)
		}
		if !out.Overflow && !out.NegBudget && buf.Len() > 0 {
			// an error is logged only on the "should never happen" paths; MinBalance+residue overflow is one of them
			if !(out.Refresh && in.Pending && new(big.Int).Add(c25B(in.MinBalance), c25B(in.S.RewardsResidue)).Cmp(c25Max64) > 0) {
				t.Fatalf("error logged on a regular path: %s\ninput: %s", buf.String(), in)
			}
		}
		nt := out.Refresh || out.Overflow || (!out.NoUnits && out.Distributed.Sign() > 0 && res.RewardsResidue != 0)
		switch {
		case out.Overflow:
			vk.Label("overflow-fallback")
		case out.NoUnits:
			vk.Label("no-units")
		case out.Distributed.Sign() > 0:
			vk.Label("level-raised")
		default:
			vk.Label("level-kept")
		}
		if out.Refresh {
			vk.Label("refresh")
			if out.NegBudget {
				vk.Label("refresh:pool-below-floor")
			} else if res.RewardsRate == 0 {
				vk.Label("refresh:rate0")
			}
			if in.Fix {
				vk.Label("refresh:fix")
			}
			if in.Pending {
				vk.Label("refresh:pending-residue")
			}
		}
		vk.Case(nt, in.String())
		if vk.WantSample(nt) {
			vk.Sample(nt, in.String())
		}
	})
}

// chains of consecutive rounds with the pool debited like ledger/eval.StartEvaluator does
func TestVerif_C25_Chain(t *testing.T) {
	vk := vkBegin(t, "C25")
	vk.Rule("chains of 1-50 consecutive rounds from a drawn state, tiny refresh intervals (1-8) so several refreshes occur, reward units drifting per round, pool debited by (L'-L)*U each round and occasionally credited; per-round property + telescoped sum + pool-stays-above-MinBalance between refreshes (both fixes on). Non-trivial = chain with >=1 refresh and >=2 level raises. Distinct by start state + per-round inputs")
	var buf bytes.Buffer
	log := logging.NewLogger()
	log.SetOutput(&buf)
	rapid.Check(t, func(t *rapid.T) {
		n := rapid.IntRange(1, 50).Draw(t, "n")
		if n < 20 && rapid.IntRange(0, 3).Draw(t, "longer") > 0 {
			n += 20
		}
		var in c25In
		in.Pending = rapid.IntRange(0, 3).Draw(t, "pending") > 0
		in.Fix = rapid.IntRange(0, 3).Draw(t, "fix") > 0
		in.Interval = rapid.Uint64Range(1, 8).Draw(t, "interval")
		in.MinBalance = []uint64{0, 1, 100000}[rapid.IntRange(0, 2).Draw(t, "mb")]
		units := uint64(rapid.IntRange(0, 5000).Draw(t, "units"))
		if rapid.IntRange(0, 3).Draw(t, "bigUnits") == 0 {
			units = c25Real(1e10).Draw(t, "unitsBig")
		}
		big64 := rapid.IntRange(0, 9).Draw(t, "huge") == 0
		if big64 {
			in.S.RewardsLevel = math.MaxUint64 - rapid.Uint64Range(0, 1000).Draw(t, "level")
			in.Pool = c25U64().Draw(t, "pool")
		} else {
			in.S.RewardsLevel = c25Real(1e12).Draw(t, "level")
			in.Pool = in.MinBalance + c25Real(1e13).Draw(t, "poolAbove")
			if rapid.IntRange(0, 2).Draw(t, "poolScaled") > 0 {
				// a pool worth a few hundred rounds of about one level step each
				in.Pool = in.MinBalance + units*in.Interval*uint64(rapid.IntRange(0, 300).Draw(t, "poolRounds")) + c25Real(1e6).Draw(t, "poolExtra")
			}
			if rapid.IntRange(0, 7).Draw(t, "poolLow") == 0 {
				in.Pool = rapid.Uint64Range(0, in.MinBalance+3).Draw(t, "poolLowV")
			}
		}
		in.S.RewardsRate = c25Real(1e9).Draw(t, "rate")
		if !big64 && rapid.IntRange(0, 3).Draw(t, "rateFits") > 0 && in.Pool > in.MinBalance {
			// a rate the pool can sustain for a while (what a previous refresh would have produced)
			in.S.RewardsRate = (in.Pool - in.MinBalance) / (in.Interval * uint64(rapid.IntRange(1, 4).Draw(t, "rateDiv")))
		}
		if units > 0 {
			in.S.RewardsResidue = rapid.Uint64Range(0, units-1).Draw(t, "residue")
		}
		round := basics.Round(rapid.Uint64Range(0, 1000).Draw(t, "round0"))
		in.S.RewardsRecalculationRound = round + 1 + basics.Round(rapid.Uint64Range(0, in.Interval).Draw(t, "toRefresh"))
		in.S.FeeSink[0], in.S.RewardsPool[0] = 7, 9
		fp := in.String()

		sumRate, sumDist := new(big.Int), new(big.Int)
		r0 := c25B(in.S.RewardsResidue)
		refreshes, raises, overflows := 0, 0, 0
		guarded := false // a refresh with a non-negative budget happened and no credit/overflow since: pool must stay >= MinBalance
		for i := 0; i < n; i++ {
			in.NextRound = round + 1
			// units drift
			switch rapid.IntRange(0, 5).Draw(t, "drift") {
			case 0:
				units += uint64(rapid.IntRange(0, 50).Draw(t, "up"))
			case 1:
				units = basics.SubSaturate(units, uint64(rapid.IntRange(0, 50).Draw(t, "down")))
			case 2:
				if rapid.IntRange(0, 9).Draw(t, "zeroUnits") == 0 {
					units = 0
				}
			}
			in.Units = units
			fp += fmt.Sprintf("|U%d", units)
			buf.Reset()
			res := in.S.NextRewardsState(in.NextRound, in.proto(), basics.MicroAlgos{Raw: in.Pool}, in.Units, log)
			out, bad := c25Check(in, res, buf.Len() > 0)
			if bad != "" {
				t.Fatalf("round %d: %s\ninput: %s\nresult: %+v\nchain: %s", in.NextRound, bad, in, res, fp)
			}
			if out.Refresh {
				refreshes++
				// only a refresh that found the pool above its floor (incl. the residue) gives the guarantee
				floor := new(big.Int).Add(c25B(in.MinBalance), c25B(in.S.RewardsResidue))
				guarded = in.Fix && in.Pending && c25B(in.Pool).Cmp(floor) >= 0
			}
			if out.Overflow {
				overflows++
			} else if !out.NoUnits {
				sumRate.Add(sumRate, out.RateEff)
				sumDist.Add(sumDist, out.Distributed)
				if out.Distributed.Sign() > 0 {
					raises++
				}
			}
			// telescoped: everything distributed so far == all rates in effect - residue change
			lhs := new(big.Int).Add(sumDist, c25B(res.RewardsResidue))
			lhs.Sub(lhs, r0)
			if lhs.Cmp(sumRate) != 0 {
				t.Fatalf("round %d: distributed %s + residue change != sum of rates %s\nchain: %s", in.NextRound, sumDist, sumRate, fp)
			}
			// debit the pool the way StartEvaluator does
			newPool := new(big.Int).Sub(c25B(in.Pool), out.Distributed)
			if guarded {
				if newPool.Cmp(c25B(in.MinBalance)) < 0 {
					t.Fatalf("round %d: pool %s fell below MinBalance %d although the last refresh budgeted the interval\nchain: %s", in.NextRound, newPool, in.MinBalance, fp)
				}
			}
			if newPool.Sign() < 0 {
				// the evaluator would refuse this block; a chain cannot continue
				vk.Label("chain:pool-exhausted")
				break
			}
			in.Pool = newPool.Uint64()
			if rapid.IntRange(0, 9).Draw(t, "credit") == 0 {
				c := c25Real(1e9).Draw(t, "creditAmt")
				in.Pool = basics.AddSaturate(in.Pool, c)
				fp += fmt.Sprintf("+%d", c)
			}
			in.S = res
			round++
		}
		nt := refreshes >= 1 && raises >= 2
		vk.Labelf("refreshes=%d", c25Min(refreshes, 4))
		if overflows > 0 {
			vk.Label("chain:overflow")
		}
		if raises == 0 {
			vk.Label("chain:no-raise")
		}
		if in.Fix && in.Pending {
			vk.Label("chain:both-fixes")
		}
		vk.Case(nt, fp)
		if vk.WantSample(nt) {
			vk.Sample(nt, fp)
		}
	})
}

func c25Min(a, b int) int {
	if a < b {
		return a
	}
	return b
}
