package bookkeeping

// C41 native fuzz targets (thorough tier only) for the wire types of this package; seed corpora live in
// /verif/corpus/<FuzzName>/ (written once by TestVerif_C41_WriteCorpus_* with VERIF_WRITE_CORPUS=<dir>).

import "testing"

func FuzzVerif_C41_Block(f *testing.F) { c41FuzzRun(f, "Block") }

func TestVerif_C41_WriteCorpus_data_bookkeeping(t *testing.T) {
	c41WriteCorpus(t, "FuzzVerif_C41_Block", "Block")
}
