package bookkeeping

// C29 — Group and block commitments bind their contents (bookkeeping part).
//
//  * Payset: Block.PaysetCommit is compared with an independent re-implementation of the three commitments (flat hash,
//    SHA-512/256 Merkle array, SHA-256 / SHA-512 vector commitments) built only on the Go standard library hashes and the
//    domain-separation prefixes of the specification; Block.ContentsMatchHeader must be true for the untouched block and
//    false after every single mutation of the payset, of a commitment, or of the header fields the leaves depend on.
//  * Branch: BlockHeader.PreCheck accepts a successor whose Branch/Branch512 are the (independently computed) hashes of
//    the previous header, and rejects any successor linked to something else (bit flip, hash of a header that differs
//    in one field, wrong round, other genesis).

import (
	"crypto/sha256"
	"crypto/sha512"
	"fmt"
	"math/bits"
	"testing"

	"github.com/algorand/go-algorand/config"
	"github.com/algorand/go-algorand/crypto"
	"github.com/algorand/go-algorand/data/basics"
	"github.com/algorand/go-algorand/data/committee"
	"github.com/algorand/go-algorand/data/transactions"
	"github.com/algorand/go-algorand/protocol"
	"pgregory.net/rapid"
)

// ---------------------------------------------------------------------------------------------------------------
// independent reference

const (
	c29S512_256 = iota
	c29S256
	c29S512
)

func c29H(kind int, parts ...[]byte) []byte {
	var buf []byte
	for _, p := range parts {
		buf = append(buf, p...)
	}
	switch kind {
	case c29S512_256:
		d := sha512.Sum512_256(buf)
		return d[:]
	case c29S256:
		d := sha256.Sum256(buf)
		return d[:]
	default:
		d := sha512.Sum512(buf)
		return d[:]
	}
}

func c29Size(kind int) int {
	if kind == c29S512 {
		return 64
	}
	return 32
}

// leaf of the transaction tree: H("TL" || txid || hash(SignedTxnInBlock)). The SHA-512/256 tree uses SHA-512/256 for the
// two inner hashes; the SHA-256 and the SHA-512 trees both use SHA-256 for them (txn_merkle.go: RawLeaf).
func c29Leaf(kind int, full transactions.Transaction, stib transactions.SignedTxnInBlock) []byte {
	inner := c29S512_256
	if kind != c29S512_256 {
		inner = c29S256
	}
	txid := c29H(inner, []byte("TX"), protocol.Encode(&full))
	sh := c29H(inner, []byte("STIB"), protocol.Encode(&stib))
	return c29H(kind, []byte("TL"), txid, sh)
}

// plain Merkle array: pairs hashed as H("MA" || left || right), a missing right sibling is all zeros; empty -> nil
func c29MerkleRoot(kind int, layer [][]byte) []byte {
	if len(layer) == 0 {
		return nil
	}
	for len(layer) > 1 {
		var up [][]byte
		for i := 0; i < len(layer); i += 2 {
			r := make([]byte, c29Size(kind))
			if i+1 < len(layer) {
				r = layer[i+1]
			}
			up = append(up, c29H(kind, []byte("MA"), layer[i], r))
		}
		layer = up
	}
	return layer[0]
}

// vector commitment: pad to a power of two with H("MB"), element i sits at the bit-reversed position
func c29VCRoot(kind int, leaves [][]byte) []byte {
	n := len(leaves)
	path, padded := 1, 1
	if n > 1 {
		path = bits.Len64(uint64(n - 1))
		padded = 1 << uint(path)
	}
	arr := make([][]byte, padded)
	for pos := 0; pos < padded; pos++ {
		idx := int(bits.Reverse64(uint64(pos)) >> uint(64-path))
		if idx < n {
			arr[pos] = leaves[idx]
		} else {
			arr[pos] = c29H(kind, []byte("MB"))
		}
	}
	return c29MerkleRoot(kind, arr)
}

type c29Plan struct {
	flat, merkle, s256, s512 bool
}

func c29PlanOf(v protocol.ConsensusVersion) (c29Plan, bool) {
	// written from the release notes, not read from config.Consensus: v11 flat, v26 Merkle, v34 +SHA-256, v41 +SHA-512
	switch v {
	case protocol.ConsensusV25:
		return c29Plan{flat: true}, true
	case protocol.ConsensusV26, protocol.ConsensusV33:
		return c29Plan{merkle: true}, true
	case protocol.ConsensusV34, protocol.ConsensusV40:
		return c29Plan{merkle: true, s256: true}, true
	case protocol.ConsensusV41, protocol.ConsensusCurrentVersion, protocol.ConsensusFuture:
		return c29Plan{merkle: true, s256: true, s512: true}, true
	}
	return c29Plan{}, false
}

// reference commitments of a block (ok=false: the block cannot be committed to at all)
func c29RefCommit(b Block) (tc TxnCommitments, ok bool) {
	plan, ok := c29PlanOf(b.CurrentProtocol)
	if !ok {
		return tc, false
	}
	var l0, l1, l2 [][]byte
	for _, stib := range b.Payset {
		full := stib.SignedTxn.Txn
		if full.GenesisID != "" || full.GenesisHash != (crypto.Digest{}) {
			return tc, false // malformed entry: genesis fields must be stripped inside a block
		}
		if stib.HasGenesisID {
			full.GenesisID = b.BlockHeader.GenesisID
		}
		if stib.HasGenesisHash {
			return tc, false // all plans used here require the genesis hash, the flag is then illegal
		}
		full.GenesisHash = b.BlockHeader.GenesisHash
		l0 = append(l0, c29Leaf(c29S512_256, full, stib))
		l1 = append(l1, c29Leaf(c29S256, full, stib))
		l2 = append(l2, c29Leaf(c29S512, full, stib))
	}
	if plan.flat {
		var ps transactions.Payset
		if len(b.Payset) > 0 {
			ps = b.Payset
		}
		copy(tc.NativeSha512_256Commitment[:], c29H(c29S512_256, []byte("PF"), protocol.Encode(ps)))
	}
	if plan.merkle {
		copy(tc.NativeSha512_256Commitment[:], c29MerkleRoot(c29S512_256, l0))
	}
	if plan.s256 {
		copy(tc.Sha256Commitment[:], c29VCRoot(c29S256, l1))
	}
	if plan.s512 {
		copy(tc.Sha512Commitment[:], c29VCRoot(c29S512, l2))
	}
	return tc, true
}

// ---------------------------------------------------------------------------------------------------------------
// generators

func c29Addr(t *rapid.T, name string) basics.Address {
	var a basics.Address
	a[0] = byte(rapid.IntRange(1, 6).Draw(t, name))
	a[31] = a[0] ^ 0x5a
	return a
}

var c29Versions = []protocol.ConsensusVersion{protocol.ConsensusV25, protocol.ConsensusV26, protocol.ConsensusV33, protocol.ConsensusV34,
	protocol.ConsensusV40, protocol.ConsensusV41, protocol.ConsensusCurrentVersion, protocol.ConsensusFuture}

func c29DrawTxn(t *rapid.T, hdr BlockHeader, serial int) (transactions.SignedTxn, transactions.ApplyData) {
	var tx transactions.Transaction
	tx.Sender = c29Addr(t, "snd")
	tx.Fee = basics.MicroAlgos{Raw: uint64(rapid.IntRange(0, 3000).Draw(t, "fee"))}
	tx.FirstValid = basics.Round(rapid.IntRange(0, 50).Draw(t, "fv"))
	tx.LastValid = tx.FirstValid + basics.Round(rapid.IntRange(0, 1000).Draw(t, "life"))
	tx.Note = []byte(fmt.Sprintf("c29-%d", serial)) // makes every entry of a block distinct
	if rapid.Bool().Draw(t, "hasGenID") {
		tx.GenesisID = hdr.GenesisID
	}
	tx.GenesisHash = hdr.GenesisHash
	switch rapid.IntRange(0, 3).Draw(t, "type") {
	case 0, 1:
		tx.Type = protocol.PaymentTx
		tx.Receiver = c29Addr(t, "rcv")
		tx.Amount = basics.MicroAlgos{Raw: rapid.Uint64Range(0, 1<<40).Draw(t, "amt")}
		if rapid.IntRange(0, 4).Draw(t, "close") == 0 {
			tx.CloseRemainderTo = c29Addr(t, "closeTo")
		}
	case 2:
		tx.Type = protocol.AssetTransferTx
		tx.XferAsset = basics.AssetIndex(rapid.IntRange(1, 9).Draw(t, "asset"))
		tx.AssetReceiver = c29Addr(t, "arcv")
		tx.AssetAmount = rapid.Uint64Range(0, 1000).Draw(t, "aamt")
	default:
		tx.Type = protocol.KeyRegistrationTx
		tx.VoteFirst = basics.Round(rapid.IntRange(0, 9).Draw(t, "vf"))
		tx.VoteLast = tx.VoteFirst + 100
		tx.VoteKeyDilution = 10
		tx.VotePK[0] = byte(rapid.IntRange(1, 9).Draw(t, "vpk"))
	}
	if rapid.IntRange(0, 3).Draw(t, "grouped") == 0 {
		tx.Group[0] = byte(rapid.IntRange(1, 200).Draw(t, "grp"))
	}
	st := transactions.SignedTxn{Txn: tx}
	st.Sig[0] = byte(rapid.IntRange(0, 255).Draw(t, "sig"))
	var ad transactions.ApplyData
	if rapid.Bool().Draw(t, "hasAD") {
		ad.SenderRewards.Raw = uint64(rapid.IntRange(0, 99).Draw(t, "rs"))
		ad.ReceiverRewards.Raw = uint64(rapid.IntRange(0, 99).Draw(t, "rr"))
		ad.ClosingAmount.Raw = uint64(rapid.IntRange(0, 99).Draw(t, "ca"))
	}
	return st, ad
}

func c29DrawBlock(t *rapid.T) Block {
	var b Block
	b.CurrentProtocol = c29Versions[rapid.IntRange(0, len(c29Versions)-1).Draw(t, "version")]
	b.BlockHeader.Round = basics.Round(rapid.IntRange(1, 1000).Draw(t, "round"))
	b.BlockHeader.GenesisID = []string{"c29net", "c29net-v1.0", "x"}[rapid.IntRange(0, 2).Draw(t, "gid")]
	b.BlockHeader.GenesisHash[0] = byte(rapid.IntRange(1, 255).Draw(t, "gh"))
	b.BlockHeader.GenesisHash[17] = 0x29
	var n int
	switch rapid.IntRange(0, 9).Draw(t, "sizeKind") {
	case 0:
		n = 0
	case 1:
		n = 1
	case 2:
		n = []int{2, 3, 4, 5, 7, 8, 9, 15, 16, 17, 31, 32, 33}[rapid.IntRange(0, 12).Draw(t, "edge")]
	default:
		n = rapid.IntRange(2, 40).Draw(t, "n")
	}
	for i := 0; i < n; i++ {
		st, ad := c29DrawTxn(t, b.BlockHeader, i)
		stib, err := b.EncodeSignedTxn(st, ad)
		if err != nil {
			t.Fatalf("harness: EncodeSignedTxn: %v", err)
		}
		b.Payset = append(b.Payset, stib)
	}
	return b
}

func c29Flip32(d *crypto.Digest, t *rapid.T) {
	d[rapid.IntRange(0, 31).Draw(t, "byte")] ^= 1 << uint(rapid.IntRange(0, 7).Draw(t, "bit"))
}

// c29Mutate returns a copy of the committed block with exactly one thing changed, and the name of the change.
func c29Mutate(t *rapid.T, b Block) (Block, string) {
	m := b
	m.Payset = append(transactions.Payset(nil), b.Payset...)
	n := len(m.Payset)
	plan, _ := c29PlanOf(b.CurrentProtocol)
	pickEntry := func() int { return rapid.IntRange(0, n-1).Draw(t, "entry") }
	for {
		switch k := rapid.IntRange(0, 15).Draw(t, "mutation"); k {
		case 0: // swap two entries
			if n < 2 {
				continue
			}
			i := pickEntry()
			j := rapid.IntRange(0, n-2).Draw(t, "other")
			if j >= i {
				j++
			}
			m.Payset[i], m.Payset[j] = m.Payset[j], m.Payset[i]
			return m, "swap"
		case 1: // rotate
			if n < 3 {
				continue
			}
			m.Payset = append(m.Payset[1:], m.Payset[0])
			return m, "rotate"
		case 2: // drop one
			if n < 1 {
				continue
			}
			i := pickEntry()
			m.Payset = append(m.Payset[:i], m.Payset[i+1:]...)
			if i == n-1 {
				return m, "drop-last"
			}
			return m, "drop"
		case 3: // add one
			st, ad := c29DrawTxn(t, b.BlockHeader, 1000+n)
			stib, err := b.EncodeSignedTxn(st, ad)
			if err != nil {
				t.Fatalf("harness: EncodeSignedTxn: %v", err)
			}
			pos := rapid.IntRange(0, n).Draw(t, "insertAt")
			m.Payset = append(m.Payset[:pos], append(transactions.Payset{stib}, m.Payset[pos:]...)...)
			if n == 0 {
				return m, "add-to-empty"
			}
			return m, "add"
		case 4: // duplicate one
			if n < 1 {
				continue
			}
			m.Payset = append(m.Payset, m.Payset[pickEntry()])
			return m, "duplicate"
		case 5, 6, 7: // alter one field of one transaction
			if n < 1 {
				continue
			}
			i := pickEntry()
			e := m.Payset[i]
			which := rapid.IntRange(0, 8).Draw(t, "field")
			switch which {
			case 0:
				e.SignedTxn.Txn.Fee.Raw++
			case 1:
				e.SignedTxn.Txn.Sender[5] ^= 0x10
			case 2:
				e.SignedTxn.Txn.Note = append(append([]byte{}, e.SignedTxn.Txn.Note...), '!')
			case 3:
				e.SignedTxn.Txn.LastValid++
			case 4:
				e.SignedTxn.Txn.Group[31] ^= 1
			case 5:
				e.SignedTxn.Txn.Lease[3] ^= 0x80
			case 6:
				e.SignedTxn.Txn.RekeyTo[0] ^= 1
			case 7:
				if e.SignedTxn.Txn.Type == protocol.PaymentTx {
					e.SignedTxn.Txn.Amount.Raw++
				} else {
					e.SignedTxn.Txn.FirstValid++
				}
			default:
				e.HasGenesisID = !e.HasGenesisID
			}
			m.Payset[i] = e
			return m, fmt.Sprintf("txn-field-%d", which)
		case 8: // alter the authorization or the apply data (bound by the STIB hash only)
			if n < 1 {
				continue
			}
			i := pickEntry()
			e := m.Payset[i]
			which := rapid.IntRange(0, 3).Draw(t, "adField")
			switch which {
			case 0:
				e.SignedTxn.Sig[63] ^= 1
			case 1:
				e.ApplyData.SenderRewards.Raw++
			case 2:
				e.ApplyData.ClosingAmount.Raw++
			default:
				e.SignedTxn.AuthAddr[1] ^= 1
			}
			m.Payset[i] = e
			return m, fmt.Sprintf("stib-field-%d", which)
		case 9:
			c29Flip32(&m.NativeSha512_256Commitment, t)
			return m, "commit-native"
		case 10:
			c29Flip32(&m.Sha256Commitment, t)
			if plan.s256 {
				return m, "commit-sha256"
			}
			return m, "commit-sha256-when-disabled"
		case 11:
			m.Sha512Commitment[rapid.IntRange(0, 63).Draw(t, "byte64")] ^= 1 << uint(rapid.IntRange(0, 7).Draw(t, "bit"))
			if plan.s512 {
				return m, "commit-sha512"
			}
			return m, "commit-sha512-when-disabled"
		case 12: // commitments of the empty payset in front of a non-empty one, or the converse
			if n == 0 {
				continue
			}
			e := b
			e.Payset = nil
			tc, err := e.PaysetCommit()
			if err != nil {
				t.Fatalf("harness: %v", err)
			}
			m.TxnCommitments = tc
			return m, "empty-commitment-nonempty-payset"
		case 13: // header genesis hash feeds every transaction id (tree plans only: the flat hash covers the stripped encoding)
			if n < 1 || plan.flat {
				continue
			}
			m.BlockHeader.GenesisHash[9] ^= 4
			return m, "header-genesis-hash"
		case 14: // header genesis id feeds the ids of the transactions that carried it
			has := false
			for _, e := range m.Payset {
				has = has || e.HasGenesisID
			}
			if !has || plan.flat {
				continue
			}
			m.BlockHeader.GenesisID += "x"
			return m, "header-genesis-id"
		default: // zero one commitment that is in use
			switch rapid.IntRange(0, 2).Draw(t, "zero") {
			case 0:
				if m.NativeSha512_256Commitment == (crypto.Digest{}) {
					continue
				}
				m.NativeSha512_256Commitment = crypto.Digest{}
				return m, "zero-native"
			case 1:
				if !plan.s256 {
					continue
				}
				m.Sha256Commitment = crypto.Digest{}
				return m, "zero-sha256"
			default:
				if !plan.s512 {
					continue
				}
				m.Sha512Commitment = crypto.Sha512Digest{}
				return m, "zero-sha512"
			}
		}
	}
}

func TestVerif_C29_Payset(t *testing.T) {
	vk := vkBegin(t, "C29")
	vk.Rule("blocks of 0-40 entries (sizes around powers of two favoured) of pay/axfer/keyreg transactions with random fields, apply data, with/without genesis id, under v25 (flat), v26/v33 (Merkle), v34/v40 (+SHA-256 VC), v41/current/future (+SHA-512 VC); PaysetCommit vs an independent stdlib implementation; then 6 single mutations per block (swap, rotate, drop, add, duplicate, one txn/auth/apply-data field, bit flip or zeroing of each commitment, empty-payset commitments, header genesis id/hash). Non-trivial = block with >=2 entries; distinct by version + payset encoding hash")
	vk.Assume("protocol.Encode (msgpack) is shared between the code and the reference; SHA-2 comes from the Go standard library; no hash collisions")
	rapid.Check(t, func(t *rapid.T) {
		b := c29DrawBlock(t)
		plan, _ := c29PlanOf(b.CurrentProtocol)
		got, err := b.PaysetCommit()
		if err != nil {
			t.Fatalf("PaysetCommit: %v", err)
		}
		want, ok := c29RefCommit(b)
		if !ok {
			t.Fatalf("harness: reference cannot commit")
		}
		if got != want {
			t.Fatalf("PaysetCommit differs from the reference (%s, %d entries)\n code: %+v\n ref:  %+v", b.CurrentProtocol, len(b.Payset), got, want)
		}
		// what the consensus parameters say must agree with the release-note table used by the reference
		p := config.Consensus[b.CurrentProtocol]
		if (p.PaysetCommit == config.PaysetCommitMerkle) != plan.merkle || p.EnableSHA256TxnCommitmentHeader != plan.s256 || p.EnableSha512BlockHash != plan.s512 {
			t.Fatalf("harness: commitment plan table out of date for %s", b.CurrentProtocol)
		}
		b.TxnCommitments = got
		if !b.ContentsMatchHeader() {
			t.Fatalf("ContentsMatchHeader false on an untouched block (%s, %d entries)", b.CurrentProtocol, len(b.Payset))
		}
		for i := 0; i < 6; i++ {
			m, what := c29Mutate(t, b)
			if ref, ok := c29RefCommit(m); ok && ref == m.TxnCommitments {
				t.Fatalf("harness: mutation %s left the reference commitment unchanged", what)
			}
			if m.ContentsMatchHeader() {
				t.Fatalf("ContentsMatchHeader true after mutation %q (%s, %d -> %d entries)\nheader commitments %+v", what, b.CurrentProtocol, len(b.Payset), len(m.Payset), m.TxnCommitments)
			}
			vk.Label("mut:" + what)
		}
		// an unknown protocol cannot be checked, so it cannot match
		// entry encoding: the commitment covers the ENCODED entries, so an entry must have exactly one accepted encoding.
		// DecodeSignedTxn documents the non-canonical forms as errors; whatever it accepts must re-encode to itself.
		if len(b.Payset) > 0 {
			i := rapid.IntRange(0, len(b.Payset)-1).Draw(t, "encEntry")
			orig := b.Payset[i]
			if st, ad, err := b.DecodeSignedTxn(orig); err != nil {
				t.Fatalf("DecodeSignedTxn refused an entry made by EncodeSignedTxn: %v", err)
			} else if back, err := b.EncodeSignedTxn(st, ad); err != nil || string(protocol.Encode(&back)) != string(protocol.Encode(&orig)) {
				t.Fatalf("EncodeSignedTxn(DecodeSignedTxn(e)) != e (err %v)", err)
			}
			knobs := []struct {
				name      string
				mustError bool
				f         func(e *transactions.SignedTxnInBlock)
			}{
				{"HasGenesisHash under RequireGenesisHash", true, func(e *transactions.SignedTxnInBlock) { e.HasGenesisHash = true }},
				{"explicit GenesisHash in the body", true, func(e *transactions.SignedTxnInBlock) { e.SignedTxn.Txn.GenesisHash = b.BlockHeader.GenesisHash }},
				{"explicit GenesisID in the body", true, func(e *transactions.SignedTxnInBlock) { e.SignedTxn.Txn.GenesisID = b.BlockHeader.GenesisID }},
				{"explicit GenesisID in the body + flag", true, func(e *transactions.SignedTxnInBlock) {
					e.SignedTxn.Txn.GenesisID = b.BlockHeader.GenesisID
					e.HasGenesisID = true
				}},
				{"HasGenesisID flipped", false, func(e *transactions.SignedTxnInBlock) { e.HasGenesisID = !e.HasGenesisID }},
			}
			for _, k := range knobs {
				e := orig
				k.f(&e)
				st, ad, err := b.DecodeSignedTxn(e)
				vk.Label("enc:" + k.name)
				if k.mustError && err == nil {
					t.Fatalf("DecodeSignedTxn accepted a non-canonical entry (%s) under %s", k.name, b.CurrentProtocol)
				}
				if err == nil {
					back, err2 := b.EncodeSignedTxn(st, ad)
					if err2 != nil || string(protocol.Encode(&back)) != string(protocol.Encode(&e)) {
						t.Fatalf("entry with %s decodes but does not re-encode to itself (err %v): two encodings of one transaction are accepted", k.name, err2)
					}
				}
				m := b
				m.Payset = append(transactions.Payset(nil), b.Payset...)
				m.Payset[i] = e
				if m.ContentsMatchHeader() {
					t.Fatalf("ContentsMatchHeader true although entry %d was re-encoded (%s)", i, k.name)
				}
			}
		}
		if rapid.IntRange(0, 19).Draw(t, "probeUnknown") == 0 {
			u := b
			u.CurrentProtocol = "c29-unknown-protocol"
			if u.ContentsMatchHeader() {
				t.Fatalf("ContentsMatchHeader true under an unknown protocol")
			}
		}
		n := len(b.Payset)
		vk.Labelf("plan:%s", map[bool]string{true: "flat", false: map[bool]string{true: "merkle+256+512", false: map[bool]string{true: "merkle+256", false: "merkle"}[plan.s256]}[plan.s512]}[plan.flat])
		switch {
		case n == 0:
			vk.Label("size:0")
		case n == 1:
			vk.Label("size:1")
		case n&(n-1) == 0:
			vk.Label("size:2^k")
		case (n-1)&(n-2) == 0:
			vk.Label("size:2^k+1")
		default:
			vk.Label("size:other")
		}
		fp := fmt.Sprintf("%s/%x", b.CurrentProtocol, c29H(c29S256, protocol.Encode(b.Payset), []byte(b.BlockHeader.GenesisID), b.BlockHeader.GenesisHash[:]))
		vk.Case(n >= 2, fp)
		if vk.WantSample(n >= 2) {
			vk.Sample(n >= 2, map[string]interface{}{"version": string(b.CurrentProtocol), "entries": n, "native": got.NativeSha512_256Commitment.String(), "sha256": got.Sha256Commitment.String()})
		}
	})
}

// ---------------------------------------------------------------------------------------------------------------
// Branch linkage

func c29DrawHeader(t *rapid.T) BlockHeader {
	var h BlockHeader
	h.CurrentProtocol = []protocol.ConsensusVersion{protocol.ConsensusV39, protocol.ConsensusV40, protocol.ConsensusV41, protocol.ConsensusCurrentVersion, protocol.ConsensusFuture}[rapid.IntRange(0, 4).Draw(t, "version")]
	h.Round = basics.Round(rapid.Uint64Range(0, 1<<40).Draw(t, "round"))
	fill := func(b []byte, name string) {
		for i := range b {
			b[i] = byte(rapid.IntRange(0, 255).Draw(t, name))
		}
	}
	fill(h.Branch[:4], "branch")
	fill(h.Branch512[:4], "branch512")
	var seed committee.Seed
	fill(seed[:4], "seed")
	h.Seed = seed
	fill(h.NativeSha512_256Commitment[:3], "txn")
	fill(h.Sha256Commitment[:3], "txn256")
	h.TimeStamp = int64(rapid.IntRange(0, 1<<30).Draw(t, "ts"))
	h.GenesisID = []string{"c29net", "c29net-v2"}[rapid.IntRange(0, 1).Draw(t, "gid")]
	h.GenesisHash[0] = byte(rapid.IntRange(1, 255).Draw(t, "gh"))
	h.FeeSink[0], h.RewardsPool[0] = 3, 4
	h.RewardsLevel = rapid.Uint64Range(0, 1<<30).Draw(t, "lvl")
	h.RewardsRate = rapid.Uint64Range(0, 1<<20).Draw(t, "rate")
	h.TxnCounter = rapid.Uint64Range(0, 1<<30).Draw(t, "tc")
	h.Bonus.Raw = rapid.Uint64Range(0, 1<<24).Draw(t, "bonus")
	params := config.Consensus[h.CurrentProtocol]
	if params.LoadTracking {
		h.Load = basics.Micros(rapid.Uint64Range(0, 1_000_000).Draw(t, "load"))
		h.CongestionTax = basics.Micros(rapid.Uint64Range(0, 3_000_000).Draw(t, "ctax"))
	}
	if rapid.Bool().Draw(t, "prop") {
		fill(h.Proposer[:2], "proposer")
	}
	return h
}

func c29Successor(prev BlockHeader) BlockHeader {
	params := config.Consensus[prev.CurrentProtocol]
	enc := protocol.Encode(&prev)
	h := BlockHeader{Round: prev.Round + 1, GenesisID: prev.GenesisID, GenesisHash: prev.GenesisHash, TimeStamp: prev.TimeStamp + 1}
	copy(h.Branch[:], c29H(c29S512_256, []byte("BH"), enc))
	if params.EnableSha512BlockHash {
		copy(h.Branch512[:], c29H(c29S512, []byte("BH"), enc))
	}
	h.CurrentProtocol = prev.CurrentProtocol
	h.FeeSink, h.RewardsPool = prev.FeeSink, prev.RewardsPool
	h.Bonus = NextBonus(prev, &params)
	h.CongestionTax = NextCongestionTax(prev.Load, prev.CongestionTax)
	return h
}

// c29AlterHeader changes exactly one field of a header (so its encoding and hash change)
func c29AlterHeader(t *rapid.T, h BlockHeader) (BlockHeader, string) {
	switch rapid.IntRange(0, 11).Draw(t, "alter") {
	case 0:
		h.Seed[7] ^= 1
		return h, "seed"
	case 1:
		h.NativeSha512_256Commitment[30] ^= 2
		return h, "txn-commitment"
	case 2:
		h.Sha256Commitment[0] ^= 1
		return h, "txn256-commitment"
	case 3:
		h.Branch[12] ^= 8
		return h, "branch"
	case 4:
		h.RewardsLevel++
		return h, "rewards-level"
	case 5:
		h.TxnCounter++
		return h, "txn-counter"
	case 6:
		h.Proposer[9] ^= 1
		return h, "proposer"
	case 7:
		h.FeesCollected.Raw++
		return h, "fees-collected"
	case 8:
		h.RewardsResidue++
		return h, "residue"
	case 9:
		h.ExpiredParticipationAccounts = append(h.ExpiredParticipationAccounts, basics.Address{1})
		return h, "expired-list"
	case 10:
		h.Sha512Commitment[40] ^= 1
		return h, "txn512-commitment"
	default:
		h.FeeSink[20] ^= 1
		return h, "fee-sink"
	}
}

func TestVerif_C29_Branch(t *testing.T) {
	vk := vkBegin(t, "C29")
	vk.Rule("random previous headers (v39/v40/v41/current/future); the successor's Branch/Branch512 are computed with stdlib SHA-512/256 / SHA-512 over \"BH\"||msgpack(prev); PreCheck must accept it and reject: a bit flip in Branch / Branch512, Branch512 present when the protocol has none or absent when it has, a successor checked against a previous header that differs in one field (12 different fields), wrong round, different/empty genesis id, different/zero genesis hash. Every case is non-trivial; distinct by previous header hash")
	rapid.Check(t, func(t *rapid.T) {
		prev := c29DrawHeader(t)
		params := config.Consensus[prev.CurrentProtocol]
		next := c29Successor(prev)
		if err := next.PreCheck(prev); err != nil {
			t.Fatalf("PreCheck rejected a correctly linked successor: %v\nprev %+v", err, prev)
		}
		if BlockHash(next.Branch) != prev.Hash() {
			t.Fatalf("BlockHeader.Hash differs from SHA-512/256(\"BH\"||msgpack)")
		}
		check := func(what string, h, p BlockHeader) {
			vk.Label("reject:" + what)
			if err := h.PreCheck(p); err == nil {
				t.Fatalf("PreCheck accepted a successor with %s\nprev %+v\nnext %+v", what, p, h)
			}
		}
		m := next
		m.Branch[rapid.IntRange(0, 31).Draw(t, "bbyte")] ^= 1 << uint(rapid.IntRange(0, 7).Draw(t, "bbit"))
		check("flipped Branch", m, prev)
		m = next
		m.Branch = BlockHash{}
		check("zero Branch", m, prev)
		m = next
		m.Branch512[rapid.IntRange(0, 63).Draw(t, "b5byte")] ^= 1 << uint(rapid.IntRange(0, 7).Draw(t, "b5bit"))
		if params.EnableSha512BlockHash {
			check("flipped Branch512", m, prev)
			m = next
			m.Branch512 = crypto.Sha512Digest{}
			check("missing Branch512", m, prev)
		} else {
			check("Branch512 not allowed", m, prev)
		}
		// linked to a different previous block: same round, one field differs
		other, field := c29AlterHeader(t, prev)
		if other.Hash() == prev.Hash() {
			t.Fatalf("harness: altering %s did not change the header hash", field)
		}
		check("other prev ("+field+")", next, other)
		check("other prev's successor against prev ("+field+")", c29Successor(other), prev)
		if params.EnableSha512BlockHash {
			// only one of the two links redirected
			m = c29Successor(other)
			m.Branch = next.Branch
			check("Branch512 of another block", m, prev)
			m = c29Successor(other)
			m.Branch512 = next.Branch512
			check("Branch of another block", m, prev)
		}
		m = next
		m.Round++
		check("round+1", m, prev)
		m = next
		m.Round--
		check("round-1", m, prev)
		m = next
		m.GenesisID += "x"
		check("other genesis id", m, prev)
		m = next
		m.GenesisID = ""
		check("empty genesis id", m, prev)
		m = next
		m.GenesisHash[3] ^= 1
		check("other genesis hash", m, prev)
		m = next
		m.GenesisHash = crypto.Digest{}
		check("zero genesis hash", m, prev)
		if params.EnableSha512BlockHash {
			vk.Label("branch512-enabled")
		} else {
			vk.Label("branch512-disabled")
		}
		fp := fmt.Sprintf("%x", next.Branch[:])
		vk.Case(true, fp)
		if vk.WantSample(true) {
			vk.Sample(true, map[string]interface{}{"version": string(prev.CurrentProtocol), "round": uint64(prev.Round), "altered": field})
		}
	})
}
