package account

// C36 (caller level) — PersistedParticipation.DeleteOldKeys: after the node advanced its voting keys past a round, neither
// the live Participation nor what RestoreParticipation reads back from the key database can produce a verifying vote
// signature for an earlier round (directly or by forging from the stored secrets); every later round up to LastValid
// still signs. Oracle: horizon = max round passed to DeleteOldKeys; verifier captured at key creation.

import (
	"fmt"
	"sync/atomic"
	"testing"

	"pgregory.net/rapid"

	"github.com/algorand/go-algorand/config"
	"github.com/algorand/go-algorand/crypto"
	"github.com/algorand/go-algorand/data/basics"
	"github.com/algorand/go-algorand/logging"
	"github.com/algorand/go-algorand/protocol"
	"github.com/algorand/go-algorand/util/db"
)

type c36nMsg []byte

func (m c36nMsg) ToBeHashed() (protocol.HashID, []byte) { return protocol.TestHashable, m }

var c36nCounter atomic.Int64

// every secret stored in v is tried, with the exported signing primitive, against identifier id
func c36nForge(v *crypto.OneTimeSignatureSecrets, verifier crypto.OneTimeSignatureVerifier, id crypto.OneTimeSignatureIdentifier, atk *crypto.SignatureSecrets, m c36nMsg) (string, bool) {
	snap := v.Snapshot()
	atkSig := atk.Sign(m)
	for i := range snap.Batches {
		k := snap.Batches[i]
		signer := &crypto.SignatureSecrets{SK: k.SK}
		p1 := signer.Sign(crypto.OneTimeSignatureSubkeyOffsetID{SubKeyPK: [32]byte(atk.SignatureVerifier), Batch: id.Batch, Offset: id.Offset})
		forged := crypto.OneTimeSignature{Sig: [64]byte(atkSig), PK: [32]byte(atk.SignatureVerifier), PK1Sig: [64]byte(p1), PK2: k.PK, PK2Sig: k.PKSigNew}
		if verifier.Verify(id, m, forged) {
			return fmt.Sprintf("batch secret #%d (FirstBatch=%d)", i, snap.FirstBatch), true
		}
	}
	for i := range snap.Offsets {
		k := snap.Offsets[i]
		signer := &crypto.SignatureSecrets{SK: k.SK}
		forged := crypto.OneTimeSignature{Sig: [64]byte(signer.Sign(m)), PK: k.PK, PK1Sig: k.PKSigNew, PK2: snap.OffsetsPK2, PK2Sig: snap.OffsetsPK2Sig}
		if verifier.Verify(id, m, forged) {
			return fmt.Sprintf("offset secret #%d (FirstBatch=%d FirstOffset=%d)", i, snap.FirstBatch, snap.FirstOffset), true
		}
	}
	return "", false
}

func TestVerif_C36_NodeKeys(t *testing.T) {
	vk := vkBegin(t, "C36")
	vk.Rule("participation key databases for firstValid 1..30, 0..4 dilutions of validity, dilution {1,2,3,4,7}; 1..6 DeleteOldKeys(round) calls (next round, jumps, repeats, backwards, beyond LastValid); after each call the live keys and the keys re-read from the database sign every round of the validity window and all stored secrets are used to forge old rounds; non-trivial = some round became old while a later one still signs; distinct by parameters+rounds")
	lvl := logging.Base().GetLevel()
	logging.Base().SetLevel(logging.Error)
	defer logging.Base().SetLevel(lvl)
	proto := config.Consensus[protocol.ConsensusCurrentVersion]
	rapid.Check(t, func(t *rapid.T) {
		d := rapid.SampledFrom([]uint64{1, 2, 3, 4, 7}).Draw(t, "dilution")
		first := rapid.Uint64Range(1, 30).Draw(t, "firstValid")
		last := first + rapid.Uint64Range(0, 4*d).Draw(t, "span")
		if rapid.IntRange(0, 3).Draw(t, "longer") > 0 {
			last = first + 2*d + rapid.Uint64Range(0, 2*d).Draw(t, "span2")
		}
		name := fmt.Sprintf("c36n-%d-%d", vkSeed(), c36nCounter.Add(1))
		store, err := db.MakeAccessor(name, false, true)
		if err != nil {
			t.Fatalf("db: %v", err)
		}
		defer store.Close()
		var addr basics.Address
		addr[0] = byte(d)
		part, err := FillDBWithParticipationKeys(store, addr, basics.Round(first), basics.Round(last), d)
		if err != nil {
			t.Fatalf("FillDBWithParticipationKeys(%d,%d,%d): %v", first, last, d, err)
		}
		verifier := part.Voting.OneTimeSignatureVerifier
		var seed crypto.Seed
		copy(seed[:], rapid.SliceOfN(rapid.Byte(), 8, 8).Draw(t, "atkSeed"))
		atk := crypto.GenerateSignatureSecrets(seed)
		msgN := 0
		msg := func() c36nMsg { msgN++; return c36nMsg(fmt.Sprintf("vote-%d", msgN)) }

		hor := uint64(0)
		oldRejected, laterVerified := 0, 0
		check := func(v *crypto.OneTimeSignatureSecrets, where string) {
			for q := first; q <= last; q++ {
				id := basics.OneTimeIDForRound(basics.Round(q), d)
				m := msg()
				ok := verifier.Verify(id, m, v.Sign(id, m))
				if q < hor {
					if ok {
						t.Fatalf("%s: after DeleteOldKeys(%d) a vote signature for round %d still verifies (first=%d last=%d dilution=%d)", where, hor, q, first, last, d)
					}
					if what, forged := c36nForge(v, verifier, id, atk, m); forged {
						t.Fatalf("%s: after DeleteOldKeys(%d) %s still signs round %d (first=%d last=%d dilution=%d)", where, hor, what, q, first, last, d)
					}
					oldRejected++
				} else {
					if !ok {
						t.Fatalf("%s: after DeleteOldKeys(%d) the signature for later round %d does not verify (first=%d last=%d dilution=%d)", where, hor, q, first, last, d)
					}
					laterVerified++
				}
			}
		}
		check(part.Voting, "fresh keys")
		n := rapid.IntRange(1, 6).Draw(t, "ncalls")
		var rounds []uint64
		cur := first
		for i := 0; i < n; i++ {
			switch rapid.IntRange(0, 11).Draw(t, "step") {
			case 0, 1, 2, 3, 8, 9, 10:
				cur++
			case 4:
				cur += rapid.Uint64Range(2, d+1).Draw(t, "jump")
			case 5: // repeat
			case 6:
				back := rapid.Uint64Range(1, 2*d).Draw(t, "back")
				if back > cur {
					back = cur
				}
				cur -= back
			default:
				cur = last + rapid.Uint64Range(0, 2*d).Draw(t, "past")
			}
			rounds = append(rounds, cur)
			if e := <-part.DeleteOldKeys(basics.Round(cur), proto); e != nil {
				t.Fatalf("DeleteOldKeys(%d): %v", cur, e)
			}
			if cur > hor {
				hor = cur
			}
			check(part.Voting, "live keys")
			restored, err := RestoreParticipation(store)
			if err != nil {
				t.Fatalf("RestoreParticipation: %v", err)
			}
			if restored.Voting.OneTimeSignatureVerifier != verifier {
				t.Fatalf("restored keys have another verifier")
			}
			check(restored.Voting, "keys re-read from the database")
		}
		nt := oldRejected > 0 && laterVerified > 0 && hor > first && hor <= last
		if hor > last {
			vk.Label("advanced beyond LastValid")
		}
		if nt {
			vk.Label("horizon inside validity window")
		}
		vk.Add("old_rounds_rejected", int64(oldRejected))
		vk.Add("later_rounds_verified", int64(laterVerified))
		vk.Case(nt, fmt.Sprintf("%d/%d/%d/%v", first, last, d, rounds))
		if vk.WantSample(nt) {
			vk.Sample(nt, map[string]interface{}{"firstValid": first, "lastValid": last, "dilution": d, "deleteOldKeysRounds": rounds})
		}
	})
}
