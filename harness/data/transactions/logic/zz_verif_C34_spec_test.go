package logic

// C34 — the two availability oracles.
//
//   A ("declared"): what the table itself declares — OpSpecs rows (Opcode, SubOpcode, Version, Modes) and the field
//     groups attached to immediates (FieldSpec.Version(), FieldSpec.Modes()). This is NOT the per-version dispatch
//     table opsByOpcode that check/eval consult; it is the declaration that table is derived from.
//   B ("documents"): the versioned language specifications shipped in the repository, langspec_v{1..13}.json
//     (per op: Opcode or [prefix, sub], Modes bit mask, ArgDetails with ByteEncoding of every field that exists at
//     that version). v14 has no document; v0 is an alias of v1.

import (
	"encoding/json"
	"fmt"
	"os"
	"path/filepath"
	"strings"
)

// ---- oracle B

type c34DocField struct {
	Name         string
	ByteEncoding int
	Version      uint64
	Doc          string
}

type c34DocOp struct {
	Opcode            json.RawMessage
	Name              string
	Args              []string
	Returns           []string
	Size              int
	ArgDetails        []c34DocField
	IntroducedVersion uint64
	Modes             int
	ImmediateNote     []struct {
		Comment, Encoding, Name, Reference string
	}

	code, sub int // decoded Opcode: sub == 0 for single-byte ops
	fields    map[int]c34DocField
	hasFields bool
}

type c34DocSpec struct {
	Version         uint64
	LogicSigVersion uint64
	Ops             []c34DocOp
	byCode          map[[2]int]*c34DocOp
	prefix          map[int]bool // opcode bytes that are multi-byte prefixes in this version
}

// c34LoadDocs reads langspec_v{v}.json for v = 1..13 (index by version; nil when the document does not exist).
func c34LoadDocs() (map[uint64]*c34DocSpec, error) {
	dir := os.Getenv("VERIF_PKGDIR")
	if dir == "" {
		dir = "."
	}
	out := map[uint64]*c34DocSpec{}
	for v := uint64(1); v <= LogicVersion; v++ {
		raw, err := os.ReadFile(filepath.Join(dir, fmt.Sprintf("langspec_v%d.json", v)))
		if err != nil {
			continue
		}
		var ds c34DocSpec
		if err := json.Unmarshal(raw, &ds); err != nil {
			return nil, fmt.Errorf("langspec_v%d.json: %w", v, err)
		}
		if ds.Version != v {
			return nil, fmt.Errorf("langspec_v%d.json declares Version %d", v, ds.Version)
		}
		ds.byCode = map[[2]int]*c34DocOp{}
		ds.prefix = map[int]bool{}
		for i := range ds.Ops {
			op := &ds.Ops[i]
			var single int
			var pair []int
			if err := json.Unmarshal(op.Opcode, &single); err == nil {
				op.code, op.sub = single, 0
			} else if err := json.Unmarshal(op.Opcode, &pair); err == nil && len(pair) == 2 {
				op.code, op.sub = pair[0], pair[1]
				ds.prefix[op.code] = true
			} else {
				return nil, fmt.Errorf("langspec_v%d.json: op %s has unreadable Opcode %s", v, op.Name, op.Opcode)
			}
			for _, n := range op.ImmediateNote {
				if n.Reference != "" {
					op.hasFields = true
				}
			}
			op.fields = map[int]c34DocField{}
			for _, f := range op.ArgDetails {
				op.fields[f.ByteEncoding] = f
			}
			if len(op.ArgDetails) > 0 {
				op.hasFields = true
			}
			key := [2]int{op.code, op.sub}
			if _, dup := ds.byCode[key]; dup {
				return nil, fmt.Errorf("langspec_v%d.json: duplicate opcode %v", v, key)
			}
			ds.byCode[key] = op
		}
		out[v] = &ds
	}
	if len(out) == 0 {
		return nil, fmt.Errorf("no langspec_v*.json under %q (VERIF_PKGDIR)", dir)
	}
	return out, nil
}

// c34Avail is an oracle's verdict about one (version, mode, opcode[, sub][, field]) use.
type c34Avail struct {
	known     bool // the oracle has something to say (false: no document for this version)
	op        bool // the opcode (and sub-opcode) exists at this version
	mode      bool // ... and may run in this mode
	field     bool // ... and the field value exists at this version (true when the use has no field)
	fieldMode bool // ... and the field may be used in this mode
}

func (a c34Avail) all() bool { return a.op && a.mode && a.field && a.fieldMode }

func (a c34Avail) String() string {
	return fmt.Sprintf("{op:%v mode:%v field:%v fieldMode:%v}", a.op, a.mode, a.field, a.fieldMode)
}

// c34DocAvail: oracle B. field < 0 means "no field immediate in this use".
func c34DocAvail(docs map[uint64]*c34DocSpec, v uint64, mode RunMode, code, sub, field int) c34Avail {
	dv := v
	if dv == 0 {
		dv = 1
	}
	ds := docs[dv]
	if ds == nil {
		return c34Avail{}
	}
	a := c34Avail{known: true}
	op := ds.byCode[[2]int{code, sub}]
	if op == nil {
		return a
	}
	a.op = true
	a.mode = op.Modes&int(mode) != 0
	a.field, a.fieldMode = true, true
	if field >= 0 && op.hasFields {
		f, ok := op.fields[field]
		a.field = ok
		if ok && mode == ModeSig && strings.Contains(f.Doc, "Application mode only") {
			a.fieldMode = false
		}
	}
	return a
}

// ---- oracle A

// c34Declared returns the OpSpecs row in force for (code, sub) at version v: the row with the greatest Version <= v
// (version 0 is declared as an alias of the rows introduced in v1). second result: the earliest row at all (the
// "shape" used to build a program for an op that does not exist yet).
func c34Declared(v uint64, code, sub int) (inForce *OpSpec, earliest *OpSpec) {
	ev := v
	if ev == 0 {
		ev = 1
	}
	for i := range OpSpecs {
		s := &OpSpecs[i]
		if int(s.Opcode) != code || int(s.SubOpcode) != sub {
			continue
		}
		if earliest == nil || s.Version < earliest.Version {
			earliest = s
		}
		if s.Version <= ev && (inForce == nil || s.Version > inForce.Version) {
			inForce = s
		}
	}
	return
}

// c34FieldGroup gives the group whose Version() is the availability of the field for this op. itxn_field is declared
// with the general txn group but gated by the "settable since" version, which ItxnSettableFields exposes.
func c34FieldGroup(spec *OpSpec) (*FieldGroup, int) {
	for i, im := range spec.Immediates {
		if im.Group != nil {
			if spec.Name == "itxn_field" {
				return &ItxnSettableFields, i
			}
			return im.Group, i
		}
	}
	return nil, -1
}

// c34DeclAvail: oracle A.
func c34DeclAvail(v uint64, mode RunMode, code, sub, field int) c34Avail {
	a := c34Avail{known: true}
	spec, _ := c34Declared(v, code, sub)
	if spec == nil {
		return a
	}
	a.op = true
	a.mode = spec.Modes&mode != 0
	a.field, a.fieldMode = true, true
	if g, _ := c34FieldGroup(spec); g != nil && field >= 0 {
		a.field = false
		if field < len(g.Names) && g.Names[field] != "" {
			if fs, ok := g.SpecByName(g.Names[field]); ok {
				ev := v
				if ev == 0 {
					ev = 1
				}
				a.field = fs.Version() <= ev
				a.fieldMode = fs.Modes()&mode != 0
			}
		}
	}
	return a
}
