package logic

// C34 — programs cannot use features newer than their version or outside their mode (exhaustive table sweep).
//
// For every first byte 0..255 (and every second byte for multi-byte opcode families, and every field value 0..255 for
// ops with a field immediate), every version 0..LogicVersion and both run modes, a small program is built whose stack
// prefix is well-typed for the op, and run through Check* and Eval*. The verdict is compared with the two
// availability oracles of zz_verif_C34_spec_test.go (declared table; shipped langspec_v*.json documents).

import (
	"encoding/binary"
	"encoding/json"
	"fmt"
	"testing"

	"github.com/algorand/go-algorand/config"
	"github.com/algorand/go-algorand/data/basics"
	"github.com/algorand/go-algorand/data/transactions"
	"github.com/algorand/go-algorand/protocol"
)

// shared read-only consensus parameters: everything enabled, budgets large enough that every op can be dispatched
var c34Proto = makeTestProto(func(p *config.ConsensusParams) {
	p.LogicSigMaxCost = 60_000
	p.MaxAppProgramCost = 60_000
})

type c34Case struct {
	Version uint64 `json:"version"`
	Mode    string `json:"mode"` // "sig" | "app"
	Code    int    `json:"code"`
	Sub     int    `json:"sub"`   // 0: none
	Field   int    `json:"field"` // -1: none
}

type c34V struct {
	isB bool
	u   uint64
	b   []byte
}

var c34SenderAddr = func() []byte {
	s := makeSampleTxn()
	return append([]byte{}, s.Txn.Sender[:]...)
}()

// c34DefaultArg gives a value of the declared stack type that most ops accept.
func c34DefaultArg(t StackType) c34V {
	switch t.AVMType {
	case avmBytes:
		switch {
		case t.Name == "boxName":
			return c34V{isB: true, b: []byte("self")}
		case t.Name == "stateKey":
			return c34V{isB: true, b: []byte("key")}
		case t.Bound[0] == t.Bound[1] && t.Bound[0] == 32:
			return c34V{isB: true, b: c34SenderAddr}
		case t.Bound[0] == t.Bound[1]:
			b := make([]byte, t.Bound[0])
			for i := range b {
				b[i] = 'A'
			}
			return c34V{isB: true, b: b}
		default:
			return c34V{isB: true, b: []byte("AAAAAAAA")} // 8 bytes, valid base64, fits btoi
		}
	default: // uint64 and any
		return c34V{u: 1}
	}
}

// c34Args: well-typed operands for the op (per-op choices only make more ops succeed; typing comes from the row).
func c34Args(spec *OpSpec, field int) []c34V {
	args := make([]c34V, 0, len(spec.Arg.Types))
	for _, t := range spec.Arg.Types {
		if t.AVMType == avmNone {
			continue
		}
		args = append(args, c34DefaultArg(t))
	}
	bs := func(s string) c34V { return c34V{isB: true, b: []byte(s)} }
	switch spec.Name {
	case "json_ref":
		args[0], args[1] = bs(`{"k":1}`), bs("k")
	case "divw":
		args[0] = c34V{u: 0}
	case "gtxnsas":
		args[0] = c34V{u: 0} // first transaction has the array fields populated
	case "substring3", "extract3":
		args[1] = c34V{u: 0}
	case "setbyte", "getbyte", "extract_uint16", "extract_uint32", "extract_uint64", "replace3":
		args[1] = c34V{u: 0}
	case "block":
		args[0] = c34V{u: 40} // sample txn FirstValid is 42
	case "itxn_field":
		// operand typed after the field being set
		args[0] = c34V{u: 0}
		if field >= 0 && field < len(txnFieldSpecs) {
			ft := txnFieldSpecs[field].ftype
			switch {
			case TxnField(field) == TypeEnum:
				args[0] = c34V{u: 1}
			case ft.AVMType == avmBytes && ft.Bound[0] == ft.Bound[1] && ft.Bound[0] == 32:
				args[0] = c34V{isB: true, b: c34SenderAddr}
			case ft.AVMType == avmBytes && ft.Bound[0] == ft.Bound[1]:
				b := make([]byte, ft.Bound[0])
				args[0] = c34V{isB: true, b: b}
			case ft.AVMType == avmBytes:
				args[0] = bs("pay")
			}
		}
	}
	return args
}

type c34Program struct {
	prog       []byte
	opPC       int
	prefixCost int
}

// c34Build lays out: version, intcblock, bytecblock, prelude, operand loads, the instruction under test, epilogue.
// shape == nil builds a raw unknown-opcode program.
func c34Build(v uint64, shape *OpSpec, code, sub, field int) c34Program {
	var p c34Program
	prog := binary.AppendUvarint(nil, v)
	ints := []uint64{1}
	var bss [][]byte
	var loads []byte
	nInstr := 0
	if shape != nil {
		for _, a := range c34Args(shape, field) {
			if a.isB {
				loads = append(loads, 0x27, byte(len(bss)))
				bss = append(bss, a.b)
			} else {
				loads = append(loads, 0x21, byte(len(ints)))
				ints = append(ints, a.u)
			}
			nInstr++
		}
	}
	prog = append(prog, 0x20)
	prog = binary.AppendUvarint(prog, uint64(len(ints)))
	for _, x := range ints {
		prog = binary.AppendUvarint(prog, x)
	}
	nInstr++
	if len(bss) > 0 {
		prog = append(prog, 0x26)
		prog = binary.AppendUvarint(prog, uint64(len(bss)))
		for _, b := range bss {
			prog = binary.AppendUvarint(prog, uint64(len(b)))
			prog = append(prog, b...)
		}
		nInstr++
	}
	if shape != nil {
		switch shape.Name {
		case "itxn_field":
			prog = append(prog, 0xb1) // itxn_begin
			nInstr++
		case "itxn", "itxna", "itxnas", "gitxn", "gitxna", "gitxnas":
			// a previous inner payment, so that there is something to read: itxn_begin; int pay; itxn_field TypeEnum; itxn_submit
			prog = append(prog, 0xb1, 0x22, 0xb2, byte(TypeEnum), 0xb3)
			nInstr += 4
		}
	}
	prog = append(prog, loads...)
	p.opPC = len(prog)
	p.prefixCost = nInstr
	prog = append(prog, byte(code))
	if shape == nil {
		if sub >= 0 {
			prog = append(prog, byte(sub))
		}
		prog = append(prog, 0, 0, 0)
	} else {
		if shape.SubOpcode != 0 {
			prog = append(prog, shape.SubOpcode)
		}
		_, fieldImm := c34FieldGroup(shape)
		for i, im := range shape.Immediates {
			switch im.kind {
			case immByte:
				switch {
				case i == fieldImm && field >= 0:
					prog = append(prog, byte(field))
				case shape.Name == "popn" || shape.Name == "dupn" || shape.Name == "bury":
					prog = append(prog, 1)
				default:
					prog = append(prog, 0)
				}
			case immInt8:
				prog = append(prog, 0)
			case immLabel:
				prog = append(prog, 0, 0)
			case immVarintLabel:
				prog = append(prog, 0)
			case immLabels:
				prog = append(prog, 1, 0, 0)
			case immInt:
				prog = append(prog, 1)
			case immBytes:
				prog = append(prog, 1, 'A')
			case immInts:
				prog = append(prog, 1, 1)
			case immBytess:
				prog = append(prog, 1, 1, 'A')
			}
		}
	}
	// epilogue: approve
	if v >= 2 {
		prog = append(prog, 0x22, 0x43) // intc_0; return
	} else {
		if shape != nil {
			for _, t := range shape.Return.Types {
				if t.AVMType != avmNone {
					prog = append(prog, 0x48) // pop
				}
			}
		}
		prog = append(prog, 0x22)
	}
	p.prog = prog
	return p
}

type c34Result struct {
	checkOK      bool
	dispatched   bool // Eval reached the instruction and charged its cost (or went past it)
	evalAccepted bool
	checkErr     error
	evalErr      error
}

var c34Creator = func() basics.Address {
	a, err := basics.UnmarshalChecksumAddress(testAppCreator)
	if err != nil {
		panic(err)
	}
	return a
}()

func c34Group(mode RunMode, prog []byte) []transactions.SignedTxn {
	first := makeSampleTxn()
	if mode == ModeSig {
		first.Txn.RekeyTo = basics.Address{} // a rekeying group forces version >= 2; v0/v1 logicsigs must be runnable
		first.Lsig.Logic = prog
		first.Lsig.Args = [][]byte{[]byte("AAAAAAAA"), []byte("AAAAAAAA"), []byte("AAAAAAAA"), []byte("AAAAAAAA")}
	} else {
		first.Txn.Type = protocol.ApplicationCallTx
	}
	return makeSampleTxnGroup(first)
}

func c34Params(mode RunMode, prog []byte) *EvalParams {
	ledger := NewLedger(nil)
	if mode == ModeSig {
		return NewSigEvalParams(c34Group(mode, prog), c34Proto, ledger)
	}
	ep := NewAppEvalParams(transactions.WrapSignedTxnsWithAD(c34Group(mode, prog)), c34Proto, &transactions.SpecialAddresses{})
	ep.Ledger = ledger
	ep.SigLedger = ledger
	ledger.NewApp(c34Creator, 888, basics.AppParams{})
	ledger.NewAccount(basics.AppIndex(888).Address(), 50_000_000)
	ledger.NewAccount(ep.TxnGroup[0].Txn.Sender, 50_000_000)
	return ep
}

func c34Run(mode RunMode, p c34Program) c34Result {
	var r c34Result
	var cx *EvalContext
	var pass bool
	if mode == ModeSig {
		r.checkErr = CheckSignature(0, c34Params(mode, p.prog))
		pass, cx, r.evalErr = EvalSignatureFull(0, c34Params(mode, p.prog))
	} else {
		r.checkErr = CheckContract(p.prog, 0, c34Params(mode, p.prog))
		pass, cx, r.evalErr = EvalContract(p.prog, 0, 888, c34Params(mode, p.prog))
	}
	r.checkOK = r.checkErr == nil
	r.evalAccepted = r.evalErr == nil && pass
	if cx != nil {
		r.dispatched = r.evalErr == nil || cx.pc > p.opPC || (cx.pc == p.opPC && cx.cost > p.prefixCost)
	}
	return r
}

func c34ModeName(m RunMode) string {
	if m == ModeSig {
		return "sig"
	}
	return "app"
}

// c34Shape picks the OpSpecs row that tells how to lay the instruction out at version v: the row in force, or the
// earliest row when the op does not exist yet at v.
func c34Shape(v uint64, code, sub int) *OpSpec {
	inForce, earliest := c34Declared(v, code, sub)
	if inForce != nil {
		return inForce
	}
	return earliest
}

type c34Verdict struct {
	violation string
	class     string // label
}

// c34Judge applies the gating rules for one run against one oracle.
func c34Judge(oracle string, av c34Avail, r c34Result, v uint64, mode RunMode) c34Verdict {
	switch {
	case !av.op || !av.mode:
		cls := "opcode-unavailable"
		if av.op {
			cls = "mode-forbidden"
		}
		if r.checkOK && r.dispatched {
			return c34Verdict{violation: fmt.Sprintf("%s oracle %v: instruction is not available, yet Check accepted the program and Eval executed it (eval err: %v)", oracle, av, r.evalErr)}
		}
		switch {
		case !r.checkOK && !r.dispatched:
			return c34Verdict{class: cls + "/rejected-by-check-and-eval"}
		case !r.checkOK:
			return c34Verdict{class: cls + "/rejected-by-check-only"}
		default:
			return c34Verdict{class: cls + "/rejected-by-eval-only"}
		}
	case !av.field || !av.fieldMode:
		cls := "field-unavailable"
		if av.field {
			cls = "field-mode-forbidden"
		}
		if r.checkOK && r.evalAccepted {
			return c34Verdict{violation: fmt.Sprintf("%s oracle %v: field is not available, yet Check accepted and Eval approved the program", oracle, av)}
		}
		if !r.checkOK {
			return c34Verdict{class: cls + "/rejected-by-check"}
		}
		return c34Verdict{class: cls + "/rejected-by-eval"}
	default:
		if !r.checkOK && !(mode == ModeApp && v < appsEnabledVersion) {
			return c34Verdict{violation: fmt.Sprintf("%s oracle: instruction and field are available in this version and mode, but Check rejected the well-formed program: %v", oracle, r.checkErr)}
		}
		switch {
		case r.evalAccepted:
			return c34Verdict{class: "available/eval-approved"}
		case r.dispatched:
			return c34Verdict{class: "available/eval-executed-then-failed"}
		default:
			return c34Verdict{class: "available/eval-not-executed"}
		}
	}
}

func TestVerif_C34_Sweep(t *testing.T) {
	vk := vkBegin(t, "C34")
	vk.Rule("every first byte 0..255 x (every second byte for multi-byte opcode families | every field value 0..255 for ops with a field immediate) x versions 0..LogicVersion x {signature, application} mode; one program each with a well-typed operand prefix, well-formed immediates and an approving epilogue; run through Check* and Eval*. Oracles: declared OpSpecs/field-group versions and modes, and the shipped langspec_v{1..13}.json. Non-trivial = the feature is unavailable at this (version, mode) but the same bytes are executed (opcode) / approved (field) at some other version or mode, so availability is the only objection; distinct by (version, mode, opcode, sub-opcode, field)")
	vk.Assume("langspec_v*.json shipped in the tree describe versions 1..13; version 14 is judged by the declared table only; version 0 is an alias of version 1")
	docs, err := c34LoadDocs()
	if err != nil {
		t.Fatalf("cannot load documents: %v", err)
	}

	modes := []RunMode{ModeSig, ModeApp}
	type key struct {
		m RunMode
		v uint64
	}
	runOne := func(v uint64, mode RunMode, code, sub, field int) (c34Result, *OpSpec) {
		shape := c34Shape(v, code, sub)
		rawSub := -1
		if shape == nil && sub > 0 {
			rawSub = sub
		}
		p := c34Build(v, shape, code, rawSub, field)
		return c34Run(mode, p), shape
	}

	if raw, ok := vkReplayCase(); ok {
		var c c34Case
		if err := json.Unmarshal(raw, &c); err != nil {
			t.Fatalf("bad replay: %v", err)
		}
		mode := ModeSig
		if c.Mode == "app" {
			mode = ModeApp
		}
		r, _ := runOne(c.Version, mode, c.Code, c.Sub, c.Field)
		vk.Case(true, fmt.Sprintf("%+v", c))
		vk.Case(true, "replay")
		vk.Sample(true, c)
		for name, av := range map[string]c34Avail{"declared": c34DeclAvail(c.Version, mode, c.Code, c.Sub, c.Field), "document": c34DocAvail(docs, c.Version, mode, c.Code, c.Sub, c.Field)} {
			if !av.known {
				continue
			}
			if vd := c34Judge(name, av, r, c.Version, mode); vd.violation != "" {
				vk.Failf(c, "%+v: %s", c, vd.violation)
			}
		}
		return
	}

	shard, nshards := vkShard(), vkNShards()
	neverApproved := map[string]bool{} // op names that are never approved although available (reported as labels)
	everApprovedOp := map[string]bool{}
	for code := 0; code < 256; code++ {
		if code%nshards != shard {
			continue
		}
		hasRows, hasSub := false, false
		for i := range OpSpecs {
			if int(OpSpecs[i].Opcode) == code {
				hasRows = true
				if OpSpecs[i].SubOpcode != 0 {
					hasSub = true
				}
			}
		}
		// documents may know opcodes the table does not (that would be a disagreement, found below)
		for _, ds := range docs {
			if ds.prefix[code] {
				hasSub = true
			}
		}
		subs := []int{0}
		if hasSub {
			subs = subs[:0]
			for s := 0; s < 256; s++ {
				subs = append(subs, s)
			}
		}
		for _, sub := range subs {
			// field domain: 0..255 when any row (or document) for this opcode has a field immediate
			fields := []int{-1}
			hasField := false
			if hasRows {
				for i := range OpSpecs {
					s := &OpSpecs[i]
					if int(s.Opcode) == code && int(s.SubOpcode) == sub {
						if g, _ := c34FieldGroup(s); g != nil {
							hasField = true
						}
					}
				}
			}
			for _, ds := range docs {
				if op := ds.byCode[[2]int{code, sub}]; op != nil && op.hasFields {
					hasField = true
				}
			}
			if hasField {
				fields = fields[:0]
				for f := 0; f < 256; f++ {
					fields = append(fields, f)
				}
			}
			for _, field := range fields {
				results := map[key]c34Result{}
				everDispatched, everApproved := false, false
				var name string
				for _, mode := range modes {
					for v := uint64(0); v <= LogicVersion; v++ {
						r, shape := runOne(v, mode, code, sub, field)
						results[key{mode, v}] = r
						if shape != nil {
							name = shape.Name
						}
						if r.checkOK && r.dispatched {
							everDispatched = true
						}
						if r.checkOK && r.evalAccepted {
							everApproved = true
						}
					}
				}
				for _, mode := range modes {
					for v := uint64(0); v <= LogicVersion; v++ {
						r := results[key{mode, v}]
						c := c34Case{Version: v, Mode: c34ModeName(mode), Code: code, Sub: sub, Field: field}
						decl := c34DeclAvail(v, mode, code, sub, field)
						doc := c34DocAvail(docs, v, mode, code, sub, field)
						if doc.known && ((decl.op && decl.mode) != (doc.op && doc.mode) || decl.all() != doc.all()) {
							vk.Failf(c, "%+v (%s): declared table %v and langspec document %v disagree", c, name, decl, doc)
						}
						vd := c34Judge("declared", decl, r, v, mode)
						if vd.violation == "" && doc.known {
							vd2 := c34Judge("document", doc, r, v, mode)
							if vd2.violation != "" {
								vd = vd2
							}
						}
						if vd.violation != "" {
							vk.Sample(true, c)
							vk.Failf(c, "%+v (%s): %s", c, name, vd.violation)
						}
						nt := false
						switch {
						case !decl.op || !decl.mode:
							nt = everDispatched
						case !decl.field || !decl.fieldMode:
							nt = everApproved
						}
						vk.Case(nt, fmt.Sprintf("%d/%s/%d/%d/%d", v, c.Mode, code, sub, field))
						vk.Label(vd.class)
						if nt {
							vk.Label("nontrivial:" + vd.class)
						}
						if vk.WantSample(nt) && (code*7+int(v))%13 == 0 {
							vk.Sample(nt, c)
						}
						if decl.all() && name != "" {
							if r.evalAccepted {
								everApprovedOp[name] = true
							} else if !everApprovedOp[name] {
								neverApproved[name] = true
							}
						}
					}
				}
			}
		}
	}
	n := 0
	for name := range neverApproved {
		if !everApprovedOp[name] {
			n++
			vk.Label("available-but-never-approved-in-this-environment:" + name)
		}
	}
	vk.Add("ops_never_approved", int64(n))
	vk.Add("ops_approved_somewhere", int64(len(everApprovedOp)))
	vk.Exhaustive("all (first byte, second byte of multi-byte families, field value 0..255, version 0..14, mode) combinations of the opcode and field tables (split over the shards by first byte)")
}
