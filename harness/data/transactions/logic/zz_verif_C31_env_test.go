package logic

// C31 — environment construction, the invariant-checking tracer and the case runner (shared by the rapid tests and
// the native fuzz target).

import (
	"errors"
	"fmt"
	"io"
	"regexp"
	"strings"
	"sync"

	"github.com/algorand/go-algorand/config"
	"github.com/algorand/go-algorand/data/basics"
	"github.com/algorand/go-algorand/data/transactions"
	"github.com/algorand/go-algorand/logging"
	"github.com/algorand/go-algorand/protocol"
)

var c31LogOnce sync.Once
var c31LogSink logging.Logger

func c31Logger() logging.Logger {
	c31LogOnce.Do(func() {
		c31LogSink = logging.NewLogger()
		c31LogSink.SetOutput(io.Discard)
	})
	return c31LogSink
}

// ---------------------------------------------------------------------------------------------------------------------
// tracer: invariants after every step. It never panics and never mutates the context.

type c31Frame struct {
	cx        *EvalContext
	cost      int
	remaining int
	stackLen  int
	top       [4]stackValue
	name      string
	trusted   bool
}

type c31Tracer struct {
	NullEvalTracer
	viol      []string
	frames    []c31Frame
	steps     int // successful steps over all programs
	topSteps  int // successful steps of the outermost program
	programs  int
	maxDepth  int
	lastOp    string // last op started in the outermost program
	lastErrOp string
	diedInOp  bool
	sawPanic  bool
	budgetErrSeen bool
	progSteps map[*EvalContext]int
}

func (tr *c31Tracer) fail(format string, a ...interface{}) {
	if len(tr.viol) < 4 {
		tr.viol = append(tr.viol, fmt.Sprintf(format, a...))
	}
}

// c31Remaining recomputes the remaining budget from the documented rules (not by calling remainingBudget).
func c31Remaining(cx *EvalContext) int {
	if cx.runMode == ModeSig {
		if cx.PooledLogicSigBudget != nil {
			return *cx.PooledLogicSigBudget
		}
		return int(cx.Proto.LogicSigMaxCost) - cx.cost
	}
	if cx.Proto.IsolateClearState && cx.txn != nil && cx.txn.Txn.OnCompletion == transactions.ClearStateOC {
		return cx.Proto.MaxAppProgramCost - cx.cost
	}
	if cx.PooledApplicationBudget != nil {
		return *cx.PooledApplicationBudget
	}
	return cx.Proto.MaxAppProgramCost - cx.cost
}

func c31Depth(cx *EvalContext) int {
	d := 0
	for c := cx.caller; c != nil && d < 100; c = c.caller {
		d++
	}
	return d
}

func (tr *c31Tracer) BeforeProgram(cx *EvalContext) {
	tr.programs++
	d := c31Depth(cx)
	if d > tr.maxDepth {
		tr.maxDepth = d
	}
	if d > maxAppCallDepth {
		tr.fail("inner app call depth %d exceeds maxAppCallDepth %d", d, maxAppCallDepth)
	}
	if tr.progSteps == nil {
		tr.progSteps = map[*EvalContext]int{}
	}
}

func (tr *c31Tracer) BeforeOpcode(cx *EvalContext) {
	f := c31Frame{cx: cx, cost: cx.cost, remaining: c31Remaining(cx), stackLen: len(cx.Stack)}
	if cx.pc >= 0 && cx.pc < len(cx.program) {
		sp := cx.GetOpSpec()
		f.name = sp.Name
		f.trusted = sp.trusted
		if f.name == "" {
			f.name = fmt.Sprintf("0x%02x", cx.program[cx.pc])
		}
	}
	for i := 0; i < len(f.top) && i < len(cx.Stack); i++ {
		f.top[i] = cx.Stack[len(cx.Stack)-1-i]
	}
	if f.remaining < 0 {
		tr.fail("remaining budget %d < 0 before %s (cost so far %d)", f.remaining, f.name, cx.cost)
	}
	if cx.caller == nil {
		tr.lastOp = f.name
	}
	tr.frames = append(tr.frames, f)
}

var c31PrecheckErrs = []string{"illegal opcode", "not allowed in current mode", "stack underflow in", " wanted ", "program ends without immediate",
	"prefix opcode", "dynamic cost budget exceeded", "returned 0 cost"}

func (tr *c31Tracer) AfterOpcode(cx *EvalContext, err error) {
	// find the matching frame (nested programs push/pop in LIFO order; be defensive anyway)
	k := len(tr.frames) - 1
	for k >= 0 && tr.frames[k].cx != cx {
		k--
	}
	if k < 0 {
		return
	}
	f := tr.frames[k]
	tr.frames = tr.frames[:k]

	delta := cx.cost - f.cost
	if delta < 0 {
		tr.fail("%s: cost went down (%d -> %d)", f.name, f.cost, cx.cost)
	}
	if f.remaining >= 0 && delta > f.remaining {
		tr.fail("%s: charged %d with only %d budget remaining (cost %d)", f.name, delta, f.remaining, cx.cost)
	}
	if err != nil {
		msg := err.Error()
		if strings.HasPrefix(msg, "panic in TEAL Eval") {
			tr.sawPanic = true
		}
		if strings.Contains(msg, "dynamic cost budget exceeded") && !tr.budgetErrSeen {
			// The innermost frame that reports the error is where step refused the instruction (outer itxn_submit
			// frames merely propagate it). That instruction must not have executed: stack and cost untouched.
			tr.budgetErrSeen = true
			same := len(cx.Stack) == f.stackLen && delta == 0
			for i := 0; same && i < len(f.top) && i < len(cx.Stack); i++ {
				a, b := f.top[i], cx.Stack[len(cx.Stack)-1-i]
				if a.Uint != b.Uint || len(a.Bytes) != len(b.Bytes) || (a.Bytes == nil) != (b.Bytes == nil) {
					same = false
				}
			}
			if !same {
				tr.fail("%s executed although the budget was exhausted (stack %d -> %d, cost +%d)", f.name, f.stackLen, len(cx.Stack), delta)
			}
		}
		if cx.caller == nil {
			tr.lastErrOp = f.name
			tr.diedInOp = true
			for _, p := range c31PrecheckErrs {
				if strings.Contains(msg, p) {
					tr.diedInOp = false
				}
			}
		}
		return
	}
	tr.steps++
	tr.progSteps[cx]++
	if cx.caller == nil {
		tr.topSteps++
	}
	if delta < 1 {
		tr.fail("%s executed at cost %d", f.name, delta)
	}
	if len(cx.Stack) > maxStackDepth {
		tr.fail("after %s: stack depth %d > %d", f.name, len(cx.Stack), maxStackDepth)
	}
	for i := range cx.Stack {
		if len(cx.Stack[i].Bytes) > maxStringSize {
			tr.fail("after %s: stack[%d] holds %d bytes > %d", f.name, i, len(cx.Stack[i].Bytes), maxStringSize)
			break
		}
	}
	if f.name == "store" || f.name == "stores" {
		tr.checkScratch(cx, f.name)
	}
	if r := c31Remaining(cx); r < 0 {
		tr.fail("after %s: remaining budget %d < 0", f.name, r)
	}
	if cx.pooledAllowedInners != nil && *cx.pooledAllowedInners < 0 {
		tr.fail("after %s: pooled inner transaction allowance %d < 0", f.name, *cx.pooledAllowedInners)
	}
}

func (tr *c31Tracer) checkScratch(cx *EvalContext, where string) {
	for i := range cx.Scratch {
		if len(cx.Scratch[i].Bytes) > maxStringSize {
			tr.fail("after %s: scratch[%d] holds %d bytes > %d", where, i, len(cx.Scratch[i].Bytes), maxStringSize)
			return
		}
	}
}

func (tr *c31Tracer) AfterProgram(cx *EvalContext, pass bool, err error) {
	tr.checkScratch(cx, "program end")
	if n := tr.progSteps[cx]; n > cx.cost {
		tr.fail("program executed %d instructions at total cost %d", n, cx.cost)
	}
	if cx.runMode == ModeApp && cx.txn != nil {
		ed := &cx.txn.EvalDelta
		if len(ed.Logs) > cx.MaxLogCalls && cx.MaxLogCalls > 0 {
			tr.fail("%d log calls > %d", len(ed.Logs), cx.MaxLogCalls)
		}
		tot := 0
		for _, l := range ed.Logs {
			tot += len(l)
		}
		if cx.MaxLogSize > 0 && tot > cx.MaxLogSize {
			tr.fail("%d logged bytes > %d", tot, cx.MaxLogSize)
		}
		if cx.pooledAllowedInners == nil && len(ed.InnerTxns) > cx.Proto.MaxInnerTransactions {
			tr.fail("%d inner transactions > %d", len(ed.InnerTxns), cx.Proto.MaxInnerTransactions)
		}
		if cx.pooledAllowedInners != nil && len(ed.InnerTxns) > cx.Proto.MaxTxGroupSize*cx.Proto.MaxInnerTransactions {
			tr.fail("%d inner transactions > pooled maximum", len(ed.InnerTxns))
		}
	}
	delete(tr.progSteps, cx)
}

// ---------------------------------------------------------------------------------------------------------------------
// environment

type c31Env struct {
	mode    RunMode
	pv      uint64
	gi      int
	n       int
	aid     basics.AppIndex
	trace   bool
	desc    string
	txns    []transactions.SignedTxn
	ledger  *Ledger
	proto   *config.ConsensusParams
	sigBud0 int
	appBud0 int
	past    map[int]bool
}

func c31SampleAddr(i int) basics.Address {
	var a basics.Address
	copy(a[:], c31Addrs()[i])
	return a
}

// c31BuildEnv draws a transaction group, ledger and protocol for evaluating a version-v program.
func c31BuildEnv(s c31Src, v uint64) *c31Env {
	e := &c31Env{}
	// mode
	if v < appsEnabledVersion {
		if c31Pct(s, 12) {
			e.mode = ModeApp
		} else {
			e.mode = ModeSig
		}
	} else if s.N(5) < 3 {
		e.mode = ModeApp
	} else {
		e.mode = ModeSig
	}
	// protocol version
	e.pv = LogicVersion
	switch {
	case c31Pct(s, 20):
		lo := v
		if lo < 1 {
			lo = 1
		}
		if lo > LogicVersion {
			lo = LogicVersion
		}
		e.pv = lo + uint64(s.N(int(LogicVersion-lo)+1))
	case c31Pct(s, 3) && v > 1:
		e.pv = uint64(1 + s.N(int(v)-1))
	}
	e.n = 1 + s.N(4)
	e.gi = s.N(e.n)
	e.trace = c31Pct(s, 8)

	sigCost := []uint64{25000, 2000, 300, 20000}[s.N(4)]
	appCost := []int{700, 20000, 100}[s.N(3)]
	if e.trace {
		// ep.Trace (dryrun/debug only) renders the whole top of the stack after every step: with a 100k-step budget and
		// 4 KiB values that is ~1 GB of text per case. Keep traced runs short.
		sigCost, appCost = 2000, 700
		if e.n > 2 {
			e.n = 2
			e.gi = e.gi % 2
		}
	}
	poolApp, poolSig, poolInner := !c31Pct(s, 15), !c31Pct(s, 15), !c31Pct(s, 15)
	isolate := c31Pct(s, 30)
	e.proto = makeTestProto(protoVer(e.pv), func(p *config.ConsensusParams) {
		p.LogicSigMaxCost = sigCost
		p.MaxAppProgramCost = appCost
		p.EnableAppCostPooling = poolApp
		p.EnableLogicSigCostPooling = poolSig
		p.EnableInnerTransactionPooling = poolInner
		p.IsolateClearState = isolate
	})

	apps := []basics.AppIndex{888, 56, 100, 111}
	assets := []basics.AssetIndex{55, 77, 10}
	types := []protocol.TxType{protocol.PaymentTx, protocol.ApplicationCallTx, protocol.AssetTransferTx, protocol.AssetConfigTx,
		protocol.AssetFreezeTx, protocol.KeyRegistrationTx}
	for i := 0; i < e.n; i++ {
		tx := makeSampleTxn()
		tx.Txn.Type = types[s.N(len(types))]
		if i == e.gi && e.mode == ModeApp {
			tx.Txn.Type = protocol.ApplicationCallTx
		}
		if v < appsEnabledVersion && c31Pct(s, 90) {
			// pre-v2 programs are only admitted to groups without rekeying and without app calls (minAvmVersion)
			tx.Txn.RekeyTo = basics.Address{}
			if !(i == e.gi && e.mode == ModeApp) {
				tx.Txn.Type = []protocol.TxType{protocol.PaymentTx, protocol.AssetTransferTx, protocol.KeyRegistrationTx}[s.N(3)]
			}
		}
		tx.Txn.Sender = c31SampleAddr(s.N(4))
		if c31Pct(s, 50) {
			tx.Txn.ApplicationID = apps[s.N(len(apps))]
			if c31Pct(s, 10) {
				tx.Txn.ApplicationID = 0
			}
		}
		tx.Txn.OnCompletion = transactions.OnCompletion(s.N(6))
		if c31Pct(s, 60) {
			tx.Txn.OnCompletion = transactions.NoOpOC
		}
		if c31Pct(s, 60) {
			na := s.N(9)
			tx.Txn.ApplicationArgs = nil
			for k := 0; k < na; k++ {
				l := c31Len(s, 0, 64)
				if c31Pct(s, 5) {
					l = []int{1000, 2048, 4096, 4097}[s.N(4)]
				}
				b := make([]byte, l)
				c31Fill(s, b)
				tx.Txn.ApplicationArgs = append(tx.Txn.ApplicationArgs, b)
			}
		}
		if c31Pct(s, 50) {
			tx.Txn.Accounts = nil
			for k := s.N(4); k > 0; k-- {
				tx.Txn.Accounts = append(tx.Txn.Accounts, c31SampleAddr(s.N(len(c31Addrs())-1)))
			}
		}
		if c31Pct(s, 50) {
			tx.Txn.ForeignApps = nil
			for k := s.N(4); k > 0; k-- {
				tx.Txn.ForeignApps = append(tx.Txn.ForeignApps, apps[s.N(len(apps))])
			}
			tx.Txn.ForeignAssets = nil
			for k := s.N(3); k > 0; k-- {
				tx.Txn.ForeignAssets = append(tx.Txn.ForeignAssets, assets[s.N(len(assets))])
			}
		}
		if c31Pct(s, 55) { // every pool name of the called app is referenced: box ops reach the ledger
			tx.Txn.Boxes = nil
			for _, nm := range c31BoxNames {
				tx.Txn.Boxes = append(tx.Txn.Boxes, transactions.BoxRef{Index: 0, Name: []byte(nm)})
			}
			for k := s.N(3); k > 0 && len(tx.Txn.ForeignApps) > 0; k-- {
				tx.Txn.Boxes = append(tx.Txn.Boxes, transactions.BoxRef{Index: uint64(1 + s.N(len(tx.Txn.ForeignApps))),
					Name: []byte(c31BoxNames[s.N(len(c31BoxNames))])})
			}
		} else if c31Pct(s, 60) {
			tx.Txn.Boxes = nil
			for k := s.N(4); k > 0; k-- {
				nm := c31BoxNames[s.N(len(c31BoxNames))]
				br := transactions.BoxRef{Index: uint64(s.N(len(tx.Txn.ForeignApps) + 1)), Name: []byte(nm)}
				if c31Pct(s, 10) {
					br.Name = nil // pure I/O budget bump
				}
				tx.Txn.Boxes = append(tx.Txn.Boxes, br)
			}
		}
		if c31Pct(s, 15) {
			l := []int{0, 1, 100, 2048, 4096, 5000, 8192}[s.N(7)]
			tx.Txn.ApprovalProgram = make([]byte, l)
			c31Fill(s, tx.Txn.ApprovalProgram)
			tx.Txn.ClearStateProgram = make([]byte, l/2)
			tx.Txn.ExtraProgramPages = uint32(s.N(4))
		}
		if c31Pct(s, 10) {
			tx.Txn.Note = make([]byte, []int{0, 1, 1024, 4096, 4097}[s.N(5)])
		}
		if c31Pct(s, 10) {
			tx.Txn.FirstValid = basics.Round(s.N(3))
			tx.Txn.LastValid = tx.Txn.FirstValid + basics.Round(s.N(1001))
		}
		if c31Pct(s, 8) && v >= sharedResourcesVersion && tx.Txn.Type == protocol.ApplicationCallTx {
			tx.Txn = convertTxnToAccess(tx.Txn, s.N(2) == 0)
			tx.Txn.Accounts, tx.Txn.ForeignApps, tx.Txn.ForeignAssets, tx.Txn.Boxes = nil, nil, nil, nil
		}
		// logicsig arguments
		na := 3 + s.N(4)
		if c31Pct(s, 15) {
			na = s.N(3)
		}
		if s.N(200) == 0 {
			na = []int{255, 255, 256}[s.N(3)]
		}
		for k := 0; k < na; k++ {
			l := c31Len(s, 0, 64)
			if s.N(400) < 3 {
				l = []int{4096, 4096, 4097}[s.N(3)]
			}
			if na > 10 {
				l = s.N(3)
			}
			b := make([]byte, l)
			c31Fill(s, b)
			tx.Lsig.Args = append(tx.Lsig.Args, b)
		}
		e.txns = append(e.txns, tx)
	}
	e.aid = e.txns[e.gi].Txn.ApplicationID
	if e.aid == 0 {
		e.aid = 5000
	}

	// ledger
	l := NewLedger(nil)
	for i := 0; i <= 10; i++ {
		bal := []uint64{0, 1, 1000, 1001, 100000, 1 << 40, 1<<64 - 1}[s.N(7)]
		l.NewAccount(c31SampleAddr(i), bal)
	}
	creator := c31SampleAddr(s.N(3))
	for _, id := range append(apps, 5000) {
		prog := append([]byte(nil), c31InnerProgram(s.N(len(c31InnerSources)), uint64(apps[s.N(len(apps))]))...)
		params := basics.AppParams{
			ApprovalProgram:   prog,
			ClearStateProgram: []byte{byte(LogicVersion), 0x81, 0x01},
			StateSchemas: basics.StateSchemas{
				GlobalStateSchema: basics.StateSchema{NumUint: uint64(s.N(4)), NumByteSlice: uint64(s.N(4))},
				LocalStateSchema:  basics.StateSchema{NumUint: uint64(s.N(3)), NumByteSlice: uint64(s.N(3))},
			},
			ExtraProgramPages: uint32(s.N(3)),
		}
		cr := creator
		if c31Pct(s, 30) {
			cr = c31SampleAddr(s.N(5))
		}
		if id == 5000 && c31Pct(s, 50) {
			continue // creation without pre-existing params
		}
		if c31Pct(s, 8) {
			continue // missing app
		}
		l.NewApp(cr, id, params)
		if c31Pct(s, 40) {
			_ = l.SetForeignBoxReads(id, true)
		}
		if c31Pct(s, 40) {
			_ = l.SetFamilyBoxAccess(id, true)
		}
		if c31Pct(s, 90) {
			l.NewAccount(id.Address(), []uint64{1 << 30, 1 << 40, 100000, 1000, 0}[s.N(5)])
		}
		for k := s.N(3); k > 0; k-- {
			key := c31Keys[s.N(len(c31Keys))]
			if s.N(2) == 0 {
				l.NewGlobal(id, key, uint64(s.N(100)))
			} else {
				l.NewGlobal(id, key, "val"+key)
			}
		}
		for k := s.N(3); k > 0; k-- {
			nm := c31BoxNames[s.N(len(c31BoxNames))]
			sz := []uint64{0, 1, 10, 24, 24, 10, 1, 100, 1000}[s.N(9)]
			_ = l.NewBox(id, nm, make([]byte, sz), id.Address())
		}
		for k := s.N(3); k > 0; k-- {
			a := c31SampleAddr(s.N(4))
			l.NewLocals(a, id)
			if s.N(2) == 0 {
				l.NewLocal(a, id, c31Keys[s.N(len(c31Keys))], uint64(s.N(9)))
			}
		}
	}
	for _, id := range assets {
		if c31Pct(s, 10) {
			continue
		}
		ap := basics.AssetParams{Total: []uint64{0, 1000, 1<<64 - 1}[s.N(3)], Decimals: uint32(s.N(5)), DefaultFrozen: s.N(2) == 0,
			UnitName: "tok", AssetName: "name", URL: "http://x", Manager: c31SampleAddr(0), Reserve: c31SampleAddr(1),
			Freeze: c31SampleAddr(2), Clawback: c31SampleAddr(3)}
		l.NewAsset(creator, id, ap)
		for k := s.N(3); k > 0; k-- {
			l.NewHolding(c31SampleAddr(s.N(5)), id, uint64(s.N(2000)), s.N(2) == 0)
		}
	}
	e.ledger = l
	e.desc = fmt.Sprintf("mode=%s proto=v%d group=%d gi=%d aid=%d oc=%d trace=%v sigCost=%d appCost=%d pool(app=%v sig=%v inner=%v) isolate=%v",
		e.mode, e.pv, e.n, e.gi, e.aid, e.txns[e.gi].Txn.OnCompletion, e.trace, sigCost, appCost, poolApp, poolSig, poolInner, isolate)
	e.past = map[int]bool{}
	for i := 0; i < e.gi; i++ {
		e.past[i] = c31Pct(s, 70)
	}
	return e
}

// small approval programs installed in the mock ledger's apps (targets of inner app calls); assembled once with the
// package's assembler (set-up only, not part of the oracle). %d is replaced by the next app of a call chain.
var c31InnerSources = []struct {
	v   uint64
	src string
}{
	{LogicVersion, "int 1"},
	{6, "int 1"},
	{4, "int 1"},
	{3, "int 1"}, // too old to be called from an inner transaction
	{LogicVersion, "int 0"},
	{LogicVersion, "err"},
	{LogicVersion, "itxn_begin; int appl; itxn_field TypeEnum; int %d; itxn_field ApplicationID; itxn_submit; int 1"},
	{9, "itxn_begin; int appl; itxn_field TypeEnum; int %d; itxn_field ApplicationID; itxn_submit; int 1"},
	{6, "itxn_begin; int appl; itxn_field TypeEnum; global CurrentApplicationID; itxn_field ApplicationID; itxn_submit; int 1"},
	{LogicVersion, "byte 0x6869; log; int 1"},
	{8, "byte 0x73656c66; int 10; box_create; pop; int 1"},
	{LogicVersion, "int 0; top: int 1; +; dup; int 100000; <; bnz top; int 1"},
	{LogicVersion, "byte 0x6b; int 7; app_global_put; int 1"},
	{LogicVersion, "itxn_begin; int pay; itxn_field TypeEnum; itxn_submit; int 1"},
}

var c31InnerMu sync.Mutex
var c31InnerCache = map[string][]byte{}

func c31InnerProgram(k int, next uint64) []byte {
	it := c31InnerSources[k%len(c31InnerSources)]
	src := it.src
	if strings.Contains(src, "%d") {
		src = fmt.Sprintf(src, next)
	}
	key := fmt.Sprintf("%d|%s", it.v, src)
	c31InnerMu.Lock()
	defer c31InnerMu.Unlock()
	if p, ok := c31InnerCache[key]; ok {
		return p
	}
	p := []byte{byte(LogicVersion), 0x81, 0x01}
	if ops, err := AssembleStringWithVersion(strings.ReplaceAll(src, "; ", "\n"), it.v); err == nil {
		p = ops.Program
	}
	c31InnerCache[key] = p
	return p
}

type c31Result struct {
	pass     bool
	err      error
	checkErr error
	cost     int
	steps    int
	topSteps int
	programs int
	maxDepth int
	lastOp   string
	diedInOp bool
	errClass string
	mock     bool   // a panic raised by the test ledger mock (not by the code under test)
	viol     string // non-empty: a violation of C31
}

var c31Digits = regexp.MustCompile(`[0-9]+`)
var c31Hexish = regexp.MustCompile(`[0-9a-fA-F]{8,}|[A-Z2-7]{20,}`)

func c31ErrClass(err error) string {
	if err == nil {
		return "ok"
	}
	m := err.Error()
	if i := strings.Index(m, ". Details:"); i >= 0 {
		m = m[:i]
	}
	m = strings.TrimPrefix(m, "rejected by logic err=")
	m = strings.TrimPrefix(m, "logic eval error: ")
	m = c31Hexish.ReplaceAllString(m, "H")
	m = c31Digits.ReplaceAllString(m, "N")
	if i := strings.IndexAny(m, "\n"); i >= 0 {
		m = m[:i]
	}
	if len(m) > 48 {
		m = m[:48]
	}
	return m
}

// c31PanicOrigin inspects a recovered stack trace: returns true when the panicking frame is in a _test.go file
// (the ledger mock), which is outside the code under test.
func c31PanicFromMock(trace string) bool {
	lines := strings.Split(trace, "\n")
	// the tracer hook in eval re-panics, so the original panic is the LAST "panic(" frame of the trace; the frame
	// after it (skipping runtime frames) is the function that panicked
	last := -1
	for i := range lines {
		if strings.HasPrefix(lines[i], "panic(") {
			last = i
		}
	}
	if last < 0 {
		return false
	}
	for j := last + 2; j+1 < len(lines); j += 2 {
		fn, file := lines[j], strings.TrimSpace(lines[j+1])
		if strings.HasPrefix(fn, "runtime.") || strings.HasPrefix(fn, "runtime/") {
			continue
		}
		return strings.Contains(file, "_test.go:") && !strings.Contains(file, "zz_verif_")
	}
	return false
}

// c31Run evaluates program in env and checks every C31 obligation. It never lets a panic escape.
func c31Run(e *c31Env, program []byte) (res c31Result) {
	tr := &c31Tracer{}
	defer func() {
		if x := recover(); x != nil {
			res.viol = fmt.Sprintf("panic escaped evaluation: %v", x)
		}
	}()
	classify := func(where string, err error) bool { // true when err is a recovered panic of the code under test
		var pe panicError
		if err != nil && errors.As(err, &pe) {
			if c31PanicFromMock(pe.StackTrace) {
				res.mock = true
				return false
			}
			tr0 := pe.StackTrace
			if len(tr0) > 2500 {
				tr0 = tr0[:2500]
			}
			res.viol = fmt.Sprintf("%s recovered an internal panic: %v\n%s", where, pe.PanicValue, tr0)
			return true
		}
		if err != nil && strings.Contains(err.Error(), "panic in TEAL Eval") {
			res.viol = fmt.Sprintf("%s reported a panic: %v", where, err)
			return true
		}
		return false
	}

	var cx *EvalContext
	if e.mode == ModeSig {
		txns := make([]transactions.SignedTxn, len(e.txns))
		copy(txns, e.txns)
		txns[e.gi].Lsig.Logic = program
		for i := range txns { // other members of the group carry small logicsigs too (pooled budget)
			if i != e.gi && i%2 == 0 {
				txns[i].Lsig.Logic = []byte{1, 0x20, 0x01, 0x01, 0x22}
			}
		}
		ep := NewSigEvalParams(txns, e.proto, e.ledger)
		ep.logger = c31Logger()
		if e.trace {
			ep.Trace = &strings.Builder{}
		}
		if ep.PooledLogicSigBudget != nil {
			e.sigBud0 = *ep.PooledLogicSigBudget
		}
		res.checkErr = CheckSignature(e.gi, ep)
		if classify("CheckSignature", res.checkErr) {
			return
		}
		ep.Tracer = tr
		res.pass, cx, res.err = EvalSignatureFull(e.gi, ep)
		if classify("EvalSignature", res.err) {
			return
		}
		if cx != nil {
			res.cost = cx.Cost()
			if ep.PooledLogicSigBudget != nil {
				if *ep.PooledLogicSigBudget < 0 || e.sigBud0-*ep.PooledLogicSigBudget != cx.Cost() {
					res.viol = fmt.Sprintf("pooled logicsig budget %d -> %d but program cost %d", e.sigBud0, *ep.PooledLogicSigBudget, cx.Cost())
				}
			} else if uint64(cx.Cost()) > e.proto.LogicSigMaxCost {
				res.viol = fmt.Sprintf("logicsig cost %d > LogicSigMaxCost %d", cx.Cost(), e.proto.LogicSigMaxCost)
			}
		}
	} else {
		ep := NewAppEvalParams(transactions.WrapSignedTxnsWithAD(e.txns), e.proto, &transactions.SpecialAddresses{})
		if ep == nil {
			res.err = errors.New("no app params")
			return
		}
		ep.Ledger = e.ledger
		ep.SigLedger = e.ledger
		ep.logger = c31Logger()
		if e.trace {
			ep.Trace = &strings.Builder{}
		}
		for i := 0; i < e.gi; i++ { // effects of the earlier transactions of the group
			if e.past[i] {
				sc := &scratchSpace{}
				sc[0] = stackValue{Uint: uint64(i + 1)}
				sc[1] = stackValue{Bytes: []byte("scratch")}
				sc[255] = stackValue{Uint: 255}
				ep.pastScratch[i] = sc
				ep.TxnGroup[i].ApplyData.ConfigAsset = basics.AssetIndex(5100 + i)
				ep.TxnGroup[i].ApplyData.ApplicationID = basics.AppIndex(5200 + i)
				ep.TxnGroup[i].ApplyData.EvalDelta.Logs = []string{"log0", ""}
			}
		}
		if ep.PooledApplicationBudget != nil {
			e.appBud0 = *ep.PooledApplicationBudget
		}
		res.checkErr = CheckContract(program, e.gi, ep)
		if classify("CheckContract", res.checkErr) {
			return
		}
		ep.Tracer = tr
		res.pass, cx, res.err = EvalContract(program, e.gi, e.aid, ep)
		if classify("EvalContract", res.err) {
			return
		}
		if cx != nil {
			res.cost = cx.Cost()
			if ep.PooledApplicationBudget != nil {
				if *ep.PooledApplicationBudget < 0 {
					res.viol = fmt.Sprintf("pooled app budget ended at %d", *ep.PooledApplicationBudget)
				}
				// inner app calls add MaxAppProgramCost to the pool (even when the callee never runs), so without inner
				// programs the pool can only have gone down by at most what this program was charged
				if tr.programs <= 1 && e.appBud0-*ep.PooledApplicationBudget > cx.Cost() {
					res.viol = fmt.Sprintf("pooled app budget %d -> %d but program cost only %d", e.appBud0, *ep.PooledApplicationBudget, cx.Cost())
				}
			} else if cx.Cost() > e.proto.MaxAppProgramCost {
				res.viol = fmt.Sprintf("app cost %d > MaxAppProgramCost %d", cx.Cost(), e.proto.MaxAppProgramCost)
			}
		}
	}
	res.steps, res.topSteps, res.programs, res.maxDepth = tr.steps, tr.topSteps, tr.programs, tr.maxDepth
	res.lastOp, res.diedInOp = tr.lastOp, tr.diedInOp
	res.errClass = c31ErrClass(res.err)
	if res.viol == "" && len(tr.viol) > 0 {
		res.viol = strings.Join(tr.viol, "; ")
	}
	if res.viol == "" && tr.sawPanic {
		res.viol = "the tracer was told about a panic in TEAL Eval but the result does not carry one"
	}
	if res.viol == "" && res.err == nil && res.pass && cx != nil {
		// an accepting run ends with exactly one non-zero uint64 on the stack
		if len(cx.Stack) != 1 || cx.Stack[0].Bytes != nil || cx.Stack[0].Uint == 0 {
			res.viol = fmt.Sprintf("accepted with stack %v", cx.Stack)
		}
	}
	return
}

func c31Describe(e *c31Env, program []byte) string {
	dis, derr := Disassemble(program)
	if derr != nil {
		dis = fmt.Sprintf("(disassembly failed: %v)\n%s", derr, dis)
	}
	if len(dis) > 3000 {
		dis = dis[:3000] + "…"
	}
	return fmt.Sprintf("program(hex)=%x\nenv: %s\n%s", program, e.desc, dis)
}
