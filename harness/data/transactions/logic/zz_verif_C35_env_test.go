package logic

// C35 — app programs can touch only resources made available to them.
//
// Shared machinery of the two C35 units: the fixed resource universe, the mock ledger in which every resource and every
// cross product exists, the transaction-group generator (by construction never naming an excluded resource), the
// independent "mention scan" over the real transactions, the in-package runner and the catalogue of access programs.

import (
	"encoding/hex"
	"fmt"
	"sort"
	"strings"

	"pgregory.net/rapid"

	"github.com/algorand/go-algorand/config"
	"github.com/algorand/go-algorand/data/basics"
	"github.com/algorand/go-algorand/data/transactions"
	"github.com/algorand/go-algorand/protocol"
)

const (
	c35NPlain = 6
	c35NApp   = 4
	c35NAsset = 4
	c35NBox   = 4
	c35NAcct  = c35NPlain + c35NApp // plain accounts 0..5, then the app accounts of apps 0..3
)

var (
	c35AppIDs   = [c35NApp]basics.AppIndex{1001, 1002, 1003, 1004}
	c35AssetIDs = [c35NAsset]basics.AssetIndex{2001, 2002, 2003, 2004}
	c35BoxNames = [c35NBox]string{"b0", "b1", "box-two", "the-third-box-name-is-longer"}
	c35BoxSize  = 16
)

type c35Universe struct {
	accts    [c35NAcct]basics.Address
	creator  basics.Address // creator/manager of every asset and app; never part of any transaction
	acctIdx  map[basics.Address]int
	appIdx   map[basics.AppIndex]int
	assetIdx map[basics.AssetIndex]int
	boxIdx   map[string]int
	proto    config.ConsensusParams
	specials transactions.SpecialAddresses
}

var c35U = func() *c35Universe {
	u := &c35Universe{
		acctIdx:  map[basics.Address]int{},
		appIdx:   map[basics.AppIndex]int{},
		assetIdx: map[basics.AssetIndex]int{},
		boxIdx:   map[string]int{},
	}
	for i := 0; i < c35NPlain; i++ {
		var a basics.Address
		for j := range a {
			a[j] = byte(0x35 + 7*j)
		}
		a[0] = byte(0xA0 + i)
		a[31] = byte(i + 1)
		u.accts[i] = a
	}
	for p := 0; p < c35NApp; p++ {
		u.accts[c35NPlain+p] = c35AppIDs[p].Address()
		u.appIdx[c35AppIDs[p]] = p
	}
	for i, a := range u.accts {
		u.acctIdx[a] = i
	}
	for s, id := range c35AssetIDs {
		u.assetIdx[id] = s
	}
	for n, name := range c35BoxNames {
		u.boxIdx[name] = n
	}
	for j := range u.creator {
		u.creator[j] = 0xC3
	}
	for j := range u.specials.FeeSink {
		u.specials.FeeSink[j] = 0xF5
		u.specials.RewardsPool[j] = 0xF6
	}
	u.proto = config.Consensus[protocol.ConsensusFuture]
	return u
}()

func c35AcctName(i int) string {
	if i < c35NPlain {
		return fmt.Sprintf("a%d", i)
	}
	return fmt.Sprintf("appacct%d", i-c35NPlain)
}

func c35AddrName(a basics.Address) string {
	if a.IsZero() {
		return "-"
	}
	if i, ok := c35U.acctIdx[a]; ok {
		return c35AcctName(i)
	}
	return "?" + a.String()[:6]
}

// ---------------------------------------------------------------------------------------------------------------------
// resource sets

type c35Set struct {
	Acct  [c35NAcct]bool
	Asset [c35NAsset]bool
	App   [c35NApp]bool
	Box   [c35NApp][c35NBox]bool
	// creation restrictions (generator only)
	NoCreateApp   [c35NApp]bool
	NoCreateAsset [c35NAsset]bool
}

// close applies the conservative identification "app p  <->  app account of p".
func (s *c35Set) close() {
	for p := 0; p < c35NApp; p++ {
		if s.App[p] {
			s.Acct[c35NPlain+p] = true
		}
		if s.Acct[c35NPlain+p] {
			s.App[p] = true
		}
	}
}

func (s *c35Set) union(o *c35Set) {
	for i := range s.Acct {
		s.Acct[i] = s.Acct[i] || o.Acct[i]
	}
	for i := range s.Asset {
		s.Asset[i] = s.Asset[i] || o.Asset[i]
	}
	for i := range s.App {
		s.App[i] = s.App[i] || o.App[i]
		for n := range s.Box[i] {
			s.Box[i][n] = s.Box[i][n] || o.Box[i][n]
		}
	}
}

func c35Allowed(n int, excl func(int) bool) []int {
	out := make([]int, 0, n)
	for i := 0; i < n; i++ {
		if !excl(i) {
			out = append(out, i)
		}
	}
	return out
}

func (s *c35Set) accts() []int {
	return c35Allowed(c35NAcct, func(i int) bool { return s != nil && s.Acct[i] })
}
func (s *c35Set) assets() []int {
	return c35Allowed(c35NAsset, func(i int) bool { return s != nil && s.Asset[i] })
}
func (s *c35Set) apps() []int {
	return c35Allowed(c35NApp, func(i int) bool { return s != nil && s.App[i] })
}
func (s *c35Set) creatableApps() []int {
	return c35Allowed(c35NApp, func(i int) bool { return s != nil && (s.App[i] || s.NoCreateApp[i]) })
}
func (s *c35Set) creatableAssets() []int {
	return c35Allowed(c35NAsset, func(i int) bool { return s != nil && (s.Asset[i] || s.NoCreateAsset[i]) })
}
func (s *c35Set) boxNames(app int) []int {
	return c35Allowed(c35NBox, func(n int) bool { return s != nil && s.Box[app][n] })
}

// ---------------------------------------------------------------------------------------------------------------------
// targets

type c35Target struct {
	Kind   string `json:"kind"` // acct | asset | app | box
	I      int    `json:"i"`    // account / asset / app index, or box name index
	BoxApp int    `json:"box_app"`
}

func (x c35Target) String() string {
	switch x.Kind {
	case "acct":
		return c35AcctName(x.I)
	case "asset":
		return fmt.Sprintf("asset%d", x.I)
	case "app":
		return fmt.Sprintf("app%d", x.I)
	default:
		return fmt.Sprintf("box(app%d,%q)", x.BoxApp, c35BoxNames[x.I])
	}
}

// exclusion is the set of things a transaction may not name so that the target stays unmentioned.
func (x c35Target) exclusion() *c35Set {
	s := &c35Set{}
	switch x.Kind {
	case "acct":
		s.Acct[x.I] = true
	case "asset":
		s.Asset[x.I] = true
		s.NoCreateAsset[x.I] = true
	case "app":
		s.App[x.I] = true
		s.NoCreateApp[x.I] = true
	case "box":
		s.Box[x.BoxApp][x.I] = true
		// a freshly created app may touch unnamed boxes of its own (one per empty box reference), so the app of the
		// target box is never a created one
		s.NoCreateApp[x.BoxApp] = true
	}
	s.close()
	for p := 0; p < c35NApp; p++ {
		if s.App[p] {
			s.NoCreateApp[p] = true
		}
	}
	return s
}

func (s *c35Set) has(x c35Target) bool {
	switch x.Kind {
	case "acct":
		return s.Acct[x.I]
	case "asset":
		return s.Asset[x.I]
	case "app":
		return s.App[x.I]
	default:
		return s.Box[x.BoxApp][x.I]
	}
}

// ---------------------------------------------------------------------------------------------------------------------
// groups

type c35Group struct {
	Txns    []transactions.Transaction
	Created []int // index of the app (appl with ApplicationID 0) or asset (acfg with ConfigAsset 0) this txn creates, else -1
	Target  int
}

func c35CloneTxn(tx transactions.Transaction) transactions.Transaction {
	tx.Accounts = append([]basics.Address(nil), tx.Accounts...)
	tx.ForeignAssets = append([]basics.AssetIndex(nil), tx.ForeignAssets...)
	tx.ForeignApps = append([]basics.AppIndex(nil), tx.ForeignApps...)
	tx.Boxes = append([]transactions.BoxRef(nil), tx.Boxes...)
	tx.Access = append([]transactions.ResourceRef(nil), tx.Access...)
	return tx
}

func (g *c35Group) clone() *c35Group {
	n := &c35Group{Target: g.Target, Created: append([]int(nil), g.Created...)}
	for _, tx := range g.Txns {
		n.Txns = append(n.Txns, c35CloneTxn(tx))
	}
	return n
}

// effApp is the app a call transaction runs (for a creation: the id the ledger hands out).
func (g *c35Group) effApp(i int) basics.AppIndex {
	tx := &g.Txns[i]
	if tx.Type != protocol.ApplicationCallTx {
		return 0
	}
	if tx.ApplicationID != 0 {
		return tx.ApplicationID
	}
	return c35AppIDs[g.Created[i]]
}

func c35RenderTxn(tx *transactions.Transaction, created int) string {
	var sb strings.Builder
	fmt.Fprintf(&sb, "%s snd=%s", tx.Type, c35AddrName(tx.Sender))
	if !tx.RekeyTo.IsZero() {
		fmt.Fprintf(&sb, " rekey=%s", c35AddrName(tx.RekeyTo))
	}
	switch tx.Type {
	case protocol.PaymentTx:
		fmt.Fprintf(&sb, " rcv=%s close=%s", c35AddrName(tx.Receiver), c35AddrName(tx.CloseRemainderTo))
	case protocol.AssetTransferTx:
		fmt.Fprintf(&sb, " asset=%d arcv=%s asnd=%s aclose=%s", tx.XferAsset, c35AddrName(tx.AssetReceiver), c35AddrName(tx.AssetSender), c35AddrName(tx.AssetCloseTo))
	case protocol.AssetConfigTx:
		fmt.Fprintf(&sb, " asset=%d created=%d mgr=%s res=%s frz=%s claw=%s", tx.ConfigAsset, created,
			c35AddrName(tx.AssetParams.Manager), c35AddrName(tx.AssetParams.Reserve), c35AddrName(tx.AssetParams.Freeze), c35AddrName(tx.AssetParams.Clawback))
	case protocol.AssetFreezeTx:
		fmt.Fprintf(&sb, " asset=%d acct=%s", tx.FreezeAsset, c35AddrName(tx.FreezeAccount))
	case protocol.ApplicationCallTx:
		fmt.Fprintf(&sb, " app=%d created=%d oc=%d", tx.ApplicationID, created, tx.OnCompletion)
		if tx.Access != nil {
			sb.WriteString(" access=[")
			for i, rr := range tx.Access {
				if i > 0 {
					sb.WriteString(",")
				}
				switch {
				case !rr.Address.IsZero():
					sb.WriteString(c35AddrName(rr.Address))
				case rr.Asset != 0:
					fmt.Fprintf(&sb, "s%d", rr.Asset)
				case rr.App != 0:
					fmt.Fprintf(&sb, "p%d", rr.App)
				case !rr.Holding.Empty():
					fmt.Fprintf(&sb, "H(%d,%d)", rr.Holding.Address, rr.Holding.Asset)
				case !rr.Locals.Empty():
					fmt.Fprintf(&sb, "L(%d,%d)", rr.Locals.Address, rr.Locals.App)
				case !rr.Box.Empty():
					fmt.Fprintf(&sb, "B(%d,%q)", rr.Box.Index, rr.Box.Name)
				default:
					sb.WriteString("empty")
				}
			}
			sb.WriteString("]")
		} else {
			sb.WriteString(" accts=[")
			for i, a := range tx.Accounts {
				if i > 0 {
					sb.WriteString(",")
				}
				sb.WriteString(c35AddrName(a))
			}
			fmt.Fprintf(&sb, "] assets=%v apps=%v boxes=[", tx.ForeignAssets, tx.ForeignApps)
			for i, b := range tx.Boxes {
				if i > 0 {
					sb.WriteString(",")
				}
				fmt.Fprintf(&sb, "(%d,%q)", b.Index, b.Name)
			}
			sb.WriteString("]")
		}
	}
	return sb.String()
}

func (g *c35Group) render() []string {
	out := make([]string, len(g.Txns))
	for i := range g.Txns {
		out[i] = c35RenderTxn(&g.Txns[i], g.Created[i])
		if i == g.Target {
			out[i] = "*" + out[i]
		}
	}
	return out
}

// ---------------------------------------------------------------------------------------------------------------------
// generator: never names anything in ex (by construction: draws only from the allowed lists)

func c35Pick(t *rapid.T, label string, list []int) int {
	return list[rapid.IntRange(0, len(list)-1).Draw(t, label)]
}

func c35Chance(t *rapid.T, label string, percent int) bool {
	return rapid.IntRange(0, 99).Draw(t, label) < percent
}

type c35GenOpt struct {
	AllowAccess bool
	IsTarget    bool
	NoCreate    bool
	ForceApp    int // 1-based app index the call must run; 0 = free choice
}

func c35Header(sender basics.Address) transactions.Header {
	return transactions.Header{
		Sender:     sender,
		Fee:        basics.MicroAlgos{Raw: 5000},
		FirstValid: 100,
		LastValid:  200,
	}
}

func c35GenTxn(t *rapid.T, typ protocol.TxType, ex *c35Set, opt c35GenOpt) (transactions.Transaction, int) {
	accts, assets, apps := ex.accts(), ex.assets(), ex.apps()
	acct := func(label string) basics.Address { return c35U.accts[c35Pick(t, label, accts)] }
	optAcct := func(label string, percent int) basics.Address {
		if c35Chance(t, label+"?", percent) {
			return acct(label)
		}
		return basics.Address{}
	}
	var tx transactions.Transaction
	created := -1
	tx.Type = typ
	tx.Header = c35Header(acct("sender"))
	if !opt.IsTarget {
		tx.RekeyTo = optAcct("rekey", 8)
	}
	switch typ {
	case protocol.PaymentTx:
		tx.Receiver = acct("receiver")
		tx.Amount.Raw = 1
		if c := optAcct("closeto", 25); c != tx.Sender {
			tx.CloseRemainderTo = c
		}
	case protocol.KeyRegistrationTx:
		// going offline: the sender is the only resource
	case protocol.AssetTransferTx:
		tx.XferAsset = c35AssetIDs[c35Pick(t, "xfer", assets)]
		tx.AssetReceiver = acct("areceiver")
		tx.AssetAmount = uint64(rapid.IntRange(0, 2).Draw(t, "amount"))
		if c35Chance(t, "clawback?", 20) {
			tx.AssetSender = acct("asender")
		} else {
			tx.AssetCloseTo = optAcct("acloseto", 20)
		}
	case protocol.AssetConfigTx:
		cr := ex.creatableAssets()
		if !opt.NoCreate && len(cr) > 0 && c35Chance(t, "acfg-create?", 35) {
			created = c35Pick(t, "created-asset", cr)
			tx.AssetParams.Total = 1000
			tx.AssetParams.UnitName = "c35"
		} else {
			tx.ConfigAsset = c35AssetIDs[c35Pick(t, "cfg", assets)]
		}
		tx.AssetParams.Manager = optAcct("manager", 40)
		tx.AssetParams.Reserve = optAcct("reserve", 25)
		tx.AssetParams.Freeze = optAcct("freeze", 25)
		tx.AssetParams.Clawback = optAcct("clawback", 25)
	case protocol.AssetFreezeTx:
		tx.FreezeAsset = c35AssetIDs[c35Pick(t, "frz", assets)]
		tx.FreezeAccount = acct("frzacct")
		tx.AssetFrozen = c35Chance(t, "frozen?", 50)
	case protocol.ApplicationCallTx:
		cr := ex.creatableApps()
		eff := 0
		if opt.ForceApp > 0 {
			eff = opt.ForceApp - 1
			tx.ApplicationID = c35AppIDs[eff]
		} else if !opt.NoCreate && len(cr) > 0 && c35Chance(t, "appl-create?", 12) {
			created = c35Pick(t, "created-app", cr)
			eff = created
		} else {
			eff = c35Pick(t, "appid", apps)
			tx.ApplicationID = c35AppIDs[eff]
		}
		ocs := []transactions.OnCompletion{transactions.NoOpOC, transactions.NoOpOC, transactions.NoOpOC, transactions.OptInOC, transactions.CloseOutOC}
		if !opt.IsTarget {
			ocs = append(ocs, transactions.ClearStateOC, transactions.DeleteApplicationOC)
		}
		if created >= 0 {
			ocs = ocs[:4]
		}
		tx.OnCompletion = ocs[rapid.IntRange(0, len(ocs)-1).Draw(t, "oc")]
		small := func(label string, max int) int { // biased towards small lists
			k := rapid.IntRange(0, 2*max+1).Draw(t, label)
			if k > max {
				k = (k - max - 1) / 2
			}
			return k
		}
		if !(opt.AllowAccess && c35Chance(t, "access?", 40)) {
			for i, n := 0, small("naccts", 2); i < n; i++ {
				tx.Accounts = append(tx.Accounts, acct("acct"))
			}
			for i, n := 0, small("nassets", 2); i < n; i++ {
				tx.ForeignAssets = append(tx.ForeignAssets, c35AssetIDs[c35Pick(t, "fasset", assets)])
			}
			for i, n := 0, small("napps", 2); i < n; i++ {
				tx.ForeignApps = append(tx.ForeignApps, c35AppIDs[c35Pick(t, "fapp", apps)])
			}
			for i, n := 0, small("nboxes", 2); i < n && len(tx.Accounts)+len(tx.ForeignAssets)+len(tx.ForeignApps)+len(tx.Boxes) < 6; i++ {
				if c35Chance(t, "emptybox?", 20) {
					tx.Boxes = append(tx.Boxes, transactions.BoxRef{})
					continue
				}
				slot := rapid.IntRange(0, len(tx.ForeignApps)).Draw(t, "boxslot")
				app := eff
				if slot > 0 {
					app = c35U.appIdx[tx.ForeignApps[slot-1]]
				}
				names := ex.boxNames(app)
				if len(names) == 0 {
					continue
				}
				tx.Boxes = append(tx.Boxes, transactions.BoxRef{Index: uint64(slot), Name: []byte(c35BoxNames[c35Pick(t, "boxname", names)])})
			}
		} else {
			var addrPos, assetPos, appPos []uint64 // 1-based positions of the basic entries
			n := small("naccess", 7)
			for len(tx.Access) < n {
				pos := uint64(len(tx.Access) + 1)
				kind := rapid.IntRange(0, 8).Draw(t, "refkind")
				switch {
				case kind == 3 && len(assetPos) > 0: // holding
					hr := transactions.HoldingRef{Asset: assetPos[rapid.IntRange(0, len(assetPos)-1).Draw(t, "h-asset")]}
					if k := rapid.IntRange(0, len(addrPos)).Draw(t, "h-addr"); k > 0 {
						hr.Address = addrPos[k-1]
					}
					tx.Access = append(tx.Access, transactions.ResourceRef{Holding: hr})
				case kind == 4 && (len(appPos) > 0 || (created < 0 && len(addrPos) > 0)): // locals
					var lr transactions.LocalsRef
					if len(appPos) > 0 {
						lo := 1
						if created < 0 && len(addrPos) > 0 {
							lo = 0 // 0 = the called app (only with an explicit address, {0,0} would be an empty ref)
						}
						if k := rapid.IntRange(lo, len(appPos)).Draw(t, "l-app"); k > 0 {
							lr.App = appPos[k-1]
						}
					}
					lo := 0
					if lr.App == 0 {
						lo = 1
					}
					if k := rapid.IntRange(lo, len(addrPos)).Draw(t, "l-addr"); k > 0 {
						lr.Address = addrPos[k-1]
					}
					tx.Access = append(tx.Access, transactions.ResourceRef{Locals: lr})
				case kind == 5: // box
					k := rapid.IntRange(0, len(appPos)).Draw(t, "b-app")
					app, idx := eff, uint64(0)
					if k > 0 {
						idx = appPos[k-1]
						app = c35U.appIdx[tx.Access[idx-1].App]
					}
					names := ex.boxNames(app)
					if len(names) == 0 {
						tx.Access = append(tx.Access, transactions.ResourceRef{})
						continue
					}
					tx.Access = append(tx.Access, transactions.ResourceRef{Box: transactions.BoxRef{Index: idx, Name: []byte(c35BoxNames[c35Pick(t, "b-name", names)])}})
				case kind == 6: // empty: i/o quota bump
					tx.Access = append(tx.Access, transactions.ResourceRef{})
				case kind%3 == 0:
					tx.Access = append(tx.Access, transactions.ResourceRef{Address: acct("x-addr")})
					addrPos = append(addrPos, pos)
				case kind%3 == 1:
					tx.Access = append(tx.Access, transactions.ResourceRef{Asset: c35AssetIDs[c35Pick(t, "x-asset", assets)]})
					assetPos = append(assetPos, pos)
				default:
					tx.Access = append(tx.Access, transactions.ResourceRef{App: c35AppIDs[c35Pick(t, "x-app", apps)]})
					appPos = append(appPos, pos)
				}
			}
		}
	}
	return tx, created
}

// c35AddDecoyBox makes some app call of the group name the target's box *name* for a different app (never the target
// box itself): availability of a box must depend on the owning app too.
func c35AddDecoyBox(t *rapid.T, g *c35Group, x c35Target) bool {
	var calls []int
	for i := range g.Txns {
		tx := &g.Txns[i]
		if tx.Type == protocol.ApplicationCallTx && len(tx.Accounts)+len(tx.ForeignAssets)+len(tx.ForeignApps)+len(tx.Boxes) <= 4 && len(tx.Access) <= 8 {
			calls = append(calls, i)
		}
	}
	if len(calls) == 0 {
		return false
	}
	i := c35Pick(t, "decoy-txn", calls)
	tx := &g.Txns[i]
	others := c35Allowed(c35NApp, func(p int) bool { return p == x.BoxApp })
	q := c35AppIDs[c35Pick(t, "decoy-app", others)]
	name := []byte(c35BoxNames[x.I])
	eff := g.effApp(i)
	if tx.Access != nil {
		idx := uint64(0)
		if q != eff {
			tx.Access = append(tx.Access, transactions.ResourceRef{App: q})
			idx = uint64(len(tx.Access))
		}
		tx.Access = append(tx.Access, transactions.ResourceRef{Box: transactions.BoxRef{Index: idx, Name: name}})
		return true
	}
	idx := uint64(0)
	if q != eff {
		tx.ForeignApps = append(tx.ForeignApps, q)
		idx = uint64(len(tx.ForeignApps))
	}
	tx.Boxes = append(tx.Boxes, transactions.BoxRef{Index: idx, Name: name})
	return true
}

var c35OtherTypes = []protocol.TxType{
	protocol.ApplicationCallTx, protocol.ApplicationCallTx, protocol.ApplicationCallTx, protocol.ApplicationCallTx,
	protocol.PaymentTx, protocol.PaymentTx, protocol.AssetTransferTx, protocol.AssetTransferTx,
	protocol.AssetConfigTx, protocol.AssetFreezeTx, protocol.KeyRegistrationTx,
}

// ---------------------------------------------------------------------------------------------------------------------
// mention scan: reads the real transactions, independent of the generator

type c35Mentions struct {
	PerTxn        []c35Set
	All           c35Set
	CreatedApps   [c35NApp]bool
	CreatedAssets [c35NAsset]bool
	EmptyRefs     int
}

func c35Scan(g *c35Group) *c35Mentions {
	m := &c35Mentions{PerTxn: make([]c35Set, len(g.Txns))}
	for i := range g.Txns {
		tx := &g.Txns[i]
		s := &m.PerTxn[i]
		addr := func(a basics.Address) {
			if k, ok := c35U.acctIdx[a]; ok {
				s.Acct[k] = true
			}
		}
		asset := func(id basics.AssetIndex) {
			if k, ok := c35U.assetIdx[id]; ok {
				s.Asset[k] = true
			}
		}
		app := func(id basics.AppIndex) {
			if k, ok := c35U.appIdx[id]; ok {
				s.App[k] = true
			}
		}
		box := func(id basics.AppIndex, name []byte) {
			p, ok1 := c35U.appIdx[id]
			n, ok2 := c35U.boxIdx[string(name)]
			if ok1 && ok2 {
				s.Box[p][n] = true
			}
		}
		for _, a := range []basics.Address{tx.Sender, tx.RekeyTo, tx.Receiver, tx.CloseRemainderTo, tx.AssetSender, tx.AssetReceiver,
			tx.AssetCloseTo, tx.FreezeAccount, tx.AssetParams.Manager, tx.AssetParams.Reserve, tx.AssetParams.Freeze, tx.AssetParams.Clawback} {
			addr(a)
		}
		asset(tx.XferAsset)
		asset(tx.ConfigAsset)
		asset(tx.FreezeAsset)
		if tx.Type == protocol.AssetConfigTx && tx.ConfigAsset == 0 && g.Created[i] >= 0 {
			s.Asset[g.Created[i]] = true
			m.CreatedAssets[g.Created[i]] = true
		}
		if tx.Type == protocol.ApplicationCallTx {
			eff := g.effApp(i)
			app(eff)
			if tx.ApplicationID == 0 {
				m.CreatedApps[g.Created[i]] = true
			}
			for _, a := range tx.Accounts {
				addr(a)
			}
			for _, id := range tx.ForeignAssets {
				asset(id)
			}
			for _, id := range tx.ForeignApps {
				app(id)
			}
			for _, br := range tx.Boxes {
				if br.Empty() {
					m.EmptyRefs++
				}
				owner := eff
				if br.Index > 0 && br.Index <= uint64(len(tx.ForeignApps)) {
					owner = tx.ForeignApps[br.Index-1]
				}
				box(owner, br.Name)
			}
			for _, rr := range tx.Access {
				addr(rr.Address)
				asset(rr.Asset)
				app(rr.App)
				if rr.Empty() {
					m.EmptyRefs++
				}
				if !rr.Box.Empty() {
					owner := eff
					if rr.Box.Index > 0 && rr.Box.Index <= uint64(len(tx.Access)) {
						owner = tx.Access[rr.Box.Index-1].App
					}
					box(owner, rr.Box.Name)
				}
			}
		}
		s.close()
		m.All.union(s)
	}
	// a created app may touch unnamed boxes of its own while empty references remain
	if m.EmptyRefs > 0 {
		for p := 0; p < c35NApp; p++ {
			if m.CreatedApps[p] {
				for n := 0; n < c35NBox; n++ {
					m.All.Box[p][n] = true
				}
			}
		}
	}
	return m
}

// ---------------------------------------------------------------------------------------------------------------------
// mock ledger and runner

type c35Env struct {
	BoxOpen bool // every app lets its family / everybody use its boxes (authorisation never the obstacle)
	// approval / clear-state programs installed in the ledger for some apps (callees of inner app calls)
	AppApproval map[basics.AppIndex][]byte
	AppClear    map[basics.AppIndex][]byte
}

func c35NewLedger(env c35Env, freezer basics.Address) *Ledger {
	l := NewLedger(nil)
	l.NewAccount(c35U.creator, 1_000_000_000)
	l.NewAccount(c35U.specials.FeeSink, 1_000_000)
	for _, a := range c35U.accts {
		l.NewAccount(a, 50_000_000)
	}
	for _, id := range c35AssetIDs {
		l.NewAsset(c35U.creator, id, basics.AssetParams{Total: 1_000_000, UnitName: "c35", Manager: c35U.creator, Reserve: c35U.creator, Freeze: freezer, Clawback: c35U.creator})
		for _, a := range c35U.accts {
			l.NewHolding(a, id, 1000, false)
		}
	}
	for _, id := range c35AppIDs {
		prog, clear := c35Trivial(LogicVersion), c35Trivial(LogicVersion)
		if p, ok := env.AppApproval[id]; ok {
			prog, clear = p, env.AppClear[id]
		}
		l.NewApp(c35U.creator, id, basics.AppParams{
			ApprovalProgram:   prog,
			ClearStateProgram: clear,
			StateSchemas: basics.StateSchemas{
				LocalStateSchema:  basics.StateSchema{NumUint: 4, NumByteSlice: 4},
				GlobalStateSchema: basics.StateSchema{NumUint: 4, NumByteSlice: 4},
			},
			ForeignBoxReads: env.BoxOpen,
			FamilyBoxAccess: env.BoxOpen,
		})
		l.NewGlobal(id, "g", 1)
		for _, a := range c35U.accts {
			l.NewLocals(a, id)
			l.NewLocal(a, id, "k", 7)
		}
		app := l.applications[id]
		app.boxes = map[string][]byte{}
		app.boxMods = map[string][]byte{} // non-nil, so that the mock's DelBox/SetBox (which update a copy of the record) stick
		for _, name := range c35BoxNames {
			app.boxes[name] = make([]byte, c35BoxSize)
		}
		l.applications[id] = app
	}
	return l
}

var c35ProgCache = map[string][]byte{}

// c35Asm assembles src for version v; ok=false when the form does not exist at that version.
func c35Asm(v uint64, src string) ([]byte, bool) {
	key := fmt.Sprintf("%d|%s", v, src)
	if p, ok := c35ProgCache[key]; ok {
		return p, p != nil
	}
	ops, err := AssembleStringWithVersion(strings.ReplaceAll(src, "; ", "\n"), v)
	if len(c35ProgCache) > 50_000 {
		c35ProgCache = map[string][]byte{}
	}
	if err != nil {
		c35ProgCache[key] = nil
		return nil, false
	}
	c35ProgCache[key] = ops.Program
	return ops.Program, true
}

func c35Trivial(v uint64) []byte {
	p, ok := c35Asm(v, "int 1")
	if !ok {
		panic("c35: cannot assemble the trivial program")
	}
	return p
}

type c35Result struct {
	Pass bool
	Err  error
}

func (r c35Result) ok() bool { return r.Pass && r.Err == nil }

// c35Run evaluates prog (version v) as the approval program of the target transaction of g. Transactions before the
// target that create something are "applied" first the way the block evaluator does: an app creation runs a trivial
// approval program under its new id, an asset creation reports its ApplyData.
func c35Run(g *c35Group, v uint64, prog []byte, env c35Env) (res c35Result, harnessErr error) {
	stxns := make([]transactions.SignedTxnWithAD, len(g.Txns))
	for i := range g.Txns {
		tx := c35CloneTxn(g.Txns[i])
		if tx.Type == protocol.ApplicationCallTx && tx.ApplicationID == 0 {
			if i == g.Target {
				tx.ApprovalProgram = prog
				tx.ClearStateProgram = c35Trivial(v)
			} else {
				tx.ApprovalProgram = c35Trivial(LogicVersion)
				tx.ClearStateProgram = c35Trivial(LogicVersion)
			}
		}
		if err := tx.WellFormed(c35U.specials, c35U.proto); err != nil {
			return res, fmt.Errorf("generated txn %d is not well formed: %v", i, err)
		}
		stxns[i].Txn = tx
	}
	proto := c35U.proto
	ep := NewAppEvalParams(stxns, &proto, &c35U.specials)
	ledger := c35NewLedger(env, g.effApp(g.Target).Address())
	ep.Ledger = ledger
	ep.SigLedger = ledger
	for i := 0; i < g.Target; i++ {
		tx := &g.Txns[i]
		switch {
		case tx.Type == protocol.ApplicationCallTx && tx.ApplicationID == 0:
			pass, err := EvalApp(ep.TxnGroup[i].Txn.ApprovalProgram, i, g.effApp(i), ep)
			if err != nil || !pass {
				return res, fmt.Errorf("trivial creation program of txn %d did not pass: %v", i, err)
			}
			ep.RecordAD(i, transactions.ApplyData{ApplicationID: g.effApp(i)})
		case tx.Type == protocol.AssetConfigTx && tx.ConfigAsset == 0:
			ep.RecordAD(i, transactions.ApplyData{ConfigAsset: c35AssetIDs[g.Created[i]]})
		}
	}
	pass, err := EvalApp(prog, g.Target, g.effApp(g.Target), ep)
	return c35Result{Pass: pass, Err: err}, nil
}

// ---------------------------------------------------------------------------------------------------------------------
// access programs

// c35Req says what has to be available for the access to succeed; the sibling builder uses it.
type c35Req struct {
	Acct    int  // account index, -1 none, -2 the sender of the target txn
	Asset   int  // -1 none
	App     int  // -1 none, -2 the app being called
	BoxApp  int  // -1 none
	BoxName int
	Slot    string // "" | "acct" | "asset" | "app": the target is addressed by the slot just past the end of that list
	OwnOnly bool   // only a mention in the target txn itself can make the program succeed (inner txn submission forms)
	AppAcct bool   // the app account's own holding of Asset is needed as well (inner axfer)
}

type c35Access struct {
	Name string
	Src  string
	Req  c35Req
}

func c35AddrLit(i int) string { return "byte 0x" + hex.EncodeToString(c35U.accts[i][:]) }

func c35Band(v uint64) string {
	switch {
	case v < 4:
		return "v2-3"
	case v < 6:
		return "v4-5"
	case v < 7:
		return "v6"
	case v < 9:
		return "v7-8"
	case v < 13:
		return "v9-12"
	default:
		return "v13-14"
	}
}

// slot numbers just past the end of the target txn's own lists
func c35PastEnd(tx *transactions.Transaction, list string) uint64 {
	if tx.Access != nil {
		return uint64(len(tx.Access) + 1)
	}
	switch list {
	case "acct":
		return uint64(len(tx.Accounts) + 1)
	case "asset":
		return uint64(len(tx.ForeignAssets)) // asset slots are 0-based
	default:
		return uint64(len(tx.ForeignApps) + 1)
	}
}

// c35OwnOr picks a companion resource, preferring one the target txn names itself (so that the target is the only
// thing missing), else any allowed one.
func c35Companion(t *rapid.T, label string, own []int, all []int) int {
	if len(own) > 0 && c35Chance(t, label+"-own?", 75) {
		return c35Pick(t, label, own)
	}
	return c35Pick(t, label, all)
}

func c35OwnLists(tx *transactions.Transaction) (accts, assets, apps []int) {
	for _, a := range tx.Accounts {
		if k, ok := c35U.acctIdx[a]; ok {
			accts = append(accts, k)
		}
	}
	for _, id := range tx.ForeignAssets {
		assets = append(assets, c35U.assetIdx[id])
	}
	for _, id := range tx.ForeignApps {
		apps = append(apps, c35U.appIdx[id])
	}
	for _, rr := range tx.Access {
		if k, ok := c35U.acctIdx[rr.Address]; ok {
			accts = append(accts, k)
		}
		if rr.Asset != 0 {
			assets = append(assets, c35U.assetIdx[rr.Asset])
		}
		if rr.App != 0 {
			apps = append(apps, c35U.appIdx[rr.App])
		}
	}
	return
}

// c35Forms lists every access to target x that exists at version v (by address/id and by slot).
func c35Forms(t *rapid.T, g *c35Group, v uint64, x c35Target, ex *c35Set) []c35Access {
	tx := &g.Txns[g.Target]
	ownAccts, ownAssets, ownApps := c35OwnLists(tx)
	none := c35Req{Acct: -1, Asset: -1, App: -1, BoxApp: -1}
	var out []c35Access
	add := func(name, src string, req c35Req) { out = append(out, c35Access{Name: name, Src: src, Req: req}) }

	switch x.Kind {
	case "acct":
		compAsset := c35Companion(t, "comp-asset", ownAssets, ex.assets())
		compApp := c35Companion(t, "comp-app", ownApps, ex.apps())
		for _, mode := range []string{"addr", "slot"} {
			X := c35AddrLit(x.I)
			base := none
			base.Acct = x.I
			if mode == "slot" {
				X = fmt.Sprintf("int %d", c35PastEnd(tx, "acct"))
				base.Slot = "acct"
			} else if v < directRefEnabledVersion {
				continue // accounts are addressable by slot only before v4
			}
			with := func(f func(r *c35Req)) c35Req { r := base; f(&r); return r }
			add("balance/"+mode, X+"; balance; pop; int 1", base)
			add("min_balance/"+mode, X+"; min_balance; pop; int 1", base)
			add("acct_params_get/"+mode, X+"; acct_params_get AcctBalance; pop; pop; int 1", base)
			add("voter_params_get/"+mode, X+"; voter_params_get VoterBalance; pop; pop; int 1", base)
			add("app_opted_in(X,current)/"+mode, X+"; int 0; app_opted_in; pop; int 1", with(func(r *c35Req) { r.App = -2 }))
			add("app_opted_in(X,P)/"+mode, fmt.Sprintf("%s; int %d; app_opted_in; pop; int 1", X, c35AppIDs[compApp]), with(func(r *c35Req) { r.App = compApp }))
			add("app_local_get(X)/"+mode, X+`; byte "k"; app_local_get; pop; int 1`, with(func(r *c35Req) { r.App = -2 }))
			add("app_local_get_ex(X,current)/"+mode, X+`; int 0; byte "k"; app_local_get_ex; pop; pop; int 1`, with(func(r *c35Req) { r.App = -2 }))
			add("app_local_get_ex(X,P)/"+mode, fmt.Sprintf(`%s; int %d; byte "k"; app_local_get_ex; pop; pop; int 1`, X, c35AppIDs[compApp]), with(func(r *c35Req) { r.App = compApp }))
			add("app_local_put(X)/"+mode, X+`; byte "k"; int 9; app_local_put; int 1`, with(func(r *c35Req) { r.App = -2 }))
			add("app_local_del(X)/"+mode, X+`; byte "k"; app_local_del; int 1`, with(func(r *c35Req) { r.App = -2 }))
			add("asset_holding_get(X,S)/"+mode, fmt.Sprintf("%s; int %d; asset_holding_get AssetBalance; pop; pop; int 1", X, c35AssetIDs[compAsset]), with(func(r *c35Req) { r.Asset = compAsset }))
			if mode == "addr" {
				for _, f := range []string{"Sender", "Receiver", "CloseRemainderTo", "AssetSender", "AssetReceiver", "AssetCloseTo", "FreezeAssetAccount", "Accounts"} {
					add("itxn_field "+f, fmt.Sprintf("itxn_begin; %s; itxn_field %s; int 1", X, f), base)
				}
			}
		}
	case "asset":
		compAcct := c35Companion(t, "comp-acct", ownAccts, ex.accts())
		for _, mode := range []string{"id", "slot"} {
			X := fmt.Sprintf("int %d", c35AssetIDs[x.I])
			base := none
			base.Asset = x.I
			if mode == "slot" {
				X = fmt.Sprintf("int %d", c35PastEnd(tx, "asset"))
				base.Slot = "asset"
			}
			with := func(f func(r *c35Req)) c35Req { r := base; f(&r); return r }
			if mode == "slot" || v >= directRefEnabledVersion { // before v4 asset_params_get takes a slot only
				add("asset_params_get/"+mode, X+"; asset_params_get AssetTotal; pop; pop; int 1", base)
			}
			if v >= directRefEnabledVersion { // before v4 the asset of asset_holding_get is a raw, unrestricted id
				add("asset_holding_get(sender,X)/"+mode, "int 0; "+X+"; asset_holding_get AssetBalance; pop; pop; int 1", with(func(r *c35Req) { r.Acct = -2 }))
				add("asset_holding_get(A,X)/"+mode, c35AddrLit(compAcct)+"; "+X+"; asset_holding_get AssetBalance; pop; pop; int 1", with(func(r *c35Req) { r.Acct = compAcct }))
			}
			if mode == "id" {
				for _, f := range []string{"XferAsset", "ConfigAsset", "FreezeAsset", "Assets"} {
					add("itxn_field "+f, fmt.Sprintf("itxn_begin; %s; itxn_field %s; int 1", X, f), base)
				}
			}
		}
	case "app":
		compAcct := c35Companion(t, "comp-acct", ownAccts, ex.accts())
		for _, mode := range []string{"id", "slot"} {
			X := fmt.Sprintf("int %d", c35AppIDs[x.I])
			base := none
			base.App = x.I
			if mode == "slot" {
				X = fmt.Sprintf("int %d", c35PastEnd(tx, "app"))
				base.Slot = "app"
			}
			with := func(f func(r *c35Req)) c35Req { r := base; f(&r); return r }
			if mode == "slot" || v >= directRefEnabledVersion { // before v4 these take a slot only
				add("app_params_get/"+mode, X+"; app_params_get AppGlobalNumUint; pop; pop; int 1", base)
				add("app_global_get_ex/"+mode, X+`; byte "g"; app_global_get_ex; pop; pop; int 1`, base)
			}
			if v >= directRefEnabledVersion { // before v4 the app of these is a raw, unrestricted id
				add("app_opted_in(sender,X)/"+mode, "int 0; "+X+"; app_opted_in; pop; int 1", with(func(r *c35Req) { r.Acct = -2 }))
				add("app_local_get_ex(sender,X)/"+mode, "int 0; "+X+`; byte "k"; app_local_get_ex; pop; pop; int 1`, with(func(r *c35Req) { r.Acct = -2 }))
				add("app_opted_in(A,X)/"+mode, c35AddrLit(compAcct)+"; "+X+"; app_opted_in; pop; int 1", with(func(r *c35Req) { r.Acct = compAcct }))
				add("app_local_get_ex(A,X)/"+mode, c35AddrLit(compAcct)+"; "+X+`; byte "k"; app_local_get_ex; pop; pop; int 1`, with(func(r *c35Req) { r.Acct = compAcct }))
			}
			if mode == "id" {
				for _, f := range []string{"ApplicationID", "Applications"} {
					add("itxn_field "+f, fmt.Sprintf("itxn_begin; %s; itxn_field %s; int 1", X, f), base)
				}
			}
		}
	case "box":
		N := "byte 0x" + hex.EncodeToString([]byte(c35BoxNames[x.I]))
		req := none
		req.BoxApp, req.BoxName = x.BoxApp, x.I
		val := "byte 0x" + strings.Repeat("ab", c35BoxSize)
		ops := []struct{ name, args, tail string }{
			{"get", "", "pop; pop; int 1"},
			{"len", "", "pop; pop; int 1"},
			{"extract", "; int 0; int 4", "pop; int 1"},
			{"create", fmt.Sprintf("; int %d", c35BoxSize), "pop; int 1"},
			{"put", "; " + val, "int 1"},
			{"replace", "; int 0; byte 0x0102", "int 1"},
			{"del", "", "pop; int 1"},
			{"splice", "; int 0; int 2; byte 0x0102", "int 1"},
			{"resize", "; int 20", "int 1"},
		}
		own := c35AppIDs[x.BoxApp] == g.effApp(g.Target)
		for _, op := range ops {
			if own {
				add("box_"+op.name, fmt.Sprintf("%s%s; box_%s; %s", N, op.args, op.name, op.tail), req)
			}
			add("app_box_"+op.name, fmt.Sprintf("int %d; %s%s; app_box_%s; %s", c35AppIDs[x.BoxApp], N, op.args, op.name, op.tail), req)
		}
	}
	return out
}

// ---------------------------------------------------------------------------------------------------------------------
// sibling construction: the same group, with the required resources mentioned

// c35AddOwn names the required resources in the target txn itself. The target resource goes first, so that a "slot
// just past the end" program now designates it.
func c35AddOwn(g *c35Group, v uint64, req c35Req, viaAccess bool) {
	tx := &g.Txns[g.Target]
	eff := g.effApp(g.Target)
	creating := tx.ApplicationID == 0
	type item struct {
		kind string
		i    int
	}
	var items []item
	if req.Acct >= 0 {
		items = append(items, item{"acct", req.Acct})
	}
	if req.Asset >= 0 {
		items = append(items, item{"asset", req.Asset})
	}
	if req.App >= 0 {
		items = append(items, item{"app", req.App})
	}
	// the slot-addressed resource must be appended first
	sort.SliceStable(items, func(a, b int) bool { return items[a].kind == req.Slot && items[b].kind != req.Slot })

	useAccess := tx.Access != nil ||
		(viaAccess && req.Slot == "" && v >= sharedResourcesVersion && len(tx.Accounts)+len(tx.ForeignAssets)+len(tx.ForeignApps)+len(tx.Boxes) == 0)
	if !useAccess {
		for _, it := range items {
			switch it.kind {
			case "acct":
				a := c35U.accts[it.i]
				if req.Slot == "acct" || (a != tx.Sender && !c35HasAddr(tx.Accounts, a)) {
					tx.Accounts = append(tx.Accounts, a)
				}
			case "asset":
				id := c35AssetIDs[it.i]
				if req.Slot == "asset" || !c35HasAsset(tx.ForeignAssets, id) {
					tx.ForeignAssets = append(tx.ForeignAssets, id)
				}
			case "app":
				id := c35AppIDs[it.i]
				if req.Slot == "app" || (id != eff && !c35HasApp(tx.ForeignApps, id)) {
					tx.ForeignApps = append(tx.ForeignApps, id)
				}
			}
		}
		if req.BoxApp >= 0 {
			owner := c35AppIDs[req.BoxApp]
			idx := uint64(0)
			if owner != eff {
				pos := -1
				for k, id := range tx.ForeignApps {
					if id == owner {
						pos = k
					}
				}
				if pos < 0 {
					tx.ForeignApps = append(tx.ForeignApps, owner)
					pos = len(tx.ForeignApps) - 1
				}
				idx = uint64(pos + 1)
			}
			tx.Boxes = append(tx.Boxes, transactions.BoxRef{Index: idx, Name: []byte(c35BoxNames[req.BoxName])})
		}
		return
	}
	// access list: basic entries, then the explicit cross products
	find := func(match func(rr transactions.ResourceRef) bool) uint64 {
		for k, rr := range tx.Access {
			if match(rr) {
				return uint64(k + 1)
			}
		}
		return 0
	}
	var addrPos, assetPos, appPos uint64
	for _, it := range items {
		switch it.kind {
		case "acct":
			a := c35U.accts[it.i]
			if a == tx.Sender && req.Slot != "acct" {
				continue
			}
			addrPos = find(func(rr transactions.ResourceRef) bool { return rr.Address == a })
			if addrPos == 0 || req.Slot == "acct" {
				tx.Access = append(tx.Access, transactions.ResourceRef{Address: a})
				addrPos = uint64(len(tx.Access))
			}
		case "asset":
			id := c35AssetIDs[it.i]
			assetPos = find(func(rr transactions.ResourceRef) bool { return rr.Asset == id })
			if assetPos == 0 || req.Slot == "asset" {
				tx.Access = append(tx.Access, transactions.ResourceRef{Asset: id})
				assetPos = uint64(len(tx.Access))
			}
		case "app":
			id := c35AppIDs[it.i]
			if id == eff && req.Slot != "app" {
				continue
			}
			appPos = find(func(rr transactions.ResourceRef) bool { return rr.App == id })
			if appPos == 0 || req.Slot == "app" {
				tx.Access = append(tx.Access, transactions.ResourceRef{App: id})
				appPos = uint64(len(tx.Access))
			}
		}
	}
	hasAcct := req.Acct >= 0 || req.Acct == -2
	if hasAcct && req.Asset >= 0 {
		tx.Access = append(tx.Access, transactions.ResourceRef{Holding: transactions.HoldingRef{Address: addrPos, Asset: assetPos}})
	}
	if req.AppAcct && req.Asset >= 0 && !creating {
		appAddr := eff.Address()
		pos := find(func(rr transactions.ResourceRef) bool { return rr.Address == appAddr })
		if pos == 0 {
			tx.Access = append(tx.Access, transactions.ResourceRef{Address: appAddr})
			pos = uint64(len(tx.Access))
		}
		tx.Access = append(tx.Access, transactions.ResourceRef{Holding: transactions.HoldingRef{Address: pos, Asset: assetPos}})
	}
	if hasAcct && (req.App >= 0 || req.App == -2) {
		lr := transactions.LocalsRef{Address: addrPos, App: appPos}
		// {0,0} is the implicit sender x called app; a 0 app is not allowed (nor needed) while creating
		if !lr.Empty() && !(creating && lr.App == 0) {
			tx.Access = append(tx.Access, transactions.ResourceRef{Locals: lr})
		}
	}
	if req.BoxApp >= 0 {
		owner := c35AppIDs[req.BoxApp]
		idx := uint64(0)
		if owner != eff {
			idx = find(func(rr transactions.ResourceRef) bool { return rr.App == owner })
			if idx == 0 {
				tx.Access = append(tx.Access, transactions.ResourceRef{App: owner})
				idx = uint64(len(tx.Access))
			}
		}
		tx.Access = append(tx.Access, transactions.ResourceRef{Box: transactions.BoxRef{Index: idx, Name: []byte(c35BoxNames[req.BoxName])}})
	}
}

func c35HasAddr(l []basics.Address, a basics.Address) bool {
	for _, x := range l {
		if x == a {
			return true
		}
	}
	return false
}
func c35HasAsset(l []basics.AssetIndex, a basics.AssetIndex) bool {
	for _, x := range l {
		if x == a {
			return true
		}
	}
	return false
}
func c35HasApp(l []basics.AppIndex, a basics.AppIndex) bool {
	for _, x := range l {
		if x == a {
			return true
		}
	}
	return false
}

// c35AddOther appends one more transaction to the group that names all the required resources together. Returns the
// description of the way it did so ("" when the requirement cannot be expressed by another transaction).
func c35AddOther(t *rapid.T, g *c35Group, req c35Req) string {
	tgt := &g.Txns[g.Target]
	acct := basics.Address{}
	hasAcct := false
	switch {
	case req.Acct >= 0:
		acct, hasAcct = c35U.accts[req.Acct], true
	case req.Acct == -2:
		acct, hasAcct = tgt.Sender, true
	}
	var app basics.AppIndex
	switch {
	case req.App >= 0:
		app = c35AppIDs[req.App]
	case req.App == -2:
		app = g.effApp(g.Target)
	}
	var asset basics.AssetIndex
	if req.Asset >= 0 {
		asset = c35AssetIDs[req.Asset]
	}
	filler := c35U.accts[0]
	if hasAcct && filler == acct {
		filler = c35U.accts[1]
	}
	var tx transactions.Transaction
	tx.Header = c35Header(filler)
	how := ""
	appl := func() {
		tx.Type = protocol.ApplicationCallTx
		tx.ApplicationID = c35AppIDs[0]
	}
	toAccess := func() { // the same mentions as an access list, with explicit cross products
		var addrPos, assetPos, appPos uint64
		for _, a := range tx.Accounts {
			tx.Access = append(tx.Access, transactions.ResourceRef{Address: a})
			addrPos = uint64(len(tx.Access))
		}
		for _, id := range tx.ForeignAssets {
			tx.Access = append(tx.Access, transactions.ResourceRef{Asset: id})
			assetPos = uint64(len(tx.Access))
		}
		for _, id := range tx.ForeignApps {
			tx.Access = append(tx.Access, transactions.ResourceRef{App: id})
			appPos = uint64(len(tx.Access))
		}
		if hasAcct && assetPos > 0 {
			tx.Access = append(tx.Access, transactions.ResourceRef{Holding: transactions.HoldingRef{Address: addrPos, Asset: assetPos}})
		}
		if hasAcct && appPos > 0 {
			tx.Access = append(tx.Access, transactions.ResourceRef{Locals: transactions.LocalsRef{Address: addrPos, App: appPos}})
		}
		for _, br := range tx.Boxes {
			idx := uint64(0)
			if br.Index > 0 {
				idx = appPos
			}
			tx.Access = append(tx.Access, transactions.ResourceRef{Box: transactions.BoxRef{Index: idx, Name: br.Name}})
		}
		tx.Accounts, tx.ForeignAssets, tx.ForeignApps, tx.Boxes = nil, nil, nil, nil
	}
	switch {
	case req.BoxApp >= 0:
		appl()
		name := []byte(c35BoxNames[req.BoxName])
		switch rapid.IntRange(0, 2).Draw(t, "other-box") {
		case 0:
			tx.ApplicationID = c35AppIDs[req.BoxApp]
			tx.Boxes = []transactions.BoxRef{{Index: 0, Name: name}}
			how = "other-appl-calls-owner-box"
		case 1:
			tx.ApplicationID = c35AppIDs[(req.BoxApp+1)%c35NApp]
			tx.ForeignApps = []basics.AppIndex{c35AppIDs[req.BoxApp]}
			tx.Boxes = []transactions.BoxRef{{Index: 1, Name: name}}
			how = "other-appl-foreign-box"
		default:
			tx.ApplicationID = c35AppIDs[(req.BoxApp+1)%c35NApp]
			tx.ForeignApps = []basics.AppIndex{c35AppIDs[req.BoxApp]}
			tx.Boxes = []transactions.BoxRef{{Index: 1, Name: name}}
			toAccess()
			how = "other-appl-access-box"
		}
	case hasAcct && asset != 0: // holding
		switch rapid.IntRange(0, 4).Draw(t, "other-holding") {
		case 0:
			tx.Type, tx.XferAsset, tx.AssetReceiver = protocol.AssetTransferTx, asset, acct
			how = "other-axfer-receiver"
		case 1:
			tx.Type, tx.XferAsset, tx.AssetReceiver, tx.Sender = protocol.AssetTransferTx, asset, filler, acct
			how = "other-axfer-sender"
		case 2:
			tx.Type, tx.FreezeAsset, tx.FreezeAccount = protocol.AssetFreezeTx, asset, acct
			how = "other-afrz"
		case 3:
			appl()
			tx.Accounts, tx.ForeignAssets = []basics.Address{acct}, []basics.AssetIndex{asset}
			how = "other-appl-arrays"
		default:
			appl()
			tx.Accounts, tx.ForeignAssets = []basics.Address{acct}, []basics.AssetIndex{asset}
			toAccess()
			how = "other-appl-access-holding"
		}
	case hasAcct && app != 0: // locals
		switch rapid.IntRange(0, 2).Draw(t, "other-locals") {
		case 0:
			appl()
			tx.Accounts, tx.ForeignApps = []basics.Address{acct}, []basics.AppIndex{app}
			how = "other-appl-arrays"
		case 1:
			appl()
			tx.ApplicationID, tx.Sender = app, acct
			how = "other-appl-sender-calls-app"
		default:
			appl()
			tx.Accounts, tx.ForeignApps = []basics.Address{acct}, []basics.AppIndex{app}
			toAccess()
			how = "other-appl-access-locals"
		}
	case hasAcct:
		switch rapid.IntRange(0, 7).Draw(t, "other-acct") {
		case 0:
			tx.Type, tx.Receiver = protocol.PaymentTx, acct
			how = "other-pay-receiver"
		case 1:
			tx.Type, tx.Receiver, tx.Sender = protocol.PaymentTx, filler, acct
			how = "other-pay-sender"
		case 2:
			tx.Type, tx.Receiver, tx.CloseRemainderTo = protocol.PaymentTx, filler, acct
			how = "other-pay-closeto"
		case 3:
			tx.Type, tx.XferAsset, tx.AssetReceiver = protocol.AssetTransferTx, c35AssetIDs[0], acct
			how = "other-axfer-receiver"
		case 4:
			tx.Type, tx.Sender = protocol.KeyRegistrationTx, acct
			how = "other-keyreg-sender"
		case 5:
			appl()
			tx.Accounts = []basics.Address{acct}
			how = "other-appl-accounts"
		case 6:
			appl()
			tx.Accounts = []basics.Address{acct}
			toAccess()
			how = "other-appl-access-address"
		default:
			if req.Acct >= c35NPlain {
				appl()
				tx.ApplicationID = c35AppIDs[(req.Acct-c35NPlain+1)%c35NApp]
				tx.ForeignApps = []basics.AppIndex{c35AppIDs[req.Acct-c35NPlain]}
				how = "other-appl-foreignapp-address"
			} else {
				tx.Type, tx.FreezeAsset, tx.FreezeAccount = protocol.AssetFreezeTx, c35AssetIDs[0], acct
				how = "other-afrz-account"
			}
		}
	case asset != 0:
		switch rapid.IntRange(0, 4).Draw(t, "other-asset") {
		case 0:
			tx.Type, tx.XferAsset, tx.AssetReceiver = protocol.AssetTransferTx, asset, filler
			how = "other-axfer"
		case 1:
			tx.Type, tx.ConfigAsset = protocol.AssetConfigTx, asset
			how = "other-acfg"
		case 2:
			tx.Type, tx.FreezeAsset, tx.FreezeAccount = protocol.AssetFreezeTx, asset, filler
			how = "other-afrz"
		case 3:
			appl()
			tx.ForeignAssets = []basics.AssetIndex{asset}
			how = "other-appl-assets"
		default:
			appl()
			tx.ForeignAssets = []basics.AssetIndex{asset}
			toAccess()
			how = "other-appl-access-asset"
		}
	case app != 0:
		switch rapid.IntRange(0, 2).Draw(t, "other-app") {
		case 0:
			appl()
			tx.ApplicationID = app
			how = "other-appl-calls-app"
		case 1:
			appl()
			tx.ApplicationID = c35AppIDs[(c35U.appIdx[app]+1)%c35NApp]
			tx.ForeignApps = []basics.AppIndex{app}
			how = "other-appl-foreignapps"
		default:
			appl()
			tx.ApplicationID = c35AppIDs[(c35U.appIdx[app]+1)%c35NApp]
			tx.ForeignApps = []basics.AppIndex{app}
			toAccess()
			how = "other-appl-access-app"
		}
	default:
		return ""
	}
	g.Txns = append(g.Txns, tx)
	g.Created = append(g.Created, -1)
	return how
}

// c35AddCreated inserts, in front of the group, a transaction that creates the asset or app.
func c35AddCreated(g *c35Group, kind string, i int) {
	var tx transactions.Transaction
	tx.Header = c35Header(c35U.accts[0])
	if kind == "asset" {
		tx.Type = protocol.AssetConfigTx
		tx.AssetParams.Total = 1000
	} else {
		tx.Type = protocol.ApplicationCallTx
	}
	g.Txns = append([]transactions.Transaction{tx}, g.Txns...)
	g.Created = append([]int{i}, g.Created...)
	g.Target++
}

func c35Fingerprint(v uint64, x string, g *c35Group, env c35Env) string {
	return fmt.Sprintf("v%d|%s|open=%v|%s", v, x, env.BoxOpen, strings.Join(g.render(), "|"))
}
