package logic

// C34 — static check and execution agree on instruction boundaries and branch targets (random branch layouts).
//
// A layout is a list of instructions whose sizes the harness knows by construction (it never asks the code under
// test where instructions start). Branch instructions get targets of every kind: aligned instruction starts
// (forward, backward, own start), the end of the program, beyond the end, inside immediates, the version byte,
// negative positions. The reference model of legality is written from the `bnz` section of TEAL_opcodes_v*.md:
//   * 2-byte form (v1..v12, and switch/match at every version): target = end of instruction + signed 16-bit offset;
//     negative offsets only from v4; varint form (v13+): N >= 0 from the end of the instruction, N < 0 from its start;
//   * "Branch targets must be aligned instructions at every version";
//   * branching to the end of the program is legal from v2, illegal before; beyond the end is illegal.

import (
	"encoding/binary"
	"encoding/hex"
	"errors"
	"fmt"
	"testing"

	"github.com/algorand/go-algorand/config"
	"github.com/algorand/go-algorand/data/transactions"
	"pgregory.net/rapid"
)

var c34BranchProto = makeTestProto(func(p *config.ConsensusParams) {
	p.LogicSigMaxCost = 1500 // bounds loops created by backward branches
})

type c34TargetKind int

const (
	c34TStart   c34TargetKind = iota // start of instruction #arg
	c34TEnd                          // len(program)
	c34TBeyond                       // len(program) + arg (arg >= 1)
	c34TInside                       // inside instruction #arg at byte offset arg2 (1..size-1)
	c34TZero                         // position 0 (the version byte)
	c34TNegative                     // position -arg (arg >= 1)
)

var c34TargetKindNames = []string{"start", "end", "beyond", "inside", "zero", "negative"}

type c34Target struct {
	kind c34TargetKind
	arg  int
	arg2 int
}

type c34Instr struct {
	name    string
	op      byte
	fixed   []byte      // complete encoding for non-branch instructions
	branch  bool        // bnz/bz/b/callsub
	table   bool        // switch/match
	targets []c34Target // 1 for branch, n for table
	width   int         // varint width for v13+ branches (1..3)
	// filled by layout
	pc, size int
	resolved []int // absolute target positions
}

func c34Zigzag(n int64) uint64 { return uint64(n<<1) ^ uint64(n>>63) }

// c34VarintW encodes n as a binary.Varint in exactly w bytes (non-minimal padding with continuation bits when
// needed). ok == false when n does not fit.
func c34VarintW(n int64, w int) ([]byte, bool) {
	ux := c34Zigzag(n)
	if w < 10 && ux >= uint64(1)<<(7*uint(w)) {
		return nil, false
	}
	out := make([]byte, w)
	for i := 0; i < w; i++ {
		out[i] = byte(ux & 0x7f)
		ux >>= 7
		if i < w-1 {
			out[i] |= 0x80
		}
	}
	return out, true
}

type c34Layout struct {
	version  uint64
	varint   bool // branch offsets of bnz/bz/b/callsub are varints (v13+)
	preamble int  // number of preamble instructions
	instrs   []*c34Instr
	prog     []byte
	starts   map[int]bool
}

// resolve computes absolute positions for the targets of instruction in (needs all pcs and sizes).
func (l *c34Layout) resolve(in *c34Instr, progLen int) {
	in.resolved = in.resolved[:0]
	for _, t := range in.targets {
		var pos int
		switch t.kind {
		case c34TStart:
			pos = l.instrs[t.arg].pc
		case c34TEnd:
			pos = progLen
		case c34TBeyond:
			pos = progLen + t.arg
		case c34TInside:
			j := l.instrs[t.arg]
			off := t.arg2
			if j.size <= 1 {
				off = 0 // nothing inside a 1-byte instruction: degenerate to its start
			} else if off >= j.size {
				off = 1 + (off-1)%(j.size-1)
			}
			pos = j.pc + off
		case c34TZero:
			pos = 0
		case c34TNegative:
			pos = -t.arg
		}
		in.resolved = append(in.resolved, pos)
	}
}

// assemble lays the program out. Varint branch widths may have to grow; iterate to a fixed point.
func (l *c34Layout) assemble() {
	for iter := 0; iter < 8; iter++ {
		pc := 1 // version byte (versions < 128)
		for _, in := range l.instrs {
			in.pc = pc
			switch {
			case in.branch && l.varint:
				in.size = 1 + in.width
			case in.branch:
				in.size = 3
			case in.table:
				in.size = 2 + 2*len(in.targets)
			default:
				in.size = len(in.fixed)
			}
			pc += in.size
		}
		progLen := pc
		stable := true
		for _, in := range l.instrs {
			if !(in.branch || in.table) {
				continue
			}
			l.resolve(in, progLen)
			if in.branch && l.varint {
				t := in.resolved[0]
				if t > in.pc && t < in.pc+in.size {
					// cannot be encoded in the varint form: use the following instruction instead
					in.resolved[0] = in.pc + in.size
					t = in.resolved[0]
				}
				n := int64(t - in.pc)
				if t >= in.pc+in.size {
					n = int64(t - (in.pc + in.size))
				} else if t == in.pc {
					// own start cannot be encoded either (N = 0 means the next instruction)
					in.resolved[0] = in.pc + in.size
					n = 0
				}
				if _, ok := c34VarintW(n, in.width); !ok {
					in.width++
					stable = false
				}
			}
		}
		if stable {
			break
		}
	}
	prog := []byte{byte(l.version)}
	l.starts = map[int]bool{}
	for _, in := range l.instrs {
		if len(prog) != in.pc {
			panic("c34 layout: pc mismatch")
		}
		l.starts[in.pc] = true
		switch {
		case in.branch && l.varint:
			t := in.resolved[0]
			n := int64(t - in.pc)
			if t >= in.pc+in.size {
				n = int64(t - (in.pc + in.size))
			}
			enc, ok := c34VarintW(n, in.width)
			if !ok {
				panic("c34 layout: varint width did not converge")
			}
			prog = append(prog, in.op)
			prog = append(prog, enc...)
		case in.branch:
			off := in.resolved[0] - (in.pc + 3)
			prog = append(prog, in.op)
			prog = binary.BigEndian.AppendUint16(prog, uint16(int16(off)))
		case in.table:
			prog = append(prog, in.op, byte(len(in.targets)))
			eoi := in.pc + in.size
			for _, t := range in.resolved {
				prog = binary.BigEndian.AppendUint16(prog, uint16(int16(t-eoi)))
			}
		default:
			prog = append(prog, in.fixed...)
		}
	}
	l.prog = prog
}

// legal: the documented rule for one branch target.
func (l *c34Layout) legal(in *c34Instr, target int) (ok bool, outOfRange bool) {
	n := len(l.prog)
	end := in.pc + in.size
	backward := target < end
	if in.branch && l.varint {
		backward = target < in.pc
	}
	switch {
	case target < 0 || target > n:
		return false, true
	case target == n && l.version < 2:
		return false, true // "illegal for a TEAL program with N bytes before v2"
	case backward && l.version < 4:
		return false, true // forward branches only before v4 (negative offsets rejected)
	case target == n:
		return true, false
	}
	return l.starts[target], false
}

func c34DrawTarget(t *rapid.T, nInstr int, self int) c34Target {
	switch rapid.IntRange(0, 11).Draw(t, "tkind") {
	case 0, 1, 2, 3:
		return c34Target{kind: c34TStart, arg: rapid.IntRange(0, nInstr-1).Draw(t, "tinstr")}
	case 4:
		return c34Target{kind: c34TStart, arg: self} // own start
	case 5:
		if self+1 < nInstr {
			return c34Target{kind: c34TStart, arg: self + 1} // following instruction
		}
		return c34Target{kind: c34TEnd}
	case 6, 7:
		return c34Target{kind: c34TEnd}
	case 8:
		return c34Target{kind: c34TBeyond, arg: rapid.SampledFrom([]int{1, 1, 2, 3, 100}).Draw(t, "beyond")}
	case 9, 10:
		return c34Target{kind: c34TInside, arg: rapid.IntRange(0, nInstr-1).Draw(t, "tinstr"), arg2: rapid.IntRange(1, 6).Draw(t, "toff")}
	default:
		if rapid.Bool().Draw(t, "zero") {
			return c34Target{kind: c34TZero}
		}
		return c34Target{kind: c34TNegative, arg: rapid.SampledFrom([]int{1, 1, 2, 50}).Draw(t, "neg")}
	}
}

func c34DrawLayout(t *rapid.T) *c34Layout {
	// rapid's integer generators favour small values; mix the bits so that every version is drawn about equally often
	v := (rapid.Uint64().Draw(t, "versionseed") * 0x9E3779B97F4A7C15 >> 32) % (LogicVersion + 1)
	l := &c34Layout{version: v, varint: v >= 13}
	// preamble: intcblock 1 1 ; 30 x intc_0  (a deep stack of ones)
	l.instrs = append(l.instrs, &c34Instr{name: "intcblock", fixed: []byte{0x20, 0x01, 0x01}})
	for i := 0; i < 30; i++ {
		l.instrs = append(l.instrs, &c34Instr{name: "intc_0", fixed: []byte{0x22}})
	}
	l.preamble = len(l.instrs)
	nBody := rapid.IntRange(1, 10).Draw(t, "nbody")
	type choice struct {
		name string
		min  uint64
	}
	choices := []choice{{"intc_0", 1}, {"intc", 1}, {"pop", 1}, {"dup", 1}, {"txn", 1}, {"gtxn", 1}, {"intcblock", 1}, {"bytecblock", 1}, {"&&", 1},
		{"bnz", 1}, {"bnz", 1}, {"bz", 2}, {"b", 2}, {"b", 2}, {"pushint", 3}, {"pushint3", 3}, {"callsub", 4}, {"switch", 8}, {"match", 8}}
	var avail []choice
	for _, c := range choices {
		ev := v
		if ev == 0 {
			ev = 1
		}
		if c.min <= ev {
			avail = append(avail, c)
		}
	}
	var availBranch []choice
	for _, c := range avail {
		switch c.name {
		case "bnz", "bz", "b", "callsub", "switch", "match":
			availBranch = append(availBranch, c)
		}
	}
	total := l.preamble + nBody
	forced := rapid.IntRange(0, nBody-1).Draw(t, "forcedbranch") // at least one branch instruction per layout
	for i := 0; i < nBody; i++ {
		var c choice
		if i == forced {
			c = availBranch[rapid.IntRange(0, len(availBranch)-1).Draw(t, "binstr")]
		} else {
			c = avail[rapid.IntRange(0, len(avail)-1).Draw(t, "instr")]
		}
		self := l.preamble + i
		in := &c34Instr{name: c.name}
		switch c.name {
		case "intc_0":
			in.fixed = []byte{0x22}
		case "intc":
			in.fixed = []byte{0x21, 0x00}
		case "pop":
			in.fixed = []byte{0x48}
		case "dup":
			in.fixed = []byte{0x49}
		case "&&":
			in.fixed = []byte{0x10}
		case "txn":
			in.fixed = []byte{0x31, byte(TypeEnum)} // txn TypeEnum: 1 (pay)
		case "gtxn":
			in.fixed = []byte{0x33, 0x00, byte(TypeEnum)}
		case "intcblock":
			in.fixed = []byte{0x20, 0x01, 0x01}
		case "bytecblock":
			n := rapid.IntRange(1, 5).Draw(t, "bclen")
			// content that looks like code: opcodes of 1-byte instructions and of branches
			content := rapid.SliceOfN(rapid.SampledFrom([]byte{0x22, 0x48, 0x49, 0x40, 0x42, 0x00, 0x43, 0x8d}), n, n).Draw(t, "bc")
			in.fixed = append([]byte{0x26, 0x01, byte(n)}, content...)
		case "pushint":
			in.fixed = []byte{0x81, 0x01}
		case "pushint3":
			in.fixed = []byte{0x81, 0x81, 0x00} // non-minimal varuint 1
		case "bnz", "bz", "b", "callsub":
			in.branch = true
			in.op = map[string]byte{"bnz": 0x40, "bz": 0x41, "b": 0x42, "callsub": 0x88}[c.name]
			in.targets = []c34Target{c34DrawTarget(t, total, self)}
			in.width = rapid.IntRange(1, 3).Draw(t, "vwidth")
		case "switch", "match":
			in.table = true
			in.op = map[string]byte{"switch": 0x8d, "match": 0x8e}[c.name]
			n := rapid.IntRange(0, 3).Draw(t, "nlabels")
			for k := 0; k < n; k++ {
				in.targets = append(in.targets, c34DrawTarget(t, total, self))
			}
		}
		l.instrs = append(l.instrs, in)
	}
	l.assemble()
	return l
}

// ---- execution trace

type c34Event struct {
	pc, next int
	depth    int
	top      []stackValue // up to 5 values, top last
	budget   int
	err      error
	done     bool
}

type c34Tracer struct {
	NullEvalTracer
	events []c34Event
}

func (tr *c34Tracer) BeforeOpcode(cx *EvalContext) {
	if len(tr.events) >= 4000 {
		return
	}
	n := len(cx.Stack)
	k := 5
	if n < k {
		k = n
	}
	top := make([]stackValue, k)
	copy(top, cx.Stack[n-k:])
	tr.events = append(tr.events, c34Event{pc: cx.pc, depth: n, top: top, budget: cx.remainingBudget()})
}

func (tr *c34Tracer) AfterOpcode(cx *EvalContext, err error) {
	if len(tr.events) == 0 {
		return
	}
	e := &tr.events[len(tr.events)-1]
	if e.done {
		return
	}
	e.done = true
	e.err = err
	e.next = cx.pc
}

func TestVerif_C34_Branches(t *testing.T) {
	vk := vkBegin(t, "C34")
	vk.Rule("random layouts of 1..10 instructions of known size after a fixed preamble, for every version 0..LogicVersion, with bnz/bz/b/callsub (2-byte offsets before v13, 1..3-byte possibly non-minimal varints from v13) and switch/match tables whose targets are drawn from: any instruction start (forward/backward/own), end of program, beyond the end, inside immediates, the version byte, negative positions. Oracle: legality model from the bnz documentation; Check must accept exactly the legal layouts; a traced Eval must stay on instruction starts of accepted layouts, continue exactly at the documented position after every branch, and fail when the branch taken is out of range. Non-trivial = some target is not a plain legal forward start (illegal, end of program, backward, own start) ; distinct by program bytes")
	rapid.Check(t, func(t *rapid.T) {
		l := c34DrawLayout(t)
		// ---- model verdict
		modelOK := true
		special := false
		var why string
		for _, in := range l.instrs {
			for i, target := range in.resolved {
				ok, _ := l.legal(in, target)
				kind := in.targets[i].kind
				vk.Label("target-" + c34TargetKindNames[kind])
				if !ok {
					if modelOK {
						why = fmt.Sprintf("%s at pc %d -> %d", in.name, in.pc, target)
					}
					modelOK = false
				}
				if !ok || target == len(l.prog) || target <= in.pc {
					special = true
				}
			}
		}
		// ---- static check
		var stxn transactions.SignedTxn
		stxn.Txn.Type = "pay"
		stxn.Lsig.Logic = l.prog
		group := []transactions.SignedTxn{stxn}
		checkErr := CheckSignature(0, NewSigEvalParams(group, c34BranchProto, &NoHeaderLedger{}))
		if (checkErr == nil) != modelOK {
			t.Fatalf("v%d program %s: Check says %v, documented branch rules say legal=%v (%s)", l.version, hex.EncodeToString(l.prog), checkErr, modelOK, why)
		}
		if modelOK {
			vk.Label("check-accepts")
		} else {
			vk.Label("check-rejects")
		}
		// ---- traced execution (also of rejected layouts: Eval does not depend on Check having been run)
		tr := &c34Tracer{}
		ep := NewSigEvalParams(group, c34BranchProto, &NoHeaderLedger{})
		ep.Tracer = tr
		_, _, evalErr := EvalSignatureFull(0, ep)
		var pe panicError
		if evalErr != nil && errors.As(evalErr, &pe) {
			vk.Label("eval-panic-recovered") // C31's business; not judged here
		}
		byPC := map[int]*c34Instr{}
		for _, in := range l.instrs {
			byPC[in.pc] = in
		}
		branchesSeen, takenOut := 0, 0
		for i := range tr.events {
			e := &tr.events[i]
			in := byPC[e.pc]
			if in == nil {
				if modelOK {
					t.Fatalf("v%d program %s: Check accepted, but execution reached pc %d which is not an instruction start", l.version, hex.EncodeToString(l.prog), e.pc)
				}
				vk.Label("eval-left-instruction-boundaries(rejected-layout)")
				break // history no longer clean
			}
			if !(in.branch || in.table) || !e.done {
				continue
			}
			// documented continuation
			fall := in.pc + in.size
			next := fall
			taken := -1
			need := 0
			switch in.name {
			case "bnz", "bz":
				need = 1
				if e.depth >= 1 && e.top[len(e.top)-1].Bytes == nil {
					nz := e.top[len(e.top)-1].Uint != 0
					if nz == (in.name == "bnz") {
						taken = 0
					}
				}
			case "b", "callsub":
				taken = 0
			case "switch":
				need = 1
				if e.depth >= 1 && e.top[len(e.top)-1].Bytes == nil {
					if a := e.top[len(e.top)-1].Uint; a < uint64(len(in.targets)) {
						taken = int(a)
					}
				}
			case "match":
				need = len(in.targets) + 1
				if e.depth >= need {
					b := e.top[len(e.top)-1]
					cases := e.top[len(e.top)-1-len(in.targets) : len(e.top)-1]
					for k, c := range cases {
						if (c.Bytes == nil) == (b.Bytes == nil) && c.Uint == b.Uint && string(c.Bytes) == string(b.Bytes) {
							taken = k
							break
						}
					}
				}
			}
			if e.depth < need || e.budget < 1 {
				continue // the instruction cannot run at all: not a branch question
			}
			branchesSeen++
			if taken >= 0 {
				next = in.resolved[taken]
				ok, out := l.legal(in, next)
				if out {
					takenOut++
					if e.err == nil {
						t.Fatalf("v%d program %s: %s at pc %d branched to %d, which is out of range (program length %d), but execution did not fail", l.version, hex.EncodeToString(l.prog), in.name, in.pc, next, len(l.prog))
					}
					break
				}
				if !ok {
					// in range but not an instruction start: the documents only say such a program is rejected by the
					// static check (asserted above); they give execution no meaning, so nothing more is judged.
					vk.Label("eval-took-misaligned-branch(rejected-layout)")
					break
				}
			}
			if e.err != nil {
				// varint form decodes its offset even when the branch is not taken; an out-of-range offset may fail then
				if taken < 0 && in.branch && l.varint {
					if _, out := l.legal(in, in.resolved[0]); out {
						break
					}
				}
				t.Fatalf("v%d program %s: %s at pc %d should continue at %d (documented), but failed: %v", l.version, hex.EncodeToString(l.prog), in.name, in.pc, next, e.err)
			}
			if e.next != next {
				t.Fatalf("v%d program %s: %s at pc %d continued at %d, documented continuation is %d", l.version, hex.EncodeToString(l.prog), in.name, in.pc, e.next, next)
			}
		}
		vk.Labelf("branches-executed=%d", min(branchesSeen, 5))
		if takenOut > 0 {
			vk.Label("eval-failed-on-out-of-range-branch")
		}
		vk.Labelf("v%d", l.version)
		vk.Case(special, hex.EncodeToString(l.prog))
		if vk.WantSample(special) {
			vk.Sample(special, map[string]interface{}{"version": l.version, "program": hex.EncodeToString(l.prog), "legal": modelOK, "why": why})
		}
	})
}
