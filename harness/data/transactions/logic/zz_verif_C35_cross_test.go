package logic

// C35 unit 2 — the cross-product restriction of group resource sharing (program versions >= 9).
//
// An account A and an asset S (or an app P) are drawn; a group of 2..4 transactions is generated in which every
// transaction is either on A's side (never names S/P) or on S's side (never names A) - so A and S are each named
// somewhere in the group, but no single transaction names both, and nothing involving them is created in the group.
// Then the holding (A,S) / local state (A,P) must be unavailable to the target app call although `balance A` and
// `asset_params_get S` (`app_params_get P`) work. Sibling: a group in which one transaction names both; the same
// program succeeding there makes the pair non-trivial.

import (
	"fmt"
	"strings"
	"testing"

	"pgregory.net/rapid"

	"github.com/algorand/go-algorand/data/basics"
	"github.com/algorand/go-algorand/data/transactions"
	"github.com/algorand/go-algorand/protocol"
)

func c35ForceAcct(t *rapid.T, tx *transactions.Transaction, a basics.Address) string {
	switch tx.Type {
	case protocol.PaymentTx:
		tx.Receiver = a
		return "pay-receiver"
	case protocol.AssetTransferTx:
		tx.AssetReceiver = a
		return "axfer-receiver"
	case protocol.AssetFreezeTx:
		tx.FreezeAccount = a
		return "afrz-account"
	case protocol.KeyRegistrationTx:
		tx.Sender = a
		return "keyreg-sender"
	case protocol.AssetConfigTx:
		tx.Sender = a
		return "acfg-sender"
	default:
		if c35Chance(t, "force-sender?", 30) {
			tx.Sender = a
			return "appl-sender"
		}
		if tx.Access != nil {
			tx.Access = append(tx.Access, transactions.ResourceRef{Address: a})
			return "appl-access-address"
		}
		tx.Accounts = append(tx.Accounts, a)
		return "appl-accounts"
	}
}

func c35ForceAsset(t *rapid.T, tx *transactions.Transaction, created *int, id basics.AssetIndex) string {
	switch tx.Type {
	case protocol.AssetTransferTx:
		tx.XferAsset = id
		return "axfer-asset"
	case protocol.AssetConfigTx:
		tx.ConfigAsset = id
		*created = -1
		return "acfg-asset"
	case protocol.AssetFreezeTx:
		tx.FreezeAsset = id
		return "afrz-asset"
	default:
		if tx.Access != nil {
			tx.Access = append(tx.Access, transactions.ResourceRef{Asset: id})
			return "appl-access-asset"
		}
		tx.ForeignAssets = append(tx.ForeignAssets, id)
		return "appl-foreign-assets"
	}
}

func c35ForceApp(t *rapid.T, tx *transactions.Transaction, created *int, id basics.AppIndex) string {
	if c35Chance(t, "force-appid?", 40) {
		tx.ApplicationID = id
		*created = -1
		return "appl-calls-app"
	}
	if tx.Access != nil {
		tx.Access = append(tx.Access, transactions.ResourceRef{App: id})
		return "appl-access-app"
	}
	tx.ForeignApps = append(tx.ForeignApps, id)
	return "appl-foreign-apps"
}

type c35CrossSample struct {
	Version uint64       `json:"version"`
	Pair    string       `json:"pair"`
	AVia    string       `json:"account_named_by"`
	SVia    string       `json:"other_named_by"`
	Group   []string     `json:"group"`
	Pairs   []c35PairRec `json:"pairs"`
	Failed  int          `json:"accesses_that_failed_as_required"`
}

func TestVerif_C35_CrossProduct(t *testing.T) {
	vk := vkBegin(t, "C35")
	vk.Rule("account A and asset S (or app P) from the universe; group of 2-4 txns where one txn is forced to name A, another to name S/P, and no txn names both " +
		"(per-txn exclusion by construction, confirmed by the mention scan; no creation involving them); program v9..LogicVersion in the target app call reads/writes the holding (A,S) / " +
		"local state (A,P) by address, id and slot, and through inner axfer/afrz submission: every such access must fail. " +
		"Non-trivial = A and S/P are each individually usable by the same txn (balance / asset_params_get / app_params_get succeed) and the same program succeeds in a sibling group where one txn names both; distinct by (version, pair, group)")
	vk.Assume("consensus parameters of the 'future' protocol; unnamed-resource access off")
	rapid.Check(t, func(t *rapid.T) {
		v := uint64(rapid.IntRange(sharedResourcesVersion, LogicVersion).Draw(t, "version"))
		holding := rapid.Bool().Draw(t, "holding?")
		other := 0
		if holding {
			other = rapid.IntRange(0, c35NAsset-1).Draw(t, "S")
		} else {
			other = rapid.IntRange(0, c35NApp-1).Draw(t, "P")
		}
		acctChoices := c35Allowed(c35NAcct, func(i int) bool { return !holding && i == c35NPlain+other })
		A := c35Pick(t, "A", acctChoices)

		exA, exB := &c35Set{}, &c35Set{} // exA: may not name A; exB: may not name S/P
		exA.Acct[A] = true
		if holding {
			exB.Asset[other] = true
		} else {
			exB.App[other] = true
		}
		exA.close()
		exB.close()
		for _, s := range []*c35Set{exA, exB} {
			if holding {
				s.NoCreateAsset[other] = true
			} else {
				s.NoCreateApp[other] = true
			}
			if A >= c35NPlain {
				s.NoCreateApp[A-c35NPlain] = true
			}
		}
		exBoth := *exA // (the creation restrictions are the same in both)
		exBoth.union(exB)

		n := rapid.IntRange(2, 4).Draw(t, "ntxns")
		ia := rapid.IntRange(0, n-1).Draw(t, "txn-naming-A")
		ib := rapid.IntRange(0, n-2).Draw(t, "txn-naming-other")
		if ib >= ia {
			ib++
		}
		g := &c35Group{Target: rapid.IntRange(0, n-1).Draw(t, "target-index")}
		env := c35Env{BoxOpen: true}
		for i := 0; i < n; i++ {
			var ex *c35Set
			switch {
			case i == ia:
				ex = exB
			case i == ib:
				ex = exA
			default:
				ex = []*c35Set{exA, exB, &exBoth}[rapid.IntRange(0, 2).Draw(t, "side")]
			}
			typ := c35OtherTypes[rapid.IntRange(0, len(c35OtherTypes)-1).Draw(t, "txtype")]
			if i == ib { // must be able to name an asset / app
				typ = protocol.ApplicationCallTx
				if holding {
					typ = []protocol.TxType{protocol.ApplicationCallTx, protocol.ApplicationCallTx, protocol.AssetTransferTx, protocol.AssetConfigTx, protocol.AssetFreezeTx}[rapid.IntRange(0, 4).Draw(t, "other-txtype")]
				}
			}
			if i == g.Target {
				typ = protocol.ApplicationCallTx
			}
			tx, created := c35GenTxn(t, typ, ex, c35GenOpt{AllowAccess: true, IsTarget: i == g.Target})
			g.Txns = append(g.Txns, tx)
			g.Created = append(g.Created, created)
		}
		aVia := c35ForceAcct(t, &g.Txns[ia], c35U.accts[A])
		sVia := ""
		if holding {
			sVia = c35ForceAsset(t, &g.Txns[ib], &g.Created[ib], c35AssetIDs[other])
		} else {
			sVia = c35ForceApp(t, &g.Txns[ib], &g.Created[ib], c35AppIDs[other])
		}
		// a pay that now closes to its own sender is not well formed
		if tx := &g.Txns[ia]; tx.Type == protocol.PaymentTx && tx.CloseRemainderTo == tx.Sender {
			tx.CloseRemainderTo = basics.Address{}
		}

		// independent confirmation: no transaction names both, nothing relevant is created
		m := c35Scan(g)
		joint := false
		for i := range m.PerTxn {
			s := &m.PerTxn[i]
			if s.Acct[A] && (holding && s.Asset[other] || !holding && s.App[other]) {
				joint = true
			}
		}
		if holding && m.CreatedAssets[other] || !holding && m.CreatedApps[other] || A >= c35NPlain && m.CreatedApps[A-c35NPlain] {
			joint = true
		}
		if joint {
			vk.Excluded("generator named both in one txn (harness defect, case skipped)")
			return
		}

		tx := &g.Txns[g.Target]
		eff := g.effApp(g.Target)
		req := c35Req{Acct: A, Asset: -1, App: -1, BoxApp: -1}
		pairName := ""
		if holding {
			req.Asset = other
			pairName = fmt.Sprintf("holding(%s,asset%d)", c35AcctName(A), other)
		} else {
			req.App = other
			pairName = fmt.Sprintf("locals(%s,app%d)", c35AcctName(A), other)
		}

		// addressing forms of A and of S/P available to this txn
		acctExprs := map[string]string{"addr": c35AddrLit(A)}
		if idx, err := tx.IndexByAddress(c35U.accts[A], tx.Sender); err == nil {
			acctExprs["slot"] = fmt.Sprintf("int %d", idx)
		}
		otherExprs := map[string]string{}
		if holding {
			otherExprs["id"] = fmt.Sprintf("int %d", c35AssetIDs[other])
			for k, id := range tx.ForeignAssets {
				if id == c35AssetIDs[other] {
					otherExprs["slot"] = fmt.Sprintf("int %d", k)
				}
			}
			for k, rr := range tx.Access {
				if rr.Asset == c35AssetIDs[other] {
					otherExprs["slot"] = fmt.Sprintf("int %d", k+1)
				}
			}
		} else {
			otherExprs["id"] = fmt.Sprintf("int %d", c35AppIDs[other])
			if c35AppIDs[other] == eff {
				otherExprs["zero"] = "int 0"
			}
			for k, id := range tx.ForeignApps {
				if id == c35AppIDs[other] {
					otherExprs["slot"] = fmt.Sprintf("int %d", k+1)
				}
			}
			for k, rr := range tx.Access {
				if rr.App == c35AppIDs[other] {
					otherExprs["slot"] = fmt.Sprintf("int %d", k+1)
				}
			}
		}
		var forms []c35Access
		for am, ax := range acctExprs {
			for om, ox := range otherExprs {
				mode := am + "," + om
				if holding {
					forms = append(forms, c35Access{"asset_holding_get/" + mode, fmt.Sprintf("%s; %s; asset_holding_get AssetBalance; pop; pop; int 1", ax, ox), req})
				} else {
					forms = append(forms,
						c35Access{"app_opted_in/" + mode, fmt.Sprintf("%s; %s; app_opted_in; pop; int 1", ax, ox), req},
						c35Access{"app_local_get_ex/" + mode, fmt.Sprintf(`%s; %s; byte "k"; app_local_get_ex; pop; pop; int 1`, ax, ox), req})
				}
			}
			if !holding && c35AppIDs[other] == eff {
				forms = append(forms,
					c35Access{"app_local_get/" + am, ax + `; byte "k"; app_local_get; pop; int 1`, req},
					c35Access{"app_local_put/" + am, ax + `; byte "k"; int 9; app_local_put; int 1`, req},
					c35Access{"app_local_del/" + am, ax + `; byte "k"; app_local_del; int 1`, req})
			}
		}
		if holding {
			sub := req
			sub.OwnOnly, sub.AppAcct = true, true
			forms = append(forms,
				c35Access{"inner-axfer-submit", fmt.Sprintf("itxn_begin; int 4; itxn_field TypeEnum; int %d; itxn_field XferAsset; %s; itxn_field AssetReceiver; int 0; itxn_field AssetAmount; itxn_submit; int 1",
					c35AssetIDs[other], c35AddrLit(A)), sub},
				c35Access{"inner-afrz-submit", fmt.Sprintf("itxn_begin; int 5; itxn_field TypeEnum; int %d; itxn_field FreezeAsset; %s; itxn_field FreezeAssetAccount; int 1; itxn_field FreezeAssetFrozen; itxn_submit; int 1",
					c35AssetIDs[other], c35AddrLit(A)), sub})
		}
		// deterministic order (maps above)
		for i := 1; i < len(forms); i++ {
			for j := i; j > 0 && forms[j].Name < forms[j-1].Name; j-- {
				forms[j], forms[j-1] = forms[j-1], forms[j]
			}
		}

		run := func(src string) (c35Result, bool) {
			prog, ok := c35Asm(v, src)
			if !ok {
				return c35Result{}, false
			}
			res, herr := c35Run(g, v, prog, env)
			if herr != nil {
				vk.Excluded("harness: " + herr.Error())
				return c35Result{}, false
			}
			vk.Add("program-evaluations", 1)
			return res, true
		}
		// the components on their own (completeness direction: measured, not asserted)
		resA, okA := run(c35AddrLit(A) + "; balance; pop; int 1")
		var resS c35Result
		okS := false
		if holding {
			resS, okS = run(fmt.Sprintf("int %d; asset_params_get AssetTotal; pop; pop; int 1", c35AssetIDs[other]))
		} else {
			resS, okS = run(fmt.Sprintf("int %d; app_params_get AppGlobalNumUint; pop; pop; int 1", c35AppIDs[other]))
		}
		if !okA || !okS {
			return
		}
		components := resA.ok() && resS.ok()
		if components {
			vk.Label("components-individually-available")
		} else {
			// every forced mention is a documented way of sharing at v9+: logged for review, not a violation
			vk.Labelf("review:component-unavailable-though-named:A=%v(%s),other=%v(%s)", resA.ok(), aVia, resS.ok(), sVia)
		}

		fp := c35Fingerprint(v, pairName, g, env)
		pairs, failed := 0, 0
		var recs []c35PairRec
		for _, f := range forms {
			prog, ok := c35Asm(v, f.Src)
			if !ok {
				vk.Labelf("form-absent:%s", f.Name)
				continue
			}
			res, herr := c35Run(g, v, prog, env)
			if herr != nil {
				vk.Excluded("harness: " + herr.Error())
				continue
			}
			vk.Add("program-evaluations", 1)
			if res.ok() {
				t.Fatalf("C35 violated: v%d program used %s although no transaction of the group names both (A named by %s in txn %d, the other by %s in txn %d)\n  access: %s\n  program: %s\n  group:\n    %s",
					v, pairName, aVia, ia, sVia, ib, f.Name, f.Src, strings.Join(g.render(), "\n    "))
			}
			failed++
			sib := g.clone()
			how := ""
			if !f.Req.OwnOnly && c35Chance(t, "sibling-other?", 50) {
				how = c35AddOther(t, sib, f.Req)
			}
			if how == "" {
				c35AddOwn(sib, v, f.Req, rapid.Bool().Draw(t, "via-access"))
				how = c35OwnHow(sib)
			}
			res2, herr := c35Run(sib, v, prog, env)
			if herr != nil {
				vk.Labelf("sibling-not-wellformed:%s", how)
				continue
			}
			vk.Add("program-evaluations", 1)
			if res2.ok() && components {
				pairs++
				recs = append(recs, c35PairRec{Form: f.Name, How: how})
				vk.Labelf("pair:%s", f.Name)
				vk.Labelf("jointly-named-by:%s", how)
			} else if !res2.ok() {
				vk.Labelf("sibling-still-fails:%s:%s", c35FormClass(f.Name), how)
				if vkEnv("C35_DEBUG", "") != "" {
					fmt.Printf("C35DEBUG cross sibling fails v%d %s how=%s err=%v\n  prog: %s\n  sib: %s\n", v, f.Name, how, res2.Err, f.Src, strings.Join(sib.render(), " | "))
				}
			}
		}
		vk.Add("pairs", int64(pairs))
		vk.Add("failed-accesses", int64(failed))
		vk.Labelf("split:%s|%s", aVia, sVia)
		vk.Labelf("case:%s:%s", c35Band(v), map[bool]string{true: "holding", false: "locals"}[holding])
		nt := pairs > 0
		vk.Case(nt, fp)
		if vk.WantSample(nt) {
			vk.Sample(nt, c35CrossSample{Version: v, Pair: pairName, AVia: aVia, SVia: sVia, Group: g.render(), Pairs: recs, Failed: failed})
		}
	})
}
