package logic

// C35 unit 3 — inner application calls.
//
// A v9+ caller (app C, the target top-level call) builds an inner app call to app Q whose approval program (version
// 4..LogicVersion, pre-sharing versions preferred) reads ONE holding or local state (a*, r*) out of the cross products
// the inner call's own arrays would hand to a pre-sharing callee: accounts {inner sender = C's account, an Accounts
// entry A, Q's account, the account of a foreign app P} x resources {asset S, app Q, app P}.
// The top-level group is built so that EVERY other cross product of the inner call is explicitly shared (tx.Access
// provider transactions with explicit holding/locals references - an access list shares nothing implicitly) and every
// single resource is usable by the caller, but no transaction names both a* and r*. Then the pair was never made
// available: either `itxn_submit` refuses the inner call ("inner calls to pre-sharing versions must have all cross
// products available", resources.go allows/allowsApplicationCall) or the v9+ callee's own access fails - in both cases
// the caller's evaluation must not be approved. Sibling: the pair is named jointly by one transaction; the same two
// programs then succeed (non-trivial pair).

import (
	"fmt"
	"strings"
	"testing"

	"pgregory.net/rapid"

	"github.com/algorand/go-algorand/data/basics"
	"github.com/algorand/go-algorand/data/transactions"
	"github.com/algorand/go-algorand/protocol"
)

// c35Provider is an app call (to a neutral app) whose access list names the given addresses and resources and
// explicitly shares every address x resource cross product.
func c35Provider(sender basics.Address, called basics.AppIndex, addrs []int, assets []int, apps []int) transactions.Transaction {
	var tx transactions.Transaction
	tx.Type = protocol.ApplicationCallTx
	tx.Header = c35Header(sender)
	tx.ApplicationID = called
	var addrPos, assetPos, appPos []uint64
	for _, a := range addrs {
		tx.Access = append(tx.Access, transactions.ResourceRef{Address: c35U.accts[a]})
		addrPos = append(addrPos, uint64(len(tx.Access)))
	}
	for _, s := range assets {
		tx.Access = append(tx.Access, transactions.ResourceRef{Asset: c35AssetIDs[s]})
		assetPos = append(assetPos, uint64(len(tx.Access)))
	}
	for _, p := range apps {
		tx.Access = append(tx.Access, transactions.ResourceRef{App: c35AppIDs[p]})
		appPos = append(appPos, uint64(len(tx.Access)))
	}
	for _, ap := range addrPos {
		for _, sp := range assetPos {
			tx.Access = append(tx.Access, transactions.ResourceRef{Holding: transactions.HoldingRef{Address: ap, Asset: sp}})
		}
		for _, pp := range appPos {
			tx.Access = append(tx.Access, transactions.ResourceRef{Locals: transactions.LocalsRef{Address: ap, App: pp}})
		}
	}
	return tx
}

func c35Without(list []int, x int) []int {
	out := make([]int, 0, len(list))
	for _, v := range list {
		if v != x {
			out = append(out, v)
		}
	}
	return out
}

type c35InnerSample struct {
	Caller  uint64       `json:"caller_version"`
	Callee  uint64       `json:"callee_version"`
	Pair    string       `json:"pair_read_by_callee"`
	Inner   string       `json:"inner_call"`
	Group   []string     `json:"group"`
	Pairs   []c35PairRec `json:"pairs"`
	Refused int          `json:"refused_as_required"`
}

func TestVerif_C35_InnerCalls(t *testing.T) {
	vk := vkBegin(t, "C35")
	vk.Rule("v9+ caller issues an inner app call (ApplicationID, optional Accounts/Assets/Applications) to a callee of version 4..LogicVersion (60% pre-v9) that reads one holding/local (a*,r*) " +
		"with a* in {inner sender, Accounts entry, callee's account, foreign app's account} and r* in {asset, callee app, foreign app}; the group (2-4 txns: access-list providers + the caller) explicitly shares every " +
		"other cross product of the inner call and every single resource, but no txn names both a* and r* (scan-confirmed): the caller must not be approved. " +
		"Non-trivial = the same caller and callee programs are approved in a sibling group where one txn names a* and r* jointly; distinct by (versions, roles, inner shape, pair)")
	vk.Assume("consensus parameters of the 'future' protocol (MinInnerApplVersion 4); unnamed-resource access off; callee program installed as the approval program of the called app in the mock ledger")
	rapid.Check(t, func(t *rapid.T) {
		v := uint64(rapid.IntRange(sharedResourcesVersion, LogicVersion).Draw(t, "caller-version"))
		cv := uint64(0)
		if c35Chance(t, "pre-sharing-callee?", 60) {
			cv = uint64(rapid.IntRange(int(c35U.proto.MinInnerApplVersion), sharedResourcesVersion-1).Draw(t, "callee-version"))
		} else {
			cv = uint64(rapid.IntRange(sharedResourcesVersion, LogicVersion).Draw(t, "callee-version"))
		}
		// roles
		apps := rapid.Permutation([]int{0, 1, 2, 3}).Draw(t, "app-roles")
		C, Q, P, N := apps[0], apps[1], apps[2], apps[3]
		plain := rapid.Permutation([]int{0, 1, 2, 3, 4, 5}).Draw(t, "acct-roles")
		A, s0, n0 := plain[0], plain[1], plain[2]
		S := rapid.IntRange(0, c35NAsset-1).Draw(t, "S")
		cAcct, qAcct, pAcct := c35NPlain+C, c35NPlain+Q, c35NPlain+P

		// the pair the callee reads
		type acctRole struct {
			name string
			idx  int
		}
		aRoles := []acctRole{{"inner-sender", cAcct}, {"accounts-entry", A}, {"callee-account", qAcct}, {"foreign-app-account", pAcct}, {"foreign-app-account", pAcct}}
		ar := aRoles[rapid.IntRange(0, len(aRoles)-1).Draw(t, "a*")]
		rRoles := []string{"asset", "asset", "callee-app", "foreign-app"}
		// An app account together with its own app cannot be isolated (naming the app names the account). Nor can
		// (account of P, app Q) / (account of Q, app P): a pre-sharing callee also needs the mirrored local state, and a
		// transaction sharing that one names - under the conservative "app = its account" reading - both again.
		if ar.name == "callee-account" || ar.name == "foreign-app-account" {
			rRoles = []string{"asset"}
		}
		rr := rRoles[rapid.IntRange(0, len(rRoles)-1).Draw(t, "r*")]

		// shape of the inner call: what the pair needs, plus optional extras
		useA := ar.name == "accounts-entry" || c35Chance(t, "extra-account?", 40)
		useS := rr == "asset" || c35Chance(t, "extra-asset?", 40)
		useP := ar.name == "foreign-app-account" || rr == "foreign-app" || c35Chance(t, "extra-app?", 40)

		txAccts := []int{cAcct, qAcct} // accounts a pre-sharing callee would get
		if useA {
			txAccts = append(txAccts, A)
		}
		if useP {
			txAccts = append(txAccts, pAcct)
		}
		var assets, rapps []int // resources of the inner call
		if useS {
			assets = []int{S}
		}
		rapps = []int{Q}
		if useP {
			rapps = append(rapps, P)
		}
		req := c35Req{Acct: ar.idx, Asset: -1, App: -1, BoxApp: -1}
		rApp := -1
		switch rr {
		case "asset":
			req.Asset = S
		case "callee-app":
			req.App, rApp = Q, Q
		default:
			req.App, rApp = P, P
		}

		// providers: everything except (a*, r*) is explicitly shared, no txn names both
		W := c35Without(txAccts, ar.idx)
		var providers []transactions.Transaction
		nSender, nApp := c35U.accts[n0], c35AppIDs[N]
		aStarApp := -1 // the app whose account a* is, when that app is itself a resource of the inner call
		if ar.name == "callee-account" {
			aStarApp = Q
		} else if ar.name == "foreign-app-account" {
			aStarApp = P
		}
		if aStarApp < 0 {
			providers = append(providers, c35Provider(nSender, nApp, W, assets, rapps))
		} else {
			providers = append(providers,
				c35Provider(nSender, nApp, W, assets, c35Without(rapps, aStarApp)),
				c35Provider(nSender, nApp, W, nil, []int{aStarApp}))
		}
		x2Assets, x2Apps := assets, rapps
		if rr == "asset" {
			x2Assets = nil
		} else {
			x2Apps = c35Without(rapps, rApp)
		}
		x2 := len(providers)
		providers = append(providers, c35Provider(nSender, nApp, []int{ar.idx}, x2Assets, x2Apps))

		var target transactions.Transaction
		target.Type = protocol.ApplicationCallTx
		target.Header = c35Header(c35U.accts[s0])
		target.ApplicationID = c35AppIDs[C]

		pos := rapid.IntRange(0, len(providers)).Draw(t, "caller-position")
		g := &c35Group{Target: pos}
		for i, ptx := range providers {
			if i == pos {
				g.Txns = append(g.Txns, target)
			}
			g.Txns = append(g.Txns, ptx)
		}
		if pos == len(providers) {
			g.Txns = append(g.Txns, target)
		}
		if pos <= x2 {
			x2++
		}
		for range g.Txns {
			g.Created = append(g.Created, -1)
		}

		// independent confirmation: no transaction names both a* and r*
		m := c35Scan(g)
		for i := range m.PerTxn {
			sc := &m.PerTxn[i]
			if sc.Acct[ar.idx] && (rr == "asset" && sc.Asset[S] || rr != "asset" && sc.App[rApp]) {
				vk.Excluded("generator named both in one txn (harness defect, case skipped)")
				return
			}
		}

		// caller program
		var cb strings.Builder
		fmt.Fprintf(&cb, "itxn_begin; int 6; itxn_field TypeEnum; int %d; itxn_field ApplicationID", c35AppIDs[Q])
		if useA {
			fmt.Fprintf(&cb, "; %s; itxn_field Accounts", c35AddrLit(A))
		}
		if useS {
			fmt.Fprintf(&cb, "; int %d; itxn_field Assets", c35AssetIDs[S])
		}
		if useP {
			fmt.Fprintf(&cb, "; int %d; itxn_field Applications", c35AppIDs[P])
		}
		cb.WriteString("; itxn_submit; int 1")
		caller, ok := c35Asm(v, cb.String())
		if !ok {
			t.Fatalf("harness: caller program does not assemble at v%d: %s", v, cb.String())
		}
		shape := fmt.Sprintf("appl(Q=%d accounts=%v assets=%v apps=%v)", c35AppIDs[Q], useA, useS, useP)

		// callee programs reading the pair
		var aExprs, rExprs []string
		switch ar.name {
		case "inner-sender":
			aExprs = []string{"int 0", "txn Sender"}
		case "accounts-entry":
			aExprs = []string{"int 1", c35AddrLit(A)}
		case "callee-account":
			aExprs = []string{"global CurrentApplicationAddress", c35AddrLit(qAcct)}
		default:
			aExprs = []string{c35AddrLit(pAcct)}
		}
		switch rr {
		case "asset":
			rExprs = []string{fmt.Sprintf("int %d", c35AssetIDs[S]), "int 0"}
		case "callee-app":
			rExprs = []string{"int 0", fmt.Sprintf("int %d", c35AppIDs[Q])}
		default:
			rExprs = []string{fmt.Sprintf("int %d", c35AppIDs[P]), "int 1"}
		}
		ax := aExprs[rapid.IntRange(0, len(aExprs)-1).Draw(t, "a-expr")]
		rx := rExprs[rapid.IntRange(0, len(rExprs)-1).Draw(t, "r-expr")]
		var forms []c35Access
		if rr == "asset" {
			forms = append(forms, c35Access{"callee asset_holding_get", fmt.Sprintf("%s; %s; asset_holding_get AssetBalance; pop; pop; int 1", ax, rx), req})
		} else {
			forms = append(forms,
				c35Access{"callee app_opted_in", fmt.Sprintf("%s; %s; app_opted_in; pop; int 1", ax, rx), req},
				c35Access{"callee app_local_get_ex", fmt.Sprintf(`%s; %s; byte "k"; app_local_get_ex; pop; pop; int 1`, ax, rx), req})
			if rr == "callee-app" {
				forms = append(forms, c35Access{"callee app_local_get", ax + `; byte "k"; app_local_get; pop; int 1`, req})
			}
		}

		pairName := fmt.Sprintf("(%s=%s, %s)", ar.name, c35AcctName(ar.idx), rr)
		band := "callee-" + c35Band(cv)
		fp := fmt.Sprintf("inner|v%d->v%d|%s|%s|%s|%s,%s|%s", v, cv, pairName, shape, fmt.Sprint(apps, plain[:3], S), ax, rx, strings.Join(g.render(), "|"))
		pairs, refused := 0, 0
		var recs []c35PairRec
		for _, f := range forms {
			callee, ok := c35Asm(cv, f.Src)
			if !ok {
				vk.Labelf("callee-form-absent:%s:%s", band, f.Name)
				continue
			}
			env := c35Env{BoxOpen: true,
				AppApproval: map[basics.AppIndex][]byte{c35AppIDs[Q]: callee},
				AppClear:    map[basics.AppIndex][]byte{c35AppIDs[Q]: c35Trivial(cv)}}
			res, herr := c35Run(g, v, caller, env)
			if herr != nil {
				vk.Excluded("harness: " + herr.Error())
				continue
			}
			vk.Add("program-evaluations", 1)
			if res.ok() {
				t.Fatalf("C35 violated: v%d caller's inner call to a v%d callee read %s although no transaction of the group names both\n  inner call: %s\n  caller: %s\n  callee (%s): %s\n  group:\n    %s",
					v, cv, pairName, shape, cb.String(), f.Name, f.Src, strings.Join(g.render(), "\n    "))
			}
			refused++
			if e := res.Err; e != nil {
				switch {
				case strings.Contains(e.Error(), "would be accessible"):
					vk.Labelf("refused-at:itxn_submit:%s", band)
				case strings.Contains(e.Error(), "unavailable"):
					vk.Labelf("refused-at:callee-access:%s", band)
				default:
					vk.Labelf("refused-at:other:%s", band)
				}
			}
			sib := g.clone()
			how := ""
			if c35Chance(t, "sibling-extra-txn?", 50) {
				how = c35AddOther(t, sib, f.Req)
			}
			if how == "" {
				tx := &sib.Txns[x2]
				apos := uint64(1) // a* is the first entry of that provider
				if rr == "asset" {
					tx.Access = append(tx.Access, transactions.ResourceRef{Asset: c35AssetIDs[S]})
					tx.Access = append(tx.Access, transactions.ResourceRef{Holding: transactions.HoldingRef{Address: apos, Asset: uint64(len(tx.Access))}})
				} else {
					tx.Access = append(tx.Access, transactions.ResourceRef{App: c35AppIDs[rApp]})
					tx.Access = append(tx.Access, transactions.ResourceRef{Locals: transactions.LocalsRef{Address: apos, App: uint64(len(tx.Access))}})
				}
				how = "provider-access-list-names-both"
			}
			res2, herr := c35Run(sib, v, caller, env)
			if herr != nil {
				vk.Labelf("sibling-not-wellformed:%s", how)
				continue
			}
			vk.Add("program-evaluations", 1)
			if res2.ok() {
				pairs++
				recs = append(recs, c35PairRec{Form: f.Name, How: how})
				vk.Labelf("pair:%s", f.Name)
				vk.Labelf("inner-pairs-in:%s:%s x %s", band, ar.name, rr)
				vk.Labelf("jointly-named-by:%s", how)
			} else {
				vk.Labelf("sibling-still-fails:%s:%s x %s:%s", band, ar.name, rr, how)
				if vkEnv("C35_DEBUG", "") != "" {
					fmt.Printf("C35DEBUG inner sibling fails v%d->v%d %s %s how=%s err=%v\n  caller: %s\n  callee: %s\n  sib: %s\n", v, cv, pairName, f.Name, how, res2.Err, cb.String(), f.Src, strings.Join(sib.render(), " | "))
				}
			}
		}
		vk.Add("pairs", int64(pairs))
		vk.Add("failed-accesses", int64(refused))
		vk.Labelf("case:inner:%s", band)
		nt := pairs > 0
		vk.Case(nt, fp)
		if vk.WantSample(nt) {
			vk.Sample(nt, c35InnerSample{Caller: v, Callee: cv, Pair: pairName, Inner: shape, Group: g.render(), Pairs: recs, Refused: refused})
		}
	})
}
