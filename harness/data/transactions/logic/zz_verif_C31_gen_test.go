package logic

// Engine D (shared by C31 and C33): table-driven AVM program generator.
//
// Everything here reads the live opcode tables (opsByOpcode, OpSpec.Immediates, FieldGroup specs) so a change to the
// tables changes what is generated. Programs are built as a list of symbolic instructions (c31Ins) with instruction-index
// branch targets; c31Encode lays them out (own encoder, independent of the assembler, including the fixed point needed
// for v13+ varint branches). All randomness comes from a c31Src (rapid draws, or bytes of a fuzz input).

import (
	"bytes"
	"encoding/binary"
	"encoding/hex"
	"fmt"
	"math"
	"strings"
	"sync"

	bls12381 "github.com/consensys/gnark-crypto/ecc/bls12-381"
	"github.com/consensys/gnark-crypto/ecc/bn254"

	"github.com/algorand/go-algorand/data/basics"
)

// ---------------------------------------------------------------------------------------------------------------------
// choice sources

type c31Src interface {
	N(n int) int // uniform in [0,n)
	U64() uint64
}

// c31PRNG is a splitmix64 stream. rapid's own integer generators are deliberately biased towards small values and
// range boundaries, which wrecks a weighted choice tree (measured: an 8% branch was taken 40% of the time), so rapid
// only supplies the seeds and every choice below comes from this uniform stream. Failing cases are minimised by
// c31MinimizeIns / c31MinimizeBytes instead of rapid's shrinker.
type c31PRNG struct{ x uint64 }

func c31NewPRNG(seed uint64) *c31PRNG { return &c31PRNG{x: seed*0x9e3779b97f4a7c15 + 0x1234567} }

func (p *c31PRNG) U64() uint64 {
	p.x += 0x9e3779b97f4a7c15
	z := p.x
	z = (z ^ (z >> 30)) * 0xbf58476d1ce4e5b9
	z = (z ^ (z >> 27)) * 0x94d049bb133111eb
	return z ^ (z >> 31)
}

func (p *c31PRNG) N(n int) int {
	if n <= 1 {
		return 0
	}
	return int(p.U64() % uint64(n))
}

// c31ByteSrc consumes a byte string (fuzz input); when exhausted every choice is 0.
type c31ByteSrc struct {
	b []byte
	i int
}

func (s *c31ByteSrc) next() byte {
	if s.i >= len(s.b) {
		return 0
	}
	x := s.b[s.i]
	s.i++
	return x
}
func (s *c31ByteSrc) N(n int) int {
	if n <= 1 {
		return 0
	}
	if n <= 256 {
		return int(s.next()) % n
	}
	return (int(s.next())<<8 | int(s.next())) % n
}
func (s *c31ByteSrc) U64() uint64 {
	var x uint64
	for k := 0; k < 8; k++ {
		x = x<<8 | uint64(s.next())
	}
	return x
}

// c31Fill fills b deterministically from one drawn word (splitmix64); style: 0 random, 1 zeros, 2 0xff, 3 ascii.
func c31Fill(s c31Src, b []byte) {
	if len(b) == 0 {
		return
	}
	switch s.N(4) {
	case 1:
		return
	case 2:
		for i := range b {
			b[i] = 0xff
		}
		return
	}
	x := s.U64()
	for i := range b {
		x += 0x9e3779b97f4a7c15
		z := x
		z = (z ^ (z >> 30)) * 0xbf58476d1ce4e5b9
		z = (z ^ (z >> 27)) * 0x94d049bb133111eb
		b[i] = byte(z ^ (z >> 31))
	}
}

func c31Pct(s c31Src, pct int) bool { return s.N(100) < pct }

// ---------------------------------------------------------------------------------------------------------------------
// symbolic instructions

type c31Imm struct {
	kind immKind
	b    byte     // immByte, immInt8
	u    uint64   // immInt
	bs   []byte   // immBytes
	us   []uint64 // immInts
	bss  [][]byte // immBytess
	tgt  int      // immLabel, immVarintLabel: target instruction index, len(ins) == end of program
	tgts []int    // immLabels
	// hostile raw offset instead of a resolved target (immLabel / immVarintLabel only)
	raw    bool
	rawOff int64
}

type c31Ins struct {
	spec *OpSpec
	imms []c31Imm
	raw  []byte // spec == nil: literal bytes (may be empty: placeholder)
}

func c31Uvarint(u uint64) []byte {
	var buf [binary.MaxVarintLen64]byte
	n := binary.PutUvarint(buf[:], u)
	return append([]byte(nil), buf[:n]...)
}

func c31VarintLen(x int64) int {
	var buf [binary.MaxVarintLen64]byte
	return binary.PutVarint(buf[:], x)
}

// c31PaddedVarint encodes x as a (possibly non-minimal) signed varint of exactly n bytes (n >= minimal length).
func c31PaddedVarint(x int64, n int) []byte {
	var buf [binary.MaxVarintLen64]byte
	m := binary.PutVarint(buf[:], x)
	out := append([]byte(nil), buf[:m]...)
	for len(out) < n && len(out) < binary.MaxVarintLen64 {
		out[len(out)-1] |= 0x80
		out = append(out, 0)
	}
	return out
}

// c31Encode lays the instructions out after the version byte. Returns the program and the byte offset of every
// instruction (offs[len(ins)] == len(program)).
func c31Encode(version uint64, ins []c31Ins) ([]byte, []int) {
	n := len(ins)
	vsize := make([][]int, n) // sizes of varint label immediates, per instruction per immediate
	for i := range ins {
		vsize[i] = make([]int, len(ins[i].imms))
		for k := range ins[i].imms {
			if ins[i].imms[k].kind == immVarintLabel {
				vsize[i][k] = 1
				if ins[i].imms[k].raw {
					vsize[i][k] = c31VarintLen(ins[i].imms[k].rawOff)
				}
			}
		}
	}
	vlen := len(c31Uvarint(version))
	offs := make([]int, n+1)
	size := func(i int) int {
		in := &ins[i]
		if in.spec == nil {
			return len(in.raw)
		}
		sz := 1
		if in.spec.SubOpcode != 0 {
			sz++
		}
		for k := range in.imms {
			im := &in.imms[k]
			switch im.kind {
			case immByte, immInt8:
				sz++
			case immLabel:
				sz += 2
			case immInt:
				sz += len(c31Uvarint(im.u))
			case immBytes:
				sz += len(c31Uvarint(uint64(len(im.bs)))) + len(im.bs)
			case immInts:
				sz += len(c31Uvarint(uint64(len(im.us))))
				for _, u := range im.us {
					sz += len(c31Uvarint(u))
				}
			case immBytess:
				sz += len(c31Uvarint(uint64(len(im.bss))))
				for _, b := range im.bss {
					sz += len(c31Uvarint(uint64(len(b)))) + len(b)
				}
			case immLabels:
				sz += 1 + 2*len(im.tgts)
			case immVarintLabel:
				sz += vsize[i][k]
			}
		}
		return sz
	}
	layout := func() {
		pos := vlen
		for i := 0; i < n; i++ {
			offs[i] = pos
			pos += size(i)
		}
		offs[n] = pos
	}
	tgtPos := func(t int) int {
		if t < 0 {
			t = 0
		}
		if t > n {
			t = n
		}
		return offs[t]
	}
	varOff := func(i, k int) int64 {
		im := &ins[i].imms[k]
		if im.raw {
			return im.rawOff
		}
		pc := offs[i]
		tp := tgtPos(im.tgt)
		if tp < pc {
			return int64(tp - pc)
		}
		// forward (or self-relative non-negative): measured from the end of the instruction
		end := offs[i] + size(i)
		if tp < end { // target inside/at own start: only tp == pc possible (tp>=pc) -> use negative form 0? pc-pc = 0 is "forward 0"
			return int64(tp - pc) // == 0 here: jumps to end of instruction; harmless
		}
		return int64(tp - end)
	}
	for iter := 0; iter < 64; iter++ {
		layout()
		changed := false
		for i := range ins {
			for k := range ins[i].imms {
				if ins[i].imms[k].kind != immVarintLabel || ins[i].imms[k].raw {
					continue
				}
				need := c31VarintLen(varOff(i, k))
				if need > vsize[i][k] { // grow only: guarantees termination; padded encoding fills any slack
					vsize[i][k] = need
					changed = true
				}
			}
		}
		if !changed {
			break
		}
	}
	layout()
	out := make([]byte, 0, offs[n])
	out = append(out, c31Uvarint(version)...)
	for i := range ins {
		in := &ins[i]
		if in.spec == nil {
			out = append(out, in.raw...)
			continue
		}
		out = append(out, in.spec.Opcode)
		if in.spec.SubOpcode != 0 {
			out = append(out, in.spec.SubOpcode)
		}
		end := offs[i] + size(i)
		for k := range in.imms {
			im := &in.imms[k]
			switch im.kind {
			case immByte, immInt8:
				out = append(out, im.b)
			case immLabel:
				off := int64(tgtPos(im.tgt) - end)
				if im.raw {
					off = im.rawOff
				}
				out = append(out, byte(uint16(off)>>8), byte(uint16(off)))
			case immInt:
				out = append(out, c31Uvarint(im.u)...)
			case immBytes:
				out = append(out, c31Uvarint(uint64(len(im.bs)))...)
				out = append(out, im.bs...)
			case immInts:
				out = append(out, c31Uvarint(uint64(len(im.us)))...)
				for _, u := range im.us {
					out = append(out, c31Uvarint(u)...)
				}
			case immBytess:
				out = append(out, c31Uvarint(uint64(len(im.bss)))...)
				for _, b := range im.bss {
					out = append(out, c31Uvarint(uint64(len(b)))...)
					out = append(out, b...)
				}
			case immLabels:
				out = append(out, byte(len(im.tgts)))
				for _, t := range im.tgts {
					off := tgtPos(t) - end
					out = append(out, byte(uint16(off)>>8), byte(uint16(off)))
				}
			case immVarintLabel:
				out = append(out, c31PaddedVarint(varOff(i, k), vsize[i][k])...)
			}
		}
	}
	return out, offs
}

// ---------------------------------------------------------------------------------------------------------------------
// per-version tables derived from the live opcode tables

type c31VerOps struct {
	all    []*OpSpec
	byName map[string]*OpSpec
	list   [2][]*OpSpec // [0] signature mode, [1] application mode
	cum    [2][]int     // cumulative weights
}

var c31TablesOnce sync.Once
var c31Tables [LogicVersion + 1]*c31VerOps

// ops that index, slice, allocate, recurse or touch state get a higher weight (DESIGN C31 domain).
var c31Heavy = []string{"substring", "extract", "replace", "box_", "app_box_", "bzero", "concat", "b+", "b-", "b*", "b/", "b%",
	"b|", "b&", "b^", "b~", "bsqrt", "json_ref", "base64_decode", "ec_", "switch", "match", "itxn", "gitxn",
	"dupn", "popn", "select", "gload", "setbit", "getbit", "setbyte", "getbyte", "pushbytess", "pushints", "mimc",
	"poseidon2", "sumhash512", "dig", "cover", "uncover", "bury", "txna", "gtxna", "txnas", "args", "loads", "stores",
	"app_local", "app_global", "asset_", "app_params", "acct_params", "log", "divw", "divmodw", "expw", "exp", "shl", "shr",
	"btoi", "itob", "sqrt", "bitlen", "len", "block", "gaid"}

func c31Weight(sp *OpSpec) int {
	switch sp.Name {
	case "err", "return":
		return 1
	case "proto", "retsub", "callsub", "b", "bz", "bnz", "intcblock", "bytecblock":
		return 2
	case "ed25519verify", "ed25519verify_bare", "ecdsa_verify", "ecdsa_pk_recover", "ecdsa_pk_decompress", "vrf_verify", "falcon_verify":
		return 2
	}
	for _, h := range c31Heavy {
		if strings.HasPrefix(sp.Name, h) {
			return 12
		}
	}
	return 4
}

func c31Table(v uint64) *c31VerOps {
	c31TablesOnce.Do(func() {
		for ver := 0; ver <= LogicVersion; ver++ {
			t := &c31VerOps{byName: map[string]*OpSpec{}}
			add := func(sp *OpSpec) {
				if sp.op == nil {
					return
				}
				t.all = append(t.all, sp)
				t.byName[sp.Name] = sp
				for m, mode := range []RunMode{ModeSig, ModeApp} {
					if sp.Modes&mode != 0 {
						t.list[m] = append(t.list[m], sp)
						last := 0
						if len(t.cum[m]) > 0 {
							last = t.cum[m][len(t.cum[m])-1]
						}
						t.cum[m] = append(t.cum[m], last+c31Weight(sp))
					}
				}
			}
			for b := 0; b < 256; b++ {
				sp := &opsByOpcode[ver][b]
				add(sp)
				for k := range sp.SubOps {
					add(&sp.SubOps[k])
				}
			}
			c31Tables[ver] = t
		}
	})
	if v > LogicVersion {
		v = LogicVersion
	}
	return c31Tables[v]
}

func c31ModeIdx(m RunMode) int {
	if m == ModeApp {
		return 1
	}
	return 0
}

func (t *c31VerOps) pick(s c31Src, m RunMode) *OpSpec {
	mi := c31ModeIdx(m)
	cum := t.cum[mi]
	if len(cum) == 0 {
		return nil
	}
	x := s.N(cum[len(cum)-1])
	lo, hi := 0, len(cum)-1
	for lo < hi {
		mid := (lo + hi) / 2
		if cum[mid] > x {
			hi = mid
		} else {
			lo = mid + 1
		}
	}
	return t.list[mi][lo]
}

type c31FieldKey struct {
	g *FieldGroup
	v uint64
}

var c31FieldMu sync.Mutex
var c31FieldCache = map[c31FieldKey][]byte{}

// c31ValidFields lists the field values of the group that are named and available at version v.
func c31ValidFields(g *FieldGroup, v uint64) []byte {
	c31FieldMu.Lock()
	defer c31FieldMu.Unlock()
	k := c31FieldKey{g, v}
	if r, ok := c31FieldCache[k]; ok {
		return r
	}
	var r []byte
	for i, name := range g.Names {
		if name == "" || i > 255 {
			continue
		}
		fs, ok := g.SpecByName(name)
		if !ok || fs.Version() > v {
			continue
		}
		r = append(r, byte(i))
	}
	c31FieldCache[k] = r
	return r
}

// ---------------------------------------------------------------------------------------------------------------------
// interesting values

var c31IntPool = []uint64{0, 1, 2, 3, 4, 5, 6, 7, 8, 9, 10, 15, 16, 31, 32, 33, 55, 56, 63, 64, 65, 77, 100, 111, 127, 128, 255, 256,
	300, 400, 511, 512, 888, 999, 1000, 1001, 1024, 2047, 2048, 4095, 4096, 4097, 5000, 5001, 8191, 8192, 32767, 32768, 65535, 65536,
	1 << 31, 1<<32 - 1, 1 << 32, 1<<32 + 3, 1<<32 + 4, 1<<32 + 5, 1<<63 - 1, 1 << 63, math.MaxUint64 - 1, math.MaxUint64}

var c31KnownIDs = []uint64{888, 56, 100, 111, 55, 77, 10, 33, 34, 5000, 300, 400}

var c31LenPool = []int{0, 1, 2, 3, 4, 7, 8, 9, 16, 31, 32, 33, 48, 63, 64, 65, 80, 96, 127, 128, 129, 192, 255, 256, 1000, 1024, 1793, 4095, 4096}

var c31BoxNames = []string{"self", "other", "b1", "3", "big"}
var c31Keys = []string{"k", "key1", "aoeu", "3456", ""}

var c31JSON = []string{
	`{"k": 7, "s": "x", "o": {"a": 1, "b": [1,2,3]}, "big": 18446744073709551615}`,
	`{"k": "v"}`,
	`{"k": 18446744073709551616}`,
	`{"k": -1, "k2": 1.5}`,
	`{"k": 1, "k": 2}`,
	`{"k": {"k": {"k": {"k": {"k": {"k": {"k": {"k": {"k": {"k": {"k": {"k": {"k": {"k": {"k": {"k": {"k": {"k": {"k": {"k": {"k": {"k": {"k": {"k": {"k": {"k": {"k": {"k": {"k": {"k": {"k": {"k": {"k": 1}}}}}}}}}}}}}}}}}}}}}}}}}}}}}}}}}`,
	`[1,2,3]`, `{`, ``, `{"k": "\ud800"}`, `{"k":"\u0000"}`, `{"s": "` + strings.Repeat("a", 300) + `"}`, `null`, `{"k": null}`, "\xff\xfe{\"k\":1}",
}

var c31B64 = []string{"", "QQ==", "QUJD", "QUJDRA", "////", "____", "-_-_", "Q", "QQ=", "QQ==\n", "QUJD\r\nQUJD", "!!!!", strings.Repeat("QUJD", 100)}

var c31AddrOnce sync.Once
var c31AddrList [][]byte

func c31Addrs() [][]byte {
	c31AddrOnce.Do(func() {
		for i := 0; i <= 10; i++ {
			c31AddrList = append(c31AddrList, []byte(fmt.Sprintf("aoeuiaoeuiaoeuiaoeuiaoeuiaoeui%02d", i)))
		}
		for _, id := range []uint64{888, 56, 100, 111, 5000} {
			a := basics.AppIndex(id).Address()
			c31AddrList = append(c31AddrList, append([]byte(nil), a[:]...))
		}
		c31AddrList = append(c31AddrList, make([]byte, 32))
	})
	return c31AddrList
}

var c31ECOnce sync.Once
var c31ECGood [4][]byte // valid generator encodings indexed by EcGroup (BN254g1, BN254g2, BLS12_381g1, BLS12_381g2)

func c31ECPoints() [4][]byte {
	c31ECOnce.Do(func() {
		_, _, g1, g2 := bn254.Generators()
		c31ECGood[BN254g1] = bn254G1ToBytes(&g1)
		c31ECGood[BN254g2] = bn254G2ToBytes(&g2)
		_, _, h1, h2 := bls12381.Generators()
		c31ECGood[BLS12_381g1] = bls12381G1ToBytes(&h1)
		c31ECGood[BLS12_381g2] = bls12381G2ToBytes(&h2)
	})
	return c31ECGood
}

func c31ECSize(g int) int {
	switch EcGroup(g) {
	case BN254g1:
		return 64
	case BN254g2:
		return 128
	case BLS12_381g1:
		return 96
	case BLS12_381g2:
		return 192
	}
	return 64
}

func c31Int(s c31Src) uint64 {
	switch s.N(10) {
	case 0, 1, 2, 3:
		return uint64(s.N(6))
	case 4, 5:
		return c31KnownIDs[s.N(len(c31KnownIDs))]
	case 6, 7, 8:
		return c31IntPool[s.N(len(c31IntPool))]
	default:
		// random width, but not 30..48 bits: should a size check ever be missing, such a value makes the runtime
		// die of memory exhaustion (unrecoverable, so undecidable here) instead of panicking in makeslice
		k := s.N(65)
		if k == 0 {
			return 0
		}
		if k >= 30 && k <= 48 {
			k += 19
		}
		if k > 64 {
			k = 64
		}
		return s.U64() >> uint(64-k)
	}
}

// c31IntNear picks an int relative to a known byte length L (indexes, lengths, bit positions): mostly inside
// [0,L], sometimes on or just past an edge.
func c31IntNear(s c31Src, L int) uint64 {
	if c31Pct(s, 65) {
		return uint64(s.N(L + 1))
	}
	c := []int64{0, 1, int64(L) - 1, int64(L), int64(L) + 1, int64(L) / 2, int64(L) - 8, int64(L) - 4, int64(L) - 2, 8*int64(L) - 1, 8 * int64(L), 8*int64(L) + 1}
	x := c[s.N(len(c))]
	if x < 0 {
		x = 0
	}
	return uint64(x)
}

func c31Len(s c31Src, lo, hi uint64) int {
	if lo == hi {
		if c31Pct(s, 96) {
			return int(lo)
		}
		if s.N(2) == 0 && lo > 0 {
			return int(lo) - 1
		}
		return int(lo) + 1
	}
	if hi > 4096 {
		hi = 4096
	}
	if c31Pct(s, 3) { // just outside
		if s.N(2) == 0 && lo > 0 {
			return int(lo) - 1
		}
		return int(hi) + 1
	}
	for try := 0; try < 4; try++ {
		l := c31LenPool[s.N(len(c31LenPool))]
		if uint64(l) >= lo && uint64(l) <= hi {
			return l
		}
	}
	return int(lo) + s.N(int(hi-lo)+1)
}

// ---------------------------------------------------------------------------------------------------------------------
// generator

type c31Abs struct {
	t avmType
	n int // known byte length, or -1
}

type c31Pending struct {
	ins, imm, lab int // lab >= 0: index into tgts
	groups        int // resolve after this many more groups
}

type c31Gen struct {
	s        c31Src
	v        uint64
	mode     RunMode
	tab      *c31VerOps
	ins      []c31Ins
	stk      []c31Abs
	intc     []uint64
	bytec    [][]byte
	useCB    bool
	nGroup   int
	pending  []c31Pending
	lastLen  int // byte length of the most recent bytes argument pushed for the current op (-1 unknown)
	wild     int // percent of ops emitted without argument set-up
	litCap   int // cap on literal byte constants
	insLimit int
	approve  []byte // small approving program for inner app creation
	strict   bool   // only emit what the assembler accepts (C33): valid field names, resolvable labels, no hostile immediates
}

func c31NewGen(s c31Src, v uint64, mode RunMode, nGroup int) *c31Gen {
	g := &c31Gen{s: s, v: v, mode: mode, tab: c31Table(v), nGroup: nGroup, lastLen: -1, litCap: 300, insLimit: 400}
	g.useCB = v < 3 || c31Pct(s, 15)
	// two placeholders for intcblock / bytecblock
	g.ins = append(g.ins, c31Ins{}, c31Ins{})
	av := v
	if av < 4 {
		av = 4
	}
	g.approve = append(c31Uvarint(av), 0x81, 0x01) // pushint 1
	return g
}

func (g *c31Gen) spec(name string) *OpSpec { return g.tab.byName[name] }

func (g *c31Gen) emit(sp *OpSpec, imms ...c31Imm) int {
	g.ins = append(g.ins, c31Ins{spec: sp, imms: imms})
	return len(g.ins) - 1
}

func (g *c31Gen) push(t avmType, n int) { g.stk = append(g.stk, c31Abs{t, n}) }
func (g *c31Gen) pop(k int) {
	if k > len(g.stk) {
		k = len(g.stk)
	}
	g.stk = g.stk[:len(g.stk)-k]
}

func (g *c31Gen) pushInt(u uint64) {
	if sp := g.spec("pushint"); sp != nil && !g.useCB {
		g.emit(sp, c31Imm{kind: immInt, u: u})
	} else {
		idx := -1
		for i, x := range g.intc {
			if x == u {
				idx = i
				break
			}
		}
		if idx < 0 {
			if len(g.intc) < 250 {
				g.intc = append(g.intc, u)
				idx = len(g.intc) - 1
			} else {
				idx = g.s.N(len(g.intc))
			}
		}
		g.emitConstLoad("intc", idx)
	}
	g.push(avmUint64, -1)
}

func (g *c31Gen) emitConstLoad(base string, idx int) {
	if idx < 4 && g.s.N(2) == 0 {
		if sp := g.spec(fmt.Sprintf("%s_%d", base, idx)); sp != nil {
			g.emit(sp)
			return
		}
	}
	if sp := g.spec(base); sp != nil {
		g.emit(sp, c31Imm{kind: immByte, b: byte(idx)})
	}
}

func (g *c31Gen) pushBytes(b []byte) {
	if sp := g.spec("pushbytes"); sp != nil && !g.useCB {
		g.emit(sp, c31Imm{kind: immBytes, bs: b})
	} else {
		idx := -1
		for i, x := range g.bytec {
			if string(x) == string(b) {
				idx = i
				break
			}
		}
		if idx < 0 {
			if len(g.bytec) < 250 {
				g.bytec = append(g.bytec, b)
				idx = len(g.bytec) - 1
			} else {
				idx = g.s.N(len(g.bytec))
			}
		}
		g.emitConstLoad("bytec", idx)
	}
	g.push(avmBytes, len(b))
}

// pushBytesLen pushes a byte string of length n (literal when small, bzero when large and available).
func (g *c31Gen) pushBytesLen(n int) {
	if n < 0 {
		n = 0
	}
	if n > g.litCap || (n > 64 && c31Pct(g.s, 30)) {
		if bz := g.spec("bzero"); bz != nil {
			g.pushInt(uint64(n))
			g.emit(bz)
			g.pop(1)
			g.push(avmBytes, n)
			return
		}
		if n > g.litCap {
			n = g.litCap
		}
	}
	b := make([]byte, n)
	c31Fill(g.s, b)
	g.pushBytes(b)
}

// pushArg pushes one argument of the declared StackType. Records g.lastLen for bytes.
func (g *c31Gen) pushArg(st StackType) {
	s := g.s
	t := st.AVMType
	if t == avmAny {
		if s.N(2) == 0 {
			t = avmUint64
		} else {
			st = StackAddress
			t = avmBytes
		}
	}
	switch t {
	case avmUint64:
		var u uint64
		switch {
		case st.Bound[1] <= 1 && st.Bound[1] >= st.Bound[0] && st.Name != StackUint64.Name:
			u = uint64(s.N(2))
			if c31Pct(s, 5) {
				u = c31Int(s)
			}
		case g.lastLen >= 0 && c31Pct(s, 60):
			u = c31IntNear(s, g.lastLen)
		default:
			u = c31Int(s)
		}
		g.pushInt(u)
	case avmBytes:
		switch {
		case st.Name == "address" && c31Pct(s, 75):
			a := c31Addrs()
			g.pushBytes(a[s.N(len(a))])
			g.lastLen = 32
		case st.Name == "boxName" && c31Pct(s, 75):
			nm := c31BoxNames[s.N(len(c31BoxNames))]
			g.pushBytes([]byte(nm))
			g.lastLen = len(nm)
		case st.Name == "stateKey" && c31Pct(s, 75):
			nm := c31Keys[s.N(len(c31Keys))]
			g.pushBytes([]byte(nm))
			g.lastLen = len(nm)
		default:
			n := c31Len(s, st.Bound[0], st.Bound[1])
			g.pushBytesLen(n)
			g.lastLen = n
		}
	}
}

func (g *c31Gen) fieldImm(grp *FieldGroup) byte {
	if g.strict || c31Pct(g.s, 94) {
		vf := c31ValidFields(grp, g.v)
		if len(vf) > 0 {
			return vf[g.s.N(len(vf))]
		}
	}
	if g.strict { // no field of this group exists at this version: any named one (the assembler will object, rarely)
		for i, n := range grp.Names {
			if n != "" {
				return byte(i)
			}
		}
	}
	if c31Pct(g.s, 50) {
		return byte(len(grp.Names) + g.s.N(3) - 1)
	}
	return byte(g.s.N(256))
}

func (g *c31Gen) byteImm(sp *OpSpec, im *immediate) byte {
	s := g.s
	if im.Group != nil {
		return g.fieldImm(im.Group)
	}
	if im.kind == immInt8 {
		if c31Pct(s, 90) {
			return byte(int8(s.N(9) - 4))
		}
		return byte(s.N(256))
	}
	if c31Pct(s, 4) {
		return byte(s.N(256))
	}
	switch im.Name {
	case "t":
		if c31Pct(s, 92) {
			return byte(s.N(g.nGroup))
		}
		return byte(g.nGroup + s.N(2))
	case "s", "e", "l":
		if g.lastLen >= 0 && c31Pct(s, 70) {
			x := c31IntNear(s, g.lastLen)
			if x > 255 {
				x = 255
			}
			return byte(x)
		}
		return byte(s.N(12))
	case "n":
		d := len(g.stk)
		switch sp.Name {
		case "dupn", "popn":
			if c31Pct(s, 15) {
				return byte([]int{100, 200, 255}[s.N(3)])
			}
			return byte(s.N(5))
		case "arg":
			return byte(s.N(4))
		}
		if d > 0 && c31Pct(s, 85) {
			return byte(s.N(d + 1))
		}
		return byte(s.N(4))
	case "a", "r":
		return byte(s.N(4))
	}
	return byte(s.N(6))
}

// genImms draws well-formed immediates for sp. Labels become pending forward references unless back is set.
func (g *c31Gen) genImms(sp *OpSpec, insIdx int) []c31Imm {
	s := g.s
	imms := make([]c31Imm, len(sp.Immediates))
	for k := range sp.Immediates {
		im := &sp.Immediates[k]
		out := c31Imm{kind: im.kind}
		switch im.kind {
		case immByte, immInt8:
			out.b = g.byteImm(sp, im)
		case immInt:
			out.u = c31Int(s)
		case immBytes:
			n := c31Len(s, 0, 128)
			if n > g.litCap {
				n = g.litCap
			}
			out.bs = make([]byte, n)
			c31Fill(s, out.bs)
		case immInts:
			n := s.N(6)
			if c31Pct(s, 4) {
				n = 250 + s.N(10)
			}
			for i := 0; i < n; i++ {
				out.us = append(out.us, c31Int(s))
			}
		case immBytess:
			n := s.N(5)
			if c31Pct(s, 3) {
				n = 250 + s.N(10)
			}
			for i := 0; i < n; i++ {
				l := c31Len(s, 0, 64)
				if n > 10 {
					l = s.N(3)
				}
				b := make([]byte, l)
				c31Fill(s, b)
				out.bss = append(out.bss, b)
			}
		case immLabel, immVarintLabel:
			out.tgt = g.labelTarget(insIdx, k, -1)
		case immLabels:
			n := s.N(5)
			if c31Pct(s, 3) {
				n = 255
			}
			out.tgts = make([]int, n)
			for i := range out.tgts {
				out.tgts[i] = g.labelTarget(insIdx, k, i)
			}
		}
		imms[k] = out
	}
	if g.strict && sp.Name == "substring" && len(imms) == 2 && imms[0].b > imms[1].b {
		imms[0].b, imms[1].b = imms[1].b, imms[0].b // the assembler rejects end < start
	}
	return imms
}

// labelTarget returns a back target (an existing instruction) or registers a pending forward reference.
func (g *c31Gen) labelTarget(insIdx, imm, lab int) int {
	s := g.s
	if g.strict {
		if g.v >= backBranchEnabledVersion && c31Pct(s, 15) && insIdx > 2 {
			return 2 + s.N(insIdx-2) // strictly backward: a varint branch cannot name itself
		}
	} else {
		if g.v >= backBranchEnabledVersion && c31Pct(s, 12) && insIdx > 2 {
			return 2 + s.N(insIdx-1) // backward (or self)
		}
		if g.v < backBranchEnabledVersion && c31Pct(s, 3) && insIdx > 2 {
			return 2 + s.N(insIdx-1)
		}
	}
	g.pending = append(g.pending, c31Pending{ins: insIdx, imm: imm, lab: lab, groups: s.N(4)})
	return -1
}

func (g *c31Gen) endGroup() {
	keep := g.pending[:0]
	for _, p := range g.pending {
		if p.groups <= 0 {
			g.resolve(p, len(g.ins))
			continue
		}
		p.groups--
		keep = append(keep, p)
	}
	g.pending = keep
}

func (g *c31Gen) resolve(p c31Pending, tgt int) {
	im := &g.ins[p.ins].imms[p.imm]
	if p.lab >= 0 {
		im.tgts[p.lab] = tgt
	} else {
		im.tgt = tgt
	}
}

// effect applies the abstract stack effect of sp (after its args were pushed).
func (g *c31Gen) effect(sp *OpSpec, imms []c31Imm) {
	switch sp.Name {
	case "popn":
		g.pop(int(imms[0].b))
		return
	case "dupn":
		if len(g.stk) > 0 {
			top := g.stk[len(g.stk)-1]
			for i := 0; i < int(imms[0].b) && len(g.stk) < 1200; i++ {
				g.stk = append(g.stk, top)
			}
		}
		return
	case "pushints":
		for range imms[0].us {
			g.push(avmUint64, -1)
		}
		return
	case "pushbytess":
		for _, b := range imms[0].bss {
			g.push(avmBytes, len(b))
		}
		return
	case "match":
		g.pop(len(imms[0].tgts) + 1)
		return
	case "dig":
		g.push(avmAny, -1)
		return
	case "cover", "uncover", "swap":
		return
	case "bury", "frame_bury":
		g.pop(1)
		return
	case "frame_dig":
		g.push(avmAny, -1)
		return
	case "dup":
		if len(g.stk) > 0 {
			g.stk = append(g.stk, g.stk[len(g.stk)-1])
		}
		return
	case "retsub", "proto":
		return
	}
	g.pop(len(sp.Arg.Types))
	for _, rt := range sp.Return.Types {
		switch rt.AVMType {
		case avmNone:
		case avmBytes:
			n := -1
			if rt.Bound[0] == rt.Bound[1] {
				n = int(rt.Bound[0])
			}
			g.push(avmBytes, n)
		default:
			g.push(rt.AVMType, -1)
		}
	}
}

func (g *c31Gen) stackCompatible(sp *OpSpec) bool {
	k := len(sp.Arg.Types)
	if k > len(g.stk) {
		return false
	}
	base := len(g.stk) - k
	for i, at := range sp.Arg.Types {
		have := g.stk[base+i].t
		if at.AVMType != avmAny && have != avmAny && have != at.AVMType {
			return false
		}
	}
	return true
}

// genOp emits one instruction group for sp: arguments (usually), then the op with drawn immediates.
func (g *c31Gen) genOp(sp *OpSpec) {
	s := g.s
	g.lastLen = -1
	wild := c31Pct(s, g.wild)
	if !wild {
		if g.special(sp) {
			g.endGroup()
			return
		}
		fresh := !(c31Pct(s, 20) && g.stackCompatible(sp))
		if fresh {
			for _, at := range sp.Arg.Types {
				g.pushArg(at)
			}
		}
	} else if c31Pct(s, 40) {
		// deliberately ill-typed: right count, flipped types
		for _, at := range sp.Arg.Types {
			if at.AVMType == avmBytes {
				g.pushInt(c31Int(s))
			} else {
				g.pushBytesLen(c31Len(s, 0, 64))
			}
		}
	}
	idx := len(g.ins)
	g.ins = append(g.ins, c31Ins{spec: sp})
	imms := g.genImms(sp, idx)
	g.ins[idx].imms = imms
	g.effect(sp, imms)
	g.endGroup()
}

// special handles ops whose arguments must be related to each other or to an immediate to execute deeply.
// Returns true when it emitted the whole group.
func (g *c31Gen) special(sp *OpSpec) bool {
	s := g.s
	name := sp.Name
	switch {
	case name == "json_ref":
		doc := c31JSON[s.N(len(c31JSON))]
		g.pushBytes([]byte(doc))
		g.pushBytes([]byte([]string{"k", "s", "o", "big", "zz", ""}[s.N(6)]))
		g.finish(sp)
		return true
	case name == "base64_decode":
		g.pushBytes([]byte(c31B64[s.N(len(c31B64))]))
		g.finish(sp)
		return true
	case name == "mimc" || name == "poseidon2":
		n := 32 * s.N(5)
		if c31Pct(s, 10) {
			n += 1 + s.N(31)
		}
		g.pushBytesLen(n)
		g.finish(sp)
		return true
	case strings.HasPrefix(name, "ec_"):
		g.ecGroup(sp)
		return true
	case name == "switch":
		idx := len(g.ins) + 1
		_ = idx
		// index relative to the number of labels: emitted after we know n -> draw n first through genImms on a temp
		g.pushInt(uint64(s.N(6)))
		g.finish(sp)
		return true
	case name == "match":
		// n labels need n+1 values of one type
		at := len(g.ins)
		_ = at
		n := s.N(4)
		isInt := s.N(2) == 0
		for i := 0; i <= n; i++ {
			if isInt {
				g.pushInt(uint64(s.N(3)))
			} else {
				g.pushBytes([]byte{byte(s.N(3))})
			}
		}
		idx := len(g.ins)
		g.ins = append(g.ins, c31Ins{spec: sp})
		im := c31Imm{kind: immLabels, tgts: make([]int, n)}
		for i := range im.tgts {
			im.tgts[i] = g.labelTarget(idx, 0, i)
		}
		g.ins[idx].imms = []c31Imm{im}
		g.effect(sp, g.ins[idx].imms)
		return true
	case name == "itxn_field":
		g.itxnField(sp)
		return true
	case strings.HasPrefix(name, "intc") && name != "intcblock":
		for len(g.intc) < 5 {
			g.intc = append(g.intc, c31Int(s))
		}
		if name == "intc" {
			idx := s.N(len(g.intc))
			if !g.strict && c31Pct(s, 5) {
				idx = len(g.intc) + s.N(3)
			}
			g.emit(sp, c31B(byte(idx)))
		} else {
			g.emit(sp)
		}
		g.push(avmUint64, -1)
		return true
	case strings.HasPrefix(name, "bytec") && name != "bytecblock":
		for len(g.bytec) < 5 {
			b := make([]byte, c31Len(s, 0, 64))
			c31Fill(s, b)
			g.bytec = append(g.bytec, b)
		}
		if name == "bytec" {
			idx := s.N(len(g.bytec))
			if !g.strict && c31Pct(s, 5) {
				idx = len(g.bytec) + s.N(3)
			}
			g.emit(sp, c31B(byte(idx)))
		} else {
			g.emit(sp)
		}
		g.push(avmBytes, -1)
		return true
	case name == "intcblock" || name == "bytecblock":
		// a second constant block mid-program replaces the pool the generator relies on: rare
		if g.strict || c31Pct(s, 85) {
			g.generic(1)
			return true
		}
		return false
	case name == "assert":
		if c31Pct(s, 85) {
			g.pushInt(1)
		} else {
			g.pushInt(0)
		}
		g.finish(sp)
		return true
	case name == "bnz" || name == "bz":
		g.pushInt(uint64(s.N(2)))
		g.finish(sp)
		return true
	case name == "select" || name == "setbit" || name == "setbyte" || name == "getbit" || name == "getbyte":
		return false
	case name == "bzero":
		if c31Pct(s, 92) {
			g.pushInt(uint64(c31LenPool[s.N(len(c31LenPool))]))
		} else {
			g.pushInt(c31Int(s))
		}
		g.finish(sp)
		return true
	case name == "box_create" || name == "app_box_create" || name == "box_resize" || name == "app_box_resize":
		if strings.HasPrefix(name, "app_") {
			g.pushInt(c31KnownIDs[s.N(4)])
		}
		g.pushArg(StackBoxName)
		sizes := []uint64{0, 1, 10, 24, 100, 999, 1000, 1001, 4096, 32768, math.MaxUint64}
		g.pushInt(sizes[s.N(len(sizes))])
		g.finish(sp)
		return true
	}
	return false
}

// finish emits sp itself (args already pushed) with drawn immediates.
func (g *c31Gen) finish(sp *OpSpec) {
	idx := len(g.ins)
	g.ins = append(g.ins, c31Ins{spec: sp})
	imms := g.genImms(sp, idx)
	g.ins[idx].imms = imms
	g.effect(sp, imms)
}

func (g *c31Gen) ecGroup(sp *OpSpec) {
	s := g.s
	grp := int(g.fieldImm(&EcGroups))
	gsel := grp
	if gsel > 3 {
		gsel = s.N(4)
	}
	sz := c31ECSize(gsel)
	good := c31ECPoints()
	point := func(group, k int) []byte {
		var out []byte
		esz := c31ECSize(group)
		for i := 0; i < k; i++ {
			switch s.N(4) {
			case 0, 1:
				out = append(out, good[group]...)
			case 2:
				out = append(out, make([]byte, esz)...)
			default:
				b := make([]byte, esz)
				c31Fill(s, b)
				out = append(out, b...)
			}
		}
		if c31Pct(s, 8) && len(out) > 0 {
			out = out[:len(out)-1-s.N(2)]
		}
		return out
	}
	scalar := func(k int) []byte {
		n := 32 * k
		if c31Pct(s, 10) {
			n = s.N(70)
		}
		b := make([]byte, n)
		c31Fill(s, b)
		return b
	}
	switch sp.Name {
	case "ec_add":
		g.pushBytes(point(gsel, 1))
		g.pushBytes(point(gsel, 1))
	case "ec_scalar_mul":
		g.pushBytes(point(gsel, 1))
		g.pushBytes(scalar(1))
	case "ec_pairing_check":
		k := s.N(3)
		other := gsel ^ 1
		g1, g2 := gsel, other
		if gsel&1 == 1 { // the immediate names the group of the first argument
			g1, g2 = gsel, other
		}
		g.pushBytes(point(g1, k))
		g.pushBytes(point(g2, k))
	case "ec_multi_scalar_mul":
		k := s.N(4)
		g.pushBytes(point(gsel, k))
		g.pushBytes(scalar(k))
	case "ec_subgroup_check":
		g.pushBytes(point(gsel, 1))
	case "ec_map_to":
		b := make([]byte, sz/2)
		c31Fill(s, b)
		if c31Pct(s, 70) { // keep each coordinate below the field modulus
			for i := 0; i < len(b); i += 32 + 16*(gsel/2) {
				b[i] = 0
			}
		}
		if c31Pct(s, 6) && len(b) > 0 {
			b = b[:len(b)-1]
		}
		g.pushBytes(b)
	default:
		for _, at := range sp.Arg.Types {
			g.pushArg(at)
		}
	}
	idx := len(g.ins)
	g.ins = append(g.ins, c31Ins{spec: sp})
	imms := g.genImms(sp, idx)
	for k := range sp.Immediates {
		if sp.Immediates[k].Group == &EcGroups {
			imms[k].b = byte(grp)
		}
	}
	g.ins[idx].imms = imms
	g.effect(sp, imms)
}

// itxnField pushes a value of the field's declared type and emits itxn_field f.
func (g *c31Gen) itxnField(sp *OpSpec) {
	s := g.s
	f := g.fieldImm(&ItxnSettableFields)
	var ft StackType = StackAny
	if int(f) < len(ItxnSettableFields.Names) && ItxnSettableFields.Names[f] != "" {
		if fs, ok := ItxnSettableFields.SpecByName(ItxnSettableFields.Names[f]); ok {
			ft = fs.Type()
		}
	}
	name := ""
	if int(f) < len(TxnFieldNames) {
		name = TxnFieldNames[f]
	}
	switch {
	case name == "TypeEnum":
		g.pushInt(uint64(1 + s.N(6)))
	case name == "Type":
		g.pushBytes([]byte([]string{"pay", "axfer", "acfg", "afrz", "appl", "keyreg", "zz"}[s.N(7)]))
	case name == "ApprovalProgram" || name == "ClearStateProgram" || name == "ApprovalProgramPages" || name == "ClearStateProgramPages":
		g.pushBytes(g.approve)
	case name == "OnCompletion":
		g.pushInt(uint64(s.N(6)))
	case name == "Fee" || name == "Amount" || name == "AssetAmount":
		g.pushInt([]uint64{0, 1, 1000, 1001, 2000, 1 << 40, math.MaxUint64}[s.N(7)])
	default:
		g.pushArg(ft)
	}
	g.ins = append(g.ins, c31Ins{spec: sp, imms: []c31Imm{{kind: immByte, b: f}}})
	g.pop(1)
}

// ---- templates

func (g *c31Gen) op(name string, imms ...c31Imm) bool {
	sp := g.spec(name)
	if sp == nil {
		return false
	}
	g.emit(sp, imms...)
	return true
}

func c31B(b byte) c31Imm { return c31Imm{kind: immByte, b: b} }

func (g *c31Gen) labelKind(name string) immKind {
	if sp := g.spec(name); sp != nil && len(sp.Immediates) == 1 {
		return sp.Immediates[0].kind
	}
	return immLabel
}

func (g *c31Gen) generic(n int) {
	for i := 0; i < n && len(g.ins) < g.insLimit; i++ {
		if sp := g.tab.pick(g.s, g.mode); sp != nil {
			g.genOp(sp)
		}
	}
}

// tmplSub: args; callsub F; b over; F: proto a r; body; results; retsub; over:
func (g *c31Gen) tmplSub(depth int) {
	s := g.s
	cs, rs, bb := g.spec("callsub"), g.spec("retsub"), g.spec("b")
	if cs == nil || rs == nil || bb == nil {
		g.generic(3)
		return
	}
	a, r := s.N(4), s.N(4)
	for i := 0; i < a; i++ {
		g.pushArg(StackAny)
	}
	if c31Pct(s, 10) && a > 0 {
		g.op("pop")
	}
	callIdx := g.emit(cs, c31Imm{kind: g.labelKind("callsub")})
	overIdx := g.emit(bb, c31Imm{kind: g.labelKind("b")})
	g.ins[callIdx].imms[0].tgt = len(g.ins)
	fStart := len(g.ins)
	if pr := g.spec("proto"); pr != nil && c31Pct(s, 85) {
		pa, prr := a, r
		if c31Pct(s, 10) {
			pa = s.N(6)
		}
		if c31Pct(s, 10) {
			prr = s.N(6)
		}
		g.emit(pr, c31B(byte(pa)), c31B(byte(prr)))
	}
	body := 1 + s.N(4)
	for i := 0; i < body; i++ {
		switch s.N(6) {
		case 0, 1:
			if fd := g.spec("frame_dig"); fd != nil {
				g.emit(fd, c31Imm{kind: immInt8, b: byte(int8(s.N(a+r+3) - a - 1))})
				g.push(avmAny, -1)
				continue
			}
			g.generic(1)
		case 2:
			if fb := g.spec("frame_bury"); fb != nil {
				g.pushArg(StackAny)
				g.emit(fb, c31Imm{kind: immInt8, b: byte(int8(s.N(a+r+3) - a - 1))})
				g.pop(1)
				continue
			}
			g.generic(1)
		case 3:
			if depth < 2 && c31Pct(s, 50) {
				g.tmplSub(depth + 1)
			} else if c31Pct(s, 30) && !(g.strict && fStart == len(g.ins)) { // recursion into self: runs until the budget is gone
				g.emit(cs, c31Imm{kind: g.labelKind("callsub"), tgt: fStart})
			} else {
				g.generic(1)
			}
		default:
			g.generic(1)
		}
	}
	for i := 0; i < r; i++ {
		g.pushArg(StackAny)
	}
	g.emit(rs)
	g.ins[overIdx].imms[0].tgt = len(g.ins)
	g.endGroup()
}

// tmplLoop: counter; top: body; 1; -; dup; bnz top; pop
func (g *c31Gen) tmplLoop() {
	s := g.s
	bnz := g.spec("bnz")
	if bnz == nil || (g.strict && g.v < backBranchEnabledVersion) {
		g.generic(3)
		return
	}
	var n uint64
	switch s.N(5) {
	case 0:
		n = uint64(1 + s.N(4))
	case 1:
		n = uint64(5 + s.N(40))
	case 2:
		n = uint64(100 + s.N(1000))
	case 3:
		n = 1 << 40
	default:
		n = uint64(1 + s.N(20))
	}
	slot := byte(s.N(256))
	kind := s.N(5)
	if kind == 1 { // growth through scratch: doubles a byte string every iteration
		g.pushBytesLen(1 + s.N(9))
		g.op("store", c31B(slot))
		g.pop(1)
	}
	g.pushInt(n)
	top := len(g.ins)
	switch kind {
	case 1:
		if g.op("load", c31B(slot)) && g.op("dup") && g.op("concat") && g.op("store", c31B(slot)) {
		}
	case 2: // stack growth
		if dn := g.spec("dupn"); dn != nil {
			g.emit(dn, c31B(byte([]int{1, 10, 100, 255}[s.N(4)])))
		} else {
			g.op("dup")
			g.op("dup")
		}
	case 3: // log / state growth in app mode, else generic
		g.generic(1 + s.N(2))
	default:
		g.generic(1 + s.N(3))
	}
	// counter is assumed on top for kinds 0,1; otherwise the loop just runs on whatever is there (still terminates by budget)
	g.pushInt(1)
	g.op("-")
	g.pop(1)
	g.op("dup")
	g.emit(bnz, c31Imm{kind: g.labelKind("bnz"), tgt: top})
	g.op("pop")
	g.pop(1)
	g.endGroup()
}

// tmplSwitch: idx; switch L0..Ln-1; then n small groups, label i at group i.
func (g *c31Gen) tmplSwitch() {
	s := g.s
	sw := g.spec("switch")
	if sw == nil {
		g.generic(3)
		return
	}
	n := []int{0, 1, 2, 3, 5, 8, 255}[s.N(7)]
	g.pushInt(uint64(s.N(n + 2)))
	idx := g.emit(sw, c31Imm{kind: immLabels, tgts: make([]int, n)})
	g.pop(1)
	groups := n
	if groups > 6 {
		groups = 6
	}
	starts := make([]int, 0, groups+1)
	for i := 0; i < groups; i++ {
		starts = append(starts, len(g.ins))
		g.generic(1)
	}
	starts = append(starts, len(g.ins))
	for i := 0; i < n; i++ {
		var t int
		switch {
		case c31Pct(s, 10) && g.v >= backBranchEnabledVersion:
			t = 2 + s.N(idx-1) // back
		case c31Pct(s, 5):
			t = 1 << 20 // end of program (clamped by the encoder)
		default:
			t = starts[s.N(len(starts))]
		}
		g.ins[idx].imms[0].tgts[i] = t
	}
	g.endGroup()
}

func (g *c31Gen) tmplItxn() {
	s := g.s
	itf := g.spec("itxn_field")
	if g.spec("itxn_begin") == nil || itf == nil {
		g.generic(3)
		return
	}
	settable := c31ValidFields(&ItxnSettableFields, g.v)
	set := func(f TxnField, push func()) {
		if g.strict && bytes.IndexByte(settable, byte(f)) < 0 {
			return // not settable at this version: the assembler refuses it
		}
		push()
		g.emit(itf, c31B(byte(f)))
		g.pop(1)
	}
	groups := 1 + s.N(3)
	if g.spec("itxn_next") == nil {
		groups = 1
	}
	g.op("itxn_begin")
	for gi := 0; gi < groups; gi++ {
		if gi > 0 {
			g.op("itxn_next")
		}
		switch s.N(10) {
		case 0, 1, 2, 3: // a clean inner application call to one of the known apps
			set(TypeEnum, func() { g.pushInt(6) })
			set(ApplicationID, func() { g.pushInt(c31KnownIDs[s.N(4)]) })
			if c31Pct(s, 30) {
				set(OnCompletion, func() { g.pushInt(uint64(s.N(6))) })
			}
			for k := s.N(3); k > 0; k-- {
				set(ApplicationArgs, func() { g.pushBytesLen(c31Len(s, 0, 64)) })
			}
		case 4, 5: // a clean payment
			set(TypeEnum, func() { g.pushInt(1) })
			a := c31Addrs()
			set(Receiver, func() { g.pushBytes(a[s.N(len(a))]) })
			set(Amount, func() { g.pushInt([]uint64{0, 1, 1000, 100000, 1 << 50}[s.N(5)]) })
		case 6: // inner application creation with a tiny approving program
			set(TypeEnum, func() { g.pushInt(6) })
			set(ApprovalProgram, func() { g.pushBytes(g.approve) })
			set(ClearStateProgram, func() { g.pushBytes(g.approve) })
		default: // anything
			if c31Pct(s, 85) {
				set(TypeEnum, func() { g.pushInt(uint64(1 + s.N(6))) })
			}
			nf := s.N(5)
			for k := 0; k < nf; k++ {
				g.itxnField(itf)
			}
		}
	}
	if c31Pct(s, 93) {
		g.op("itxn_submit")
	}
	for k := s.N(3); k > 0; k-- {
		for _, nm := range []string{"itxn", "itxna", "gitxn", "gitxna", "itxnas", "gitxnas"} {
			if c31Pct(s, 25) {
				if sp := g.spec(nm); sp != nil {
					g.genOp(sp)
				}
			}
		}
	}
	g.endGroup()
}

func (g *c31Gen) tmplBox() {
	s := g.s
	if g.spec("box_create") == nil {
		g.generic(3)
		return
	}
	name := []byte(c31BoxNames[s.N(len(c31BoxNames))])
	foreign := g.spec("app_box_create") != nil && c31Pct(s, 35)
	app := c31KnownIDs[s.N(4)]
	size := []int{0, 1, 10, 24, 100, 999, 1000}[s.N(7)]
	pfx := func() {
		if foreign {
			g.pushInt(app)
		}
		g.pushBytes(name)
	}
	opn := func(n string) *OpSpec {
		if foreign {
			return g.spec("app_" + n)
		}
		return g.spec(n)
	}
	do := func(n string, args func()) {
		sp := opn(n)
		if sp == nil {
			return
		}
		pfx()
		if args != nil {
			args()
		}
		g.emit(sp)
		g.effect(sp, nil)
	}
	if c31Pct(s, 80) {
		do("box_create", func() { g.pushInt(uint64(size)) })
	}
	steps := 1 + s.N(6)
	for i := 0; i < steps; i++ {
		switch s.N(8) {
		case 0:
			do("box_replace", func() { g.pushInt(c31IntNear(s, size)); g.pushBytesLen(c31Len(s, 0, 64)) })
		case 1:
			do("box_extract", func() { g.pushInt(c31IntNear(s, size)); g.pushInt(c31IntNear(s, size)) })
		case 2:
			do("box_splice", func() {
				g.pushInt(c31IntNear(s, size))
				g.pushInt(c31IntNear(s, size))
				g.pushBytesLen(c31Len(s, 0, 128))
			})
		case 3:
			ns := []int{0, 1, size - 1, size + 1, 1000, 1001, 5000}[s.N(7)]
			if ns < 0 {
				ns = 0
			}
			do("box_resize", func() { g.pushInt(uint64(ns)) })
			if ns <= 1000 {
				size = ns
			}
		case 4:
			do("box_len", nil)
		case 5:
			do("box_get", nil)
		case 6:
			do("box_put", func() { g.pushBytesLen([]int{size, size, size + 1, 0, 1000, 1001}[s.N(6)]) })
		default:
			do("box_del", nil)
		}
	}
	g.endGroup()
}

// program builds a whole program; kind selects the flavour.
func (g *c31Gen) program() []c31Ins {
	s := g.s
	segs := 1 + s.N(5)
	for i := 0; i < segs && len(g.ins) < g.insLimit; i++ {
		switch s.N(12) {
		case 0:
			g.tmplSub(0)
		case 1:
			g.tmplLoop()
		case 2:
			g.tmplSwitch()
		case 3:
			if g.mode == ModeApp {
				g.tmplItxn()
			} else {
				g.generic(2 + s.N(6))
			}
		case 4:
			if g.mode == ModeApp {
				g.tmplBox()
			} else {
				g.generic(2 + s.N(6))
			}
		default:
			g.generic(1 + s.N(8))
		}
	}
	switch s.N(4) {
	case 0:
		g.pushInt(1)
	case 1:
		if g.op("return") {
		}
	}
	return g.finishProgram()
}

func (g *c31Gen) finishProgram() []c31Ins {
	for _, p := range g.pending {
		g.resolve(p, len(g.ins))
	}
	g.pending = nil
	if g.strict && (g.v <= 1 || c31Pct(g.s, 50)) {
		// v1 cannot branch to the end of the program; otherwise keep end-of-program labels half of the time
		for i := range g.ins {
			for k := range g.ins[i].imms {
				im := &g.ins[i].imms[k]
				if im.tgt > len(g.ins) {
					im.tgt = len(g.ins)
				}
				for j := range im.tgts {
					if im.tgts[j] > len(g.ins) {
						im.tgts[j] = len(g.ins)
					}
				}
			}
		}
		g.pushInt(1)
	}
	if len(g.intc) > 0 {
		g.ins[0] = c31Ins{spec: g.spec("intcblock"), imms: []c31Imm{{kind: immInts, us: g.intc}}}
	}
	if len(g.bytec) > 0 {
		g.ins[1] = c31Ins{spec: g.spec("bytecblock"), imms: []c31Imm{{kind: immBytess, bss: g.bytec}}}
	}
	// fix label targets that still carry -1 (unresolved) or point past the end
	for i := range g.ins {
		for k := range g.ins[i].imms {
			im := &g.ins[i].imms[k]
			if im.tgt < 0 {
				im.tgt = len(g.ins)
			}
			for j := range im.tgts {
				if im.tgts[j] < 0 {
					im.tgts[j] = len(g.ins)
				}
			}
		}
	}
	return g.ins
}

// c31Soup: random well-formed instructions with no argument set-up at all.
func c31Soup(s c31Src, v uint64, mode RunMode, nGroup int) []c31Ins {
	g := c31NewGen(s, v, mode, nGroup)
	g.wild = 100
	n := 1 + s.N(30)
	for i := 0; i < n; i++ {
		if sp := g.tab.pick(s, mode); sp != nil {
			g.genOp(sp)
		}
	}
	return g.finishProgram()
}

// c31Mutate applies byte-level mutations to a program.
func c31Mutate(s c31Src, p []byte) []byte {
	out := append([]byte(nil), p...)
	k := 1 + s.N(4)
	for i := 0; i < k; i++ {
		if len(out) == 0 {
			out = append(out, byte(s.N(LogicVersion+2)))
			continue
		}
		pos := s.N(len(out))
		switch s.N(9) {
		case 0:
			out[pos] ^= 1 << uint(s.N(8))
		case 1:
			out[pos] = byte(s.N(256))
		case 2:
			out[pos] = []byte{0x00, 0x7f, 0x80, 0xff, 0x8a, 0x89, 0x88, 0x42, 0x8d, 0x8e, 0xd4}[s.N(11)]
		case 3: // insert
			out = append(out[:pos], append([]byte{byte(s.N(256))}, out[pos:]...)...)
		case 4: // delete
			out = append(out[:pos], out[pos+1:]...)
		case 5: // truncate
			out = out[:pos]
		case 6: // overwrite a run with 0xff (hostile varuints / lengths)
			for j := pos; j < len(out) && j < pos+1+s.N(10); j++ {
				out[j] = 0xff
			}
		case 7: // change the version byte
			out[0] = byte(s.N(LogicVersion + 2))
		default: // duplicate a chunk
			end := pos + 1 + s.N(16)
			if end > len(out) {
				end = len(out)
			}
			chunk := append([]byte(nil), out[pos:end]...)
			out = append(out[:end], append(chunk, out[end:]...)...)
		}
	}
	return out
}

// c31Render renders an instruction list as assembler source (used by C33 and for failure messages).
func c31Render(version uint64, ins []c31Ins) string {
	var sb strings.Builder
	fmt.Fprintf(&sb, "#pragma version %d\n", version)
	labels := map[int]bool{}
	for i := range ins {
		for k := range ins[i].imms {
			im := &ins[i].imms[k]
			switch im.kind {
			case immLabel, immVarintLabel:
				labels[c31Clamp(im.tgt, len(ins))] = true
			case immLabels:
				for _, t := range im.tgts {
					labels[c31Clamp(t, len(ins))] = true
				}
			}
		}
	}
	for i := range ins {
		if labels[i] {
			fmt.Fprintf(&sb, "L%d:\n", i)
		}
		in := &ins[i]
		if in.spec == nil {
			if len(in.raw) > 0 {
				fmt.Fprintf(&sb, "// raw %x\n", in.raw)
			}
			continue
		}
		sb.WriteString(in.spec.Name)
		for k := range in.imms {
			im := &in.imms[k]
			switch im.kind {
			case immByte:
				grp := in.spec.Immediates[k].Group
				if grp != nil && int(im.b) < len(grp.Names) && grp.Names[im.b] != "" {
					fmt.Fprintf(&sb, " %s", grp.Names[im.b])
				} else {
					fmt.Fprintf(&sb, " %d", im.b)
				}
			case immInt8:
				fmt.Fprintf(&sb, " %d", int8(im.b))
			case immInt:
				fmt.Fprintf(&sb, " %d", im.u)
			case immBytes:
				fmt.Fprintf(&sb, " 0x%s", hex.EncodeToString(im.bs))
			case immInts:
				for _, u := range im.us {
					fmt.Fprintf(&sb, " %d", u)
				}
			case immBytess:
				for _, b := range im.bss {
					fmt.Fprintf(&sb, " 0x%s", hex.EncodeToString(b))
				}
			case immLabel, immVarintLabel:
				fmt.Fprintf(&sb, " L%d", c31Clamp(im.tgt, len(ins)))
			case immLabels:
				for _, t := range im.tgts {
					fmt.Fprintf(&sb, " L%d", c31Clamp(t, len(ins)))
				}
			}
		}
		sb.WriteString("\n")
	}
	if labels[len(ins)] {
		fmt.Fprintf(&sb, "L%d:\n", len(ins))
	}
	return sb.String()
}

func c31Clamp(t, n int) int {
	if t < 0 {
		return 0
	}
	if t > n {
		return n
	}
	return t
}

// c31RemoveIns returns a copy of ins without instruction k, with every label target adjusted.
func c31RemoveIns(ins []c31Ins, k int) []c31Ins {
	out := make([]c31Ins, 0, len(ins)-1)
	adj := func(t int) int {
		if t > k {
			return t - 1
		}
		return t
	}
	for i := range ins {
		if i == k {
			continue
		}
		in := ins[i]
		in.imms = append([]c31Imm(nil), in.imms...)
		for j := range in.imms {
			in.imms[j].tgt = adj(in.imms[j].tgt)
			if in.imms[j].tgts != nil {
				ts := make([]int, len(in.imms[j].tgts))
				for q, t := range in.imms[j].tgts {
					ts[q] = adj(t)
				}
				in.imms[j].tgts = ts
			}
		}
		out = append(out, in)
	}
	return out
}

// c31MinimizeIns greedily deletes instructions while fails(ins) stays true (bounded number of probes).
func c31MinimizeIns(ins []c31Ins, fails func([]c31Ins) bool) []c31Ins {
	probes := 0
	for changed := true; changed && probes < 1500; {
		changed = false
		for k := len(ins) - 1; k >= 0 && probes < 1500; k-- {
			if ins[k].spec == nil {
				continue
			}
			cand := c31RemoveIns(ins, k)
			probes++
			if fails(cand) {
				ins = cand
				changed = true
			}
		}
	}
	return ins
}

// c31MinimizeBytes greedily truncates / deletes bytes (never the version byte) while fails(p) stays true.
func c31MinimizeBytes(p []byte, fails func([]byte) bool) []byte {
	probes := 0
	for changed := true; changed && probes < 3000; {
		changed = false
		for n := len(p) / 2; n >= 1; n /= 2 { // drop chunks, large first
			for at := len(p) - n; at >= 1 && probes < 3000; at -= n {
				cand := append(append([]byte(nil), p[:at]...), p[at+n:]...)
				probes++
				if fails(cand) {
					p = cand
					changed = true
				}
			}
		}
	}
	return p
}
