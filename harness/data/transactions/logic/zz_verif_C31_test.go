package logic

// C31 — AVM evaluation is total and bounded for every program.
//
// Oracle (inside every target): Check*/Eval* return (pass, err); no panic escapes and err is not a recovered panic
// (panicError); a Tracer checks after every step: stack depth <= maxStackDepth, every stack/scratch byte string
// <= maxStringSize, the op was charged no more than the budget that remained before it, the remaining budget never
// goes negative, an op that fails with "budget exceeded" did not execute, inner-call depth / inner-txn count / log
// limits. See /verif/notes/C31.md.

import (
	"encoding/binary"
	"encoding/hex"
	"fmt"
	"os"
	"path/filepath"
	"strconv"
	"strings"
	"testing"

	"pgregory.net/rapid"
)

func c31Bucket(n int) string {
	switch {
	case n == 0:
		return "0"
	case n < 5:
		return "1-4"
	case n < 20:
		return "5-19"
	case n < 100:
		return "20-99"
	case n < 1000:
		return "100-999"
	default:
		return "1000+"
	}
}

func c31Record(vk *vkCtx, kind string, v uint64, e *c31Env, program []byte, res c31Result) {
	nt := res.topSteps >= 5 || res.diedInOp
	fp := fmt.Sprintf("v%d/%s/%s/%s", v, e.mode, res.lastOp, res.errClass)
	vk.Case(nt, fp)
	vk.Label("kind=" + kind)
	vk.Label("mode=" + e.mode.String())
	if v <= LogicVersion+1 {
		vk.Labelf("version=%02d", v)
	} else {
		vk.Label("version=huge")
	}
	vk.Label("steps=" + c31Bucket(res.topSteps))
	switch {
	case res.err == nil && res.pass:
		vk.Label("outcome=accept")
	case res.err == nil:
		vk.Label("outcome=reject")
	case res.diedInOp:
		vk.Label("outcome=error-inside-op")
		vk.Label("died_in=" + res.lastOp)
	default:
		vk.Label("outcome=error-precheck")
	}
	if res.checkErr == nil {
		vk.Label("check=ok")
	} else {
		vk.Label("check=rejected")
	}
	if res.programs > 1 {
		vk.Labelf("inner_programs_depth=%d", res.maxDepth)
	}
	if res.err != nil {
		vk.Label("err=" + res.errClass)
	}
	if e.trace {
		vk.Label("trace=on")
	}
	if res.mock {
		vk.Excluded("panic raised by the ledger mock (test code), not by the evaluator")
	}
	if vk.WantSample(nt) {
		vk.Sample(nt, map[string]interface{}{"kind": kind, "program": hex.EncodeToString(program), "env": e.desc,
			"steps": res.topSteps, "cost": res.cost, "result": res.errClass, "last_op": res.lastOp})
	}
}

const c31Rule = "programs drawn from the live opcode tables for versions 0..LogicVersion+1 in both modes (typed stack-aware groups, templates for " +
	"subroutines/loops/switch/itxn/box, ill-typed ops, opcode soup, byte mutations, upstream sample programs), random group/ledger/args/budgets; " +
	"non-trivial = the outermost program executed >= 5 instructions or died inside an opcode implementation (not in the pre-checks of step); " +
	"distinct by (version, mode, opcode that ended the run, normalised error class)"

// development aid: VERIF_C31_DEBUG_ERR=<substring of an error class> prints a few generated programs ending that way
var c31DebugErr = os.Getenv("VERIF_C31_DEBUG_ERR")
var c31DebugLeft = 40

// c31DrawSeeds: rapid's integer generators favour small values, so a single drawn word repeats often (measured: the same
// program generated thousands of times). Several words are mixed so that a repeated seed needs all of them to repeat.
func c31DrawSeeds(rt *rapid.T) (uint64, uint64) {
	mix := func(x uint64) uint64 {
		x += 0x9e3779b97f4a7c15
		x = (x ^ (x >> 30)) * 0xbf58476d1ce4e5b9
		x = (x ^ (x >> 27)) * 0x94d049bb133111eb
		return x ^ (x >> 31)
	}
	var h uint64
	for i := 0; i < 4; i++ {
		h = mix(h ^ rapid.Uint64().Draw(rt, "seed"))
	}
	return h, mix(h ^ 0xe7037ed1a0b428db)
}

func c31DrawVersion(s c31Src) uint64 {
	if c31Pct(s, 55) {
		return uint64(LogicVersion - s.N(3))
	}
	return uint64(s.N(LogicVersion + 2))
}

// TestVerif_C31_Gen: generator programs (a) of DESIGN C31.
func TestVerif_C31_Gen(t *testing.T) {
	vk := vkBegin(t, "C31")
	vk.Rule(c31Rule)
	vk.Assume("the in-package test Ledger mock stands in for the real ledger; panics raised inside the mock itself are excluded and counted")
	rapid.Check(t, func(rt *rapid.T) {
		seedP, seedE := c31DrawSeeds(rt)
		s := c31NewPRNG(seedP)
		v := c31DrawVersion(s)
		e := c31BuildEnv(c31NewPRNG(seedE), v)
		var ins []c31Ins
		kind := "typed"
		switch k := s.N(10); {
		case k < 6:
			g := c31NewGen(s, v, e.mode, e.n)
			ins = g.program()
		case k < 8:
			kind = "typed+wild"
			g := c31NewGen(s, v, e.mode, e.n)
			g.wild = 10 + s.N(40)
			ins = g.program()
		case k < 9:
			kind = "soup"
			ins = c31Soup(s, v, e.mode, e.n)
		default:
			kind = "typed-othermode" // ops generated for the other mode: mode gating inside step
			m := ModeSig
			if e.mode == ModeSig {
				m = ModeApp
			}
			g := c31NewGen(s, v, m, e.n)
			ins = g.program()
		}
		program, _ := c31Encode(v, ins)
		res := c31Run(e, program)
		if c31DebugErr != "" && strings.Contains(res.lastOp+"|"+res.errClass, c31DebugErr) && c31DebugLeft > 0 {
			c31DebugLeft--
			if os.Getenv("VERIF_C31_DEBUG_FULL") != "" {
				fmt.Printf("DEBUG %s: %v\n%s\nsource:\n%s\n", kind, res.err, c31Describe(e, program), c31Render(v, ins))
			} else {
				fmt.Printf("DEBUG %s: %.300v\n", kind, res.err)
			}
		}
		if res.viol != "" {
			// minimise: same environment seed, fewer instructions, same kind of violation
			key := c31ViolKey(res.viol)
			small := c31MinimizeIns(ins, func(c []c31Ins) bool {
				p, _ := c31Encode(v, c)
				r := c31Run(c31BuildEnv(c31NewPRNG(seedE), v), p)
				return r.viol != "" && c31ViolKey(r.viol) == key
			})
			sp, _ := c31Encode(v, small)
			e2 := c31BuildEnv(c31NewPRNG(seedE), v)
			r2 := c31Run(c31BuildEnv(c31NewPRNG(seedE), v), sp)
			rt.Fatalf("C31 violated: %s\n--- minimised (%d of %d instructions): %s\n%s\nsource:\n%s\n--- original: %s", res.viol, len(small), len(ins),
				r2.viol, c31Describe(e2, sp), c31Render(v, small), c31Describe(e, program))
		}
		c31Record(vk, kind, v, e, program, res)
	})
}

// c31ViolKey normalises a violation message so that minimisation keeps the same kind of failure.
func c31ViolKey(v string) string {
	if i := strings.IndexByte(v, '\n'); i >= 0 {
		v = v[:i]
	}
	v = c31Digits.ReplaceAllString(v, "N")
	if len(v) > 60 {
		v = v[:60]
	}
	return v
}

// c31CBlockPrefix returns the length of version byte + leading intcblock/bytecblock of an upstream sample.
func c31CBlockPrefix(p []byte) int {
	pos := 1
	if pos < len(p) && p[pos] == 0x20 {
		if _, next, err := parseIntImmArgs(p, pos+1); err == nil {
			pos = next
		}
	}
	if pos < len(p) && p[pos] == 0x26 {
		if _, next, err := parseByteImmArgs(p, pos+1); err == nil {
			pos = next
		}
	}
	if pos >= len(p) {
		return 1
	}
	return pos
}

func c31UpstreamPrograms() [][]byte {
	var out [][]byte
	for v := uint64(1); v <= LogicVersion; v++ {
		if h, ok := compiled[v]; ok {
			if b, err := hex.DecodeString(h); err == nil {
				out = append(out, append(c31Uvarint(v), b...))
			}
		}
	}
	return out
}

// TestVerif_C31_Mutate: byte mutations (b) of generator programs and of upstream's per-version sample programs, plus raw bytes.
func TestVerif_C31_Mutate(t *testing.T) {
	vk := vkBegin(t, "C31")
	vk.Rule(c31Rule)
	up := c31UpstreamPrograms()
	rapid.Check(t, func(rt *rapid.T) {
		seedP, seedE := c31DrawSeeds(rt)
		s := c31NewPRNG(seedP)
		var program []byte
		kind := "mutated-generated"
		switch k := s.N(10); {
		case k < 5:
			v := c31DrawVersion(s)
			mode := []RunMode{ModeSig, ModeApp}[s.N(2)]
			g := c31NewGen(s, v, mode, 2)
			base, _ := c31Encode(v, g.program())
			program = c31Mutate(s, base)
		case k < 8:
			kind = "mutated-upstream"
			base := up[s.N(len(up))]
			if c31Pct(s, 60) { // constant blocks + a window of the long sample keep the mutation relevant
				pre := c31CBlockPrefix(base)
				start := pre + s.N(len(base)-pre)
				end := start + 1 + s.N(80)
				if end > len(base) {
					end = len(base)
				}
				base = append(append([]byte(nil), base[:pre]...), base[start:end]...)
			}
			program = c31Mutate(s, base)
		default:
			kind = "raw-bytes"
			n := s.N(60)
			program = make([]byte, n+1)
			program[0] = byte(c31DrawVersion(s))
			tab := c31Table(uint64(program[0]))
			for i := 1; i <= n; i++ {
				if c31Pct(s, 70) && len(tab.all) > 0 {
					program[i] = tab.all[s.N(len(tab.all))].Opcode
				} else {
					program[i] = byte(s.N(256))
				}
			}
		}
		ver := func(p []byte) uint64 {
			if len(p) == 0 {
				return 0
			}
			v, _ := binary.Uvarint(p)
			return v
		}
		v := ver(program)
		e := c31BuildEnv(c31NewPRNG(seedE), v)
		res := c31Run(e, program)
		if res.viol != "" {
			key := c31ViolKey(res.viol)
			small := c31MinimizeBytes(program, func(p []byte) bool {
				r := c31Run(c31BuildEnv(c31NewPRNG(seedE), v), p)
				return ver(p) == v && r.viol != "" && c31ViolKey(r.viol) == key
			})
			e2 := c31BuildEnv(c31NewPRNG(seedE), v)
			r2 := c31Run(c31BuildEnv(c31NewPRNG(seedE), v), small)
			rt.Fatalf("C31 violated: %s\n--- minimised (%d of %d bytes): %s\n%s\n--- original: %s", res.viol, len(small), len(program), r2.viol,
				c31Describe(e2, small), c31Describe(e, program))
		}
		c31Record(vk, kind, v, e, program, res)
	})
}

// FuzzVerif_C31_Eval: native coverage-guided fuzzing (thorough tier). The first argument is the program (version byte
// first), the second drives the environment generator. The whole C31 oracle runs inside the body.
func FuzzVerif_C31_Eval(f *testing.F) {
	f.Fuzz(func(t *testing.T, program []byte, envBytes []byte) {
		if len(program) > 8192 || len(envBytes) > 4096 {
			t.Skip()
		}
		v := uint64(0)
		if len(program) > 0 {
			v, _ = binary.Uvarint(program)
		}
		e := c31BuildEnv(&c31ByteSrc{b: envBytes}, v)
		res := c31Run(e, program)
		if res.viol != "" {
			t.Fatalf("C31 violated: %s\n%s", res.viol, c31Describe(e, program))
		}
	})
}

// TestVerif_C31_WriteCorpus regenerates the seed corpus of FuzzVerif_C31_Eval (only when VERIF_C31_CORPUS_DIR is set):
// upstream's assembled per-version sample programs, generator programs for every version/mode, hostile constants.
func TestVerif_C31_WriteCorpus(t *testing.T) {
	dir := os.Getenv("VERIF_C31_CORPUS_DIR")
	if dir == "" {
		t.Skip("VERIF_C31_CORPUS_DIR not set")
	}
	if err := os.MkdirAll(dir, 0o755); err != nil {
		t.Fatal(err)
	}
	n := 0
	write := func(name string, prog, env []byte) {
		body := "go test fuzz v1\n[]byte(" + strconv.Quote(string(prog)) + ")\n[]byte(" + strconv.Quote(string(env)) + ")\n"
		if err := os.WriteFile(filepath.Join(dir, name), []byte(body), 0o644); err != nil {
			t.Fatal(err)
		}
		n++
	}
	envSig := []byte{13, 99, 0, 0, 99} // choices: signature mode, latest proto, one txn, no trace
	envApp := []byte{0, 99, 0, 0, 99}
	for i, p := range c31UpstreamPrograms() {
		write(fmt.Sprintf("upstream-v%02d-sig", i+1), p, envSig)
		write(fmt.Sprintf("upstream-v%02d-app", i+1), p, envApp)
	}
	// upstream sources that are not in the `compiled` table, assembled here
	for v := uint64(1); v <= LogicVersion; v++ {
		for j, src := range []string{tlhcProgramText, testCompareProgramText} {
			if ops, err := AssembleStringWithVersion(src, v); err == nil {
				write(fmt.Sprintf("upstream-src%d-v%02d", j, v), ops.Program, envSig)
			}
		}
	}
	// generator programs, deterministic choice stream
	for v := uint64(0); v <= LogicVersion; v++ {
		for mi, mode := range []RunMode{ModeSig, ModeApp} {
			for k := 0; k < 6; k++ {
				seed := make([]byte, 4000)
				x := uint64(v*1000+uint64(mi)*100+uint64(k)) + 0x9e3779b97f4a7c15
				for i := range seed {
					x ^= x << 13
					x ^= x >> 7
					x ^= x << 17
					seed[i] = byte(x >> 24)
				}
				g := c31NewGen(&c31ByteSrc{b: seed}, v, mode, 2)
				p, _ := c31Encode(v, g.program())
				env := envSig
				if mode == ModeApp {
					env = envApp
				}
				write(fmt.Sprintf("gen-v%02d-%s-%d", v, mode, k), p, append(append([]byte(nil), env...), seed[:40]...))
			}
		}
	}
	// hostile constants
	ff := func(n int) []byte {
		b := make([]byte, n)
		for i := range b {
			b[i] = 0xff
		}
		return b
	}
	maxu := []byte{0xff, 0xff, 0xff, 0xff, 0xff, 0xff, 0xff, 0xff, 0xff, 0x01}
	hostile := map[string][]byte{
		"empty":              {},
		"version-only":       {byte(LogicVersion)},
		"version-too-new":    {byte(LogicVersion + 1), 0x81, 0x01},
		"version-varuint-ff": append(ff(10), 0x01),
		"pushint-max":        append([]byte{byte(LogicVersion), 0x81}, maxu...),
		"pushint-overflow":   append([]byte{byte(LogicVersion), 0x81}, ff(11)...),
		"pushbytes-maxlen":   append(append([]byte{byte(LogicVersion), 0x80}, maxu...), 1, 2, 3),
		"pushbytes-ff":       append([]byte{byte(LogicVersion), 0x80}, ff(12)...),
		"intcblock-maxcount": append([]byte{byte(LogicVersion), 0x20}, maxu...),
		"bytecblock-maxlen":  append(append([]byte{byte(LogicVersion), 0x26, 0x01}, maxu...), 0),
		"pushints-ff":        append([]byte{byte(LogicVersion), 0x83}, ff(12)...),
		"pushbytess-ff":      append([]byte{byte(LogicVersion), 0x82}, ff(12)...),
		"switch-255":         append([]byte{byte(LogicVersion), 0x81, 0x00, 0x8d, 0xff}, ff(40)...),
		"match-255":          append([]byte{byte(LogicVersion), 0x81, 0x00, 0x8e, 0xff}, ff(40)...),
		"b-varint-min":       {byte(LogicVersion), 0x42, 0xff, 0xff, 0xff, 0xff, 0xff, 0xff, 0xff, 0xff, 0xff, 0x01},
		"b-varint-max":       {byte(LogicVersion), 0x42, 0xfe, 0xff, 0xff, 0xff, 0xff, 0xff, 0xff, 0xff, 0xff, 0x01},
		"b-varint-overflow":  append([]byte{byte(LogicVersion), 0x42}, ff(11)...),
		"b2-negative":        {12, 0x42, 0x80, 0x00},
		"b2-self":            {12, 0x42, 0xff, 0xfd},
		"callsub-self":       {12, 0x88, 0xff, 0xfd},
		"callsub-self-v13":   {13, 0x88, 0x01},
		"bzero-4097":         {byte(LogicVersion), 0x81, 0x81, 0x20, 0xaf},
		"dupn-255-loop":      {12, 0x81, 0x01, 0x47, 0xff, 0x42, 0xff, 0xfb},
		"concat-double":      {12, 0x80, 0x01, 0x61, 0x49, 0x50, 0x42, 0xff, 0xfb},
		"frame-dig-min":      {byte(LogicVersion), 0x81, 0x01, 0x88, 0x00, 0x8a, 0x00, 0x00, 0x8b, 0x80, 0x8c, 0x80, 0x89},
		"proto-255":          {byte(LogicVersion), 0x88, 0x00, 0x8a, 0xff, 0xff, 0x89},
		"extract-ff":         {byte(LogicVersion), 0x80, 0x02, 0x61, 0x62, 0x57, 0xff, 0xff},
		"extract3-max":       append(append(append([]byte{byte(LogicVersion), 0x80, 0x02, 0x61, 0x62, 0x81}, maxu...), 0x81), append(maxu, 0x58)...),
		"substring3-max":     append(append(append([]byte{byte(LogicVersion), 0x80, 0x02, 0x61, 0x62, 0x81}, maxu...), 0x81), append(maxu, 0x52)...),
		"prefix-d4-bare":     {byte(LogicVersion), 0xd4},
		"prefix-d4-00":       {byte(LogicVersion), 0xd4, 0x00},
		"prefix-d4-ff":       {byte(LogicVersion), 0xd4, 0xff},
		"txna-ff":            {byte(LogicVersion), 0x36, 0xff, 0xff},
		"gtxn-ff":            {byte(LogicVersion), 0x33, 0xff, 0x00},
		"gload-ff":           {byte(LogicVersion), 0x3a, 0xff, 0xff},
		"arg-ff":             {byte(LogicVersion), 0x2c, 0xff},
		"v0-program":         {0, 0x20, 0x01, 0x01, 0x22},
		"v1-program":         {1, 0x20, 0x01, 0x01, 0x22},
	}
	for name, p := range hostile {
		write("hostile-"+name+"-sig", p, envSig)
		write("hostile-"+name+"-app", p, envApp)
	}
	t.Logf("wrote %d corpus files to %s", n, dir)
}
