package logic

// C35 unit 1 — "unmentioned => unavailable".
//
// A target resource X (account, asset, app or box of the fixed universe) is drawn first; then a group of 1..4 transactions
// is generated that never names X in any role (the generator only draws from the universe minus X, and an independent
// scan of the real transactions confirms it). A program of a random version accesses X in the target app call through
// every addressing form that exists at that version; each access runs in its own fresh evaluation and must fail.
// Every access is then re-run in a sibling group in which X *is* mentioned in one of the documented ways: if the very
// same program now succeeds, the (fail, succeed) pair is counted as non-trivial - it proves the first failure was about
// availability and nothing else.
//
// Variant "elsewhere" (program versions before group sharing, v < 9): X is named by another transaction of the group but
// not by the app call itself; it must still be unavailable.

import (
	"fmt"
	"strings"
	"testing"

	"pgregory.net/rapid"

	"github.com/algorand/go-algorand/protocol"
)

type c35PairRec struct {
	Form string `json:"form"`
	How  string `json:"how"`
}

type c35Sample struct {
	Version uint64       `json:"version"`
	Target  string       `json:"target"`
	Variant string       `json:"variant"`
	Group   []string     `json:"group"`
	Pairs   []c35PairRec `json:"pairs"`
	Failed  int          `json:"accesses_that_failed_as_required"`
}

func c35FormClass(name string) string {
	if i := strings.IndexByte(name, '/'); i >= 0 {
		return name[:i]
	}
	return name
}

func c35ReqWithout(req c35Req, kind string) c35Req {
	switch kind {
	case "acct":
		req.Acct = -1
	case "asset":
		req.Asset = -1
	case "app":
		req.App = -1
	}
	return req
}

func c35OwnHow(g *c35Group) string {
	if g.Txns[g.Target].Access != nil {
		return "own-access-list"
	}
	return "own-foreign-arrays"
}

// c35Sibling builds the group in which the requirement of the access is met. how == "" when none applies.
func c35Sibling(t *rapid.T, g *c35Group, v uint64, x c35Target, req c35Req, variant string) (*c35Group, string) {
	sib := g.clone()
	tx := &sib.Txns[sib.Target]
	options := []string{"own", "own"}
	if req.Slot == "" && !req.OwnOnly {
		if variant == "nowhere" && (v >= sharedResourcesVersion || x.Kind == "box") {
			options = append(options, "other", "other")
		}
		if v >= createdResourcesVersion && (x.Kind == "asset" || x.Kind == "app") {
			options = append(options, "created")
		}
		if v >= appAddressAvailableVersion && x.Kind == "acct" && x.I >= c35NPlain && tx.Access == nil {
			options = append(options, "own-foreignapp-address")
		}
	}
	switch options[rapid.IntRange(0, len(options)-1).Draw(t, "how")] {
	case "other":
		how := c35AddOther(t, sib, req)
		if how != "" {
			return sib, how
		}
		fallthrough
	case "own":
		c35AddOwn(sib, v, req, rapid.Bool().Draw(t, "via-access"))
		return sib, c35OwnHow(sib)
	case "created":
		c35AddCreated(sib, x.Kind, x.I)
		c35AddOwn(sib, v, c35ReqWithout(req, x.Kind), false)
		return sib, "created-earlier-in-group"
	default: // own-foreignapp-address
		tx.ForeignApps = append(tx.ForeignApps, c35AppIDs[x.I-c35NPlain])
		c35AddOwn(sib, v, c35ReqWithout(req, "acct"), false)
		return sib, "own-foreignapp-address"
	}
}

func c35DrawTarget(t *rapid.T, v uint64) c35Target {
	kinds := []string{"acct", "acct", "asset", "app"}
	if v >= boxVersion {
		kinds = append(kinds, "box")
	}
	x := c35Target{Kind: kinds[rapid.IntRange(0, len(kinds)-1).Draw(t, "target-kind")]}
	switch x.Kind {
	case "acct":
		x.I = rapid.IntRange(0, c35NAcct-1).Draw(t, "target-acct")
	case "asset":
		x.I = rapid.IntRange(0, c35NAsset-1).Draw(t, "target-asset")
	case "app":
		x.I = rapid.IntRange(0, c35NApp-1).Draw(t, "target-app")
	default:
		x.BoxApp = rapid.IntRange(0, c35NApp-1).Draw(t, "target-box-app")
		x.I = rapid.IntRange(0, c35NBox-1).Draw(t, "target-box-name")
	}
	return x
}

func TestVerif_C35_Unmentioned(t *testing.T) {
	vk := vkBegin(t, "C35")
	vk.Rule("target resource X drawn from a universe of 10 accounts (6 plain + 4 app accounts), 4 assets, 4 apps, 4x4 boxes that all exist in the mock ledger " +
		"(every holding, local state and box present); group of 1-4 txns (appl/pay/axfer/acfg/afrz/keyreg, foreign arrays or tx.Access, creations) generated from the universe minus X; " +
		"program version 2..LogicVersion accesses X through every form that exists at that version, one evaluation per access, each must fail. " +
		"Non-trivial = at least one access of the case also has a sibling evaluation (same program, X mentioned in a documented way) that succeeds; distinct by (version, X, group)")
	vk.Assume("consensus parameters of the 'future' protocol; unnamed-resource access (simulation only) off; transactions before the target are only 'applied' when they create an app or asset")
	if c35U.proto.LogicSigVersion != LogicVersion {
		t.Fatalf("future protocol has LogicSigVersion %d, expected %d", c35U.proto.LogicSigVersion, LogicVersion)
	}
	rapid.Check(t, func(t *rapid.T) {
		v := uint64(rapid.IntRange(appsEnabledVersion, LogicVersion).Draw(t, "version"))
		x := c35DrawTarget(t, v)
		ex := x.exclusion()
		variant := "nowhere"
		if v < sharedResourcesVersion && x.Kind != "box" && c35Chance(t, "elsewhere?", 30) {
			variant = "elsewhere"
		}
		env := c35Env{BoxOpen: c35Chance(t, "box-open?", 80)}

		n := rapid.IntRange(1, 4).Draw(t, "ntxns")
		g := &c35Group{Target: rapid.IntRange(0, n-1).Draw(t, "target-index")}
		for i := 0; i < n; i++ {
			typ := protocol.ApplicationCallTx
			opt := c35GenOpt{AllowAccess: true}
			if i == g.Target {
				opt.IsTarget = true
				opt.AllowAccess = v >= sharedResourcesVersion // older programs cannot run with tx.Access at all
				// box_* reaches the boxes of the called app only; app_box_* (v13) those of any app
				if x.Kind == "box" && (v < foreignBoxVersion || c35Chance(t, "own-box?", 60)) {
					opt.ForceApp = x.BoxApp + 1
				}
			} else {
				typ = c35OtherTypes[rapid.IntRange(0, len(c35OtherTypes)-1).Draw(t, "txtype")]
			}
			tx, created := c35GenTxn(t, typ, ex, opt)
			g.Txns = append(g.Txns, tx)
			g.Created = append(g.Created, created)
		}
		if x.Kind == "box" && c35Chance(t, "decoy-box?", 50) && c35AddDecoyBox(t, g, x) {
			vk.Label("box-target:same-name-named-for-another-app")
		}
		if variant == "elsewhere" {
			req := c35Req{Acct: -1, Asset: -1, App: -1, BoxApp: -1}
			switch x.Kind {
			case "acct":
				req.Acct = x.I
			case "asset":
				req.Asset = x.I
			default:
				req.App = x.I
			}
			vk.Labelf("elsewhere-via:%s", c35AddOther(t, g, req))
		}

		// independent confirmation that the construction kept X out
		m := c35Scan(g)
		mentioned := m.All.has(x)
		if variant == "elsewhere" {
			mentioned = m.PerTxn[g.Target].has(x)
		}
		if x.Kind == "app" && m.CreatedApps[x.I] || x.Kind == "asset" && m.CreatedAssets[x.I] ||
			x.Kind == "acct" && x.I >= c35NPlain && m.CreatedApps[x.I-c35NPlain] {
			mentioned = true
		}
		if mentioned {
			vk.Excluded("generator named the target (harness defect, case skipped)")
			return
		}

		band := c35Band(v)
		fp := c35Fingerprint(v, x.String()+"/"+variant, g, env)
		pairs, failed := 0, 0
		var recs []c35PairRec
		for _, f := range c35Forms(t, g, v, x, ex) {
			prog, ok := c35Asm(v, f.Src)
			if !ok {
				vk.Labelf("form-absent-at:%s:%s", band, c35FormClass(f.Name))
				continue
			}
			res, herr := c35Run(g, v, prog, env)
			if herr != nil {
				vk.Excluded("harness: " + herr.Error())
				continue
			}
			vk.Add("program-evaluations", 1)
			if res.ok() {
				t.Fatalf("C35 violated: v%d program reached %s although the group never %s it\n  access: %s\n  program: %s\n  group:\n    %s",
					v, x, map[string]string{"nowhere": "mentions", "elsewhere": "mentions it in the app call itself (pre-sharing version), only elsewhere names"}[variant],
					f.Name, f.Src, strings.Join(g.render(), "\n    "))
			}
			failed++
			sib, how := c35Sibling(t, g, v, x, f.Req, variant)
			res2, herr := c35Run(sib, v, prog, env)
			if herr != nil {
				vk.Labelf("sibling-not-wellformed:%s", how)
				continue
			}
			vk.Add("program-evaluations", 1)
			if res2.ok() {
				pairs++
				recs = append(recs, c35PairRec{Form: f.Name, How: how})
				vk.Labelf("pair:%s", f.Name)
				vk.Labelf("pairs-in:%s:%s:%s", band, x.Kind, variant)
				vk.Labelf("mentioned-by:%s:%s", x.Kind, how)
			} else {
				vk.Labelf("sibling-still-fails:%s:%s:%s", band, c35FormClass(f.Name), how)
				if vkEnv("C35_DEBUG", "") != "" {
					fmt.Printf("C35DEBUG sibling fails v%d %s how=%s err=%v\n  prog: %s\n  sib: %s\n", v, f.Name, how, res2.Err, f.Src, strings.Join(sib.render(), " | "))
				}
			}
		}
		vk.Add("pairs", int64(pairs))
		vk.Add("failed-accesses", int64(failed))
		vk.Labelf("case:%s:%s:%s", band, x.Kind, variant)
		nt := pairs > 0
		vk.Case(nt, fp)
		if vk.WantSample(nt) {
			vk.Sample(nt, c35Sample{Version: v, Target: x.String(), Variant: variant, Group: g.render(), Pairs: recs, Failed: failed})
		}
	})
}
