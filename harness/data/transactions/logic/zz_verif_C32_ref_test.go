package logic

// C32 — reference semantics of the arithmetic / comparison / bitwise / byte-math / conversion / wide-arithmetic opcodes.
//
// Everything in this file is written from the opcode documentation shipped in the repository
// (data/transactions/logic/TEAL_opcodes_v{1..13}.md: the "Bytecode", "Stack", "Availability" lines and the prose of
// every op; langspec_v*.json NamedTypes for the `bigint` bound of 64 bytes), NOT from eval.go. Opcode bytes and
// introduction versions are hard-coded here and cross-checked against the versioned documents at run time
// (c32CheckTableAgainstDocs). All arithmetic is done in math/big so that no 64-bit wrap-around can hide in the oracle.

import (
	"bytes"
	"math/big"
)

// c32Val is an AVM stack value in the reference world.
type c32Val struct {
	isB bool
	u   uint64
	b   []byte
}

func c32U(x uint64) c32Val  { return c32Val{u: x} }
func c32B(b []byte) c32Val  { return c32Val{isB: true, b: b} }
func c32Bool(c bool) c32Val {
	if c {
		return c32Val{u: 1}
	}
	return c32Val{u: 0}
}

var (
	c32One    = big.NewInt(1)
	c32Two64  = new(big.Int).Lsh(big.NewInt(1), 64)
	c32Two128 = new(big.Int).Lsh(big.NewInt(1), 128)
	c32Max64  = new(big.Int).Sub(new(big.Int).Lsh(big.NewInt(1), 64), big.NewInt(1))
)

func c32Big(x uint64) *big.Int { return new(big.Int).SetUint64(x) }

// c32Int interprets a value as the documentation does: uint64 as itself, byte-array as big-endian unsigned integer.
func c32Int(v c32Val) *big.Int {
	if v.isB {
		return new(big.Int).SetBytes(v.b)
	}
	return c32Big(v.u)
}

// c32FromBig converts a result known to be in [0, 2^64) to a uint64 value (panics otherwise: an oracle bug).
func c32FromBig(z *big.Int) c32Val {
	if z.Sign() < 0 || z.Cmp(c32Two64) >= 0 {
		panic("c32 oracle: result out of uint64 range: " + z.String())
	}
	return c32U(z.Uint64())
}

// c32MinBytes: shortest big-endian byte-array that represents z (zero is the empty array).
func c32MinBytes(z *big.Int) c32Val {
	if z.Sign() < 0 {
		panic("c32 oracle: negative byte-math result")
	}
	out := z.Bytes() // documented: big-endian, no leading zero byte
	if len(out) > 0 && out[0] == 0 {
		panic("c32 oracle: big.Int.Bytes not minimal")
	}
	if out == nil {
		out = []byte{}
	}
	return c32B(out)
}

// c32FixedBytes: big-endian representation of z in exactly n bytes.
func c32FixedBytes(z *big.Int, n int) c32Val {
	if z.Sign() < 0 || z.BitLen() > 8*n {
		panic("c32 oracle: value does not fit fixed width")
	}
	return c32B(z.FillBytes(make([]byte, n)))
}

// hi/lo split of a value < 2^128
func c32HiLo(z *big.Int) (c32Val, c32Val) {
	if z.Sign() < 0 || z.Cmp(c32Two128) >= 0 {
		panic("c32 oracle: result out of uint128 range")
	}
	hi := new(big.Int).Rsh(z, 64)
	lo := new(big.Int).Mod(z, c32Two64)
	return c32FromBig(hi), c32FromBig(lo)
}

func c32Wide(hi, lo c32Val) *big.Int {
	z := new(big.Int).Lsh(c32Big(hi.u), 64)
	return z.Add(z, c32Big(lo.u))
}

type c32Ref func(a []c32Val) (res []c32Val, fail bool)

// c32Op is one row of the reference table.
type c32Op struct {
	name  string // mnemonic as in the docs ("## name" heading)
	label string // name + operand-kind suffix where an op accepts several kinds
	code  byte   // "Bytecode:" line of the docs
	intro uint64 // "Availability: vN" line of the docs (1 when absent)
	args  string // 'i' uint64 operand, 'b' byte-array operand (any length <= 4096), 'I' byte-math operand ("bigint")
	nres  int    // values pushed on success
	ref   c32Ref
	okL   string
	failL string
}

// pow computes a^b with the documented failure cases; limit is 2^64 (exp) or 2^128 (expw).
func c32Pow(a, b uint64, limitBits uint) (*big.Int, bool) {
	if a == 0 && b == 0 {
		return nil, true // "Fail if A == B == 0"
	}
	if a == 0 {
		return big.NewInt(0), false
	}
	if a == 1 || b == 0 {
		return big.NewInt(1), false
	}
	// a >= 2, b >= 1: a^b >= 2^b, so b >= limitBits certainly exceeds the result range
	if b >= uint64(limitBits) {
		return nil, true
	}
	z := new(big.Int).Exp(c32Big(a), c32Big(b), nil)
	if uint(z.BitLen()) > limitBits {
		return nil, true
	}
	return z, false
}

func c32Table() []c32Op {
	var ops []c32Op
	add := func(name, suffix string, code byte, intro uint64, args string, nres int, ref c32Ref) {
		l := name + suffix
		ops = append(ops, c32Op{name: name, label: l, code: code, intro: intro, args: args, nres: nres, ref: ref, okL: l + "/ok", failL: l + "/fail"})
	}
	one := func(v c32Val) []c32Val { return []c32Val{v} }

	// ---- uint64 arithmetic
	add("+", "", 0x08, 1, "ii", 1, func(a []c32Val) ([]c32Val, bool) { // "A plus B. Fail on overflow."
		s := new(big.Int).Add(c32Int(a[0]), c32Int(a[1]))
		if s.Cmp(c32Max64) > 0 {
			return nil, true
		}
		return one(c32FromBig(s)), false
	})
	add("-", "", 0x09, 1, "ii", 1, func(a []c32Val) ([]c32Val, bool) { // "A minus B. Fail if B > A."
		if c32Int(a[1]).Cmp(c32Int(a[0])) > 0 {
			return nil, true
		}
		return one(c32FromBig(new(big.Int).Sub(c32Int(a[0]), c32Int(a[1])))), false
	})
	add("/", "", 0x0a, 1, "ii", 1, func(a []c32Val) ([]c32Val, bool) { // "truncated division. Fail if B == 0."
		if c32Int(a[1]).Sign() == 0 {
			return nil, true
		}
		return one(c32FromBig(new(big.Int).Quo(c32Int(a[0]), c32Int(a[1])))), false
	})
	add("*", "", 0x0b, 1, "ii", 1, func(a []c32Val) ([]c32Val, bool) { // "A times B. Fail on overflow."
		p := new(big.Int).Mul(c32Int(a[0]), c32Int(a[1]))
		if p.Cmp(c32Max64) > 0 {
			return nil, true
		}
		return one(c32FromBig(p)), false
	})
	cmpOp := func(name string, code byte, intro uint64, args string, f func(c int) bool) {
		add(name, "", code, intro, args, 1, func(a []c32Val) ([]c32Val, bool) {
			return one(c32Bool(f(c32Int(a[0]).Cmp(c32Int(a[1]))))), false
		})
	}
	cmpOp("<", 0x0c, 1, "ii", func(c int) bool { return c < 0 })
	cmpOp(">", 0x0d, 1, "ii", func(c int) bool { return c > 0 })
	cmpOp("<=", 0x0e, 1, "ii", func(c int) bool { return c <= 0 })
	cmpOp(">=", 0x0f, 1, "ii", func(c int) bool { return c >= 0 })
	add("&&", "", 0x10, 1, "ii", 1, func(a []c32Val) ([]c32Val, bool) {
		return one(c32Bool(c32Int(a[0]).Sign() != 0 && c32Int(a[1]).Sign() != 0)), false
	})
	add("||", "", 0x11, 1, "ii", 1, func(a []c32Val) ([]c32Val, bool) {
		return one(c32Bool(c32Int(a[0]).Sign() != 0 || c32Int(a[1]).Sign() != 0)), false
	})
	// == and != : "A is equal to B" — on uint64s numerically, on byte-arrays as arrays (same-kind operands only:
	// the docs are silent about mixed kinds).
	add("==", "(u)", 0x12, 1, "ii", 1, func(a []c32Val) ([]c32Val, bool) { return one(c32Bool(c32Int(a[0]).Cmp(c32Int(a[1])) == 0)), false })
	add("!=", "(u)", 0x13, 1, "ii", 1, func(a []c32Val) ([]c32Val, bool) { return one(c32Bool(c32Int(a[0]).Cmp(c32Int(a[1])) != 0)), false })
	add("==", "(b)", 0x12, 1, "bb", 1, func(a []c32Val) ([]c32Val, bool) { return one(c32Bool(bytes.Equal(a[0].b, a[1].b))), false })
	add("!=", "(b)", 0x13, 1, "bb", 1, func(a []c32Val) ([]c32Val, bool) { return one(c32Bool(!bytes.Equal(a[0].b, a[1].b))), false })
	add("!", "", 0x14, 1, "i", 1, func(a []c32Val) ([]c32Val, bool) { return one(c32Bool(c32Int(a[0]).Sign() == 0)), false })
	add("len", "", 0x15, 1, "b", 1, func(a []c32Val) ([]c32Val, bool) { return one(c32U(uint64(len(a[0].b)))), false })
	add("itob", "", 0x16, 1, "i", 1, func(a []c32Val) ([]c32Val, bool) { // "big-endian byte array, always of length 8"
		return one(c32FixedBytes(c32Int(a[0]), 8)), false
	})
	add("btoi", "", 0x17, 1, "b", 1, func(a []c32Val) ([]c32Val, bool) { // "Fails if len(A) > 8. Padded by leading 0s if len(A) < 8."
		if len(a[0].b) > 8 {
			return nil, true
		}
		return one(c32FromBig(c32Int(a[0]))), false
	})
	add("%", "", 0x18, 1, "ii", 1, func(a []c32Val) ([]c32Val, bool) { // "A modulo B. Fail if B == 0."
		if c32Int(a[1]).Sign() == 0 {
			return nil, true
		}
		return one(c32FromBig(new(big.Int).Rem(c32Int(a[0]), c32Int(a[1])))), false
	})
	add("|", "", 0x19, 1, "ii", 1, func(a []c32Val) ([]c32Val, bool) { return one(c32FromBig(new(big.Int).Or(c32Int(a[0]), c32Int(a[1])))), false })
	add("&", "", 0x1a, 1, "ii", 1, func(a []c32Val) ([]c32Val, bool) { return one(c32FromBig(new(big.Int).And(c32Int(a[0]), c32Int(a[1])))), false })
	add("^", "", 0x1b, 1, "ii", 1, func(a []c32Val) ([]c32Val, bool) { return one(c32FromBig(new(big.Int).Xor(c32Int(a[0]), c32Int(a[1])))), false })
	add("~", "", 0x1c, 1, "i", 1, func(a []c32Val) ([]c32Val, bool) { // "bitwise invert value A" (64 bits)
		return one(c32FromBig(new(big.Int).Sub(c32Max64, c32Int(a[0])))), false
	})
	add("mulw", "", 0x1d, 1, "ii", 2, func(a []c32Val) ([]c32Val, bool) { // "X is the high 64 bits, Y is the low"
		hi, lo := c32HiLo(new(big.Int).Mul(c32Int(a[0]), c32Int(a[1])))
		return []c32Val{hi, lo}, false
	})
	add("addw", "", 0x1e, 2, "ii", 2, func(a []c32Val) ([]c32Val, bool) { // "X is the carry-bit, Y is the low-order 64 bits"
		hi, lo := c32HiLo(new(big.Int).Add(c32Int(a[0]), c32Int(a[1])))
		return []c32Val{hi, lo}, false
	})
	add("divmodw", "", 0x1f, 4, "iiii", 4, func(a []c32Val) ([]c32Val, bool) { // "W,X = (A,B / C,D); Y,Z = (A,B modulo C,D). Fail if C,D == 0"
		n, d := c32Wide(a[0], a[1]), c32Wide(a[2], a[3])
		if d.Sign() == 0 {
			return nil, true
		}
		q, r := new(big.Int).QuoRem(n, d, new(big.Int))
		w, x := c32HiLo(q)
		y, z := c32HiLo(r)
		return []c32Val{w, x, y, z}, false
	})

	// ---- bits and bytes (v3)
	add("getbit", "(u)", 0x53, 3, "ii", 1, func(a []c32Val) ([]c32Val, bool) {
		// "If B is greater than or equal to the bit length of the value, the program fails"; uint64: index 0 is the least significant bit
		if a[1].u >= 64 {
			return nil, true
		}
		return one(c32U(uint64(c32Int(a[0]).Bit(int(a[1].u))))), false
	})
	add("getbit", "(b)", 0x53, 3, "bi", 1, func(a []c32Val) ([]c32Val, bool) {
		// byte array: "index 0 is the leftmost bit of the leftmost byte"; bit length is 8*byte length
		nbits := new(big.Int).Mul(big.NewInt(8), big.NewInt(int64(len(a[0].b))))
		if c32Big(a[1].u).Cmp(nbits) >= 0 {
			return nil, true
		}
		pos := int(nbits.Int64()) - 1 - int(a[1].u)
		return one(c32U(uint64(c32Int(a[0]).Bit(pos)))), false
	})
	// setbit: C documented as "(0 or 1)"; the table rows are only exercised with C in {0,1}
	add("setbit", "(u)", 0x54, 3, "iii", 1, func(a []c32Val) ([]c32Val, bool) {
		if a[1].u >= 64 {
			return nil, true
		}
		return one(c32FromBig(new(big.Int).SetBit(c32Int(a[0]), int(a[1].u), uint(a[2].u)))), false
	})
	add("setbit", "(b)", 0x54, 3, "bii", 1, func(a []c32Val) ([]c32Val, bool) {
		nbits := new(big.Int).Mul(big.NewInt(8), big.NewInt(int64(len(a[0].b))))
		if c32Big(a[1].u).Cmp(nbits) >= 0 {
			return nil, true
		}
		pos := int(nbits.Int64()) - 1 - int(a[1].u)
		return one(c32FixedBytes(new(big.Int).SetBit(c32Int(a[0]), pos, uint(a[2].u)), len(a[0].b))), false
	})
	add("getbyte", "", 0x55, 3, "bi", 1, func(a []c32Val) ([]c32Val, bool) { // "If B is greater than or equal to the array length, the program fails"
		if c32Big(a[1].u).Cmp(big.NewInt(int64(len(a[0].b)))) >= 0 {
			return nil, true
		}
		return one(c32U(uint64(a[0].b[a[1].u]))), false
	})
	// setbyte: C documented as "small integer (between 0..255)"; only exercised with C in 0..255
	add("setbyte", "", 0x56, 3, "bii", 1, func(a []c32Val) ([]c32Val, bool) {
		if c32Big(a[1].u).Cmp(big.NewInt(int64(len(a[0].b)))) >= 0 {
			return nil, true
		}
		out := append([]byte{}, a[0].b...)
		out[a[1].u] = byte(a[2].u)
		return one(c32B(out)), false
	})
	// extract_uintN (v5): "If B+N is larger than the array length, the program fails" (B+N in unbounded arithmetic)
	for _, e := range []struct {
		name string
		code byte
		n    int
	}{{"extract_uint16", 0x59, 2}, {"extract_uint32", 0x5a, 4}, {"extract_uint64", 0x5b, 8}} {
		n := e.n
		add(e.name, "", e.code, 5, "bi", 1, func(a []c32Val) ([]c32Val, bool) {
			end := new(big.Int).Add(c32Big(a[1].u), big.NewInt(int64(n)))
			if end.Cmp(big.NewInt(int64(len(a[0].b)))) > 0 {
				return nil, true
			}
			s := int(a[1].u)
			return one(c32FromBig(new(big.Int).SetBytes(a[0].b[s : s+n]))), false
		})
	}

	// ---- more math (v4)
	add("shl", "", 0x90, 4, "ii", 1, func(a []c32Val) ([]c32Val, bool) { // "A times 2^B, modulo 2^64. Fail if B > 63"
		if a[1].u > 63 {
			return nil, true
		}
		z := new(big.Int).Mul(c32Int(a[0]), new(big.Int).Exp(big.NewInt(2), c32Int(a[1]), nil))
		return one(c32FromBig(z.Mod(z, c32Two64))), false
	})
	add("shr", "", 0x91, 4, "ii", 1, func(a []c32Val) ([]c32Val, bool) { // "A divided by 2^B. Fail if B > 63"
		if a[1].u > 63 {
			return nil, true
		}
		return one(c32FromBig(new(big.Int).Quo(c32Int(a[0]), new(big.Int).Exp(big.NewInt(2), c32Int(a[1]), nil)))), false
	})
	add("sqrt", "", 0x92, 4, "i", 1, func(a []c32Val) ([]c32Val, bool) { // "The largest integer I such that I^2 <= A"
		return one(c32FromBig(new(big.Int).Sqrt(c32Int(a[0])))), false
	})
	// bitlen: "The highest set bit in A. If A is a byte-array, it is interpreted as a big-endian unsigned integer. bitlen of 0 is 0, bitlen of 8 is 4"
	add("bitlen", "(u)", 0x93, 4, "i", 1, func(a []c32Val) ([]c32Val, bool) { return one(c32U(uint64(c32Int(a[0]).BitLen()))), false })
	add("bitlen", "(b)", 0x93, 4, "b", 1, func(a []c32Val) ([]c32Val, bool) { return one(c32U(uint64(c32Int(a[0]).BitLen()))), false })
	add("exp", "", 0x94, 4, "ii", 1, func(a []c32Val) ([]c32Val, bool) { // "Fail if A == B == 0 and on overflow"
		z, fail := c32Pow(a[0].u, a[1].u, 64)
		if fail {
			return nil, true
		}
		return one(c32FromBig(z)), false
	})
	add("expw", "", 0x95, 4, "ii", 2, func(a []c32Val) ([]c32Val, bool) { // "Fail if A == B == 0 or if the results exceeds 2^128-1"
		z, fail := c32Pow(a[0].u, a[1].u, 128)
		if fail {
			return nil, true
		}
		hi, lo := c32HiLo(z)
		return []c32Val{hi, lo}, false
	})
	add("bsqrt", "", 0x96, 6, "I", 1, func(a []c32Val) ([]c32Val, bool) { // bigint operand (<= 64 bytes); largest I with I^2 <= A
		if len(a[0].b) > 64 {
			return nil, true
		}
		return one(c32MinBytes(new(big.Int).Sqrt(c32Int(a[0])))), false
	})
	add("divw", "", 0x97, 6, "iii", 1, func(a []c32Val) ([]c32Val, bool) { // "A,B / C. Fail if C == 0 or if result overflows."
		if a[2].u == 0 {
			return nil, true
		}
		q := new(big.Int).Quo(c32Wide(a[0], a[1]), c32Int(a[2]))
		if q.Cmp(c32Max64) > 0 {
			return nil, true
		}
		return one(c32FromBig(q)), false
	})

	// ---- byte-array arithmetic (v4): operands are `bigint` (at most 64 bytes), interpreted as big-endian unsigned
	// integers; results are the shortest byte-array representing the value (AVM specification, "Byte Array Arithmetic").
	bm := func(name string, code byte, f func(x, y *big.Int) (*big.Int, bool)) {
		add(name, "", code, 4, "II", 1, func(a []c32Val) ([]c32Val, bool) {
			if len(a[0].b) > 64 || len(a[1].b) > 64 {
				return nil, true
			}
			z, fail := f(c32Int(a[0]), c32Int(a[1]))
			if fail {
				return nil, true
			}
			return one(c32MinBytes(z)), false
		})
	}
	bm("b+", 0xa0, func(x, y *big.Int) (*big.Int, bool) { return new(big.Int).Add(x, y), false })
	bm("b-", 0xa1, func(x, y *big.Int) (*big.Int, bool) { // "Fail on underflow."
		if x.Cmp(y) < 0 {
			return nil, true
		}
		return new(big.Int).Sub(x, y), false
	})
	bm("b/", 0xa2, func(x, y *big.Int) (*big.Int, bool) { // "Fail if B is zero."
		if y.Sign() == 0 {
			return nil, true
		}
		return new(big.Int).Quo(x, y), false
	})
	bm("b*", 0xa3, func(x, y *big.Int) (*big.Int, bool) { return new(big.Int).Mul(x, y), false })
	bm("b%", 0xaa, func(x, y *big.Int) (*big.Int, bool) { // "Fail if B is zero."
		if y.Sign() == 0 {
			return nil, true
		}
		return new(big.Int).Rem(x, y), false
	})
	bc := func(name string, code byte, f func(c int) bool) {
		add(name, "", code, 4, "II", 1, func(a []c32Val) ([]c32Val, bool) {
			if len(a[0].b) > 64 || len(a[1].b) > 64 {
				return nil, true
			}
			return one(c32Bool(f(c32Int(a[0]).Cmp(c32Int(a[1]))))), false
		})
	}
	bc("b<", 0xa4, func(c int) bool { return c < 0 })
	bc("b>", 0xa5, func(c int) bool { return c > 0 })
	bc("b<=", 0xa6, func(c int) bool { return c <= 0 })
	bc("b>=", 0xa7, func(c int) bool { return c >= 0 })
	bc("b==", 0xa8, func(c int) bool { return c == 0 })
	bc("b!=", 0xa9, func(c int) bool { return c != 0 })
	// byte-array logic: "A and B are zero-left extended to the greater of their lengths" ([]byte operands, any length)
	bl := func(name string, code byte, f func(z, x, y *big.Int) *big.Int) {
		add(name, "", code, 4, "bb", 1, func(a []c32Val) ([]c32Val, bool) {
			n := len(a[0].b)
			if len(a[1].b) > n {
				n = len(a[1].b)
			}
			return one(c32FixedBytes(f(new(big.Int), c32Int(a[0]), c32Int(a[1])), n)), false
		})
	}
	bl("b|", 0xab, (*big.Int).Or)
	bl("b&", 0xac, (*big.Int).And)
	bl("b^", 0xad, (*big.Int).Xor)
	add("b~", "", 0xae, 4, "b", 1, func(a []c32Val) ([]c32Val, bool) { // "A with all bits inverted"
		n := len(a[0].b)
		all := new(big.Int).Sub(new(big.Int).Lsh(c32One, uint(8*n)), c32One)
		return one(c32FixedBytes(all.Sub(all, c32Int(a[0])), n)), false
	})
	add("bzero", "", 0xaf, 4, "i", 1, func(a []c32Val) ([]c32Val, bool) { // "zero filled byte-array of length A. Fail if A exceeds 4096"
		if a[0].u > 4096 {
			return nil, true
		}
		return one(c32B(make([]byte, a[0].u))), false
	})
	return ops
}
