package logic

// C32 — AVM opcodes compute exactly their specified results.
//
// Every case is a tiny program `#pragma version v; <push operands>; <op>` run through the public EvalSignatureFull
// entry point. The final stack (or the fact that the op itself failed) is compared with the independent reference
// table of zz_verif_C32_ref_test.go (math/big, written from TEAL_opcodes_v*.md).

import (
	"bytes"
	"encoding/binary"
	"encoding/hex"
	"encoding/json"
	"errors"
	"fmt"
	"math"
	"math/big"
	"os"
	"path/filepath"
	"regexp"
	"strconv"
	"strings"
	"testing"

	"github.com/algorand/go-algorand/data/transactions"
	"pgregory.net/rapid"
)

var c32Ops = c32Table()

var c32Proto = makeTestProto() // LogicSigVersion = LogicVersion, LogicSigMaxCost = 25000; shared read-only

// c32Case is the replayable rendering of one case.
type c32Case struct {
	Op       string   `json:"op"` // label in the reference table
	Version  uint64   `json:"version"`
	Args     []string `json:"args"`     // "u:<decimal>" or "b:<hex>"
	Style    int      `json:"style"`    // 0 const blocks, 1 pushint/pushbytes, 2 ints by intcblock + bytes by lsig args
	Sentinel int      `json:"sentinel"` // 0 none, 1 uint below the operands, 2 byte-array below the operands
}

func c32Render(v c32Val) string {
	if v.isB {
		return "b:" + hex.EncodeToString(v.b)
	}
	return "u:" + strconv.FormatUint(v.u, 10)
}

func c32Parse(s string) (c32Val, error) {
	switch {
	case strings.HasPrefix(s, "u:"):
		u, err := strconv.ParseUint(s[2:], 10, 64)
		return c32U(u), err
	case strings.HasPrefix(s, "b:"):
		b, err := hex.DecodeString(s[2:])
		if b == nil {
			b = []byte{}
		}
		return c32B(b), err
	}
	return c32Val{}, fmt.Errorf("bad value %q", s)
}

func c32MakeCase(op *c32Op, version uint64, args []c32Val, style, sentinel int) c32Case {
	c := c32Case{Op: op.label, Version: version, Style: style, Sentinel: sentinel}
	for _, a := range args {
		c.Args = append(c.Args, c32Render(a))
	}
	return c
}

func c32Fingerprint(op *c32Op, version uint64, args []c32Val) string {
	buf := make([]byte, 0, 64)
	buf = append(buf, op.label...)
	buf = append(buf, '/')
	buf = strconv.AppendUint(buf, version, 10)
	for _, a := range args {
		buf = append(buf, '/')
		if a.isB {
			buf = append(buf, 'x')
			buf = hex.AppendEncode(buf, a.b)
		} else {
			buf = strconv.AppendUint(buf, a.u, 10)
		}
	}
	return string(buf)
}

var c32SentinelU = c32U(0x5e5e5e5e5e5e5e5e)
var c32SentinelB = c32B([]byte("c32-sentinel"))

// c32Build assembles the program by hand (opcode bytes from the docs: intcblock 0x20, intc 0x21, bytecblock 0x26,
// bytec 0x27, arg 0x2c, pushbytes 0x80, pushint 0x81).
func c32Build(op *c32Op, version uint64, vals []c32Val, style int) (prog []byte, lsigArgs [][]byte, opPC int) {
	if version < 3 && style == 1 {
		style = 0 // pushint/pushbytes are v3
	}
	prog = binary.AppendUvarint(nil, version)
	if style == 1 {
		for _, v := range vals {
			if v.isB {
				prog = append(prog, 0x80)
				prog = binary.AppendUvarint(prog, uint64(len(v.b)))
				prog = append(prog, v.b...)
			} else {
				prog = append(prog, 0x81)
				prog = binary.AppendUvarint(prog, v.u)
			}
		}
	} else {
		var ints []uint64
		var bss [][]byte
		for _, v := range vals {
			if v.isB {
				bss = append(bss, v.b)
			} else {
				ints = append(ints, v.u)
			}
		}
		if len(ints) > 0 {
			prog = append(prog, 0x20)
			prog = binary.AppendUvarint(prog, uint64(len(ints)))
			for _, x := range ints {
				prog = binary.AppendUvarint(prog, x)
			}
		}
		if style == 2 {
			lsigArgs = bss
		} else if len(bss) > 0 {
			prog = append(prog, 0x26)
			prog = binary.AppendUvarint(prog, uint64(len(bss)))
			for _, b := range bss {
				prog = binary.AppendUvarint(prog, uint64(len(b)))
				prog = append(prog, b...)
			}
		}
		ii, bi := 0, 0
		for _, v := range vals {
			if v.isB {
				if style == 2 {
					prog = append(prog, 0x2c, byte(bi))
				} else {
					prog = append(prog, 0x27, byte(bi))
				}
				bi++
			} else {
				prog = append(prog, 0x21, byte(ii))
				ii++
			}
		}
	}
	opPC = len(prog)
	prog = append(prog, op.code)
	return prog, lsigArgs, opPC
}

func c32SameSV(sv stackValue, want c32Val) bool {
	if want.isB {
		return sv.Bytes != nil && bytes.Equal(sv.Bytes, want.b)
	}
	return sv.Bytes == nil && sv.Uint == want.u
}

func c32StackString(st []stackValue) string {
	parts := make([]string, len(st))
	for i, sv := range st {
		if sv.Bytes != nil {
			parts[i] = "0x" + hex.EncodeToString(sv.Bytes)
			if len(parts[i]) > 150 {
				parts[i] = fmt.Sprintf("%s...(%d bytes)", parts[i][:150], len(sv.Bytes))
			}
		} else {
			parts[i] = strconv.FormatUint(sv.Uint, 10)
		}
	}
	return "[" + strings.Join(parts, " ") + "]"
}

func c32ValsString(vs []c32Val) string {
	parts := make([]string, len(vs))
	for i, v := range vs {
		parts[i] = c32Render(v)
		if len(parts[i]) > 150 {
			parts[i] = fmt.Sprintf("%s...(%d bytes)", parts[i][:150], len(v.b))
		}
	}
	return "[" + strings.Join(parts, " ") + "]"
}

// c32Verify runs one case and compares with the reference. It returns whether the reference predicts failure and a
// non-empty message when the implementation disagrees with the reference.
func c32Verify(op *c32Op, version uint64, args []c32Val, style, sentinel int) (predFail bool, violation string) {
	want, predFail := op.ref(args)
	vals := args
	switch sentinel {
	case 1:
		vals = append([]c32Val{c32SentinelU}, args...)
		want = append([]c32Val{c32SentinelU}, want...)
	case 2:
		vals = append([]c32Val{c32SentinelB}, args...)
		want = append([]c32Val{c32SentinelB}, want...)
	}
	prog, lsigArgs, opPC := c32Build(op, version, vals, style)

	var stxn transactions.SignedTxn
	stxn.Lsig.Logic = prog
	stxn.Lsig.Args = lsigArgs
	ep := NewSigEvalParams([]transactions.SignedTxn{stxn}, c32Proto, &NoHeaderLedger{})
	_, cx, err := EvalSignatureFull(0, ep)
	if cx == nil {
		return predFail, fmt.Sprintf("harness: EvalSignatureFull returned no context: %v", err)
	}
	var pe panicError
	if err != nil && errors.As(err, &pe) {
		return predFail, fmt.Sprintf("%s v%d %s: evaluation panicked: %v", op.label, version, c32ValsString(args), pe.PanicValue)
	}
	if err != nil && cx.pc < opPC {
		return predFail, fmt.Sprintf("%s v%d %s: operand setup failed at pc=%d (op at %d): %v", op.label, version, c32ValsString(args), cx.pc, opPC, err)
	}
	opFailed := err != nil && cx.pc == opPC
	if predFail {
		if !opFailed {
			return predFail, fmt.Sprintf("%s v%d %s: documentation says the op fails, but it left stack %s (err=%v)",
				op.label, version, c32ValsString(args), c32StackString(cx.Stack), err)
		}
		return predFail, ""
	}
	if opFailed {
		return predFail, fmt.Sprintf("%s v%d %s: op failed (%v) but the documented result is %s",
			op.label, version, c32ValsString(args), err, c32ValsString(want))
	}
	ok := len(cx.Stack) == len(want)
	for i := 0; ok && i < len(want); i++ {
		ok = c32SameSV(cx.Stack[i], want[i])
	}
	if !ok {
		return predFail, fmt.Sprintf("%s v%d %s: final stack %s, documented result %s",
			op.label, version, c32ValsString(args), c32StackString(cx.Stack), c32ValsString(want))
	}
	return predFail, ""
}

// c32NonTrivial: the reference predicts a failure, or some operand is outside the range where naive native
// arithmetic would do (uint64 >= 2^32; byte-array empty, with a leading zero byte, or longer than 8 bytes).
func c32NonTrivial(predFail bool, args []c32Val) bool {
	if predFail {
		return true
	}
	for _, a := range args {
		if a.isB {
			if len(a.b) == 0 || len(a.b) > 8 || a.b[0] == 0 {
				return true
			}
		} else if a.u >= 1<<32 {
			return true
		}
	}
	return false
}

func c32Versions(op *c32Op) []uint64 {
	var vs []uint64
	if op.intro == 1 {
		vs = append(vs, 0) // version 0 is an alias of v1
	}
	for v := op.intro; v <= LogicVersion; v++ {
		vs = append(vs, v)
	}
	return vs
}

// ---------------------------------------------------------------------------------------------------------------
// boundary domains

func c32UintBoundary() []uint64 {
	out := []uint64{0, 1, 2, 3, 4, 40, 41, 63, 64, 65, 80, 81, 127, 128, 129}
	for _, k := range []uint{8, 16, 31, 32, 33, 63} {
		out = append(out, (uint64(1)<<k)-1, uint64(1)<<k, (uint64(1)<<k)+1)
	}
	out = append(out, math.MaxUint64-1, math.MaxUint64)
	return out
}

func c32UintReduced() []uint64 {
	return []uint64{0, 1, 2, 255, 1<<32 - 1, 1 << 32, 1<<32 + 1, 1<<63 - 1, 1 << 63, 1<<63 + 1, math.MaxUint64 - 1, math.MaxUint64}
}

// medium set for the 4-operand op in the thorough tier (20^4 tuples per version)
func c32UintMedium() []uint64 {
	return append(c32UintReduced(), 3, 0xffff, 1<<16, 1<<31, 1<<33, 1<<32+1<<31, 1<<63+1<<32, math.MaxUint64-(1<<32)+1)
}

func c32Rep(b byte, n int) []byte { return bytes.Repeat([]byte{b}, n) }

func c32Cat(parts ...[]byte) []byte {
	out := []byte{}
	for _, p := range parts {
		out = append(out, p...)
	}
	return out
}

// byte operands for byte math: empty, leading zeros, 1..64 bytes, 65 bytes, all-ff, powers of two, a perfect square
func c32BytesMath() [][]byte {
	sq := new(big.Int).Sub(new(big.Int).Lsh(big.NewInt(1), 256), big.NewInt(1))
	sq.Mul(sq, sq) // (2^256-1)^2, 64 bytes
	return [][]byte{
		{}, {0}, {1}, {2}, {0x7f}, {0x80}, {0xff},
		{0, 0}, {0, 1}, {1, 0}, {0xff, 0xff}, {0, 0xff},
		c32Rep(0xff, 7),
		c32Rep(0xff, 8), c32Cat(c32Rep(0, 7), []byte{1}), c32Cat([]byte{1}, c32Rep(0, 7)), c32Cat([]byte{0x80}, c32Rep(0, 7)),
		c32Cat([]byte{1}, c32Rep(0, 8)), c32Cat([]byte{0}, c32Rep(0xff, 8)),
		c32Rep(0xff, 16), c32Cat([]byte{1}, c32Rep(0, 16)),
		c32Rep(0xff, 32), c32Cat([]byte{1}, c32Rep(0, 31)), c32Cat([]byte{1}, c32Rep(0, 32)),
		c32Rep(0xff, 63),
		c32Rep(0xff, 64), c32Rep(0, 64), c32Cat([]byte{1}, c32Rep(0, 63)), c32Cat(c32Rep(0, 63), []byte{1}),
		c32Cat([]byte{0x80}, c32Rep(0, 63)), c32Cat([]byte{0}, c32Rep(0xff, 63)), c32Cat(c32Rep(0xff, 63), []byte{0xfe}),
		sq.Bytes(),
		c32Rep(0, 65), c32Cat([]byte{0}, c32Rep(0xff, 64)), c32Rep(0xff, 65), c32Cat([]byte{1}, c32Rep(0, 64)), c32Cat(c32Rep(0, 64), []byte{1}),
	}
}

// additional long operands for the ops that accept any []byte
func c32BytesLong() [][]byte {
	return [][]byte{
		c32Rep(0xff, 100), c32Cat(c32Rep(0, 99), []byte{1}),
		c32Rep(0xff, 4096), c32Rep(0, 4096), c32Cat([]byte{1}, c32Rep(0, 4095)),
	}
}

func c32Dedup(xs []uint64) []uint64 {
	seen := map[uint64]bool{}
	var out []uint64
	for _, x := range xs {
		if !seen[x] {
			seen[x] = true
			out = append(out, x)
		}
	}
	return out
}

// indices around a length (values that would be negative are dropped)
func c32Around(base int64, offs ...int64) []uint64 {
	var out []uint64
	for _, o := range offs {
		if base+o >= 0 {
			out = append(out, uint64(base+o))
		}
	}
	return out
}

// c32Enumerate calls fn for every operand tuple of the op's boundary domain. full selects the large uint set for the
// 3-operand ops and the medium set for the 4-operand op (otherwise the reduced set).
func c32Enumerate(op *c32Op, full bool, fn func(args []c32Val)) {
	U := c32UintBoundary()
	R := c32UintReduced()
	math64 := c32BytesMath()
	all := append(append([][]byte{}, math64...), c32BytesLong()...)
	uvals := func(xs []uint64) []c32Val {
		out := make([]c32Val, len(xs))
		for i, x := range xs {
			out[i] = c32U(x)
		}
		return out
	}
	bvals := func(bs [][]byte) []c32Val {
		out := make([]c32Val, len(bs))
		for i, b := range bs {
			out[i] = c32B(b)
		}
		return out
	}
	cross := func(doms ...[]c32Val) {
		idx := make([]int, len(doms))
		for {
			args := make([]c32Val, len(doms))
			for i := range doms {
				args[i] = doms[i][idx[i]]
			}
			fn(args)
			k := len(doms) - 1
			for k >= 0 {
				idx[k]++
				if idx[k] < len(doms[k]) {
					break
				}
				idx[k] = 0
				k--
			}
			if k < 0 {
				return
			}
		}
	}
	far := []uint64{1 << 32, 1 << 61, 1<<61 + 1, math.MaxUint64 - 1, math.MaxUint64}
	bitIdxU := uvals([]uint64{0, 1, 7, 8, 31, 32, 62, 63, 64, 65, 255, 1 << 32, 1 << 63, math.MaxUint64})
	switch op.label {
	case "getbit(u)":
		cross(uvals(U), bitIdxU)
	case "setbit(u)":
		cross(uvals(R), bitIdxU, uvals([]uint64{0, 1}))
	case "getbit(b)", "setbit(b)":
		for _, b := range all {
			l := int64(len(b))
			idx := c32Dedup(append(c32Around(8*l, -8*l, 1-8*l, 7-8*l, 8-8*l, 9-8*l, -9, -8, -1, 0, 1, 7, 8), far...))
			if op.label == "getbit(b)" {
				cross([]c32Val{c32B(b)}, uvals(idx))
			} else {
				cross([]c32Val{c32B(b)}, uvals(idx), uvals([]uint64{0, 1}))
			}
		}
	case "getbyte", "setbyte":
		for _, b := range all {
			l := int64(len(b))
			idx := c32Dedup(append(c32Around(l, -l, 1-l, -2, -1, 0, 1), append([]uint64{255, 256}, far...)...))
			if op.label == "getbyte" {
				cross([]c32Val{c32B(b)}, uvals(idx))
			} else {
				cross([]c32Val{c32B(b)}, uvals(idx), uvals([]uint64{0, 1, 127, 128, 255}))
			}
		}
	case "extract_uint16", "extract_uint32", "extract_uint64":
		n := map[string]int64{"extract_uint16": 2, "extract_uint32": 4, "extract_uint64": 8}[op.label]
		for _, b := range all {
			l := int64(len(b))
			idx := c32Around(l, -l, 1-l, -n-1, -n, -n+1, -1, 0, 1)
			idx = append(idx, math.MaxUint64-uint64(n), math.MaxUint64-uint64(n)+1, math.MaxUint64-1, math.MaxUint64, 1<<32)
			cross([]c32Val{c32B(b)}, uvals(c32Dedup(idx)))
		}
	case "bzero":
		cross(uvals(append(append([]uint64{}, U...), 1000, 4095, 4096, 4097)))
	default:
		doms := make([][]c32Val, len(op.args))
		for i, k := range op.args {
			switch k {
			case 'i':
				switch {
				case len(op.args) >= 3 && !full:
					doms[i] = uvals(R)
				case len(op.args) >= 4:
					doms[i] = uvals(c32UintMedium())
				default:
					doms[i] = uvals(U)
				}
			case 'I':
				doms[i] = bvals(math64)
			case 'b':
				doms[i] = bvals(all)
			}
		}
		cross(doms...)
	}
}

// ---------------------------------------------------------------------------------------------------------------
// the reference table itself is tied to the versioned documents

var c32DocHeading = regexp.MustCompile(`(?m)^## (\S+)\s*$`)

// c32CheckTableAgainstDocs verifies, for every table row and every documented version v (1..13), that
// TEAL_opcodes_v{v}.md lists the op iff v >= intro, with the same opcode byte and operand count.
func c32CheckTableAgainstDocs(t *testing.T, vk *vkCtx) {
	dir := os.Getenv("VERIF_PKGDIR")
	if dir == "" {
		dir = "."
	}
	found := 0
	for v := uint64(1); v <= LogicVersion; v++ {
		raw, err := os.ReadFile(filepath.Join(dir, fmt.Sprintf("TEAL_opcodes_v%d.md", v)))
		if err != nil {
			continue // v14 has no document; a tree without documents gives found == 0 below
		}
		found++
		txt := string(raw)
		secs := map[string]string{}
		locs := c32DocHeading.FindAllStringSubmatchIndex(txt, -1)
		for i, loc := range locs {
			end := len(txt)
			if i+1 < len(locs) {
				end = locs[i+1][0]
			}
			secs[txt[loc[2]:loc[3]]] = txt[loc[1]:end]
		}
		for i := range c32Ops {
			op := &c32Ops[i]
			body, ok := secs[op.name]
			if ok != (v >= op.intro) {
				vk.Failf(nil, "reference table: %s intro v%d, but TEAL_opcodes_v%d.md lists it: %v", op.name, op.intro, v, ok)
			}
			if !ok {
				continue
			}
			if !strings.Contains(body, fmt.Sprintf("- Bytecode: 0x%02x\n", op.code)) {
				vk.Failf(nil, "reference table: %s opcode 0x%02x not found in TEAL_opcodes_v%d.md section", op.name, op.code, v)
			}
			wantAvail := fmt.Sprintf("- Availability: v%d\n", op.intro)
			if op.intro > 1 && !strings.Contains(body, wantAvail) {
				vk.Failf(nil, "reference table: %s availability v%d not confirmed by TEAL_opcodes_v%d.md", op.name, op.intro, v)
			}
			if op.intro == 1 && strings.Contains(body, "- Availability:") {
				vk.Failf(nil, "reference table: %s says v1 but TEAL_opcodes_v%d.md has an Availability line", op.name, v)
			}
			// operand count from the Stack line: "..., A: uint64, B: uint64 &rarr; ..."
			if m := regexp.MustCompile(`(?m)^- Stack: \.\.\.(.*?) &rarr;`).FindStringSubmatch(body); m != nil {
				n := strings.Count(m[1], ",")
				if n != len(op.args) {
					vk.Failf(nil, "reference table: %s has %d operands, doc v%d Stack line has %d", op.name, len(op.args), v, n)
				}
			} else {
				vk.Failf(nil, "reference table: %s: no Stack line in TEAL_opcodes_v%d.md", op.name, v)
			}
			vk.Add("doc_rows_confirmed", 1)
		}
	}
	if found == 0 {
		vk.Failf(nil, "no TEAL_opcodes_v*.md found under %q (VERIF_PKGDIR)", dir)
	}
}

// ---------------------------------------------------------------------------------------------------------------

func TestVerif_C32_Boundary(t *testing.T) {
	vk := vkBegin(t, "C32")
	vk.Rule("for each of the reference-table ops (uint64 arithmetic/comparison/bitwise/shift/exp/sqrt, wide arithmetic, itob/btoi/len/bitlen, get/set bit/byte, extract_uintN, byte math/logic, bzero) and each AVM version that has it (v0 alias included): the full cross product of boundary operands (uint64: 0,1,2,3,2^k-1,2^k,2^k+1 for k in 8,16,31,32,33,63, 2^64-2, 2^64-1, shift/exponent pivots; bytes: empty, leading zeros, 1..64 bytes, 65 bytes, all-ff, powers of 256, long operands for non-math ops; indices around the operand length and near 2^64). Quick: complete at the introduction version and the latest, 1/5 stride elsewhere, reduced uint set for 3/4-operand ops; thorough: complete everywhere, sharded. Non-trivial = the documentation predicts failure, or an operand is >= 2^32 / empty / leading-zero / longer than 8 bytes; distinct by (op, version, operands)")
	vk.Assume("math/big is correct; TEAL_opcodes_v*.md (and the AVM specification for minimal-length byte-math results) is the specification")

	if raw, ok := vkReplayCase(); ok {
		var c c32Case
		if err := json.Unmarshal(raw, &c); err != nil {
			t.Fatalf("bad replay: %v", err)
		}
		for i := range c32Ops {
			if c32Ops[i].label != c.Op {
				continue
			}
			var args []c32Val
			for _, s := range c.Args {
				v, err := c32Parse(s)
				if err != nil {
					t.Fatalf("bad replay: %v", err)
				}
				args = append(args, v)
			}
			pf, msg := c32Verify(&c32Ops[i], c.Version, args, c.Style, c.Sentinel)
			vk.Case(true, c32Fingerprint(&c32Ops[i], c.Version, args))
			vk.Case(true, "replay")
			vk.Sample(true, c)
			if msg != "" {
				vk.Failf(c, "%s", msg)
			}
			t.Logf("replayed case holds (documented failure: %v)", pf)
			return
		}
		t.Fatalf("replay names unknown op %q", c.Op)
	}

	if vkShard() == 0 {
		c32CheckTableAgainstDocs(t, vk)
	}
	thorough := vkThorough()
	shard, nshards := uint64(vkShard()), uint64(vkNShards())
	var counter, ran uint64
	for i := range c32Ops {
		op := &c32Ops[i]
		versions := c32Versions(op)
		for _, v := range versions {
			completeHere := thorough || v == op.intro || v == LogicVersion
			var tuple uint64
			c32Enumerate(op, thorough, func(args []c32Val) {
				tuple++
				if !completeHere && tuple%5 != v%5 {
					return
				}
				counter++
				if counter%nshards != shard {
					return
				}
				ran++
				style := int(counter/nshards) % 3
				sentinel := int(counter/nshards/3) % 3
				predFail, msg := c32Verify(op, v, args, style, sentinel)
				nt := c32NonTrivial(predFail, args)
				vk.Case(nt, c32Fingerprint(op, v, args))
				if predFail {
					vk.Label(op.failL)
				} else {
					vk.Label(op.okL)
				}
				if msg != "" {
					c := c32MakeCase(op, v, args, style, sentinel)
					vk.Sample(true, c)
					vk.Failf(c, "%s", msg)
				}
				if vk.WantSample(nt) && counter%977 == 1 {
					vk.Sample(nt, c32MakeCase(op, v, args, style, sentinel))
				}
			})
		}
	}
	vk.Add("boundary_cases", int64(ran))
	if thorough {
		vk.Exhaustive("cross product of the boundary operand sets for every reference-table op in every version that has it (split over the shards)")
	} else {
		vk.Exhaustive("cross product of the boundary operand sets for every reference-table op at its introduction version and at the latest version (reduced uint set for divw/divmodw/setbit)")
	}
}

// ---------------------------------------------------------------------------------------------------------------
// random operands

func c32GenU64() *rapid.Generator[uint64] {
	return rapid.Custom(func(t *rapid.T) uint64 {
		switch rapid.IntRange(0, 9).Draw(t, "ukind") {
		case 0, 1:
			return rapid.Uint64().Draw(t, "u")
		case 2:
			return rapid.Uint64Range(0, 5).Draw(t, "small")
		case 3:
			return math.MaxUint64 - rapid.Uint64Range(0, 4).Draw(t, "nearmax")
		case 4, 5:
			k := rapid.IntRange(1, 63).Draw(t, "k")
			d := rapid.Uint64Range(0, 2).Draw(t, "d")
			return (uint64(1) << uint(k)) + d - 1
		case 6:
			return uint64(1<<32) + uint64(rapid.IntRange(-3, 3).Draw(t, "s"))
		case 7:
			return rapid.Uint64Range(0, 300).Draw(t, "byteish")
		default:
			k := rapid.IntRange(0, 64).Draw(t, "bits")
			if k == 0 {
				return 0
			}
			return rapid.Uint64().Draw(t, "u") >> uint(64-k)
		}
	})
}

func c32GenBytes(long bool) *rapid.Generator[[]byte] {
	return rapid.Custom(func(t *rapid.T) []byte {
		var n int
		switch rapid.IntRange(0, 9).Draw(t, "lkind") {
		case 0, 1, 2:
			n = rapid.SampledFrom([]int{0, 1, 2, 7, 8, 9, 16, 31, 32, 33, 63, 64, 65, 66}).Draw(t, "len")
		case 3:
			if long {
				n = rapid.SampledFrom([]int{100, 1000, 4095, 4096}).Draw(t, "longlen")
			} else {
				n = 64
			}
		default:
			n = rapid.IntRange(0, 70).Draw(t, "len")
		}
		b := make([]byte, n)
		switch rapid.IntRange(0, 6).Draw(t, "ckind") {
		case 0:
			// all zero
		case 1:
			for i := range b {
				b[i] = 0xff
			}
		case 2: // leading zeros then random
			z := rapid.IntRange(0, n).Draw(t, "zeros")
			seed := rapid.Uint64().Draw(t, "seed")
			for i := z; i < n; i++ {
				seed = seed*6364136223846793005 + 1442695040888963407
				b[i] = byte(seed >> 56)
			}
		case 3: // single set bit
			if n > 0 {
				p := rapid.IntRange(0, 8*n-1).Draw(t, "bit")
				b[p/8] = 0x80 >> uint(p%8)
			}
		default:
			seed := rapid.Uint64().Draw(t, "seed")
			for i := range b {
				seed = seed*6364136223846793005 + 1442695040888963407
				b[i] = byte(seed >> 56)
			}
		}
		return b
	})
}

// integer k-th root of 2^bits (floor), for exp/expw overflow boundaries
func c32RootOfLimit(bits uint, k uint64) uint64 {
	lim := new(big.Int).Lsh(big.NewInt(1), bits)
	lo, hi := uint64(1), uint64(math.MaxUint64)
	for lo < hi { // largest r with r^k < 2^bits
		mid := lo + (hi-lo)/2 + 1
		if new(big.Int).Exp(c32Big(mid), c32Big(k), nil).Cmp(lim) < 0 {
			lo = mid
		} else {
			hi = mid - 1
		}
	}
	return lo
}

func c32PerturbBytes(t *rapid.T, b []byte) []byte {
	switch rapid.IntRange(0, 5).Draw(t, "perturb") {
	case 0:
		return append([]byte{}, b...)
	case 1:
		if len(b) >= 4096 {
			return append([]byte{}, b...)
		}
		return append([]byte{0}, b...)
	case 2:
		return append([]byte{}, bytes.TrimLeft(b, "\x00")...)
	case 3, 4: // value +1 / -1 rendered in the same width when it fits
		z := new(big.Int).SetBytes(b)
		if rapid.Bool().Draw(t, "plus") {
			z.Add(z, c32One)
		} else if z.Sign() > 0 {
			z.Sub(z, c32One)
		}
		out := z.Bytes()
		if len(out) < len(b) {
			out = append(make([]byte, len(b)-len(out)), out...)
		}
		return out
	default:
		out := append([]byte{}, b...)
		if len(out) > 0 {
			i := rapid.IntRange(0, len(out)-1).Draw(t, "flip")
			out[i] ^= 1 << uint(rapid.IntRange(0, 7).Draw(t, "flipbit"))
		}
		return out
	}
}

func c32DrawArgs(t *rapid.T, op *c32Op) []c32Val {
	args := make([]c32Val, len(op.args))
	for i, k := range op.args {
		switch k {
		case 'i':
			args[i] = c32U(c32GenU64().Draw(t, fmt.Sprintf("a%d", i)))
		case 'I':
			args[i] = c32B(c32GenBytes(false).Draw(t, fmt.Sprintf("a%d", i)))
		case 'b':
			args[i] = c32B(c32GenBytes(true).Draw(t, fmt.Sprintf("a%d", i)))
		}
	}
	shaped := rapid.IntRange(0, 3).Draw(t, "shaped") != 0
	l := uint64(0)
	if len(args) > 0 && args[0].isB {
		l = uint64(len(args[0].b))
	}
	switch op.label {
	case "getbit(u)", "setbit(u)", "shl", "shr":
		if shaped {
			args[1] = c32U(rapid.Uint64Range(0, 66).Draw(t, "idx"))
		}
	case "getbit(b)", "setbit(b)":
		if shaped {
			args[1] = c32U(rapid.Uint64Range(0, 8*l+9).Draw(t, "idx"))
		}
	case "getbyte", "setbyte", "extract_uint16", "extract_uint32", "extract_uint64":
		if shaped {
			args[1] = c32U(rapid.Uint64Range(0, l+2).Draw(t, "idx"))
		}
	case "bzero":
		if shaped {
			args[0] = c32U(rapid.Uint64Range(0, 4100).Draw(t, "n"))
		}
	case "btoi":
		if shaped && len(args[0].b) > 10 {
			args[0] = c32B(args[0].b[:rapid.IntRange(0, 10).Draw(t, "blen")])
		}
	case "exp", "expw":
		if shaped {
			bits := uint(64)
			if op.label == "expw" {
				bits = 128
			}
			if rapid.Bool().Draw(t, "root") {
				k := rapid.Uint64Range(2, uint64(bits)+1).Draw(t, "k")
				r := c32RootOfLimit(bits, k)
				args[0] = c32U(r + uint64(rapid.IntRange(-1, 2).Draw(t, "rd")))
				args[1] = c32U(k)
			} else {
				args[0] = c32U(rapid.Uint64Range(0, 20).Draw(t, "base"))
				args[1] = c32U(rapid.Uint64Range(0, 130).Draw(t, "e"))
			}
		}
	case "sqrt":
		if shaped {
			r := rapid.Uint64Range(0, 1<<32-1).Draw(t, "r")
			args[0] = c32U(r*r + uint64(rapid.IntRange(-1, 1).Draw(t, "rd")))
		}
	case "bsqrt":
		if shaped {
			r := new(big.Int).SetBytes(args[0].b)
			r.Rsh(r, uint(r.BitLen()/2))
			r.Mul(r, r)
			r.Add(r, big.NewInt(int64(rapid.IntRange(-1, 1).Draw(t, "rd"))))
			if r.Sign() >= 0 && len(r.Bytes()) <= 64 {
				args[0] = c32B(append([]byte{}, r.Bytes()...))
			}
		}
	case "divw":
		if shaped && args[2].u > 0 {
			args[0] = c32U(rapid.Uint64Range(0, args[2].u).Draw(t, "hi")) // hi == divisor is the overflow boundary
		}
	case "divmodw":
		if shaped {
			for i := range args {
				if rapid.IntRange(0, 2).Draw(t, "zero") == 0 {
					args[i] = c32U(0)
				}
			}
		}
	}
	switch op.label {
	case "setbit(u)", "setbit(b)":
		args[2] = c32U(rapid.Uint64Range(0, 1).Draw(t, "bit")) // documented domain of C
	case "setbyte":
		args[2] = c32U(rapid.Uint64Range(0, 255).Draw(t, "byte")) // documented domain of C
	}
	// correlated operand pairs (equal, off by one, same value in another width)
	if len(args) == 2 && op.args[0] == op.args[1] && rapid.IntRange(0, 3).Draw(t, "corr") == 0 {
		if args[0].isB {
			args[1] = c32B(c32PerturbBytes(t, args[0].b))
			if len(args[1].b) > 4096 { // not a legal AVM value
				args[1] = c32B(append([]byte{}, args[0].b...))
			}
		} else {
			args[1] = c32U(args[0].u + uint64(rapid.IntRange(-1, 1).Draw(t, "du")))
		}
		if rapid.Bool().Draw(t, "swap") {
			args[0], args[1] = args[1], args[0]
		}
	}
	return args
}

func TestVerif_C32_Random(t *testing.T) {
	vk := vkBegin(t, "C32")
	vk.Rule("random op of the reference table, random version that has it, boundary-biased random operands (64-bit: uniform, 2^k±1, near max, random widths; bytes: lengths 0..70 biased to 0/8/9/32/64/65/66, zeros, all-ff, leading zeros, single bit, up to 4096 for non-math ops; correlated pairs equal / off-by-one / re-padded; indices near the operand length; exp/expw bases at the integer k-th roots of 2^64 / 2^128; sqrt arguments at r^2±1), random operand-loading style and sentinel; non-trivial as in the boundary unit; distinct by (op, version, operands)")
	rapid.Check(t, func(t *rapid.T) {
		// rapid's integer generators favour small values; mix the bits so that ops and versions are drawn about equally often
		pick := rapid.Uint64().Draw(t, "opversion") * 0x9E3779B97F4A7C15
		op := &c32Ops[(pick>>40)%uint64(len(c32Ops))]
		vs := c32Versions(op)
		v := vs[(pick>>20&0xfffff)%uint64(len(vs))]
		args := c32DrawArgs(t, op)
		style := rapid.IntRange(0, 2).Draw(t, "style")
		sentinel := rapid.IntRange(0, 2).Draw(t, "sentinel")
		predFail, msg := c32Verify(op, v, args, style, sentinel)
		if msg != "" {
			t.Fatalf("%s", msg)
		}
		nt := c32NonTrivial(predFail, args)
		vk.Case(nt, c32Fingerprint(op, v, args))
		if predFail {
			vk.Label(op.failL)
		} else {
			vk.Label(op.okL)
		}
		vk.Labelf("v%d", v)
		if vk.WantSample(nt) {
			vk.Sample(nt, c32MakeCase(op, v, args, style, sentinel))
		}
	})
}
