package transactions

// C40 (hand-written part for data/transactions): derived identifiers and realistic transaction shapes.
//
// Txid / IDSha256 / InnerID / GetEncodedLength / group and payset commitments are produced by the generated encoder
// (often through pooled buffers). Here they are recomputed from the *reflection* encoding with the standard library
// hash, for the original value and for the value decoded by the reflection decoder.

import (
	"bytes"
	"crypto/sha256"
	"crypto/sha512"
	"encoding/binary"
	"fmt"
	"testing"

	"pgregory.net/rapid"

	"github.com/algorand/go-algorand/crypto"
	"github.com/algorand/go-algorand/protocol"
)

func init() { c40Extra = append(c40Extra, c40TxExtra) }

func c40TxidOf(tx *Transaction) error {
	re := protocol.EncodeReflect(tx)
	want := Txid(sha512.Sum512_256(append([]byte("TX"), re...)))
	if got := tx.ID(); got != want {
		return fmt.Errorf("Transaction.ID() = %v but sha512/256(\"TX\"||reflection encoding) = %v", got, want)
	}
	// second call: the pooled encoding buffer must not leak state between calls
	if got := tx.ID(); got != want {
		return fmt.Errorf("Transaction.ID() changed on the second call: %v vs %v", got, want)
	}
	if got, w := tx.IDSha256(), crypto.Digest(sha256.Sum256(append([]byte("TX"), re...))); got != w {
		return fmt.Errorf("Transaction.IDSha256() = %v, from reflection encoding %v", got, w)
	}
	parent := Txid(sha512.Sum512_256(re))
	idx := len(re) % 17
	var ib [8]byte
	binary.BigEndian.PutUint64(ib[:], uint64(idx))
	in := append(append(append([]byte("TX"), parent[:]...), ib[:]...), re...)
	if got, w := tx.InnerID(parent, idx), Txid(sha512.Sum512_256(in)); got != w {
		return fmt.Errorf("Transaction.InnerID() = %v, from reflection encoding %v", got, w)
	}
	if got := crypto.HashObj(*tx); Txid(got) != want {
		return fmt.Errorf("crypto.HashObj(tx) = %v differs from ID %v", got, want)
	}
	// the value rebuilt by the reflection decoder has the same identifier
	var back Transaction
	if err := protocol.DecodeReflect(re, &back); err != nil {
		return fmt.Errorf("DecodeReflect(Transaction): %v", err)
	}
	if got := back.ID(); got != want {
		return fmt.Errorf("Txid changes across a reflection round trip: %v vs %v", got, want)
	}
	var back2 Transaction
	if err := protocol.Decode(re, &back2); err != nil {
		return fmt.Errorf("Decode(Transaction): %v", err)
	}
	if got := back2.ID(); got != want {
		return fmt.Errorf("Txid changes across a msgp round trip: %v vs %v", got, want)
	}
	return nil
}

func c40TxExtra(ty *eType, obj eObj, enc []byte) error {
	switch v := obj.(type) {
	case *Transaction:
		return c40TxidOf(v)
	case *SignedTxn:
		if err := c40TxidOf(&v.Txn); err != nil {
			return err
		}
		if v.ID() != v.Txn.ID() {
			return fmt.Errorf("SignedTxn.ID() != Txn.ID()")
		}
		if n, w := v.GetEncodedLength(), len(protocol.EncodeReflect(v)); n != w {
			return fmt.Errorf("SignedTxn.GetEncodedLength() = %d, reflection encoding has %d bytes", n, w)
		}
	case *SignedTxnInBlock:
		if n, w := v.GetEncodedLength(), len(protocol.EncodeReflect(v)); n != w {
			return fmt.Errorf("SignedTxnInBlock.GetEncodedLength() = %d, reflection encoding has %d bytes", n, w)
		}
	case *SignedTxnWithAD:
		return c40TxidOf(&v.Txn)
	case *TxGroup:
		if got, w := crypto.HashObj(*v), crypto.Digest(eDigest(protocol.TxGroup, protocol.EncodeReflect(v))); got != w {
			return fmt.Errorf("group digest %v, from reflection encoding %v", got, w)
		}
	case *Payset:
		if len(*v) > 0 {
			if got, w := v.CommitFlat(), crypto.Digest(eDigest(protocol.PaysetFlat, protocol.EncodeReflect(v))); got != w {
				return fmt.Errorf("Payset.CommitFlat() %v, from reflection encoding %v", got, w)
			}
		}
	}
	return nil
}

var c40TxTypes = []protocol.TxType{protocol.PaymentTx, protocol.KeyRegistrationTx, protocol.AssetConfigTx, protocol.AssetTransferTx,
	protocol.AssetFreezeTx, protocol.ApplicationCallTx, protocol.StateProofTx, protocol.HeartbeatTx}

// c40ShapeTxn builds a transaction of one type: only the header and that type's fields are populated.
func c40ShapeTxn(tt protocol.TxType, seed int64, o eOpts) (*Transaction, error) {
	var ty *eType
	for i := range eTypes {
		if eTypes[i].Name == "Transaction" {
			ty = &eTypes[i]
		}
	}
	obj, err := eRandomize(ty, seed, o)
	if err != nil {
		return nil, err
	}
	tx := obj.(*Transaction)
	keep := *tx
	*tx = Transaction{Type: tt, Header: keep.Header}
	switch tt {
	case protocol.PaymentTx:
		tx.PaymentTxnFields = keep.PaymentTxnFields
	case protocol.KeyRegistrationTx:
		tx.KeyregTxnFields = keep.KeyregTxnFields
	case protocol.AssetConfigTx:
		tx.AssetConfigTxnFields = keep.AssetConfigTxnFields
	case protocol.AssetTransferTx:
		tx.AssetTransferTxnFields = keep.AssetTransferTxnFields
	case protocol.AssetFreezeTx:
		tx.AssetFreezeTxnFields = keep.AssetFreezeTxnFields
	case protocol.ApplicationCallTx:
		tx.ApplicationCallTxnFields = keep.ApplicationCallTxnFields
	case protocol.StateProofTx:
		tx.StateProofTxnFields = keep.StateProofTxnFields
	case protocol.HeartbeatTx:
		tx.HeartbeatTxnFields = keep.HeartbeatTxnFields
	}
	return tx, nil
}

func c40TypeByName(name string) *eType {
	for i := range eTypes {
		if eTypes[i].Name == name {
			return &eTypes[i]
		}
	}
	return nil
}

// TestVerif_C40_Shapes_data_transactions: typed transactions (one type's fields + header), wrapped as SignedTxn with
// one signature kind, as SignedTxnInBlock with apply data, and collected into a Payset / TxGroup.
func TestVerif_C40_Shapes_data_transactions(t *testing.T) {
	vk := vkBegin(t, "C40")
	vk.Rule("transaction of one drawn type (header + that type's fields from RandomizeObject(seed)), signed with one drawn signature kind (sig / msig / lsig / pqsig / none), optionally with ApplyData, 1..6 of them collected into a Payset and a TxGroup; full C40 oracle on Transaction, SignedTxn, SignedTxnInBlock, Payset, TxGroup plus Txid/IDSha256/InnerID/GetEncodedLength/CommitFlat recomputed from the reflection encoding; non-trivial = payset with >= 2 transactions of >= 2 distinct types; distinct by encoded payset")
	if !eSeedable() {
		t.Skip("math/rand global source cannot be seeded")
	}
	tTx, tStx, tStib, tPs, tTg := c40TypeByName("Transaction"), c40TypeByName("SignedTxn"), c40TypeByName("SignedTxnInBlock"), c40TypeByName("Payset"), c40TypeByName("TxGroup")
	if tTx == nil || tStx == nil || tStib == nil || tPs == nil || tTg == nil {
		t.Skip("registry lacks one of Transaction/SignedTxn/SignedTxnInBlock/Payset/TxGroup")
	}
	rapid.Check(t, func(rt *rapid.T) {
		n := rapid.IntRange(1, 6).Draw(rt, "n")
		var ps Payset
		var tg TxGroup
		types := map[protocol.TxType]bool{}
		for i := 0; i < n; i++ {
			tt := rapid.SampledFrom(c40TxTypes).Draw(rt, "txtype")
			seed := rapid.Int64().Draw(rt, "seed")
			opts := c40DrawOpts(rt)
			sigKind := rapid.IntRange(0, 4).Draw(rt, "sigKind")
			withAD := rapid.Bool().Draw(rt, "applyData")
			tx, err := c40ShapeTxn(tt, seed, opts)
			if err != nil {
				rt.Fatalf("RandomizeObject(Transaction): %v", err)
			}
			types[tt] = true
			vk.Label("txtype=" + string(tt))
			if _, err := c40CheckOne(tTx, tx, vk); err != nil {
				rt.Fatalf("C40 shaped %s transaction seed=%d %s: %v\n encoded: %s", tt, seed, opts, err, eHex(protocol.Encode(tx)))
			}
			so, err := eRandomize(tStx, seed+1, opts)
			if err != nil {
				rt.Fatalf("RandomizeObject(SignedTxn): %v", err)
			}
			full := so.(*SignedTxn)
			stx := &SignedTxn{Txn: *tx}
			switch sigKind {
			case 1:
				stx.Sig = full.Sig
			case 2:
				stx.Msig = full.Msig
			case 3:
				stx.Lsig = full.Lsig
			case 4:
				stx.PQsig = full.PQsig
				stx.AuthAddr = full.AuthAddr
			}
			vk.Labelf("sigkind=%d", sigKind)
			if _, err := c40CheckOne(tStx, stx, vk); err != nil {
				rt.Fatalf("C40 shaped SignedTxn (%s, sigkind %d) seed=%d %s: %v\n encoded: %s", tt, sigKind, seed, opts, err, eHex(protocol.Encode(stx)))
			}
			stib := &SignedTxnInBlock{SignedTxnWithAD: SignedTxnWithAD{SignedTxn: *stx}}
			if withAD {
				bo, err := eRandomize(tStib, seed+2, opts)
				if err != nil {
					rt.Fatalf("RandomizeObject(SignedTxnInBlock): %v", err)
				}
				b := bo.(*SignedTxnInBlock)
				stib.ApplyData = b.ApplyData
				stib.HasGenesisID, stib.HasGenesisHash = b.HasGenesisID, b.HasGenesisHash
			}
			if _, err := c40CheckOne(tStib, stib, vk); err != nil {
				rt.Fatalf("C40 shaped SignedTxnInBlock (%s) seed=%d %s: %v\n encoded: %s", tt, seed, opts, err, eHex(protocol.Encode(stib)))
			}
			ps = append(ps, *stib)
			tg.TxGroupHashes = append(tg.TxGroupHashes, crypto.Digest(tx.ID()))
		}
		enc, err := c40CheckOne(tPs, &ps, vk)
		if err != nil {
			rt.Fatalf("C40 payset of %d shaped transactions: %v\n encoded: %s", n, err, eHex(enc))
		}
		if _, err := c40CheckOne(tTg, &tg, vk); err != nil {
			rt.Fatalf("C40 TxGroup of %d ids: %v", n, err)
		}
		// the payset encoding is the concatenation of its elements' encodings behind an array header
		var cat []byte
		for i := range ps {
			cat = append(cat, protocol.EncodeReflect(&ps[i])...)
		}
		if !bytes.HasSuffix(enc, cat) || len(enc)-len(cat) > 5 {
			rt.Fatalf("payset encoding is not header + concatenated reflection encodings of its elements")
		}
		nt := n >= 2 && len(types) >= 2
		vk.Case(nt, fmt.Sprintf("%x", eDigest("", enc)))
		if vk.WantSample(nt) {
			vk.Sample(nt, map[string]interface{}{"payset_len": n, "distinct_types": len(types), "encoded_len": len(enc), "hex_prefix": eHex(enc[:min(len(enc), 160)])})
		}
	})
}

// TestVerif_C40_KnownPointerToEmpty_data_transactions reproduces the one class that is excluded by construction from
// the random search: a non-nil pointer to an all-zero value. Transaction.HeartbeatTxnFields is the only pointer field
// of a consensus object; `"hb": {}` is accepted from the wire by the generated decoder (it allocates the pointee), the
// generated encoder writes it back, the reflection encoder (RecursiveEmptyCheck looks through the pointer) omits it.
func TestVerif_C40_KnownPointerToEmpty_data_transactions(t *testing.T) {
	vk := vkBegin(t, "C40")
	vk.Rule("fixed reproduction of the excluded class pointer-to-empty: Transaction{Type, Sender, HeartbeatTxnFields: &HeartbeatTxnFields{}} for each transaction type, built directly and decoded from wire bytes; non-trivial = the two encoders disagree")
	type rp struct {
		Type    string
		Wire    string
		Msgp    string
		Reflect string
	}
	n := 0
	for _, tt := range c40TxTypes {
		tx := Transaction{Type: tt, HeartbeatTxnFields: &HeartbeatTxnFields{}}
		tx.Sender[0] = 1
		wire := protocol.Encode(&tx)
		var dec Transaction
		if err := protocol.Decode(wire, &dec); err != nil {
			t.Fatalf("wire bytes with an empty hb map are rejected: %v (%s)", err, eHex(wire))
		}
		e1, e2 := protocol.Encode(&dec), protocol.EncodeReflect(&dec)
		differ := !bytes.Equal(e1, e2)
		vk.Case(differ, string(tt))
		if differ {
			n++
			id1 := dec.ID()
			id2 := Txid(sha512.Sum512_256(append([]byte("TX"), e2...)))
			r := rp{Type: string(tt), Wire: eHex(wire), Msgp: eHex(e1), Reflect: eHex(e2)}
			vk.Sample(true, r)
			vk.Known("pointer-to-empty", fmt.Sprintf("Transaction decoded from %s (hb: {}) has a non-nil pointer to an empty HeartbeatTxnFields: generated encoder emits \"hb\":{} (%d bytes, txid %v), reflection encoder omits it (%d bytes, txid %v)", eHex(wire), len(e1), id1, len(e2), id2), r)
		} else {
			vk.Sample(false, rp{Type: string(tt), Wire: eHex(wire)})
		}
	}
	if n == 0 {
		vk.Label("pointer-to-empty no longer reproduces (the exclusion in eRepairRequired can be removed)")
	}
}
