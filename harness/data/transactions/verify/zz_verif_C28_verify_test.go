package verify

// C28 (unit 1) — Only the current authorizer can authorize a transaction: the stateless half.
//
// Random groups (1..4 members: pay / axfer / keyreg / appl, proper group id) are authorized by a single
// signature, a v1 multisignature (1..5 slots from a pool of 8 real keys, repeated keys allowed, thresholds
// 1..n, signed subsets around the threshold), or a logic signature (approving / rejecting / erroring tiny
// programs with arguments; contract account, delegated by a key, delegated by a multisig through the field
// the protocol supports), optionally in rekeyed form (AuthAddr set, signer = the auth key). Then 0..2
// mutations are applied (byte flips in signatures / keys / programs / arguments, post-signing field changes,
// a second authorization kind, authorizations moved between transactions, multisig preimage changes,
// subsignatures dropped / duplicated / zeroed, AuthAddr games, wire-level byte flips that still decode).
//
// Oracle: an *ideal signature scheme*. Every signature the harness ever produces is recorded with its
// provenance (public key, exact message bytes built independently of the code's ToBeHashed methods). The
// reference verifier below re-reads the final SignedTxn structures and decides from the protocol rules
// (exactly one kind; signature provenance == (authorizer key, current message bytes); multisig address ==
// H("MultisigAddr"||v||thr||keys), version 1, every non-blank subsig valid, count >= threshold; logic
// signature: contract address == H("Program"||logic) or a valid delegation, and the program model approves).
// It never calls an ed25519 verification. verify.TxnGroup and its sibling entry points must accept exactly
// the groups the reference accepts.

import (
	"bytes"
	"context"
	"encoding/binary"
	"encoding/hex"
	"fmt"
	"strings"
	"sync"
	"testing"

	"github.com/algorand/go-algorand/config"
	"github.com/algorand/go-algorand/crypto"
	"github.com/algorand/go-algorand/crypto/merklesignature"
	"github.com/algorand/go-algorand/data/basics"
	"github.com/algorand/go-algorand/data/bookkeeping"
	"github.com/algorand/go-algorand/data/transactions"
	"github.com/algorand/go-algorand/data/transactions/logic"
	"github.com/algorand/go-algorand/protocol"
	"github.com/algorand/go-algorand/util/execpool"
	"pgregory.net/rapid"
)

const c28NKeys = 8
const c28ProgVersion = 8

var c28GenesisHash = crypto.Hash([]byte("verif-C28-genesis"))

// ---------- independent message / address construction (the "specification" side) ----------

func c28TxMsg(tx *transactions.Transaction) []byte {
	return append([]byte("TX"), protocol.Encode(tx)...)
}

func c28ProgMsg(prog []byte) []byte { return append([]byte("Program"), prog...) }

func c28LMsigMsg(addr basics.Address, prog []byte) []byte {
	m := append([]byte("MsigProgram"), addr[:]...)
	return append(m, prog...)
}

func c28PQProgMsg(addr basics.Address, prog []byte) []byte {
	m := append([]byte("PQProgram"), addr[:]...)
	return append(m, prog...)
}

// address of a post-quantum key: H("PQA" || scheme || salt || public key)
func c28PQAddr(scheme protocol.PQScheme, salt basics.PQAddressSalt, pk []byte) basics.Address {
	b := append([]byte("PQA"), scheme[:]...)
	b = append(b, byte(salt))
	return basics.Address(crypto.Hash(append(b, pk...)))
}

func c28ProgAddr(prog []byte) basics.Address { return basics.Address(crypto.Hash(c28ProgMsg(prog))) }

func c28MsigAddr(version, threshold uint8, pks []crypto.PublicKey) basics.Address {
	b := append([]byte("MultisigAddr"), version, threshold)
	for _, pk := range pks {
		b = append(b, pk[:]...)
	}
	return basics.Address(crypto.Hash(b))
}

func c28GroupID(g []transactions.SignedTxn) crypto.Digest {
	var tg transactions.TxGroup
	for i := range g {
		tx := g[i].Txn
		tx.Group = crypto.Digest{}
		tg.TxGroupHashes = append(tg.TxGroupHashes, crypto.Hash(c28TxMsg(&tx)))
	}
	return crypto.Hash(append([]byte("TG"), protocol.Encode(&tg)...))
}

// ---------- world: key pool, signature provenance, program models ----------

type c28Prov struct {
	pk  crypto.PublicKey
	msg string
}

// c28ProgModel: verdict of a known program for a member of a group (true = approves).
type c28ProgModel func(stx *transactions.SignedTxn, gi, gsize int) bool

// three Falcon-1024 key pairs from fixed seeds (key generation is slow; deterministic)
var c28PQOnce sync.Once
var c28PQSigners []crypto.FalconSigner

func c28PQKeys() []crypto.FalconSigner {
	c28PQOnce.Do(func() {
		for i := 0; i < 3; i++ {
			s, err := crypto.GenerateFalconSigner(crypto.FalconSeed{0xc2, 0x08, byte(i)})
			if err != nil {
				panic(fmt.Sprintf("falcon keygen: %v", err))
			}
			c28PQSigners = append(c28PQSigners, s)
		}
	})
	return c28PQSigners
}

type c28PQProv struct {
	pk, msg string
}

type c28World struct {
	pqProv   map[string]c28PQProv
	cv       protocol.ConsensusVersion
	proto    config.ConsensusParams
	keys     []*crypto.SignatureSecrets
	prov     map[crypto.Signature]c28Prov
	progs    map[string]c28ProgModel
	progName map[string]string
}

func (w *c28World) pk(i int) crypto.PublicKey { return w.keys[i].SignatureVerifier }
func (w *c28World) addr(i int) basics.Address { return basics.Address(w.keys[i].SignatureVerifier) }

func (w *c28World) sign(k int, msg []byte) crypto.Signature {
	s := w.keys[k].SignBytes(msg)
	w.prov[s] = c28Prov{pk: w.pk(k), msg: string(msg)}
	return s
}

// ideal: a signature is valid iff the harness produced it with exactly this key over exactly these bytes.
func (w *c28World) ideal(pk crypto.PublicKey, msg []byte, sig crypto.Signature) bool {
	p, ok := w.prov[sig]
	return ok && p.pk == pk && p.msg == string(msg)
}

func (w *c28World) pqSign(k int, msg []byte) []byte {
	signer := c28PQKeys()[k]
	sig, err := signer.SignBytes(msg)
	if err != nil {
		panic(fmt.Sprintf("falcon sign: %v", err))
	}
	w.pqProv[string(sig)] = c28PQProv{pk: string(signer.PublicKey[:]), msg: string(msg)}
	return append([]byte{}, sig...)
}

func (w *c28World) pqIdeal(pk, msg, sig []byte) bool {
	p, ok := w.pqProv[string(sig)]
	return ok && p.pk == string(pk) && p.msg == string(msg)
}

var c28AsmCache sync.Map

func c28Assemble(src string) []byte {
	if v, ok := c28AsmCache.Load(src); ok {
		return v.([]byte)
	}
	ops, err := logic.AssembleStringWithVersion(src, c28ProgVersion)
	if err != nil {
		panic(fmt.Sprintf("c28Assemble(%q): %v", src, err))
	}
	c28AsmCache.Store(src, ops.Program)
	return ops.Program
}

func (w *c28World) prog(name, src string, m c28ProgModel) []byte {
	p := c28Assemble(src)
	w.progs[string(p)] = m
	w.progName[string(p)] = name
	return p
}

func c28Btoi(b []byte) (uint64, bool) {
	if len(b) > 8 {
		return 0, false
	}
	var v uint64
	for _, x := range b {
		v = v<<8 | uint64(x)
	}
	return v, true
}

// c28PickProgram draws a program (+ arguments) for member gi of a group of gsize whose body is already fixed
// (except Sender and Group). flavour: 0 approving, 1 rejecting, 2 erroring.
func c28PickProgram(t *rapid.T, w *c28World, tx *transactions.Transaction, gi, gsize int) ([]byte, [][]byte, string) {
	flavour := rapid.SampledFrom([]int{0, 0, 0, 0, 0, 0, 0, 1, 1, 2}).Draw(t, "progFlavour")
	bad := flavour == 1
	if flavour == 2 {
		switch rapid.IntRange(0, 2).Draw(t, "errProg") {
		case 0:
			return w.prog("err", "err", func(*transactions.SignedTxn, int, int) bool { return false }), nil, "err"
		case 1: // arg 0 with no argument supplied
			p := w.prog("arg0-btoi", "arg 0\nbtoi", c28ModelArg0Btoi)
			return p, nil, "err"
		default: // btoi of 9 bytes
			p := w.prog("arg0-btoi", "arg 0\nbtoi", c28ModelArg0Btoi)
			return p, [][]byte{{1, 2, 3, 4, 5, 6, 7, 8, 9}}, "err"
		}
	}
	fl := "approve"
	if bad {
		fl = "reject"
	}
	delta := uint64(0)
	if bad {
		delta = 1
	}
	switch rapid.IntRange(0, 8).Draw(t, "progTemplate") {
	case 0:
		if bad {
			return w.prog("int0", "int 0", func(*transactions.SignedTxn, int, int) bool { return false }), c28SomeArgs(t), fl
		}
		return w.prog("int1", "int 1", func(*transactions.SignedTxn, int, int) bool { return true }), c28SomeArgs(t), fl
	case 1:
		p := w.prog("arg0-btoi", "arg 0\nbtoi", c28ModelArg0Btoi)
		if bad {
			return p, [][]byte{{0, 0}}, fl
		}
		return p, [][]byte{{0, byte(rapid.IntRange(1, 255).Draw(t, "argv"))}}, fl
	case 2:
		p := w.prog("arg1-eq", "arg 1\nbyte 0xaabb\n==", func(s *transactions.SignedTxn, _, _ int) bool {
			return len(s.Lsig.Args) >= 2 && bytes.Equal(s.Lsig.Args[1], []byte{0xaa, 0xbb})
		})
		if bad {
			return p, [][]byte{{1}, {0xaa, 0xbc}}, fl
		}
		return p, [][]byte{{1}, {0xaa, 0xbb}}, fl
	case 3:
		k := tx.Fee.Raw + delta
		p := w.prog(fmt.Sprintf("fee-eq-%d", k), fmt.Sprintf("txn Fee\nint %d\n==", k), func(s *transactions.SignedTxn, _, _ int) bool {
			return s.Txn.Fee.Raw == k
		})
		return p, c28SomeArgs(t), fl
	case 4:
		k := uint64(gi) + delta
		p := w.prog(fmt.Sprintf("gi-eq-%d", k), fmt.Sprintf("txn GroupIndex\nint %d\n==", k), func(_ *transactions.SignedTxn, gi, _ int) bool {
			return uint64(gi) == k
		})
		return p, nil, fl
	case 5:
		k := uint64(gsize) + delta
		p := w.prog(fmt.Sprintf("gs-eq-%d", k), fmt.Sprintf("global GroupSize\nint %d\n==", k), func(_ *transactions.SignedTxn, _, gs int) bool {
			return uint64(gs) == k
		})
		return p, nil, fl
	case 6:
		p := w.prog("note-eq-arg0", "txn Note\narg 0\n==", func(s *transactions.SignedTxn, _, _ int) bool {
			return len(s.Lsig.Args) >= 1 && bytes.Equal(s.Txn.Note, s.Lsig.Args[0])
		})
		if bad {
			return p, [][]byte{append(append([]byte{}, tx.Note...), 7)}, fl
		}
		return p, [][]byte{append([]byte{}, tx.Note...)}, fl
	case 7:
		k := tx.TxAmount().Raw + delta
		p := w.prog(fmt.Sprintf("amt-eq-%d", k), fmt.Sprintf("txn Amount\nint %d\n==", k), func(s *transactions.SignedTxn, _, _ int) bool {
			return s.Txn.TxAmount().Raw == k
		})
		return p, nil, fl
	default:
		// a realistic guard: approve only transactions that do not rekey
		p := w.prog("no-rekey", "txn RekeyTo\nglobal ZeroAddress\n==", func(s *transactions.SignedTxn, _, _ int) bool {
			return s.Txn.RekeyTo.IsZero()
		})
		if tx.RekeyTo.IsZero() {
			return p, c28SomeArgs(t), "approve"
		}
		return p, c28SomeArgs(t), "reject"
	}
}

func c28ModelArg0Btoi(s *transactions.SignedTxn, _, _ int) bool {
	if len(s.Lsig.Args) < 1 {
		return false
	}
	v, ok := c28Btoi(s.Lsig.Args[0])
	return ok && v != 0
}

func c28SomeArgs(t *rapid.T) [][]byte {
	n := rapid.SampledFrom([]int{0, 0, 1, 2}).Draw(t, "nargs")
	var out [][]byte
	for i := 0; i < n; i++ {
		out = append(out, rapid.SliceOfN(rapid.Byte(), 0, 6).Draw(t, "arg"))
	}
	return out
}

// ---------- authorization recipes ----------

type c28Auth struct {
	kind      string // sig | msig | lsig-contract | lsig-sig | lsig-msig | pq | lsig-pq
	pqKey     int
	pqSalt    basics.PQAddressSalt
	key       int    // sig, lsig-sig
	mkeys     []int  // msig slots (indices into the key pool)
	thr       uint8
	signSlots []bool
	signMode  string
	lmsig     bool // lsig-msig: use the LMsig field (address-bound message) instead of Msig
	prog      []byte
	args      [][]byte
	progFl    string
	rekeyed   bool
}

func (a *c28Auth) pks(w *c28World) []crypto.PublicKey {
	out := make([]crypto.PublicKey, len(a.mkeys))
	for i, k := range a.mkeys {
		out[i] = w.pk(k)
	}
	return out
}

// authorizer: the address this recipe can speak for.
func (a *c28Auth) authorizer(w *c28World) basics.Address {
	switch a.kind {
	case "sig", "lsig-sig":
		return w.addr(a.key)
	case "msig", "lsig-msig":
		return c28MsigAddr(1, a.thr, a.pks(w))
	case "pq", "lsig-pq":
		pk := c28PQKeys()[a.pqKey].PublicKey
		return c28PQAddr(protocol.PQSchemeFalcon1024, a.pqSalt, pk[:])
	default:
		return c28ProgAddr(a.prog)
	}
}

func (a *c28Auth) makePQ(w *c28World, msg []byte) transactions.PQSig {
	pk := c28PQKeys()[a.pqKey].PublicKey
	return transactions.PQSig{Scheme: protocol.PQSchemeFalcon1024, Salt: a.pqSalt, PublicKey: append([]byte{}, pk[:]...), Signature: w.pqSign(a.pqKey, msg)}
}

func (a *c28Auth) signedCount() int {
	n := 0
	for _, s := range a.signSlots {
		if s {
			n++
		}
	}
	return n
}

func (a *c28Auth) makeMsig(w *c28World, msg []byte) crypto.MultisigSig {
	ms := crypto.MultisigSig{Version: 1, Threshold: a.thr, Subsigs: make([]crypto.MultisigSubsig, len(a.mkeys))}
	for i, k := range a.mkeys {
		ms.Subsigs[i].Key = w.pk(k)
		if a.signSlots[i] {
			ms.Subsigs[i].Sig = w.sign(k, msg)
		}
	}
	return ms
}

// resign (re)creates the authorization of stx from the recipe, over the current transaction bytes and for the
// current claimed authorizer.
func (a *c28Auth) resign(w *c28World, stx *transactions.SignedTxn) {
	stx.Sig, stx.Msig, stx.Lsig, stx.PQsig = crypto.Signature{}, crypto.MultisigSig{}, transactions.LogicSig{}, transactions.PQSig{}
	switch a.kind {
	case "pq":
		stx.PQsig = a.makePQ(w, c28TxMsg(&stx.Txn))
	case "sig":
		stx.Sig = w.sign(a.key, c28TxMsg(&stx.Txn))
	case "msig":
		stx.Msig = a.makeMsig(w, c28TxMsg(&stx.Txn))
	default:
		stx.Lsig.Logic = append([]byte{}, a.prog...)
		for _, x := range a.args {
			stx.Lsig.Args = append(stx.Lsig.Args, append([]byte{}, x...))
		}
		switch a.kind {
		case "lsig-sig":
			stx.Lsig.Sig = w.sign(a.key, c28ProgMsg(a.prog))
		case "lsig-pq":
			stx.Lsig.PQsig = a.makePQ(w, c28PQProgMsg(stx.Authorizer(), a.prog))
		case "lsig-msig":
			if a.lmsig {
				stx.Lsig.LMsig = a.makeMsig(w, c28LMsigMsg(stx.Authorizer(), a.prog))
			} else {
				stx.Lsig.Msig = a.makeMsig(w, c28ProgMsg(a.prog))
			}
		}
	}
}

func c28DrawMsigShape(t *rapid.T, a *c28Auth) {
	n := rapid.IntRange(1, 5).Draw(t, "msigN")
	a.mkeys = make([]int, n)
	for i := range a.mkeys {
		a.mkeys[i] = rapid.IntRange(0, c28NKeys-1).Draw(t, "msigKey")
	}
	a.thr = uint8(rapid.IntRange(1, n).Draw(t, "msigThr"))
	a.signSlots = make([]bool, n)
	a.signMode = rapid.SampledFrom([]string{"all", "thr", "thr", "thr-1", "thr+1", "random"}).Draw(t, "msigSignMode")
	want := n
	switch a.signMode {
	case "thr":
		want = int(a.thr)
	case "thr-1":
		want = int(a.thr) - 1
	case "thr+1":
		want = int(a.thr) + 1
		if want > n {
			want = n
		}
	case "random":
		want = rapid.IntRange(0, n).Draw(t, "msigSigned")
	}
	// choose `want` slots through a drawn rotation, so the signed slots are not always a prefix
	rot := rapid.IntRange(0, n-1).Draw(t, "msigRot")
	for j := 0; j < want; j++ {
		a.signSlots[(rot+j)%n] = true
	}
}

// ---------- transaction bodies ----------

func c28Body(t *rapid.T, w *c28World) transactions.Transaction {
	fv := basics.Round(rapid.IntRange(30, 60).Draw(t, "fv"))
	tx := transactions.Transaction{
		Header: transactions.Header{
			Fee:         basics.MicroAlgos{Raw: uint64(1000 + rapid.IntRange(0, 3).Draw(t, "feeK")*500)},
			FirstValid:  fv,
			LastValid:   fv + basics.Round(rapid.IntRange(0, 100).Draw(t, "life")),
			GenesisHash: c28GenesisHash,
		},
	}
	if rapid.Bool().Draw(t, "hasNote") {
		tx.Note = rapid.SliceOfN(rapid.Byte(), 1, 6).Draw(t, "note")
	}
	if rapid.IntRange(0, 5).Draw(t, "hasRekey") == 0 {
		tx.RekeyTo = w.addr(rapid.IntRange(0, c28NKeys-1).Draw(t, "rekeyTo"))
	}
	if rapid.IntRange(0, 7).Draw(t, "hasLease") == 0 {
		tx.Lease[3] = byte(rapid.IntRange(1, 255).Draw(t, "lease"))
	}
	other := func(name string) basics.Address { return w.addr(rapid.IntRange(0, c28NKeys-1).Draw(t, name)) }
	switch rapid.SampledFrom([]string{"pay", "pay", "axfer", "keyreg", "appl"}).Draw(t, "txType") {
	case "pay":
		tx.Type = protocol.PaymentTx
		tx.Receiver = other("rcv")
		tx.Amount = basics.MicroAlgos{Raw: uint64(rapid.IntRange(0, 1000).Draw(t, "amt"))}
	case "axfer":
		tx.Type = protocol.AssetTransferTx
		tx.XferAsset = basics.AssetIndex(rapid.IntRange(1, 50).Draw(t, "asset"))
		tx.AssetAmount = uint64(rapid.IntRange(0, 1000).Draw(t, "aamt"))
		tx.AssetReceiver = other("arcv")
	case "keyreg":
		tx.Type = protocol.KeyRegistrationTx
		if rapid.Bool().Draw(t, "online") {
			tx.VotePK[0], tx.SelectionPK[0] = 1, 2
			tx.StateProofPK = merklesignature.Commitment{3}
			tx.VoteFirst, tx.VoteLast, tx.VoteKeyDilution = 1, 1000, 100
		}
	default:
		tx.Type = protocol.ApplicationCallTx
		tx.ApplicationID = basics.AppIndex(rapid.IntRange(1, 50).Draw(t, "app"))
		tx.ApplicationArgs = [][]byte{[]byte("c28"), {byte(rapid.IntRange(0, 255).Draw(t, "apparg"))}}
		if rapid.Bool().Draw(t, "hasAcct") {
			tx.Accounts = []basics.Address{other("appAcct")}
		}
	}
	return tx
}

// ---------- the reference verifier ----------

func c28MsigBlank(ms crypto.MultisigSig) bool {
	return ms.Version == 0 && ms.Threshold == 0 && ms.Subsigs == nil
}

func c28PQBlank(p transactions.PQSig) bool {
	var zs protocol.PQScheme
	var zt basics.PQAddressSalt
	return p.Scheme == zs && p.Salt == zt && len(p.PublicKey) == 0 && len(p.Signature) == 0
}

// pqOK: a post-quantum envelope authorizes msg for address a.
func (w *c28World) pqOK(p transactions.PQSig, msg []byte, a basics.Address) (bool, string) {
	if p.Scheme != protocol.PQSchemeFalcon1024 {
		return false, "pq-unknown-scheme"
	}
	if !w.proto.EnablePQSchemeFalcon1024 {
		return false, "pq-scheme-not-enabled"
	}
	if c28PQAddr(p.Scheme, p.Salt, p.PublicKey) != a {
		return false, "pq-address"
	}
	if len(p.Signature) == 0 {
		return false, "pq-empty-signature"
	}
	if !w.pqIdeal(p.PublicKey, msg, p.Signature) {
		return false, "pq-bad-signature"
	}
	return true, ""
}

func (w *c28World) msigOK(msg []byte, a basics.Address, ms crypto.MultisigSig) (bool, string) {
	if len(ms.Subsigs) == 0 || ms.Subsigs[0] == (crypto.MultisigSubsig{}) {
		return false, "msig-empty"
	}
	if ms.Version != 1 {
		return false, "msig-version"
	}
	if ms.Threshold == 0 || int(ms.Threshold) > len(ms.Subsigs) {
		return false, "msig-threshold-range"
	}
	if len(ms.Subsigs) > 255 {
		return false, "msig-too-many"
	}
	pks := make([]crypto.PublicKey, len(ms.Subsigs))
	for i := range ms.Subsigs {
		pks[i] = ms.Subsigs[i].Key
	}
	if c28MsigAddr(ms.Version, ms.Threshold, pks) != a {
		return false, "msig-address"
	}
	n := 0
	allValid := true
	for _, ss := range ms.Subsigs {
		if ss.Sig != (crypto.Signature{}) {
			n++
			if !w.ideal(ss.Key, msg, ss.Sig) {
				allValid = false
			}
		}
	}
	if n < int(ms.Threshold) {
		return false, "msig-below-threshold"
	}
	if !allValid {
		return false, "msig-bad-subsig"
	}
	return true, ""
}

// expectMember: (accept, reason, unknown). unknown = the verdict depends on a program the harness has no model
// for (only reachable if an unknown program were validly authorized; excluded and counted).
func (w *c28World) expectMember(g []transactions.SignedTxn, gi int) (bool, string, bool) {
	s := &g[gi]
	if !w.proto.PQSigEnabled() && (!c28PQBlank(s.PQsig) || !c28PQBlank(s.Lsig.PQsig)) {
		return false, "pq-not-enabled", false
	}
	if w.proto.EnforceAuthAddrSenderDiff && !s.AuthAddr.IsZero() && s.AuthAddr == s.Txn.Sender {
		return false, "authaddr-equals-sender", false
	}
	lsigBlank := len(s.Lsig.Logic) == 0 && len(s.Lsig.Args) == 0 && s.Lsig.Sig == (crypto.Signature{}) &&
		c28MsigBlank(s.Lsig.Msig) && c28MsigBlank(s.Lsig.LMsig) && c28PQBlank(s.Lsig.PQsig)
	hasProg := len(s.Lsig.Logic) != 0
	if !hasProg && !lsigBlank && w.proto.TxnSizePricingEnabled() {
		return false, "orphan-lsig-content", false
	}
	kinds := 0
	if s.Sig != (crypto.Signature{}) {
		kinds++
	}
	if !c28MsigBlank(s.Msig) {
		kinds++
	}
	if hasProg {
		kinds++
	}
	if !c28PQBlank(s.PQsig) {
		kinds++
	}
	if kinds == 0 {
		return false, "no-authorization", false
	}
	if kinds > 1 {
		return false, "two-kinds", false
	}
	a := s.Authorizer()
	switch {
	case s.Sig != (crypto.Signature{}):
		if !w.ideal(crypto.PublicKey(a), c28TxMsg(&s.Txn), s.Sig) {
			return false, "bad-sig", false
		}
		return true, "", false
	case !c28MsigBlank(s.Msig):
		ok, why := w.msigOK(c28TxMsg(&s.Txn), a, s.Msig)
		return ok, why, false
	case !c28PQBlank(s.PQsig):
		ok, why := w.pqOK(s.PQsig, c28TxMsg(&s.Txn), a)
		return ok, why, false
	}
	// logic signature
	nd := 0
	if s.Lsig.Sig != (crypto.Signature{}) {
		nd++
	}
	if !c28MsigBlank(s.Lsig.Msig) {
		nd++
	}
	if !c28MsigBlank(s.Lsig.LMsig) {
		nd++
	}
	if !c28PQBlank(s.Lsig.PQsig) {
		nd++
	}
	switch {
	case nd > 1:
		return false, "lsig-two-delegations", false
	case nd == 0:
		if c28ProgAddr(s.Lsig.Logic) != a {
			return false, "lsig-not-contract-address", false
		}
	case !c28PQBlank(s.Lsig.PQsig):
		if ok, why := w.pqOK(s.Lsig.PQsig, c28PQProgMsg(a, s.Lsig.Logic), a); !ok {
			return false, "lsig-" + why, false
		}
	case s.Lsig.Sig != (crypto.Signature{}):
		if !w.ideal(crypto.PublicKey(a), c28ProgMsg(s.Lsig.Logic), s.Lsig.Sig) {
			return false, "lsig-bad-sig", false
		}
	case !c28MsigBlank(s.Lsig.LMsig):
		if !w.proto.LogicSigLMsig {
			return false, "lsig-lmsig-unsupported", false
		}
		if ok, why := w.msigOK(c28LMsigMsg(a, s.Lsig.Logic), a, s.Lsig.LMsig); !ok {
			return false, "lsig-" + why, false
		}
	default:
		if !w.proto.LogicSigMsig {
			return false, "lsig-msig-unsupported", false
		}
		if ok, why := w.msigOK(c28ProgMsg(s.Lsig.Logic), a, s.Lsig.Msig); !ok {
			return false, "lsig-" + why, false
		}
	}
	m, known := w.progs[string(s.Lsig.Logic)]
	if !known {
		return false, "unknown-program", true
	}
	if !m(s, gi, len(g)) {
		return false, "program-rejects", false
	}
	return true, "", false
}

var c28Spec = transactions.SpecialAddresses{FeeSink: feeSink, RewardsPool: poolAddr}

// expect: the reference verdict for a whole group.
func (w *c28World) expect(g []transactions.SignedTxn) (accept bool, why string, unknown bool) {
	// Preconditions that are not the mechanism under test: every member well formed (the real WellFormed is
	// used as a filter only), group id commits to the members.
	for i := range g {
		if err := g[i].Txn.WellFormed(c28Spec, w.proto); err != nil {
			return false, "ill-formed", false
		}
	}
	gid := g[0].Txn.Group
	if gid.IsZero() {
		if len(g) != 1 {
			return false, "group-id", false
		}
	} else {
		for i := range g {
			if g[i].Txn.Group != gid {
				return false, "group-id", false
			}
		}
		if c28GroupID(g) != gid {
			return false, "group-id", false
		}
	}
	accept = true
	for i := range g {
		ok, r, unk := w.expectMember(g, i)
		if unk {
			return false, r, true
		}
		if !ok && accept {
			accept, why = false, r
		}
	}
	return accept, why, false
}

// ---------- helpers on signed transactions ----------

func c28CloneMsig(ms crypto.MultisigSig) crypto.MultisigSig {
	if ms.Subsigs != nil {
		ms.Subsigs = append([]crypto.MultisigSubsig{}, ms.Subsigs...)
	}
	return ms
}

func c28CloneStx(s transactions.SignedTxn) transactions.SignedTxn {
	out := s
	out.Msig = c28CloneMsig(s.Msig)
	out.Lsig.Msig = c28CloneMsig(s.Lsig.Msig)
	out.Lsig.LMsig = c28CloneMsig(s.Lsig.LMsig)
	if s.Lsig.Logic != nil {
		out.Lsig.Logic = append([]byte{}, s.Lsig.Logic...)
	}
	if s.Lsig.Args != nil {
		out.Lsig.Args = make([][]byte, len(s.Lsig.Args))
		for i, a := range s.Lsig.Args {
			out.Lsig.Args[i] = append([]byte{}, a...)
		}
	}
	if s.Lsig.PQsig.PublicKey != nil {
		out.Lsig.PQsig.PublicKey = append([]byte{}, s.Lsig.PQsig.PublicKey...)
	}
	if s.Lsig.PQsig.Signature != nil {
		out.Lsig.PQsig.Signature = append([]byte{}, s.Lsig.PQsig.Signature...)
	}
	if s.PQsig.PublicKey != nil {
		out.PQsig.PublicKey = append([]byte{}, s.PQsig.PublicKey...)
	}
	if s.PQsig.Signature != nil {
		out.PQsig.Signature = append([]byte{}, s.PQsig.Signature...)
	}
	if s.Txn.Note != nil {
		out.Txn.Note = append([]byte{}, s.Txn.Note...)
	}
	if s.Txn.ApplicationArgs != nil {
		out.Txn.ApplicationArgs = make([][]byte, len(s.Txn.ApplicationArgs))
		for i, a := range s.Txn.ApplicationArgs {
			out.Txn.ApplicationArgs[i] = append([]byte{}, a...)
		}
	}
	if s.Txn.Accounts != nil {
		out.Txn.Accounts = append([]basics.Address{}, s.Txn.Accounts...)
	}
	return out
}

func c28CloneGroup(g []transactions.SignedTxn) []transactions.SignedTxn {
	out := make([]transactions.SignedTxn, len(g))
	for i := range g {
		out[i] = c28CloneStx(g[i])
	}
	return out
}

func c28EncodeGroup(g []transactions.SignedTxn) string {
	var sb strings.Builder
	for i := range g {
		sb.WriteString(hex.EncodeToString(protocol.Encode(&g[i])))
		sb.WriteByte('|')
	}
	return sb.String()
}

func c28KindOf(s *transactions.SignedTxn) string {
	var k []string
	if s.Sig != (crypto.Signature{}) {
		k = append(k, "sig")
	}
	if !c28MsigBlank(s.Msig) {
		k = append(k, "msig")
	}
	if len(s.Lsig.Logic) != 0 {
		switch {
		case !c28PQBlank(s.Lsig.PQsig):
			k = append(k, "lsig-pq")
		case s.Lsig.Sig != (crypto.Signature{}):
			k = append(k, "lsig-sig")
		case !c28MsigBlank(s.Lsig.LMsig):
			k = append(k, "lsig-lmsig")
		case !c28MsigBlank(s.Lsig.Msig):
			k = append(k, "lsig-msig")
		default:
			k = append(k, "lsig-contract")
		}
	}
	if !c28PQBlank(s.PQsig) {
		k = append(k, "pq")
	}
	if len(k) == 0 {
		return "none"
	}
	return strings.Join(k, "+")
}

// all signature sites of a member (pointers into the structure)
func c28SigSites(s *transactions.SignedTxn) []*crypto.Signature {
	var out []*crypto.Signature
	add := func(p *crypto.Signature) {
		if *p != (crypto.Signature{}) {
			out = append(out, p)
		}
	}
	add(&s.Sig)
	for i := range s.Msig.Subsigs {
		add(&s.Msig.Subsigs[i].Sig)
	}
	add(&s.Lsig.Sig)
	for i := range s.Lsig.Msig.Subsigs {
		add(&s.Lsig.Msig.Subsigs[i].Sig)
	}
	for i := range s.Lsig.LMsig.Subsigs {
		add(&s.Lsig.LMsig.Subsigs[i].Sig)
	}
	return out
}

// the multisig in use by a member (transaction level or inside the logic signature), nil if none
func c28MsigOf(s *transactions.SignedTxn) *crypto.MultisigSig {
	switch {
	case len(s.Msig.Subsigs) > 0:
		return &s.Msig
	case len(s.Lsig.LMsig.Subsigs) > 0:
		return &s.Lsig.LMsig
	case len(s.Lsig.Msig.Subsigs) > 0:
		return &s.Lsig.Msig
	}
	return nil
}

func c28FlipBytes(t *rapid.T, b []byte, name string) {
	i := rapid.IntRange(0, len(b)-1).Draw(t, name+"Pos")
	b[i] ^= byte(rapid.IntRange(1, 255).Draw(t, name+"Xor"))
}

func c28Regroup(g []transactions.SignedTxn) {
	if len(g) == 1 && g[0].Txn.Group.IsZero() {
		return
	}
	gid := c28GroupID(g)
	for i := range g {
		g[i].Txn.Group = gid
	}
}

// ---------- mutations ----------

type c28Case struct {
	w     *c28World
	g     []transactions.SignedTxn
	auths []*c28Auth
}

func c28FieldChange(t *rapid.T, c *c28Case, m int) string {
	w := c.w
	tx := &c.g[m].Txn
	opts := []string{"fee", "note", "fv", "lv", "gh", "gen", "lease", "rekey", "group", "sender"}
	switch tx.Type {
	case protocol.PaymentTx:
		opts = append(opts, "amount", "amount", "receiver", "receiver", "close")
	case protocol.AssetTransferTx:
		opts = append(opts, "aamount", "areceiver", "asset")
	case protocol.KeyRegistrationTx:
		opts = append(opts, "keyreg")
	case protocol.ApplicationCallTx:
		opts = append(opts, "apparg", "appid", "oncompletion", "appacct")
	}
	f := rapid.SampledFrom(opts).Draw(t, "field")
	otherAddr := func(cur basics.Address) basics.Address {
		a := w.addr(rapid.IntRange(0, c28NKeys-1).Draw(t, "newAddr"))
		if a == cur {
			a[31] ^= 1
		}
		return a
	}
	switch f {
	case "fee":
		tx.Fee.Raw++
	case "note":
		tx.Note = append(append([]byte{}, tx.Note...), byte(rapid.IntRange(0, 255).Draw(t, "noteByte")))
	case "fv":
		tx.FirstValid--
	case "lv":
		tx.LastValid++
	case "gh":
		tx.GenesisHash[rapid.IntRange(0, 31).Draw(t, "ghPos")] ^= 0x40
	case "gen":
		tx.GenesisID += "x"
	case "lease":
		tx.Lease[rapid.IntRange(0, 31).Draw(t, "leasePos")] ^= 0x01
	case "rekey":
		if tx.RekeyTo.IsZero() {
			tx.RekeyTo = otherAddr(basics.Address{})
		} else if rapid.Bool().Draw(t, "rekeyClear") {
			tx.RekeyTo = basics.Address{}
		} else {
			tx.RekeyTo = otherAddr(tx.RekeyTo)
		}
	case "group":
		tx.Group[rapid.IntRange(0, 31).Draw(t, "groupPos")] ^= 0x10
	case "sender":
		tx.Sender = otherAddr(tx.Sender)
	case "amount":
		tx.Amount.Raw++
	case "receiver":
		tx.Receiver = otherAddr(tx.Receiver)
	case "close":
		tx.CloseRemainderTo = otherAddr(tx.CloseRemainderTo)
	case "aamount":
		tx.AssetAmount++
	case "areceiver":
		tx.AssetReceiver = otherAddr(tx.AssetReceiver)
	case "asset":
		tx.XferAsset++
	case "keyreg":
		if tx.VoteKeyDilution != 0 {
			tx.VoteLast++
		} else {
			tx.Nonparticipation = !tx.Nonparticipation
		}
	case "apparg":
		tx.ApplicationArgs = append(tx.ApplicationArgs, []byte{1})
	case "appid":
		tx.ApplicationID++
	case "oncompletion":
		tx.OnCompletion = transactions.OptInOC
	case "appacct":
		tx.Accounts = append(append([]basics.Address{}, tx.Accounts...), otherAddr(basics.Address{}))
	}
	mode := "single"
	if len(c.g) > 1 && f != "group" {
		mode = rapid.SampledFrom([]string{"stale-group", "regroup", "regroup-resign-others", "regroup-resign-others"}).Draw(t, "regroupMode")
		switch mode {
		case "regroup":
			c28Regroup(c.g)
		case "regroup-resign-others":
			c28Regroup(c.g)
			for i := range c.g {
				if i != m {
					c.auths[i].resign(w, &c.g[i])
				}
			}
		}
	}
	return "field:" + mode
}

func c28AddKind(t *rapid.T, c *c28Case, m int) string {
	w, s, a := c.w, &c.g[m], c.auths[m]
	var opts []string
	if s.Sig == (crypto.Signature{}) {
		opts = append(opts, "sig")
	}
	if c28MsigBlank(s.Msig) {
		opts = append(opts, "msig")
	}
	if len(s.Lsig.Logic) == 0 {
		opts = append(opts, "lsig")
	}
	if c28PQBlank(s.PQsig) && (a.kind == "lsig-pq" || rapid.IntRange(0, 3).Draw(t, "addPQ") == 0) {
		opts = append(opts, "pq")
	}
	if len(opts) == 0 {
		return ""
	}
	switch k := rapid.SampledFrom(opts).Draw(t, "addKind"); k {
	case "pq":
		b := c28Auth{kind: "pq", pqKey: a.pqKey, pqSalt: a.pqSalt} // for lsig-pq members: valid for the very same authorizer
		s.PQsig = b.makePQ(w, c28TxMsg(&s.Txn))
	case "sig":
		key := rapid.IntRange(0, c28NKeys-1).Draw(t, "addSigKey")
		if a.kind == "lsig-sig" {
			key = a.key // valid for the very same authorizer
		} else if len(a.mkeys) > 0 {
			key = a.mkeys[0]
		}
		s.Sig = w.sign(key, c28TxMsg(&s.Txn))
	case "msig":
		if a.kind == "lsig-msig" {
			s.Msig = a.makeMsig(w, c28TxMsg(&s.Txn)) // valid for the very same authorizer (if enough slots signed)
		} else {
			key := rapid.IntRange(0, c28NKeys-1).Draw(t, "addMsigKey")
			if a.kind == "sig" {
				key = a.key
			}
			b := c28Auth{kind: "msig", mkeys: []int{key}, thr: 1, signSlots: []bool{true}}
			s.Msig = b.makeMsig(w, c28TxMsg(&s.Txn))
		}
	default:
		prog := w.prog("int1", "int 1", func(*transactions.SignedTxn, int, int) bool { return true })
		s.Lsig = transactions.LogicSig{Logic: append([]byte{}, prog...)}
		switch a.kind {
		case "pq":
			s.Lsig.PQsig = a.makePQ(w, c28PQProgMsg(s.Authorizer(), prog)) // a valid delegation by the very same authorizer
		case "sig":
			s.Lsig.Sig = w.sign(a.key, c28ProgMsg(prog)) // a valid delegation by the very same authorizer
		case "msig":
			if w.proto.LogicSigLMsig {
				s.Lsig.LMsig = a.makeMsig(w, c28LMsigMsg(s.Authorizer(), prog))
			} else {
				s.Lsig.Msig = a.makeMsig(w, c28ProgMsg(prog))
			}
		}
	}
	return "add-kind"
}

// c28MsigPreimage changes what the multisig address is derived from.
func c28MsigPreimage(t *rapid.T, c *c28Case, m int) string {
	w, s := c.w, &c.g[m]
	ms := c28MsigOf(s)
	if ms == nil {
		return ""
	}
	n := len(ms.Subsigs)
	label := ""
	opts := []string{"thr", "thr", "ver", "ver", "key", "append-dup", "copy-slot"}
	if n >= 2 {
		opts = append(opts, "swap", "swap-keys", "drop-slot", "copy-sig")
	}
	switch op := rapid.SampledFrom(opts).Draw(t, "msigOp"); op {
	case "thr":
		nt := rapid.SampledFrom([]int{int(ms.Threshold) - 1, int(ms.Threshold) - 1, int(ms.Threshold) + 1, 0, n + 1}).Draw(t, "newThr")
		if nt < 0 {
			nt = 0
		}
		ms.Threshold = uint8(nt)
		label = "msig-thr"
	case "ver":
		ms.Version = rapid.SampledFrom([]uint8{0, 2, 255}).Draw(t, "newVer")
		label = "msig-ver"
	case "key":
		i := rapid.IntRange(0, n-1).Draw(t, "slot")
		if rapid.Bool().Draw(t, "keyFlip") {
			c28FlipBytes(t, ms.Subsigs[i].Key[:], "key")
		} else {
			ms.Subsigs[i].Key = w.pk(rapid.IntRange(0, c28NKeys-1).Draw(t, "newKey")) // may be the same key: neutral
		}
		label = "msig-key"
	case "swap":
		i := rapid.IntRange(0, n-2).Draw(t, "slot")
		ms.Subsigs[i], ms.Subsigs[i+1] = ms.Subsigs[i+1], ms.Subsigs[i]
		label = "msig-reorder"
	case "swap-keys":
		i := rapid.IntRange(0, n-2).Draw(t, "slot")
		ms.Subsigs[i].Key, ms.Subsigs[i+1].Key = ms.Subsigs[i+1].Key, ms.Subsigs[i].Key
		label = "msig-reorder-keys"
	case "append-dup":
		i := rapid.IntRange(0, n-1).Draw(t, "slot")
		ms.Subsigs = append(append([]crypto.MultisigSubsig{}, ms.Subsigs...), ms.Subsigs[i])
		label = "msig-dup-append"
	case "copy-slot":
		i, j := rapid.IntRange(0, n-1).Draw(t, "from"), rapid.IntRange(0, n-1).Draw(t, "to")
		ms.Subsigs[j] = ms.Subsigs[i]
		label = "msig-dup-slot"
	case "copy-sig":
		// duplicate a subsignature into another slot: counts only if that slot holds the same key
		i, j := rapid.IntRange(0, n-1).Draw(t, "from"), rapid.IntRange(0, n-1).Draw(t, "to")
		ms.Subsigs[j].Sig = ms.Subsigs[i].Sig
		label = "msig-dup-sig"
	case "drop-slot":
		i := rapid.IntRange(0, n-1).Draw(t, "slot")
		ms.Subsigs = append(append([]crypto.MultisigSubsig{}, ms.Subsigs[:i]...), ms.Subsigs[i+1:]...)
		label = "msig-drop-slot"
	}
	// optionally let the claimed authorizer follow the new preimage
	switch rapid.SampledFrom([]string{"none", "none", "authaddr", "sender"}).Draw(t, "follow") {
	case "authaddr":
		pks := make([]crypto.PublicKey, len(ms.Subsigs))
		for i := range ms.Subsigs {
			pks[i] = ms.Subsigs[i].Key
		}
		s.AuthAddr = c28MsigAddr(ms.Version, ms.Threshold, pks)
		label += "+follow-authaddr"
	case "sender":
		pks := make([]crypto.PublicKey, len(ms.Subsigs))
		for i := range ms.Subsigs {
			pks[i] = ms.Subsigs[i].Key
		}
		s.Txn.Sender = c28MsigAddr(ms.Version, ms.Threshold, pks)
		s.AuthAddr = basics.Address{}
		if len(c.g) > 1 && rapid.Bool().Draw(t, "followRegroup") {
			c28Regroup(c.g)
			for i := range c.g {
				if i != m {
					c.auths[i].resign(w, &c.g[i])
				}
			}
		}
		label += "+follow-sender"
	}
	return label
}

func c28WireFlip(t *rapid.T, c *c28Case, m int) string {
	enc := protocol.Encode(&c.g[m])
	for try := 0; try < 6; try++ {
		b := append([]byte{}, enc...)
		c28FlipBytes(t, b, "wire")
		var out transactions.SignedTxn
		if err := protocol.Decode(b, &out); err != nil {
			continue
		}
		if bytes.Equal(protocol.Encode(&out), enc) {
			continue
		}
		if !c28PQSigFlipClear(c.g[m].PQsig.Signature, out.PQsig.Signature) || !c28PQSigFlipClear(c.g[m].Lsig.PQsig.Signature, out.Lsig.PQsig.Signature) {
			return "excluded:pq-signature-body-flip"
		}
		c.g[m] = out
		return "wire-flip"
	}
	return ""
}

// c28PQSigFlipClear: is the verdict of a changed Falcon signature clear from the documentation? Unchanged, or
// changed in the header byte / salt version byte (both are checked / hashed) or in length: yes. A changed bit
// inside the compressed s2 body is invalid only "with overwhelming probability" (no strong-unforgeability
// statement): excluded and counted.
func c28PQSigFlipClear(old, new []byte) bool {
	if bytes.Equal(old, new) || len(old) != len(new) {
		return true
	}
	for i := range old {
		if old[i] != new[i] && i > 1 {
			return false
		}
	}
	return true
}

// c28PQOf: the post-quantum envelope in use by a member, nil if none
func c28PQOf(s *transactions.SignedTxn) *transactions.PQSig {
	switch {
	case !c28PQBlank(s.PQsig):
		return &s.PQsig
	case !c28PQBlank(s.Lsig.PQsig):
		return &s.Lsig.PQsig
	}
	return nil
}

// c28Mutate applies one mutation to member m; returns its label ("" = not applicable, nothing changed).
func c28Mutate(t *rapid.T, c *c28Case, m int) string {
	w, s, a := c.w, &c.g[m], c.auths[m]
	opts := []string{"field", "field", "field", "add-kind", "add-kind", "move-auth", "authaddr", "authaddr", "wire-flip", "roundtrip", "pq-junk", "orphan-lsig"}
	sites := c28SigSites(s)
	if len(sites) > 0 {
		opts = append(opts, "flip-sig", "flip-sig", "zero-sig")
	}
	if c28MsigOf(s) != nil {
		opts = append(opts, "msig-preimage", "msig-preimage", "msig-preimage", "msig-below-thr")
	}
	if len(s.Lsig.Logic) > 0 {
		opts = append(opts, "flip-prog", "swap-prog", "args", "args")
	}
	if pq := c28PQOf(s); pq != nil && len(pq.Signature) > 2 && len(pq.PublicKey) > 0 {
		opts = append(opts, "pq-envelope", "pq-envelope", "pq-envelope", "pq-envelope")
	}
	switch op := rapid.SampledFrom(opts).Draw(t, "mutation"); op {
	case "pq-envelope":
		pq := c28PQOf(s)
		switch rapid.SampledFrom([]string{"sig-head", "pk", "salt", "scheme", "empty-sig", "truncate", "other-key"}).Draw(t, "pqOp") {
		case "sig-head": // header byte or salt-version byte of the deterministic Falcon signature
			pq.Signature[rapid.IntRange(0, 1).Draw(t, "pqSigPos")] ^= byte(rapid.IntRange(1, 255).Draw(t, "pqSigXor"))
			return "pq-flip-sig-head"
		case "pk":
			c28FlipBytes(t, pq.PublicKey, "pqPk")
			return "pq-flip-pk"
		case "salt":
			pq.Salt++
			return "pq-salt"
		case "scheme":
			pq.Scheme[rapid.IntRange(0, len(pq.Scheme)-1).Draw(t, "pqSchemePos")] ^= 0x01
			return "pq-scheme"
		case "empty-sig":
			pq.Signature = nil
			return "pq-empty-sig"
		case "truncate":
			pq.Signature = pq.Signature[:len(pq.Signature)-1]
			return "pq-truncate-sig"
		default:
			// another key's public key, with or without the claimed authorizer following it
			o := c28PQKeys()[rapid.IntRange(0, 2).Draw(t, "pqOtherKey")].PublicKey
			pq.PublicKey = append([]byte{}, o[:]...)
			if rapid.Bool().Draw(t, "pqFollow") {
				s.AuthAddr = c28PQAddr(pq.Scheme, pq.Salt, pq.PublicKey)
				return "pq-other-key+follow-authaddr"
			}
			return "pq-other-key"
		}
	case "field":
		return c28FieldChange(t, c, m)
	case "add-kind":
		return c28AddKind(t, c, m)
	case "move-auth":
		if len(c.g) > 1 {
			o := rapid.IntRange(0, len(c.g)-2).Draw(t, "moveTo")
			if o >= m {
				o++
			}
			x := &c.g[o]
			s.Sig, x.Sig = x.Sig, s.Sig
			s.Msig, x.Msig = x.Msig, s.Msig
			s.Lsig, x.Lsig = x.Lsig, s.Lsig
			s.PQsig, x.PQsig = x.PQsig, s.PQsig
			return "move-auth:swap"
		}
		// take the authorization of a sibling transaction (same recipe, different note)
		tmp := c28CloneStx(*s)
		tmp.Txn.Note = append(append([]byte{}, tmp.Txn.Note...), 0x5a)
		a.resign(w, &tmp)
		s.Sig, s.Msig, s.Lsig, s.PQsig = tmp.Sig, tmp.Msig, tmp.Lsig, tmp.PQsig
		return "move-auth:sibling"
	case "authaddr":
		switch rapid.SampledFrom([]string{"sender", "sender", "clear", "third"}).Draw(t, "authaddrOp") {
		case "sender":
			s.AuthAddr = s.Txn.Sender
			return "authaddr=sender"
		case "clear":
			if s.AuthAddr.IsZero() {
				return ""
			}
			s.AuthAddr = basics.Address{}
			return "authaddr-clear"
		default:
			s.AuthAddr = w.addr(rapid.IntRange(0, c28NKeys-1).Draw(t, "third"))
			return "authaddr-third"
		}
	case "wire-flip":
		return c28WireFlip(t, c, m)
	case "roundtrip":
		var out transactions.SignedTxn
		if err := protocol.Decode(protocol.Encode(s), &out); err != nil {
			// an in-memory form with no wire representation (e.g. a multisig whose required "thr"/"v" field
			// became zero through an earlier mutation): it cannot arrive over the wire, nothing to do
			return "excluded:roundtrip-of-a-form-without-wire-representation"
		}
		*s = out
		return "roundtrip"
	case "pq-junk":
		junk := transactions.PQSig{Scheme: protocol.PQSchemeFalcon1024, PublicKey: []byte{1, 2, 3}, Signature: []byte{4, 5, 6}}
		if len(s.Lsig.Logic) > 0 && rapid.Bool().Draw(t, "pqInLsig") {
			s.Lsig.PQsig = junk
		} else {
			s.PQsig = junk
		}
		return "pq-junk"
	case "orphan-lsig":
		if len(s.Lsig.Logic) > 0 {
			return ""
		}
		if rapid.Bool().Draw(t, "orphanSig") {
			s.Lsig.Sig = w.sign(rapid.IntRange(0, c28NKeys-1).Draw(t, "orphanKey"), c28TxMsg(&s.Txn))
		} else {
			s.Lsig.Args = [][]byte{{1}}
		}
		return "orphan-lsig"
	case "flip-sig":
		p := sites[rapid.IntRange(0, len(sites)-1).Draw(t, "site")]
		c28FlipBytes(t, p[:], "sig")
		return "flip-sig"
	case "zero-sig":
		p := sites[rapid.IntRange(0, len(sites)-1).Draw(t, "site")]
		*p = crypto.Signature{}
		return "zero-sig"
	case "msig-preimage":
		return c28MsigPreimage(t, c, m)
	case "msig-below-thr":
		ms := c28MsigOf(s)
		cnt := 0
		for i := range ms.Subsigs {
			if ms.Subsigs[i].Sig != (crypto.Signature{}) {
				cnt++
				if cnt >= int(ms.Threshold) {
					ms.Subsigs[i].Sig = crypto.Signature{}
				}
			}
		}
		return "msig-below-thr"
	case "flip-prog":
		c28FlipBytes(t, s.Lsig.Logic, "prog")
		return "flip-prog"
	case "swap-prog":
		np := w.prog("int1", "int 1", func(*transactions.SignedTxn, int, int) bool { return true })
		if bytes.Equal(np, s.Lsig.Logic) {
			np = w.prog("int1-pop", "int 1\nint 1\npop", func(*transactions.SignedTxn, int, int) bool { return true })
		}
		s.Lsig.Logic = append([]byte{}, np...)
		return "swap-prog"
	case "args":
		switch rapid.SampledFrom([]string{"flip", "add", "drop", "set"}).Draw(t, "argsOp") {
		case "flip":
			for i := range s.Lsig.Args {
				if len(s.Lsig.Args[i]) > 0 {
					c28FlipBytes(t, s.Lsig.Args[i], "arg")
					return "args-flip"
				}
			}
			return ""
		case "add":
			s.Lsig.Args = append(s.Lsig.Args, []byte{byte(rapid.IntRange(0, 255).Draw(t, "newArg"))})
			return "args-add"
		case "drop":
			if len(s.Lsig.Args) == 0 {
				return ""
			}
			s.Lsig.Args = s.Lsig.Args[:len(s.Lsig.Args)-1]
			return "args-drop"
		default:
			s.Lsig.Args = [][]byte{{0, 1}, {0xaa, 0xbb}}
			return "args-set"
		}
	}
	return ""
}

// ---------- running the real verifiers ----------

func c28Header(cv protocol.ConsensusVersion) bookkeeping.BlockHeader {
	return bookkeeping.BlockHeader{
		Round:        50,
		GenesisHash:  c28GenesisHash,
		UpgradeState: bookkeeping.UpgradeState{CurrentProtocol: cv},
		RewardsState: bookkeeping.RewardsState{FeeSink: feeSink, RewardsPool: poolAddr},
	}
}

func c28ErrClass(err error) string {
	if err == nil {
		return "ok"
	}
	s := err.Error()
	for _, kv := range [][2]string{
		{"only one type of signature", "two-kinds"}, {"has no sig", "no-sig"}, {"multisig validation failed", "msig-structure"},
		{"logic multisig validation failed", "lsig-msig-structure"}, {"rejected by logic", "logic-reject"},
		{"At least one signature didn't pass", "bad-signature"}, {"didn't pass verification", "bad-signature"},
		{"AuthAddr must be different", "authaddr-sender"}, {"transactionGroup", "group-id"},
		{"LogicNot signed", "lsig-not-signed"}, {"one type of delegation", "lsig-two-delegations"},
		{"not supported in this consensus", "lsig-field-unsupported"}, {"pq signature", "pq"},
		{"without LogicSig program", "orphan-lsig"}, {"logic eval error", "logic-error"}, {"invalid", "other-invalid"},
	} {
		if strings.Contains(s, kv[0]) {
			return kv[1]
		}
	}
	return "other"
}

type c28Sample struct {
	Proto     string   `json:"proto"`
	Members   []string `json:"members"`
	Mutations []string `json:"mutations"`
	Expect    string   `json:"expect"`
	Why       string   `json:"why,omitempty"`
	GotErr    string   `json:"got_err,omitempty"`
}

func TestVerif_C28_Verify(t *testing.T) {
	vk := vkBegin(t, "C28")
	vk.Rule("groups of 1..4 signed transactions (pay/axfer/keyreg/appl) authorized by sig / v1 msig (1..5 slots from 8 real keys, repeats, thr 1..n, signed subsets around thr) / lsig (contract, key-delegated, msig-delegated via Msig or LMsig, Falcon-delegated; approving/rejecting/erroring programs with args) / Falcon-1024 post-quantum signature, optionally rekeyed (AuthAddr), under v40/v41/v42/future, then 0..2 mutations; oracle = reference verifier over an ideal signature scheme (provenance of every signature the harness made); non-trivial = mutated, or a msig signed by thr-1/thr/thr+1 slots, or a rekeyed sender; distinct by encoded group + protocol")
	vk.Assume("ed25519 / deterministic Falcon-1024 signatures made by the harness verify, and no other bytes verify for the generated keys and messages (ideal signature scheme; changed bits inside the compressed body of a Falcon signature are excluded and counted); SHA-512/256 collision freedom; msgpack encoding (protocol.Encode) is canonical; Transaction.WellFormed is used as a precondition filter only")
	pool := execpool.MakeBacklog(nil, 0, execpool.LowPriority, t)
	defer pool.Shutdown()
	versions := []protocol.ConsensusVersion{protocol.ConsensusV40, protocol.ConsensusV41, protocol.ConsensusV42, protocol.ConsensusV42, protocol.ConsensusV42, protocol.ConsensusFuture}

	rapid.Check(t, func(t *rapid.T) {
		w := &c28World{pqProv: map[string]c28PQProv{}, prov: map[crypto.Signature]c28Prov{}, progs: map[string]c28ProgModel{}, progName: map[string]string{}}
		w.cv = rapid.SampledFrom(versions).Draw(t, "proto")
		w.proto = config.Consensus[w.cv]
		crypto.SetEd25519BatchVerifier(rapid.Bool().Draw(t, "ed25519ConsensusBatch"))
		keySeed := rapid.Uint64().Draw(t, "keySeed")
		for i := 0; i < c28NKeys; i++ {
			var pre [16]byte
			binary.LittleEndian.PutUint64(pre[:], keySeed)
			binary.LittleEndian.PutUint64(pre[8:], uint64(i))
			w.keys = append(w.keys, crypto.GenerateSignatureSecrets(crypto.Seed(crypto.Hash(pre[:]))))
		}

		// ----- build the group
		n := rapid.SampledFrom([]int{1, 1, 1, 2, 2, 3, 4}).Draw(t, "groupSize")
		c := &c28Case{w: w, g: make([]transactions.SignedTxn, n), auths: make([]*c28Auth, n)}
		nontrivial := false
		for i := 0; i < n; i++ {
			tx := c28Body(t, w)
			a := &c28Auth{}
			kindPool := []string{"sig", "sig", "sig", "msig", "msig", "msig", "msig", "lsig-contract", "lsig-contract", "lsig-sig", "lsig-sig", "lsig-msig", "lsig-msig"}
			if w.proto.PQSigEnabled() {
				kindPool = append(kindPool, "pq", "lsig-pq")
			} else {
				kindPool = append(kindPool, rapid.SampledFrom([]string{"sig", "msig", "pq", "lsig-pq"}).Draw(t, "oldProtoPQ"))
			}
			a.kind = rapid.SampledFrom(kindPool).Draw(t, "authKind")
			switch a.kind {
			case "pq", "lsig-pq":
				a.pqKey = rapid.IntRange(0, 2).Draw(t, "pqKey")
				a.pqSalt = basics.PQAddressSalt(rapid.IntRange(0, 3).Draw(t, "pqSalt"))
			case "sig", "lsig-sig":
				a.key = rapid.IntRange(0, c28NKeys-1).Draw(t, "key")
			case "msig", "lsig-msig":
				c28DrawMsigShape(t, a)
				d := a.signedCount() - int(a.thr)
				if d >= -1 && d <= 1 {
					nontrivial = true
				}
				// the field the protocol supports, rarely the other one
				a.lmsig = w.proto.LogicSigLMsig
				if a.kind == "lsig-msig" && rapid.IntRange(0, 9).Draw(t, "wrongMsigField") == 0 {
					a.lmsig = !a.lmsig
				}
			}
			if strings.HasPrefix(a.kind, "lsig") {
				a.prog, a.args, a.progFl = c28PickProgram(t, w, &tx, i, n)
			}
			a.rekeyed = rapid.IntRange(0, 3).Draw(t, "rekeyed") == 0
			auth := a.authorizer(w)
			tx.Sender = auth
			if a.rekeyed {
				nontrivial = true
				tx.Sender = w.addr(rapid.IntRange(0, c28NKeys-1).Draw(t, "rekeyedSender"))
				if tx.Sender == auth {
					tx.Sender[31] ^= 1
				}
				c.g[i].AuthAddr = auth
			}
			if tx.Type == protocol.PaymentTx && tx.CloseRemainderTo == tx.Sender {
				tx.CloseRemainderTo = basics.Address{}
			}
			c.g[i].Txn = tx
			c.auths[i] = a
		}
		if n > 1 {
			gid := c28GroupID(c.g)
			for i := range c.g {
				c.g[i].Txn.Group = gid
			}
		}
		for i := range c.g {
			c.auths[i].resign(w, &c.g[i])
		}
		base := c28CloneGroup(c.g)
		baseExp, baseWhy, baseUnk := w.expect(base)
		if baseUnk {
			t.Fatalf("harness: unmutated group has an unknown program")
		}

		// ----- mutate
		var muts []string
		target := 0
		nm := rapid.SampledFrom([]int{0, 0, 1, 1, 1, 1, 1, 2, 2}).Draw(t, "nMutations")
		for k := 0; k < nm; k++ {
			m := rapid.IntRange(0, n-1).Draw(t, "target")
			if k == 0 {
				target = m
			}
			if l := c28Mutate(t, c, m); strings.HasPrefix(l, "excluded:") {
				vk.Excluded(strings.TrimPrefix(l, "excluded:"))
			} else if l != "" {
				muts = append(muts, l)
			} else {
				vk.Label("mutation-not-applicable")
			}
		}
		if len(muts) > 0 {
			nontrivial = true
		}
		g := c.g
		exp, why, unk := w.expect(g)
		if unk {
			vk.Excluded("unknown-program-validly-authorized")
			return
		}

		hdr := c28Header(w.cv)
		ledger := &DummyLedgerForSignature{}
		before := c28EncodeGroup(g)
		describe := func() string {
			var kinds []string
			for i := range g {
				kinds = append(kinds, fmt.Sprintf("%s(%s rekeyed=%v)", c28KindOf(&g[i]), c.auths[i].kind, c.auths[i].rekeyed))
			}
			return fmt.Sprintf("proto=%s members=%v mutations=%v expected accept=%v (%s)\ngroup(msgpack hex, '|' separated)=%s", w.cv, kinds, muts, exp, why, before)
		}
		check := func(path string, err error, want bool, wantWhy string) {
			if (err == nil) != want {
				t.Fatalf("C28 %s: accepted=%v but the reference verifier says accept=%v (%s); err=%v\n%s", path, err == nil, want, wantWhy, err, describe())
			}
		}

		// path 1: TxnGroup with a real cache
		cache := MakeVerifiedTransactionCache(64)
		checkBaseFirst := rapid.Bool().Draw(t, "cacheBaseFirst")
		if checkBaseFirst {
			_, err := TxnGroup(base, &hdr, cache, ledger)
			check("TxnGroup(base)", err, baseExp, baseWhy)
			// the cache must never vouch for a group the reference verifier rejects
			if unv := cache.GetUnverifiedTransactionGroups([][]transactions.SignedTxn{g}, c28Spec, w.cv); len(unv) == 0 && !exp {
				t.Fatalf("C28 cache: after verifying the unmutated group the cache reports the mutated group as verified, reference says reject (%s)\n%s", why, describe())
			}
		}
		_, err := TxnGroup(g, &hdr, cache, ledger)
		check("TxnGroup", err, exp, why)
		unv := cache.GetUnverifiedTransactionGroups([][]transactions.SignedTxn{g}, c28Spec, w.cv)
		if !exp && len(unv) == 0 {
			t.Fatalf("C28 cache: a rejected group is reported verified by the cache\n%s", describe())
		}
		gotClass := c28ErrClass(err)

		// one more entry point per case
		switch path := rapid.SampledFrom([]string{"tracer", "sigverifier", "batch", "batch", "payset"}).Draw(t, "path"); path {
		case "tracer":
			_, err2 := TxnGroupWithTracer(g, &hdr, nil, ledger, logic.NullEvalTracer{})
			check("TxnGroupWithTracer", err2, exp, why)
		case "sigverifier":
			sv := TxnGroupBatchSigVerifier{cache: MakeVerifiedTransactionCache(64), nbw: MakeNewBlockWatcher(hdr), ledger: ledger}
			check("TxnGroupBatchSigVerifier.Verify", sv.Verify(g), exp, why)
		case "batch":
			// the gossip path: several groups share one signature batch; verdicts must be attributed per group
			groups := [][]transactions.SignedTxn{base, g, c28CloneGroup(base)}
			wants := []bool{baseExp, exp, baseExp}
			if rapid.Bool().Draw(t, "batchOrder") {
				groups[0], groups[1] = groups[1], groups[0]
				wants[0], wants[1] = wants[1], wants[0]
			}
			resultChan := make(chan *VerificationResult, len(groups))
			dropped := make(chan *UnverifiedTxnSigJob, len(groups))
			tbp := &txnSigBatchProcessor{
				TxnGroupBatchSigVerifier: TxnGroupBatchSigVerifier{cache: MakeVerifiedTransactionCache(64), nbw: MakeNewBlockWatcher(hdr), ledger: ledger},
				resultChan:               resultChan, droppedChan: dropped,
			}
			jobs := make([]execpool.InputJob, len(groups))
			for i := range groups {
				jobs[i] = &UnverifiedTxnSigJob{TxnGroup: groups[i], BacklogMessage: i}
			}
			tbp.ProcessBatch(jobs)
			if len(resultChan) != len(groups) || len(dropped) != 0 {
				t.Fatalf("C28 ProcessBatch: %d results, %d dropped for %d jobs\n%s", len(resultChan), len(dropped), len(groups), describe())
			}
			seen := map[int]bool{}
			for range groups {
				r := <-resultChan
				i := r.BacklogMessage.(int)
				if seen[i] {
					t.Fatalf("C28 ProcessBatch: two results for job %d\n%s", i, describe())
				}
				seen[i] = true
				if (r.Err == nil) != wants[i] {
					t.Fatalf("C28 ProcessBatch job %d of %d: accepted=%v, reference says %v; err=%v (base expected %v: %s)\n%s", i, len(groups), r.Err == nil, wants[i], r.Err, baseExp, baseWhy, describe())
				}
			}
		case "payset":
			err2 := PaysetGroups(context.Background(), [][]transactions.SignedTxn{g}, hdr, pool, MakeVerifiedTransactionCache(64), ledger)
			check("PaysetGroups", err2, exp, why)
		}
		if after := c28EncodeGroup(g); after != before {
			t.Fatalf("harness: a verifier modified its input group\nbefore=%s\nafter=%s", before, after)
		}

		// ----- bookkeeping
		verdict := "reject"
		if exp {
			verdict = "accept"
		}
		tk := c.auths[target].kind
		if c.auths[target].rekeyed {
			tk += "/rekeyed"
		}
		mk := "none"
		if len(muts) == 1 {
			mk = muts[0]
		} else if len(muts) > 1 {
			// two mutations: base names only, to keep the histogram readable
			var bs []string
			for _, m := range muts {
				bs = append(bs, strings.SplitN(strings.SplitN(m, ":", 2)[0], "+", 2)[0])
			}
			mk = strings.Join(bs, " & ")
		}
		vk.Labelf("%s | %s | %s", tk, mk, verdict)
		vk.Labelf("proto=%s", w.cv)
		vk.Labelf("verdict=%s", verdict)
		vk.Labelf("mutations=%d", len(muts))
		if !exp {
			vk.Labelf("why=%s", why)
			vk.Labelf("real-error-class=%s", gotClass)
		}
		for _, a := range c.auths {
			if a.signMode != "" {
				vk.Labelf("msig-signed=%s", a.signMode)
			}
			if a.progFl != "" {
				vk.Labelf("program=%s", a.progFl)
			}
		}
		vk.Case(nontrivial, string(w.cv)+before)
		if vk.WantSample(nontrivial) {
			smp := c28Sample{Proto: string(w.cv), Mutations: muts, Expect: verdict, Why: why}
			for i := range g {
				smp.Members = append(smp.Members, fmt.Sprintf("%s %s", g[i].Txn.Type, c28KindOf(&g[i])))
			}
			if err != nil {
				smp.GotErr = c28ErrClass(err)
			}
			vk.Sample(nontrivial, smp)
		}
	})
}
