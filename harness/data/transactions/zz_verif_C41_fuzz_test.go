package transactions

// C41 native fuzz targets (thorough tier only) for the wire types of this package; seed corpora live in
// /verif/corpus/<FuzzName>/ (written once by TestVerif_C41_WriteCorpus_* with VERIF_WRITE_CORPUS=<dir>).

import (
	"fmt"
	"testing"

	"github.com/algorand/go-algorand/protocol"
)

func FuzzVerif_C41_SignedTxn(f *testing.F) { c41FuzzRun(f, "SignedTxn") }

func FuzzVerif_C41_SignedTxnInBlock(f *testing.F) { c41FuzzRun(f, "SignedTxnInBlock") }

func TestVerif_C41_WriteCorpus_data_transactions(t *testing.T) {
	c41WriteCorpus(t, "FuzzVerif_C41_SignedTxn", "SignedTxn")
	c41WriteCorpus(t, "FuzzVerif_C41_SignedTxnInBlock", "SignedTxnInBlock")
}

// TestVerif_C41_Depth_data_transactions: the only self-containing wire type is EvalDelta (inner transactions). A
// message nested deeper than the declared decode depth (protocol.maxMsgpDecodeDepth = 255 generated-decoder levels)
// must be refused by protocol.Decode; no decoder may crash on it.
func TestVerif_C41_Depth_data_transactions(t *testing.T) {
	vk := vkBegin(t, "C41")
	vk.Rule("SignedTxnWithAD whose EvalDelta.InnerTxns nests d levels (d = 1..2000, each level = >= 2 generated-decoder levels), encoded by the generated encoder and decoded as SignedTxnWithAD / SignedTxnInBlock / ApplyData / EvalDelta / Payset; oracle: no escaping panic, and d >= 300 (beyond 255 by any counting) is rejected by protocol.Decode; non-trivial = d >= 300")
	build := func(d int) SignedTxnWithAD {
		mk := func(i int) SignedTxnWithAD {
			var s SignedTxnWithAD
			s.Txn.Type = "pay"
			s.Txn.Sender[0] = byte(i) | 1
			s.Txn.Fee.Raw = uint64(i) + 1
			return s
		}
		cur := mk(0)
		for i := 1; i <= d; i++ {
			next := mk(i)
			next.ApplyData.EvalDelta.InnerTxns = []SignedTxnWithAD{cur}
			cur = next
		}
		return cur
	}
	type rp struct {
		Depth int
		As    string
	}
	deepest := 0
	for _, d := range []int{1, 2, 10, 50, 100, 120, 126, 127, 128, 130, 200, 254, 255, 256, 300, 500, 1000, 2000} {
		top := build(d)
		forms := map[string][]byte{
			"SignedTxnWithAD":  protocol.Encode(&top),
			"SignedTxnInBlock": protocol.Encode(&SignedTxnInBlock{SignedTxnWithAD: top}),
			"ApplyData":        protocol.Encode(&top.ApplyData),
			"EvalDelta":        protocol.Encode(&top.ApplyData.EvalDelta),
			"Payset":           protocol.Encode(Payset{SignedTxnInBlock{SignedTxnWithAD: top}}),
		}
		for _, name := range []string{"SignedTxnWithAD", "SignedTxnInBlock", "ApplyData", "EvalDelta", "Payset"} {
			var ty *eType
			for i := range eTypes {
				if eTypes[i].Name == name {
					ty = &eTypes[i]
				}
			}
			if ty == nil {
				continue
			}
			in := forms[name]
			r := eDecode(ty, in, false, true)
			if r.Panic != nil {
				vk.Failf(rp{d, name}, "protocol.Decode panicked on %d nested inner transactions: %v", d, r.Panic)
			}
			if r.Alloc > eAllocBudget(len(in))+uint64(d)*64<<10 {
				vk.Failf(rp{d, name}, "protocol.Decode allocated %d bytes for %d nested inner transactions (%d input bytes)", r.Alloc, d, len(in))
			}
			if d >= 300 && r.Err == nil {
				vk.Failf(rp{d, name}, "protocol.Decode accepted %s with inner transactions nested %d deep; the declared decode depth is 255", name, d)
			}
			if r.Err == nil && d > deepest {
				deepest = d
			}
			r2 := eDecode(ty, in, true, false)
			if r2.Panic != nil {
				vk.Failf(rp{d, name}, "protocol.DecodeReflect panicked on %d nested inner transactions: %v", d, r2.Panic)
			}
			if r.Err == nil {
				vk.Labelf("accepted:%s", name)
			} else {
				vk.Labelf("rejected:%s", name)
			}
			vk.Case(d >= 300, fmt.Sprintf("%s/%d", name, d))
		}
	}
	vk.Add("deepest_nesting_accepted", int64(deepest))
	vk.Sample(true, map[string]int{"deepest_nesting_accepted_by_protocol.Decode": deepest})
}
