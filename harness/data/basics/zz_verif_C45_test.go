package basics

// C45 — Overflow-checked arithmetic is exact. Oracle: math/big.

import (
	"fmt"
	"math"
	"math/big"
	"testing"

	"pgregory.net/rapid"
)

var c45Two64 = new(big.Int).Lsh(big.NewInt(1), 64)

func c45B(x uint64) *big.Int { return new(big.Int).SetUint64(x) }

// boundary-heavy uint64 generator
func c45U64() *rapid.Generator[uint64] {
	return rapid.Custom(func(t *rapid.T) uint64 {
		switch rapid.IntRange(0, 9).Draw(t, "kind") {
		case 0:
			return rapid.Uint64().Draw(t, "u")
		case 1:
			return rapid.Uint64Range(0, 4).Draw(t, "small")
		case 2:
			return math.MaxUint64 - rapid.Uint64Range(0, 4).Draw(t, "nearmax")
		case 3, 4:
			k := rapid.IntRange(1, 63).Draw(t, "k")
			d := rapid.Uint64Range(0, 2).Draw(t, "d")
			return (uint64(1) << uint(k)) + d - 1
		case 5:
			// near sqrt(2^64): products straddle 2^64
			return uint64(1<<32) + uint64(rapid.IntRange(-3, 3).Draw(t, "s"))
		case 6:
			return uint64(math.MaxInt64) + uint64(rapid.IntRange(-2, 3).Draw(t, "i"))
		case 7:
			// decimal scales used by callers
			p := []uint64{1e3, 1e6, 1e9, 1e12, 1e15, 1e18}
			return p[rapid.IntRange(0, len(p)-1).Draw(t, "p")] + uint64(rapid.IntRange(-1, 1).Draw(t, "pd"))
		default:
			k := rapid.IntRange(0, 64).Draw(t, "bits")
			if k == 0 {
				return 0
			}
			return rapid.Uint64().Draw(t, "u") >> uint(64-k)
		}
	})
}

func c45Exhaustive8(t *testing.T, vk *vkCtx) {
	type rp struct {
		Op   string
		A, B uint8
	}
	for a := 0; a < 256; a++ {
		for b := 0; b < 256; b++ {
			x, y := uint8(a), uint8(b)
			nt := a+b > 255 || a*b > 255 || a < b
			vk.Case(nt, fmt.Sprintf("u8/%d/%d", a, b))
			if r, o := OAdd(x, y); o != (a+b > 255) || (!o && int(r) != a+b) {
				vk.Failf(rp{"OAdd8", x, y}, "OAdd[uint8](%d,%d) = %d,%v", a, b, r, o)
			}
			if r, o := OSub(x, y); o != (a < b) || (!o && int(r) != a-b) {
				vk.Failf(rp{"OSub8", x, y}, "OSub[uint8](%d,%d) = %d,%v", a, b, r, o)
			}
			if r, o := OMul(x, y); o != (a*b > 255) || (!o && int(r) != a*b) {
				vk.Failf(rp{"OMul8", x, y}, "OMul[uint8](%d,%d) = %d,%v", a, b, r, o)
			}
			want := a + b
			if want > 255 {
				want = 255
			}
			if r := AddSaturate(x, y); int(r) != want {
				vk.Failf(rp{"AddSat8", x, y}, "AddSaturate[uint8](%d,%d) = %d", a, b, r)
			}
			want = a - b
			if want < 0 {
				want = 0
			}
			if r := SubSaturate(x, y); int(r) != want {
				vk.Failf(rp{"SubSat8", x, y}, "SubSaturate[uint8](%d,%d) = %d", a, b, r)
			}
			want = a * b
			if want > 255 {
				want = 255
			}
			if r := MulSaturate(x, y); int(r) != want {
				vk.Failf(rp{"MulSat8", x, y}, "MulSaturate[uint8](%d,%d) = %d", a, b, r)
			}
		}
	}
	vk.Exhaustive("all 65536 uint8 pairs for OAdd/OSub/OMul/AddSaturate/SubSaturate/MulSaturate")
}

func c45Exhaustive16(t *testing.T, vk *vkCtx) {
	// uint16: a slice of the 2^32 pair space per shard in thorough (full space over 16 shards); strided sample in quick.
	type rp struct {
		Op   string
		A, B uint16
	}
	sh, n := vkShard(), vkNShards()
	step := 1
	if !vkThorough() {
		step = 97
	}
	cnt := int64(0)
	for a := sh; a < 65536; a += n * step {
		for b := 0; b < 65536; b += step {
			x, y := uint16(a), uint16(b)
			cnt++
			if r, o := OAdd(x, y); o != (a+b > 65535) || (!o && int(r) != a+b) {
				vk.Failf(rp{"OAdd16", x, y}, "OAdd[uint16](%d,%d) = %d,%v", a, b, r, o)
			}
			if r, o := OSub(x, y); o != (a < b) || (!o && int(r) != a-b) {
				vk.Failf(rp{"OSub16", x, y}, "OSub[uint16](%d,%d) = %d,%v", a, b, r, o)
			}
			if r, o := OMul(x, y); o != (a*b > 65535) || (!o && int(r) != a*b) {
				vk.Failf(rp{"OMul16", x, y}, "OMul[uint16](%d,%d) = %d,%v", a, b, r, o)
			}
		}
	}
	vk.Add("uint16_pairs", cnt)
	if vkThorough() && n == 16 {
		vk.Exhaustive("all 2^32 uint16 pairs for OAdd/OSub/OMul (split over 16 shards)")
	}
}

func TestVerif_C45_Exhaustive(t *testing.T) {
	vk := vkBegin(t, "C45")
	vk.Rule("exhaustive uint8 pair space (and uint16: strided in quick, complete over 16 shards in thorough); non-trivial = pair whose true result leaves the range for some op")
	if vkShard() == 0 {
		c45Exhaustive8(t, vk)
	}
	c45Exhaustive16(t, vk)
}

func TestVerif_C45_Big(t *testing.T) {
	vk := vkBegin(t, "C45")
	vk.Rule("boundary-biased uint64 operands (2^k, 2^k±1, MaxUint64-d, 2^32±d, decimal scales, random widths) against math/big; non-trivial = true result out of range for some helper, or within 2 of the boundary; distinct by operand tuple")
	max := new(big.Int).Sub(c45Two64, big.NewInt(1))
	rapid.Check(t, func(t *rapid.T) {
		a := c45U64().Draw(t, "a")
		b := c45U64().Draw(t, "b")
		c := c45U64().Draw(t, "c")
		d := c45U64().Draw(t, "d")
		nt := false
		A, B, C, D := c45B(a), c45B(b), c45B(c), c45B(d)

		// --- OAdd / OSub / OMul + saturating + tracker
		sum := new(big.Int).Add(A, B)
		if r, o := OAdd(a, b); o != (sum.Cmp(max) > 0) || (!o && c45B(r).Cmp(sum) != 0) {
			t.Fatalf("OAdd(%d,%d)=%d,%v want %s", a, b, r, o, sum)
		}
		if sum.Cmp(max) > 0 {
			nt = true
			if AddSaturate(a, b) != math.MaxUint64 {
				t.Fatalf("AddSaturate(%d,%d) not saturated", a, b)
			}
		} else if c45B(AddSaturate(a, b)).Cmp(sum) != 0 {
			t.Fatalf("AddSaturate(%d,%d) wrong", a, b)
		}
		diff := new(big.Int).Sub(A, B)
		if r, o := OSub(a, b); o != (diff.Sign() < 0) || (!o && c45B(r).Cmp(diff) != 0) {
			t.Fatalf("OSub(%d,%d)=%d,%v want %s", a, b, r, o, diff)
		}
		if diff.Sign() < 0 {
			nt = true
			if SubSaturate(a, b) != 0 {
				t.Fatalf("SubSaturate(%d,%d) not 0", a, b)
			}
		} else if c45B(SubSaturate(a, b)).Cmp(diff) != 0 {
			t.Fatalf("SubSaturate(%d,%d) wrong", a, b)
		}
		prod := new(big.Int).Mul(A, B)
		if r, o := OMul(a, b); o != (prod.Cmp(max) > 0) || (!o && c45B(r).Cmp(prod) != 0) {
			t.Fatalf("OMul(%d,%d)=%d,%v want %s", a, b, r, o, prod)
		}
		if prod.Cmp(max) > 0 {
			nt = true
			if MulSaturate(a, b) != math.MaxUint64 {
				t.Fatalf("MulSaturate(%d,%d) not saturated", a, b)
			}
		} else if c45B(MulSaturate(a, b)).Cmp(prod) != 0 {
			t.Fatalf("MulSaturate(%d,%d) wrong", a, b)
		}
		var ot OverflowTracker
		r1 := ot.Add(a, b)
		if ot.Overflowed != (sum.Cmp(max) > 0) || (!ot.Overflowed && c45B(r1).Cmp(sum) != 0) {
			t.Fatalf("OverflowTracker.Add(%d,%d)", a, b)
		}
		ot = OverflowTracker{}
		r1 = ot.Sub(a, b)
		if ot.Overflowed != (diff.Sign() < 0) || (!ot.Overflowed && c45B(r1).Cmp(diff) != 0) {
			t.Fatalf("OverflowTracker.Sub(%d,%d)", a, b)
		}
		ot = OverflowTracker{}
		r1 = ot.Mul(a, b)
		if ot.Overflowed != (prod.Cmp(max) > 0) || (!ot.Overflowed && c45B(r1).Cmp(prod) != 0) {
			t.Fatalf("OverflowTracker.Mul(%d,%d)", a, b)
		}
		// tracker is sticky
		ot = OverflowTracker{Overflowed: true}
		ot.Add(1, 1)
		if !ot.Overflowed {
			t.Fatalf("OverflowTracker lost its flag")
		}
		// MicroAlgos wrappers
		if r, o := OAddA(MicroAlgos{a}, MicroAlgos{b}); o != (sum.Cmp(max) > 0) || (!o && c45B(r.Raw).Cmp(sum) != 0) {
			t.Fatalf("OAddA(%d,%d)", a, b)
		}
		if r, o := OSubA(MicroAlgos{a}, MicroAlgos{b}); o != (diff.Sign() < 0) || (!o && c45B(r.Raw).Cmp(diff) != 0) {
			t.Fatalf("OSubA(%d,%d)", a, b)
		}

		// --- ODiff
		minI, maxI := big.NewInt(math.MinInt64), big.NewInt(math.MaxInt64)
		outI := diff.Cmp(minI) < 0 || diff.Cmp(maxI) > 0
		if r, o := ODiff(a, b); o != outI || (!o && big.NewInt(r).Cmp(diff) != 0) {
			t.Fatalf("ODiff(%d,%d)=%d,%v want %s out=%v", a, b, r, o, diff, outI)
		}
		if outI {
			nt = true
		}

		// --- Muldiv a*b/c (c != 0: callers pass non-zero constants)
		if c != 0 {
			q, rem := new(big.Int).QuoRem(prod, C, new(big.Int))
			out := q.Cmp(max) > 0
			gq, grem, o := muldiv(a, b, c)
			if o != out || (!o && (c45B(gq).Cmp(q) != 0 || c45B(grem).Cmp(rem) != 0)) {
				t.Fatalf("muldiv(%d,%d,%d)=%d,%d,%v want %s,%s,%v", a, b, c, gq, grem, o, q, rem, out)
			}
			if q2, o2 := Muldiv(a, b, c); o2 != out || (!o2 && q2 != gq) {
				t.Fatalf("Muldiv(%d,%d,%d) disagrees with muldiv", a, b, c)
			}
			if out || new(big.Int).Sub(max, q).Cmp(big.NewInt(2)) <= 0 {
				nt = true
			}
		}
		// --- Mul2div a*b*c/d
		if d != 0 {
			p3 := new(big.Int).Mul(prod, C)
			q, rem := new(big.Int).QuoRem(p3, D, new(big.Int))
			out := q.Cmp(max) > 0
			gq, grem, o := Mul2div(a, b, c, d)
			if o != out {
				t.Fatalf("Mul2div(%d,%d,%d,%d) overflow=%v want %v (q=%s)", a, b, c, d, o, out, q)
			}
			if !o && (c45B(gq).Cmp(q) != 0 || c45B(grem).Cmp(rem) != 0) {
				t.Fatalf("Mul2div(%d,%d,%d,%d)=%d,%d want %s,%s", a, b, c, d, gq, grem, q, rem)
			}
			if o && (gq != math.MaxUint64 || grem != 0) {
				t.Fatalf("Mul2div(%d,%d,%d,%d) overflow result not saturated: %d,%d", a, b, c, d, gq, grem)
			}
			if out {
				nt = true
			}
		}
		// --- MulMicros / Micros.Mul: a*b/1e6 saturating
		{
			q := new(big.Int).Quo(prod, big.NewInt(1e6))
			out := q.Cmp(max) > 0
			r, o := MicroAlgos{a}.MulMicros(Micros(b))
			if o != out || (o && r.Raw != math.MaxUint64) || (!o && c45B(r.Raw).Cmp(q) != 0) {
				t.Fatalf("MulMicros(%d,%d)=%d,%v want %s", a, b, r.Raw, o, q)
			}
			m, o2 := Micros(a).Mul(Micros(b))
			if o2 != out || (o2 && uint64(m) != math.MaxUint64) || (!o2 && c45B(uint64(m)).Cmp(q) != 0) {
				t.Fatalf("Micros.Mul(%d,%d)=%d,%v want %s", a, b, m, o2, q)
			}
		}
		// --- Micros.MulInt
		{
			i := int(int64(b))
			if rapid.Bool().Draw(t, "smallInt") {
				i = rapid.IntRange(-3, 1<<20).Draw(t, "i")
			}
			m, o := Micros(a).MulInt(i)
			if i < 0 {
				if !o || m != 0 {
					t.Fatalf("Micros(%d).MulInt(%d) = %d,%v want 0,true", a, i, m, o)
				}
			} else {
				p := new(big.Int).Mul(A, big.NewInt(int64(i)))
				out := p.Cmp(max) > 0
				if o != out || (o && uint64(m) != math.MaxUint64) || (!o && c45B(uint64(m)).Cmp(p) != 0) {
					t.Fatalf("Micros(%d).MulInt(%d) = %d,%v want %s", a, i, m, o, p)
				}
			}
		}
		// --- MulAIntSaturate (callers pass non-negative ints)
		{
			i := rapid.IntRange(0, math.MaxInt32).Draw(t, "mi")
			p := new(big.Int).Mul(A, big.NewInt(int64(i)))
			r := MulAIntSaturate(MicroAlgos{a}, i)
			if p.Cmp(max) > 0 {
				if r.Raw != math.MaxUint64 {
					t.Fatalf("MulAIntSaturate(%d,%d) not saturated", a, i)
				}
			} else if c45B(r.Raw).Cmp(p) != 0 {
				t.Fatalf("MulAIntSaturate(%d,%d)=%d", a, i, r.Raw)
			}
		}
		// --- Fraction.Divvy: proper fraction num<=den, den>0
		{
			den := d
			if den == 0 {
				den = 1
			}
			num := c
			if num > den {
				num = num % (den + 1)
				if den == math.MaxUint64 {
					num = c
				}
			}
			fr := NewFraction(num, den)
			f1, f2 := fr.Divvy(a)
			want := new(big.Int).Quo(new(big.Int).Mul(A, c45B(num)), c45B(den))
			if c45B(f1).Cmp(want) != 0 {
				t.Fatalf("Fraction{%d/%d}.Divvy(%d) first=%d want %s", num, den, a, f1, want)
			}
			if new(big.Int).Add(c45B(f1), c45B(f2)).Cmp(A) != 0 {
				t.Fatalf("Fraction{%d/%d}.Divvy(%d) parts %d+%d do not sum to input", num, den, a, f1, f2)
			}
			g1, g2 := fr.DivvyAlgos(MicroAlgos{a})
			if g1.Raw != f1 || g2.Raw != f2 {
				t.Fatalf("DivvyAlgos disagrees with Divvy")
			}
		}
		// --- DivCeil within its stated precondition (positive operands, no overflow of num+den-1)
		{
			n, dd := a>>1, (b>>2)+1
			want := new(big.Int).Quo(new(big.Int).Add(c45B(n), new(big.Int).Sub(c45B(dd), big.NewInt(1))), c45B(dd))
			if got := DivCeil(n, dd); c45B(got).Cmp(want) != 0 {
				t.Fatalf("DivCeil(%d,%d)=%d want %s", n, dd, got, want)
			}
		}
		// --- Round helpers
		if r := Round(a).SubSaturate(Round(b)); (diff.Sign() < 0 && r != 0) || (diff.Sign() >= 0 && c45B(uint64(r)).Cmp(diff) != 0) {
			t.Fatalf("Round.SubSaturate(%d,%d)=%d", a, b, r)
		}
		if r := (MicroAlgos{a}).AddSaturate(MicroAlgos{b}); r.Raw != AddSaturate(a, b) {
			t.Fatalf("MicroAlgos.AddSaturate")
		}
		if r := (MicroAlgos{a}).SubSaturate(MicroAlgos{b}); r.Raw != SubSaturate(a, b) {
			t.Fatalf("MicroAlgos.SubSaturate")
		}
		fp := fmt.Sprintf("%d/%d/%d/%d", a, b, c, d)
		vk.Case(nt, fp)
		if vk.WantSample(nt) {
			vk.Sample(nt, map[string]uint64{"a": a, "b": b, "c": c, "d": d})
		}
	})
}

// FeeForUsage chains: total charged == ceil(total exact) while residue invariant holds.
func TestVerif_C45_FeeChain(t *testing.T) {
	vk := vkBegin(t, "C45")
	vk.Rule("chains of 1..40 FeeForUsage calls threading the residue; oracle: sum(fees)*1e12 - residue == sum(exact base*usage*mult) and 0 <= residue < 1e12; non-trivial = chain with >=2 round-ups or an overflow; distinct by chain")
	scale := big.NewInt(1e12)
	max := new(big.Int).Sub(c45Two64, big.NewInt(1))
	rapid.Check(t, func(t *rapid.T) {
		n := rapid.IntRange(1, 40).Draw(t, "n")
		residue := uint64(0)
		if rapid.Bool().Draw(t, "startResidue") {
			residue = rapid.Uint64Range(0, 1e12-1).Draw(t, "r0")
		}
		exact := new(big.Int)         // Σ base*usage*mult (scaled by 1e12)
		paid := new(big.Int)          // Σ fee
		credit := c45B(residue)       // residue brought in counts as pre-paid
		roundups, overflows := 0, 0
		fp := fmt.Sprintf("r%d", residue)
		for i := 0; i < n; i++ {
			var base, usage, mult uint64
			if rapid.IntRange(0, 9).Draw(t, "wild") == 0 {
				base, usage, mult = c45U64().Draw(t, "base"), c45U64().Draw(t, "usage"), c45U64().Draw(t, "mult")
			} else {
				base = rapid.Uint64Range(0, 5_000_000).Draw(t, "base")
				usage = rapid.Uint64Range(0, 20_000_000).Draw(t, "usage")
				mult = rapid.Uint64Range(0, 5_000_000).Draw(t, "mult")
			}
			fp += fmt.Sprintf("|%d,%d,%d", base, usage, mult)
			e := new(big.Int).Mul(new(big.Int).Mul(c45B(base), c45B(usage)), c45B(mult))
			q, rem := new(big.Int).QuoRem(e, scale, new(big.Int))
			fee, nr, o := MicroAlgos{base}.FeeForUsage(Micros(usage), Micros(mult), residue)
			// true fee under the scheme: floor if residue covers the fraction else ceil
			wantFee := new(big.Int).Set(q)
			if rem.Cmp(c45B(residue)) > 0 {
				wantFee.Add(wantFee, big.NewInt(1))
			}
			wantO := wantFee.Cmp(max) > 0
			if o != wantO {
				t.Fatalf("FeeForUsage(%d,%d,%d,res=%d) overflow=%v want %v", base, usage, mult, residue, o, wantO)
			}
			if o {
				overflows++
				if fee.Raw != math.MaxUint64 || nr != residue {
					t.Fatalf("FeeForUsage overflow not saturated / residue changed: %d %d", fee.Raw, nr)
				}
				continue
			}
			if c45B(fee.Raw).Cmp(wantFee) != 0 {
				t.Fatalf("FeeForUsage(%d,%d,%d,res=%d)=%d want %s", base, usage, mult, residue, fee.Raw, wantFee)
			}
			if fee.Raw != q.Uint64() {
				roundups++
			}
			if nr >= 1e12 {
				t.Fatalf("residue %d out of [0,1e12)", nr)
			}
			exact.Add(exact, e)
			paid.Add(paid, c45B(fee.Raw))
			residue = nr
			// invariant: paid*1e12 + credit0 == exact + residue
			lhs := new(big.Int).Add(new(big.Int).Mul(paid, scale), credit)
			rhs := new(big.Int).Add(exact, c45B(residue))
			if lhs.Cmp(rhs) != 0 {
				t.Fatalf("chain invariant broken at %d: paid*1e12+credit=%s exact+residue=%s", i, lhs, rhs)
			}
		}
		nt := roundups >= 2 || overflows > 0
		vk.Case(nt, fp)
		if vk.WantSample(nt) {
			vk.Sample(nt, fp)
		}
	})
}
