package pools

// C20 — Proposed blocks validate and evaluation is deterministic.
//
// Two real ledgers with the same history (node A owns a TransactionPool and validates+adds; node B, differently
// configured, receives every block through AddBlock, i.e. the non-validating evaluation). Random pools of really
// signed groups (payments, closes, leases, asset transfers, application calls with global/local/box writes, logs,
// inner payments, inner asset creation, inner application calls, shared-account local writes; valid, invalid,
// conflicting, expiring) are remembered; every round a block is produced by TransactionPool.AssembleBlock (the
// pipeline a node runs), by AssembleDevModeBlock, or by a foreign proposer's generating evaluator; it is finished the
// way agreement does (UnfinishedBlock.FinishBlock with seed/proposer/eligibility) and then
//   - Ledger.Validate on node B must accept it,
//   - it is evaluated again several times on node A under different conditions (Validate with a 1-slot serial and a
//     wide backlog pool, eval.Eval validate=true with a mocked / the node's / an empty verified-transaction cache,
//     eval.Eval validate=false, caches flushed or warmed by lookups in between, node B closed and reopened),
//   - it is generated again from its bare transactions (ApplyData stripped) on a fresh generating evaluator,
// and all canonical StateDelta renderings / encoded paysets must be identical; the generator's delta must equal the
// validators' except for the proposer-dependent parts (header, proposer and fee sink records, totals when a payout
// is made).

import (
	"context"
	"encoding/binary"
	"fmt"
	"io"
	"os"
	"path/filepath"
	"sort"
	"strings"
	"sync"
	"sync/atomic"
	"testing"
	"time"

	"github.com/algorand/avm-abi/apps"
	"github.com/algorand/go-deadlock"
	"pgregory.net/rapid"

	"github.com/algorand/go-algorand/agreement"
	"github.com/algorand/go-algorand/config"
	"github.com/algorand/go-algorand/crypto"
	"github.com/algorand/go-algorand/data/basics"
	"github.com/algorand/go-algorand/data/bookkeeping"
	"github.com/algorand/go-algorand/data/committee"
	"github.com/algorand/go-algorand/data/transactions"
	"github.com/algorand/go-algorand/data/transactions/logic"
	"github.com/algorand/go-algorand/data/transactions/verify"
	"github.com/algorand/go-algorand/ledger"
	"github.com/algorand/go-algorand/ledger/eval"
	"github.com/algorand/go-algorand/ledger/ledgercore"
	"github.com/algorand/go-algorand/logging"
	"github.com/algorand/go-algorand/protocol"
	"github.com/algorand/go-algorand/util/execpool"
)

const c20AppSource = `#pragma version 10
txn ApplicationID; bz ok
txn NumAppArgs; bz ok
txn ApplicationArgs 0; byte "gput"; ==; bnz gput
txn ApplicationArgs 0; byte "gdel"; ==; bnz gdel
txn ApplicationArgs 0; byte "lput"; ==; bnz lput
txn ApplicationArgs 0; byte "lput2"; ==; bnz lput2
txn ApplicationArgs 0; byte "lshare"; ==; bnz lshare
txn ApplicationArgs 0; byte "bput"; ==; bnz bput
txn ApplicationArgs 0; byte "bdel"; ==; bnz bdel
txn ApplicationArgs 0; byte "ipay"; ==; bnz ipay
txn ApplicationArgs 0; byte "ipay2"; ==; bnz ipay2
txn ApplicationArgs 0; byte "acreate"; ==; bnz acreate
txn ApplicationArgs 0; byte "icall"; ==; bnz icall
txn ApplicationArgs 0; byte "log"; ==; bnz dolog
txn ApplicationArgs 0; byte "aparams"; ==; bnz aparams
txn ApplicationArgs 0; byte "reject"; ==; bnz reject
txn ApplicationArgs 0; byte "err"; ==; bnz doerr
b ok
gput:
 txn ApplicationArgs 1; txn ApplicationArgs 2; app_global_put; b ok
gdel:
 txn ApplicationArgs 1; app_global_del; b ok
lput:
 txn Sender; txn ApplicationArgs 1; txn ApplicationArgs 2; app_local_put; b ok
lput2:
 txn Sender; byte "a"; txn ApplicationArgs 1; app_local_put
 txn Accounts 1; byte "b"; txn ApplicationArgs 1; app_local_put
 b ok
lshare:
 gtxn 0 Sender; byte "s"; txn ApplicationArgs 1; app_local_put
 txn Sender; byte "t"; txn ApplicationArgs 1; app_local_put
 b ok
bput:
 txn ApplicationArgs 1; box_del; pop
 txn ApplicationArgs 1; txn ApplicationArgs 2; box_put; b ok
bdel:
 txn ApplicationArgs 1; box_del; pop; b ok
ipay:
 itxn_begin
 int pay; itxn_field TypeEnum
 txn Accounts 1; itxn_field Receiver
 txn ApplicationArgs 1; btoi; itxn_field Amount
 itxn_submit
 b ok
ipay2:
 itxn_begin
 int pay; itxn_field TypeEnum
 txn Accounts 1; itxn_field Receiver
 txn ApplicationArgs 1; btoi; itxn_field Amount
 itxn_next
 int pay; itxn_field TypeEnum
 txn Sender; itxn_field Receiver
 int 1; itxn_field Amount
 itxn_submit
 txn ApplicationArgs 1; log
 b ok
acreate:
 itxn_begin
 int acfg; itxn_field TypeEnum
 int 1000; itxn_field ConfigAssetTotal
 byte "c20"; itxn_field ConfigAssetUnitName
 itxn_submit
 itxn CreatedAssetID; itob; log
 b ok
icall:
 itxn_begin
 int appl; itxn_field TypeEnum
 txn Applications 1; itxn_field ApplicationID
 byte "gput"; itxn_field ApplicationArgs
 txn ApplicationArgs 1; itxn_field ApplicationArgs
 txn ApplicationArgs 2; itxn_field ApplicationArgs
 itxn_submit
 b ok
dolog:
 txn ApplicationArgs 1; log
 global Round; itob; log
 b ok
aparams:
 txn Assets 0; asset_params_get AssetTotal; assert; itob; log
 b ok
reject:
 int 0; return
doerr:
 err
ok:
 int 1; return
`

const c20ClearSource = "#pragma version 10\nint 1\n"

const c20NUsers = 6

var (
	c20Once    sync.Once
	c20Keys    []*crypto.SignatureSecrets
	c20Addrs   []basics.Address
	c20Sink    basics.Address
	c20Rewards basics.Address
	c20Wide    execpool.BacklogPool // NumCPU workers, NumCPU slots
	c20Serial  execpool.BacklogPool // one worker, one slot
	c20Seq     atomic.Uint64
	c20Approve []byte
	c20Clear   []byte
)

// c20OneWorker is an ExecutionPool with a single worker goroutine.
type c20OneWorker struct {
	ch   chan func()
	once sync.Once
	wg   sync.WaitGroup
}

func c20NewOneWorker() *c20OneWorker {
	p := &c20OneWorker{ch: make(chan func())}
	p.wg.Add(1)
	go func() {
		defer p.wg.Done()
		for f := range p.ch {
			f()
		}
	}()
	return p
}

func (p *c20OneWorker) Enqueue(ctx context.Context, t execpool.ExecFunc, arg any, _ execpool.Priority, out chan any) error {
	f := func() {
		r := t(arg)
		if out != nil {
			out <- r
		}
	}
	select {
	case p.ch <- f:
		return nil
	case <-ctx.Done():
		return ctx.Err()
	}
}
func (p *c20OneWorker) GetOwner() any       { return p }
func (p *c20OneWorker) Shutdown()           { p.once.Do(func() { close(p.ch) }); p.wg.Wait() }
func (p *c20OneWorker) GetParallelism() int { return 1 }

func c20Secret(tag byte, i int) *crypto.SignatureSecrets {
	var seed crypto.Seed
	copy(seed[:], "c20-deterministic-key-seed......")
	seed[30] = tag
	seed[31] = byte(i)
	return crypto.GenerateSignatureSecrets(seed)
}

func c20Init(tb testing.TB) {
	c20Once.Do(func() {
		deadlock.Opts.Disable = true // see C44: production default, and a flake risk on a loaded machine
		for i := 0; i < c20NUsers; i++ {
			k := c20Secret('u', i)
			c20Keys = append(c20Keys, k)
			c20Addrs = append(c20Addrs, basics.Address(k.SignatureVerifier))
		}
		c20Sink = basics.Address(c20Secret('s', 0).SignatureVerifier)
		c20Rewards = basics.Address(c20Secret('r', 0).SignatureVerifier)
		c20Wide = execpool.MakeBacklog(nil, 0, execpool.LowPriority, nil)
		c20Serial = execpool.MakeBacklog(c20NewOneWorker(), 1, execpool.LowPriority, nil)
		ops, err := logic.AssembleString(strings.ReplaceAll(c20AppSource, ";", "\n"))
		if err != nil {
			tb.Fatalf("ENGINE: assemble approval: %v", err)
		}
		c20Approve = ops.Program
		ops, err = logic.AssembleString(c20ClearSource)
		if err != nil {
			tb.Fatalf("ENGINE: assemble clear: %v", err)
		}
		c20Clear = ops.Program
	})
}

func c20Logger() logging.Logger {
	lg := logging.NewLogger()
	lg.SetOutput(io.Discard)
	lg.SetLevel(logging.Error)
	return lg
}

type c20Group = []transactions.SignedTxn

type c20Vac struct{}

// this node's participating accounts: a subset, so that the other online accounts can appear in the expired lists
func (c20Vac) VotingAccountsForRound(basics.Round) []basics.Address { return c20Addrs[:3] }

type c20World struct {
	vk      *vkCtx
	cv      protocol.ConsensusVersion
	proto   config.ConsensusParams
	genesis ledgercore.InitState
	dir     string
	A, B    *ledger.Ledger
	cfgA    config.Local
	cfgB    config.Local
	pathB   string
	pool    *TransactionPool
	app     basics.AppIndex
	app2    basics.AppIndex
	asset   basics.AssetIndex
	noteSeq uint64
	known   []c20Group
	hist    []string

	abandoned bool

	msOpen, msCheck, msReopen, msSubmit int64 // wall-clock cost accounting for notes (never used by an oracle)

	lastRecomputeDropped int // groups the pool's last recompute dropped for a reason other than being committed
	nBlocks, nInnerBlocks, nNontrivialBlocks, nDropped, nEvals int
}

func (w *c20World) tracef(f string, a ...any) { w.hist = append(w.hist, fmt.Sprintf(f, a...)) }
func (w *c20World) tail() string {
	h := w.hist
	if len(h) > 30 {
		h = h[len(h)-30:]
	}
	return strings.Join(h, "\n  ")
}

func c20Infra(err error) bool {
	if err == nil {
		return false
	}
	s := err.Error()
	return strings.Contains(s, "database is locked") || strings.Contains(s, "database table is locked") || strings.Contains(s, "sql:")
}

type c20Abandon struct{ err error }

func (w *c20World) infra(err error) {
	if c20Infra(err) {
		w.vk.Label("infra:storage-error-case-abandoned")
		w.abandoned = true
		panic(c20Abandon{err})
	}
}

func c20DrawCfg(t *rapid.T, name string) config.Local {
	cfg := config.GetDefaultLocal()
	cfg.MaxAcctLookback = uint64(rapid.IntRange(1, 8).Draw(t, name+".MaxAcctLookback"))
	cfg.Archival = true
	// the LRU caches (what "warm" means for account/resource/kv lookups) cost ~60 MB per open: 0.4 s on an idle machine,
	// measured 10-20 s at load average 200, where they were 80 % of the cost of a case. Node A has them in 1/6 of the
	// cases, node B (reopened during the history) never.
	cfg.DisableLedgerLRUCache = name != "A" || rapid.IntRange(0, 5).Draw(t, name+".LRU") != 0
	cfg.TxPoolSize = 64
	cfg.VerifiedTranscationsCacheSize = 256
	cfg.LedgerSynchronousMode = 0
	cfg.AccountsRebuildSynchronousMode = 0
	return cfg
}

func c20NewWorld(t *rapid.T, vk *vkCtx) *c20World {
	w := &c20World{vk: vk}
	if rapid.IntRange(0, 3).Draw(t, "proto") == 0 {
		w.cv = protocol.ConsensusCurrentVersion
	} else {
		w.cv = protocol.ConsensusFuture
	}
	w.proto = config.Consensus[w.cv]
	accts := map[basics.Address]basics.AccountData{}
	for i, a := range c20Addrs {
		bal := uint64(0)
		switch {
		case i < 2:
			bal = 2_000_000_000_000
		case i < 4:
			bal = rapid.Uint64Range(20_000_000, 60_000_000).Draw(t, "balMid")
		default:
			bal = rapid.Uint64Range(1_000_000, 1_400_000).Draw(t, "balPoor")
		}
		ad := basics.AccountData{MicroAlgos: basics.MicroAlgos{Raw: bal}, Status: basics.Offline}
		if i%2 == 1 {
			// online with voting keys that expire inside the history: generated blocks carry expired-account lists
			ad.Status = basics.Online
			ad.VoteLastValid = basics.Round(rapid.SampledFrom([]int{3, 5, 8, 1000000}).Draw(t, "voteLast"))
			ad.VoteKeyDilution = 10000
			ad.VoteID[0], ad.SelectionID[0], ad.StateProofID[0] = byte(i+1), byte(i+1), byte(i+1)
			ad.IncentiveEligible = rapid.Bool().Draw(t, "incentiveEligible")
		}
		accts[a] = ad
	}
	accts[c20Sink] = basics.AccountData{MicroAlgos: basics.MicroAlgos{Raw: rapid.SampledFrom([]uint64{200_000, 50_000_000}).Draw(t, "sinkBal")}, Status: basics.NotParticipating}
	accts[c20Rewards] = basics.AccountData{MicroAlgos: basics.MicroAlgos{Raw: rapid.SampledFrom([]uint64{100_000, 5_000_000_000_000}).Draw(t, "rewardsBal")}, Status: basics.NotParticipating}
	var genHash crypto.Digest
	copy(genHash[:], "c20-genesis-hash-0123456789abcdef")
	balances := bookkeeping.MakeTimestampedGenesisBalances(accts, c20Sink, c20Rewards, 1_700_000_000)
	genBlock, err := bookkeeping.MakeGenesisBlock(w.cv, balances, "c20", genHash)
	if err != nil {
		t.Fatalf("ENGINE: MakeGenesisBlock: %v", err)
	}
	w.genesis = ledgercore.InitState{Block: genBlock, Accounts: accts, GenesisHash: genHash}
	base := ""
	if st, e := os.Stat("/dev/shm"); e == nil && st.IsDir() {
		base = "/dev/shm"
	}
	w.dir, err = os.MkdirTemp(base, "verif-c20-")
	if err != nil {
		t.Fatalf("ENGINE: MkdirTemp: %v", err)
	}
	w.cfgA = c20DrawCfg(t, "A")
	w.cfgB = c20DrawCfg(t, "B")
	seq := c20Seq.Add(1)
	t0 := time.Now()
	defer func() {
		w.msOpen += time.Since(t0).Milliseconds()
		if !w.cfgA.DisableLedgerLRUCache {
			vk.Add("ms-open-ledgers-with-LRU", time.Since(t0).Milliseconds())
			vk.Add("cases-with-LRU", 1)
		}
	}()
	w.A, err = ledger.OpenLedger(c20Logger(), filepath.Join(w.dir, fmt.Sprintf("a%d", seq)), false, w.genesis, w.cfgA)
	if err != nil {
		w.close()
		t.Fatalf("ENGINE: OpenLedger A: %v", err)
	}
	w.pathB = filepath.Join(w.dir, fmt.Sprintf("b%d", seq))
	w.B, err = ledger.OpenLedger(c20Logger(), w.pathB, false, w.genesis, w.cfgB)
	if err != nil {
		w.close()
		t.Fatalf("ENGINE: OpenLedger B: %v", err)
	}
	w.tracef("world %s A{lookback=%d lru=%v} B{lookback=%d lru=%v}", w.cv, w.cfgA.MaxAcctLookback, !w.cfgA.DisableLedgerLRUCache, w.cfgB.MaxAcctLookback, !w.cfgB.DisableLedgerLRUCache)
	return w
}

func (w *c20World) close() {
	if w.pool != nil {
		w.pool.Shutdown()
	}
	for _, l := range []*ledger.Ledger{w.A, w.B} {
		if l != nil {
			l.Close()
		}
	}
	w.A, w.B = nil, nil
	if w.dir != "" {
		os.RemoveAll(w.dir)
		w.dir = ""
	}
}

// ---------------------------------------------------------------------------------------------------------------
// canonical renderings

func c20CanonDelta(sd ledgercore.StateDelta, skip map[basics.Address]bool, withHdr, withTotals bool) string {
	var lines []string
	add := func(f string, a ...any) { lines = append(lines, fmt.Sprintf(f, a...)) }
	for _, r := range sd.Accts.Accts {
		if skip[r.Addr] {
			continue
		}
		add("acct %s %+v", r.Addr, r.AccountData)
	}
	for _, r := range sd.Accts.AppResources {
		p, s := "nil", "nil"
		if r.Params.Params != nil {
			p = fmt.Sprintf("%+v", *r.Params.Params)
		}
		if r.State.LocalState != nil {
			s = fmt.Sprintf("%+v", *r.State.LocalState)
		}
		add("appres %s %d params(del=%v %s) state(del=%v %s)", r.Addr, r.Aidx, r.Params.Deleted, p, r.State.Deleted, s)
	}
	for _, r := range sd.Accts.AssetResources {
		p, h := "nil", "nil"
		if r.Params.Params != nil {
			p = fmt.Sprintf("%+v", *r.Params.Params)
		}
		if r.Holding.Holding != nil {
			h = fmt.Sprintf("%+v", *r.Holding.Holding)
		}
		add("assetres %s %d params(del=%v %s) holding(del=%v %s)", r.Addr, r.Aidx, r.Params.Deleted, p, r.Holding.Deleted, h)
	}
	for k, v := range sd.KvMods {
		add("kv %x data=%x nil=%v old=%x oldnil=%v", k, v.Data, v.Data == nil, v.OldData, v.OldData == nil)
	}
	for k, v := range sd.Txids {
		add("txid %s lv=%d intra=%d", k, v.LastValid, v.Intra)
	}
	for k, v := range sd.Txleases {
		add("lease %s %x exp=%d", k.Sender, k.Lease, v)
	}
	for k, v := range sd.Creatables {
		add("creatable %d %+v", k, v)
	}
	sort.Strings(lines)
	if withHdr {
		hdr := "nil"
		if sd.Hdr != nil {
			hdr = fmt.Sprintf("%x", protocol.Encode(sd.Hdr))
		}
		lines = append(lines, "hdr "+hdr)
	}
	lines = append(lines, fmt.Sprintf("spnext %d prevts %d", sd.StateProofNext, sd.PrevTimestamp))
	if withTotals {
		lines = append(lines, fmt.Sprintf("totals %+v", sd.Totals))
	}
	return strings.Join(lines, "\n")
}

func c20Diff(a, b string) string {
	la, lb := strings.Split(a, "\n"), strings.Split(b, "\n")
	sa, sb := map[string]bool{}, map[string]bool{}
	for _, l := range la {
		sa[l] = true
	}
	for _, l := range lb {
		sb[l] = true
	}
	var out []string
	tr := func(s string) string {
		if len(s) > 700 {
			return s[:700] + "..."
		}
		return s
	}
	for _, l := range la {
		if !sb[l] {
			out = append(out, "  first only:  "+tr(l))
		}
	}
	for _, l := range lb {
		if !sa[l] {
			out = append(out, "  second only: "+tr(l))
		}
	}
	if len(out) > 8 {
		out = out[:8]
	}
	return strings.Join(out, "\n")
}

// ---------------------------------------------------------------------------------------------------------------
// block production and the oracle

func (w *c20World) freshEval(t *rapid.T, l *ledger.Ledger) *eval.BlockEvaluator {
	prev, err := l.BlockHdr(l.Latest())
	if err != nil {
		t.Fatalf("ENGINE: BlockHdr: %v", err)
	}
	ev, err := l.StartEvaluator(bookkeeping.MakeBlock(prev).BlockHeader, 0, 0, nil)
	if err != nil {
		t.Fatalf("ENGINE: StartEvaluator: %v", err)
	}
	return ev
}

// warm performs the lookups a node would have cached had it served these accounts recently.
func (w *c20World) warm(l *ledger.Ledger, blk bookkeeping.Block) {
	rnd := l.Latest()
	flat, _ := blk.DecodePaysetFlat()
	for _, stx := range flat {
		tx := stx.Txn
		for _, a := range append([]basics.Address{tx.Sender, tx.Receiver, tx.AssetReceiver, tx.CloseRemainderTo}, tx.Accounts...) {
			if a.IsZero() {
				continue
			}
			_, _, _ = l.LookupWithoutRewards(rnd, a)
			if w.asset != 0 {
				_, _ = l.LookupAsset(rnd, a, w.asset)
			}
			if w.app != 0 {
				_, _ = l.LookupApplication(rnd, a, w.app)
			}
		}
		for _, br := range tx.Boxes {
			_, _ = l.LookupKv(rnd, apps.MakeBoxKey(uint64(tx.ApplicationID), string(br.Name)))
		}
	}
}

type c20Eval struct {
	name string
	run  func() (ledgercore.StateDelta, error)
}

// check runs the whole oracle on one finished block; ledgers A and B are at blk.Round()-1. Returns A's validated block.
func (w *c20World) check(t *rapid.T, ub *ledgercore.UnfinishedBlock, blk bookkeeping.Block, how string) *ledgercore.ValidatedBlock {
	t0 := time.Now()
	defer func() { w.msCheck += time.Since(t0).Milliseconds() }()
	ctx := context.Background()
	// 1. every node with the same state accepts it
	vbB, err := w.B.Validate(ctx, blk, c20Wide)
	w.infra(err)
	if err != nil {
		t.Fatalf("C20 block %d (%s, %d txns) is rejected by Ledger.Validate on a second ledger with the same history: %v\n  %s", blk.Round(), how, len(blk.Payset), err, w.tail())
	}
	ref := c20CanonDelta(vbB.Delta(), nil, true, true)

	// 2. repeated evaluation on node A under different conditions
	var vbA *ledgercore.ValidatedBlock
	evals := []c20Eval{
		{"A.Validate/serial-pool", func() (ledgercore.StateDelta, error) {
			vb, e := w.A.Validate(ctx, blk, c20Serial)
			if e != nil {
				return ledgercore.StateDelta{}, e
			}
			vbA = vb
			return vb.Delta(), nil
		}},
		{"A.Validate/wide-pool", func() (ledgercore.StateDelta, error) {
			vb, e := w.A.Validate(ctx, blk, c20Wide)
			if e != nil {
				return ledgercore.StateDelta{}, e
			}
			vbA = vb
			return vb.Delta(), nil
		}},
		{"Eval/validate/mocked-cache", func() (ledgercore.StateDelta, error) {
			return eval.Eval(ctx, w.A, blk, true, verify.GetMockedCache(true), c20Wide, nil)
		}},
		{"Eval/validate/empty-cache/serial-pool", func() (ledgercore.StateDelta, error) {
			return eval.Eval(ctx, w.A, blk, true, verify.MakeVerifiedTransactionCache(8), c20Serial, nil)
		}},
		{"Eval/no-validate", func() (ledgercore.StateDelta, error) {
			return eval.Eval(ctx, w.A, blk, false, w.A.VerifiedTransactionCache(), nil, nil)
		}},
	}
	order := rapid.Permutation([]int{0, 1, 2, 3, 4}).Draw(t, "evalOrder")
	n := rapid.IntRange(3, 4).Draw(t, "nEvals")
	for _, i := range order[:n] {
		switch rapid.SampledFrom([]string{"none", "flush", "warm", "flush+warm"}).Draw(t, "perturb") {
		case "flush":
			w.A.FlushCaches()
		case "warm":
			w.warm(w.A, blk)
		case "flush+warm":
			w.A.FlushCaches()
			w.warm(w.A, blk)
		}
		d, e := evals[i].run()
		w.infra(e)
		if e != nil {
			t.Fatalf("C20 block %d (%s): %s rejects the block that node B validated: %v\n  %s", blk.Round(), how, evals[i].name, e, w.tail())
		}
		w.nEvals++
		if got := c20CanonDelta(d, nil, true, true); got != ref {
			t.Fatalf("C20 block %d (%s): StateDelta of %s differs from node B's Validate\n%s\n  %s", blk.Round(), how, evals[i].name, c20Diff(ref, got), w.tail())
		}
		w.vk.Label("eval:" + evals[i].name)
	}
	if vbA == nil {
		vb, e := w.A.Validate(ctx, blk, c20Wide)
		w.infra(e)
		if e != nil {
			t.Fatalf("C20 block %d (%s): A.Validate rejects: %v\n  %s", blk.Round(), how, e, w.tail())
		}
		vbA = vb
	}

	// 3. generator vs validator (proposer-dependent parts excluded)
	skip := map[basics.Address]bool{blk.Proposer(): true, blk.FeeSink: true}
	// totals are comparable when no payout is made and recording the proposal does not change the proposer's status
	// (a suspended proposer is put back online by the validator, not by the generator that does not know it yet)
	withTotals := blk.ProposerPayout().IsZero()
	if pre, _, e := w.A.LookupWithoutRewards(w.A.Latest(), blk.Proposer()); e == nil {
		if post, ok := vbB.Delta().Accts.GetData(blk.Proposer()); ok && post.Status != pre.Status {
			// the block's own transactions may have changed it too; either way the generator's totals may differ
			if gpost, gok := ub.UnfinishedDeltas().Accts.GetData(blk.Proposer()); !gok || gpost.Status != post.Status {
				withTotals = false
			}
		}
	}
	gen := c20CanonDelta(ub.UnfinishedDeltas(), skip, false, withTotals)
	val := c20CanonDelta(vbB.Delta(), skip, false, withTotals)
	if gen != val {
		t.Fatalf("C20 block %d (%s): the generator's StateDelta differs from the validator's beyond the proposer-dependent parts\n%s\n  %s", blk.Round(), how, c20Diff(gen, val), w.tail())
	}

	// 4. generate again from the bare transactions: same ApplyData, same delta
	groups, err := blk.DecodePaysetGroups()
	if err != nil {
		t.Fatalf("C20 block %d does not decode: %v", blk.Round(), err)
	}
	if rapid.Bool().Draw(t, "regenFlush") {
		w.A.FlushCaches()
	}
	ev := w.freshEval(t, w.A)
	for gi, g := range groups {
		bare := make([]transactions.SignedTxnWithAD, len(g))
		for i := range g {
			bare[i] = transactions.SignedTxnWithAD{SignedTxn: g[i].SignedTxn}
		}
		if e := ev.TransactionGroup(bare...); e != nil {
			w.infra(e)
			t.Fatalf("C20 block %d (%s): group %d of the assembled block is rejected when the block is generated again: %v\n  %s", blk.Round(), how, gi, e, w.tail())
		}
	}
	ub2, err := ev.GenerateBlock(c20Addrs[:3])
	if err != nil {
		w.infra(err)
		t.Fatalf("C20 block %d (%s): GenerateBlock of the regenerated block: %v", blk.Round(), how, err)
	}
	pay2 := ub2.UnfinishedBlock().Payset
	p1, p2 := protocol.Encode(blk.Payset), protocol.Encode(pay2)
	if (len(blk.Payset) != 0 || len(pay2) != 0) && string(p1) != string(p2) { // (an empty payset may be nil or empty: same block)
		t.Fatalf("C20 block %d (%s): generating the same transactions again gives a different payset (ApplyData)\n  %x\n  %x\n  %s", blk.Round(), how, p1, p2, w.tail())
	}
	if a, b := c20CanonDelta(ub.UnfinishedDeltas(), nil, false, true), c20CanonDelta(ub2.UnfinishedDeltas(), nil, false, true); a != b {
		t.Fatalf("C20 block %d (%s): generating the same transactions again gives a different StateDelta\n%s\n  %s", blk.Round(), how, c20Diff(a, b), w.tail())
	}
	return vbA
}

// commit: finish, check, add to both ledgers, notify the pool.
func (w *c20World) commit(t *rapid.T, ub *ledgercore.UnfinishedBlock, how string, droppedAtAssembly int) bookkeeping.Block {
	var seed committee.Seed
	binary.LittleEndian.PutUint64(seed[:], rapid.Uint64().Draw(t, "seed"))
	proposer := c20Addrs[rapid.IntRange(0, c20NUsers-1).Draw(t, "proposer")]
	eligible := rapid.Bool().Draw(t, "eligible")
	blk := ub.FinishBlock(seed, proposer, eligible)
	inner := 0
	for _, txib := range blk.Payset {
		inner += len(txib.ApplyData.EvalDelta.InnerTxns)
	}
	w.tracef("block %d via %s: %d txns, %d inner, payout=%d, expired=%d, dropped-at-assembly=%d", blk.Round(), how, len(blk.Payset), inner,
		blk.ProposerPayout().Raw, len(blk.ExpiredParticipationAccounts), droppedAtAssembly)
	vbA := w.check(t, ub, blk, how)
	w.nBlocks++
	w.vk.Label("block:" + how)
	w.vk.Labelf("block:txns=%s", c20Bucket(len(blk.Payset)))
	if inner > 0 {
		w.nInnerBlocks++
		w.vk.Label("block:has-inner-txns")
	}
	if droppedAtAssembly > 0 {
		w.vk.Label("block:groups-dropped-at-assembly")
	}
	if inner > 0 && droppedAtAssembly > 0 {
		w.nNontrivialBlocks++
	}
	if !blk.ProposerPayout().IsZero() {
		w.vk.Label("block:payout")
	}
	if len(blk.ExpiredParticipationAccounts) > 0 {
		w.vk.Label("block:expired-accounts")
	}
	if err := w.A.AddValidatedBlock(*vbA, agreement.Certificate{}); err != nil {
		t.Fatalf("ENGINE: A.AddValidatedBlock: %v", err)
	}
	if err := w.B.AddBlock(blk, agreement.Certificate{}); err != nil {
		w.infra(err)
		t.Fatalf("C20 block %d (%s) validated on both nodes is refused by AddBlock on node B: %v\n  %s", blk.Round(), how, err, w.tail())
	}
	if w.pool != nil {
		before := w.pool.PendingTxGroups()
		w.pool.OnNewBlock(blk, vbA.Delta())
		after := w.pool.PendingTxGroups()
		kept := map[string]bool{}
		for _, g := range after {
			kept[string(g[0].ID().String())] = true
		}
		delta := vbA.Delta()
		w.lastRecomputeDropped = 0
		for _, g := range before {
			if _, in := delta.Txids[g[0].ID()]; !in && !kept[g[0].ID().String()] {
				w.lastRecomputeDropped++
			}
		}
		w.nDropped += w.lastRecomputeDropped
	}
	return blk
}

func c20Bucket(n int) string {
	switch {
	case n == 0:
		return "0"
	case n <= 3:
		return "1-3"
	case n <= 10:
		return "4-10"
	}
	return ">10"
}

// generate builds a block the way another proposer would: a generating evaluator fed the given groups.
func (w *c20World) generate(t *rapid.T, groups []c20Group, mustAll bool) *ledgercore.UnfinishedBlock {
	ev := w.freshEval(t, w.A)
	for _, g := range groups {
		err := ev.TransactionGroup(transactions.WrapSignedTxnsWithAD(g)...)
		w.infra(err)
		if err != nil && mustAll {
			t.Fatalf("ENGINE: set-up group rejected: %v", err)
		}
	}
	ub, err := ev.GenerateBlock(c20Addrs[:3])
	if err != nil {
		w.infra(err)
		t.Fatalf("ENGINE: GenerateBlock: %v", err)
	}
	return ub
}

// ---------------------------------------------------------------------------------------------------------------
// transactions

func (w *c20World) note() []byte {
	w.noteSeq++
	return []byte{byte(w.noteSeq), byte(w.noteSeq >> 8)}
}

func (w *c20World) hdr(t *rapid.T, si int) transactions.Transaction {
	next := w.A.Latest() + 1
	tx := transactions.Transaction{}
	tx.Sender = c20Addrs[si]
	tx.GenesisHash = w.genesis.GenesisHash
	tx.Fee.Raw = w.proto.MinTxnFee * uint64(rapid.SampledFrom([]int{1, 1, 1, 2, 3}).Draw(t, "feeMul"))
	tx.Note = w.note()
	tx.FirstValid = next.SubSaturate(basics.Round(rapid.IntRange(0, 2).Draw(t, "fvBack")))
	tx.LastValid = next + basics.Round(rapid.SampledFrom([]int{0, 0, 1, 2, 5, 50}).Draw(t, "lvAhead"))
	return tx
}

func (w *c20World) sign(txs []transactions.Transaction) c20Group {
	if len(txs) > 1 {
		var tg transactions.TxGroup
		for _, tx := range txs {
			tg.TxGroupHashes = append(tg.TxGroupHashes, crypto.Digest(tx.ID()))
		}
		gid := crypto.HashObj(tg)
		for i := range txs {
			txs[i].Group = gid
		}
	}
	g := make(c20Group, len(txs))
	for i, tx := range txs {
		for k, a := range c20Addrs {
			if a == tx.Sender {
				g[i] = tx.Sign(c20Keys[k])
			}
		}
	}
	return g
}

func (w *c20World) bal(l *ledger.Ledger, a basics.Address) uint64 {
	d, _, err := l.LookupWithoutRewards(l.Latest(), a)
	if err != nil {
		return 0
	}
	return d.MicroAlgos.Raw
}

var c20Kinds = []string{"pay", "pay", "paybig", "close", "lease", "axfer", "gput", "gput", "gdel", "lput", "lput2", "bput", "bput", "bdel",
	"ipay", "ipay", "ipay2", "acreate", "icall", "log", "reject", "err", "lshare"}

// one draws the transaction(s) of one kind ("lshare" is a two-transaction unit).
func (w *c20World) one(t *rapid.T, kind string) []transactions.Transaction {
	si := rapid.SampledFrom([]int{0, 1, 2, 3, 4, 5}).Draw(t, "sender")
	ri := rapid.IntRange(0, c20NUsers-1).Draw(t, "receiver")
	tx := w.hdr(t, si)
	key := rapid.SampledFrom([]string{"a", "b", "c"}).Draw(t, "key")
	val := fmt.Sprintf("v%d", rapid.IntRange(0, 3).Draw(t, "val"))
	call := func(args ...string) {
		tx.Type = protocol.ApplicationCallTx
		tx.ApplicationID = w.app
		for _, a := range args {
			tx.ApplicationArgs = append(tx.ApplicationArgs, []byte(a))
		}
	}
	switch kind {
	case "pay":
		tx.Type = protocol.PaymentTx
		tx.Receiver = c20Addrs[ri]
		tx.Amount.Raw = rapid.Uint64Range(0, 5000).Draw(t, "amt")
	case "paybig":
		tx.Type = protocol.PaymentTx
		tx.Receiver = c20Addrs[ri]
		bal := w.bal(w.A, tx.Sender)
		if bal > 400_000 {
			tx.Amount.Raw = (bal - 400_000) / uint64(rapid.SampledFrom([]int{1, 2}).Draw(t, "div"))
		}
	case "close":
		tx.Type = protocol.PaymentTx
		tx.Receiver = c20Addrs[ri]
		tx.CloseRemainderTo = c20Addrs[(si+1)%c20NUsers]
	case "lease":
		tx.Type = protocol.PaymentTx
		tx.Receiver = c20Addrs[ri]
		tx.Lease[0] = byte(rapid.IntRange(1, 2).Draw(t, "lease"))
	case "axfer":
		tx.Type = protocol.AssetTransferTx
		tx.XferAsset = w.asset
		tx.AssetReceiver = c20Addrs[ri]
		tx.AssetAmount = rapid.Uint64Range(0, 12).Draw(t, "aamt")
	case "gput":
		call("gput", key, val)
	case "gdel":
		call("gdel", key)
	case "lput":
		call("lput", key, val)
	case "lput2":
		call("lput2", val)
		tx.Accounts = []basics.Address{c20Addrs[ri]}
	case "bput":
		name := rapid.SampledFrom([]string{"x", "y", "xy"}).Draw(t, "box")
		call("bput", name, strings.Repeat(val, rapid.IntRange(1, 8).Draw(t, "boxLen")))
		tx.Boxes = []transactions.BoxRef{{Index: 0, Name: []byte(name)}}
	case "bdel":
		name := rapid.SampledFrom([]string{"x", "y", "xy"}).Draw(t, "box")
		call("bdel", name)
		tx.Boxes = []transactions.BoxRef{{Index: 0, Name: []byte(name)}}
	case "ipay", "ipay2":
		amt := make([]byte, 8)
		binary.BigEndian.PutUint64(amt, rapid.SampledFrom([]uint64{0, 1, 1000, 100_000, 50_000_000}).Draw(t, "iamt"))
		call(kind, string(amt))
		tx.Accounts = []basics.Address{c20Addrs[ri]}
		tx.Fee.Raw = w.proto.MinTxnFee * 3 // covers the inner transactions
	case "acreate":
		call("acreate")
		tx.Fee.Raw = w.proto.MinTxnFee * 2
	case "icall":
		call("icall", key, val)
		tx.ForeignApps = []basics.AppIndex{w.app2}
		tx.Fee.Raw = w.proto.MinTxnFee * 2
	case "log":
		call("log", val)
	case "reject":
		call("reject")
	case "err":
		call("err")
	case "lshare":
		// a payment from an opted-in account followed by a call that writes that account's local state (group resource
		// sharing: the account is in EvalDelta.SharedAccts, not in txn.Accounts)
		p := w.hdr(t, rapid.IntRange(0, 3).Draw(t, "sharedSender"))
		p.Type = protocol.PaymentTx
		p.Receiver = c20Addrs[ri]
		call("lshare", val)
		return []transactions.Transaction{p, tx}
	}
	return []transactions.Transaction{tx}
}

// xref submits CROSS-TYPE references: an application call whose ForeignApps lists an existing ASSET id (plus an id that
// does not exist) and whose ForeignAssets lists an existing APP id - legal, unused references - followed by something
// that needs the asset's creator (opt-in, reconfiguration by the manager, asset_params_get); or a call whose tx.Access
// names an existing APP id as an asset, followed by a call of that app. Follower in the same group or in the next
// group (same block in the pool pipeline; the prefetcher's task de-duplication is per block and keyed without the
// creatable type, the evaluator's creator cache is keyed with it).
func (w *c20World) xref(t *rapid.T) {
	variant := rapid.SampledFrom([]string{"optin", "optin", "acfg", "aparams", "app-as-asset"}).Draw(t, "xrefVariant")
	sameGroup := rapid.Bool().Draw(t, "xrefSameGroup")
	first := w.hdr(t, rapid.IntRange(0, 3).Draw(t, "xrefCaller"))
	first.LastValid += 3
	first.Type = protocol.ApplicationCallTx
	first.ApplicationID = w.app
	first.ApplicationArgs = [][]byte{[]byte("log"), []byte("xref")}
	second := w.hdr(t, rapid.IntRange(0, c20NUsers-1).Draw(t, "xrefUser"))
	second.LastValid += 3
	if variant == "app-as-asset" {
		first.Access = []transactions.ResourceRef{{Asset: basics.AssetIndex(w.app2)}, {Asset: 777_777}, {App: basics.AppIndex(w.asset)}}
		second.Type = protocol.ApplicationCallTx
		second.ApplicationID = w.app2
		second.ApplicationArgs = [][]byte{[]byte("gput"), []byte("x"), []byte("ref")}
	} else {
		first.ForeignApps = []basics.AppIndex{basics.AppIndex(w.asset)}
		if rapid.Bool().Draw(t, "xrefMissing") {
			first.ForeignApps = append(first.ForeignApps, 999_999)
		}
		first.ForeignAssets = []basics.AssetIndex{basics.AssetIndex(w.app2), 888_888}
		switch variant {
		case "optin": // (again, for a holder: a zero transfer to oneself, also fetches the creator)
			second.Type = protocol.AssetTransferTx
			second.XferAsset, second.AssetReceiver = w.asset, second.Sender
		case "acfg":
			second.Sender = c20Addrs[0] // creator and manager
			second.Type = protocol.AssetConfigTx
			second.ConfigAsset = w.asset
			second.AssetParams = basics.AssetParams{Manager: c20Addrs[0]}
		case "aparams":
			second.Type = protocol.ApplicationCallTx
			second.ApplicationID = w.app
			second.ApplicationArgs = [][]byte{[]byte("aparams")}
			second.ForeignAssets = []basics.AssetIndex{w.asset}
		}
	}
	var groups []c20Group
	place := "next-group"
	if sameGroup {
		place = "same-group"
		groups = []c20Group{w.sign([]transactions.Transaction{first, second})}
	} else {
		groups = []c20Group{w.sign([]transactions.Transaction{first}), w.sign([]transactions.Transaction{second})}
	}
	res := "ok"
	for _, g := range groups {
		w.known = append(w.known, g)
		err := w.pool.Remember(g)
		w.infra(err)
		if err != nil {
			res = "rej:" + ClassifyTxPoolError(err)
			w.tracef("Remember xref %s %s -> %v", variant, place, err)
		}
	}
	w.vk.Label("xref:" + variant + ":" + place + ":" + res)
	w.tracef("Remember xref:%s %s -> %s", variant, place, res)
}

func (w *c20World) group(t *rapid.T) (c20Group, string) {
	n := rapid.SampledFrom([]int{1, 1, 1, 2, 3}).Draw(t, "groupSize")
	var txs []transactions.Transaction
	var kinds []string
	for i := 0; i < n; i++ {
		k := rapid.SampledFrom(c20Kinds).Draw(t, "kind")
		if k == "lshare" && i > 0 {
			k = "lput" // "gtxn 0 Sender" must be the payment
		}
		kinds = append(kinds, k)
		txs = append(txs, w.one(t, k)...)
	}
	return w.sign(txs), strings.Join(kinds, "+")
}

// ---------------------------------------------------------------------------------------------------------------
// history

func (w *c20World) setup(t *rapid.T) {
	next := func() transactions.Transaction {
		tx := transactions.Transaction{}
		tx.GenesisHash = w.genesis.GenesisHash
		tx.Fee.Raw = w.proto.MinTxnFee
		tx.FirstValid, tx.LastValid = w.A.Latest(), w.A.Latest()+20
		tx.Note = w.note()
		return tx
	}
	mkApp := func() transactions.Transaction {
		tx := next()
		tx.Type = protocol.ApplicationCallTx
		tx.Sender = c20Addrs[0]
		tx.ApprovalProgram, tx.ClearStateProgram = c20Approve, c20Clear
		tx.GlobalStateSchema = basics.StateSchema{NumByteSlice: 8}
		tx.LocalStateSchema = basics.StateSchema{NumByteSlice: 8}
		return tx
	}
	asset := next()
	asset.Type = protocol.AssetConfigTx
	asset.Sender = c20Addrs[0]
	asset.AssetParams = basics.AssetParams{Total: 1000, UnitName: "c20", Manager: c20Addrs[0]}
	ub := w.generate(t, []c20Group{w.sign([]transactions.Transaction{mkApp()}), w.sign([]transactions.Transaction{mkApp()}), w.sign([]transactions.Transaction{asset})}, true)
	blk := w.commit(t, ub, "setup", 0)
	w.app = blk.Payset[0].ApplyData.ApplicationID
	w.app2 = blk.Payset[1].ApplyData.ApplicationID
	w.asset = blk.Payset[2].ApplyData.ConfigAsset
	if w.app == 0 || w.app2 == 0 || w.asset == 0 {
		t.Fatalf("ENGINE: set-up creatables missing")
	}
	var groups []c20Group
	for _, app := range []basics.AppIndex{w.app, w.app2} {
		fund := next()
		fund.Type = protocol.PaymentTx
		fund.Sender = c20Addrs[1]
		fund.Receiver = app.Address()
		fund.Amount.Raw = 20_000_000
		groups = append(groups, w.sign([]transactions.Transaction{fund}))
	}
	for i := 0; i < 4; i++ {
		opt := next()
		opt.Type = protocol.ApplicationCallTx
		opt.Sender = c20Addrs[i]
		opt.ApplicationID = w.app
		opt.OnCompletion = transactions.OptInOC
		aopt := next()
		aopt.Type = protocol.AssetTransferTx
		aopt.Sender = c20Addrs[i]
		aopt.XferAsset, aopt.AssetReceiver = w.asset, c20Addrs[i]
		groups = append(groups, w.sign([]transactions.Transaction{opt}))
		if i > 0 {
			give := next()
			give.Type = protocol.AssetTransferTx
			give.Sender = c20Addrs[0]
			give.XferAsset, give.AssetReceiver, give.AssetAmount = w.asset, c20Addrs[i], 20
			groups = append(groups, w.sign([]transactions.Transaction{aopt}), w.sign([]transactions.Transaction{give}))
		}
	}
	ub = w.generate(t, groups, true)
	w.commit(t, ub, "setup", 0)
	cfg := w.cfgA
	cfg.ProposalAssemblyTime = 20 * time.Second // AssembleDevModeBlock's deadline: never the deciding factor here
	w.pool = MakeTransactionPool(w.A, cfg, c20Logger(), c20Vac{})
}

func (w *c20World) submit(t *rapid.T) {
	t0 := time.Now()
	defer func() { w.msSubmit += time.Since(t0).Milliseconds() }()
	n := rapid.IntRange(2, 9).Draw(t, "nSubmit")
	xrefAt := -1
	if rapid.IntRange(0, 2).Draw(t, "xref") != 0 {
		xrefAt = rapid.IntRange(0, n-1).Draw(t, "xrefAt")
	}
	for i := 0; i < n; i++ {
		if i == xrefAt {
			w.xref(t)
		}
		var g c20Group
		var kinds string
		if len(w.known) > 0 && rapid.IntRange(0, 9).Draw(t, "resubmit") == 0 {
			g, kinds = w.known[rapid.IntRange(0, len(w.known)-1).Draw(t, "dupIdx")], "resubmit"
		} else {
			g, kinds = w.group(t)
			w.known = append(w.known, g)
		}
		wf := true
		for _, tx := range g {
			if tx.Txn.WellFormed(transactions.SpecialAddresses{FeeSink: c20Sink, RewardsPool: c20Rewards}, w.proto) != nil {
				wf = false
			}
		}
		if !wf {
			w.vk.Excluded("not well-formed (Remember precondition)")
			continue
		}
		err := w.pool.Remember(g)
		w.infra(err)
		res := "ok"
		if err != nil {
			res = "rej:" + ClassifyTxPoolError(err)
		}
		for _, k := range strings.Split(kinds, "+") {
			w.vk.Label("submit:" + k + ":" + res)
		}
		w.tracef("Remember %s -> %s", kinds, res)
	}
}

func (w *c20World) round(t *rapid.T) {
	w.submit(t)
	how := rapid.SampledFrom([]string{"pool", "pool", "pool", "devmode", "foreign"}).Draw(t, "how")
	switch how {
	case "pool":
		// what a node proposes: the block its pool prepared when it processed the previous block
		dropped := w.lastRecomputeDropped
		ub, err := w.pool.AssembleBlock(w.A.Latest()+1, time.Now().Add(20*time.Second))
		w.infra(err)
		if err != nil || ub == nil {
			t.Fatalf("C20 AssembleBlock(%d) on a pool in sync with its ledger: %v\n  %s", w.A.Latest()+1, err, w.tail())
		}
		w.commit(t, ub, how, dropped)
	case "devmode":
		before := len(w.pool.PendingTxGroups())
		ub, err := w.pool.AssembleDevModeBlock()
		w.infra(err)
		if err != nil || ub == nil {
			t.Fatalf("C20 AssembleDevModeBlock: %v\n  %s", err, w.tail())
		}
		w.commit(t, ub, how, before-len(w.pool.PendingTxGroups()))
	case "foreign":
		// another proposer's block: conflicting transactions first, then some of ours
		var content []c20Group
		for i := rapid.IntRange(0, 2).Draw(t, "nForeign"); i > 0; i-- {
			g, _ := w.group(t)
			w.known = append(w.known, g)
			content = append(content, g)
		}
		for _, g := range w.pool.PendingTxGroups() {
			if rapid.Bool().Draw(t, "take") {
				content = append(content, g)
			}
		}
		w.commit(t, w.generate(t, content, false), how, 0)
	}
	// node B restarts now and then: the next Validate on it starts from a cold process-like state
	if rapid.IntRange(0, 4).Draw(t, "reopenB") == 0 {
		t0 := time.Now()
		defer func() { w.msReopen += time.Since(t0).Milliseconds() }()
		w.B.WaitForCommit(w.B.Latest()) // a clean shutdown after the block queue has written the block
		w.B.Close()
		var err error
		w.B, err = ledger.OpenLedger(c20Logger(), w.pathB, false, w.genesis, w.cfgB)
		if err != nil {
			w.B = nil
			w.infra(err)
			t.Fatalf("ENGINE: reopen B: %v", err)
		}
		if w.B.Latest() != w.A.Latest() {
			t.Fatalf("ENGINE: reopened B is at %d, A at %d", w.B.Latest(), w.A.Latest())
		}
		w.vk.Label("nodeB:reopened")
		w.tracef("node B reopened at %d", w.B.Latest())
	}
}

func TestVerif_C20_AssembleValidate(t *testing.T) {
	vk := vkBegin(t, "C20")
	vk.Rule("two real ledgers with the same history (A: pool + Validate/AddValidatedBlock, B: AddBlock, other configuration, reopened now and then); " +
		"per case 3-6 rounds of 2-9 remembered groups (pay, spend-most, close, lease, asset transfer, app calls: global/local/box writes, logs, inner " +
		"pay / two inner pays / inner asset create / inner app call, shared-account local write, reject, err; groups of 1-3; LastValid 0-50 rounds ahead; " +
		"resubmissions) and a block from AssembleBlock (pipeline), AssembleDevModeBlock or a foreign generating evaluator, finished with drawn " +
		"seed/proposer/eligibility. Non-trivial = a pool-assembled block that contains an app call with inner transactions while the assembly " +
		"dropped at least one pending group. Distinct by trace.")
	vk.Assume("signatures are real; agreement's own checks of proposer/seed/eligibility are out of scope (any drawn value is what agreement could have set)")
	c20Init(t)
	rapid.Check(t, func(rt *rapid.T) {
		w := c20NewWorld(rt, vk)
		defer w.close()
		func() {
			defer func() {
				if r := recover(); r != nil {
					if _, ok := r.(c20Abandon); ok {
						return
					}
					panic(r)
				}
			}()
			w.setup(rt)
			rounds := rapid.IntRange(3, 6).Draw(rt, "rounds")
			for i := 0; i < rounds; i++ {
				w.round(rt)
			}
		}()
		if w.abandoned {
			return
		}
		nt := w.nNontrivialBlocks > 0
		vk.Case(nt, strings.Join(w.hist, "|"))
		vk.Add("blocks", int64(w.nBlocks))
		vk.Add("evaluations-compared", int64(w.nEvals))
		vk.Add("groups-dropped-at-assembly", int64(w.nDropped))
		vk.Add("ms-open-ledgers", w.msOpen)
		vk.Add("ms-oracle", w.msCheck)
		vk.Add("ms-reopen-B", w.msReopen)
		vk.Add("ms-remember", w.msSubmit)
		if vk.WantSample(nt) {
			h := w.hist
			if len(h) > 40 {
				h = h[:40]
			}
			vk.Sample(nt, h)
		}
	})
}
