package pools

// C44 — The transaction pool only holds transactions that can still commit.
//
// A rapid state machine over a real ledger.Ledger (on-disk WAL databases on tmpfs) and a real TransactionPool. Actions: Remember (groups of
// 1-4 really signed transactions of many validity classes), Burst (several quick valid payments, to reach the size
// limit and congestion), Block (1-3 blocks built on a fresh evaluator from a drawn subset of the pool's pending groups
// plus foreign transactions that conflict with pending ones; validated by Ledger.Validate, added, then notified to the
// pool in order - optionally with a concurrent AssembleBlock), Assemble.
//
// Oracles (see notes/C44.md): committed-txid model, uniqueness, size bound, and a replay of PendingTxGroups() on a
// FRESH evaluator over the latest ledger state, all evaluated only where the pool claims consistency (Remember,
// OnNewBlock and AssembleBlock are synchronous; the pool is only "behind" between Ledger.AddValidatedBlock and the
// last OnNewBlock, where nothing is asserted).

import (
	"context"
	"errors"
	"fmt"
	"io"
	"os"
	"path/filepath"
	"strings"
	"sync"
	"sync/atomic"
	"testing"
	"time"

	"github.com/algorand/go-deadlock"
	"pgregory.net/rapid"

	"github.com/algorand/go-algorand/agreement"
	"github.com/algorand/go-algorand/config"
	"github.com/algorand/go-algorand/crypto"
	"github.com/algorand/go-algorand/data/basics"
	"github.com/algorand/go-algorand/data/bookkeeping"
	"github.com/algorand/go-algorand/data/committee"
	"github.com/algorand/go-algorand/data/transactions"
	"github.com/algorand/go-algorand/ledger"
	"github.com/algorand/go-algorand/ledger/eval"
	"github.com/algorand/go-algorand/ledger/ledgercore"
	"github.com/algorand/go-algorand/logging"
	"github.com/algorand/go-algorand/protocol"
	"github.com/algorand/go-algorand/util/execpool"
)

const c44NAccts = 6

var (
	c44Once    sync.Once
	c44Keys    []*crypto.SignatureSecrets // funded senders
	c44Addrs   []basics.Address
	c44Fresh   []basics.Address // never funded at genesis
	c44Sink    basics.Address
	c44Rewards basics.Address
	c44PropKey *crypto.SignatureSecrets
	c44Backlog execpool.BacklogPool
	c44Seq     atomic.Uint64
)

func c44Secret(tag byte, i int) *crypto.SignatureSecrets {
	var seed crypto.Seed
	copy(seed[:], "c44-deterministic-key-seed......")
	seed[30] = tag
	seed[31] = byte(i)
	return crypto.GenerateSignatureSecrets(seed)
}

func c44Init() {
	c44Once.Do(func() {
		// go-deadlock's watchdog exits the process after a 30 s lock wait; it is off in production unless configured and
		// is only a flake risk on a loaded machine. Set once, before the first ledger of this process exists.
		deadlock.Opts.Disable = true
		for i := 0; i < c44NAccts; i++ {
			k := c44Secret('u', i)
			c44Keys = append(c44Keys, k)
			c44Addrs = append(c44Addrs, basics.Address(k.SignatureVerifier))
		}
		for i := 0; i < 3; i++ {
			c44Fresh = append(c44Fresh, basics.Address(c44Secret('f', i).SignatureVerifier))
		}
		c44Sink = basics.Address(c44Secret('s', 0).SignatureVerifier)
		c44Rewards = basics.Address(c44Secret('r', 0).SignatureVerifier)
		c44PropKey = c44Secret('p', 0)
		c44Backlog = execpool.MakeBacklog(nil, 0, execpool.LowPriority, nil)
	})
}

// c44RegisterProto registers ConsensusCurrentVersion with a small block size under a private name. Only called from
// the Test function before the first ledger exists (config.Consensus is an unsynchronised map); removed at cleanup.
func c44RegisterProto(tb testing.TB, name string, maxBytes int) protocol.ConsensusVersion {
	cv := protocol.ConsensusVersion(name)
	p := config.Consensus[protocol.ConsensusCurrentVersion]
	p.MaxTxnBytesPerBlock = maxBytes
	p.ApprovedUpgrades = map[protocol.ConsensusVersion]uint64{}
	config.Consensus[cv] = p
	tb.Cleanup(func() { delete(config.Consensus, cv) })
	return cv
}

func c44Logger() logging.Logger {
	lg := logging.NewLogger()
	lg.SetOutput(io.Discard)
	lg.SetLevel(logging.Error)
	return lg
}

type c44Group = []transactions.SignedTxn

type c44World struct {
	tb    testing.TB
	vk    *vkCtx
	cv    protocol.ConsensusVersion
	proto config.ConsensusParams
	cfg   config.Local
	l     *ledger.Ledger
	pool  *TransactionPool
	asset basics.AssetIndex
	dir   string

	abandoned bool // a storage-layer error occurred: no further action, no verdict

	// model
	committed map[transactions.Txid]basics.Round
	known     []c44Group // every group ever built (submitted, rejected, foreign, committed): source of duplicates
	noteSeq   uint64
	poolRound basics.Round // round of the evaluator the pool must be working on
	mult      uint64       // fee threshold multiplier (model of the documented OnNewBlock rule)
	certain   bool         // the shadow has never been seen to disagree with the pool's counters
	quirk     bool         // since the last recompute a group hit ErrNoSpace, bumped the block counter and was refused all the same: completeness is not asserted in that region
	shadow    *c44Replay   // lock-step shadow of the pool's pending evaluator: same attempts in the same order (completeness only)

	// statistics for the non-trivial rule
	nAccepted, nRejected, nDroppedConflict, nDroppedCommitted, nCongested int
	hist                                                                  []string
}

func (w *c44World) tracef(f string, a ...any) { w.hist = append(w.hist, fmt.Sprintf(f, a...)) }

func (w *c44World) tail() string {
	h := w.hist
	if len(h) > 25 {
		h = h[len(h)-25:]
	}
	return strings.Join(h, "\n  ")
}

func c44NewWorld(tb testing.TB, t *rapid.T, vk *vkCtx, cvs []protocol.ConsensusVersion) *c44World {
	w := &c44World{tb: tb, vk: vk, committed: map[transactions.Txid]basics.Round{}, certain: true}
	w.cv = cvs[rapid.SampledFrom([]int{0, 1, 1, 2, 3}).Draw(t, "proto")]
	w.proto = config.Consensus[w.cv]

	accts := map[basics.Address]basics.AccountData{}
	for i, a := range c44Addrs {
		var bal uint64
		switch {
		case i < 2:
			bal = 1_000_000_000_000
		case i < 4:
			bal = rapid.Uint64Range(1_000_000, 6_000_000).Draw(t, "balMid")
		default:
			// poor: room for a handful of minimum fees above the minimum balance
			bal = w.proto.MinBalance + rapid.Uint64Range(2, 9).Draw(t, "balPoor")*w.proto.MinTxnFee
		}
		accts[a] = basics.AccountData{MicroAlgos: basics.MicroAlgos{Raw: bal}, Status: basics.Offline}
	}
	prop := basics.Address(c44PropKey.SignatureVerifier)
	accts[prop] = basics.AccountData{MicroAlgos: basics.MicroAlgos{Raw: 10_000_000}, Status: basics.Offline}
	accts[c44Sink] = basics.AccountData{MicroAlgos: basics.MicroAlgos{Raw: 1_000_000}, Status: basics.NotParticipating}
	accts[c44Rewards] = basics.AccountData{MicroAlgos: basics.MicroAlgos{Raw: w.proto.MinBalance}, Status: basics.NotParticipating}

	var genHash crypto.Digest
	copy(genHash[:], "c44-genesis-hash-0123456789abcdef")
	balances := bookkeeping.MakeTimestampedGenesisBalances(accts, c44Sink, c44Rewards, 1_700_000_000)
	genBlock, err := bookkeeping.MakeGenesisBlock(w.cv, balances, "c44", genHash)
	if err != nil {
		t.Fatalf("ENGINE: MakeGenesisBlock: %v", err)
	}
	w.cfg = config.GetDefaultLocal()
	w.cfg.TxPoolSize = rapid.IntRange(8, 32).Draw(t, "TxPoolSize")
	// "should always be 2 in production" (config doc), but it is a configuration knob; 4 makes the threshold bite with
	// the few pending blocks a pool of <= 32 transactions can hold
	w.cfg.TxPoolExponentialIncreaseFactor = rapid.SampledFrom([]uint64{2, 2, 4}).Draw(t, "expFactor")
	w.cfg.VerifiedTranscationsCacheSize = 64
	w.cfg.DisableLedgerLRUCache = true // the LRU buffers cost ~60 MB and 0.4 s per open; not a subject here
	w.cfg.MaxAcctLookback = uint64(rapid.IntRange(1, 6).Draw(t, "MaxAcctLookback"))
	w.cfg.Archival = true
	w.cfg.LedgerSynchronousMode = 0
	w.cfg.AccountsRebuildSynchronousMode = 0
	// On-disk (WAL) databases like a real node: with the in-memory shared-cache databases of the upstream unit tests a
	// reader (evaluator lookups) racing the background tracker commit gets "database table is locked", an artefact that
	// would look like a rejected transaction. tmpfs when available.
	base := ""
	if st, e := os.Stat("/dev/shm"); e == nil && st.IsDir() {
		base = "/dev/shm"
	}
	w.dir, err = os.MkdirTemp(base, "verif-c44-")
	if err != nil {
		t.Fatalf("ENGINE: MkdirTemp: %v", err)
	}
	name := filepath.Join(w.dir, fmt.Sprintf("l%d", c44Seq.Add(1)))
	w.l, err = ledger.OpenLedger(c44Logger(), name, false, ledgercore.InitState{Block: genBlock, Accounts: accts, GenesisHash: genHash}, w.cfg)
	if err != nil {
		os.RemoveAll(w.dir)
		t.Fatalf("ENGINE: OpenLedger: %v", err)
	}
	w.tracef("world proto=%s maxBytes=%d TxPoolSize=%d factor=%d", w.cv, w.proto.MaxTxnBytesPerBlock, w.cfg.TxPoolSize, w.cfg.TxPoolExponentialIncreaseFactor)

	// two set-up blocks: an asset, holders
	hdr := func() transactions.Header {
		return transactions.Header{Fee: basics.MicroAlgos{Raw: w.proto.MinTxnFee}, FirstValid: w.l.Latest(), LastValid: w.l.Latest() + 10, GenesisHash: genHash}
	}
	create := transactions.Transaction{Type: protocol.AssetConfigTx, Header: hdr()}
	create.Sender = c44Addrs[0]
	create.AssetParams = basics.AssetParams{Total: 100, Manager: c44Addrs[0], UnitName: "c44"}
	blk, _ := w.commitBlock(t, []c44Group{{create.Sign(c44Keys[0])}}, true)
	if len(blk.Payset) != 1 || blk.Payset[0].ApplyData.ConfigAsset == 0 {
		t.Fatalf("ENGINE: asset creation did not commit")
	}
	w.asset = blk.Payset[0].ApplyData.ConfigAsset
	var setup []c44Group
	for i := 1; i <= 2; i++ {
		amt := uint64(15 - 5*i) // 10 and 5
		opt := transactions.Transaction{Type: protocol.AssetTransferTx, Header: hdr()}
		opt.Sender = c44Addrs[i]
		opt.XferAsset, opt.AssetReceiver = w.asset, c44Addrs[i]
		xf := transactions.Transaction{Type: protocol.AssetTransferTx, Header: hdr()}
		xf.Sender = c44Addrs[0]
		xf.XferAsset, xf.AssetReceiver, xf.AssetAmount = w.asset, c44Addrs[i], amt
		xf.Note = []byte{byte(i)}
		setup = append(setup, c44Group{opt.Sign(c44Keys[i])}, c44Group{xf.Sign(c44Keys[0])})
	}
	blk, _ = w.commitBlock(t, setup, true)
	if len(blk.Payset) != 4 {
		t.Fatalf("ENGINE: set-up block has %d of 4 transactions", len(blk.Payset))
	}

	w.pool = MakeTransactionPool(w.l, w.cfg, c44Logger(), nil)
	w.poolRound = w.l.Latest() + 1
	w.shadow = w.newReplay(t)
	return w
}

func (w *c44World) close() {
	if w.pool != nil {
		w.pool.Shutdown()
	}
	if w.l != nil {
		w.l.Close()
		w.l = nil
	}
	if w.dir != "" {
		os.RemoveAll(w.dir)
		w.dir = ""
	}
}

// c44Infra reports a storage-layer error (sqlite busy/locked, closed database): not a verdict of the evaluator.
func c44Infra(err error) bool {
	if err == nil {
		return false
	}
	s := err.Error()
	return strings.Contains(s, "database is locked") || strings.Contains(s, "database table is locked") || strings.Contains(s, "sql:")
}

// infra abandons the case (never a verdict) when the storage layer, not the evaluator, produced the error.
func (w *c44World) infra(t *rapid.T, err error) {
	if c44Infra(err) {
		w.vk.Label("infra:storage-error-case-abandoned")
		w.abandoned = true
		panic(c44Abandon{err})
	}
}

type c44Abandon struct{ err error }

// guard wraps an action: an abandoned case does nothing any more (t.Skip inside Repeat would only skip the action).
func (w *c44World) guard(f func(*rapid.T)) func(*rapid.T) {
	return func(t *rapid.T) {
		if w.abandoned {
			return
		}
		defer func() {
			if r := recover(); r != nil {
				if _, ok := r.(c44Abandon); ok {
					return
				}
				panic(r)
			}
		}()
		f(t)
	}
}

// ---------------------------------------------------------------------------------------------------------------
// ledger side (harness infrastructure, independent of the pool)

func (w *c44World) freshEval(t *rapid.T) *eval.BlockEvaluator {
	latest := w.l.Latest()
	prev, err := w.l.BlockHdr(latest)
	if err != nil {
		t.Fatalf("ENGINE: BlockHdr(%d): %v", latest, err)
	}
	next := bookkeeping.MakeBlock(prev)
	ev, err := w.l.StartEvaluator(next.BlockHeader, 0, 0, nil)
	if err != nil {
		t.Fatalf("ENGINE: StartEvaluator(%d): %v", next.Round(), err)
	}
	return ev
}

func (w *c44World) finish(ub *ledgercore.UnfinishedBlock) bookkeeping.Block {
	return ub.FinishBlock(committee.Seed{}, basics.Address(c44PropKey.SignatureVerifier), false)
}

// commitBlock builds a block from the groups the evaluator accepts (in order), finishes it the way agreement does,
// validates it (signatures included) and adds it to the ledger. It does NOT notify the pool.
func (w *c44World) commitBlock(t *rapid.T, groups []c44Group, mustAll bool) (bookkeeping.Block, ledgercore.StateDelta) {
	ev := w.freshEval(t)
	for _, g := range groups {
		err := ev.TransactionGroup(transactions.WrapSignedTxnsWithAD(g)...)
		if err != nil && mustAll {
			t.Fatalf("ENGINE: set-up group rejected: %v", err)
		}
	}
	ub, err := ev.GenerateBlock(nil)
	if err != nil {
		t.Fatalf("ENGINE: GenerateBlock: %v", err)
	}
	blk := w.finish(ub)
	vb, err := w.l.Validate(context.Background(), blk, c44Backlog)
	if err != nil {
		t.Fatalf("ENGINE: Validate of a block generated by the evaluator: %v\n  %s", err, w.tail())
	}
	if err = w.l.AddValidatedBlock(*vb, agreement.Certificate{}); err != nil {
		t.Fatalf("ENGINE: AddValidatedBlock: %v", err)
	}
	flat, err := blk.DecodePaysetFlat()
	if err != nil {
		t.Fatalf("ENGINE: DecodePaysetFlat: %v", err)
	}
	for _, stx := range flat {
		w.committed[stx.ID()] = blk.Round()
	}
	return blk, vb.Delta()
}

// ---------------------------------------------------------------------------------------------------------------
// the fresh-evaluator oracle

type c44Replay struct {
	ev     *eval.BlockEvaluator
	round  basics.Round
	blocks int  // mirrors numPendingWholeBlocks: number of times the simulated block filled up
	quirk  bool // a group hit ErrNoSpace and failed again after the byte counter was reset
}

func (w *c44World) newReplay(t *rapid.T) *c44Replay {
	ev := w.freshEval(t)
	return &c44Replay{ev: ev, round: ev.Round()}
}

func c44MinLastValid(g c44Group) basics.Round {
	m := g[0].Txn.LastValid
	for _, tx := range g {
		if tx.Txn.LastValid < m {
			m = tx.Txn.LastValid
		}
	}
	return m
}

// try feeds one group. A full block is handled as the pool documents it ("simulate the effect of putting pending
// transactions in multiple blocks": reset the byte counter and retry once). With poolRules the documented multi-block
// expiry rule is applied too (a group must still be alive pending-whole-blocks rounds later).
func (r *c44Replay) try(g c44Group, poolRules bool) (err error, noSpace bool) {
	attempt := func() error {
		if poolRules && c44MinLastValid(g) < r.round+basics.Round(r.blocks) {
			return &bookkeeping.TxnDeadError{Round: r.round + basics.Round(r.blocks), LastValid: c44MinLastValid(g)}
		}
		return r.ev.TransactionGroup(transactions.WrapSignedTxnsWithAD(g)...)
	}
	err = attempt()
	if err == ledgercore.ErrNoSpace {
		noSpace = true
		r.blocks++
		r.ev.ResetTxnBytes()
		err = attempt()
		if err != nil {
			r.quirk = true
		}
	}
	return err, noSpace
}

func c44ErrClass(err error) string {
	if err == nil {
		return "ok"
	}
	var dead *bookkeeping.TxnDeadError
	if errors.As(err, &dead) {
		if dead.Early {
			return "early"
		}
		return "expired"
	}
	if c := ClassifyTxPoolError(err); c != "" {
		return c
	}
	return "other"
}

func c44Short(id transactions.Txid) string { return id.String()[:6] }

func c44GroupStr(g c44Group) string {
	var sb strings.Builder
	for i, tx := range g {
		if i > 0 {
			sb.WriteByte('+')
		}
		fmt.Fprintf(&sb, "%s:%s[%d-%d]f%d", c44Short(tx.ID()), tx.Txn.Type, tx.Txn.FirstValid, tx.Txn.LastValid, tx.Txn.Fee.Raw)
	}
	return sb.String()
}

func c44GroupKey(g c44Group) string {
	var sb strings.Builder
	for _, tx := range g {
		id := tx.ID()
		sb.Write(id[:])
	}
	return sb.String()
}

func c44SameGroups(a, b []c44Group) bool {
	if len(a) != len(b) {
		return false
	}
	for i := range a {
		if c44GroupKey(a[i]) != c44GroupKey(b[i]) {
			return false
		}
	}
	return true
}

// feePerByte is the documented threshold rule (computeFeePerByte's comment): multiplier, bumped to 1 when more than one
// whole block is pending, growing by the factor for every further pending block.
func (w *c44World) feePerByte(blocks int) uint64 {
	f := w.mult
	if f == 0 && blocks > 1 {
		f = 1
	}
	for i := 0; i < blocks-1; i++ {
		f *= w.cfg.TxPoolExponentialIncreaseFactor
	}
	return f
}

// ---------------------------------------------------------------------------------------------------------------
// invariant: evaluated after every action (the pool is in sync with the ledger at these points)

func (w *c44World) invariant(t *rapid.T) {
	groups := w.pool.PendingTxGroups()
	ids := w.pool.PendingTxIDs()
	seen := map[transactions.Txid]bool{}
	n := 0
	for gi, g := range groups {
		if len(g) == 0 {
			t.Fatalf("C44 pending group %d is empty\n  %s", gi, w.tail())
		}
		for _, tx := range g {
			id := tx.ID()
			if seen[id] {
				t.Fatalf("C44 txid %s is pending twice (group %d)\n  %s", c44Short(id), gi, w.tail())
			}
			seen[id] = true
			n++
			if r, ok := w.committed[id]; ok {
				t.Fatalf("C44 pending txid %s was committed in round %d (latest %d)\n  %s", c44Short(id), r, w.l.Latest(), w.tail())
			}
		}
	}
	if len(ids) != n {
		t.Fatalf("C44 PendingTxIDs has %d entries, PendingTxGroups %d transactions\n  %s", len(ids), n, w.tail())
	}
	for _, id := range ids {
		if !seen[id] {
			t.Fatalf("C44 PendingTxIDs lists %s which is in no pending group\n  %s", c44Short(id), w.tail())
		}
	}
	if c := w.pool.PendingCount(); c != n {
		t.Fatalf("C44 PendingCount %d != %d\n  %s", c, n, w.tail())
	}
	if n > w.cfg.TxPoolSize {
		t.Fatalf("C44 pool holds %d transactions, configured size %d\n  %s", n, w.cfg.TxPoolSize, w.tail())
	}
	// every pending group is still applicable, in order, on a fresh evaluator over the latest state
	rep := w.newReplay(t)
	for gi, g := range groups {
		if err, _ := rep.try(g, false); err != nil {
			w.infra(t, err)
			t.Fatalf("C44 pending group %d (%s) can no longer commit on top of the groups before it at round %d: %v\n  %s",
				gi, c44GroupStr(g), rep.round, err, w.tail())
		}
	}
	if rep.blocks > 0 {
		w.vk.Label("state:congested")
	}
	// is the shadow of the pool's counters still exact? (only gates the completeness direction, never a verdict)
	w.pool.mu.Lock()
	pb, pm := int(w.pool.numPendingWholeBlocks), w.pool.feeThresholdMultiplier
	var pr basics.Round
	if w.pool.pendingBlockEvaluator != nil {
		pr = w.pool.pendingBlockEvaluator.Round()
	}
	w.pool.mu.Unlock()
	if pr != w.l.Latest()+1 {
		t.Fatalf("C44 after a completed step the pool works on round %d, ledger latest is %d\n  %s", pr, w.l.Latest(), w.tail())
	}
	if w.certain && (pb != w.shadow.blocks || pm != w.mult) {
		w.vk.Label("model-desync")
		w.tracef("model-desync blocks pool=%d model=%d mult pool=%d model=%d", pb, w.shadow.blocks, pm, w.mult)
		w.certain = false
	}
}

// ---------------------------------------------------------------------------------------------------------------
// Remember

// remember submits one group and checks the admission decision.
func (w *c44World) remember(t *rapid.T, g c44Group, class string) {
	// Remember's stated precondition: properly signed (always, by construction) and well-formed transactions
	for _, tx := range g {
		if err := tx.Txn.WellFormed(transactions.SpecialAddresses{FeeSink: c44Sink, RewardsPool: c44Rewards}, w.proto); err != nil {
			w.vk.Excluded("not well-formed (Remember precondition)")
			w.tracef("excluded malformed %s: %v", c44GroupStr(g), err)
			return
		}
	}
	before := w.pool.PendingTxGroups()
	beforeIDs := len(w.pool.PendingTxIDs())
	rep := w.newReplay(t)
	for gi, pg := range before {
		if err, _ := rep.try(pg, false); err != nil {
			w.infra(t, err)
			t.Fatalf("C44 pending group %d (%s) not applicable before Remember: %v\n  %s", gi, c44GroupStr(pg), err, w.tail())
		}
	}
	sizeOK := beforeIDs+len(g) <= w.cfg.TxPoolSize
	b0 := w.shadow.blocks
	fpb := w.feePerByte(b0)
	feeOK := true
	for _, tx := range g {
		if tx.Txn.Fee.Raw < fpb*uint64(tx.GetEncodedLength()) {
			feeOK = false
		}
	}
	// primary oracle: the fresh evaluator, pure ledger semantics
	evalErr, _ := rep.try(g, false)
	// secondary (completeness): the lock-step shadow of the pool's evaluator, fed exactly what the documented flow
	// feeds it: nothing when the size or fee check refuses first
	expect := false
	if w.certain && sizeOK && feeOK {
		shadowErr, _ := w.shadow.try(g, true)
		w.infra(t, shadowErr)
		expect = shadowErr == nil
		if w.shadow.quirk && !w.quirk {
			w.quirk = true // block counter bumped although the group was refused
			w.vk.Label("quirk:nospace-then-rejected")
		}
	}

	err := w.pool.Remember(g)
	w.infra(t, evalErr)
	w.infra(t, err)

	w.known = append(w.known, g)
	w.tracef("Remember %s %s -> %s (oracle eval=%s size=%v fee=%v fpb=%d blocks=%d expect=%v)", class, c44GroupStr(g), c44ErrClass(err), c44ErrClass(evalErr), sizeOK, feeOK, fpb, b0, expect)
	w.vk.Label("remember:" + class + ":" + c44ErrClass(err))
	w.vk.Labelf("group-size=%d", len(g))
	var thrErr *ErrTxPoolFeeError
	if errors.As(err, &thrErr) {
		w.vk.Label("remember:refused-by-congestion-threshold")
	}

	after := w.pool.PendingTxGroups()
	if err == nil {
		w.nAccepted++
		if evalErr != nil {
			t.Fatalf("C44 Remember admitted %s but a fresh evaluator rejects it on top of the %d pending groups: %v\n  %s", c44GroupStr(g), len(before), evalErr, w.tail())
		}
		if !sizeOK {
			t.Fatalf("C44 Remember admitted %d transactions into a pool holding %d of %d\n  %s", len(g), beforeIDs, w.cfg.TxPoolSize, w.tail())
		}
		if !c44SameGroups(after, append(append([]c44Group{}, before...), g)) {
			t.Fatalf("C44 after a successful Remember the pending list is not the old list plus the group\n  %s", w.tail())
		}
	} else {
		w.nRejected++
		if !c44SameGroups(after, before) {
			t.Fatalf("C44 a rejected Remember changed the pending list\n  %s", w.tail())
		}
	}
	if w.certain {
		if !w.quirk {
			switch {
			case expect && err != nil:
				t.Fatalf("C44 (completeness) Remember refused %s with %v; it fits (%d+%d<=%d), pays the threshold (%d/byte) and the evaluator accepts it on top of the pending groups\n  %s",
					c44GroupStr(g), err, beforeIDs, len(g), w.cfg.TxPoolSize, fpb, w.tail())
			case !expect && err == nil:
				t.Fatalf("C44 Remember admitted %s although size ok=%v, fee-threshold ok=%v (%d/byte), multi-block expiry rule (blocks=%d)\n  %s", c44GroupStr(g), sizeOK, feeOK, fpb, b0, w.tail())
			}
			if !feeOK && sizeOK {
				w.vk.Label("remember:below-fee-threshold")
			}
		} else if expect != (err == nil) {
			// in the history-dependent region nothing is asserted; if the shadow and the pool part ways the shadow is useless
			w.vk.Label("model-desync")
			w.certain = false
		}
	}
}

// ---------------------------------------------------------------------------------------------------------------
// generators

func (w *c44World) bal(i int) uint64 {
	d, _, err := w.l.LookupWithoutRewards(w.l.Latest(), c44Addrs[i])
	if err != nil {
		return 0
	}
	return d.MicroAlgos.Raw
}

func (w *c44World) holding(i int) uint64 {
	r, err := w.l.LookupAsset(w.l.Latest(), c44Addrs[i], w.asset)
	if err != nil || r.AssetHolding == nil {
		return 0
	}
	return r.AssetHolding.Amount
}

// signer: the key the ledger currently expects for the sender (follows committed rekeys)
func (w *c44World) sign(tx transactions.Transaction) transactions.SignedTxn {
	key := (*crypto.SignatureSecrets)(nil)
	auth := tx.Sender
	if d, _, err := w.l.LookupWithoutRewards(w.l.Latest(), tx.Sender); err == nil && !d.AuthAddr.IsZero() {
		auth = d.AuthAddr
	}
	for i, a := range c44Addrs {
		if a == auth {
			key = c44Keys[i]
		}
	}
	if key == nil {
		for i, a := range c44Addrs {
			if a == tx.Sender {
				key = c44Keys[i]
			}
		}
	}
	return tx.Sign(key)
}

func (w *c44World) note() []byte {
	w.noteSeq++
	return []byte{byte(w.noteSeq), byte(w.noteSeq >> 8)}
}

// txn draws one unsigned transaction of the given kind from sender si.
func (w *c44World) txn(t *rapid.T, kind string, si int) transactions.Transaction {
	next := w.l.Latest() + 1
	tx := transactions.Transaction{Type: protocol.PaymentTx}
	tx.Sender = c44Addrs[si]
	tx.GenesisHash = w.l.GenesisHash()
	tx.Fee = basics.MicroAlgos{Raw: w.proto.MinTxnFee}
	tx.Note = w.note()
	// validity window
	switch rapid.SampledFrom([]string{"n", "n", "n", "n", "n", "n", "short", "short", "expired", "future", "long"}).Draw(t, "window") {
	case "n":
		tx.FirstValid = next.SubSaturate(basics.Round(rapid.IntRange(0, 3).Draw(t, "fvBack")))
		tx.LastValid = next + basics.Round(rapid.SampledFrom([]int{1, 2, 3, 5, 8, 30}).Draw(t, "lvAhead"))
	case "short":
		tx.FirstValid = next.SubSaturate(basics.Round(rapid.IntRange(0, 1).Draw(t, "fvBack")))
		tx.LastValid = next
	case "expired":
		tx.LastValid = next - 1
		tx.FirstValid = tx.LastValid.SubSaturate(basics.Round(rapid.IntRange(0, 2).Draw(t, "fvBack")))
	case "future":
		tx.FirstValid = next + basics.Round(rapid.IntRange(1, 2).Draw(t, "fvAhead"))
		tx.LastValid = tx.FirstValid + basics.Round(rapid.IntRange(0, 5).Draw(t, "lvAhead"))
	case "long":
		tx.FirstValid = next
		tx.LastValid = next + basics.Round(w.proto.MaxTxnLife)
	}
	ri := rapid.IntRange(0, c44NAccts-1).Draw(t, "receiver")
	bal := w.bal(si)
	switch kind {
	case "pay":
		tx.Receiver = c44Addrs[ri]
		tx.Amount.Raw = rapid.Uint64Range(0, 3000).Draw(t, "amt")
	case "paybig":
		// most of what the sender can spend: two of these from one sender overspend
		tx.Receiver = c44Addrs[ri]
		spend := uint64(0)
		if bal > w.proto.MinBalance+tx.Fee.Raw {
			spend = bal - w.proto.MinBalance - tx.Fee.Raw
		}
		tx.Amount.Raw = spend - spend/uint64(rapid.SampledFrom([]int{2, 3, 1000000}).Draw(t, "keep"))
	case "paynew":
		tx.Receiver = c44Fresh[rapid.IntRange(0, len(c44Fresh)-1).Draw(t, "fresh")]
		tx.Amount.Raw = rapid.SampledFrom([]uint64{1, w.proto.MinBalance - 1, w.proto.MinBalance, w.proto.MinBalance + 5}).Draw(t, "amtNew")
	case "close":
		tx.Receiver = c44Addrs[ri]
		tx.CloseRemainderTo = c44Addrs[(si+1+rapid.IntRange(0, c44NAccts-2).Draw(t, "closeTo"))%c44NAccts]
	case "lease":
		tx.Receiver = c44Addrs[ri]
		tx.Amount.Raw = rapid.Uint64Range(0, 100).Draw(t, "amt")
		tx.Lease[0] = byte(rapid.IntRange(1, 2).Draw(t, "lease"))
	case "rekey":
		tx.Receiver = c44Addrs[ri]
		tx.RekeyTo = c44Addrs[rapid.IntRange(0, c44NAccts-1).Draw(t, "rekeyTo")]
	case "axfer":
		tx.Type = protocol.AssetTransferTx
		tx.XferAsset = w.asset
		tx.AssetReceiver = c44Addrs[ri]
		h := w.holding(si)
		tx.AssetAmount = rapid.SampledFrom([]uint64{0, 1, h / 2, h/2 + 1, h, h + 1}).Draw(t, "aamt")
	case "optin":
		tx.Type = protocol.AssetTransferTx
		tx.XferAsset = w.asset
		tx.AssetReceiver = tx.Sender
	case "acfg":
		tx.Type = protocol.AssetConfigTx
		tx.AssetParams = basics.AssetParams{Total: 7, Manager: tx.Sender}
	}
	// fee
	switch rapid.SampledFrom([]string{"min", "min", "min", "min", "min", "min", "high", "high", "low", "thr"}).Draw(t, "feeClass") {
	case "high":
		tx.Fee.Raw = w.proto.MinTxnFee * uint64(rapid.IntRange(2, 6).Draw(t, "feeMul"))
	case "low":
		tx.Fee.Raw = rapid.SampledFrom([]uint64{0, 1, w.proto.MinTxnFee - 1}).Draw(t, "feeLow")
	case "thr":
		// around the congestion threshold the model expects (exactly at it, one below, twice)
		if fpb := w.feePerByte(w.shadow.blocks); fpb > 0 {
			probe := tx
			probe.Fee.Raw = fpb * 260
			l := uint64(w.sign(probe).GetEncodedLength())
			tx.Fee.Raw = fpb*l + uint64(rapid.IntRange(-1, 1).Draw(t, "thrDelta")+1) - 1
			if tx.Fee.Raw < w.proto.MinTxnFee {
				tx.Fee.Raw = w.proto.MinTxnFee
			}
		}
	}
	if rapid.IntRange(0, 11).Draw(t, "bigNote") == 0 {
		tx.Note = append(tx.Note, make([]byte, 300)...)
	}
	return tx
}

var c44Kinds = []string{"pay", "pay", "pay", "paybig", "paybig", "paynew", "close", "lease", "lease", "lease", "rekey", "axfer", "axfer", "optin", "acfg"}

// group draws a group of 1-4 transactions and signs it.
func (w *c44World) group(t *rapid.T) (c44Group, string) {
	n := rapid.SampledFrom([]int{1, 1, 1, 1, 2, 2, 3, 4}).Draw(t, "groupSize")
	txs := make([]transactions.Transaction, n)
	kinds := make([]string, n)
	for i := range txs {
		kinds[i] = rapid.SampledFrom(c44Kinds).Draw(t, "kind")
		si := rapid.SampledFrom([]int{0, 1, 2, 3, 4, 4, 5, 5}).Draw(t, "sender")
		txs[i] = w.txn(t, kinds[i], si)
	}
	return w.signGroup(t, txs), strings.Join(kinds, "+")
}

func (w *c44World) signGroup(t *rapid.T, txs []transactions.Transaction) c44Group {
	if len(txs) > 1 {
		var tg transactions.TxGroup
		for _, tx := range txs {
			tg.TxGroupHashes = append(tg.TxGroupHashes, crypto.Digest(tx.ID()))
		}
		gid := crypto.HashObj(tg)
		for i := range txs {
			txs[i].Group = gid
		}
	}
	g := make(c44Group, len(txs))
	size := 0
	for i, tx := range txs {
		g[i] = w.sign(tx)
		size += g[i].GetEncodedLength() + 16
	}
	if size > w.proto.MaxTxnBytesPerBlock {
		// a group that cannot fit any block is outside the domain (not reachable with real consensus parameters,
		// where a block holds thousands of maximal groups): shrink it to its first transaction
		w.vk.Excluded("group larger than a whole block")
		txs[0].Group = crypto.Digest{}
		return c44Group{w.sign(txs[0])}
	}
	return g
}

func (w *c44World) actRemember(t *rapid.T) {
	if len(w.known) > 0 && rapid.IntRange(0, 6).Draw(t, "dup") == 0 {
		g := w.known[rapid.IntRange(0, len(w.known)-1).Draw(t, "dupIdx")]
		cls := "resubmit"
		if _, ok := w.committed[g[0].ID()]; ok {
			cls = "resubmit-committed"
		}
		w.remember(t, g, cls)
		return
	}
	g, kinds := w.group(t)
	cls := "single"
	if len(g) > 1 {
		cls = "group"
	}
	for _, k := range strings.Split(kinds, "+") {
		w.vk.Label("kind:" + k)
	}
	w.remember(t, g, cls)
}

// actBurst submits several plain payments from the rich accounts: fills the pool towards its size limit and, with
// the small-block protocols, beyond one block (fee threshold, multi-block expiry rule).
func (w *c44World) actBurst(t *rapid.T) {
	n := rapid.IntRange(3, 12).Draw(t, "burst")
	for i := 0; i < n; i++ {
		next := w.l.Latest() + 1
		tx := transactions.Transaction{Type: protocol.PaymentTx}
		tx.Sender = c44Addrs[i%2]
		tx.Receiver = c44Addrs[2+i%4]
		tx.GenesisHash = w.l.GenesisHash()
		tx.Fee.Raw = w.proto.MinTxnFee * uint64(rapid.SampledFrom([]int{1, 1, 2, 4}).Draw(t, "feeMul"))
		tx.Amount.Raw = 1
		tx.Note = w.note()
		tx.FirstValid = next
		tx.LastValid = next + basics.Round(rapid.SampledFrom([]int{0, 1, 2, 4, 20}).Draw(t, "lvAhead"))
		w.remember(t, c44Group{w.sign(tx)}, "burst")
	}
}

// ---------------------------------------------------------------------------------------------------------------
// Block

// foreign draws a transaction the pool has never seen that conflicts with a pending one.
func (w *c44World) foreign(t *rapid.T, pending []c44Group) (c44Group, string) {
	next := w.l.Latest() + 1
	base := func(sender basics.Address) transactions.Transaction {
		tx := transactions.Transaction{Type: protocol.PaymentTx}
		tx.Sender = sender
		tx.Receiver = c44Addrs[0]
		tx.GenesisHash = w.l.GenesisHash()
		tx.Fee.Raw = w.proto.MinTxnFee
		tx.FirstValid, tx.LastValid = next.SubSaturate(1), next+basics.Round(rapid.SampledFrom([]int{0, 2, 10, 50}).Draw(t, "flv"))
		tx.Note = append([]byte("F"), w.note()...)
		return tx
	}
	var victim transactions.SignedTxn
	have := false
	if len(pending) > 0 {
		g := pending[rapid.IntRange(0, len(pending)-1).Draw(t, "victimGroup")]
		victim = g[rapid.IntRange(0, len(g)-1).Draw(t, "victimTxn")]
		have = true
	}
	sender := c44Addrs[rapid.IntRange(0, c44NAccts-1).Draw(t, "fsender")]
	if have {
		sender = victim.Txn.Sender
	}
	si := 0
	for i, a := range c44Addrs {
		if a == sender {
			si = i
		}
	}
	kind := rapid.SampledFrom([]string{"drain", "drain", "close", "lease", "lease", "rekey", "assetdrain", "plain"}).Draw(t, "fkind")
	tx := base(sender)
	switch kind {
	case "drain":
		bal := w.bal(si)
		if bal > w.proto.MinBalance+tx.Fee.Raw {
			tx.Amount.Raw = bal - w.proto.MinBalance - tx.Fee.Raw
		}
		tx.Receiver = c44Addrs[(si+1)%c44NAccts]
	case "close":
		tx.CloseRemainderTo = c44Addrs[(si+1)%c44NAccts]
	case "lease":
		tx.Lease[0] = 1
		if have && victim.Txn.Lease != ([32]byte{}) {
			tx.Lease = victim.Txn.Lease
		}
	case "rekey":
		tx.RekeyTo = c44Addrs[(si+1+rapid.IntRange(0, c44NAccts-2).Draw(t, "frekey"))%c44NAccts]
	case "assetdrain":
		tx.Type = protocol.AssetTransferTx
		tx.Receiver = basics.Address{}
		tx.XferAsset = w.asset
		tx.AssetReceiver = c44Addrs[0]
		tx.AssetAmount = w.holding(si)
	}
	g := c44Group{w.sign(tx)}
	w.known = append(w.known, g)
	return g, kind
}

// notify delivers one block to the pool and checks what the pool kept.
func (w *c44World) notify(t *rapid.T, blk bookkeeping.Block, delta ledgercore.StateDelta, emptyDelta bool) {
	before := w.pool.PendingTxGroups()
	recomputes := blk.Round() >= w.poolRound
	d := delta
	if emptyDelta {
		d = ledgercore.StateDelta{} // upstream's tests notify this way: the evaluator then finds the duplicates itself
	}
	w.pool.OnNewBlock(blk, d)
	after := w.pool.PendingTxGroups()
	if !recomputes {
		// a notification for a round the pool has already moved past (it recomputed from the ledger's latest round)
		if !c44SameGroups(before, after) {
			t.Fatalf("C44 a notification for the already processed round %d changed the pending list\n  %s", blk.Round(), w.tail())
		}
		w.tracef("OnNewBlock %d (stale, pool at %d)", blk.Round(), w.poolRound)
		return
	}
	// documented threshold rule, from the number of whole blocks that were pending
	switch {
	case w.shadow.blocks == 0:
		w.mult /= w.cfg.TxPoolExponentialIncreaseFactor
	case w.shadow.blocks == 1:
	default:
		if w.mult == 0 {
			w.mult = 1
		} else {
			w.mult *= w.cfg.TxPoolExponentialIncreaseFactor
		}
	}
	w.poolRound = w.l.Latest() + 1

	// what must survive: the old pending groups that a fresh evaluator over the new state still accepts, in order
	rep := w.newReplay(t)
	var expect []c44Group
	dropped := map[string]int{}
	for _, g := range before {
		if _, in := d.Txids[g[0].ID()]; in {
			dropped["committed"]++
			w.nDroppedCommitted++
			continue
		}
		err, _ := rep.try(g, true)
		if err == nil {
			expect = append(expect, g)
			continue
		}
		w.infra(t, err)
		c := c44ErrClass(err)
		if _, ok := w.committed[g[0].ID()]; ok {
			c = "committed"
			w.nDroppedCommitted++
		} else {
			w.nDroppedConflict++
		}
		dropped[c]++
	}
	w.quirk = rep.quirk
	w.shadow = rep // from now on the shadow of the pool's new evaluator
	if rep.quirk {
		w.vk.Label("quirk:nospace-then-rejected-in-recompute")
	}
	for c, n := range dropped {
		for i := 0; i < n; i++ {
			w.vk.Label("dropped:" + c)
		}
	}
	w.tracef("OnNewBlock %d: pending %d -> %d (oracle keeps %d, blocks=%d, mult=%d)", blk.Round(), len(before), len(after), len(expect), rep.blocks, w.mult)
	// the pool may only keep groups it had, in their order
	j := 0
	for _, g := range after {
		for j < len(before) && c44GroupKey(before[j]) != c44GroupKey(g) {
			j++
		}
		if j == len(before) {
			t.Fatalf("C44 after OnNewBlock(%d) the pending list is not a subsequence of the previous one (%s)\n  %s", blk.Round(), c44GroupStr(g), w.tail())
		}
		j++
	}
	if !rep.quirk && !c44SameGroups(after, expect) {
		if len(after) > len(expect) {
			t.Fatalf("C44 after OnNewBlock(%d) the pool keeps %d groups, only %d of the previous %d can still commit\n  %s", blk.Round(), len(after), len(expect), len(before), w.tail())
		}
		t.Fatalf("C44 (completeness) after OnNewBlock(%d) the pool keeps %d groups although %d of the previous %d can still commit\n  %s", blk.Round(), len(after), len(expect), len(before), w.tail())
	}
}

func (w *c44World) actBlock(t *rapid.T) {
	nBlocks := rapid.SampledFrom([]int{1, 1, 1, 1, 2, 3}).Draw(t, "nBlocks")
	emptyDelta := rapid.IntRange(0, 3).Draw(t, "emptyDelta") == 0
	concurrent := nBlocks == 1 && rapid.IntRange(0, 3).Draw(t, "concurrentAssemble") == 0
	type made struct {
		blk   bookkeeping.Block
		delta ledgercore.StateDelta
	}
	var blocks []made
	pending := w.pool.PendingTxGroups()
	for b := 0; b < nBlocks; b++ {
		var content []c44Group
		var desc []string
		nForeignFirst := rapid.SampledFrom([]int{0, 0, 1, 2}).Draw(t, "foreignFirst")
		for i := 0; i < nForeignFirst; i++ {
			g, k := w.foreign(t, pending)
			content = append(content, g)
			desc = append(desc, "F:"+k)
		}
		take := rapid.SampledFrom([]int{0, 1, 1, 2, 2, 3}).Draw(t, "take") // none / half / all of the pool's groups
		own := 0
		for _, g := range pending {
			if _, done := w.committed[g[0].ID()]; done {
				continue
			}
			if take == 3 || (take > 0 && rapid.IntRange(0, 2).Draw(t, "pick") < take) {
				content = append(content, g)
				own++
			}
		}
		desc = append(desc, fmt.Sprintf("own:%d", own))
		if rapid.IntRange(0, 2).Draw(t, "foreignLast") == 0 {
			g, k := w.foreign(t, pending)
			content = append(content, g)
			desc = append(desc, "F:"+k)
		}
		blk, delta := w.commitBlock(t, content, false)
		w.tracef("Block %d [%s] committed %d txns", blk.Round(), strings.Join(desc, " "), len(blk.Payset))
		w.vk.Labelf("block:own-committed=%s", c44Bucket(own))
		blocks = append(blocks, made{blk, delta})
	}
	if nBlocks > 1 {
		w.vk.Label("block:catch-up-notifications")
	}
	var asm chan c44AsmResult
	if concurrent {
		// the production race: agreement asks for the next proposal as soon as the ledger has the block, the pool is
		// told about the block at the same time. Whatever the interleaving and however slow the machine, the result must
		// be a valid (possibly truncated or empty) block or an error.
		asm = make(chan c44AsmResult, 1)
		round := w.l.Latest() + 1
		done := make(chan struct{})
		go func() {
			defer close(done)
			ub, err := w.pool.AssembleBlock(round, time.Now().Add(3*time.Second))
			asm <- c44AsmResult{ub, err}
		}()
		defer func() { <-done }() // also on a failing path: the goroutine never outlives the case (returns by its deadline at the latest)
		if rapid.Bool().Draw(t, "yield") {
			time.Sleep(time.Millisecond)
		}
	}
	for _, m := range blocks {
		w.notify(t, m.blk, m.delta, emptyDelta)
	}
	if concurrent {
		r := <-asm
		w.checkAssembled(t, r, w.l.Latest()+1, "concurrent")
	}
}

func c44Bucket(n int) string {
	switch {
	case n == 0:
		return "0"
	case n <= 2:
		return "1-2"
	case n <= 8:
		return "3-8"
	}
	return ">8"
}

// ---------------------------------------------------------------------------------------------------------------
// AssembleBlock

type c44AsmResult struct {
	ub  *ledgercore.UnfinishedBlock
	err error
}

func (w *c44World) checkAssembled(t *rapid.T, r c44AsmResult, round basics.Round, how string) {
	if r.err != nil {
		w.vk.Label("assemble:" + how + ":error")
		w.tracef("AssembleBlock(%d) %s -> %v", round, how, r.err)
		if how == "sync" {
			t.Fatalf("C44 AssembleBlock(%d) on a pool that is in sync with the ledger failed: %v\n  %s", round, r.err, w.tail())
		}
		return
	}
	if r.ub == nil {
		t.Fatalf("C44 AssembleBlock(%d) returned neither a block nor an error\n  %s", round, w.tail())
	}
	blk := w.finish(r.ub)
	if blk.Round() != round {
		t.Fatalf("C44 AssembleBlock(%d) returned a block for round %d\n  %s", round, blk.Round(), w.tail())
	}
	flat, err := blk.DecodePaysetFlat()
	if err != nil {
		t.Fatalf("C44 assembled block does not decode: %v", err)
	}
	pend := map[transactions.Txid]bool{}
	for _, id := range w.pool.PendingTxIDs() {
		pend[id] = true
	}
	for _, stx := range flat {
		id := stx.ID()
		if rr, ok := w.committed[id]; ok {
			t.Fatalf("C44 assembled block %d contains %s, committed in round %d\n  %s", round, c44Short(id), rr, w.tail())
		}
		if !pend[id] {
			t.Fatalf("C44 assembled block %d contains %s which is not pending\n  %s", round, c44Short(id), w.tail())
		}
	}
	if _, err := w.l.Validate(context.Background(), blk, c44Backlog); err != nil {
		t.Fatalf("C44 the block assembled for round %d (%d txns) does not validate: %v\n  %s", round, len(flat), err, w.tail())
	}
	w.tracef("AssembleBlock(%d) %s -> %d txns of %d pending", round, how, len(flat), len(pend))
	w.vk.Labelf("assemble:%s:txns=%s", how, c44Bucket(len(flat)))
}

func (w *c44World) actAssemble(t *rapid.T) {
	latest := w.l.Latest()
	switch rapid.SampledFrom([]string{"sync", "sync", "sync", "past-deadline", "ahead"}).Draw(t, "asm") {
	case "sync":
		ub, err := w.pool.AssembleBlock(latest+1, time.Now().Add(20*time.Second))
		w.checkAssembled(t, c44AsmResult{ub, err}, latest+1, "sync")
	case "past-deadline":
		// the pool has already prepared the block when it processed the last notification: no waiting involved
		ub, err := w.pool.AssembleBlock(latest+1, time.Now().Add(-time.Second))
		w.checkAssembled(t, c44AsmResult{ub, err}, latest+1, "sync")
	case "ahead":
		// a request for a round the ledger cannot have reached: must come back (empty block or error) and leaves a
		// stale deadline behind, so the next recompute truncates the block it prepares
		ub, err := w.pool.AssembleBlock(latest+2, time.Now().Add(3*time.Millisecond))
		if err == nil && ub != nil && len(ub.UnfinishedBlock().Payset) != 0 {
			t.Fatalf("C44 AssembleBlock(%d) with the ledger at %d returned a block with transactions\n  %s", latest+2, latest, w.tail())
		}
		w.tracef("AssembleBlock(%d) ahead -> err=%v", latest+2, err)
		w.vk.Label("assemble:ahead")
	}
}

// ---------------------------------------------------------------------------------------------------------------

func TestVerif_C44_Machine(t *testing.T) {
	vk := vkBegin(t, "C44")
	vk.Rule("rapid state machine over a real in-memory Ledger and TransactionPool (TxPoolSize 8-32, block size 1200 B / 1800 B / 5000 B / 5 MB, threshold factor 2 or 4): " +
		"Remember of really signed groups of 1-4 (pay, spend-most, pay-new-account, close, lease, rekey, asset transfer/opt-in/create; " +
		"validity windows normal/one-round/expired/future/max; fees min/high/low/at the congestion threshold; resubmissions of pending, " +
		"rejected and committed groups), bursts, blocks committing a drawn subset of the pending groups and foreign conflicting " +
		"transactions (drain, close, same lease, rekey, asset drain) with 1-3 blocks per notification batch, AssembleBlock (in sync, " +
		"deadline in the past, concurrent with OnNewBlock, ahead). Non-trivial = at least one Remember admitted, one refused, and one " +
		"pending group dropped at a new block because it conflicted/expired (not because it was committed). Distinct by action trace.")
	vk.Assume("ledger.StartEvaluator/TransactionGroup (the fresh-evaluator oracle) and Ledger.Validate are trusted here; they are the subject of C18-C24")
	c44Init()
	cvs := []protocol.ConsensusVersion{
		c44RegisterProto(t, "c44-b1200", 1200),
		c44RegisterProto(t, "c44-b1800", 1800),
		c44RegisterProto(t, "c44-b5000", 5000),
		protocol.ConsensusCurrentVersion,
	}
	rapid.Check(t, func(rt *rapid.T) {
		w := c44NewWorld(t, rt, vk, cvs)
		defer w.close()
		rt.Repeat(map[string]func(*rapid.T){
			"Remember1": w.guard(w.actRemember),
			"Remember2": w.guard(w.actRemember),
			"Remember3": w.guard(w.actRemember),
			"Remember4": w.guard(w.actRemember),
			"Burst": w.guard(w.actBurst),
			"Block1": w.guard(w.actBlock),
			"Block2": w.guard(w.actBlock),
			"Assemble": w.guard(w.actAssemble),
			"": w.guard(w.invariant),
		})
		if w.abandoned {
			return
		}
		nt := w.nAccepted > 0 && w.nRejected > 0 && w.nDroppedConflict > 0
		vk.Case(nt, strings.Join(w.hist, "|"))
		if w.certain {
			vk.Label("case:model-exact-throughout")
		}
		if vk.WantSample(nt) {
			h := w.hist
			if len(h) > 40 {
				h = h[:40]
			}
			vk.Sample(nt, h)
		}
	})
}
