package catchup

// C30 — catch-up only appends authenticated blocks, in order.
//
// This file: the canonical chain, the certificate predicate ("genuine" = keyed MAC only the harness can compute,
// and only computes for canonical (round, digest) pairs), the tampered-response builders, the event recorder,
// the recording authenticator and the recording ledger wrapper.

import (
	"bytes"
	"context"
	"encoding/binary"
	"errors"
	"fmt"
	"strings"
	"sync"

	"github.com/algorand/go-algorand/agreement"
	"github.com/algorand/go-algorand/crypto"
	"github.com/algorand/go-algorand/data/basics"
	"github.com/algorand/go-algorand/data/bookkeeping"
	"github.com/algorand/go-algorand/data/transactions"
	"github.com/algorand/go-algorand/ledger/ledgercore"
	"github.com/algorand/go-algorand/protocol"
	"github.com/algorand/go-algorand/rpcs"
	"github.com/algorand/go-algorand/util/execpool"
)

// ---------------------------------------------------------------- deterministic PRNG (splitmix64)

type c30Rng struct{ s uint64 }

func (r *c30Rng) next() uint64 {
	r.s += 0x9e3779b97f4a7c15
	z := r.s
	z = (z ^ (z >> 30)) * 0xbf58476d1ce4e5b9
	z = (z ^ (z >> 27)) * 0x94d049bb133111eb
	return z ^ (z >> 31)
}

func (r *c30Rng) intn(n int) int {
	if n <= 1 {
		return 0
	}
	return int(r.next() % uint64(n))
}

func (r *c30Rng) bytes(n int) []byte {
	b := make([]byte, n)
	for i := range b {
		b[i] = byte(r.next())
	}
	return b
}

func c30Mix(vals ...uint64) uint64 {
	r := c30Rng{s: 0x1234567}
	acc := uint64(0)
	for _, v := range vals {
		r.s ^= v
		acc ^= r.next()
	}
	return acc ^ r.next()
}

// ---------------------------------------------------------------- canonical chain

type c30Chain struct {
	secret []byte
	blocks []bookkeeping.Block     // index = round, 0..L (canonical)
	enc    [][]byte                // canonical msgpack of blocks[r]
	certs  []agreement.Certificate // genuine cert of round r (r >= 1)
	fab    bookkeeping.Block       // a fabricated successor of the tip (never canonical, never certified)
}

func (c *c30Chain) tip() basics.Round { return basics.Round(len(c.blocks) - 1) }

// c30Mac is the "genuine" marker: only the harness knows secret, and it only ever MACs canonical (round, digest) pairs.
func c30Mac(secret []byte, rnd basics.Round, d crypto.Digest) crypto.Digest {
	buf := make([]byte, 0, len(secret)+8+len(d))
	buf = append(buf, secret...)
	buf = binary.BigEndian.AppendUint64(buf, uint64(rnd))
	buf = append(buf, d[:]...)
	return crypto.Hash(buf)
}

// c30Accepts is the authentication predicate: a pure function of (block round, block header digest, cert).
func c30Accepts(secret []byte, blk *bookkeeping.Block, cert *agreement.Certificate) bool {
	if cert.Round != blk.Round() {
		return false
	}
	if cert.Proposal.BlockDigest != blk.Digest() {
		return false
	}
	return cert.Proposal.EncodingDigest == c30Mac(secret, cert.Round, cert.Proposal.BlockDigest)
}

func c30GenuineCert(secret []byte, blk *bookkeeping.Block, rng *c30Rng) agreement.Certificate {
	var cert agreement.Certificate
	cert.Round = blk.Round()
	cert.Step = 2 // cert step
	cert.Proposal.BlockDigest = blk.Digest()
	cert.Proposal.EncodingDigest = c30Mac(secret, cert.Round, cert.Proposal.BlockDigest)
	copy(cert.Proposal.OriginalProposer[:], rng.bytes(32))
	return cert
}

func c30Addr(rng *c30Rng) (a basics.Address) {
	copy(a[:], rng.bytes(32))
	return
}

func c30Txn(rng *c30Rng, hdr *bookkeeping.BlockHeader) transactions.SignedTxnInBlock {
	tx := transactions.Transaction{
		Type: protocol.PaymentTx,
		Header: transactions.Header{
			Sender:      c30Addr(rng),
			Fee:         basics.MicroAlgos{Raw: 1000 + uint64(rng.intn(5000))},
			FirstValid:  hdr.Round,
			LastValid:   hdr.Round + basics.Round(1+rng.intn(900)),
			GenesisHash: hdr.GenesisHash,
		},
		PaymentTxnFields: transactions.PaymentTxnFields{
			Receiver: c30Addr(rng),
			Amount:   basics.MicroAlgos{Raw: uint64(rng.intn(1_000_000))},
		},
	}
	if rng.intn(2) == 0 {
		tx.Note = rng.bytes(1 + rng.intn(12))
	}
	if rng.intn(4) == 0 {
		tx.GenesisID = hdr.GenesisID
	}
	st := transactions.SignedTxn{Txn: tx}
	copy(st.Sig[:], rng.bytes(64)) // a dummy signature: never verified here, but committed to by TxnCommitments
	var ad transactions.ApplyData
	if rng.intn(3) == 0 {
		ad.SenderRewards = basics.MicroAlgos{Raw: uint64(rng.intn(50))}
	}
	stib, err := hdr.EncodeSignedTxn(st, ad)
	if err != nil {
		panic(fmt.Sprintf("c30: EncodeSignedTxn: %v", err))
	}
	return stib
}

func c30NextBlock(rng *c30Rng, prev *bookkeeping.Block, ntx int) bookkeeping.Block {
	b := bookkeeping.MakeBlock(prev.BlockHeader)
	b.TimeStamp = prev.TimeStamp + int64(1+rng.intn(4))
	copy(b.BlockHeader.Seed[:], rng.bytes(32))
	b.Payset = nil
	for i := 0; i < ntx; i++ {
		b.Payset = append(b.Payset, c30Txn(rng, &b.BlockHeader))
	}
	b.TxnCounter = prev.TxnCounter + uint64(ntx)
	var err error
	b.TxnCommitments, err = b.PaysetCommit()
	if err != nil {
		panic(fmt.Sprintf("c30: PaysetCommit: %v", err))
	}
	return b
}

// c30BuildChain builds rounds 0..L. ntx(r) gives the payset size of round r.
func c30BuildChain(seed uint64, L int, ntx func(r int, rng *c30Rng) int) *c30Chain {
	rng := &c30Rng{s: c30Mix(seed, 0xc4a1)}
	ch := &c30Chain{secret: rng.bytes(32)}
	var gen bookkeeping.Block
	gen.CurrentProtocol = protocol.ConsensusCurrentVersion
	gen.BlockHeader.GenesisID = "c30-net"
	copy(gen.BlockHeader.GenesisHash[:], rng.bytes(32))
	gen.RewardsState.FeeSink = sinkAddr
	gen.RewardsState.RewardsPool = poolAddr
	gen.TimeStamp = 1_700_000_000
	var err error
	gen.TxnCommitments, err = gen.PaysetCommit()
	if err != nil {
		panic(err)
	}
	ch.blocks = append(ch.blocks, gen)
	ch.certs = append(ch.certs, agreement.Certificate{})
	for r := 1; r <= L; r++ {
		b := c30NextBlock(rng, &ch.blocks[r-1], ntx(r, rng))
		ch.blocks = append(ch.blocks, b)
		ch.certs = append(ch.certs, c30GenuineCert(ch.secret, &b, rng))
	}
	for r := range ch.blocks {
		ch.enc = append(ch.enc, protocol.Encode(&ch.blocks[r]))
		if !ch.blocks[r].ContentsMatchHeader() {
			panic("c30: canonical block does not match its header")
		}
		if r > 0 && ch.blocks[r].Branch != ch.blocks[r-1].Hash() {
			panic("c30: canonical chain not linked")
		}
	}
	ch.fab = c30NextBlock(rng, &ch.blocks[L], 1+rng.intn(2))
	return ch
}

// ---------------------------------------------------------------- response kinds

type c30Kind int

const (
	c30Honest         c30Kind = iota
	c30PaysetAlt              // payset altered, header intact, genuine cert: only ContentsMatchHeader can reject
	c30HeaderAlt              // one header field altered, genuine cert of the canonical block
	c30Consistent             // payset + TxnCommitments altered consistently (ContentsMatchHeader holds), genuine canonical cert
	c30ForgedPair             // consistently altered block + a forged cert naming the altered digest
	c30CertForged             // canonical block, cert with a bad marker
	c30CertOther              // canonical block r, genuine cert of r'
	c30CertOtherRenum         // canonical block r, cert of r' renumbered to r
	c30PairOther              // genuine pair (block r', cert r') for another round
	c30PairOtherRenum         // block r' renumbered to r + cert r' renumbered to r
	c30BeyondFab              // beyond the tip: fabricated successor with a forged cert
	c30Garbage
	c30NoBlock
	c30Error
	c30NKinds
)

var c30KindNames = [...]string{"honest", "payset-alt", "header-alt", "consistent-alt", "forged-pair", "cert-forged", "cert-other",
	"cert-other-renum", "pair-other", "pair-other-renum", "beyond-fab", "garbage", "noblock", "error"}

func (k c30Kind) String() string { return c30KindNames[k] }

// tampered = carries a decodable (block, cert) that must not be written as is
func (k c30Kind) tampered() bool { return k >= c30PaysetAlt && k <= c30BeyondFab }

const (
	c30ModeParts = iota // blk + cert parts present
	c30ModeNoBlock
	c30ModeError
	c30ModeRaw // raw body / raw parts of garbage
)

type c30Resp struct {
	kind    c30Kind
	sub     int
	mode    int
	blk     []byte
	cert    []byte
	raw     []byte
	variant uint64 // presentation variant (status / content-type / length / topic flavours)
	noop    bool   // the tamper produced the canonical bytes (counted, treated as honest)
}

func c30CopyBlock(b *bookkeeping.Block) bookkeeping.Block {
	nb := *b
	nb.Payset = append(transactions.Payset(nil), b.Payset...)
	return nb
}

// c30AlterPayset changes the payset so that its commitment changes; the header is untouched.
func c30AlterPayset(b *bookkeeping.Block, sub int, rng *c30Rng) {
	n := len(b.Payset)
	if n == 0 {
		sub = 0
	}
	switch sub % 7 {
	case 0: // append a txn
		b.Payset = append(b.Payset, c30Txn(rng, &b.BlockHeader))
	case 1: // drop the last txn
		b.Payset = b.Payset[:n-1]
	case 2: // duplicate the first txn
		b.Payset = append(b.Payset, b.Payset[0])
	case 3: // change an amount
		i := rng.intn(n)
		b.Payset[i].SignedTxn.Txn.Amount.Raw += 1 + uint64(rng.intn(1000))
	case 4: // change apply data
		i := rng.intn(n)
		b.Payset[i].ApplyData.SenderRewards.Raw += 1 + uint64(rng.intn(1000))
	case 5: // change a signature byte
		i := rng.intn(n)
		b.Payset[i].SignedTxn.Sig[rng.intn(64)] ^= byte(1 + rng.intn(255))
	case 6: // swap two txns (or replace the receiver when there is only one)
		if n >= 2 {
			b.Payset[0], b.Payset[n-1] = b.Payset[n-1], b.Payset[0]
		} else {
			b.Payset[0].SignedTxn.Txn.Receiver = c30Addr(rng)
		}
	}
}

func c30AlterHeader(b *bookkeeping.Block, sub int, rng *c30Rng) {
	switch sub % 9 {
	case 0:
		b.TimeStamp += 1 + int64(rng.intn(5))
	case 1:
		b.BlockHeader.Seed[rng.intn(32)] ^= byte(1 + rng.intn(255))
	case 2:
		b.Branch[rng.intn(32)] ^= byte(1 + rng.intn(255))
	case 3:
		b.TxnCommitments.NativeSha512_256Commitment[rng.intn(32)] ^= byte(1 + rng.intn(255))
	case 4:
		b.TxnCommitments.Sha256Commitment[rng.intn(32)] ^= byte(1 + rng.intn(255))
	case 5:
		b.TxnCounter += 1 + uint64(rng.intn(3))
	case 6:
		b.RewardsState.RewardsLevel += 1 + uint64(rng.intn(3))
	case 7:
		b.CurrentProtocol = "c30-unknown-protocol" // ContentsMatchHeader fails and the service gives up on the round
	case 8:
		b.BlockHeader.Round += basics.Round(1 + rng.intn(3)) // no longer the requested round
	}
}

// c30OtherRound picks r' != r within the canonical chain, mostly the successor (the most dangerous substitute).
func c30OtherRound(ch *c30Chain, r basics.Round, rng *c30Rng) basics.Round {
	tip := ch.tip()
	switch rng.intn(4) {
	case 0, 1:
		if r+1 <= tip {
			return r + 1
		}
	case 2:
		if r >= 2 {
			return r - 1
		}
	}
	for {
		o := basics.Round(1 + rng.intn(int(tip)))
		if o != r {
			return o
		}
	}
}

// c30Build renders the response of the given kind for a request of round r.
func c30Build(ch *c30Chain, r basics.Round, kind c30Kind, sub int, rng *c30Rng) *c30Resp {
	resp := &c30Resp{kind: kind, sub: sub, variant: rng.next()}
	tip := ch.tip()
	if r > tip || r == 0 {
		// beyond the canonical chain only these make sense
		switch kind {
		case c30BeyondFab, c30Garbage, c30NoBlock, c30Error:
		case c30Honest:
			kind = c30NoBlock
		default:
			if rng.intn(2) == 0 {
				kind = c30BeyondFab
			} else {
				kind = c30NoBlock
			}
		}
		resp.kind = kind
	} else if kind == c30BeyondFab {
		kind = c30ForgedPair
		resp.kind = kind
	}
	setParts := func(b *bookkeeping.Block, c *agreement.Certificate) {
		resp.mode = c30ModeParts
		resp.blk = protocol.Encode(b)
		resp.cert = protocol.Encode(c)
	}
	switch kind {
	case c30Honest:
		resp.mode = c30ModeParts
		resp.blk = ch.enc[r]
		resp.cert = protocol.Encode(&ch.certs[r])
	case c30PaysetAlt:
		b := c30CopyBlock(&ch.blocks[r])
		c30AlterPayset(&b, sub, rng)
		setParts(&b, &ch.certs[r])
	case c30HeaderAlt:
		b := c30CopyBlock(&ch.blocks[r])
		c30AlterHeader(&b, sub, rng)
		setParts(&b, &ch.certs[r])
	case c30Consistent, c30ForgedPair:
		b := c30CopyBlock(&ch.blocks[r])
		c30AlterPayset(&b, sub, rng)
		if tc, err := b.PaysetCommit(); err == nil {
			b.TxnCommitments = tc
		}
		cert := ch.certs[r]
		if kind == c30ForgedPair {
			cert.Proposal.BlockDigest = b.Digest()
			switch rng.intn(3) {
			case 0: // keep the genuine marker of the canonical block
			case 1:
				copy(cert.Proposal.EncodingDigest[:], rng.bytes(32))
			case 2:
				cert.Proposal.EncodingDigest = crypto.Digest{}
			}
		}
		setParts(&b, &cert)
	case c30BeyondFab:
		b := c30CopyBlock(&ch.fab)
		b.BlockHeader.Round = r
		cert := c30GenuineCert(rng.bytes(32), &b, rng) // MACed with a key that is not the harness secret
		if rng.intn(3) == 0 {
			// reuse the genuine marker of the tip certificate
			cert.Proposal.EncodingDigest = ch.certs[tip].Proposal.EncodingDigest
		}
		setParts(&b, &cert)
	case c30CertForged:
		cert := ch.certs[r]
		if rng.intn(2) == 0 {
			cert.Proposal.EncodingDigest[rng.intn(32)] ^= byte(1 + rng.intn(255))
		} else {
			cert.Proposal.EncodingDigest = crypto.Digest{}
		}
		b := ch.blocks[r]
		setParts(&b, &cert)
	case c30CertOther, c30CertOtherRenum:
		o := c30OtherRound(ch, r, rng)
		cert := ch.certs[o]
		if kind == c30CertOtherRenum {
			cert.Round = r
			if rng.intn(2) == 0 {
				cert.Proposal.BlockDigest = ch.blocks[r].Digest() // right digest, marker of another round
			}
		}
		b := ch.blocks[r]
		setParts(&b, &cert)
	case c30PairOther, c30PairOtherRenum:
		o := c30OtherRound(ch, r, rng)
		b := c30CopyBlock(&ch.blocks[o])
		cert := ch.certs[o]
		if kind == c30PairOtherRenum {
			b.BlockHeader.Round = r
			cert.Round = r
			if rng.intn(2) == 0 {
				cert.Proposal.BlockDigest = b.Digest()
			}
		}
		setParts(&b, &cert)
	case c30Garbage:
		resp.mode = c30ModeRaw
		switch sub % 5 {
		case 0:
			resp.raw = rng.bytes(1 + rng.intn(200))
		case 1: // truncated honest encoding
			var full []byte
			if r <= tip && r > 0 {
				full = protocol.EncodeReflect(rpcs.PreEncodedBlockCert{Block: ch.enc[r], Certificate: protocol.Encode(&ch.certs[r])})
			} else {
				full = protocol.EncodeReflect(rpcs.PreEncodedBlockCert{Block: protocol.Encode(&ch.fab), Certificate: protocol.Encode(&ch.certs[tip])})
			}
			resp.raw = full[:rng.intn(len(full))]
		case 2:
			resp.raw = []byte{}
		case 3: // valid msgpack, wrong shape
			resp.raw = protocol.EncodeReflect(map[string]int{"block": 1, "cert": 2})
		case 4: // a bare block where a block+cert is expected
			resp.raw = ch.enc[1]
		}
	case c30NoBlock:
		resp.mode = c30ModeNoBlock
	case c30Error:
		resp.mode = c30ModeError
	}
	if resp.mode == c30ModeParts && r <= tip && r > 0 && kind != c30Honest {
		if bytes.Equal(resp.blk, ch.enc[r]) && bytes.Equal(resp.cert, protocol.Encode(&ch.certs[r])) {
			resp.noop = true
		}
	}
	return resp
}

// ---------------------------------------------------------------- recorder

type c30Event struct {
	Seq    int
	What   string // arrive | release | cancel | abort | auth | validate | write | pushcert | note
	Req    int
	Peer   int
	Round  uint64
	Nth    int
	Kind   string
	OK     bool
	Detail string
}

func (e c30Event) String() string {
	switch e.What {
	case "arrive", "release", "cancel", "abort":
		return fmt.Sprintf("#%d %s req=%d peer=%d round=%d nth=%d kind=%s %s", e.Seq, e.What, e.Req, e.Peer, e.Round, e.Nth, e.Kind, e.Detail)
	default:
		return fmt.Sprintf("#%d %s round=%d ok=%v %s", e.Seq, e.What, e.Round, e.OK, e.Detail)
	}
}

type c30Write struct {
	seq        int
	method     string
	blk        bookkeeping.Block
	cert       agreement.Certificate
	blkEnc     []byte
	certEnc    []byte
	lastBefore basics.Round
	err        error
}

type c30AuthRec struct {
	seq     int
	key     string
	verdict bool
}

type c30Rec struct {
	mu      sync.Mutex
	seq     int
	events  []c30Event
	writes  []c30Write
	auths   []c30AuthRec
	pushed  map[string]bool // encodings of certificates handed to the service as "agreement already has this cert"
	wake    chan struct{}
	nAuth   int
	nWrites int
}

func c30NewRec() *c30Rec {
	return &c30Rec{wake: make(chan struct{}, 1), pushed: map[string]bool{}}
}

func (rc *c30Rec) poke() {
	select {
	case rc.wake <- struct{}{}:
	default:
	}
}

// add appends an event and returns its sequence number (caller must not hold rc.mu)
func (rc *c30Rec) add(e c30Event) int {
	rc.mu.Lock()
	rc.seq++
	e.Seq = rc.seq
	rc.events = append(rc.events, e)
	s := rc.seq
	rc.mu.Unlock()
	rc.poke()
	return s
}

func (rc *c30Rec) history() string {
	rc.mu.Lock()
	defer rc.mu.Unlock()
	var sb strings.Builder
	for _, e := range rc.events {
		sb.WriteString(e.String())
		sb.WriteByte('\n')
	}
	return sb.String()
}

func c30PairKey(blkEnc, certEnc []byte) string {
	h1 := crypto.Hash(blkEnc)
	h2 := crypto.Hash(certEnc)
	return string(h1[:]) + string(h2[:])
}

// ---------------------------------------------------------------- recording authenticator

type c30Auth struct {
	rec    *c30Rec
	secret []byte
}

var errC30NotAuthentic = errors.New("c30: certificate does not authenticate this block")

func (a *c30Auth) Authenticate(blk *bookkeeping.Block, cert *agreement.Certificate) error {
	verdict := c30Accepts(a.secret, blk, cert)
	blkEnc := protocol.Encode(blk)
	certEnc := protocol.Encode(cert)
	key := c30PairKey(blkEnc, certEnc)
	a.rec.mu.Lock()
	a.rec.seq++
	s := a.rec.seq
	a.rec.auths = append(a.rec.auths, c30AuthRec{seq: s, key: key, verdict: verdict})
	a.rec.nAuth++
	d := blk.Digest()
	a.rec.events = append(a.rec.events, c30Event{Seq: s, What: "auth", Round: uint64(blk.Round()), OK: verdict,
		Detail: fmt.Sprintf("digest=%x certRound=%d certDigest=%x", d[:4], cert.Round, cert.Proposal.BlockDigest[:4])})
	a.rec.mu.Unlock()
	a.rec.poke()
	if !verdict {
		return errC30NotAuthentic
	}
	return nil
}

func (a *c30Auth) Quit() {}

// ---------------------------------------------------------------- recording ledger

// c30Ledger wraps the upstream mockedLedger; every write-type call made by the service is logged before it is applied.
type c30Ledger struct {
	*mockedLedger
	rec *c30Rec
	wmu sync.Mutex
}

func (l *c30Ledger) record(method string, blk bookkeeping.Block, cert agreement.Certificate) error {
	l.wmu.Lock()
	defer l.wmu.Unlock()
	last := l.mockedLedger.LastRound()
	w := c30Write{method: method, blk: blk, cert: cert, blkEnc: protocol.Encode(&blk), certEnc: protocol.Encode(&cert), lastBefore: last}
	l.rec.mu.Lock()
	l.rec.seq++
	w.seq = l.rec.seq
	idx := len(l.rec.writes)
	l.rec.writes = append(l.rec.writes, w)
	l.rec.nWrites++
	d := blk.Digest()
	l.rec.events = append(l.rec.events, c30Event{Seq: w.seq, What: "write", Round: uint64(blk.Round()), OK: true,
		Detail: fmt.Sprintf("%s lastBefore=%d digest=%x ntx=%d certRound=%d", method, last, d[:4], len(blk.Payset), cert.Round)})
	l.rec.mu.Unlock()
	err := l.mockedLedger.AddBlock(blk, cert)
	if err != nil {
		l.rec.mu.Lock()
		l.rec.writes[idx].err = err
		l.rec.mu.Unlock()
	}
	l.rec.poke()
	return err
}

func (l *c30Ledger) AddBlock(blk bookkeeping.Block, cert agreement.Certificate) error {
	return l.record("AddBlock", blk, cert)
}

func (l *c30Ledger) EnsureBlock(blk *bookkeeping.Block, cert agreement.Certificate) {
	_ = l.record("EnsureBlock", *blk, cert)
}

// Validate is validation only (not a write): it is logged as such. Like the real ledger it refuses to evaluate a block
// that is not the next one.
func (l *c30Ledger) Validate(ctx context.Context, blk bookkeeping.Block, executionPool execpool.BacklogPool) (*ledgercore.ValidatedBlock, error) {
	last := l.mockedLedger.LastRound()
	ok := blk.Round() == last+1
	l.rec.add(c30Event{What: "validate", Round: uint64(blk.Round()), OK: ok, Detail: fmt.Sprintf("last=%d", last)})
	if !ok {
		return nil, ledgercore.ErrNonSequentialBlockEval{EvaluatorRound: blk.Round(), LatestRound: last}
	}
	vb := ledgercore.MakeValidatedBlock(blk, ledgercore.StateDelta{})
	return &vb, nil
}

func (l *c30Ledger) AddValidatedBlock(vb ledgercore.ValidatedBlock, cert agreement.Certificate) error {
	return l.record("AddValidatedBlock", vb.Block(), cert)
}

// ---------------------------------------------------------------- oracle

// c30CheckLog is the schedule-universal oracle over the recorded history. It returns "" or a description of the violation.
func c30CheckLog(ch *c30Chain, start basics.Round, rec *c30Rec) string {
	rec.mu.Lock()
	defer rec.mu.Unlock()
	expected := start + 1
	for i := range rec.writes {
		w := &rec.writes[i]
		rnd := w.blk.Round()
		if rnd != expected || w.lastBefore != rnd-1 {
			return fmt.Sprintf("write #%d (%s) is out of order: block round %d, expected next round %d, ledger was at %d", w.seq, w.method, rnd, expected, w.lastBefore)
		}
		if rnd > ch.tip() {
			return fmt.Sprintf("write #%d (%s) appends round %d beyond the canonical tip %d: no genuine certificate exists for it", w.seq, w.method, rnd, ch.tip())
		}
		if !w.blk.ContentsMatchHeader() {
			return fmt.Sprintf("write #%d (%s) round %d: block contents do not match its header", w.seq, w.method, rnd)
		}
		if !c30Accepts(ch.secret, &w.blk, &w.cert) {
			return fmt.Sprintf("write #%d (%s) round %d: the certificate written with the block does not authenticate it (cert round %d, cert digest %x, block digest %x)",
				w.seq, w.method, rnd, w.cert.Round, w.cert.Proposal.BlockDigest[:6], func() []byte { d := w.blk.Digest(); return d[:6] }())
		}
		if !bytes.Equal(w.blkEnc, ch.enc[rnd]) {
			return fmt.Sprintf("write #%d (%s) round %d: block is not byte-identical to the canonical block", w.seq, w.method, rnd)
		}
		if w.method == "EnsureBlock" {
			// fetchRound path: the certificate is the one the (trusted) agreement side supplied
			if !rec.pushed[string(w.certEnc)] {
				return fmt.Sprintf("write #%d (EnsureBlock) round %d: certificate is not the one supplied through the pending-certificate channel", w.seq, rnd)
			}
		} else {
			key := c30PairKey(w.blkEnc, w.certEnc)
			approved := false
			for _, a := range rec.auths {
				if a.seq < w.seq && a.key == key && a.verdict {
					approved = true
					break
				}
			}
			if !approved {
				return fmt.Sprintf("write #%d (%s) round %d: this exact (block, cert) pair was not approved by the authenticator before the write", w.seq, w.method, rnd)
			}
		}
		if w.err != nil {
			return fmt.Sprintf("write #%d (%s) round %d: in-order write rejected by the mock ledger: %v (harness inconsistency)", w.seq, w.method, rnd, w.err)
		}
		expected++
	}
	return ""
}
