package catchup

// C30 — catch-up only appends authenticated blocks, in order.
//
// The real catchup Service (periodicSync / sync / pipelinedFetch / fetchAndWrite / fetchRound, universalBlockFetcher, peer
// selectors) runs against 2-5 mock peers whose responses are decided per request by the harness and released one at a time
// through gates in a generated order. The ledger is a recording wrapper, the authenticator a recording mock whose verdict
// is a pure predicate of (block round, block digest, cert). After the service has been stopped (all its goroutines joined)
// the recorded history is checked: writes are consecutive from LastRound+1, each written block is the canonical block of
// its round, matches its header, and was approved together with exactly the certificate it is written with, before the write.

import (
	"fmt"
	"io"
	"os"
	"sort"
	"sync"
	"testing"
	"time"

	"github.com/algorand/go-deadlock"
	"pgregory.net/rapid"

	"github.com/algorand/go-algorand/config"
	"github.com/algorand/go-algorand/data/basics"
	"github.com/algorand/go-algorand/logging"
	"github.com/algorand/go-algorand/protocol"
)

// ---------------------------------------------------------------- case description

type c30PeerDesc struct {
	WS          bool
	Class       int
	Preset      [2]int
	HonestAfter [2]int
	SlowPct     int
	DupPct      int
	FlipAt      int
}

type c30Case struct {
	Seed       uint64
	L          int
	Start      int
	EmptyPct   int
	Peers      []c30PeerDesc
	Parallel   uint64
	Mode       int
	PRev, PFwd int
	QuietUs    int
	Budget     int
	TipBudget  int
	PushCerts  bool
	RoundEstMs int
}

var c30PresetNames = []string{"mixed", "payset", "header+cert", "wrong-round", "flaky", "forged"}

func c30Preset(id int) (w [c30NKinds]int) {
	switch id {
	case 0: // mixed
		for k := c30PaysetAlt; k <= c30BeyondFab; k++ {
			w[k] = 3
		}
		w[c30Garbage], w[c30NoBlock], w[c30Error] = 2, 1, 2
	case 1: // payset
		w[c30PaysetAlt] = 12
		w[c30Consistent], w[c30Garbage], w[c30Error] = 2, 1, 1
	case 2: // header + cert tampering
		w[c30HeaderAlt], w[c30Consistent], w[c30CertForged], w[c30CertOtherRenum] = 5, 4, 4, 4
		w[c30Error] = 1
	case 3: // answers for another round
		w[c30PairOther], w[c30CertOther], w[c30PairOtherRenum], w[c30CertOtherRenum] = 8, 3, 3, 2
		w[c30NoBlock] = 1
	case 4: // flaky
		w[c30Error], w[c30Garbage], w[c30NoBlock] = 6, 4, 2
		w[c30PaysetAlt] = 2
	case 5: // forgeries
		w[c30ForgedPair], w[c30BeyondFab], w[c30CertForged], w[c30Consistent] = 6, 3, 3, 2
		w[c30Garbage] = 1
	}
	return
}

func (d c30PeerDesc) spec() c30PeerSpec {
	s := c30PeerSpec{ws: d.WS, class: d.Class, flipAt: d.FlipAt}
	for i := 0; i < 2; i++ {
		s.prof[i] = c30Profile{honestAfter: d.HonestAfter[i], weights: c30Preset(d.Preset[i]), slowPct: d.SlowPct, dupPct: d.DupPct}
		// beyond the tip every peer mostly says "no such block"; the weights above apply below the tip (c30Build maps the rest)
	}
	return s
}

func c30DrawCase(t *rapid.T, certOnly bool) c30Case {
	c := c30Case{
		Seed:       rapid.Uint64().Draw(t, "seed"),
		L:          rapid.IntRange(8, 30).Draw(t, "L"),
		Start:      rapid.IntRange(0, 3).Draw(t, "start"),
		EmptyPct:   rapid.SampledFrom([]int{0, 30, 30, 70, 100}).Draw(t, "emptyPct"),
		Mode:       rapid.SampledFrom([]int{0, 0, 0, 0, 4, 8, 12}).Draw(t, "validateMode"),
		QuietUs:    rapid.SampledFrom([]int{100, 200, 400}).Draw(t, "quietUs"),
		TipBudget:  rapid.IntRange(0, 12).Draw(t, "tipBudget"),
		RoundEstMs: rapid.SampledFrom([]int{1, 2, 5}).Draw(t, "roundEstMs"),
	}
	if certOnly {
		c.Parallel = 0
		c.PushCerts = true
		c.L = rapid.IntRange(8, 16).Draw(t, "Lcert")
		c.Budget = rapid.IntRange(30, 160).Draw(t, "budget")
	} else {
		c.Parallel = rapid.SampledFrom([]uint64{2, 3, 4, 8, 16, 16}).Draw(t, "parallel")
		c.PushCerts = rapid.IntRange(0, 3).Draw(t, "pushCerts") == 0
		c.Budget = rapid.IntRange(40, 320).Draw(t, "budget")
	}
	switch rapid.IntRange(0, 3).Draw(t, "order") {
	case 0:
		c.PRev, c.PFwd = 80, 5
	case 1:
		c.PRev, c.PFwd = 45, 15
	case 2:
		c.PRev, c.PFwd = 0, 0
	default:
		c.PRev, c.PFwd = 10, 70
	}
	n := rapid.IntRange(2, 5).Draw(t, "npeers")
	allBad := rapid.IntRange(0, 11).Draw(t, "allBad") == 0
	anyHonest := false
	for i := 0; i < n; i++ {
		d := c30PeerDesc{
			WS:      rapid.IntRange(0, 2).Draw(t, "ws") == 0,
			Class:   rapid.SampledFrom([]int{0, 0, 1, 1, 2, 3}).Draw(t, "class"),
			SlowPct: rapid.SampledFrom([]int{0, 0, 15, 40}).Draw(t, "slowPct"),
			DupPct:  rapid.SampledFrom([]int{0, 10, 30}).Draw(t, "dupPct"),
		}
		for j := 0; j < 2; j++ {
			d.Preset[j] = rapid.IntRange(0, len(c30PresetNames)-1).Draw(t, "preset")
			d.HonestAfter[j] = rapid.SampledFrom([]int{0, 1, 1, 2, 2, 3, -1}).Draw(t, "honestAfter")
		}
		if rapid.IntRange(0, 2).Draw(t, "flips") == 0 {
			d.FlipAt = rapid.IntRange(5, 120).Draw(t, "flipAt")
		}
		if allBad {
			d.HonestAfter = [2]int{-1, -1}
		}
		if d.HonestAfter[0] >= 0 && (d.FlipAt == 0 || d.HonestAfter[1] >= 0) {
			anyHonest = true
		}
		c.Peers = append(c.Peers, d)
	}
	if !anyHonest && !allBad {
		c.Peers[0].HonestAfter = [2]int{rapid.IntRange(1, 2).Draw(t, "fixHonest"), 1}
	}
	return c
}

// ---------------------------------------------------------------- process-wide quieting (restored at the end of the test)

func c30QuietGlobals() func() {
	base := logging.Base()
	oldLevel := base.GetLevel()
	base.SetLevel(logging.Panic)
	oldDisable := deadlock.Opts.Disable
	deadlock.Opts.Disable = true // the 30 s lock-wait watchdog would os.Exit the test binary on a starved machine
	return func() {
		base.SetLevel(oldLevel)
		deadlock.Opts.Disable = oldDisable
	}
}

func c30Logger() logging.Logger {
	l := logging.NewLogger()
	l.SetOutput(io.Discard)
	l.SetLevel(logging.Panic)
	return l
}

// ---------------------------------------------------------------- one case

type c30Outcome struct {
	end        string
	releases   int
	writes     int
	nontrivial bool
}

var c30FirstFailure sync.Once

func c30RunCase(t *rapid.T, vk *vkCtx, log logging.Logger, c c30Case) {
	chain := c30BuildChain(c.Seed, c.L, func(r int, rng *c30Rng) int {
		if rng.intn(100) < c.EmptyPct {
			return 0
		}
		return 1 + rng.intn(4)
	})
	tip := chain.tip()
	rec := c30NewRec()
	inner := new(mockedLedger)
	inner.blocks = append(inner.blocks, chain.blocks[:c.Start+1]...) // set up directly on the inner mock: not a service write
	led := &c30Ledger{mockedLedger: inner, rec: rec}
	specs := make([]c30PeerSpec, len(c.Peers))
	for i, d := range c.Peers {
		specs[i] = d.spec()
	}
	ctl := c30NewCtl(chain, rec, c.Seed, specs)
	net := c30MakeNet(ctl)
	auth := &c30Auth{rec: rec, secret: chain.secret}
	cfg := config.GetDefaultLocal()
	cfg.CatchupParallelBlocks = c.Parallel
	cfg.CatchupBlockValidateMode = c.Mode
	certCh := make(chan PendingUnmatchedCertificate, 1)

	s := MakeService(log, cfg, net, led, auth, certCh, nil)
	s.roundTimeEstimate = time.Duration(c.RoundEstMs) * time.Millisecond
	s.Start()

	// ---- scheduler: release the gated responses one by one in the generated order
	quiet := time.Duration(c.QuietUs) * time.Microsecond
	srng := &c30Rng{s: c30Mix(c.Seed, 0x5c4ed)}
	out := c30Outcome{}
	start := time.Now()
	const caseDeadline = 45 * time.Second
	const idleWait = 150 * time.Millisecond
	idleStrikes := 0
	tipReleases := 0
	pushedRound := basics.Round(0)
	for {
		if time.Since(start) > caseDeadline {
			out.end = "deadline"
			break
		}
		if out.releases >= c.Budget {
			out.end = "budget"
			break
		}
		rec.settle(quiet, 10*quiet)
		if r := ctl.releaseOne(srng, c.PRev, c.PFwd); r != nil {
			out.releases++
			idleStrikes = 0
			if led.LastRound() >= tip {
				tipReleases++
				if tipReleases > c.TipBudget {
					out.end = "tip"
					break
				}
			}
			continue
		}
		// nothing pending: the service is between syncs, finished, or waiting for a pending certificate
		last := led.LastRound()
		if c.PushCerts && last < tip && pushedRound <= last {
			// "agreement" holds a certificate for the next round but not the block (fetchRound path)
			pc := PendingUnmatchedCertificate{Cert: chain.certs[last+1]}
			rec.mu.Lock()
			rec.pushed[string(protocol.Encode(&pc.Cert))] = true
			rec.mu.Unlock()
			select {
			case certCh <- pc:
				pushedRound = last + 1
				rec.add(c30Event{What: "pushcert", Round: uint64(last + 1), OK: true})
			default:
			}
		}
		if last >= tip && c.Parallel == 0 {
			out.end = "tip"
			break
		}
		select {
		case <-rec.wake:
			idleStrikes = 0
		case <-time.After(idleWait):
			idleStrikes++
		}
		if idleStrikes >= 2 {
			if last >= tip {
				out.end = "tip"
			} else {
				out.end = "stalled"
			}
			break
		}
	}

	vk.Add("ms_scheduling_"+out.end, time.Since(start).Milliseconds())

	// ---- clean stop: Stop cancels the service context and joins its workers; every gate is opened
	done := make(chan struct{})
	go func() {
		s.Stop()
		close(done)
	}()
	ctl.close()
	<-done // no wall-clock verdict here: a hang is caught by the unit timeout and reported as inconclusive
	vk.Add("ms_case_total", time.Since(start).Milliseconds())

	// ---- oracle
	if v := c30CheckLog(chain, basics.Round(c.Start), rec); v != "" {
		hist := rec.history()
		c30FirstFailure.Do(func() {
			fmt.Fprintf(os.Stderr, "C30 VIOLATION: %s\ncase: %+v\nhistory (first failing execution, schedule-dependent):\n%s\n", v, c, hist)
		})
		t.Fatalf("C30 violated: %s\ncase: %+v\nend=%s\nhistory:\n%s", v, c, out.end, hist)
	}

	// ---- classification (evidence only)
	c30Classify(vk, c, chain, ctl, rec, &out)
	vk.Case(out.nontrivial, fmt.Sprintf("%+v", c))
	if vk.WantSample(out.nontrivial) {
		vk.Sample(out.nontrivial, map[string]interface{}{"case": c, "end": out.end, "releases": out.releases, "writes": out.writes, "history_head": c30Head(rec, 60)})
	}
}

func c30Head(rec *c30Rec, n int) []string {
	rec.mu.Lock()
	defer rec.mu.Unlock()
	var out []string
	for i, e := range rec.events {
		if i >= n {
			break
		}
		out = append(out, e.String())
	}
	return out
}

// c30Classify derives the labels: for every written round, which tampered responses were delivered before the honest one
// that was written, and whether honest responses of later rounds had been delivered before that tampered one.
func c30Classify(vk *vkCtx, c c30Case, chain *c30Chain, ctl *c30Ctl, rec *c30Rec, out *c30Outcome) {
	ctl.mu.Lock()
	all := append([]*c30Req(nil), ctl.all...)
	ctl.mu.Unlock()
	rec.mu.Lock()
	writeSeq := map[basics.Round]int{}
	methods := map[string]int{}
	for _, w := range rec.writes {
		writeSeq[w.blk.Round()] = w.seq
		methods[w.method]++
	}
	nAuth, nRej := 0, 0
	for _, a := range rec.auths {
		nAuth++
		if !a.verdict {
			nRej++
		}
	}
	rec.mu.Unlock()
	out.writes = len(writeSeq)

	var dels []*c30Req
	for _, r := range all {
		if r.released && r.delivered {
			dels = append(dels, r)
			vk.Label("delivered:" + r.resp.kind.String())
			if r.dup {
				vk.Label("delivered:duplicate")
			}
			if r.resp.noop {
				vk.Label("delivered:tamper-noop")
			}
		}
	}
	sort.Slice(dels, func(i, j int) bool { return dels[i].relSeq < dels[j].relSeq })
	isHonest := func(r *c30Req) bool { return r.resp.kind == c30Honest || r.resp.noop }

	tamperFirst, ntRounds, oooRounds := 0, 0, 0
	for rnd, wseq := range writeSeq {
		var honest *c30Req
		for _, r := range dels {
			if r.round == rnd && r.relSeq < wseq && isHonest(r) {
				honest = r // the last honest delivery before the write is the one that was written
			}
		}
		if honest == nil {
			continue
		}
		laterBeforeHonest := false
		for _, q := range dels {
			if q.round > rnd && isHonest(q) && q.relSeq < honest.relSeq {
				laterBeforeHonest = true
				break
			}
		}
		if laterBeforeHonest {
			oooRounds++
		}
		roundTF, roundNT := false, false
		for _, r := range dels {
			if r.round != rnd || r.relSeq >= honest.relSeq || !r.resp.kind.tampered() || r.resp.noop {
				continue
			}
			roundTF = true
			later := false
			for _, q := range dels {
				if q.round > rnd && isHonest(q) && q.relSeq < r.relSeq {
					later = true
					break
				}
			}
			if later {
				roundNT = true
				vk.Label("nt:" + r.resp.kind.String() + "/tamper-first+later-fetched")
			} else {
				vk.Label("tf:" + r.resp.kind.String() + "/tamper-first")
			}
		}
		if roundTF {
			tamperFirst++
		}
		if roundNT {
			ntRounds++
		}
	}
	out.nontrivial = ntRounds > 0
	if c.Parallel == 0 {
		// fetchRound path: one round at a time, so "later rounds already fetched" cannot occur; tamper-first is the interesting order
		out.nontrivial = tamperFirst > 0
	}
	switch {
	case ntRounds > 0:
		vk.Label("case:tamper-first+later-fetched")
	case tamperFirst > 0:
		vk.Label("case:tamper-first-only")
	case oooRounds > 0:
		vk.Label("case:honest-out-of-order-only")
	default:
		vk.Label("case:in-order-honest")
	}
	vk.Label("end:" + out.end)
	if out.end == "deadline" {
		vk.Add("inconclusive_case_deadline", 1)
	}
	vk.Labelf("peers=%d", len(c.Peers))
	vk.Labelf("validateMode=%d", c.Mode)
	vk.Labelf("parallel=%d", c.Parallel)
	switch {
	case out.writes == 0:
		vk.Label("writes=0")
	case basics.Round(c.Start+out.writes) >= chain.tip():
		vk.Label("writes=reached-tip")
	default:
		vk.Label("writes=partial")
	}
	vk.Add("rounds_written", int64(out.writes))
	vk.Add("rounds_tamper_first", int64(tamperFirst))
	vk.Add("rounds_nontrivial", int64(ntRounds))
	vk.Add("rounds_later_fetched_first", int64(oooRounds))
	vk.Add("responses_delivered", int64(len(dels)))
	vk.Add("auth_calls", int64(nAuth))
	vk.Add("auth_rejections", int64(nRej))
	for m, n := range methods {
		vk.Add("writes_"+m, int64(n))
	}
}

// ---------------------------------------------------------------- tests

const c30Rule = "case = canonical chain of 8-30 blocks (0-4 dummy-signed txns each, linked headers, real TxnCommitments) + 2-5 mock peers (HTTP round-tripper or ws UnicastPeer, " +
	"spread over the four peer classes) whose per-request answers come from drawn profiles (honest / payset altered / header altered / consistent alteration / forged pair / " +
	"forged cert / cert of another round / pair of another round / renumbered variants / fabricated block beyond the tip / garbage / no-block / errors / duplicates / slow), " +
	"profiles flip over time; responses are released one at a time through gates, order policy drawn (later-rounds-first, uniform, in-order); " +
	"service config drawn (parallelism, validate mode 0/4/8/12, pending-certificate pushes). " +
	"Non-trivial = for some written round a tampered (decodable block+cert) response was delivered before the honest one that got written while an honest response for a later round had already been delivered; " +
	"distinct by the full drawn case (seed included)."

func c30Assume(vk *vkCtx) {
	vk.Assume("the authenticator is a mock: verdict = cert.Round==block.Round && cert.BlockDigest==block.Digest && keyed marker valid; the harness issues markers only for canonical blocks (real vote verification is C04's subject)")
	vk.Assume("the ledger is the upstream mockedLedger behind a recording wrapper; nobody but the service writes to it after setup")
	vk.Assume("CatchupBlockValidateMode bits 0/1 (which switch the two checks off by configuration) are never set")
	vk.Assume("goroutine interleavings inside the service that the response gates cannot force are explored only as the Go scheduler produces them")
}

func TestVerif_C30_Pipeline(t *testing.T) {
	vk := vkBegin(t, "C30")
	vk.Rule(c30Rule)
	c30Assume(vk)
	defer c30QuietGlobals()()
	log := c30Logger()
	rapid.Check(t, func(rt *rapid.T) {
		c := c30DrawCase(rt, false)
		c30RunCase(rt, vk, log, c)
	})
}

// fetchRound path only: catchup's own pipeline is disabled (CatchupParallelBlocks=0) and every block is requested through a
// pending certificate handed over by "agreement".
func TestVerif_C30_CertPath(t *testing.T) {
	vk := vkBegin(t, "C30")
	vk.Rule(c30Rule + " CertPath unit: CatchupParallelBlocks=0, every round is fetched by fetchRound for a certificate pushed through the pending-certificate channel.")
	c30Assume(vk)
	defer c30QuietGlobals()()
	log := c30Logger()
	rapid.Check(t, func(rt *rapid.T) {
		c := c30DrawCase(rt, true)
		c30RunCase(rt, vk, log, c)
	})
}
