package catchup

import "testing"

func TestVerif_C30_Pipeline(t *testing.T) {
	vk := vkBegin(t, "C30")
	vk.Rule("placeholder")
}
