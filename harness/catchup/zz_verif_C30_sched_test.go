package catchup

// C30 — mock peers (HTTP round-tripper level and UnicastPeer level, no sockets), the mock network handing them to the peer
// selector by class, and the gate controller that decides the response of every request and releases the responses one by
// one in a generated order.

import (
	"bytes"
	"context"
	"encoding/binary"
	"errors"
	"fmt"
	"io"
	"net/http"
	"path"
	"strconv"
	"strings"
	"sync"
	"time"

	"github.com/algorand/go-algorand/components/mocks"
	"github.com/algorand/go-algorand/data/basics"
	"github.com/algorand/go-algorand/network"
	"github.com/algorand/go-algorand/protocol"
	"github.com/algorand/go-algorand/rpcs"
)

const c30GenesisID = "c30-net"

var errC30Closed = errors.New("c30: mock peer closed")

// ---------------------------------------------------------------- peer behaviour

type c30Profile struct {
	honestAfter int            // the nth request (0-based) for a (peer, round) from which the peer answers honestly; <0: never
	weights     [c30NKinds]int // distribution of the answers before that
	slowPct     int            // chance that a response is held back by the scheduler
	dupPct      int            // chance that the previous response for this (peer, round) is replayed verbatim
}

type c30PeerSpec struct {
	ws     bool
	class  int // index into c30Classes
	prof   [2]c30Profile
	flipAt int // global request count from which prof[1] applies (0: never)
}

var c30Classes = []network.PeerOption{network.PeersConnectedOut, network.PeersPhonebookRelays, network.PeersPhonebookArchivalNodes, network.PeersConnectedIn}

func c30Pick(w *[c30NKinds]int, rng *c30Rng) c30Kind {
	tot := 0
	for _, x := range w {
		tot += x
	}
	if tot == 0 {
		return c30Honest
	}
	u := rng.intn(tot)
	for k, x := range w {
		if u < x {
			return c30Kind(k)
		}
		u -= x
	}
	return c30Honest
}

// ---------------------------------------------------------------- requests and the controller

type c30Req struct {
	id        int
	peer      int
	round     basics.Round
	nth       int
	resp      *c30Resp
	dup       bool
	slow      int // how many more times the scheduler passes over this request
	gate      chan struct{}
	aborted   bool
	released  bool
	delivered bool
	relSeq    int
}

func (r *c30Req) kindName() string {
	s := r.resp.kind.String()
	if r.resp.noop {
		s += "(noop)"
	}
	if r.dup {
		s = "dup:" + s
	}
	return s
}

type c30Ctl struct {
	mu       sync.Mutex
	chain    *c30Chain
	rec      *c30Rec
	seed     uint64
	peers    []c30PeerSpec
	pending  []*c30Req
	all      []*c30Req
	closed   bool
	arrivals int
	nth      map[[2]uint64]int
	prev     map[[2]uint64]*c30Resp
}

func c30NewCtl(ch *c30Chain, rec *c30Rec, seed uint64, peers []c30PeerSpec) *c30Ctl {
	return &c30Ctl{chain: ch, rec: rec, seed: seed, peers: peers, nth: map[[2]uint64]int{}, prev: map[[2]uint64]*c30Resp{}}
}

// arrive registers a request and decides its response; nil when the controller is closed.
func (c *c30Ctl) arrive(peer int, round basics.Round) *c30Req {
	key := [2]uint64{uint64(peer), uint64(round)}
	c.mu.Lock()
	if c.closed {
		c.mu.Unlock()
		return nil
	}
	nth := c.nth[key]
	c.nth[key]++
	c.arrivals++
	arr := c.arrivals
	prevResp := c.prev[key]
	c.mu.Unlock()

	rng := &c30Rng{s: c30Mix(c.seed, 0xa11, uint64(peer), uint64(round), uint64(nth))}
	spec := &c.peers[peer]
	prof := &spec.prof[0]
	if spec.flipAt > 0 && arr >= spec.flipAt {
		prof = &spec.prof[1]
	}
	req := &c30Req{peer: peer, round: round, nth: nth, gate: make(chan struct{})}
	switch {
	case prevResp != nil && rng.intn(100) < prof.dupPct:
		req.resp = prevResp
		req.dup = true
	case prof.honestAfter >= 0 && nth >= prof.honestAfter:
		req.resp = c30Build(c.chain, round, c30Honest, 0, rng)
	default:
		k := c30Pick(&prof.weights, rng)
		req.resp = c30Build(c.chain, round, k, rng.intn(64), rng)
	}
	if rng.intn(100) < prof.slowPct {
		req.slow = 2 + rng.intn(8)
	}

	c.mu.Lock()
	if c.closed {
		c.mu.Unlock()
		return nil
	}
	req.id = len(c.all)
	c.all = append(c.all, req)
	c.prev[key] = req.resp
	c.pending = append(c.pending, req)
	detail := ""
	if req.slow > 0 {
		detail = fmt.Sprintf("slow=%d", req.slow)
	}
	c.rec.add(c30Event{What: "arrive", Req: req.id, Peer: peer, Round: uint64(round), Nth: nth, Kind: req.kindName(), Detail: detail})
	c.mu.Unlock()
	return req
}

// cancelled: the requester's context ended while the request was waiting at the gate
func (c *c30Ctl) cancelled(r *c30Req) {
	c.mu.Lock()
	for i, p := range c.pending {
		if p == r {
			c.pending = append(c.pending[:i], c.pending[i+1:]...)
			break
		}
	}
	c.rec.add(c30Event{What: "cancel", Req: r.id, Peer: r.peer, Round: uint64(r.round), Nth: r.nth, Kind: r.kindName()})
	c.mu.Unlock()
}

// wait blocks the request at its gate. It returns false when no response is to be delivered.
func (c *c30Ctl) wait(ctx context.Context, r *c30Req) (bool, error) {
	select {
	case <-r.gate:
	case <-ctx.Done():
		c.cancelled(r)
		return false, ctx.Err()
	}
	c.mu.Lock()
	ab := r.aborted
	if !ab {
		r.delivered = true
	}
	c.mu.Unlock()
	if ab {
		return false, errC30Closed
	}
	return true, nil
}

func (c *c30Ctl) close() {
	c.mu.Lock()
	c.closed = true
	for _, r := range c.pending {
		r.aborted = true
		close(r.gate)
		c.rec.add(c30Event{What: "abort", Req: r.id, Peer: r.peer, Round: uint64(r.round), Nth: r.nth, Kind: r.kindName()})
	}
	c.pending = nil
	c.mu.Unlock()
}

// releaseOne picks a pending request by the case's order policy and opens its gate. Returns nil when nothing is pending.
func (c *c30Ctl) releaseOne(rng *c30Rng, pRev, pFwd int) *c30Req {
	c.mu.Lock()
	defer c.mu.Unlock()
	if len(c.pending) == 0 {
		return nil
	}
	var cands []int
	for i, r := range c.pending {
		if r.slow == 0 {
			cands = append(cands, i)
		}
	}
	if len(cands) == 0 {
		for i := range c.pending {
			cands = append(cands, i)
		}
	} else {
		for _, r := range c.pending {
			if r.slow > 0 {
				r.slow--
			}
		}
	}
	choice := cands[rng.intn(len(cands))]
	u := rng.intn(100)
	if u < pRev {
		for _, i := range cands {
			if c.pending[i].round > c.pending[choice].round {
				choice = i
			}
		}
	} else if u < pRev+pFwd {
		for _, i := range cands {
			if c.pending[i].round < c.pending[choice].round {
				choice = i
			}
		}
	}
	r := c.pending[choice]
	c.pending = append(c.pending[:choice], c.pending[choice+1:]...)
	r.released = true
	r.relSeq = c.rec.add(c30Event{What: "release", Req: r.id, Peer: r.peer, Round: uint64(r.round), Nth: r.nth, Kind: r.kindName()})
	close(r.gate)
	return r
}

// settle waits until nothing has happened for `quiet` (bounded by max): gives the service time to queue its next requests
// so that the scheduler has a real choice. Timing only influences which schedules are explored, never a verdict.
func (rc *c30Rec) settle(quiet, max time.Duration) {
	deadline := time.Now().Add(max)
	t := time.NewTimer(quiet)
	defer t.Stop()
	for {
		select {
		case <-rc.wake:
			if time.Now().After(deadline) {
				return
			}
			if !t.Stop() {
				select {
				case <-t.C:
				default:
				}
			}
			t.Reset(quiet)
		case <-t.C:
			return
		}
	}
}

// ---------------------------------------------------------------- HTTP peer (network.HTTPPeer) — a RoundTripper, no sockets

type c30HTTPPeer struct {
	idx    int
	addr   string
	ctl    *c30Ctl
	client *http.Client
}

func (p *c30HTTPPeer) GetAddress() string          { return p.addr }
func (p *c30HTTPPeer) GetHTTPClient() *http.Client { return p.client }

type c30RoundTripper struct{ p *c30HTTPPeer }

func c30ParseRound(p string) (basics.Round, bool) {
	// .../v1/<genesisID>/block/<round base36>
	parts := strings.Split(strings.Trim(p, "/"), "/")
	n := len(parts)
	if n < 4 || parts[n-2] != "block" || parts[n-3] != c30GenesisID || parts[n-4] != "v1" {
		return 0, false
	}
	v, err := strconv.ParseUint(path.Base(p), 36, 64)
	if err != nil {
		return 0, false
	}
	return basics.Round(v), true
}

func (rt c30RoundTripper) RoundTrip(req *http.Request) (*http.Response, error) {
	rnd, ok := c30ParseRound(req.URL.Path)
	if !ok || req.Method != "GET" {
		return c30MkHTTP(req, http.StatusBadRequest, nil, []byte("bad request"), false), nil
	}
	r := rt.p.ctl.arrive(rt.p.idx, rnd)
	if r == nil {
		return nil, errC30Closed
	}
	if ok, err := rt.p.ctl.wait(req.Context(), r); !ok {
		return nil, err
	}
	return c30RenderHTTP(req, rt.p.ctl.chain, r.resp)
}

func c30MkHTTP(req *http.Request, status int, hdr http.Header, body []byte, unknownLen bool) *http.Response {
	if hdr == nil {
		hdr = http.Header{}
	}
	resp := &http.Response{
		Status: fmt.Sprintf("%d %s", status, http.StatusText(status)), StatusCode: status,
		Proto: "HTTP/1.1", ProtoMajor: 1, ProtoMinor: 1,
		Header: hdr, Body: io.NopCloser(bytes.NewReader(body)), ContentLength: int64(len(body)), Request: req,
	}
	if unknownLen {
		resp.ContentLength = -1
	}
	return resp
}

func c30RenderHTTP(req *http.Request, ch *c30Chain, r *c30Resp) (*http.Response, error) {
	v := r.variant
	good := http.Header{"Content-Type": []string{rpcs.BlockResponseContentType}}
	if v%8 == 0 {
		good = http.Header{"Content-Type": []string{"application/algorand-block-v1"}} // still accepted ("old" type)
	}
	unknownLen := (v>>8)%3 == 0
	switch r.mode {
	case c30ModeParts:
		body := protocol.EncodeReflect(rpcs.PreEncodedBlockCert{Block: r.blk, Certificate: r.cert})
		return c30MkHTTP(req, http.StatusOK, good, body, unknownLen), nil
	case c30ModeRaw:
		return c30MkHTTP(req, http.StatusOK, good, r.raw, unknownLen), nil
	case c30ModeNoBlock:
		hdr := http.Header{}
		switch (v >> 16) % 3 {
		case 0:
			hdr.Set(rpcs.BlockResponseLatestRoundHeader, strconv.FormatUint(uint64(ch.tip()), 10))
		case 1:
			hdr.Set(rpcs.BlockResponseLatestRoundHeader, "not-a-number")
		}
		return c30MkHTTP(req, http.StatusNotFound, hdr, nil, false), nil
	default: // c30ModeError
		switch (v >> 16) % 7 {
		case 0:
			return c30MkHTTP(req, http.StatusInternalServerError, nil, []byte("internal error"), false), nil
		case 1:
			return c30MkHTTP(req, http.StatusOK, http.Header{"Content-Type": []string{"text/plain"}}, []byte("hello"), false), nil
		case 2:
			return c30MkHTTP(req, http.StatusOK, http.Header{}, []byte("hello"), false), nil
		case 3:
			return c30MkHTTP(req, http.StatusOK, http.Header{"Content-Type": []string{rpcs.BlockResponseContentType, rpcs.BlockResponseContentType}}, []byte("hello"), false), nil
		case 4:
			return nil, errors.New("c30: connection reset by mock peer")
		case 5: // claims a body larger than the fetcher's limit
			resp := c30MkHTTP(req, http.StatusOK, good, []byte("tiny"), false)
			resp.ContentLength = 11 << 20
			return resp, nil
		default:
			return c30MkHTTP(req, http.StatusServiceUnavailable, nil, []byte("busy"), true), nil
		}
	}
}

// ---------------------------------------------------------------- ws peer (network.UnicastPeer)

type c30WSPeer struct {
	idx  int
	addr string
	ctl  *c30Ctl
}

func (p *c30WSPeer) GetAddress() string { return p.addr }

func (p *c30WSPeer) Respond(ctx context.Context, reqMsg network.IncomingMessage, outMsg network.OutgoingMessage) error {
	return nil
}

func (p *c30WSPeer) Request(ctx context.Context, tag protocol.Tag, topics network.Topics) (*network.Response, error) {
	if tag != protocol.UniEnsBlockReqTag {
		return nil, fmt.Errorf("c30: unexpected tag %v", tag)
	}
	rb, found := topics.GetValue(rpcs.RoundKey)
	if !found {
		return nil, errors.New("c30: no round in request")
	}
	rv, n := binary.Uvarint(rb)
	if n <= 0 {
		return nil, errors.New("c30: bad round in request")
	}
	if dt, found := topics.GetValue(rpcs.RequestDataTypeKey); !found || string(dt) != rpcs.BlockAndCertValue {
		return nil, errors.New("c30: unexpected request type")
	}
	r := p.ctl.arrive(p.idx, basics.Round(rv))
	if r == nil {
		return nil, errC30Closed
	}
	if ok, err := p.ctl.wait(ctx, r); !ok {
		return nil, err
	}
	v := r.resp.variant
	switch r.resp.mode {
	case c30ModeParts:
		return &network.Response{Topics: network.Topics{network.MakeTopic(rpcs.BlockDataKey, r.resp.blk), network.MakeTopic(rpcs.CertDataKey, r.resp.cert)}}, nil
	case c30ModeRaw:
		half := len(r.resp.raw) / 2
		return &network.Response{Topics: network.Topics{network.MakeTopic(rpcs.BlockDataKey, r.resp.raw[:half]), network.MakeTopic(rpcs.CertDataKey, r.resp.raw[half:])}}, nil
	case c30ModeNoBlock:
		ts := network.Topics{network.MakeTopic(network.ErrorKey, []byte("no block"))}
		if (v>>16)%3 != 1 {
			ts = append(ts, network.MakeTopic(rpcs.LatestRoundKey, binary.BigEndian.AppendUint64(nil, uint64(p.ctl.chain.tip()))))
		} else {
			ts = append(ts, network.MakeTopic(rpcs.LatestRoundKey, []byte{1, 2, 3})) // malformed "latest"
		}
		return &network.Response{Topics: ts}, nil
	default:
		switch (v >> 16) % 5 {
		case 0:
			return nil, errors.New("c30: ws request failed")
		case 1:
			return &network.Response{Topics: network.Topics{network.MakeTopic(rpcs.CertDataKey, []byte{0x80})}}, nil
		case 2:
			return &network.Response{Topics: network.Topics{network.MakeTopic(rpcs.BlockDataKey, []byte{0x80})}}, nil
		case 3:
			return &network.Response{Topics: network.Topics{network.MakeTopic(network.ErrorKey, []byte("overloaded"))}}, nil
		default:
			return &network.Response{}, nil
		}
	}
}

// ---------------------------------------------------------------- mock network

type c30Net struct {
	mocks.MockNetwork
	byClass map[network.PeerOption][]network.Peer
}

func (n *c30Net) GetPeers(options ...network.PeerOption) []network.Peer {
	var out []network.Peer
	for _, o := range options {
		out = append(out, n.byClass[o]...)
	}
	return out
}

func (n *c30Net) GetGenesisID() string { return c30GenesisID }

func c30MakeNet(ctl *c30Ctl) *c30Net {
	n := &c30Net{byClass: map[network.PeerOption][]network.Peer{}}
	for i, spec := range ctl.peers {
		var p network.Peer
		if spec.ws {
			p = &c30WSPeer{idx: i, addr: fmt.Sprintf("ws-peer-%d", i), ctl: ctl}
		} else {
			hp := &c30HTTPPeer{idx: i, addr: fmt.Sprintf("http://c30-peer-%d.invalid:4160", i), ctl: ctl}
			hp.client = &http.Client{Transport: &network.HTTPPAddressBoundTransport{Addr: hp.addr, InnerTransport: c30RoundTripper{p: hp}}}
			p = hp
		}
		cl := c30Classes[spec.class]
		n.byClass[cl] = append(n.byClass[cl], p)
	}
	return n
}
