package ledger

// C13 — Consensus sees the right online stake for every round.
//
// Subjects: Ledger.LookupAgreement(r, addr), Ledger.OnlineCirculation(r, voteRnd), the top-N online accounts
// (onlineAccounts.TopOnlineAccounts, Ledger.VotersForStateProof) and Ledger.GetKnockOfflineCandidates, at every round
// the online-accounts tracker serves, under small protocol windows (balance lookback 6..12, MaxBalLookback 8..14,
// state proof interval 4..16) so that lookback, key expiry, voters retention and history trimming turn over inside
// a 40-120 block history. Oracle: the Engine C reference model at round r.

import (
	"bytes"
	"fmt"
	"os"
	"path/filepath"
	"sort"
	"strings"
	"testing"
	"time"

	"pgregory.net/rapid"

	"github.com/algorand/go-algorand/config"
	"github.com/algorand/go-algorand/crypto/merklesignature"
	"github.com/algorand/go-algorand/data/basics"
	"github.com/algorand/go-algorand/data/transactions/verify"
	"github.com/algorand/go-algorand/data/txntest"
	"github.com/algorand/go-algorand/protocol"
)

type c13Variant struct {
	name protocol.ConsensusVersion
	desc string
}

// c13RegisterProtos registers the small-window protocol variants. Must be called from the Test function before
// rapid.Check (see engcRegisterProto).
func c13RegisterProtos(tb testing.TB) []c13Variant {
	mk := func(name, desc string, f func(*config.ConsensusParams)) c13Variant {
		return c13Variant{name: engcRegisterProto(tb, protocol.ConsensusVersion(name), protocol.ConsensusFuture, f), desc: desc}
	}
	return []c13Variant{
		mk("engc-c13-a", "lookback 8, MaxBalLookback 8, MaxTxnLife 12, state proofs every 8 (voters lookback 2, 2 recovery intervals, top 3)", func(p *config.ConsensusParams) {
			p.SeedLookback, p.SeedRefreshInterval = 2, 2
			p.MaxBalLookback = 8
			p.MaxTxnLife = 12
			p.StateProofInterval, p.StateProofVotersLookback, p.StateProofMaxRecoveryIntervals, p.StateProofTopVoters = 8, 2, 2, 3
		}),
		mk("engc-c13-b", "lookback 6, MaxBalLookback 9, MaxTxnLife 20, state proofs every 16 (voters lookback 4, 10 recovery intervals, top 1024)", func(p *config.ConsensusParams) {
			p.SeedLookback, p.SeedRefreshInterval = 1, 3
			p.MaxBalLookback = 9
			p.MaxTxnLife = 20
			p.StateProofInterval, p.StateProofVotersLookback, p.StateProofMaxRecoveryIntervals = 16, 4, 10
		}),
		mk("engc-c13-c", "lookback 12, MaxBalLookback 14, state proofs every 4 (voters lookback 1, 1 recovery interval: voters retention shorter than MaxBalLookback, top 2)", func(p *config.ConsensusParams) {
			p.SeedLookback, p.SeedRefreshInterval = 2, 3
			p.MaxBalLookback = 14
			p.StateProofInterval, p.StateProofVotersLookback, p.StateProofMaxRecoveryIntervals, p.StateProofTopVoters = 4, 1, 1, 2
		}),
	}
}

type c13Stats struct {
	lookups, circs, tops, voters, knocks int
	historyFlapped                       int // LookupAgreement at a round older than the tracker DB round for an account that changed online status >= 2 times
	history                              int // any query at a round older than the tracker DB round
	expiryBetween                        int // circulation query with an online account whose keys expire in [r, voteRnd)
	expiredNonZero                       int // circulation query with non-zero expired stake
	belowWindow                          int // answered although below the guaranteed window
	refused                              int
	afterReload                          int
	topTruncated                         int // top-N query where more than N accounts qualified
	keyregEligible                       int // LookupAgreement comparisons (all fields) of an account that became IncentiveEligible through a keyreg in the history
}

type c13Run struct {
	w      *engcWorld
	vk     *vkCtx
	p      config.ConsensusParams
	bl     basics.Round // agreement balance lookback
	flips  map[basics.Address]int
	genOnl []basics.Address        // accounts Online in genesis
	genIE  map[basics.Address]bool // genesis accounts allocated with IncentiveEligible = true (see maskGenesisIE)
	st     c13Stats
}

func (c *c13Run) failf(t *rapid.T, format string, args ...any) {
	h := c.w.History
	if len(h) > 70 {
		h = h[len(h)-70:]
	}
	t.Fatalf("C13 VIOLATION: %s\n--- history (tail) ---\n%s", fmt.Sprintf(format, args...), strings.Join(h, "\n"))
}

// ---------------------------------------------------------------------------------------------------------------
// model side (written from the definitions; shares no code with the trackers)

// stake: balance including the rewards pending at the snapshot's level
func c13Stake(s *engcSnap, addr basics.Address) uint64 {
	d := s.Acct(addr).Data
	return d.MicroAlgos.Raw + engcPendingRewards(d.Status, d.MicroAlgos.Raw, d.RewardsBase, s.RewardsLevel, s.Proto.RewardUnit)
}

// what agreement must see for addr at the snapshot's round
func c13WantOAD(s *engcSnap, addr basics.Address) basics.OnlineAccountData {
	d := s.Acct(addr).Data
	if d.Status != basics.Online {
		return basics.OnlineAccountData{}
	}
	return basics.OnlineAccountData{
		MicroAlgosWithRewards: basics.MicroAlgos{Raw: c13Stake(s, addr)},
		VotingData:            d.VotingData,
		IncentiveEligible:     d.IncentiveEligible,
		LastProposed:          d.LastProposed,
		LastHeartbeat:         d.LastHeartbeat,
	}
}

func c13OnlineTotal(s *engcSnap) uint64 {
	var sum uint64
	for addr, a := range s.Accts {
		if a.Data.Status == basics.Online {
			sum += c13Stake(s, addr)
		}
	}
	return sum
}

// stake of accounts that are Online at the snapshot's round but whose keys are no longer valid in voteRnd
func c13Expired(s *engcSnap, voteRnd basics.Round) (sum uint64, between bool) {
	for addr, a := range s.Accts {
		if a.Data.Status == basics.Online && a.Data.VoteLastValid != 0 && a.Data.VoteLastValid < voteRnd {
			sum += c13Stake(s, addr)
			if a.Data.VoteLastValid >= s.Round {
				between = true
			}
		}
	}
	return
}

func c13Circulation(s *engcSnap, voteRnd basics.Round) uint64 {
	total := c13OnlineTotal(s)
	if s.Proto.ExcludeExpiredCirculation && s.Round != 0 {
		exp, _ := c13Expired(s, voteRnd)
		total -= exp
	}
	return total
}

type c13TopEntry struct {
	addr   basics.Address
	norm   uint64
	weight uint64 // stake with rewards
}

// c13Top: accounts Online at the snapshot's round whose keys are valid in voteRnd, by decreasing normalised balance,
// ties by decreasing address.
func c13Top(s *engcSnap, voteRnd basics.Round, n uint64) (top []c13TopEntry, qualified int) {
	for addr, a := range s.Accts {
		d := a.Data
		if d.Status != basics.Online || !(d.VoteFirstValid <= voteRnd && voteRnd <= d.VoteLastValid) {
			continue
		}
		// balance normalised to rewards level 0: microAlgos * unit / (rewardsBase + unit), in 128 bit
		norm, _ := basics.Muldiv(d.MicroAlgos.Raw, s.Proto.RewardUnit, d.RewardsBase+s.Proto.RewardUnit)
		if norm == 0 {
			continue
		}
		top = append(top, c13TopEntry{addr: addr, norm: norm, weight: c13Stake(s, addr)})
	}
	sort.Slice(top, func(i, j int) bool {
		if top[i].norm != top[j].norm {
			return top[i].norm > top[j].norm
		}
		return bytes.Compare(top[i].addr[:], top[j].addr[:]) > 0
	})
	qualified = len(top)
	if uint64(len(top)) > n {
		top = top[:n]
	}
	return
}

// ---------------------------------------------------------------------------------------------------------------
// served rule (schedule independent)

// lo(d): the oldest round the online tracker must still answer when the tracker DB is at round d
func (c *c13Run) lo(d basics.Round) basics.Round {
	return (d + 1).SubSaturate(basics.Round(c.p.MaxBalLookback))
}

func (c *c13Run) served(r, d1, latest basics.Round) (mustErr, mustOK bool) {
	if r > latest {
		return true, false
	}
	return false, r >= c.lo(d1)
}

func (c *c13Run) verdict(t *rapid.T, n *engcNode, what string, r, d0 basics.Round, err error) bool {
	latest := c.w.Model.Latest()
	d1 := n.DBRound()
	mustErr, mustOK := c.served(r, d1, latest)
	if mustErr && err == nil {
		c.failf(t, "%s: %s answered although round %d is beyond latest %d", n.Name, what, r, latest)
	}
	if mustOK && err != nil {
		c.failf(t, "%s: %s failed although round %d is within MaxBalLookback %d of the tracker round (db %d..%d, latest %d): %v", n.Name, what, r, c.p.MaxBalLookback, d0, d1, latest, err)
	}
	if err != nil {
		c.st.refused++
		c.vk.Label("q:refused-round")
		return false
	}
	if !mustOK {
		c.st.belowWindow++
		c.vk.Label("q:answered-below-guaranteed-window")
	}
	if r < d0 {
		c.st.history++
		c.vk.Label("q:history-round")
	} else {
		c.vk.Label("q:in-memory-round")
	}
	if n.Reloads+n.Reopens > 0 {
		c.st.afterReload++
	}
	return true
}

// maskGenesisIE: domain restriction (see notes/C13.md "out of domain"). The engine's genesis allocates some Online accounts
// with IncentiveEligible = true; no genesis generator of the repository does that (the flag only arises from a keyreg
// that pays the fee, i.e. from a block). The tracker DB initialisation builds the round-0 row of the onlineaccounts table
// from the voting data, balance and rewards base only, so until such an account is touched by a block LookupAgreement
// reports IncentiveEligible = false for it. For exactly those (round, account) pairs - eligible in the genesis
// allocation and not touched by any block in 1..round - the IncentiveEligible field is not compared; every other field
// is. Returns true when the pair was masked.
func (c *c13Run) maskGenesisIE(r basics.Round, addr basics.Address, got basics.OnlineAccountData, want *basics.OnlineAccountData) bool {
	if !c.genIE[addr] || !want.IncentiveEligible || got.IncentiveEligible {
		return false
	}
	if c.w.Model.LastChange(0, r, func(ch *engcChanges) bool { return ch.Accts[addr] }) != 0 {
		return false
	}
	want.IncentiveEligible = false
	c.vk.Excluded("genesis-eligible-out-of-domain")
	return true
}

func (c *c13Run) lookup(t *rapid.T, n *engcNode, r basics.Round, addr basics.Address) {
	d0 := n.DBRound()
	got, err := n.L.LookupAgreement(r, addr)
	c.st.lookups++
	if !c.verdict(t, n, fmt.Sprintf("LookupAgreement(%d, %s)", r, engcShort(addr)), r, d0, err) {
		return
	}
	s := c.w.Model.At(r)
	want := c13WantOAD(s, addr)
	masked := c.maskGenesisIE(r, addr, got, &want)
	if want.IncentiveEligible && !masked {
		if c.genIE[addr] {
			c.vk.Label("q:eligible-flag-compared:genesis-eligible-account-touched-by-a-block")
		} else {
			c.st.keyregEligible++
			c.vk.Label("q:eligible-flag-compared:became-eligible-through-keyreg")
		}
	}
	if got != want {
		c.failf(t, "%s: LookupAgreement(%d, %v) = %+v; the history implies %+v (account %+v, rewards level %d, dbRound %d, latest %d)", n.Name, r, addr, got, want,
			s.Acct(addr).Data, s.RewardsLevel, d0, c.w.Model.Latest())
	}
	if r < d0 && c.flips[addr] >= 2 {
		c.st.historyFlapped++
		c.vk.Label("q:history-round-of-flapping-account")
	}
	if want.MicroAlgosWithRewards.Raw != 0 {
		c.vk.Label("q:account-online-at-round")
	}
}

func (c *c13Run) circulation(t *rapid.T, n *engcNode, r, voteRnd basics.Round) {
	d0 := n.DBRound()
	got, err := n.L.OnlineCirculation(r, voteRnd)
	c.st.circs++
	if !c.verdict(t, n, fmt.Sprintf("OnlineCirculation(%d, %d)", r, voteRnd), r, d0, err) {
		return
	}
	s := c.w.Model.At(r)
	want := c13Circulation(s, voteRnd)
	if got.Raw != want {
		exp, _ := c13Expired(s, voteRnd)
		c.failf(t, "%s: OnlineCirculation(%d, voteRnd %d) = %d; the history implies %d (online total %d, expired by voteRnd %d; dbRound %d, latest %d)", n.Name, r, voteRnd,
			got.Raw, want, c13OnlineTotal(s), exp, d0, c.w.Model.Latest())
	}
	if r != 0 {
		exp, between := c13Expired(s, voteRnd)
		if exp > 0 {
			c.st.expiredNonZero++
			c.vk.Label("q:circulation-with-expired-stake")
		}
		if between {
			c.st.expiryBetween++
			c.vk.Label("q:expiry-between-round-and-voteRnd")
		}
	}
}

// top: onlineAccounts.TopOnlineAccounts (what the state proof voters are built from), only asserted inside the
// guaranteed window.
func (c *c13Run) top(t *rapid.T, n *engcNode, r, voteRnd basics.Round, k uint64) {
	latest := c.w.Model.Latest()
	d0 := n.DBRound()
	if r > latest || r < c.lo(d0) {
		return
	}
	s := c.w.Model.At(r)
	got, total, err := n.L.acctsOnline.TopOnlineAccounts(r, voteRnd, k, &c.p, s.RewardsLevel)
	c.st.tops++
	what := fmt.Sprintf("TopOnlineAccounts(%d, voteRnd %d, n %d)", r, voteRnd, k)
	if r < c.lo(n.DBRound()) {
		return // a commit moved the window during the call
	}
	if err != nil {
		c.failf(t, "%s: %s failed inside the served window (dbRound %d, latest %d): %v", n.Name, what, d0, latest, err)
	}
	want, qualified := c13Top(s, voteRnd, k)
	if uint64(qualified) > k {
		c.st.topTruncated++
		c.vk.Label("q:top-n-truncates")
	}
	if r < d0 {
		c.st.history++
		c.vk.Label("q:top-history-round")
	}
	render := func() string {
		var sb strings.Builder
		sb.WriteString("got")
		for _, g := range got {
			fmt.Fprintf(&sb, " %s:%d", engcShort(g.Address), g.NormalizedOnlineBalance)
		}
		sb.WriteString("; history implies")
		for _, w := range want {
			fmt.Fprintf(&sb, " %s:%d", engcShort(w.addr), w.norm)
		}
		return sb.String()
	}
	if len(got) != len(want) {
		c.failf(t, "%s: %s returned %d accounts, the history implies %d: %s (dbRound %d)", n.Name, what, len(got), len(want), render(), d0)
	}
	for i := range got {
		d := s.Acct(want[i].addr).Data
		if got[i].Address != want[i].addr || got[i].NormalizedOnlineBalance != want[i].norm || got[i].MicroAlgos != d.MicroAlgos || got[i].RewardsBase != d.RewardsBase ||
			got[i].VoteFirstValid != d.VoteFirstValid || got[i].VoteLastValid != d.VoteLastValid || got[i].StateProofID != d.StateProofID {
			c.failf(t, "%s: %s position %d is %+v, the history implies %v %+v: %s (dbRound %d)", n.Name, what, i, *got[i], want[i].addr, d, render(), d0)
		}
	}
	// total: the online stake of round r that can still vote in voteRnd
	wantTotal := c13OnlineTotal(s)
	exp, _ := c13Expired(s, voteRnd)
	if c.p.ExcludeExpiredCirculation {
		wantTotal -= exp
	} else {
		return // older rule (subtracts what it found invalid): not used by the variants
	}
	if total.Raw != wantTotal {
		c.failf(t, "%s: %s total online stake %d, the history implies %d (dbRound %d)", n.Name, what, total.Raw, wantTotal, d0)
	}
}

// votersRounds: rounds X <= latest at which the voters tracker snapshots the top online accounts
func (c *c13Run) votersRounds() []basics.Round {
	var out []basics.Round
	iv, lb := c.p.StateProofInterval, c.p.StateProofVotersLookback
	if iv == 0 {
		return nil
	}
	for x := basics.Round(1); x <= c.w.Model.Latest(); x++ {
		if (uint64(x)+lb)%iv == 0 {
			out = append(out, x)
		}
	}
	return out
}

// settle waits until every voters tree under construction is finished (they are built by background goroutines whose
// completion GetKnockOfflineCandidates - and therefore block generation - does not wait for): keeps cases deterministic.
func (c *c13Run) settle() {
	for _, n := range c.w.Nodes() {
		for _, x := range c.votersRounds() {
			_, _ = n.L.VotersForStateProof(x)
		}
	}
}

// voters: Ledger.VotersForStateProof(X) for every voters round; must exist for X beyond the tracker DB round; whatever
// is returned must be the model's top list of round X for voting round X+lookback+interval.
func (c *c13Run) voters(t *rapid.T, n *engcNode) {
	for _, x := range c.votersRounds() {
		d0 := n.DBRound()
		tr, err := n.L.VotersForStateProof(x)
		c.st.voters++
		if err != nil {
			c.failf(t, "%s: VotersForStateProof(%d) failed: %v (dbRound %d, latest %d)", n.Name, x, err, d0, c.w.Model.Latest())
		}
		if tr == nil {
			if x > n.DBRound() {
				c.failf(t, "%s: VotersForStateProof(%d) has no voters although the round is newer than the tracker DB round %d", n.Name, x, n.DBRound())
			}
			c.vk.Label("voters:dropped")
			continue
		}
		c.vk.Label("voters:present")
		s := c.w.Model.At(x)
		voteRnd := x + basics.Round(c.p.StateProofVotersLookback+c.p.StateProofInterval)
		want, qualified := c13Top(s, voteRnd, c.p.StateProofTopVoters)
		if uint64(qualified) > c.p.StateProofTopVoters {
			c.vk.Label("voters:top-n-truncates")
		}
		if len(tr.Participants) != len(want) || len(tr.AddrToPos) != len(want) {
			c.failf(t, "%s: VotersForStateProof(%d) has %d participants (%d positions), the history implies %d (dbRound %d)", n.Name, x, len(tr.Participants), len(tr.AddrToPos), len(want), d0)
		}
		for i, w := range want {
			pos, ok := tr.AddrToPos[w.addr]
			if !ok || pos != uint64(i) {
				c.failf(t, "%s: VotersForStateProof(%d): %v is at position %d (present %v), the history implies position %d (dbRound %d)", n.Name, x, w.addr, pos, ok, i, d0)
			}
			p := tr.Participants[i]
			wantPK := s.Acct(w.addr).Data.StateProofID
			if wantPK.IsEmpty() {
				copy(wantPK[:], merklesignature.NoKeysCommitment[:])
			}
			if p.Weight != w.weight || p.PK.Commitment != wantPK {
				c.failf(t, "%s: VotersForStateProof(%d) participant %d (%v): weight %d key %x, the history implies weight %d key %x (dbRound %d)", n.Name, x, i, w.addr, p.Weight,
					p.PK.Commitment[:8], w.weight, wantPK[:8], d0)
			}
		}
		wantTotal := c13OnlineTotal(s)
		if c.p.ExcludeExpiredCirculation {
			exp, _ := c13Expired(s, voteRnd)
			wantTotal -= exp
			if tr.TotalWeight.Raw != wantTotal {
				c.failf(t, "%s: VotersForStateProof(%d) total weight %d, the history implies %d (dbRound %d)", n.Name, x, tr.TotalWeight.Raw, wantTotal, d0)
			}
		}
	}
}

// knock: Ledger.GetKnockOfflineCandidates(r): every returned account must carry what LookupAgreement(r) must return
// and be online at r; in the early-rounds case the set is exactly the genesis-online accounts still online at r.
func (c *c13Run) knock(t *rapid.T, n *engcNode, r basics.Round) {
	latest := c.w.Model.Latest()
	if r > latest || r < c.lo(n.DBRound()) {
		return
	}
	got, err := n.L.GetKnockOfflineCandidates(r, c.p)
	c.st.knocks++
	if r < c.lo(n.DBRound()) {
		return
	}
	if err != nil {
		c.failf(t, "%s: GetKnockOfflineCandidates(%d) failed: %v", n.Name, r, err)
	}
	s := c.w.Model.At(r)
	for addr, d := range got {
		want := c13WantOAD(s, addr)
		c.maskGenesisIE(r, addr, d, &want)
		if d != want || want.MicroAlgosWithRewards.Raw == 0 {
			c.failf(t, "%s: GetKnockOfflineCandidates(%d)[%v] = %+v; the history implies %+v (dbRound %d)", n.Name, r, addr, d, want, n.DBRound())
		}
	}
	if r < basics.Round(c.p.StateProofInterval).SubSaturate(basics.Round(c.p.StateProofVotersLookback)) {
		for _, addr := range c.genOnl {
			if _, ok := got[addr]; !ok && c13WantOAD(s, addr).MicroAlgosWithRewards.Raw != 0 {
				c.failf(t, "%s: GetKnockOfflineCandidates(%d) misses genesis-online account %v which is online at that round", n.Name, r, addr)
			}
		}
		c.vk.Label("knock:genesis-case")
		return
	}
	// the newest voters round <= r that certainly is tracked (newer than the DB round): its members that are online at r
	var xs basics.Round
	for _, x := range c.votersRounds() {
		if x <= r {
			xs = x
		}
	}
	if xs > n.DBRound() {
		top, _ := c13Top(c.w.Model.At(xs), xs+basics.Round(c.p.StateProofVotersLookback+c.p.StateProofInterval), c.p.StateProofTopVoters)
		wantN := 0
		for _, e := range top {
			if c13WantOAD(s, e.addr).MicroAlgosWithRewards.Raw != 0 {
				wantN++
				if _, ok := got[e.addr]; !ok {
					c.failf(t, "%s: GetKnockOfflineCandidates(%d) misses %v, a top voter of round %d that is online at %d", n.Name, r, e.addr, xs, r)
				}
			}
		}
		if wantN != len(got) {
			c.failf(t, "%s: GetKnockOfflineCandidates(%d) returns %d accounts, the top voters of round %d online at %d are %d", n.Name, r, len(got), xs, r, wantN)
		}
		c.vk.Label("knock:voters-case-exact")
	} else {
		c.vk.Label("knock:voters-case-subset-only")
	}
}

// voteRounds: interesting voteRnd values for a circulation / top query at round r
func (c *c13Run) voteRounds(s *engcSnap) []basics.Round {
	r := s.Round
	out := []basics.Round{r + c.bl, r, r + 1, r + 2*c.bl, c.w.Model.Latest() + 1}
	seen := map[basics.Round]bool{}
	for _, a := range s.Accts {
		if a.Data.Status == basics.Online && a.Data.VoteLastValid < 1000 && !seen[a.Data.VoteLastValid] {
			seen[a.Data.VoteLastValid] = true
			out = append(out, a.Data.VoteLastValid, a.Data.VoteLastValid+1)
		}
	}
	sort.Slice(out, func(i, j int) bool { return out[i] < out[j] })
	return out
}

func (c *c13Run) roundRange(n *engcNode) (lo, hi basics.Round) {
	return c.lo(n.DBRound()).SubSaturate(2), c.w.Model.Latest() + 1
}

// sample asks k drawn questions of each kind on every node.
func (c *c13Run) sample(t *rapid.T, k int) {
	addrs := c.w.Addrs()
	m := c.w.Model
	for _, n := range c.w.Nodes() {
		lo, hi := c.roundRange(n)
		d := n.DBRound()
		pickRound := func(name string) basics.Round {
			switch rapid.IntRange(0, 9).Draw(t, name+"Class") {
			case 0:
				return c.lo(d) // the oldest round that must be served
			case 1:
				return c.lo(d).SubSaturate(1)
			case 2:
				return m.Latest()
			case 3:
				return m.Latest() + 1
			case 4:
				return d
			case 5:
				return (m.Latest() + 1).SubSaturate(c.bl) // what agreement asks for when voting on latest+1
			}
			return basics.Round(rapid.Uint64Range(uint64(lo), uint64(hi)).Draw(t, name))
		}
		for i := 0; i < k; i++ {
			c.lookup(t, n, pickRound("lookupRound"), addrs[rapid.IntRange(0, len(addrs)-1).Draw(t, "addr")])
		}
		for i := 0; i < (k+2)/3; i++ {
			r := pickRound("circRound")
			vr := r + c.bl
			if r <= m.Latest() {
				vs := c.voteRounds(m.At(r))
				vr = vs[rapid.IntRange(0, len(vs)-1).Draw(t, "voteRnd")]
			}
			c.circulation(t, n, r, vr)
			if i%2 == 0 {
				c.top(t, n, r, vr, rapid.SampledFrom([]uint64{1, 2, 3, 5, 1024}).Draw(t, "topN"))
			}
		}
		c.knock(t, n, pickRound("knockRound"))
	}
}

// sweep asks everything: every address at every round of the window (and two rounds around it), circulation and top
// for every interesting voteRnd, voters, knock-offline candidates.
func (c *c13Run) sweep(t *rapid.T) {
	addrs := c.w.Addrs()
	m := c.w.Model
	for _, n := range c.w.Nodes() {
		lo, hi := c.roundRange(n)
		for r := lo; r <= hi; r++ {
			for _, a := range addrs {
				c.lookup(t, n, r, a)
			}
			vrs := []basics.Round{r + c.bl}
			if r <= m.Latest() {
				vrs = c.voteRounds(m.At(r))
			}
			for i, vr := range vrs {
				c.circulation(t, n, r, vr)
				if i%3 == 0 {
					c.top(t, n, r, vr, []uint64{1024, 2, 1, 3}[(int(r)+i)%4])
				}
			}
			c.knock(t, n, r)
		}
		c.voters(t, n)
	}
	c.vk.Label("full-sweep")
}

func c13RunCase(tb *testing.T, t *rapid.T, vk *vkCtx, variants []c13Variant) {
	v := variants[rapid.IntRange(0, len(variants)-1).Draw(t, "protoVariant")]
	shadow := rapid.Bool().Draw(t, "shadow")
	w := engcNewWorld(tb, t, engcOpts{Label: vk.Label, Proto: v.name, Profile: "status", Shadow: shadow, MaxGroupsPerBlock: 5})
	defer w.Close()
	c := &c13Run{w: w, vk: vk, p: w.Proto, flips: map[basics.Address]int{}}
	c.bl = basics.Round(2 * c.p.SeedRefreshInterval * c.p.SeedLookback)
	g := w.Model.At(0)
	c.genIE = map[basics.Address]bool{}
	for _, a := range g.Addrs() {
		if g.Acct(a).Data.Status == basics.Online {
			c.genOnl = append(c.genOnl, a)
			c.genIE[a] = g.Acct(a).Data.IncentiveEligible
		}
	}
	w.OnBlock(func(info *engcBlockInfo) {
		for addr := range info.Post.Changes.Accts {
			if (info.Pre.Acct(addr).Data.Status == basics.Online) != (info.Post.Acct(addr).Data.Status == basics.Online) {
				c.flips[addr]++
			}
		}
		c.settle()
	})
	opFail := func(t *rapid.T, what string, err error) {
		if err != nil {
			c.failf(t, "%s failed: %v", what, err)
		}
	}
	pickNode := func(t *rapid.T) *engcNode {
		ns := w.Nodes()
		return ns[rapid.IntRange(0, len(ns)-1).Draw(t, "node")]
	}
	block := func(t *rapid.T) { w.StepBlock(t, -1) }
	// preamble: get past the first lookback window
	for i, k := 0, rapid.IntRange(2, int(c.p.MaxBalLookback)+4).Draw(t, "preamble"); i < k; i++ {
		w.StepBlock(t, -1)
	}
	actions := map[string]func(*rapid.T){
		"Block1": block, "Block2": block, "Block3": block, "Block4": block,
		"Blocks": func(t *rapid.T) {
			for i, k := 0, rapid.IntRange(2, 6).Draw(t, "burst"); i < k; i++ {
				w.StepBlock(t, -1)
			}
		},
		"EmptyBlocks": func(t *rapid.T) { // lets keys expire and windows slide without touching accounts
			for i, k := 0, rapid.IntRange(1, 5).Draw(t, "burst"); i < k; i++ {
				w.StepBlock(t, 0)
			}
		},
		"Commit":  func(t *rapid.T) { pickNode(t).OpCommit(); vk.Label("op:commit") },
		"Commit2": func(t *rapid.T) { pickNode(t).OpCommit(); vk.Label("op:commit") },
		"Park": func(t *rapid.T) {
			n := pickNode(t)
			n.OpSetParked(!n.parked)
			vk.Label("op:toggle-park")
		},
		"Reload": func(t *rapid.T) {
			n := pickNode(t)
			switch {
			case !n.ReloadBudgetLeft():
				n.OpCommit()
				vk.Label("op:commit")
			case n.OnDisk && rapid.Bool().Draw(t, "reopen"):
				opFail(t, "close+OpenLedger", n.OpReopen())
				vk.Label("op:reopen")
			default:
				opFail(t, "reloadLedger", n.OpReload())
				vk.Label("op:reload")
			}
			c.settle()
		},
		"CommitReload": func(t *rapid.T) { // history tables are trimmed by the commit; the reload then has only the DB
			n := pickNode(t)
			n.OpCommit()
			vk.Label("op:commit")
			if n.ReloadBudgetLeft() {
				opFail(t, "reloadLedger", n.OpReload())
				vk.Label("op:reload")
			}
			c.settle()
		},
		"Sweep": func(t *rapid.T) {
			if rapid.IntRange(0, 5).Draw(t, "doSweep") == 0 {
				c.sweep(t)
			} else {
				c.sample(t, 30)
			}
		},
		"": func(t *rapid.T) { c.sample(t, 8) },
	}
	t.Repeat(actions)
	for i := 0; i < 2; i++ {
		w.StepBlock(t, -1)
	}
	c.sample(t, 12)
	c.sweep(t)

	st := c.st
	nontrivial := st.historyFlapped > 0 || st.expiryBetween > 0
	vk.Case(nontrivial, strings.Join(w.History, "|"))
	vk.Labelf("proto:%s", v.name)
	vk.Labelf("history-blocks:%s", c13Bucket(int(w.Model.Latest())))
	vk.Labelf("shadow:%v", shadow)
	vk.Labelf("node-disk:%v", w.Node.OnDisk)
	if w.Node.DBRound() > basics.Round(c.p.MaxBalLookback) {
		vk.Label("case:history-trimmed-at-least-once")
	}
	if st.historyFlapped > 0 {
		vk.Label("case:history-round-of-flapping-account")
	}
	if st.expiryBetween > 0 {
		vk.Label("case:expiry-between-round-and-voteRnd")
	}
	if st.afterReload > 0 {
		vk.Label("case:queried-after-reload")
	}
	if st.belowWindow > 0 {
		vk.Label("case:answered-below-guaranteed-window")
	}
	maxFlips := 0
	for _, f := range c.flips {
		if f > maxFlips {
			maxFlips = f
		}
	}
	vk.Labelf("max-status-flips:%d", min(maxFlips, 6))
	vk.Add("lookups", int64(st.lookups))
	vk.Add("circulation_queries", int64(st.circs))
	vk.Add("top_queries", int64(st.tops))
	vk.Add("voters_queries", int64(st.voters))
	vk.Add("knock_queries", int64(st.knocks))
	vk.Add("queries_history_round", int64(st.history))
	vk.Add("queries_refused", int64(st.refused))
	vk.Add("lookups_of_accounts_eligible_through_keyreg", int64(st.keyregEligible))
	if st.keyregEligible > 0 {
		vk.Label("case:compared-account-eligible-through-keyreg")
	}
	if vk.WantSample(nontrivial) {
		vk.Sample(nontrivial, map[string]any{"proto": v.desc, "history": w.History, "lookups": st.lookups, "circulation": st.circs, "top": st.tops,
			"historyFlapped": st.historyFlapped, "expiryBetween": st.expiryBetween, "expiredNonZero": st.expiredNonZero, "flips": maxFlips})
	}
}

func c13Bucket(n int) string {
	switch {
	case n < 20:
		return "<20"
	case n < 40:
		return "20-39"
	case n < 80:
		return "40-79"
	case n < 120:
		return "80-119"
	}
	return ">=120"
}

const c13Rule = "rapid state machine over the real ledger under three registered small-window protocol variants (ConsensusFuture with balance lookback 6/8/12, MaxBalLookback 8/9/14, " +
	"state-proof interval 4/8/16, top voters 2/3/1024): blocks built by the real evaluator from a keyreg/close/payment heavy mix (keys valid for 1..50 rounds or forever, genesis keys expiring at 10/25/60; " +
	"expired and absent accounts knocked offline by block headers; rewards level moving), interleaved with forced commits, park, reload, reopen, commit+reload, optionally a shadow node; " +
	"LookupAgreement for every address, OnlineCirculation and TopOnlineAccounts for voteRnd in {r+lookback, r, r+1, every VoteLastValid and +1, latest+1}, VotersForStateProof, GetKnockOfflineCandidates, " +
	"at every round of [dbRound+1-MaxBalLookback-2, latest+1], compared with an independent fold of the block deltas. " +
	"Non-trivial: a LookupAgreement at a round older than the tracker DB round for an account whose online status flipped at least twice, or a circulation query with a key expiry in [r, voteRnd). " +
	"Distinct: by the block/operation trace."

func TestVerif_C13_OnlineStake(t *testing.T) {
	vk := vkBegin(t, "C13")
	vk.Rule(c13Rule)
	vk.Assume("the StateDelta returned by Ledger.Validate describes the block correctly; unsigned transactions with a mocked signature cache; seeds are not verified (agreement's job)")
	vk.Assume("domain restriction: a genesis allocation never carries IncentiveEligible = true (no generator sets it; the flag arises from a keyreg paying the fee); for the engine's genesis-eligible accounts the flag is not compared until a block touches them")
	variants := c13RegisterProtos(t) // before any ledger exists
	rapid.Check(t, func(rt *rapid.T) { c13RunCase(t, rt, vk, variants) })
}

// ---------------------------------------------------------------------------------------------------------------
// LargeFlush: one tracker commit that covers more than 500 rounds.
//
// A running node cannot hold that many rounds unflushed by parking the flush timer: every block's delta contains at
// least the rewards pool account (StartEvaluator always Puts it), so after 128 rounds pendingDeltasFlushThreshold
// forces a commit whatever lastFlushTime says (scheduleCommit / produceCommittingTask; engine gotcha 1).
// Commits of up to 1000 rounds (initializeCachesRoundFlushInterval) happen in trackerRegistry.replay: a node whose
// tracker DB is behind its block DB - the documented recovery of an archival node after its tracker database was
// removed - replays the blocks from the tracker round and flushes once at the end (latest - MaxAcctLookback rounds
// in ONE commit). That is the path used here: an extra on-disk archival ledger ("big") is fed the same blocks as the
// engine's primary node (which flushes every few dozen rounds and is the differential reference, both compared with
// the model), closed, its tracker.sqlite files removed, and reopened.

type c13Big struct {
	node   *engcNode // only the exported fields are used (Name, L, Cfg, OnDisk, Reloads)
	prefix string
	w      *engcWorld
}

func (b *c13Big) open() error {
	l, err := OpenLedger(engcLogger(), b.prefix, false, b.w.Genesis, b.node.Cfg)
	if err != nil {
		return err
	}
	l.verifiedTxnCache = verify.GetMockedCache(true)
	b.node.L = l
	b.quiesce()
	return nil
}

func (b *c13Big) quiesce() {
	l := b.node.L
	latest := l.Latest()
	l.WaitForCommit(latest)
	<-l.Wait(latest)
	l.trackerMu.Lock()
	l.trackerMu.Unlock() //nolint:staticcheck
	l.trackers.waitAccountsWriting()
}

// commit: what blockQueue.syncer does after persisting a block, with the flush timer expired
func (b *c13Big) commit() {
	b.quiesce()
	l := b.node.L
	l.trackers.mu.Lock()
	l.trackers.lastFlushTime = time.Time{}
	l.trackers.mu.Unlock()
	l.notifyCommit(l.Latest())
	l.trackers.waitAccountsWriting()
	b.quiesce()
}

func (b *c13Big) close() {
	if b.node.L != nil {
		b.node.L.Close()
		b.node.L = nil
	}
}

func c13LargeFlushCase(tb *testing.T, t *rapid.T, vk *vkCtx, protos []protocol.ConsensusVersion) {
	cv := protos[rapid.IntRange(0, len(protos)-1).Draw(t, "proto")]
	w := engcNewWorld(tb, t, engcOpts{Label: vk.Label, Proto: cv, Profile: "status"})
	defer w.Close()
	c := &c13Run{w: w, vk: vk, p: w.Proto, flips: map[basics.Address]int{}, genIE: map[basics.Address]bool{}}
	c.bl = basics.Round(2 * c.p.SeedRefreshInterval * c.p.SeedLookback)
	g := w.Model.At(0)
	for _, a := range g.Addrs() {
		if g.Acct(a).Data.Status == basics.Online {
			c.genOnl = append(c.genOnl, a)
			c.genIE[a] = g.Acct(a).Data.IncentiveEligible
		}
	}

	dir, err := os.MkdirTemp("", "c13big-")
	if err != nil {
		t.Fatalf("ENGINE: MkdirTemp: %v", err)
	}
	defer os.RemoveAll(dir)
	cfg := engcDrawCfg(t, "big")
	cfg.Archival = true // the replay from genesis needs every block
	cfg.DisableLedgerLRUCache = true
	big := &c13Big{node: &engcNode{Name: "big", Cfg: cfg, OnDisk: true}, prefix: filepath.Join(dir, "big"), w: w}
	if err := big.open(); err != nil {
		t.Fatalf("ENGINE: OpenLedger(big): %v", err)
	}
	defer big.close()

	total := basics.Round(rapid.IntRange(510, 560).Draw(t, "rounds"))
	boundary := total - basics.Round(cfg.MaxAcctLookback) // last round of the single replay commit
	w.OnBlock(func(info *engcBlockInfo) {
		for addr := range info.Post.Changes.Accts {
			if (info.Pre.Acct(addr).Data.Status == basics.Online) != (info.Post.Acct(addr).Data.Status == basics.Online) {
				c.flips[addr]++
			}
		}
		c.settle()
		if err := big.node.L.AddBlock(info.Block, engcCert); err != nil {
			t.Fatalf("ENGINE: big AddBlock %d: %v", info.Round, err)
		}
		if info.Round%32 == 0 {
			big.quiesce()
		}
	})

	// plan: one online-relevant change by a distinct account at each of boundary-1 .. boundary+3 (never touched again),
	// a few more at drawn earlier rounds; everything else is empty blocks proposed by the fee sink (touches nobody)
	var actors []basics.Address
	for _, u := range w.Users {
		if d := g.Acct(u).Data; d.Status != basics.NotParticipating && d.MicroAlgos.Raw >= 3_000_000 {
			actors = append(actors, u)
		}
	}
	plan := map[basics.Round][]basics.Address{}
	ai := 0
	for r := boundary - 1; r <= boundary+3 && r <= total && ai < len(actors); r++ {
		if r == boundary+1 || rapid.IntRange(0, 3).Draw(t, "nearBoundary") != 0 {
			plan[r] = append(plan[r], actors[ai])
			ai++
		}
	}
	for ; ai < len(actors); ai++ {
		for k := rapid.IntRange(0, 2).Draw(t, "earlyChanges"); k > 0; k-- {
			r := basics.Round(rapid.Uint64Range(1, uint64(boundary)-2).Draw(t, "earlyRound"))
			plan[r] = append(plan[r], actors[ai])
		}
	}
	commitEvery := basics.Round(rapid.IntRange(25, 70).Draw(t, "primaryCommitEvery"))
	changedAt := map[basics.Round]int{} // round -> accounts whose online data changed
	mkBlock := func() {
		b := w.BeginBlock(t)
		b.ProposerSet, b.Proposer, b.Eligible = true, w.Sink, false
		for _, a := range plan[b.Round] {
			d := b.Gen.s.Acct(a).Data
			var tx *txntest.Txn
			switch {
			case d.Status == basics.Online && rapid.IntRange(0, 2).Draw(t, "renew") != 0:
				tx = &txntest.Txn{Type: protocol.KeyRegistrationTx, Sender: a} // go offline
			default: // go online / renew keys
				tx = &txntest.Txn{Type: protocol.KeyRegistrationTx, Sender: a, VoteFirst: b.Round, VoteKeyDilution: 10000,
					VoteLast: b.Round + basics.Round(rapid.SampledFrom([]uint64{5, 40, 1_000_000}).Draw(t, "voteLife"))}
				engcFillBytes(t, tx.VotePK[:], "votePK")
				engcFillBytes(t, tx.SelectionPK[:], "selPK")
				engcFillBytes(t, tx.StateProofPK[:], "spPK")
			}
			_ = b.Submit([]string{"c13:keyreg"}, tx)
		}
		info := b.Finish(t)
		for addr := range info.Post.Changes.Accts {
			if c13WantOAD(info.Pre, addr) != c13WantOAD(info.Post, addr) {
				changedAt[info.Round]++
			}
		}
		if info.Round%commitEvery == 0 {
			w.Node.OpCommit()
		}
	}
	for w.Model.Latest() < total {
		mkBlock()
	}
	big.quiesce()

	// ---- remove big's tracker database and reopen: replay of rounds 1..total, one commit at the end
	big.close()
	files, _ := filepath.Glob(big.prefix + ".tracker.sqlite*")
	if len(files) == 0 {
		t.Fatalf("ENGINE: no tracker database files at %s", big.prefix)
	}
	for _, f := range files {
		os.Remove(f)
	}
	if err := big.open(); err != nil {
		c.failf(t, "reopening the ledger after removing its tracker database failed: %v", err)
	}
	big.node.Reopens++
	w.tracef("big: tracker db removed, reopened: db %d latest %d (boundary %d)", big.node.DBRound(), big.node.L.Latest(), boundary)
	if big.node.L.Latest() != total {
		c.failf(t, "big: latest %d after reopen, %d blocks were added", big.node.L.Latest(), total)
	}
	span := big.node.DBRound()
	nontrivial := span > 500 && changedAt[span+1] > 0
	vk.Labelf("largeflush:commit-span:%s", map[bool]string{true: ">500", false: "<=500"}[span > 500])
	if span == boundary {
		vk.Label("largeflush:single-commit-to-latest-minus-lookback")
	}
	for d := basics.Round(0); d <= 3; d++ {
		if changedAt[span+d] > 0 {
			vk.Labelf("largeflush:online-change-at-flush-boundary+%d", d)
		}
	}

	nodes := []*engcNode{big.node, w.Node}
	sweep := func(phase string) {
		addrs := w.Addrs()
		m := w.Model
		for _, n := range nodes {
			lo := c.lo(n.DBRound()).SubSaturate(1)
			for r := lo; r <= m.Latest()+1; r++ {
				// every account near the flush boundary and the latest rounds, a third of the rounds elsewhere
				if r+12 < span && r > lo+2 && (uint64(r)+uint64(len(phase)))%3 != 0 {
					continue
				}
				for _, a := range addrs {
					c.lookup(t, n, r, a)
				}
				vrs := []basics.Round{r + c.bl}
				if r <= m.Latest() {
					vrs = c.voteRounds(m.At(r))
				}
				for i, vr := range vrs {
					if i%2 == 0 || vr == r+c.bl {
						c.circulation(t, n, r, vr)
					}
				}
			}
		}
		vk.Label("largeflush:sweep-" + phase)
	}
	sweep("after-large-commit")
	// the first unflushed round gets committed by the next commit, and then must survive a restart
	for i, k := 0, int(cfg.MaxAcctLookback)+rapid.IntRange(2, 5).Draw(t, "moreBlocks"); i < k; i++ {
		mkBlock()
	}
	big.commit()
	w.tracef("big: commit db %d latest %d", big.node.DBRound(), big.node.L.Latest())
	sweep("after-next-commit")
	big.close()
	if err := big.open(); err != nil {
		c.failf(t, "reopening big failed: %v", err)
	}
	big.node.Reopens++
	sweep("after-restart")

	vk.Case(nontrivial, strings.Join(w.History, "|"))
	vk.Labelf("proto:%s", cv)
	vk.Add("lookups", int64(c.st.lookups))
	vk.Add("circulation_queries", int64(c.st.circs))
	vk.Add("queries_history_round", int64(c.st.history))
	if vk.WantSample(nontrivial) {
		h := w.History
		if len(h) > 40 {
			h = append(append([]string{}, h[:8]...), h[len(h)-30:]...)
		}
		vk.Sample(nontrivial, map[string]any{"proto": string(cv), "rounds": total, "commit_span": span, "changes_at_boundary_plus_1": changedAt[span+1], "history_excerpt": h,
			"lookups": c.st.lookups, "circulation": c.st.circs})
	}
}

func TestVerif_C13_LargeFlush(t *testing.T) {
	vk := vkBegin(t, "C13")
	vk.Rule("510-560 rounds of blocks proposed by the fee sink, empty except for keyreg online/offline/renewal transactions of distinct accounts placed at the rounds around latest-MaxAcctLookback " +
		"(always one at the first round after it) and at drawn earlier rounds, under ConsensusFuture or one of the small-window variants; the engine's primary node commits every 25-70 rounds; an extra on-disk archival " +
		"ledger gets the same blocks, then its tracker database is removed and it is reopened, so that trackerRegistry.replay flushes rounds 1..latest-MaxAcctLookback in ONE commit (> 500 rounds); " +
		"LookupAgreement for every address and OnlineCirculation at the served rounds on both ledgers against the reference fold, right after the large commit, after the next commit, and after a restart. " +
		"Non-trivial: the commit covered more than 500 rounds and an account's agreement-visible data changed in the first round after it. Distinct: by the block trace.")
	vk.Assume("domain restriction: a genesis allocation never carries IncentiveEligible = true (see notes/C13.md)")
	protos := []protocol.ConsensusVersion{protocol.ConsensusFuture}
	for _, v := range c13RegisterProtos(t) {
		protos = append(protos, v.name)
	}
	rapid.Check(t, func(rt *rapid.T) { c13LargeFlushCase(t, rt, vk, protos) })
}
