package ledger

// C11 — A committed transaction cannot be committed again while valid; leases respected; across restarts.
//
// Oracle: a model written from the statement — the set of committed transaction ids with their LastValid, and a map
// (sender, lease) -> expiry (LastValid of the transaction that took the lease) — filled from the PAYSET of the blocks
// that were added (never from the tail, the deltas or the evaluator's verdicts). See /verif/notes/C11.md.

import (
	"errors"
	"fmt"
	"strings"
	"testing"

	"pgregory.net/rapid"

	"github.com/algorand/go-algorand/config"
	"github.com/algorand/go-algorand/crypto"
	"github.com/algorand/go-algorand/data/basics"
	"github.com/algorand/go-algorand/data/transactions"
	"github.com/algorand/go-algorand/data/txntest"
	"github.com/algorand/go-algorand/ledger/ledgercore"
	"github.com/algorand/go-algorand/protocol"
)

// c11Txn is one committed transaction as the model remembers it.
type c11Txn struct {
	id     transactions.Txid
	group  []transactions.SignedTxn // the complete group it was committed in (len 1 for a single transaction)
	round  basics.Round             // round of the block that contains it
	fv, lv basics.Round
	sender basics.Address
	lease  [32]byte
}

func (x *c11Txn) key() ledgercore.Txlease {
	return ledgercore.Txlease{Sender: x.sender, Lease: x.lease}
}

type c11Lease struct {
	expiry basics.Round // greatest LastValid among the committed transactions carrying this (sender, lease)
	round  basics.Round // round in which that transaction was committed
}

// c11Model is the reference: what has been committed, from the blocks' paysets.
type c11Model struct {
	committed map[transactions.Txid]*c11Txn
	alive     []*c11Txn // committed transactions whose LastValid has not passed yet (in commit order)
	all       []*c11Txn
	leases    map[ledgercore.Txlease]c11Lease
}

func (m *c11Model) leaseActive(k ledgercore.Txlease, cur basics.Round) bool {
	if k.Lease == ([32]byte{}) {
		return false
	}
	e, ok := m.leases[k]
	return ok && cur <= e.expiry
}

// c11InBlock is what the block under construction already contains.
type c11InBlock struct {
	txids  map[transactions.Txid]bool
	leases map[ledgercore.Txlease]basics.Round
	order  []transactions.Txid
	groups [][]transactions.SignedTxn
}

type c11NodeState struct {
	restartRound basics.Round // latest round at the time of the last reload/reopen (0 = never restarted)
	restartDB    basics.Round // tracker DB round the tail was loaded from at that restart
	restarts     int
}

type c11Checker struct {
	w  *engcWorld
	vk *vkCtx
	m  *c11Model
	L  basics.Round // MaxTxnLife

	senders   []basics.Address
	receivers []basics.Address
	leaseVals [][32]byte
	keys      []ledgercore.Txlease
	nodes     map[*engcNode]*c11NodeState
	freshCtr  uint64

	// statistics for the non-trivial rule and the labels
	ntProbes       int // probes after a restart, for something committed before it, within 2 rounds of the window edge
	dupFired       int
	leaseFired     int
	negative       int // probes where the duplicate check had to stay silent and did
	evalDup        int
	evalLease      int
	evalInBlockDup int
	evalInGroupDup int
	evalClean      int
}

func (c *c11Checker) failf(t *rapid.T, format string, args ...any) {
	h := c.w.History
	if len(h) > 80 {
		h = h[len(h)-80:]
	}
	t.Fatalf("C11 VIOLATION: %s\n--- history (tail) ---\n%s", fmt.Sprintf(format, args...), strings.Join(h, "\n"))
}

// c11Class classifies an error of the evaluator / of CheckDup.
func c11Class(err error) string {
	if err == nil {
		return "ok"
	}
	var tile *ledgercore.TransactionInLedgerError
	if errors.As(err, &tile) {
		return "txid-dup"
	}
	var lile *ledgercore.LeaseInLedgerError
	if errors.As(err, &lile) {
		return "lease-dup"
	}
	return "other"
}

func c11ErrKind(err error) string {
	if err == nil {
		return "ok"
	}
	msg := err.Error()
	switch {
	case strings.Contains(msg, "txn dead"):
		return "dead"
	case strings.Contains(msg, "window size excessive"), strings.Contains(msg, "invalid range"):
		return "bad-window"
	case strings.Contains(msg, "overspend"), strings.Contains(msg, "below min"):
		return "balance"
	}
	return "other"
}

func (c *c11Checker) freshID() transactions.Txid {
	c.freshCtr++
	return transactions.Txid(crypto.Hash([]byte(fmt.Sprintf("c11-fresh-%d", c.freshCtr))))
}

// ---------------------------------------------------------------------------------------------------------------
// probes through Ledger.CheckDup

// edge: cur within 2 rounds of the end of the window [.., lv] on either side.
func c11Edge(cur, lv basics.Round) bool {
	return cur+1 >= lv && cur <= lv+2
}

func (c *c11Checker) afterRestart(n *engcNode, committedAt basics.Round) (bool, string) {
	st := c.nodes[n]
	if st.restarts == 0 || committedAt > st.restartRound {
		return false, ""
	}
	if committedAt <= st.restartDB {
		return true, "persisted-tail"
	}
	return true, "replayed-blocks"
}

// sweep asks every node, at current = latest+1 (what roundCowBase.checkDup passes), about every committed transaction
// that is still inside its window, about every (sender, lease) pair of the small lease space and about fresh ids.
func (c *c11Checker) sweep(t *rapid.T) {
	w := c.w
	for _, n := range w.Nodes() {
		l := n.L
		latest := l.Latest()
		if latest != w.Model.Latest() {
			c.failf(t, "%s: ledger latest %d, %d blocks were added", n.Name, latest, w.Model.Latest())
		}
		cur := latest + 1
		proto := w.Proto
		for _, x := range c.m.alive {
			if x.lv < cur {
				continue
			}
			err := l.CheckDup(proto, cur, x.fv, x.lv, x.id, x.key())
			cl := c11Class(err)
			restarted, how := c.afterRestart(n, x.round)
			switch {
			case x.lease == ([32]byte{}) && cl != "txid-dup":
				c.failf(t, "%s: CheckDup(current %d) for transaction %v committed in round %d with window [%d,%d] returned %v; want TransactionInLedgerError (restarts %d, last at round %d from db %d)",
					n.Name, cur, x.id, x.round, x.fv, x.lv, err, c.nodes[n].restarts, c.nodes[n].restartRound, c.nodes[n].restartDB)
			case cl != "txid-dup" && cl != "lease-dup":
				c.failf(t, "%s: CheckDup(current %d) for leased transaction %v committed in round %d with window [%d,%d] returned %v; want LeaseInLedgerError or TransactionInLedgerError (restarts %d, last at round %d from db %d)",
					n.Name, cur, x.id, x.round, x.fv, x.lv, err, c.nodes[n].restarts, c.nodes[n].restartRound, c.nodes[n].restartDB)
			}
			var tile *ledgercore.TransactionInLedgerError
			if errors.As(err, &tile) && tile.Txid != x.id {
				c.failf(t, "%s: CheckDup for %v reports a different txid %v", n.Name, x.id, tile.Txid)
			}
			if x.lease != ([32]byte{}) {
				// the id index alone (lease part switched off by passing the zero lease)
				err2 := l.CheckDup(proto, cur, x.fv, x.lv, x.id, ledgercore.Txlease{Sender: x.sender})
				if c11Class(err2) != "txid-dup" {
					c.failf(t, "%s: CheckDup(current %d, zero lease) for transaction %v committed in round %d with window [%d,%d] returned %v; want TransactionInLedgerError",
						n.Name, cur, x.id, x.round, x.fv, x.lv, err2)
				}
			}
			c.dupFired++
			if restarted && c11Edge(cur, x.lv) {
				c.ntProbes++
				c.vk.Label("probe:dup-after-restart-at-window-edge:" + how)
			} else if restarted {
				c.vk.Label("probe:dup-after-restart:" + how)
			} else {
				c.vk.Label("probe:dup-no-restart-since-commit")
			}
		}
		// leases: fresh transaction ids carrying each (sender, lease) of the lease space, with different windows
		for i, k := range c.keys {
			id := c.freshID()
			span := basics.Round(uint64(i+int(cur)) % uint64(c.L+1))
			fv, lv := cur, cur+span
			if i%2 == 1 {
				back := basics.Round(uint64(i) % uint64(c.L+1))
				if back >= cur {
					back = cur - 1
				}
				fv, lv = cur-back, cur-back+c.L
			}
			err := l.CheckDup(proto, cur, fv, lv, id, k)
			cl := c11Class(err)
			active := c.m.leaseActive(k, cur)
			e, known := c.m.leases[k]
			if active && cl != "lease-dup" {
				c.failf(t, "%s: CheckDup(current %d) for a new transaction with lease (%s,%x..) returned %v although the lease was taken in round %d until round %d; want LeaseInLedgerError (restarts %d, last at round %d from db %d)",
					n.Name, cur, engcShort(k.Sender), k.Lease[:2], err, e.round, e.expiry, c.nodes[n].restarts, c.nodes[n].restartRound, c.nodes[n].restartDB)
			}
			if !active && err != nil {
				c.failf(t, "%s: CheckDup(current %d, window [%d,%d]) for a never committed transaction id with lease (%s,%x..) returned %v although no such lease is active (last holder: round %d until %d, known %v)",
					n.Name, cur, fv, lv, engcShort(k.Sender), k.Lease[:2], err, e.round, e.expiry, known)
			}
			if active {
				c.leaseFired++
			} else {
				c.negative++
			}
			if known {
				restarted, how := c.afterRestart(n, e.round)
				switch {
				case restarted && c11Edge(cur, e.expiry) && active:
					c.ntProbes++
					c.vk.Label("probe:lease-active-after-restart-at-edge:" + how)
				case restarted && c11Edge(cur, e.expiry):
					c.ntProbes++
					c.vk.Label("probe:lease-just-expired-after-restart:" + how)
				case active:
					c.vk.Label("probe:lease-active")
				default:
					c.vk.Label("probe:lease-expired")
				}
			} else {
				c.vk.Label("probe:lease-never-taken")
			}
		}
		// a fresh id without lease is never a duplicate
		id := c.freshID()
		if err := l.CheckDup(proto, cur, cur, cur+c.L, id, ledgercore.Txlease{Sender: c.senders[0]}); err != nil {
			c.failf(t, "%s: CheckDup(current %d) for a never committed transaction id without lease returned %v", n.Name, cur, err)
		}
		c.negative++
	}
}

// ---------------------------------------------------------------------------------------------------------------
// probes through the block evaluator

func (c *c11Checker) drawWindow(t *rapid.T, r basics.Round) (fv, lv basics.Round, shape string) {
	L := c.L
	switch rapid.IntRange(0, 23).Draw(t, "winShape") {
	case 0: // not valid yet
		fv = r + basics.Round(rapid.IntRange(1, 2).Draw(t, "early"))
		return fv, fv + basics.Round(rapid.Uint64Range(0, uint64(L)).Draw(t, "len")), "early"
	case 1: // already dead
		if r >= 2 {
			lv = r - 1
			back := basics.Round(rapid.Uint64Range(0, uint64(L)).Draw(t, "len"))
			if back >= lv {
				back = lv - 1
			}
			return lv - back, lv, "dead"
		}
	case 2: // window too long
		return r, r + L + 1, "too-long"
	}
	maxBack := uint64(L)
	if uint64(r-1) < maxBack {
		maxBack = uint64(r - 1)
	}
	backs := []uint64{0, 0, 0, 1, 2, uint64(L) / 2, uint64(L)}
	back := backs[rapid.IntRange(0, len(backs)-1).Draw(t, "fvBack")]
	if back > maxBack {
		back = maxBack
	}
	fv = r - basics.Round(back)
	rems := []uint64{0, 1, 2, 3, 4, 5, 6, uint64(L) / 2, uint64(L)}
	rem := rems[rapid.IntRange(0, len(rems)-1).Draw(t, "remaining")]
	if rem+back > uint64(L) {
		rem = uint64(L) - back
	}
	return fv, r + basics.Round(rem), "live"
}

func (c *c11Checker) newTxn(t *rapid.T, r basics.Round, leaseMode int) *txntest.Txn {
	snd := c.senders[rapid.IntRange(0, len(c.senders)-1).Draw(t, "sender")]
	rcv := c.receivers[rapid.IntRange(0, len(c.receivers)-1).Draw(t, "receiver")]
	fv, lv, shape := c.drawWindow(t, r)
	c.vk.Label("window:" + shape)
	tx := &txntest.Txn{Type: protocol.PaymentTx, Sender: snd, Receiver: rcv, Amount: uint64(rapid.IntRange(0, 1000).Draw(t, "amt")), FirstValid: fv, LastValid: lv}
	switch leaseMode {
	case 1:
		tx.Lease = c.leaseVals[rapid.IntRange(0, len(c.leaseVals)-1).Draw(t, "lease")]
	case 2:
		if rapid.Bool().Draw(t, "leased") {
			tx.Lease = c.leaseVals[rapid.IntRange(0, len(c.leaseVals)-1).Draw(t, "lease")]
		}
	}
	return tx
}

// build turns txntest transactions into the signed group exactly like engcBlockBuilder.Submit does.
func (c *c11Checker) build(b *engcBlockBuilder, txs ...*txntest.Txn) []transactions.SignedTxn {
	w := c.w
	for _, tx := range txs {
		if tx.Note == nil {
			w.noteCtr++
			tx.Note = engcItob(w.noteCtr)
		}
		fillDefaults(w.tb, w.Node.L, b.Eval, tx)
	}
	var stxns []transactions.SignedTxn
	if len(txs) == 1 {
		stxns = []transactions.SignedTxn{txs[0].SignedTxn()}
	} else {
		stxns = txntest.Group(txs...)
	}
	for i := range stxns {
		auth := b.Gen.s.Acct(stxns[i].Txn.Sender).Data.AuthAddr
		if !auth.IsZero() && auth != stxns[i].Txn.Sender {
			stxns[i].AuthAddr = auth
		}
	}
	return stxns
}

type c11Expect struct {
	dupTx, dupLease   bool // some member is a committed / in-block / in-group duplicate, or hits an active lease
	inBlock, inGroup  bool
	dead, badWindow   bool
	onlyLedgerOrBlock bool // every duplicate condition is visible to TestTransactionGroup (ledger or earlier group of the block)
	firstDup          int  // index of the first member with a duplicate condition (-1: none)
	edge, restarted   bool
	how               string
}

func (c *c11Checker) expect(r basics.Round, blk *c11InBlock, g []transactions.SignedTxn) c11Expect {
	var e c11Expect
	e.onlyLedgerOrBlock = true
	e.firstDup = -1
	seen := map[transactions.Txid]bool{}
	seenLease := map[ledgercore.Txlease]basics.Round{}
	for gi, st := range g {
		if (e.dupTx || e.dupLease) && e.firstDup < 0 {
			e.firstDup = gi - 1
		}
		tx := st.Txn
		id := st.ID()
		if r < tx.FirstValid || r > tx.LastValid {
			e.dead = true
		}
		if tx.LastValid < tx.FirstValid || tx.LastValid-tx.FirstValid > c.L {
			e.badWindow = true
		}
		if x, ok := c.m.committed[id]; ok {
			e.dupTx = true
			if rs, how := c.afterRestart(c.w.Node, x.round); rs {
				e.restarted, e.how = true, how
				if c11Edge(r, x.lv) {
					e.edge = true
				}
			}
		}
		if blk.txids[id] {
			e.dupTx, e.inBlock = true, true
		}
		if seen[id] {
			e.dupTx, e.inGroup = true, true
			e.onlyLedgerOrBlock = false
		}
		seen[id] = true
		if tx.Lease != ([32]byte{}) {
			k := ledgercore.Txlease{Sender: tx.Sender, Lease: tx.Lease}
			if c.m.leaseActive(k, r) {
				e.dupLease = true
				le := c.m.leases[k]
				if rs, how := c.afterRestart(c.w.Node, le.round); rs {
					e.restarted, e.how = true, how
					if c11Edge(r, le.expiry) {
						e.edge = true
					}
				}
			} else if le, ok := c.m.leases[k]; ok && c11Edge(r, le.expiry) {
				if rs, how := c.afterRestart(c.w.Node, le.round); rs {
					e.restarted, e.how, e.edge = true, how, true
				}
			}
			if exp, ok := blk.leases[k]; ok && r <= exp {
				e.dupLease, e.inBlock = true, true
			}
			if exp, ok := seenLease[k]; ok && r <= exp {
				e.dupLease, e.inGroup = true, true
				e.onlyLedgerOrBlock = false
			}
			if old, ok := seenLease[k]; !ok || tx.LastValid > old {
				seenLease[k] = tx.LastValid
			}
		}
	}
	if (e.dupTx || e.dupLease) && e.firstDup < 0 {
		e.firstDup = len(g) - 1
	}
	return e
}

// submit sends one group to the evaluator (through TestTransactionGroup+TransactionGroup like the transaction pool,
// or TransactionGroup alone like block validation) and applies the oracle.
func (c *c11Checker) submit(t *rapid.T, b *engcBlockBuilder, blk *c11InBlock, what string, g []transactions.SignedTxn, rich bool) {
	w := c.w
	r := b.Round
	e := c.expect(r, blk, g)
	direct := rapid.IntRange(0, 2).Draw(t, "direct") == 0
	var err error
	if direct {
		err = b.Eval.TransactionGroup(transactions.WrapSignedTxnsWithAD(g)...)
		b.Info.Groups = append(b.Info.Groups, engcGroupResult{Kinds: []string{what}, Txns: g, Err: err})
		if err == nil {
			w.Accepted++
		} else {
			w.Rejected++
		}
	} else {
		err = b.SubmitSigned([]string{what}, g)
	}
	cl := c11Class(err)
	// The TYPE of the rejection is asserted only when nothing that can fail for another reason runs before the duplicate
	// check that has to fire: TestTransactionGroup checks every member against the ledger and the block before anything is
	// applied; TransactionGroup alone applies member i-1 before it checks member i, so there the first offending member must
	// be the first of the group, or the senders must be comfortably funded (payments of <= 1000 microalgos cannot fail).
	strict := (!direct && e.onlyLedgerOrBlock) || e.firstDup == 0 || rich
	desc := func() string {
		var parts []string
		for _, st := range g {
			parts = append(parts, fmt.Sprintf("%v[%s fv=%d lv=%d lease=%x]", st.ID(), engcShort(st.Txn.Sender), st.Txn.FirstValid, st.Txn.LastValid, st.Txn.Lease[:2]))
		}
		return strings.Join(parts, " + ")
	}
	w.tracef("  r%d %s direct=%v %s -> %s", r, what, direct, desc(), cl+"/"+c11ErrKind(err))
	st := c.nodes[w.Node]
	ctx := fmt.Sprintf("round %d, %s (direct TransactionGroup: %v), group %s; node restarts %d (last at round %d from db %d)", r, what, direct, desc(), st.restarts, st.restartRound, st.restartDB)
	switch {
	case (e.dupTx || e.dupLease) && err == nil:
		c.failf(t, "the evaluator accepted a group although %s: %s", c11Why(e), ctx)
	case (e.dupTx || e.dupLease) && !e.dead && !e.badWindow && strict && cl == "other":
		c.failf(t, "group rejected with %q instead of TransactionInLedgerError/LeaseInLedgerError although %s: %s", err, c11Why(e), ctx)
	case e.dupTx && !e.dupLease && !e.dead && !e.badWindow && strict && cl != "txid-dup":
		c.failf(t, "group rejected with %q; want TransactionInLedgerError (%s): %s", err, c11Why(e), ctx)
	case e.dupLease && !e.dupTx && !e.dead && !e.badWindow && strict && cl != "lease-dup":
		c.failf(t, "group rejected with %q; want LeaseInLedgerError (%s): %s", err, c11Why(e), ctx)
	case !e.dupTx && !e.dupLease && (cl == "txid-dup" || cl == "lease-dup"):
		c.failf(t, "the duplicate check fired (%v) for a group of never committed transactions with no active lease: %s", err, ctx)
	}
	// labels / statistics
	switch {
	case e.inGroup:
		c.evalInGroupDup++
		c.vk.Label("eval:dup-inside-group:" + cl)
	case e.inBlock:
		c.evalInBlockDup++
		c.vk.Label("eval:dup-inside-block:" + cl)
	case e.dupTx:
		c.evalDup++
		c.vk.Label("eval:replay-of-committed:" + cl + "/" + c11ErrKind(err))
	case e.dupLease:
		c.evalLease++
		c.vk.Label("eval:lease-conflict:" + cl)
	default:
		c.evalClean++
		c.vk.Label("eval:fresh:" + cl + "/" + c11ErrKind(err))
	}
	if e.restarted && e.edge {
		c.ntProbes++
		c.vk.Label("probe:eval-after-restart-at-window-edge:" + e.how)
	}
	if direct {
		c.vk.Label("eval:path-TransactionGroup-only")
	} else {
		c.vk.Label("eval:path-Test+TransactionGroup")
	}
	if err == nil {
		for _, s := range g {
			id := s.ID()
			blk.txids[id] = true
			blk.order = append(blk.order, id)
			if s.Txn.Lease != ([32]byte{}) {
				blk.leases[ledgercore.Txlease{Sender: s.Txn.Sender, Lease: s.Txn.Lease}] = s.Txn.LastValid
			}
		}
		blk.groups = append(blk.groups, g)
	}
}

func c11Why(e c11Expect) string {
	var p []string
	if e.dupTx {
		p = append(p, "it contains a transaction that is already committed (ledger, same block or same group)")
	}
	if e.dupLease {
		p = append(p, "it contains a transaction whose (sender, lease) is active")
	}
	return strings.Join(p, " and ")
}

func (c *c11Checker) block(t *rapid.T) {
	w := c.w
	b := w.BeginBlock(t)
	r := b.Round
	blk := &c11InBlock{txids: map[transactions.Txid]bool{}, leases: map[ledgercore.Txlease]basics.Round{}}
	rich := true
	for _, s := range c.senders {
		if b.Gen.spendable(s) < 200*w.Proto.MinTxnFee {
			rich = false
		}
	}
	if !rich {
		c.vk.Excluded("a sender is short of funds: error type of in-group duplicates not asserted in this block")
	}
	ops := []string{"fresh", "fresh", "fresh-leased", "fresh-leased", "fresh-leased", "replay", "replay", "replay-edge", "replay-edge", "same-block", "same-block",
		"twice-in-group", "lease-pair-group", "fresh-group", "lease-conflict", "lease-after-expiry", "group-replay"}
	nOps := rapid.IntRange(0, 6).Draw(t, "nOps")
	for i := 0; i < nOps; i++ {
		op := ops[rapid.IntRange(0, len(ops)-1).Draw(t, "op")]
		switch op {
		case "fresh":
			c.submit(t, b, blk, op, c.build(b, c.newTxn(t, r, 0)), rich)
		case "fresh-leased":
			c.submit(t, b, blk, op, c.build(b, c.newTxn(t, r, 1)), rich)
		case "fresh-group":
			c.submit(t, b, blk, op, c.build(b, c.newTxn(t, r, 2), c.newTxn(t, r, 2)), rich)
		case "replay", "group-replay":
			var pool []*c11Txn
			for _, x := range c.m.all {
				if op == "replay" || len(x.group) > 1 {
					pool = append(pool, x)
				}
			}
			if len(pool) == 0 {
				c.submit(t, b, blk, "fresh", c.build(b, c.newTxn(t, r, 2)), rich)
				continue
			}
			// bias to recent ones: the older ones are long dead
			lo := 0
			if len(pool) > 24 {
				lo = len(pool) - 24
			}
			x := pool[rapid.IntRange(lo, len(pool)-1).Draw(t, "replayIdx")]
			c.submit(t, b, blk, op, x.group, rich)
		case "replay-edge":
			var pool []*c11Txn
			for _, x := range c.m.alive {
				if x.lv >= r && x.lv <= r+1 {
					pool = append(pool, x)
				}
			}
			if len(pool) == 0 {
				pool = c.m.alive
			}
			if len(pool) == 0 {
				c.submit(t, b, blk, "fresh", c.build(b, c.newTxn(t, r, 2)), rich)
				continue
			}
			x := pool[rapid.IntRange(0, len(pool)-1).Draw(t, "edgeIdx")]
			c.submit(t, b, blk, op, x.group, rich)
		case "same-block":
			if len(blk.groups) == 0 {
				g := c.build(b, c.newTxn(t, r, 2))
				c.submit(t, b, blk, "fresh", g, rich)
				c.submit(t, b, blk, op, g, rich)
				continue
			}
			c.submit(t, b, blk, op, blk.groups[rapid.IntRange(0, len(blk.groups)-1).Draw(t, "sameIdx")], rich)
		case "twice-in-group":
			x := c.newTxn(t, r, 2)
			c.submit(t, b, blk, op, c.build(b, x, x), rich)
		case "lease-pair-group":
			x := c.newTxn(t, r, 1)
			y := c.newTxn(t, r, 1)
			y.Sender, y.Lease = x.Sender, x.Lease
			c.submit(t, b, blk, op, c.build(b, x, y), rich)
		case "lease-conflict", "lease-after-expiry":
			// a new transaction carrying a lease that is active right now / that expired in the last two rounds
			var pool []ledgercore.Txlease
			for _, k := range c.keys {
				le, ok := c.m.leases[k]
				_, inBlk := blk.leases[k]
				if op == "lease-conflict" && (c.m.leaseActive(k, r) || inBlk) {
					pool = append(pool, k)
				}
				if op == "lease-after-expiry" && ok && le.expiry < r && le.expiry+2 >= r && !inBlk {
					pool = append(pool, k)
				}
			}
			x := c.newTxn(t, r, 1)
			if len(pool) > 0 {
				k := pool[rapid.IntRange(0, len(pool)-1).Draw(t, "leaseKey")]
				x.Sender, x.Lease = k.Sender, k.Lease
			}
			c.submit(t, b, blk, op, c.build(b, x), rich)
		}
	}
	// a little background traffic after the probes (plain payments from the engine's generator)
	if rapid.IntRange(0, 3).Draw(t, "background") == 0 {
		for i, k := 0, rapid.IntRange(1, 2).Draw(t, "nBackground"); i < k; i++ {
			if tx := b.Gen.build("pay"); tx != nil {
				mine := false
				for _, s := range c.senders {
					mine = mine || tx.Sender == s
				}
				if !mine { // the three senders keep their funds
					c.submit(t, b, blk, "background-pay", c.build(b, tx), rich)
				}
			}
		}
	}
	info := b.Finish(t)

	// ---- fold the PAYSET of the block that was added into the model
	groups, err := info.Block.DecodePaysetGroups()
	if err != nil {
		t.Fatalf("ENGINE: DecodePaysetGroups round %d: %v", r, err)
	}
	n := 0
	for _, g := range groups {
		var sg []transactions.SignedTxn
		for _, stad := range g {
			sg = append(sg, stad.SignedTxn)
		}
		for _, st := range sg {
			id := st.ID()
			if n >= len(blk.order) || blk.order[n] != id {
				t.Fatalf("ENGINE: payset of round %d does not list the accepted transactions in order (position %d: %v)", r, n, id)
			}
			n++
			if old, dup := c.m.committed[id]; dup {
				c.failf(t, "block %d contains transaction %v which block %d already contains (window [%d,%d])", r, id, old.round, old.fv, old.lv)
			}
			x := &c11Txn{id: id, group: sg, round: r, fv: st.Txn.FirstValid, lv: st.Txn.LastValid, sender: st.Txn.Sender, lease: st.Txn.Lease}
			c.m.committed[id] = x
			c.m.all = append(c.m.all, x)
			c.m.alive = append(c.m.alive, x)
			if x.lease != ([32]byte{}) {
				k := x.key()
				if c.m.leaseActive(k, r) {
					le := c.m.leases[k]
					c.failf(t, "block %d contains transaction %v with lease (%s,%x..) although the lease taken in round %d is active until round %d", r, id, engcShort(k.Sender), k.Lease[:2], le.round, le.expiry)
				}
				if le, ok := c.m.leases[k]; !ok || x.lv > le.expiry {
					c.m.leases[k] = c11Lease{expiry: x.lv, round: r}
				}
			}
		}
	}
	if n != len(blk.order) {
		t.Fatalf("ENGINE: payset of round %d has %d transactions, the evaluator accepted %d", r, n, len(blk.order))
	}
	// forget what has expired (cannot be probed any more: current is at least r+1)
	kept := c.m.alive[:0]
	for _, x := range c.m.alive {
		if x.lv >= r+1 {
			kept = append(kept, x)
		}
	}
	c.m.alive = kept
}

// c11ToDisk moves a node that drew the in-memory backend to on-disk files before any block is added.
func c11ToDisk(n *engcNode) error {
	if n.OnDisk {
		return nil
	}
	n.L.Close()
	n.L = nil
	n.OnDisk = true
	return n.open()
}

func c11Run(tb *testing.T, t *rapid.T, vk *vkCtx, protos []protocol.ConsensusVersion) {
	cv := protos[rapid.IntRange(0, len(protos)-1).Draw(t, "protoIdx")]
	opts := engcOpts{Proto: cv, Profile: "pay", Label: vk.Label, Shadow: rapid.IntRange(0, 2).Draw(t, "shadow") == 0,
		CfgHook: func(name string, cfg *config.Local) {
			cfg.DisableLedgerLRUCache = true                    // reload/reopen as often as wanted (the LRU caches are not the subject)
			cfg.MaxAcctLookback = (cfg.MaxAcctLookback + 1) / 2 // 1..4: the persisted tail reaches close to the tip
		}}
	w := engcNewWorld(tb, t, opts)
	defer w.Close()
	c := &c11Checker{w: w, vk: vk, L: basics.Round(w.Proto.MaxTxnLife), nodes: map[*engcNode]*c11NodeState{},
		m: &c11Model{committed: map[transactions.Txid]*c11Txn{}, leases: map[ledgercore.Txlease]c11Lease{}}}
	for _, n := range w.Nodes() {
		c.nodes[n] = &c11NodeState{}
		if !n.OnDisk && rapid.Bool().Draw(t, n.Name+".toDisk") {
			if err := c11ToDisk(n); err != nil {
				t.Fatalf("ENGINE: reopen %s on disk: %v", n.Name, err)
			}
		}
	}
	// three senders: the richest users; receivers: the other users
	tip := w.Model.Tip()
	users := append([]basics.Address{}, w.Users...)
	for i := range users {
		for j := i + 1; j < len(users); j++ {
			if tip.Acct(users[j]).Data.MicroAlgos.Raw > tip.Acct(users[i]).Data.MicroAlgos.Raw {
				users[i], users[j] = users[j], users[i]
			}
		}
	}
	c.senders, c.receivers = users[:3], users[3:]
	for i := 1; i <= 2; i++ {
		var lv [32]byte
		lv[0], lv[31] = byte(i), 0xC1
		c.leaseVals = append(c.leaseVals, lv)
	}
	for _, s := range c.senders {
		for _, lv := range c.leaseVals {
			c.keys = append(c.keys, ledgercore.Txlease{Sender: s, Lease: lv})
		}
	}
	var never [32]byte
	never[0] = 0xEE
	c.keys = append(c.keys, ledgercore.Txlease{Sender: c.receivers[0], Lease: c.leaseVals[0]}, ledgercore.Txlease{Sender: c.senders[0], Lease: never})

	pickNode := func(t *rapid.T) *engcNode {
		ns := w.Nodes()
		return ns[rapid.IntRange(0, len(ns)-1).Draw(t, "node")]
	}
	restart := func(t *rapid.T, reopen bool) {
		n := pickNode(t)
		n.Quiesce()
		db, latest := n.DBRound(), n.L.Latest()
		if db == 1 {
			vk.Label("op:restart-with-single-persisted-tail-round") // class of the fixed finding 4887cb3d01
		}
		var err error
		if reopen && n.OnDisk {
			err = n.OpReopen()
			vk.Label("op:reopen")
		} else {
			err = n.OpReload()
			vk.Label("op:reload")
		}
		if err != nil {
			c.failf(t, "restart of %s failed: %v", n.Name, err)
		}
		st := c.nodes[n]
		st.restarts++
		st.restartRound, st.restartDB = latest, db
	}
	block := func(t *rapid.T) { c.block(t) }
	actions := map[string]func(*rapid.T){
		"Block1": block, "Block2": block, "Block3": block, "Block4": block, "Block5": block, "Block6": block, "Block7": block,
		"Commit":  func(t *rapid.T) { pickNode(t).OpCommit(); vk.Label("op:commit") },
		"Commit2": func(t *rapid.T) { pickNode(t).OpCommit(); vk.Label("op:commit") },
		"Park": func(t *rapid.T) {
			n := pickNode(t)
			n.OpSetParked(!n.parked)
			vk.Label("op:toggle-park")
		},
		"Reload": func(t *rapid.T) { restart(t, false) },
		"Reopen": func(t *rapid.T) { restart(t, true) },
		"CommitAndRestart": func(t *rapid.T) {
			pickNode(t).OpCommit()
			restart(t, rapid.Bool().Draw(t, "reopen"))
		},
		"": c.sweep,
	}
	t.Repeat(actions)
	// every history ends with: commit, restart of the primary node, and two more blocks of probes
	w.Node.OpCommit()
	{
		n := w.Node
		db, latest := n.DBRound(), n.L.Latest()
		var err error
		if n.OnDisk {
			err = n.OpReopen()
		} else {
			err = n.OpReload()
		}
		if err != nil {
			c.failf(t, "final restart failed: %v", err)
		}
		st := c.nodes[n]
		st.restarts++
		st.restartRound, st.restartDB = latest, db
	}
	c.sweep(t)
	for i := 0; i < 2; i++ {
		c.block(t)
		c.sweep(t)
	}

	nontrivial := c.ntProbes > 0
	vk.Case(nontrivial, strings.Join(w.History, "|"))
	vk.Labelf("history-blocks:%s", c11Bucket(int(w.Model.Latest())))
	vk.Labelf("proto:%v", cv)
	vk.Labelf("node-disk:%v", w.Node.OnDisk)
	vk.Labelf("node-lookback:%d", w.Node.Cfg.MaxAcctLookback)
	if nontrivial {
		vk.Label("case:edge-probe-after-restart")
	}
	vk.Add("probes_after_restart_at_window_edge", int64(c.ntProbes))
	vk.Add("checkdup_duplicate_reported", int64(c.dupFired))
	vk.Add("checkdup_lease_reported", int64(c.leaseFired))
	vk.Add("checkdup_silent_as_required", int64(c.negative))
	vk.Add("eval_replays_of_committed", int64(c.evalDup))
	vk.Add("eval_lease_conflicts", int64(c.evalLease))
	vk.Add("eval_dups_inside_block", int64(c.evalInBlockDup))
	vk.Add("eval_dups_inside_group", int64(c.evalInGroupDup))
	vk.Add("eval_fresh_groups", int64(c.evalClean))
	vk.Add("committed_transactions", int64(len(c.m.all)))
	if vk.WantSample(nontrivial) {
		h := w.History
		if len(h) > 120 {
			h = h[len(h)-120:]
		}
		vk.Sample(nontrivial, map[string]any{"history_tail": h, "max_txn_life": c.L, "blocks": w.Model.Latest(), "committed": len(c.m.all),
			"edge_probes_after_restart": c.ntProbes, "restarts_primary": c.nodes[w.Node].restarts})
	}
}

func c11Bucket(n int) string {
	switch {
	case n < 10:
		return "<10"
	case n < 30:
		return "10-29"
	case n < 60:
		return "30-59"
	case n < 100:
		return "60-99"
	}
	return ">=100"
}

const c11Rule = "rapid state machine over Engine C worlds running a consensus version cloned from ConsensusFuture/ConsensusCurrentVersion with MaxTxnLife 8/12/16: every block submits drawn payments with drawn [FirstValid,LastValid] " +
	"(live with 0..6 rounds left, full length, not valid yet, dead, too long) and leases (2 lease values x 3 senders), exact replays of committed transactions and groups (biased to the ones about to expire), the same group twice in one block, " +
	"the same transaction twice in one group, two transactions of one group sharing a lease, new transactions on an active / just expired lease, through TestTransactionGroup+TransactionGroup or TransactionGroup alone; interleaved with tracker commits, " +
	"park/unpark, reloadLedger and close+OpenLedger on one or two ledgers (second one fed through AddBlock). After every step every ledger is asked through Ledger.CheckDup(current=latest+1) about every committed transaction still in its window, " +
	"every (sender,lease) of the lease space and fresh ids. Oracle: committed ids + lease expiries read from the paysets of the added blocks. " +
	"Non-trivial: a probe issued after a reload/reopen for a transaction/lease committed before it, at most 2 rounds from the end of its window (either side). Distinct: by the full trace."

func TestVerif_C11_Replay(t *testing.T) {
	vk := vkBegin(t, "C11")
	vk.Rule(c11Rule)
	vk.Assume("transactions are unsigned (mocked signature cache); the custom consensus versions differ from ConsensusFuture / ConsensusCurrentVersion only in MaxTxnLife")
	protos := []protocol.ConsensusVersion{
		engcRegisterProto(t, "verif-c11-future-8", protocol.ConsensusFuture, func(p *config.ConsensusParams) { p.MaxTxnLife = 8 }),
		engcRegisterProto(t, "verif-c11-future-16", protocol.ConsensusFuture, func(p *config.ConsensusParams) { p.MaxTxnLife = 16 }),
		engcRegisterProto(t, "verif-c11-current-12", protocol.ConsensusCurrentVersion, func(p *config.ConsensusParams) { p.MaxTxnLife = 12 }),
	}
	rapid.Check(t, func(rt *rapid.T) { c11Run(t, rt, vk, protos) })
}

// TestVerif_C11_TailRound1 is the frozen regression for the fixed finding 4887cb3d01 ("tail-single-round-reload"):
// txTail.loadFromDisk skipped the persisted rounds altogether when the txtail table held exactly one round (loop
// condition `old <= dbRound && dbRound > baseRound`; with one round baseRound == dbRound), which is the case while the
// tracker DB is at round 1. A ledger reloaded / reopened at that moment forgot the transactions and leases of block 1:
// Ledger.CheckDup no longer reported them and the evaluator accepted an exact replay inside its window.
func TestVerif_C11_TailRound1(t *testing.T) {
	vk := vkBegin(t, "C11")
	vk.Rule("regression, hand-made history on drawn worlds (MaxTxnLife 16, MaxAcctLookback 1): block 1 commits payment T (window [1,17]) and leased payment U; empty block 2; forced tracker commit (DB round 1); reloadLedger or close+OpenLedger; " +
		"then T is asked through Ledger.CheckDup(current 3) and re-submitted to the evaluator of block 3, and a new transaction with U's lease is submitted: all three must be refused as duplicates. Non-trivial: the tracker DB was at round 1 at the restart. Distinct: by world.")
	cv := engcRegisterProto(t, "verif-c11k-future-16", protocol.ConsensusFuture, func(p *config.ConsensusParams) { p.MaxTxnLife = 16 })
	rapid.Check(t, func(rt *rapid.T) {
		w := engcNewWorld(t, rt, engcOpts{Proto: cv, Profile: "pay", Label: vk.Label, CfgHook: func(name string, cfg *config.Local) {
			cfg.DisableLedgerLRUCache = true
			cfg.MaxAcctLookback = 1
		}})
		defer w.Close()
		if !w.Node.OnDisk && rapid.Bool().Draw(rt, "toDisk") {
			if err := c11ToDisk(w.Node); err != nil {
				rt.Fatalf("ENGINE: reopen on disk: %v", err)
			}
		}
		w.Node.OpSetParked(true)
		tip := w.Model.Tip()
		snd, rcv := w.Users[0], w.Users[1]
		for _, u := range w.Users {
			if tip.Acct(u).Data.MicroAlgos.Raw > tip.Acct(snd).Data.MicroAlgos.Raw {
				rcv, snd = snd, u
			}
		}
		if rcv == snd {
			rcv = w.Users[1]
		}
		var lease [32]byte
		lease[0] = 7
		b := w.BeginBlock(rt)
		T := &txntest.Txn{Type: protocol.PaymentTx, Sender: snd, Receiver: rcv, Amount: 1, FirstValid: 1, LastValid: 17}
		U := &txntest.Txn{Type: protocol.PaymentTx, Sender: snd, Receiver: rcv, Amount: 2, FirstValid: 1, LastValid: 17, Lease: lease}
		if err := b.Submit([]string{"T"}, T); err != nil {
			rt.Fatalf("ENGINE: setup payment rejected: %v", err)
		}
		if err := b.Submit([]string{"U"}, U); err != nil {
			rt.Fatalf("ENGINE: setup payment rejected: %v", err)
		}
		info := b.Finish(rt)
		txns, err := info.Block.DecodePaysetFlat()
		if err != nil || len(txns) != 2 {
			rt.Fatalf("ENGINE: block 1 payset: %v (%d transactions)", err, len(txns))
		}
		st := txns[0].SignedTxn
		w.StepBlock(rt, 0)
		w.Node.OpCommit()
		atRound1 := w.Node.DBRound() == 1
		vk.Case(atRound1, strings.Join(w.History, "|"))
		if !atRound1 {
			rt.Fatalf("ENGINE: tracker DB round %d after the commit, expected 1", w.Node.DBRound())
		}
		l := w.Node.L
		before := l.CheckDup(w.Proto, 3, 1, 17, st.ID(), ledgercore.Txlease{Sender: snd})
		if c11Class(before) != "txid-dup" {
			rt.Fatalf("C11 VIOLATION: before any restart CheckDup(current 3) for the transaction of block 1 returned %v", before)
		}
		if w.Node.OnDisk && rapid.Bool().Draw(rt, "reopen") {
			err = w.Node.OpReopen()
			vk.Label("op:reopen")
		} else {
			err = w.Node.OpReload()
			vk.Label("op:reload")
		}
		if err != nil {
			rt.Fatalf("C11 VIOLATION: restart failed: %v", err)
		}
		l = w.Node.L
		after := l.CheckDup(w.Proto, 3, 1, 17, st.ID(), ledgercore.Txlease{Sender: snd})
		b = w.BeginBlock(rt)
		replayErr := b.SubmitSigned([]string{"replay-T"}, []transactions.SignedTxn{st})
		leaseErr := b.Submit([]string{"lease-of-U"}, &txntest.Txn{Type: protocol.PaymentTx, Sender: snd, Receiver: rcv, Amount: 3, FirstValid: 3, LastValid: 10, Lease: lease})
		if c11Class(after) != "txid-dup" || c11Class(replayErr) != "txid-dup" || c11Class(leaseErr) != "lease-dup" {
			rt.Fatalf("C11 VIOLATION: MaxTxnLife 16, MaxAcctLookback 1: block 1 commits payment %v (window [1,17]) and a payment with lease 07..; block 2 empty; tracker commit -> DB round 1; reload/reopen; "+
				"then CheckDup(current 3) for it = %v (before the restart: %v), the evaluator of block 3 answers the exact replay with %v and a new transaction on the active lease with %v\n%s",
				st.ID(), after, before, replayErr, leaseErr, strings.Join(w.History, "\n"))
		}
		vk.Label("round1:duplicates-refused-after-restart")
		if vk.WantSample(true) {
			vk.Sample(true, map[string]any{"history": w.History})
		}
	})
}

// TestVerif_C11_BigBucket: many committed transactions sharing ONE LastValid round. txTail.loadFromDisk collects the
// persisted transactions per LastValid in a temporary list that it grows by hand (256, 512, 1024 ... entries); every
// transaction of such a bucket must still be known after the tail was rebuilt from the tracker DB.
// Scripted history on a drawn world: N cheap payments (N around the growth steps) with the common LastValid lvBig, spread
// over 1-3 blocks, plus a small control bucket with another LastValid; enough empty blocks for the drawn MaxAcctLookback;
// forced tracker commit (so that all of them are in the persisted tail); reloadLedger or close+OpenLedger; then EVERY one
// of them is asked through Ledger.CheckDup and re-submitted to the evaluator of the next block.
func TestVerif_C11_BigBucket(t *testing.T) {
	vk := vkBegin(t, "C11")
	vk.Rule("scripted history on drawn worlds (MaxTxnLife 16): N payments with one common LastValid (N drawn from 257, 258, 300, 511..514; thorough also 600, 1025, 1100) spread over 1-3 blocks + a control bucket of 3-40 payments with another LastValid; " +
		"empty blocks for the drawn MaxAcctLookback (1-4); forced tracker commit; reloadLedger or close+OpenLedger; then every committed transaction is asked through Ledger.CheckDup(current=latest+1) and replayed to the evaluator (Test+TransactionGroup or TransactionGroup alone). " +
		"Oracle: committed ids from the paysets. Non-trivial: all N transactions were in the persisted tail (committed at rounds <= tracker DB round) at the restart and N > 256. Distinct: by world, N, split and restart kind.")
	cv := engcRegisterProto(t, "verif-c11b-future-16", protocol.ConsensusFuture, func(p *config.ConsensusParams) { p.MaxTxnLife = 16 })
	rapid.Check(t, func(rt *rapid.T) {
		w := engcNewWorld(t, rt, engcOpts{Proto: cv, Profile: "pay", Label: vk.Label, CfgHook: func(name string, cfg *config.Local) {
			cfg.DisableLedgerLRUCache = true
			cfg.MaxAcctLookback = (cfg.MaxAcctLookback + 1) / 2
		}})
		defer w.Close()
		n := w.Node
		if !n.OnDisk && rapid.Bool().Draw(rt, "toDisk") {
			if err := c11ToDisk(n); err != nil {
				rt.Fatalf("ENGINE: reopen on disk: %v", err)
			}
		}
		n.OpSetParked(true)
		sizes := []int{257, 258, 300, 511, 512, 513, 514}
		if vkThorough() {
			sizes = append(sizes, 600, 1025, 1100)
		}
		N := sizes[rapid.IntRange(0, len(sizes)-1).Draw(rt, "bucketSize")]
		nBlocks := rapid.IntRange(1, 3).Draw(rt, "bucketBlocks")
		nCtl := rapid.IntRange(3, 40).Draw(rt, "controlSize")
		warm := rapid.IntRange(0, 2).Draw(rt, "warmupBlocks")
		for i := 0; i < warm; i++ {
			w.StepBlock(rt, 0)
		}
		lookback := basics.Round(n.Cfg.MaxAcctLookback)
		r0 := w.Model.Latest() + 1
		last := r0 + basics.Round(nBlocks) - 1 // last round with bucket transactions
		restartAt := last + lookback           // latest round at the restart
		lvBig := restartAt + basics.Round(rapid.IntRange(1, 3).Draw(rt, "leftAfterRestart"))
		lvCtl := lvBig + 1
		if lvCtl-r0 > 16 {
			rt.Fatalf("ENGINE: window too long (r0 %d lv %d)", r0, lvCtl)
		}
		type rec struct {
			st    transactions.SignedTxn
			round basics.Round
		}
		var all []rec
		submitted := 0
		for bi := 0; bi < nBlocks; bi++ {
			b := w.BeginBlock(rt)
			want := N / nBlocks
			if bi == nBlocks-1 {
				want = N - submitted
			}
			ctl := 0
			if bi == 0 {
				ctl = nCtl
			}
			budget := map[basics.Address]uint64{}
			for _, u := range w.Users {
				budget[u] = b.Gen.spendable(u)
			}
			ui := 0
			for i := 0; i < want+ctl; i++ {
				var snd basics.Address
				found := false
				for k := 0; k < len(w.Users); k++ {
					u := w.Users[(ui+k)%len(w.Users)]
					if budget[u] >= 3*w.Proto.MinTxnFee {
						snd, found = u, true
						ui = (ui + k + 1) % len(w.Users)
						break
					}
				}
				if !found {
					rt.Fatalf("ENGINE: no funded sender left")
				}
				budget[snd] -= w.Proto.MinTxnFee
				lv := lvBig
				if i >= want {
					lv = lvCtl
				}
				tx := &txntest.Txn{Type: protocol.PaymentTx, Sender: snd, Receiver: w.Users[(ui+1)%len(w.Users)], Amount: 0, FirstValid: b.Round, LastValid: lv}
				if err := b.Submit([]string{"bucket"}, tx); err != nil {
					rt.Fatalf("ENGINE: bucket payment %d of block %d rejected: %v", i, b.Round, err)
				}
			}
			submitted += want
			info := b.Finish(rt)
			flat, err := info.Block.DecodePaysetFlat()
			if err != nil || len(flat) != want+ctl {
				rt.Fatalf("ENGINE: payset of block %d: %v, %d transactions, want %d", b.Round, err, len(flat), want+ctl)
			}
			for _, stad := range flat {
				all = append(all, rec{stad.SignedTxn, b.Round})
			}
		}
		for w.Model.Latest() < restartAt {
			w.StepBlock(rt, 0)
		}
		n.OpCommit()
		db := n.DBRound()
		persisted := db >= last
		probeAll := func(when string) {
			l := n.L
			cur := l.Latest() + 1
			for i, x := range all {
				if x.st.Txn.LastValid < cur {
					continue // window over: not asked (no production caller does)
				}
				err := l.CheckDup(w.Proto, cur, x.st.Txn.FirstValid, x.st.Txn.LastValid, x.st.ID(), ledgercore.Txlease{Sender: x.st.Txn.Sender})
				if c11Class(err) != "txid-dup" {
					rt.Fatalf("C11 VIOLATION: %s: CheckDup(current %d) for transaction #%d of %d (%v, committed in round %d, window [%d,%d]) returned %v; want TransactionInLedgerError "+
						"(N=%d with LastValid %d over %d blocks, control %d, tracker DB round %d at the restart, latest %d)\n%s",
						when, cur, i, len(all), x.st.ID(), x.round, x.st.Txn.FirstValid, x.st.Txn.LastValid, err, N, lvBig, nBlocks, nCtl, db, l.Latest(), strings.Join(w.History, "\n"))
				}
			}
			vk.Add("bigbucket_checkdup_probes", int64(len(all)))
		}
		probeAll("before the restart")
		reopen := n.OnDisk && rapid.Bool().Draw(rt, "reopen")
		var err error
		if reopen {
			err = n.OpReopen()
			vk.Label("op:reopen")
		} else {
			err = n.OpReload()
			vk.Label("op:reload")
		}
		if err != nil {
			rt.Fatalf("C11 VIOLATION: restart failed: %v", err)
		}
		probeAll("after the restart")
		// the evaluator of the next block: every one of them is an exact replay inside its window
		b := w.BeginBlock(rt)
		direct := rapid.Bool().Draw(rt, "direct")
		for i, x := range all {
			g := []transactions.SignedTxn{x.st}
			var err error
			if direct {
				err = b.Eval.TransactionGroup(transactions.WrapSignedTxnsWithAD(g)...)
			} else {
				err = b.Eval.TestTransactionGroup(g)
				if err == nil {
					err = b.Eval.TransactionGroup(transactions.WrapSignedTxnsWithAD(g)...)
				}
			}
			if c11Class(err) != "txid-dup" {
				rt.Fatalf("C11 VIOLATION: after the restart the evaluator of round %d answered the exact replay of transaction #%d of %d (%v, committed in round %d, window [%d,%d]) with %v; want TransactionInLedgerError "+
					"(N=%d with LastValid %d over %d blocks, tracker DB round %d at the restart)\n%s",
					b.Round, i, len(all), x.st.ID(), x.round, x.st.Txn.FirstValid, x.st.Txn.LastValid, err, N, lvBig, nBlocks, db, strings.Join(w.History, "\n"))
			}
		}
		vk.Add("bigbucket_evaluator_replays", int64(len(all)))
		b.Finish(rt)
		probeAll("one block after the restart")
		nontrivial := persisted && N > 256
		vk.Case(nontrivial, fmt.Sprintf("N=%d blocks=%d ctl=%d warm=%d reopen=%v direct=%v|%s", N, nBlocks, nCtl, warm, reopen, direct, strings.Join(w.History, "|")))
		vk.Labelf("bigbucket:N=%d", N)
		vk.Labelf("bigbucket:blocks=%d", nBlocks)
		vk.Labelf("bigbucket:all-in-persisted-tail=%v", persisted)
		if vk.WantSample(nontrivial) {
			vk.Sample(nontrivial, map[string]any{"N": N, "blocks": nBlocks, "control": nCtl, "lastValid": lvBig, "db_round_at_restart": db, "restart_at": restartAt, "reopen": reopen, "history": w.History})
		}
	})
}
