package ledger

// Engine C — world: consensus version, node configuration, genesis, ledger lifecycle, quiescence and
// operational actions. See /verif/notes/ENGC.md for the API and the gotchas.

import (
	"fmt"
	"io"
	"os"
	"path/filepath"
	"sync"
	"sync/atomic"
	"testing"
	"time"

	"github.com/algorand/go-deadlock"
	"pgregory.net/rapid"

	"github.com/algorand/go-algorand/agreement"
	"github.com/algorand/go-algorand/config"
	"github.com/algorand/go-algorand/crypto"
	"github.com/algorand/go-algorand/data/basics"
	"github.com/algorand/go-algorand/data/bookkeeping"
	"github.com/algorand/go-algorand/data/transactions"
	"github.com/algorand/go-algorand/data/transactions/verify"
	"github.com/algorand/go-algorand/ledger/ledgercore"
	"github.com/algorand/go-algorand/logging"
	"github.com/algorand/go-algorand/protocol"
)

// engcOpts selects the sub-domain of worlds a check wants. The zero value is the general-purpose default.
type engcOpts struct {
	Proto             protocol.ConsensusVersion            // "" = drawn among ConsensusFuture (mostly) and ConsensusCurrentVersion
	Profile           string                               // transaction mix: "" (general), "pay" (payments/closes only), "status" (keyreg/close heavy), "money" (payments, closes, fees, inner payments)
	Shadow            bool                                 // maintain a second ledger fed the same blocks (via AddBlock) under its own schedule
	ForceMem          bool                                 // never use on-disk sqlite
	MaxGroupsPerBlock int                                  // 0 = default 8
	CfgHook           func(name string, cfg *config.Local) // optional: adjust the drawn node configuration before the ledger is opened
	Label             func(string)                         // label sink (vk.Label); may be nil
}

// engcNode is one ledger instance with its own configuration and flush schedule.
type engcNode struct {
	Name   string
	L      *Ledger
	Cfg    config.Local
	OnDisk bool
	prefix string
	parked bool
	w      *engcWorld

	Commits, Reloads, Reopens int
}

// engcGroupResult records what happened to one submitted transaction group.
type engcGroupResult struct {
	Kinds []string
	Txns  []transactions.SignedTxn
	Err   error
}

// engcBlockInfo is handed to the OnValidated / OnBlock hooks.
type engcBlockInfo struct {
	Round    basics.Round
	Block    bookkeeping.Block     // the final block (with proposer and seed)
	GenDelta ledgercore.StateDelta // delta produced in generate mode (before the proposer is known)
	Delta    ledgercore.StateDelta // delta produced by Ledger.Validate on the pre-block state
	Proposer basics.Address
	Eligible bool
	Groups   []engcGroupResult
	Pre      *engcSnap // model state before the block
	Post     *engcSnap // model state after the block (nil in OnValidated)
}

type engcWorld struct {
	tb   testing.TB
	Opts engcOpts

	CV    protocol.ConsensusVersion
	Proto config.ConsensusParams

	Genesis ledgercore.InitState
	Users   []basics.Address // funded genesis accounts
	Fresh   []basics.Address // deterministic addresses that start unfunded
	Sink    basics.Address
	Pool    basics.Address

	Node   *engcNode
	Shadow *engcNode
	Ledger *Ledger // == Node.L (refreshed on reopen)

	Model *engcModel

	onValidated []func(*engcBlockInfo)
	onBlock     []func(*engcBlockInfo)
	onGroup     []func(*engcGroupResult)

	dir     string
	noteCtr uint64
	History []string // human readable trace of what was done (printed on failure by checks)

	Accepted, Rejected int
}

var engcWorldSeq atomic.Uint64
var engcInitOnce sync.Once

func engcLogger() logging.Logger {
	lg := logging.NewLogger()
	lg.SetOutput(io.Discard)
	lg.SetLevel(logging.Error)
	return lg
}

func (w *engcWorld) label(s string) {
	if w.Opts.Label != nil {
		w.Opts.Label(s)
	}
}

func (w *engcWorld) tracef(format string, args ...any) {
	w.History = append(w.History, fmt.Sprintf(format, args...))
}

// engcDrawCfg draws the node-local configuration.
func engcDrawCfg(t *rapid.T, name string) config.Local {
	cfg := config.GetDefaultLocal()
	cfg.MaxAcctLookback = uint64(rapid.IntRange(1, 8).Draw(t, name+".MaxAcctLookback"))
	cfg.Archival = rapid.Bool().Draw(t, name+".Archival")
	// every open/reload with the LRU caches enabled allocates and clears ~60 MB (100000-entry buffers), 0.4 s on an idle
	// machine and seconds on a loaded one: a quarter of the nodes have them, and those are never reloaded/reopened
	// (ReloadBudgetLeft); a reload only empties the caches, which OpPruneCaches does too
	cfg.DisableLedgerLRUCache = rapid.IntRange(0, 3).Draw(t, name+".LRU") != 0
	// the verified-transaction cache is sized max(VerifiedTranscationsCacheSize, TxPoolSize) entries on every open
	cfg.TxPoolSize = 100
	cfg.VerifiedTranscationsCacheSize = 100
	// no fsync: power-loss durability is not a subject of Engine C and full sync makes on-disk histories 50x slower
	cfg.LedgerSynchronousMode = 0
	cfg.AccountsRebuildSynchronousMode = 0
	return cfg
}

func engcAddr(tag byte, i int) basics.Address {
	var seed crypto.Seed
	seed[0] = tag
	seed[1] = byte(i)
	seed[2] = byte(i >> 8)
	return basics.Address(crypto.GenerateSignatureSecrets(seed).SignatureVerifier)
}

// engcNewWorld builds a world: protocol, configuration, genesis, opens the ledger(s) and the model.
// tb is the enclosing *testing.T (used only for infrastructure); all randomness comes from t.
// The caller must `defer w.Close()`.
func engcNewWorld(tb testing.TB, t *rapid.T, opts engcOpts) *engcWorld {
	engcInitOnce.Do(func() {
		// go-deadlock's detector (stack capture on every Lock, and a 30 s lock-wait watchdog that exits the process) is
		// off in production nodes unless configured; on a loaded test machine it only adds cost and a flake risk.
		// Set once, before the first ledger of this process exists (no goroutine is reading it).
		deadlock.Opts.Disable = true
	})
	w := &engcWorld{tb: tb, Opts: opts}
	w.CV = opts.Proto
	if w.CV == "" {
		if rapid.IntRange(0, 3).Draw(t, "proto") == 0 {
			w.CV = protocol.ConsensusCurrentVersion
		} else {
			w.CV = protocol.ConsensusFuture
		}
	}
	var ok bool
	w.Proto, ok = config.Consensus[w.CV]
	if !ok {
		t.Fatalf("ENGINE: unknown consensus version %v", w.CV)
	}

	// ---- genesis
	nUsers := rapid.IntRange(6, 12).Draw(t, "nUsers")
	accts := map[basics.Address]basics.AccountData{}
	for i := 0; i < nUsers; i++ {
		addr := engcAddr('u', i)
		w.Users = append(w.Users, addr)
		var bal uint64
		switch rapid.IntRange(0, 3).Draw(t, "balClass") {
		case 0:
			bal = rapid.Uint64Range(1_000_000, 50_000_000).Draw(t, "bal") // 1..50 algos
		case 1:
			bal = rapid.Uint64Range(50_000_000, 5_000_000_000).Draw(t, "bal")
		default:
			bal = rapid.Uint64Range(30_000_000_000, 200_000_000_000).Draw(t, "bal") // payout-eligible range
		}
		ad := basics.AccountData{MicroAlgos: basics.MicroAlgos{Raw: bal}, Status: basics.Offline}
		switch rapid.IntRange(0, 5).Draw(t, "status") {
		case 0, 1, 2:
			ad.Status = basics.Online
			ad.VoteFirstValid = 0
			ad.VoteLastValid = basics.Round(rapid.SampledFrom([]uint64{10, 25, 60, 1_000_000}).Draw(t, "voteLast"))
			ad.VoteKeyDilution = 10000
			engcFillBytes(t, ad.VoteID[:], "voteID")
			engcFillBytes(t, ad.SelectionID[:], "selID")
			engcFillBytes(t, ad.StateProofID[:], "spID")
			ad.IncentiveEligible = w.Proto.Payouts.Enabled && rapid.Bool().Draw(t, "eligible")
		case 3:
			if i > 1 { // keep a couple of spenders participating
				ad.Status = basics.NotParticipating
			}
		}
		accts[addr] = ad
	}
	for i := 0; i < 6; i++ {
		w.Fresh = append(w.Fresh, engcAddr('f', i))
	}
	w.Sink = engcAddr('s', 0)
	w.Pool = engcAddr('p', 0)
	sinkBal := rapid.SampledFrom([]uint64{200_000, 50_000_000, 5_000_000_000}).Draw(t, "sinkBal")
	poolBal := rapid.SampledFrom([]uint64{100_000, 1_000_000_000_000, 20_000_000_000_000}).Draw(t, "poolBal")
	accts[w.Sink] = basics.AccountData{MicroAlgos: basics.MicroAlgos{Raw: sinkBal}, Status: basics.NotParticipating}
	accts[w.Pool] = basics.AccountData{MicroAlgos: basics.MicroAlgos{Raw: poolBal}, Status: basics.NotParticipating}

	var genHash crypto.Digest
	copy(genHash[:], "engc-genesis-hash-0123456789abcdef")
	balances := bookkeeping.MakeTimestampedGenesisBalances(accts, w.Sink, w.Pool, 1_700_000_000)
	genBlock, err := bookkeeping.MakeGenesisBlock(w.CV, balances, "engc", genHash)
	if err != nil {
		t.Fatalf("ENGINE: MakeGenesisBlock: %v", err)
	}
	w.Genesis = ledgercore.InitState{Block: genBlock, Accounts: accts, GenesisHash: genHash}
	w.Model = engcNewModel(genBlock, accts)

	// ---- nodes
	dir, err := os.MkdirTemp("", "engc-")
	if err != nil {
		t.Fatalf("ENGINE: MkdirTemp: %v", err)
	}
	w.dir = dir
	mk := func(name string, forceNoLRU bool) *engcNode {
		n := &engcNode{Name: name, w: w, Cfg: engcDrawCfg(t, name)}
		if forceNoLRU {
			n.Cfg.DisableLedgerLRUCache = true
		}
		if opts.CfgHook != nil {
			opts.CfgHook(name, &n.Cfg)
		}
		n.OnDisk = !opts.ForceMem && rapid.IntRange(0, 2).Draw(t, name+".onDisk") == 0
		n.prefix = filepath.Join(dir, fmt.Sprintf("%s-%d", name, engcWorldSeq.Add(1)))
		n.parked = rapid.IntRange(0, 3).Draw(t, name+".parked") != 0
		if err := n.open(); err != nil {
			t.Fatalf("ENGINE: OpenLedger(%s): %v", name, err)
		}
		return n
	}
	w.Node = mk("node", false)
	w.Ledger = w.Node.L
	if opts.Shadow {
		w.Shadow = mk("shadow", !w.Node.Cfg.DisableLedgerLRUCache) // at most one of the two nodes pays for the LRU buffers
	}
	w.tracef("world proto=%v users=%d node{lookback=%d archival=%v nolru=%v disk=%v parked=%v}", w.CV, nUsers,
		w.Node.Cfg.MaxAcctLookback, w.Node.Cfg.Archival, w.Node.Cfg.DisableLedgerLRUCache, w.Node.OnDisk, w.Node.parked)
	return w
}

func engcFillBytes(t *rapid.T, b []byte, name string) {
	x := rapid.Uint64().Draw(t, name)
	for i := range b {
		b[i] = byte(x>>(uint(i%8)*8)) ^ byte(i*31+1)
	}
	b[0] |= 1 // never all-zero
}

// Close shuts the ledgers down and removes the files. Safe to call twice.
func (w *engcWorld) Close() {
	for _, n := range []*engcNode{w.Node, w.Shadow} {
		if n != nil && n.L != nil {
			n.L.Close()
			n.L = nil
		}
	}
	w.Ledger = nil
	if w.dir != "" {
		os.RemoveAll(w.dir)
		w.dir = ""
	}
}

// Nodes lists the live ledgers (primary first).
func (w *engcWorld) Nodes() []*engcNode {
	if w.Shadow != nil {
		return []*engcNode{w.Node, w.Shadow}
	}
	return []*engcNode{w.Node}
}

// Addrs returns every address the world knows about: users, fresh addresses, fee sink, rewards pool and the
// addresses of all applications that ever existed (sorted by construction order, deterministic).
func (w *engcWorld) Addrs() []basics.Address {
	out := append([]basics.Address{}, w.Users...)
	out = append(out, w.Fresh...)
	out = append(out, w.Sink, w.Pool)
	ids, types := w.Model.EverCreatables()
	for _, id := range ids {
		if types[id] == basics.AppCreatable {
			out = append(out, basics.AppIndex(id).Address())
		}
	}
	return out
}

func (w *engcWorld) OnValidated(f func(*engcBlockInfo)) { w.onValidated = append(w.onValidated, f) }
func (w *engcWorld) OnBlock(f func(*engcBlockInfo))     { w.onBlock = append(w.onBlock, f) }
func (w *engcWorld) OnGroup(f func(*engcGroupResult))   { w.onGroup = append(w.onGroup, f) }

// ---------------------------------------------------------------------------------------------------------------
// node lifecycle

func (n *engcNode) open() error {
	l, err := OpenLedger(engcLogger(), n.prefix, !n.OnDisk, n.w.Genesis, n.Cfg)
	if err != nil {
		return err
	}
	// transactions are unsigned (txntest); tell the evaluator every signature is already verified (upstream
	// validateWithoutSignatures does the same around each Validate call)
	l.verifiedTxnCache = verify.GetMockedCache(true)
	n.L = l
	if n == n.w.Node {
		n.w.Ledger = l
	}
	n.Quiesce()
	return nil
}

// park moves trackers.lastFlushTime far into the future so that the registry does not commit on its own
// (it still does when >= pendingDeltasFlushThreshold account changes are pending - that is fine, no oracle
// depends on the schedule).
func (n *engcNode) park() {
	n.L.trackers.mu.Lock()
	n.L.trackers.lastFlushTime = time.Now().Add(10000 * time.Hour)
	n.L.trackers.mu.Unlock()
}

func (n *engcNode) unpark() {
	n.L.trackers.mu.Lock()
	n.L.trackers.lastFlushTime = time.Time{}
	n.L.trackers.mu.Unlock()
}

// Quiesce waits until every background activity triggered so far is finished: the block queue has persisted the
// latest block, notifyCommit() for it has returned (so any commit it wanted is scheduled), and the commit syncer
// has drained. After Quiesce nothing moves until the next block / operational action.
func (n *engcNode) Quiesce() {
	l := n.L
	latest := l.Latest()
	l.WaitForCommit(latest)
	<-l.Wait(latest)
	// notifyCommit holds trackerMu for its whole duration (committedUpTo + scheduleCommit)
	l.trackerMu.Lock()
	l.trackerMu.Unlock() //nolint:staticcheck
	l.trackers.waitAccountsWriting()
	if n.parked {
		n.park()
	}
}

// DBRound is the round the tracker database is at (everything after it lives in memory).
func (n *engcNode) DBRound() basics.Round { return n.L.LatestTrackerCommitted() }

// OpCommit forces the tracker registry to commit now whatever its normal policy allows (MaxAcctLookback is
// respected): lastFlushTime := zero, then exactly what blockQueue.syncer does after persisting a block
// (Ledger.notifyCommit), then wait for the commit syncer.
func (n *engcNode) OpCommit() {
	n.Quiesce()
	before := n.DBRound()
	n.unpark()
	n.L.notifyCommit(n.L.Latest())
	n.L.trackers.waitAccountsWriting()
	n.Quiesce()
	n.Commits++
	n.w.tracef("%s commit db %d->%d latest %d", n.Name, before, n.DBRound(), n.L.Latest())
}

// OpSetParked switches between "harness owns the flush schedule" (true) and "registry flushes when it likes" (false).
func (n *engcNode) OpSetParked(parked bool) {
	n.Quiesce()
	n.parked = parked
	if parked {
		n.park()
	} else {
		n.unpark()
	}
	n.w.tracef("%s parked=%v", n.Name, parked)
}

// ReloadBudgetLeft: with the LRU caches enabled every reload/reopen costs >= 0.4 s CPU; checks use this to cap them.
func (n *engcNode) ReloadBudgetLeft() bool {
	return n.Cfg.DisableLedgerLRUCache
}

// OpReload runs Ledger.reloadLedger() (trackers closed, re-initialised from the DB, blocks replayed).
func (n *engcNode) OpReload() error {
	n.Quiesce()
	before := n.DBRound()
	if err := n.L.reloadLedger(); err != nil {
		return err
	}
	n.Quiesce()
	n.Reloads++
	n.w.tracef("%s reload db %d->%d latest %d", n.Name, before, n.DBRound(), n.L.Latest())
	return nil
}

// OpReopen closes the ledger and opens it again on the same files (on-disk nodes only; no-op otherwise).
func (n *engcNode) OpReopen() error {
	if !n.OnDisk {
		return nil
	}
	n.Quiesce()
	before := n.DBRound()
	latest := n.L.Latest()
	n.L.Close()
	n.L = nil
	if err := n.open(); err != nil {
		return err
	}
	if n.L.Latest() != latest {
		return fmt.Errorf("reopen: latest %d before, %d after", latest, n.L.Latest())
	}
	n.Reopens++
	n.w.tracef("%s reopen db %d->%d latest %d", n.Name, before, n.DBRound(), latest)
	return nil
}

// OpFlushCaches makes pending LRU writes visible (Ledger.FlushCaches).
func (n *engcNode) OpFlushCaches() {
	n.Quiesce()
	n.L.FlushCaches()
	n.w.tracef("%s flushcaches", n.Name)
}

// OpPruneCaches empties the three LRU caches (they are caches: answers must not change).
// The pending-write queues are flushed first: dropping cache entries while older copies of them still sit in the
// pending queue is not a state the ledger can reach by itself (prune only evicts the least recently used entries
// beyond 100000+ and a just-committed entry is the most recently used one), and it does produce stale answers.
func (n *engcNode) OpPruneCaches() {
	n.Quiesce()
	au := &n.L.accts
	au.accountsMu.Lock()
	au.baseAccounts.flushPendingWrites()
	au.baseResources.flushPendingWrites()
	au.baseKVs.flushPendingWrites()
	au.baseAccounts.prune(0)
	au.baseResources.prune(0)
	au.baseKVs.prune(0)
	au.accountsMu.Unlock()
	n.w.tracef("%s prunecaches", n.Name)
}

// engcCert is the (empty) certificate used for every block, as in upstream ledger tests.
var engcCert = agreement.Certificate{}

// engcRegisterProto clones the consensus parameters of base, lets f edit them and registers the result under name in
// the global config.Consensus map for the duration of the test. SAFETY: config.Consensus is an unsynchronised global
// read by ledger goroutines; call this from the Test function BEFORE rapid.Check / before any ledger exists, never
// from inside a property. The entry is removed by tb.Cleanup, after every world has been closed.
func engcRegisterProto(tb testing.TB, name, base protocol.ConsensusVersion, f func(*config.ConsensusParams)) protocol.ConsensusVersion {
	p, ok := config.Consensus[base]
	if !ok {
		tb.Fatalf("engcRegisterProto: unknown base %v", base)
	}
	p.ApprovedUpgrades = map[protocol.ConsensusVersion]uint64{}
	f(&p)
	if _, exists := config.Consensus[name]; exists {
		tb.Fatalf("engcRegisterProto: %v already registered", name)
	}
	config.Consensus[name] = p
	tb.Cleanup(func() { delete(config.Consensus, name) })
	return name
}
