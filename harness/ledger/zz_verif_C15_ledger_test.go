package ledger

// C15 — end-to-end unit in package ledger: a catchpoint label commits to a unique ledger state.
//
// Real ledgers with identical genesis and identical history except ONE application call at the fork round, committed
// to the tracker DB with catchpoint tracking on. The state commitment that goes into the catchpoint label is the
// first-stage record (balances-trie root, account totals, state-proof / online hashes); the remaining label inputs
// (round, block hash) are not derived from the state. Two ledgers whose states differ must therefore have different
// first-stage records.
//
//   reference  : box "ab" -> "c"
//   F1 pair    : box "a"  -> "bc"   (bytes moved across the name|value boundary)  -> equal records = known finding
//   control    : box "ab" -> "d"                                                    -> must differ
//   drawn pair : another single difference that is not of the F1 class            -> must differ
//
// The pure part of C15 (leaf / label injectivity over generated entries) lives in ledger/store/trackerdb.

import (
	"fmt"
	"strings"
	"testing"

	"pgregory.net/rapid"

	"github.com/algorand/go-algorand/config"
	"github.com/algorand/go-algorand/data/basics"
	"github.com/algorand/go-algorand/data/committee"
	"github.com/algorand/go-algorand/data/transactions"
	"github.com/algorand/go-algorand/data/txntest"
	"github.com/algorand/go-algorand/protocol"
)

// c15lVariant is the one transaction in which a ledger differs from the reference ledger.
type c15lVariant struct {
	Name string
	Args []string // application arguments (first = operation of the Engine C approval program)
	Box  string   // box reference, "" = none
	Pay  uint64   // if > 0: a payment of this amount instead of an application call
}

func (v c15lVariant) String() string {
	if v.Pay > 0 {
		return fmt.Sprintf("%s: pay %d", v.Name, v.Pay)
	}
	return fmt.Sprintf("%s: %q box %q", v.Name, v.Args, v.Box)
}

func (v c15lVariant) txn(sender, other basics.Address, app basics.AppIndex) *txntest.Txn {
	if v.Pay > 0 {
		// paid to the application account: funded by the script and never closed by the drawn payments
		return &txntest.Txn{Type: protocol.PaymentTx, Sender: sender, Receiver: app.Address(), Amount: v.Pay, Note: []byte("c15-fork")}
	}
	tx := &txntest.Txn{Type: protocol.ApplicationCallTx, Sender: sender, ApplicationID: app, Note: []byte("c15-fork")}
	for _, a := range v.Args {
		tx.ApplicationArgs = append(tx.ApplicationArgs, []byte(a))
	}
	if v.Box != "" {
		tx.Boxes = []transactions.BoxRef{{Index: 0, Name: []byte(v.Box)}}
	}
	return tx
}

// c15lOwnBlock builds and adds a block on a ledger that left the engine's chain (own evaluator, like Finish does for the
// primary node): the given transactions, proposer prp, no payout.
func c15lOwnBlock(t *rapid.T, w *engcWorld, n *engcNode, prp basics.Address, txs ...*txntest.Txn) {
	n.Quiesce()
	ev, err := engcStartEval(n.L)
	if err != nil {
		t.Fatalf("HARNESS: %s StartEvaluator: %v", n.Name, err)
	}
	for _, tx := range txs {
		fillDefaults(w.tb, n.L, ev, tx)
		if err := ev.TransactionGroup(transactions.WrapSignedTxnsWithAD([]transactions.SignedTxn{tx.SignedTxn()})...); err != nil {
			// a drawn payment of the shared prefix can have emptied the sender: precondition of the scenario not met
			t.Skipf("%s: fork transaction rejected: %v", n.Name, err)
		}
	}
	ub, err := ev.GenerateBlock([]basics.Address{prp})
	if err != nil {
		t.Fatalf("HARNESS: %s GenerateBlock: %v", n.Name, err)
	}
	blk := ub.FinishBlock(committee.Seed(prp), prp, false)
	if err := n.L.AddBlock(blk, engcCert); err != nil {
		t.Fatalf("HARNESS: %s AddBlock %d: %v", n.Name, blk.Round(), err)
	}
	n.Quiesce()
	w.tracef("%s own block %d txns=%d", n.Name, blk.Round(), len(txs))
}

// c15lCommitment renders what the label commits to besides round and block hash.
type c15lCommitment struct {
	Root, Totals, SPVer, OnlineAccts, OnlineParams string
}

func (c c15lCommitment) String() string {
	return fmt.Sprintf("root=%s totals=%s spver=%s onlineaccts=%s onlineparams=%s", c.Root, c.Totals, c.SPVer, c.OnlineAccts, c.OnlineParams)
}

func TestVerif_C15_LedgerPairs(t *testing.T) {
	vk := vkBegin(t, "C15")
	vk.Rule("drawn world (Engine C genesis, payments around the script); an application is created and funded on all ledgers; at the fork round each ledger gets one different transaction: the reference stores box ab->c, " +
		"the F1 ledger box a->bc, the control box ab->d, a fourth ledger a drawn non-F1 single difference (other box name/value, global or local state key/value split, payment amount); every ledger then adds empty blocks " +
		"until the first-stage record of the fork round's accounts round exists. Non-trivial: the compared ledgers really hold different states (looked up) at the compared round. Distinct: by world and drawn variant.")
	vk.Assume("SHA-512/256 collision resistance: equal commitments for unequal states are read as an encoding ambiguity")
	protos := cpxRegisterProtos(t, "c15")
	reproduced := 0
	var firstReplay any
	rapid.Check(t, func(rt *rapid.T) {
		proto := protos[0] // future, CatchpointLookback 8: with interval 4 every multiple of 4 is a first-stage round
		const interval, forkRound = 4, 4
		spec := cpxNodeSpec{Interval: interval, Tracking: config.CatchpointTrackingModeTracked, TrieCache: 9000}
		w := engcNewWorld(t, rt, engcOpts{Proto: proto.CV, Profile: "pay", Label: vk.Label, MaxGroupsPerBlock: 3, ForceMem: true,
			CfgHook: func(name string, cfg *config.Local) { spec.apply(cfg) }})
		defer w.Close()
		tip := w.Model.Tip()
		rich := w.Users[0]
		for _, u := range w.Users {
			if tip.Acct(u).Data.MicroAlgos.Raw > tip.Acct(rich).Data.MicroAlgos.Raw {
				rich = u
			}
		}
		other := w.Users[1]
		if other == rich {
			other = w.Users[0]
		}

		// the drawn non-F1 difference
		ref := c15lVariant{Name: "reference", Args: []string{"bput", "ab", "c"}, Box: "ab"}
		drawn := []c15lVariant{
			{Name: "other-box-name", Args: []string{"bput", "ac", "c"}, Box: "ac"},
			{Name: "longer-value", Args: []string{"bput", "ab", "cc"}, Box: "ab"},
			{Name: "box-of-shifted-name-and-other-value", Args: []string{"bput", "a", "bd"}, Box: "a"},
			{Name: "empty-vs-one-byte", Args: []string{"bcreate", "ab", string(engcItob(1))}, Box: "ab"}, // box ab -> "\x00"
			{Name: "global-instead-of-box", Args: []string{"gput", "ab", "c"}},
			{Name: "payment-instead", Pay: 1000},
		}
		extra := drawn[rapid.IntRange(0, len(drawn)-1).Draw(rt, "variant")]
		variants := []c15lVariant{
			ref,
			{Name: "f1-shift", Args: []string{"bput", "a", "bc"}, Box: "a"},
			{Name: "control", Args: []string{"bput", "ab", "d"}, Box: "ab"},
			extra,
		}

		nodes := []*engcNode{w.Node}
		defer func() {
			for _, n := range nodes[1:] {
				cpxCloseNode(n)
			}
		}()
		for i := 1; i < len(variants); i++ {
			nodes = append(nodes, cpxAddNode(w, rt, fmt.Sprintf("fork%d", i), spec, true, cpxStoreMem))
		}
		shared := func(kind string, tx *txntest.Txn) {
			b := w.BeginBlock(rt)
			if tx != nil {
				if err := b.Submit([]string{kind}, tx); err != nil {
					rt.Skipf("setup transaction %s rejected: %v", kind, err)
				}
			}
			b.RandomGroups(rt, rapid.IntRange(0, 2).Draw(rt, "ngroups"))
			info := b.Finish(rt)
			for _, n := range nodes[1:] {
				cpxFeed(rt, n, info.Block)
			}
		}
		a, _, cl := engcPrograms()
		shared("app-create", &txntest.Txn{Type: protocol.ApplicationCallTx, Sender: rich, ApprovalProgram: a, ClearStateProgram: cl,
			GlobalStateSchema: basics.StateSchema{NumByteSlice: 2}})
		ids := w.Model.Tip().CreatableIDs(basics.AppCreatable)
		if len(ids) != 1 {
			rt.Fatalf("HARNESS: expected one application, have %v", ids)
		}
		app := basics.AppIndex(ids[0])
		shared("app-fund", &txntest.Txn{Type: protocol.PaymentTx, Sender: rich, Receiver: app.Address(), Amount: 1_000_000})
		for w.Model.Latest() < forkRound-1 {
			shared("", nil)
		}

		// ---- the fork: one different transaction per ledger
		{
			b := w.BeginBlock(rt)
			if err := b.Submit([]string{"fork"}, variants[0].txn(rich, other, app)); err != nil {
				rt.Skipf("reference fork transaction rejected: %v", err)
			}
			b.ProposerSet, b.Proposer, b.Eligible = true, rich, false
			b.Finish(rt)
		}
		for i := 1; i < len(variants); i++ {
			c15lOwnBlock(rt, w, nodes[i], rich, variants[i].txn(rich, other, app))
		}
		// ---- the states really differ: fingerprint of everything the variants can touch, looked up at the fork round
		state := func(n *engcNode) string {
			var sb strings.Builder
			for _, name := range []string{"ab", "a", "ac"} {
				v, err := n.L.LookupKv(forkRound, engcBoxKey(app, name))
				fmt.Fprintf(&sb, "box %s=%x present=%v err=%v;", name, v, v != nil, err)
			}
			res, err := n.L.LookupApplication(forkRound, rich, app)
			if err != nil || res.AppParams == nil {
				rt.Fatalf("HARNESS: %s LookupApplication: %v", n.Name, err)
			}
			fmt.Fprintf(&sb, "global=%v;", res.AppParams.GlobalState)
			for _, addr := range []basics.Address{rich, other, app.Address()} {
				d, _, err := n.L.LookupWithoutRewards(forkRound, addr)
				fmt.Fprintf(&sb, "acct=%+v err=%v;", d, err)
			}
			return sb.String()
		}
		// looked up now: the fork round is the latest round of every ledger
		states := make([]string, len(nodes))
		for i, n := range nodes {
			states[i] = state(n)
		}
		// ---- empty blocks until every ledger has the first-stage record of accounts round forkRound
		commit := make([]*c15lCommitment, len(nodes))
		grab := func() bool {
			all := true
			for i, n := range nodes {
				if commit[i] != nil {
					continue
				}
				fs, exists, err := cpxFirstStage(n.L, forkRound)
				if err != nil {
					rt.Fatalf("HARNESS: %s first-stage record: %v", n.Name, err)
				}
				if !exists {
					all = false
					continue
				}
				commit[i] = &c15lCommitment{Root: fs.TrieBalancesHash.String(), Totals: fmt.Sprintf("%x", protocol.EncodeReflect(&fs.Totals)),
					SPVer: fs.StateProofVerificationHash.String(), OnlineAccts: fs.OnlineAccountsHash.String(), OnlineParams: fs.OnlineRoundParamsHash.String()}
			}
			return all
		}
		for k := 0; k < 12 && !grab(); k++ {
			b := w.BeginBlock(rt)
			b.ProposerSet, b.Proposer, b.Eligible = true, rich, false
			b.Finish(rt)
			for i := 1; i < len(nodes); i++ {
				c15lOwnBlock(rt, w, nodes[i], rich)
			}
		}
		if !grab() {
			rt.Fatalf("HARNESS: after %d rounds not every ledger has the first-stage record of accounts round %d\n%s", w.Model.Latest(), forkRound, cpxTail(w, 40))
		}
		// harness validity: the reference ledger's root is the model's
		if want, _, err := cpxModelRoot(w.Model, forkRound); err != nil || want.String() != commit[0].Root {
			rt.Fatalf("HARNESS: reference ledger root %s, model root %v (%v)", commit[0].Root, want, err)
		}

		refState := states[0]
		for i := 1; i < len(variants); i++ {
			st := states[i]
			differs := st != refState
			fp := strings.Join(w.History, "|") + "|" + variants[i].String()
			vk.Case(differs, fp)
			vk.Label("pair:" + variants[i].Name)
			if !differs {
				rt.Fatalf("HARNESS: ledger %s (%s) holds the same state as the reference:\n%s", nodes[i].Name, variants[i], st)
			}
			equal := *commit[i] == *commit[0]
			switch {
			case variants[i].Name == "f1-shift":
				if equal {
					reproduced++
					vk.Label("f1-equal-commitment")
					rep := map[string]any{"reference": ref.String(), "other": variants[i].String(), "accountsRound": forkRound, "commitment": commit[0].String(), "history": w.History}
					if firstReplay == nil {
						firstReplay = rep
					}
					if vk.WantSample(true) {
						vk.Sample(true, rep)
					}
				} else {
					vk.Label("f1-different-commitment")
				}
			case equal:
				rt.Fatalf("C15 VIOLATION: two ledgers with identical history except one transaction (%s | %s) hold different states but the same label commitment at accounts round %d:\n %s\nstates:\n %s\n %s\n%s",
					ref, variants[i], forkRound, commit[0], refState, st, cpxTail(w, 40))
			default:
				if commit[i].Root != commit[0].Root {
					vk.Label("differs-in-root")
				} else {
					vk.Label("differs-outside-root")
				}
			}
		}
	})
	if reproduced > 0 {
		vk.Known("kv-boundary-shift", fmt.Sprintf("two real ledgers with identical history except one application call storing box \"ab\"->\"c\" vs box \"a\"->\"bc\" have the same balances-trie root, totals and online hashes "+
			"in their first-stage catchpoint record, hence the same label for the same block (%d reproductions); the control pair \"ab\"->\"c\" vs \"ab\"->\"d\" differs", reproduced), firstReplay)
	}
}
