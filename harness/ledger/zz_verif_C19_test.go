package ledger

// C19 — Transaction groups apply atomically.
//
// Differential, public API only: evaluator X (fresh BlockEvaluator on a prepared ledger) is handed a drawn
// sequence of groups, a drawn subset of which is constructed to fail at a drawn member for a drawn reason
// while earlier members do visible work. Evaluator Y (fresh, same ledger, same header) is handed only the
// groups X accepted. After every failing group (prefix twins) and at the end, GenerateBlock of X and Y
// must give byte-identical blocks and identical canonical StateDeltas; PaySetSize and the txn counter
// must not move across a rejected group; a panic / corrupted evaluator is reported.

import (
	"bytes"
	"encoding/binary"
	"fmt"
	"runtime/debug"
	"strings"
	"testing"

	"github.com/algorand/go-algorand/crypto"
	"github.com/algorand/go-algorand/data/basics"
	"github.com/algorand/go-algorand/data/transactions"
	"github.com/algorand/go-algorand/data/transactions/logic"
	"github.com/algorand/go-algorand/data/txntest"
	"github.com/algorand/go-algorand/protocol"
	"pgregory.net/rapid"
)

type c19World struct {
	*evkWorld
	poorMin  basics.Address // balance = MinBalance + 5000, only ever used by the min-balance failure
	poorOver basics.Address // balance = MinBalance + 7000, only ever used by the overspend failure
	poorBal  [2]uint64
	closers  []basics.Address // small accounts that work members may close out
	rekeyed  basics.Address   // addrs[6], rekeyed to addrs[7]
	rekeyTo  basics.Address
	never    basics.Address // addrs[9]: never opts in to anything
	frozen   basics.Address // addrs[3]: opted in to the asset, holding frozen
	// committed state that no case may change (cases never commit): box contents and rendered accounts
	baseBoxes map[string][]byte
	baseAccts map[basics.Address]string
}

func c19BoxKey(app basics.AppIndex, name string) string {
	return "bx:" + string(evkItob(uint64(app))) + name
}

func (w *c19World) snapshotAddrs() []basics.Address {
	return append(append([]basics.Address{}, w.addrs...), w.app1.Address(), w.app2.Address(), w.poorMin, w.poorOver)
}

func (w *c19World) snapshot() error {
	w.baseBoxes, w.baseAccts = map[string][]byte{}, map[basics.Address]string{}
	rnd := w.l.Latest()
	for _, app := range []basics.AppIndex{w.app1, w.app2} {
		for _, name := range []string{"b0", "b1", "b2"} {
			k := c19BoxKey(app, name)
			v, err := w.l.LookupKv(rnd, k)
			if err != nil {
				return err
			}
			if v != nil {
				w.baseBoxes[k] = append([]byte{}, v...)
			}
		}
	}
	for _, a := range w.snapshotAddrs() {
		ad, _, _, err := w.l.LookupLatest(a)
		if err != nil {
			return err
		}
		w.baseAccts[a] = fmt.Sprintf("%+v", ad)
	}
	return nil
}

// checkBase: nothing was committed, so the ledger must still answer exactly what it answered after set-up.
func (w *c19World) checkBase() error {
	rnd := w.l.Latest()
	for k, want := range w.baseBoxes {
		got, err := w.l.LookupKv(rnd, k)
		if err != nil {
			return err
		}
		if !bytes.Equal(got, want) {
			return fmt.Errorf("committed box %q of app %d changed although no block was committed: %q -> %q", k[11:], binary.BigEndian.Uint64([]byte(k[3:11])), want, got)
		}
	}
	for _, a := range w.snapshotAddrs() {
		ad, _, _, err := w.l.LookupLatest(a)
		if err != nil {
			return err
		}
		if got := fmt.Sprintf("%+v", ad); got != w.baseAccts[a] {
			return fmt.Errorf("committed account %s changed although no block was committed:\nwas %s\nnow %s", a, evkTrunc(w.baseAccts[a], 1500), evkTrunc(got, 1500))
		}
	}
	return nil
}

func c19NewWorld(t *testing.T, cv protocol.ConsensusVersion) (*c19World, error) {
	ew, err := evkNewWorld(t, cv, false)
	if err != nil {
		return nil, err
	}
	w := &c19World{evkWorld: ew}
	a := w.addrs
	w.poorMin, w.poorOver = evkAddr(0xA1, 1), evkAddr(0xA2, 2)
	w.rekeyed, w.rekeyTo, w.never, w.frozen = a[6], a[7], a[9], a[3]
	mb := w.proto.MinBalance
	w.poorBal = [2]uint64{mb + 5000, mb + 7000}
	for i := 0; i < 4; i++ {
		w.closers = append(w.closers, evkAddr(0xC0, i))
	}
	var g [][]*txntest.Txn
	g = append(g,
		[]*txntest.Txn{{Type: "pay", Sender: a[0], Receiver: w.poorMin, Amount: w.poorBal[0]}},
		[]*txntest.Txn{{Type: "pay", Sender: a[0], Receiver: w.poorOver, Amount: w.poorBal[1]}},
		[]*txntest.Txn{{Type: "pay", Sender: w.rekeyed, Receiver: a[0], Amount: 1, RekeyTo: w.rekeyTo}},
	)
	for _, c := range w.closers {
		g = append(g, []*txntest.Txn{{Type: "pay", Sender: a[0], Receiver: c, Amount: 400_000}})
	}
	for _, i := range []int{1, 2, 3} {
		g = append(g, []*txntest.Txn{
			{Type: "axfer", Sender: a[i], XferAsset: w.asset, AssetReceiver: a[i]},
			{Type: "axfer", Sender: a[0], XferAsset: w.asset, AssetReceiver: a[i], AssetAmount: 100_000},
		})
	}
	for _, i := range []int{1, 2} {
		g = append(g, []*txntest.Txn{{Type: "appl", Sender: a[i], ApplicationID: w.app1, OnCompletion: transactions.OptInOC}})
	}
	if _, err := w.block(g...); err != nil {
		return nil, fmt.Errorf("c19 world block A: %w", err)
	}
	mkbox := func(app basics.AppIndex, name string, ch string, n int) []*txntest.Txn {
		tx := w.call(a[0], app, "bput", name, strings.Repeat(ch, n))
		tx.Boxes = evkBox(name)
		return []*txntest.Txn{tx}
	}
	if _, err := w.block(
		[]*txntest.Txn{{Type: "afrz", Sender: a[0], FreezeAccount: w.frozen, FreezeAsset: w.asset, AssetFrozen: true}},
		mkbox(w.app1, "b0", "A", 16), mkbox(w.app1, "b1", "B", 24), mkbox(w.app2, "b0", "C", 16), mkbox(w.app2, "b2", "D", 20),
		[]*txntest.Txn{w.call(a[0], w.app1, "gput", "k0", "init")},
		[]*txntest.Txn{w.call(a[1], w.app1, "lput", "l0", "init")},
	); err != nil {
		return nil, fmt.Errorf("c19 world block B: %w", err)
	}
	if err := w.snapshot(); err != nil {
		return nil, fmt.Errorf("c19 world snapshot: %w", err)
	}
	if len(w.baseBoxes) != 4 {
		return nil, fmt.Errorf("c19 world: %d boxes", len(w.baseBoxes))
	}
	return w, nil
}

type c19Member struct {
	tx   *txntest.Txn
	auth basics.Address
	desc string
}

type c19Group struct {
	stxns   []transactions.SignedTxn
	descs   []string
	cause   string // "" = constructed to pass
	failIdx int
}

type c19Gen struct {
	rt       *rapid.T
	w        *c19World
	prev     []transactions.SignedTxn // members of earlier groups (for duplicates)
}

// rapid's SampledFrom favours the first entries, so the causes that are detected latest (after every member
// was applied to the child state) come first.
var c19Causes = []string{
	"fee-shortfall", "group-id-wrong", "teal-err", "inner-fail", "minbalance", "box-ref-missing", "group-id-zero",
	"inner-fail-depth2", "teal-reject", "teal-budget", "fee-zero", "dup-in-group", "lease", "authaddr-rekeyed",
	"overspend", "asset-overspend", "asset-not-opted-in", "asset-frozen", "authaddr-bogus", "dup-earlier-group",
	"malformed-range", "malformed-fields", "dead-round", "clearstate-not-opted-in", "no-such-app", "app-not-opted-in",
}

func (g *c19Gen) rich() basics.Address {
	return g.w.addrs[rapid.SampledFrom([]int{0, 1, 2, 4, 5, 8}).Draw(g.rt, "rich")]
}

func (g *c19Gen) anyRecv() basics.Address {
	k := rapid.IntRange(0, 11).Draw(g.rt, "recv")
	switch {
	case k <= 8:
		return g.w.addrs[k]
	case k == 9:
		return g.w.app1.Address()
	case k == 10:
		return g.w.app2.Address()
	default:
		return evkAddr(0xF0, rapid.IntRange(0, 3).Draw(g.rt, "fresh"))
	}
}

func (g *c19Gen) app() basics.AppIndex {
	if rapid.Bool().Draw(g.rt, "app2") {
		return g.w.app2
	}
	return g.w.app1
}

func (g *c19Gen) val() string {
	n := rapid.IntRange(1, 24).Draw(g.rt, "vlen")
	c := rapid.IntRange(0, 25).Draw(g.rt, "vch")
	return strings.Repeat(string(rune('a'+c)), n)
}

// work: a member that does visible work and is expected (not required) to succeed.
func (g *c19Gen) work() c19Member {
	w, a := g.w, g.w.addrs
	kind := rapid.SampledFrom([]string{"bshrinkgrow", "gput", "box", "bresize", "bread", "bsplice", "breplace", "ipay", "lput", "pay", "axfer", "icreate-asset", "icreate-app", "nested-gput",
		"bdel", "gint", "acfg", "asset-optin", "app-optin", "rekeyed-ok", "close", "clear-fail",
		"nested-pay", "gdel", "lease-pay", "keyreg", "pay", "box", "gput"}).Draw(g.rt, "work")
	switch kind {
	case "pay":
		amt := rapid.Uint64Range(100_000, 2_000_000).Draw(g.rt, "amt")
		return c19Member{tx: &txntest.Txn{Type: "pay", Sender: g.rich(), Receiver: g.anyRecv(), Amount: amt}, desc: "pay"}
	case "axfer":
		s := a[rapid.SampledFrom([]int{0, 1, 2}).Draw(g.rt, "as")]
		r := a[rapid.SampledFrom([]int{0, 1, 2}).Draw(g.rt, "ar")]
		return c19Member{tx: &txntest.Txn{Type: "axfer", Sender: s, XferAsset: w.asset, AssetReceiver: r,
			AssetAmount: rapid.Uint64Range(0, 500).Draw(g.rt, "aamt")}, desc: "axfer"}
	case "gput":
		k := fmt.Sprintf("k%d", rapid.IntRange(0, 3).Draw(g.rt, "gk"))
		return c19Member{tx: w.call(g.rich(), g.app(), "gput", k, g.val()), desc: "gput"}
	case "gint":
		k := fmt.Sprintf("u%d", rapid.IntRange(0, 3).Draw(g.rt, "gk"))
		return c19Member{tx: w.call(g.rich(), g.app(), "gint", k, rapid.Uint64Range(0, 1<<40).Draw(g.rt, "gv")), desc: "gint"}
	case "gdel":
		k := fmt.Sprintf("k%d", rapid.IntRange(0, 3).Draw(g.rt, "gk"))
		return c19Member{tx: w.call(g.rich(), g.app(), "gdel", k), desc: "gdel"}
	case "lput":
		s := a[rapid.SampledFrom([]int{1, 2}).Draw(g.rt, "ls")]
		k := fmt.Sprintf("l%d", rapid.IntRange(0, 2).Draw(g.rt, "lk"))
		return c19Member{tx: w.call(s, w.app1, "lput", k, g.val()), desc: "lput"}
	case "box":
		name := fmt.Sprintf("b%d", rapid.IntRange(0, 2).Draw(g.rt, "bn"))
		tx := w.call(g.rich(), g.app(), "bput", name, g.val())
		tx.Boxes = evkBox(name)
		return c19Member{tx: tx, desc: "bput"}
	case "bshrinkgrow", "bresize", "bread", "bsplice", "breplace":
		// in-place style box edits on boxes that exist in the committed ledger (app1: b0,b1; app2: b0,b2) or were
		// written by an earlier group of the block; every one of them is a no-op when the box does not exist
		name := fmt.Sprintf("b%d", rapid.IntRange(0, 2).Draw(g.rt, "bn"))
		var tx *txntest.Txn
		switch kind {
		case "bshrinkgrow":
			small := rapid.IntRange(0, 12).Draw(g.rt, "small")
			tx = w.call(g.rich(), g.app(), kind, name, small, small+rapid.IntRange(1, 16).Draw(g.rt, "regrow"))
		case "bresize":
			tx = w.call(g.rich(), g.app(), kind, name, rapid.IntRange(0, 32).Draw(g.rt, "newSize"))
		case "bread":
			tx = w.call(g.rich(), g.app(), kind, name)
		case "bsplice":
			tx = w.call(g.rich(), g.app(), kind, name, rapid.IntRange(0, 4).Draw(g.rt, "spStart"), rapid.IntRange(0, 4).Draw(g.rt, "spLen"), evkTrunc(g.val(), rapid.IntRange(0, 6).Draw(g.rt, "spRepl")))
		default:
			v := g.val()
			if len(v) > 8 {
				v = v[:8]
			}
			tx = w.call(g.rich(), g.app(), kind, name, v)
		}
		tx.Boxes = evkBox(name)
		return c19Member{tx: tx, desc: kind}
	case "bdel":
		name := fmt.Sprintf("b%d", rapid.IntRange(0, 2).Draw(g.rt, "bn"))
		tx := w.call(g.rich(), g.app(), "bdel", name)
		tx.Boxes = evkBox(name)
		return c19Member{tx: tx, desc: "bdel"}
	case "ipay":
		tx := w.call(g.rich(), g.app(), "pay", rapid.Uint64Range(0, 300_000).Draw(g.rt, "iamt"))
		tx.Accounts = []basics.Address{g.anyRecv()}
		return c19Member{tx: tx, desc: "inner-pay"}
	case "icreate-asset":
		return c19Member{tx: w.call(g.rich(), g.app(), "acreate"), desc: "inner-asset-create"}
	case "icreate-app":
		return c19Member{tx: w.call(g.rich(), g.app(), "appcreate", w.tinyV, rapid.IntRange(0, 2).Draw(g.rt, "nu"), rapid.IntRange(0, 2).Draw(g.rt, "nb")), desc: "inner-app-create"}
	case "acfg":
		return c19Member{tx: &txntest.Txn{Type: "acfg", Sender: g.rich(), AssetParams: basics.AssetParams{Total: 10, UnitName: "w"}}, desc: "asset-create"}
	case "asset-optin":
		s := a[rapid.SampledFrom([]int{4, 5, 8}).Draw(g.rt, "os")]
		return c19Member{tx: &txntest.Txn{Type: "axfer", Sender: s, XferAsset: w.asset, AssetReceiver: s}, desc: "asset-optin"}
	case "app-optin":
		s := a[rapid.SampledFrom([]int{0, 4, 5, 8}).Draw(g.rt, "os")]
		return c19Member{tx: &txntest.Txn{Type: "appl", Sender: s, ApplicationID: g.app(), OnCompletion: transactions.OptInOC}, desc: "app-optin"}
	case "rekeyed-ok":
		return c19Member{tx: &txntest.Txn{Type: "pay", Sender: w.rekeyed, Receiver: g.anyRecv(), Amount: 100_000}, auth: w.rekeyTo, desc: "pay-rekeyed-ok"}
	case "close":
		c := w.closers[rapid.IntRange(0, len(w.closers)-1).Draw(g.rt, "closer")]
		return c19Member{tx: &txntest.Txn{Type: "pay", Sender: c, Receiver: a[0], Amount: 1000, CloseRemainderTo: a[1]}, desc: "close-account"}
	case "clear-fail":
		s := a[rapid.SampledFrom([]int{1, 2}).Draw(g.rt, "cs")]
		tx := w.call(s, w.app1, rapid.SampledFrom([]string{"cerr", "cput"}).Draw(g.rt, "cmode"), "v")
		tx.OnCompletion = transactions.ClearStateOC
		return c19Member{tx: tx, desc: "clear-state-" + string(tx.ApplicationArgs[0])}
	case "nested-gput":
		tx := w.call(g.rich(), w.app1, "call", "gput", "k3", g.val())
		tx.ForeignApps = []basics.AppIndex{w.app2}
		return c19Member{tx: tx, desc: "nested-gput"}
	case "nested-pay":
		tx := w.call(g.rich(), w.app1, "call", "pay", rapid.Uint64Range(0, 200_000).Draw(g.rt, "namt"), "x")
		tx.ForeignApps = []basics.AppIndex{w.app2}
		tx.Accounts = []basics.Address{g.anyRecv()}
		return c19Member{tx: tx, desc: "nested-pay"}
	case "lease-pay":
		tx := &txntest.Txn{Type: "pay", Sender: a[5], Receiver: a[0], Amount: 5}
		tx.Lease[0] = byte(1 + rapid.IntRange(0, 2).Draw(g.rt, "lease"))
		return c19Member{tx: tx, desc: "pay-with-lease"}
	default: // keyreg: go offline / nonparticipating is not reversible, plain offline keyreg is harmless
		return c19Member{tx: &txntest.Txn{Type: "keyreg", Sender: a[rapid.SampledFrom([]int{4, 5}).Draw(g.rt, "ks")]}, desc: "keyreg-offline"}
	}
}

// failing: a member constructed to fail for `cause`. Group-level causes (fee, group id, duplicates) are
// completed in build().
func (g *c19Gen) failing(cause string) c19Member {
	w, a := g.w, g.w.addrs
	switch cause {
	case "overspend":
		return c19Member{tx: &txntest.Txn{Type: "pay", Sender: w.poorOver, Receiver: a[0], Amount: w.poorBal[1] + rapid.Uint64Range(0, 1000).Draw(g.rt, "over")}, desc: "F:overspend"}
	case "asset-overspend":
		return c19Member{tx: &txntest.Txn{Type: "axfer", Sender: a[2], XferAsset: w.asset, AssetReceiver: a[1], AssetAmount: 900_000}, desc: "F:asset-overspend"}
	case "minbalance":
		// amount fixed in build() once the fee is known
		return c19Member{tx: &txntest.Txn{Type: "pay", Sender: w.poorMin, Receiver: a[0]}, desc: "F:minbalance"}
	case "asset-not-opted-in":
		return c19Member{tx: &txntest.Txn{Type: "axfer", Sender: a[0], XferAsset: w.asset, AssetReceiver: w.never, AssetAmount: 1}, desc: "F:asset-not-opted-in"}
	case "asset-frozen":
		return c19Member{tx: &txntest.Txn{Type: "axfer", Sender: w.frozen, XferAsset: w.asset, AssetReceiver: a[1], AssetAmount: 1}, desc: "F:asset-frozen"}
	case "teal-reject":
		return c19Member{tx: w.call(g.rich(), g.app(), "reject"), desc: "F:teal-reject"}
	case "teal-err":
		return c19Member{tx: w.call(g.rich(), g.app(), "err"), desc: "F:teal-err"}
	case "teal-budget":
		return c19Member{tx: w.call(g.rich(), g.app(), "burn"), desc: "F:teal-budget"}
	case "inner-fail":
		tx := w.call(g.rich(), g.app(), "pay", uint64(1_000_000_000_000))
		tx.Accounts = []basics.Address{a[0]}
		return c19Member{tx: tx, desc: "F:inner-overspend"}
	case "inner-fail-depth2":
		var tx *txntest.Txn
		if rapid.Bool().Draw(g.rt, "d2pay") {
			tx = w.call(g.rich(), w.app1, "call", "pay", uint64(1_000_000_000_000), "x")
			tx.Accounts = []basics.Address{a[0]}
		} else {
			tx = w.call(g.rich(), w.app1, "call", rapid.SampledFrom([]string{"reject", "err"}).Draw(g.rt, "d2"), "x", "y")
		}
		tx.ForeignApps = []basics.AppIndex{w.app2}
		return c19Member{tx: tx, desc: "F:inner-depth2"}
	case "authaddr-rekeyed":
		return c19Member{tx: &txntest.Txn{Type: "pay", Sender: w.rekeyed, Receiver: a[0], Amount: 1}, desc: "F:authaddr-rekeyed"}
	case "authaddr-bogus":
		return c19Member{tx: &txntest.Txn{Type: "pay", Sender: a[4], Receiver: a[0], Amount: 1}, auth: a[8], desc: "F:authaddr-bogus"}
	case "malformed-range":
		rnd := w.l.Latest() + 1
		return c19Member{tx: &txntest.Txn{Type: "pay", Sender: g.rich(), Receiver: a[0], Amount: 1, FirstValid: rnd, LastValid: rnd - 1}, desc: "F:malformed-range"}
	case "malformed-fields":
		return c19Member{tx: &txntest.Txn{Type: "pay", Sender: g.rich(), Receiver: a[0], Amount: 1, XferAsset: w.asset}, desc: "F:malformed-fields"}
	case "dead-round":
		rnd := w.l.Latest() + 1
		if rapid.Bool().Draw(g.rt, "early") {
			return c19Member{tx: &txntest.Txn{Type: "pay", Sender: g.rich(), Receiver: a[0], Amount: 1, FirstValid: rnd + 1}, desc: "F:not-yet-valid"}
		}
		return c19Member{tx: &txntest.Txn{Type: "pay", Sender: g.rich(), Receiver: a[0], Amount: 1, FirstValid: rnd - 2, LastValid: rnd - 1}, desc: "F:expired"}
	case "box-ref-missing":
		return c19Member{tx: w.call(g.rich(), g.app(), "bput", "zz", g.val()), desc: "F:box-ref-missing"}
	case "clearstate-not-opted-in":
		tx := w.call(w.never, w.app1, "cput", "v")
		tx.OnCompletion = transactions.ClearStateOC
		return c19Member{tx: tx, desc: "F:clearstate-not-opted-in"}
	case "no-such-app":
		return c19Member{tx: w.call(g.rich(), basics.AppIndex(987654), "gput", "k", "v"), desc: "F:no-such-app"}
	case "app-not-opted-in":
		return c19Member{tx: w.call(w.never, w.app1, "lput", "l0", "v"), desc: "F:app-not-opted-in"}
	case "lease":
		tx := &txntest.Txn{Type: "pay", Sender: a[8], Receiver: a[0], Amount: 7}
		tx.Lease[0], tx.Lease[1] = 0xEE, byte(rapid.IntRange(0, 1).Draw(g.rt, "lz"))
		return c19Member{tx: tx, desc: "F:lease"}
	default:
		// fee-shortfall, fee-zero, group-id-*, dup-*: an ordinary paying member, broken in build()
		return c19Member{tx: &txntest.Txn{Type: "pay", Sender: g.rich(), Receiver: g.anyRecv(), Amount: 100_000}, desc: "F:" + cause}
	}
}

func (g *c19Gen) build() c19Group {
	rt, w := g.rt, g.w
	var n int
	switch k := rapid.IntRange(0, 9).Draw(rt, "sizeClass"); {
	case k <= 5:
		n = rapid.IntRange(1, 4).Draw(rt, "n")
	case k <= 8:
		n = rapid.IntRange(5, 8).Draw(rt, "n")
	default:
		n = rapid.IntRange(9, 16).Draw(rt, "n")
	}
	out := c19Group{failIdx: -1}
	fail := rapid.Bool().Draw(rt, "fail")
	if fail {
		out.cause = rapid.SampledFrom(c19Causes).Draw(rt, "cause")
		// bias the failing member away from index 0
		out.failIdx = rapid.IntRange(0, n-1).Draw(rt, "failIdx")
		if n > 1 && out.failIdx == 0 && rapid.Bool().Draw(rt, "pushLater") {
			out.failIdx = rapid.IntRange(1, n-1).Draw(rt, "failIdx2")
		}
		if out.cause == "dup-in-group" && n == 1 {
			n, out.failIdx = 2, 1
		}
		if out.cause == "dup-in-group" && out.failIdx == 0 {
			out.failIdx = 1
		}
		if out.cause == "dup-earlier-group" && len(g.prev) == 0 {
			out.cause = "teal-reject"
		}
	}
	ms := make([]c19Member, n)
	for i := range ms {
		if i == out.failIdx {
			ms[i] = g.failing(out.cause)
		} else {
			ms[i] = g.work()
		}
	}
	if out.cause == "lease" && out.failIdx > 0 {
		// an earlier member of the same group takes the lease first
		first := *ms[out.failIdx].tx
		first.Amount = 8
		ms[out.failIdx-1] = c19Member{tx: &first, desc: "pay-with-lease"}
	}
	txs := make([]*txntest.Txn, n)
	for i := range ms {
		w.fill(ms[i].tx)
		txs[i] = ms[i].tx
	}
	switch out.cause {
	case "minbalance":
		fee := txs[out.failIdx].Fee.(basics.MicroAlgos).Raw
		txs[out.failIdx].Amount = w.poorBal[0] - w.proto.MinBalance - fee + 1 + rapid.Uint64Range(0, 50).Draw(rt, "below")
	case "fee-shortfall":
		fee := txs[out.failIdx].Fee.(basics.MicroAlgos).Raw
		txs[out.failIdx].Fee = fee - 1 - rapid.Uint64Range(0, fee-1).Draw(rt, "short")
	case "fee-zero":
		txs[out.failIdx].Fee = uint64(0)
	case "dup-in-group":
		src := rapid.IntRange(0, out.failIdx-1).Draw(rt, "dupOf")
		cp := *txs[src]
		txs[out.failIdx] = &cp
		ms[out.failIdx] = c19Member{tx: &cp, auth: ms[src].auth, desc: "F:dup-of-" + ms[src].desc}
	}
	singletonNoGroup := n == 1 && rapid.Bool().Draw(rt, "noGroupID")
	if singletonNoGroup {
		out.stxns = []transactions.SignedTxn{txs[0].SignedTxn()}
	} else {
		out.stxns = txntest.Group(txs...)
	}
	for i := range ms {
		if !ms[i].auth.IsZero() {
			out.stxns[i].AuthAddr = ms[i].auth
		}
		out.descs = append(out.descs, ms[i].desc)
	}
	switch out.cause {
	case "group-id-zero":
		if n > 1 {
			out.stxns[out.failIdx].Txn.Group = crypto.Digest{}
		} else {
			out.stxns[0].Txn.Group = crypto.Digest{1, 2, 3} // a singleton whose group hash does not match
		}
	case "group-id-wrong":
		out.stxns[out.failIdx].Txn.Group[5] ^= 0x40
	case "dup-earlier-group":
		out.stxns[out.failIdx] = g.prev[rapid.IntRange(0, len(g.prev)-1).Draw(rt, "dupPrev")]
		out.descs[out.failIdx] = "F:dup-earlier-group"
	}
	g.prev = append(g.prev, evkCopyGroup(out.stxns)...)
	return out
}

type c19Verdict struct {
	ok      bool
	class   string
	applied int // members applied before the rejection (traced runs only, else -1)
	failed  int
}

// c19Run feeds groups to a fresh evaluator; returns verdicts, block bytes, canonical delta.
func c19Run(rt *rapid.T, w *c19World, groups []c19Group, take []bool, mode string, pretest bool, who string) ([]c19Verdict, []byte, string) {
	var tr *evkTracer
	var tracer logic.EvalTracer
	switch mode {
	case "traced":
		tr = &evkTracer{}
		tracer = tr
	case "upstream-tracer":
		tracer = logic.EvalErrorDetailsTracer{}
	}
	ev, err := w.startEval(tracer)
	if err != nil {
		rt.Fatalf("%s: StartEvaluator: %v", who, err)
	}
	verdicts := make([]c19Verdict, len(groups))
	for i, g := range groups {
		if take != nil && !take[i] {
			continue
		}
		ps0, ctr0 := ev.PaySetSize(), ev.TestingTxnCounter()
		err := evkApply(ev, g.stxns, pretest)
		if err != nil && evkIsPanic(err) {
			rt.Fatalf("%s: group %d %v: evaluator panicked / corrupted: %v", who, i, g.descs, err)
		}
		v := c19Verdict{ok: err == nil, class: evkErrClass(err), applied: -1, failed: -1}
		if tr != nil {
			v.applied, v.failed = tr.applied, tr.failed
		}
		verdicts[i] = v
		ps1, ctr1 := ev.PaySetSize(), ev.TestingTxnCounter()
		if err != nil {
			if ps1 != ps0 || ctr1 != ctr0 {
				rt.Fatalf("%s: rejected group %d %v (%v) moved PaySetSize %d->%d / txn counter %d->%d", who, i, g.descs, err, ps0, ps1, ctr0, ctr1)
			}
		} else {
			if ps1 != ps0+len(g.stxns) {
				rt.Fatalf("%s: accepted group %d of %d txns moved PaySetSize %d->%d", who, i, len(g.stxns), ps0, ps1)
			}
			if ctr1 < ctr0+uint64(len(g.stxns)) {
				rt.Fatalf("%s: accepted group %d of %d txns moved txn counter %d->%d", who, i, len(g.stxns), ctr0, ctr1)
			}
		}
	}
	ub, err := ev.GenerateBlock(nil)
	if err != nil {
		rt.Fatalf("%s: GenerateBlock after %d groups: %v", who, len(groups), err)
	}
	blk := ub.UnfinishedBlock()
	return verdicts, protocol.Encode(&blk), evkCanonDelta(ub.UnfinishedDeltas())
}

func TestVerif_C19_GroupAtomicity(t *testing.T) {
	vk := vkBegin(t, "C19")
	vk.Rule("2..8 groups of 1..16 txns on one in-progress block of a prepared ledger (asset with frozen/non-opted holders, two multi-purpose apps with global/local/box state, rekeyed account, edge-balance accounts); ~50% of groups are built to fail at a drawn member for one of 26 causes while other members pay, move assets, write global/local/box state, run inner payments/creates (depth 1-2), close accounts, clear state. X gets all groups, Y (fresh evaluator, same header) only those X accepted; after every rejected group (prefix twins) and at the end blocks must be byte-identical and StateDeltas canonically identical. Non-trivial = some rejected group had >=1 member fully applied before the rejection. Distinct by member kinds + verdicts.")
	vk.Assume("block header construction (bookkeeping.MakeBlock + fixed timestamp) is the same for X and Y; evaluation of accepted groups is deterministic")
	defer debug.SetGCPercent(debug.SetGCPercent(400))
	worlds := map[string]*c19World{}
	for _, cv := range []protocol.ConsensusVersion{protocol.ConsensusFuture, protocol.ConsensusV41} {
		w, err := c19NewWorld(t, cv)
		if err != nil {
			t.Fatalf("world %s: %v", cv, err)
		}
		defer w.close()
		worlds[string(cv)] = w
	}
	names := []string{string(protocol.ConsensusFuture), string(protocol.ConsensusV41)}
	rapid.Check(t, func(rt *rapid.T) {
		w := worlds[rapid.SampledFrom(names).Draw(rt, "proto")]
		w.noteN = 0
		gen := &c19Gen{rt: rt, w: w}
		ng := rapid.IntRange(2, 8).Draw(rt, "groups")
		groups := make([]c19Group, ng)
		for i := range groups {
			groups[i] = gen.build()
		}
		mode := rapid.SampledFrom([]string{"traced", "untraced", "upstream-tracer"}).Draw(rt, "tracerMode")
		pretest := rapid.Bool().Draw(rt, "pretest")

		// probe run (traced) to learn where groups really fail: labels / non-triviality only
		probe, _, _ := c19Run(rt, w, groups, nil, "traced", false, "probe")

		// checkpoints: after every rejected group + the end
		var cps []int
		for i, v := range probe {
			if !v.ok && i != ng-1 {
				cps = append(cps, i)
			}
		}
		if len(cps) > 2 && !vkThorough() {
			// quick tier: a drawn window of two intermediate checkpoints (thorough: all of them)
			start := rapid.IntRange(0, len(cps)-2).Draw(rt, "cpStart")
			cps = cps[start : start+2]
		}
		cps = append(cps, ng-1)
		var full []c19Verdict
		for _, cp := range cps {
			prefix := groups[:cp+1]
			vx, bx, dx := c19Run(rt, w, prefix, nil, mode, pretest, fmt.Sprintf("X[..%d]", cp))
			take := make([]bool, len(prefix))
			for i := range vx {
				take[i] = vx[i].ok
			}
			vy, by, dy := c19Run(rt, w, prefix, take, mode, false, fmt.Sprintf("Y[..%d]", cp))
			for i := range vx {
				if take[i] && !vy[i].ok {
					rt.Fatalf("checkpoint %d: Y rejected group %d %v (%s) that X accepted after rejected groups", cp, i, prefix[i].descs, vy[i].class)
				}
			}
			if !bytes.Equal(bx, by) {
				rt.Fatalf("checkpoint %d: block bytes differ between X (all groups) and Y (accepted only)\nverdicts=%v\nX=%x\nY=%x", cp, c19Verdicts(vx), bx, by)
			}
			if dx != dy {
				rt.Fatalf("checkpoint %d: StateDelta differs between X (all groups) and Y (accepted only)\nverdicts=%v\n%s", cp, c19Verdicts(vx), evkFirstDiff(dx, dy))
			}
			if cp == ng-1 {
				full = vx
			}
		}

		// the ledger itself was never committed to: its committed boxes / accounts must read back unchanged
		if err := w.checkBase(); err != nil {
			rt.Fatalf("%v\nverdicts=%v", err, c19Verdicts(full))
		}

		// labels + evidence
		nt := false
		seenFail, acceptedAfterFail := false, false
		fp := &strings.Builder{}
		fmt.Fprintf(fp, "%s|", w.cv)
		for i, g := range groups {
			v, p := full[i], probe[i]
			fmt.Fprintf(fp, "%s:%v/", strings.Join(g.descs, ","), v.ok)
			vk.Labelf("groupsize=%s", c19SizeClass(len(g.stxns)))
			if v.ok {
				vk.Label("group accepted")
				if g.cause != "" {
					vk.Label("built-to-fail but accepted: " + g.cause)
				}
				if seenFail {
					acceptedAfterFail = true
				}
				continue
			}
			seenFail = true
			vk.Label("group rejected")
			vk.Label("reject class: " + v.class)
			if g.cause != "" {
				vk.Label("cause: " + g.cause)
			} else {
				vk.Label("built-to-pass but rejected: " + v.class)
			}
			if p.applied >= 1 {
				nt = true
				vk.Label("rejected after >=1 applied member")
				for j, d := range g.descs {
					if j < p.applied && (d == "bshrinkgrow" || d == "bresize" || d == "bsplice" || d == "breplace" || d == "bput" || d == "bdel") {
						vk.Label("rejected after an applied box edit: " + d)
					}
				}
				if p.failed < 0 {
					vk.Label("rejected by group-level check after all members applied")
				}
			} else {
				vk.Label("rejected before any member applied")
			}
		}
		if acceptedAfterFail {
			vk.Label("case: group accepted after a rejected one (X still usable)")
		}
		vk.Label("tracer=" + mode)
		vk.Labelf("checkpoints=%d", len(cps))
		vk.Case(nt, fp.String())
		if vk.WantSample(nt) {
			vk.Sample(nt, map[string]any{"proto": string(w.cv), "tracer": mode, "pretest": pretest, "groups": c19Render(groups, full, probe)})
		}
	})
}

func c19SizeClass(n int) string {
	switch {
	case n == 1:
		return "1"
	case n <= 4:
		return "2-4"
	case n <= 8:
		return "5-8"
	default:
		return "9-16"
	}
}

func c19Verdicts(v []c19Verdict) string {
	var s []string
	for _, x := range v {
		s = append(s, x.class)
	}
	return strings.Join(s, ",")
}

func c19Render(groups []c19Group, full, probe []c19Verdict) []map[string]any {
	var out []map[string]any
	for i, g := range groups {
		out = append(out, map[string]any{"members": g.descs, "cause": g.cause, "failIdx": g.failIdx,
			"accepted": full[i].ok, "class": full[i].class, "appliedBeforeReject": probe[i].applied, "failedMember": probe[i].failed})
	}
	return out
}
