package ledger

// C09 — The ledger recovers to a consistent prefix after a crash (level: fault_enumeration).
//
// A history is produced by Engine C (blocks + reference model). The blocks are then fed to a second, ON-DISK ledger
// (the "victim") to which two harness-defined spy trackers were added (one in front of, one behind the real trackers).
// At the instants the tracker registry calls the spies, and at quiescent instants on the feeding goroutine, a CRASH
// IMAGE is taken: a byte copy of every file of the ledger (block DB, tracker DB, their -wal/-shm/-journal files, the
// catchpoint directory). Every image is reopened with OpenLedger and checked against the model of the prefix it holds.
// See /verif/notes/C09.md for the argument why each image is a state a process kill can leave behind.

import (
	"bytes"
	"context"
	"database/sql"
	"fmt"
	"hash/fnv"
	"io"
	"os"
	"path/filepath"
	"sort"
	"strings"
	"sync"
	"sync/atomic"
	"testing"
	"time"

	"github.com/algorand/msgp/msgp"
	sqlite3 "github.com/mattn/go-sqlite3"
	"pgregory.net/rapid"

	"github.com/algorand/go-algorand/config"
	"github.com/algorand/go-algorand/data/basics"
	"github.com/algorand/go-algorand/data/bookkeeping"
	"github.com/algorand/go-algorand/data/transactions/verify"
	"github.com/algorand/go-algorand/ledger/ledgercore"
	"github.com/algorand/go-algorand/ledger/store/trackerdb"
	"github.com/algorand/go-algorand/ledger/store/trackerdb/sqlitedriver"
	"github.com/algorand/go-algorand/protocol"
	"github.com/algorand/go-algorand/util/db"
)

const (
	c09RoleMain    = iota // feeding goroutine: needs both writers idle
	c09RoleSyncer         // inside committedUpTo (block queue syncer goroutine, or feeding goroutine at quiescence): needs the commit syncer idle
	c09RoleCommit         // inside a commit (commit syncer goroutine): needs the block queue syncer idle
	c09RoleStopped        // feeding goroutine after blockQueue.stop(): the block queue syncer has exited; needs the commit syncer idle
)

type c09Image struct {
	dir        string
	prefix     string
	kind       string
	key        string
	confirmed  basics.Round // greatest r whose WaitForCommit(r)/Wait(r) had returned before the copy started
	upper      basics.Round // number of blocks handed to AddBlock when the copy ended
	firstStage bool         // taken around a catchpoint first stage
	faults     string       // COMMIT failures injected before this image ("" = none)
	forced     bool         // taken because a fault had just been injected
	nontrivial bool
}

// c09Rig is the victim ledger with its spies.
type c09Rig struct {
	tb      testing.TB
	l       *Ledger
	cfg     config.Local
	genesis ledgercore.InitState
	dir     string
	prefix  string

	mu           sync.Mutex // commitActive; held while a copy that needs the commit syncer idle is running
	commitActive bool
	curDcc       string // the commit in progress (commit syncer goroutine only)
	curFirst     bool
	curTx        int
	parked       bool // the harness owns the flush schedule (else the registry flushes after every block flush)

	// fault injection: a COMMIT of the block DB / tracker DB write connection is turned into a rollback by sqlite's
	// commit hook (registered on the connections through database/sql's Conn.Raw; no source hook)
	inject      bool
	armBlock    atomic.Int32 // fail the n-th block DB commit from now (0 = disarmed)
	armTracker  atomic.Int32
	firedBlock  atomic.Int32
	firedTrack  atomic.Int32
	force       atomic.Int32 // image the next instants whatever the selection says
	faultMu     sync.Mutex
	faultLog    []string
	hookedConns int

	confirmed atomic.Uint64
	upper     atomic.Uint64

	listMu   sync.Mutex
	pending  []*c09Image
	occ      map[string]int
	taken    int
	skipped  map[string]int
	copyErrs []string
	imgSeq   int

	all      bool   // thorough: every instant
	seed     uint64 // quick: keyed selection
	maxTaken int
}

type c09Spy struct {
	rig   *c09Rig
	first bool
}

func (s *c09Spy) loadFromDisk(ledgerForTracker, basics.Round) error           { return nil }
func (s *c09Spy) newBlock(blk bookkeeping.Block, delta ledgercore.StateDelta) {}
func (s *c09Spy) close()                                                      {}
func (s *c09Spy) produceCommittingTask(committedRound basics.Round, dbRound basics.Round, dcr *deferredCommitRange) *deferredCommitRange {
	return dcr
}

func (s *c09Spy) committedUpTo(rnd basics.Round) (basics.Round, basics.Round) {
	if !s.first {
		// every real tracker has been told: the block DB holds rnd, nothing of it is in the tracker DB yet
		s.rig.snap("blocks-flushed", fmt.Sprintf("r%d", rnd), c09RoleSyncer, false)
	}
	return rnd, 0
}

func (s *c09Spy) prepareCommit(dcc *deferredCommitContext) error {
	if s.first {
		s.rig.commitBegin(dcc)
		s.rig.snap("prepareCommit-first", c09Dcc(dcc), c09RoleCommit, dcc.catchpointFirstStage)
	} else {
		s.rig.snap("prepareCommit-last", c09Dcc(dcc), c09RoleCommit, dcc.catchpointFirstStage)
	}
	return nil
}

func (s *c09Spy) commitRound(ctx context.Context, tx trackerdb.TransactionScope, dcc *deferredCommitContext) error {
	if s.first {
		s.rig.snap("in-tx-before-trackers", c09Dcc(dcc), c09RoleCommit, dcc.catchpointFirstStage)
	} else {
		s.rig.snap("in-tx-after-trackers", c09Dcc(dcc), c09RoleCommit, dcc.catchpointFirstStage)
	}
	return nil
}

func (s *c09Spy) postCommit(ctx context.Context, dcc *deferredCommitContext) {
	if !s.first {
		s.rig.snap("postCommit", c09Dcc(dcc), c09RoleCommit, dcc.catchpointFirstStage)
	}
}

func (s *c09Spy) postCommitUnlocked(ctx context.Context, dcc *deferredCommitContext) {
	if s.first {
		s.rig.snap("postCommitUnlocked-before-catchpoint-work", c09Dcc(dcc), c09RoleCommit, dcc.catchpointFirstStage)
	} else {
		s.rig.snap("postCommitUnlocked-after-catchpoint-work", c09Dcc(dcc), c09RoleCommit, dcc.catchpointFirstStage)
		s.rig.commitEnd()
	}
}

func (s *c09Spy) handleUnorderedCommit(*deferredCommitContext) {}
func (s *c09Spy) handlePrepareCommitError(*deferredCommitContext) {
	if !s.first {
		s.rig.commitEnd()
	}
}
func (s *c09Spy) handleCommitError(*deferredCommitContext) {
	if !s.first {
		s.rig.commitEnd()
	}
}
func (s *c09Spy) clearCommitRoundRetry(context.Context, *deferredCommitContext) {}

func c09Dcc(dcc *deferredCommitContext) string {
	return fmt.Sprintf("%d+%d", dcc.oldBase, dcc.offset)
}

func (g *c09Rig) commitBegin(dcc *deferredCommitContext) {
	g.mu.Lock()
	g.commitActive = true
	g.curDcc, g.curFirst, g.curTx = c09Dcc(dcc), dcc.catchpointFirstStage, 0
	g.mu.Unlock()
}

// c09Store wraps the tracker store handle used by the registry's commitRound and by the catchpoint tracker: after every
// read-write transaction they run during a commit (committed or rolled back) it offers one more crash instant.
type c09Store struct {
	trackerdb.Store
	rig *c09Rig
}

func (st *c09Store) after() {
	g := st.rig
	g.mu.Lock()
	active := g.commitActive
	g.curTx++
	ctx, first, i := g.curDcc, g.curFirst, g.curTx
	g.mu.Unlock()
	if active {
		g.snap("after-tracker-db-transaction", fmt.Sprintf("%s#%d", ctx, i), c09RoleCommit, first)
	}
}

func (st *c09Store) Transaction(fn trackerdb.TransactionFn) error {
	err := st.Store.Transaction(fn)
	st.after()
	return err
}

func (st *c09Store) TransactionWithRetryClearFn(fn trackerdb.TransactionFn, rc trackerdb.RetryClearFn) error {
	err := st.Store.TransactionWithRetryClearFn(fn, rc)
	st.after()
	return err
}

func (st *c09Store) TransactionContext(ctx context.Context, fn trackerdb.TransactionFn) error {
	err := st.Store.TransactionContext(ctx, fn)
	st.after()
	return err
}

func (st *c09Store) TransactionContextWithRetryClearFn(ctx context.Context, fn trackerdb.TransactionFn, rc trackerdb.RetryClearFn) error {
	err := st.Store.TransactionContextWithRetryClearFn(ctx, fn, rc)
	st.after()
	return err
}

func (g *c09Rig) commitEnd() {
	g.mu.Lock()
	g.commitActive = false
	g.mu.Unlock()
}

// c09QuickRate: in the quick tier one instant in N is imaged (keyed by the drawn seed, the instant and its occurrence
// number), N per kind so that the ~15 images of a history are spread over the whole history and over the kinds.
var c09QuickRate = map[string]uint64{"after-WaitForCommit": 10, "quiescent": 12, "between-AddBlock-calls": 4, "blocks-flushed": 7, "after-forced-commit": 6}

func (g *c09Rig) want(kind, key string) bool {
	g.listMu.Lock()
	defer g.listMu.Unlock()
	g.occ[key]++
	if g.force.Load() > 0 {
		g.force.Add(-1)
		return true
	}
	if g.taken >= g.maxTaken {
		g.skipped["cap"]++
		return false
	}
	if g.all {
		return true
	}
	h := fnv.New64a()
	fmt.Fprintf(h, "%d|%s|%d", g.seed, key, g.occ[key])
	rate := c09QuickRate[kind]
	if rate == 0 {
		rate = 5 // the instants inside a commit
	}
	return h.Sum64()%rate == 0
}

// snap takes a crash image if this instant is selected and the copy is safe: no goroutine may be in the middle of
// writing to one of the databases while the files are read (a copy taken during a write is not a state that exists
// at any single instant). The caller's own goroutine is one of the two writers and is standing still in the callback;
// the other writer is excluded as described at the role constants.
func (g *c09Rig) snap(kind, ctx string, role int, firstStage bool) {
	key := kind + "@" + ctx
	if !g.want(kind, key) {
		return
	}
	l := g.l
	if role == c09RoleMain || role == c09RoleSyncer || role == c09RoleStopped {
		g.mu.Lock()
		defer g.mu.Unlock()
		if g.commitActive {
			g.skip("commit-running")
			return
		}
	}
	if role == c09RoleMain || role == c09RoleCommit {
		bq := l.blockQ
		bq.mu.Lock()
		defer bq.mu.Unlock()
		if len(bq.q) > 0 {
			// the block queue syncer may be inside its write transaction
			g.skip("block-flush-running")
			return
		}
	}
	confirmed := basics.Round(g.confirmed.Load())
	g.listMu.Lock()
	g.imgSeq++
	seq := g.imgSeq
	g.listMu.Unlock()
	dir := filepath.Join(g.dir, fmt.Sprintf("img-%03d", seq))
	err := c09CopyLedgerFiles(g.prefix, dir)
	img := &c09Image{dir: dir, prefix: filepath.Join(dir, filepath.Base(g.prefix)), kind: kind, key: key, confirmed: confirmed,
		upper: basics.Round(g.upper.Load()), firstStage: firstStage, faults: g.faults()}
	g.listMu.Lock()
	if err != nil {
		g.copyErrs = append(g.copyErrs, fmt.Sprintf("%s: %v", key, err))
	} else {
		g.pending = append(g.pending, img)
		g.taken++
	}
	g.listMu.Unlock()
}

func (g *c09Rig) skip(why string) {
	g.listMu.Lock()
	g.skipped[why]++
	g.listMu.Unlock()
}

// c09CopyLedgerFiles copies <prefix>.* (databases with their -wal/-shm/-journal companions) and the directory <prefix>/
// (catchpoint files) into dstDir, byte for byte.
func c09CopyLedgerFiles(prefix, dstDir string) error {
	if err := os.MkdirAll(dstDir, 0o755); err != nil {
		return err
	}
	base := filepath.Base(prefix)
	entries, err := os.ReadDir(filepath.Dir(prefix))
	if err != nil {
		return err
	}
	for _, e := range entries {
		name := e.Name()
		src := filepath.Join(filepath.Dir(prefix), name)
		switch {
		case !e.IsDir() && strings.HasPrefix(name, base+"."):
			if err := c09CopyFile(src, filepath.Join(dstDir, name)); err != nil {
				return err
			}
		case e.IsDir() && name == base:
			err := filepath.Walk(src, func(p string, info os.FileInfo, err error) error {
				if err != nil {
					if os.IsNotExist(err) {
						return nil // a temporary file of the catchpoint writer that went away
					}
					return err
				}
				rel, _ := filepath.Rel(src, p)
				dst := filepath.Join(dstDir, base, rel)
				if info.IsDir() {
					return os.MkdirAll(dst, 0o755)
				}
				if err := c09CopyFile(p, dst); err != nil && !os.IsNotExist(err) {
					return err
				}
				return nil
			})
			if err != nil {
				return err
			}
		}
	}
	return nil
}

func c09CopyFile(src, dst string) error {
	in, err := os.Open(src)
	if err != nil {
		return err
	}
	defer in.Close()
	out, err := os.Create(dst)
	if err != nil {
		return err
	}
	if _, err := io.Copy(out, in); err != nil {
		out.Close()
		return err
	}
	return out.Close()
}

// ---------------------------------------------------------------------------------------------------------------
// victim lifecycle

func (g *c09Rig) faults() string {
	g.faultMu.Lock()
	defer g.faultMu.Unlock()
	return strings.Join(g.faultLog, ",")
}

// commitHook is sqlite's commit hook: a non-zero return turns the COMMIT into a ROLLBACK and the COMMIT statement fails
// with SQLITE_CONSTRAINT_COMMITHOOK (not a busy/locked error, so util/db does not retry it).
func (g *c09Rig) commitHook(which string, arm, fired *atomic.Int32) func() int {
	return func() int {
		for {
			v := arm.Load()
			if v <= 0 {
				return 0
			}
			if arm.CompareAndSwap(v, v-1) {
				if v != 1 {
					return 0
				}
				n := fired.Add(1)
				g.faultMu.Lock()
				g.faultLog = append(g.faultLog, fmt.Sprintf("%s-commit-failed#%d", which, n))
				g.faultMu.Unlock()
				g.force.Store(4) // the instants right after the failed commit are imaged
				return 1
			}
		}
	}
}

// c09HookConns registers the commit hook on the connections of a database/sql pool: three connections are taken at
// once (more than the pool keeps idle), hooked through Conn.Raw and given back. A connection the pool opens later has no
// hook: the injection then simply does not fire (counted).
func c09HookConns(h *sql.DB, hook func() int) (int, error) {
	ctx := context.Background()
	var conns []*sql.Conn
	defer func() {
		for _, c := range conns {
			c.Close()
		}
	}()
	n := 0
	for i := 0; i < 3; i++ {
		c, err := h.Conn(ctx)
		if err != nil {
			return n, err
		}
		conns = append(conns, c)
		err = c.Raw(func(dc any) error {
			sc, ok := dc.(*sqlite3.SQLiteConn)
			if !ok {
				return fmt.Errorf("driver connection is %T", dc)
			}
			sc.RegisterCommitHook(hook)
			return nil
		})
		if err != nil {
			return n, err
		}
		n++
	}
	return n, nil
}

func (g *c09Rig) open() error {
	l, err := OpenLedger(engcLogger(), g.prefix, false, g.genesis, g.cfg)
	if err != nil {
		return err
	}
	l.verifiedTxnCache = verify.GetMockedCache(true)
	g.l = l
	g.quiesce()
	if g.inject {
		// The tracker store is replaced by one built with the exported constructors on handles the rig can reach
		// (sqlitedriver.Open = db.OpenPair + MakeStore), then reloadLedger() re-creates every tracker on it.
		pair, err := db.OpenPair(g.prefix+".tracker.sqlite", false)
		if err != nil {
			return fmt.Errorf("second tracker store: %w", err)
		}
		pair.Rdb.SetLogger(engcLogger())
		pair.Wdb.SetLogger(engcLogger())
		old := l.trackerDBs
		l.trackerDBs = sqlitedriver.MakeStore(pair)
		l.setSynchronousMode(context.Background(), l.synchronousMode)
		if err := l.reloadLedger(); err != nil {
			return fmt.Errorf("reloadLedger on the replaced tracker store: %w", err)
		}
		old.Close()
		g.quiesce()
		nb, err := c09HookConns(l.blockDBs.Wdb.Handle, g.commitHook("block-db", &g.armBlock, &g.firedBlock))
		if err != nil {
			return fmt.Errorf("commit hook (block db): %w", err)
		}
		nt, err := c09HookConns(pair.Wdb.Handle, g.commitHook("tracker-db", &g.armTracker, &g.firedTrack))
		if err != nil {
			return fmt.Errorf("commit hook (tracker db): %w", err)
		}
		g.hookedConns = nb + nt
	}
	g.installSpies()
	return nil
}

// installSpies: nothing is running (quiescent) and both locks that guard the slice are held.
func (g *c09Rig) installSpies() {
	l := g.l
	l.trackerMu.Lock()
	l.trackers.mu.Lock()
	trs := []ledgerTracker{&c09Spy{rig: g, first: true}}
	trs = append(trs, l.trackers.trackers...)
	trs = append(trs, &c09Spy{rig: g})
	l.trackers.trackers = trs
	wrapped := &c09Store{Store: l.trackers.dbs, rig: g}
	l.trackers.dbs = wrapped
	l.catchpoint.dbs = wrapped
	l.trackers.mu.Unlock()
	l.trackerMu.Unlock()
}

func c09Park(l *Ledger, parked bool) {
	l.trackers.mu.Lock()
	if parked {
		l.trackers.lastFlushTime = time.Now().Add(10000 * time.Hour)
	} else {
		l.trackers.lastFlushTime = time.Time{}
	}
	l.trackers.mu.Unlock()
}

func c09Quiesce(l *Ledger) {
	latest := l.Latest()
	l.WaitForCommit(latest)
	<-l.Wait(latest)
	l.trackerMu.Lock()
	l.trackerMu.Unlock() //nolint:staticcheck
	l.trackers.waitAccountsWriting()
}

func (g *c09Rig) quiesce() {
	c09Quiesce(g.l)
	c09Park(g.l, g.parked)
}

// commit forces a tracker commit exactly like the block queue syncer triggers one (Ledger.notifyCommit).
func (g *c09Rig) commit() {
	g.quiesce()
	c09Park(g.l, false)
	g.l.notifyCommit(g.l.Latest())
	g.l.trackers.waitAccountsWriting()
	g.quiesce()
}

// c09OnlyFaults (environment VERIF_C09_FAULTS = "block" | "tracker") restricts the injected COMMIT failures to one
// database; used only for the sensitivity runs (to see each side of a defect separately). Unset in normal runs.
var c09OnlyFaults = os.Getenv("VERIF_C09_FAULTS")

const c09FlushTimeout = 90 * time.Second

// waitDurable waits until the ledger confirms that block r is durable: through the Wait(r) channel, or by polling
// LatestCommitted() (the condition WaitForCommit sleeps on) followed by WaitForCommit(r). false = not within c09FlushTimeout
// (wall clock is used only to give up, never for a verdict).
func (g *c09Rig) waitDurable(r basics.Round, channel bool) bool {
	l := g.l
	deadline := time.Now().Add(c09FlushTimeout)
	if channel {
		select {
		case <-l.Wait(r):
			return true
		case <-time.After(c09FlushTimeout):
			return false
		}
	}
	for {
		if committed, _ := l.LatestCommitted(); committed >= r {
			l.WaitForCommit(r)
			return true
		}
		if time.Now().After(deadline) {
			return false
		}
		time.Sleep(200 * time.Microsecond)
	}
}

func (g *c09Rig) close() {
	if g.l != nil {
		g.l.Close()
		g.l = nil
	}
}

func (g *c09Rig) takePending() []*c09Image {
	g.listMu.Lock()
	defer g.listMu.Unlock()
	p := g.pending
	g.pending = nil
	return p
}

// ---------------------------------------------------------------------------------------------------------------
// reading an image with a plain sqlite connection (on a copy of the copy, so that the image itself stays untouched)

type c09Peek struct {
	trackerRound               basics.Round
	blockMin, blockMax, blocks int64
}

func c09PeekImage(img *c09Image) (c09Peek, error) {
	var p c09Peek
	peekDir := img.dir + "-peek"
	defer os.RemoveAll(peekDir)
	if err := c09CopyLedgerFiles(img.prefix, peekDir); err != nil {
		return p, err
	}
	pp := filepath.Join(peekDir, filepath.Base(img.prefix))
	q := func(file, query string, dst ...any) error {
		db, err := sql.Open("sqlite3", "file:"+file+"?_busy_timeout=5000")
		if err != nil {
			return err
		}
		defer db.Close()
		return db.QueryRow(query).Scan(dst...)
	}
	var rnd int64
	if err := q(pp+".tracker.sqlite", "SELECT rnd FROM acctrounds WHERE id='acctbase'", &rnd); err != nil {
		return p, fmt.Errorf("tracker db: %w", err)
	}
	p.trackerRound = basics.Round(rnd)
	if err := q(pp+".block.sqlite", "SELECT MIN(rnd), MAX(rnd), COUNT(*) FROM blocks", &p.blockMin, &p.blockMax, &p.blocks); err != nil {
		return p, fmt.Errorf("block db: %w", err)
	}
	return p, nil
}

// ---------------------------------------------------------------------------------------------------------------
// comparator: ledger answers at round r against the model snapshot of r

func c09Enc[T any, P interface {
	*T
	msgp.Marshaler
}](v *T) []byte {
	if v == nil {
		return nil
	}
	return protocol.Encode(P(v))
}

type c09Universe struct {
	addrs      []basics.Address
	creatables []basics.CreatableIndex
	ctypes     map[basics.CreatableIndex]basics.CreatableType
	kvKeys     []string
}

func c09MakeUniverse(w *engcWorld) *c09Universe {
	u := &c09Universe{}
	seen := map[basics.Address]bool{}
	for _, a := range append(w.Addrs(), w.Model.EverAddrs()...) {
		if !seen[a] {
			seen[a] = true
			u.addrs = append(u.addrs, a)
		}
	}
	u.creatables, u.ctypes = w.Model.EverCreatables()
	u.kvKeys = w.Model.EverKvKeys()
	return u
}

// c09Totals recomputes the account totals of a model snapshot from its accounts (definition: ledgercore/totals.go).
func c09Totals(s *engcSnap) ledgercore.AccountTotals {
	var t ledgercore.AccountTotals
	t.RewardsLevel = s.RewardsLevel
	unit := s.Proto.RewardUnit
	for _, a := range s.Accts {
		d := a.Data
		units := d.MicroAlgos.Raw / unit
		money := d.MicroAlgos.Raw
		var cl *ledgercore.AlgoCount
		switch d.Status {
		case basics.Online:
			cl = &t.Online
		case basics.Offline:
			cl = &t.Offline
		default:
			cl = &t.NotParticipating
		}
		if d.Status != basics.NotParticipating {
			money += units * (s.RewardsLevel - d.RewardsBase)
		}
		cl.Money.Raw += money
		cl.RewardUnits += units
	}
	return t
}

// c09Compare returns "" when every lookup of the ledger at round r equals the model snapshot, else the first difference.
func c09Compare(l *Ledger, u *c09Universe, s *engcSnap, r basics.Round) (diff string, lookups int) {
	for _, addr := range u.addrs {
		got, _, err := l.LookupWithoutRewards(r, addr)
		lookups++
		if err != nil {
			return fmt.Sprintf("LookupWithoutRewards(%d, %v): %v", r, addr, err), lookups
		}
		if want := s.Acct(addr).Data; got != want {
			return fmt.Sprintf("LookupWithoutRewards(%d, %v) = %+v, model %+v", r, addr, got, want), lookups
		}
		acct := s.Acct(addr)
		for _, id := range u.creatables {
			if u.ctypes[id] == basics.AssetCreatable {
				res, err := l.LookupAsset(r, addr, basics.AssetIndex(id))
				lookups++
				if err != nil {
					return fmt.Sprintf("LookupAsset(%d, %v, %d): %v", r, addr, id, err), lookups
				}
				var wh *basics.AssetHolding
				var wp *basics.AssetParams
				if h, ok := acct.Assets[basics.AssetIndex(id)]; ok {
					wh = &h
				}
				if p, ok := acct.AssetParams[basics.AssetIndex(id)]; ok {
					wp = &p
				}
				if (res.AssetHolding == nil) != (wh == nil) || (res.AssetParams == nil) != (wp == nil) ||
					!bytes.Equal(c09Enc(res.AssetHolding), c09Enc(wh)) || !bytes.Equal(c09Enc(res.AssetParams), c09Enc(wp)) {
					return fmt.Sprintf("LookupAsset(%d, %v, %d) = holding %+v params %+v, model holding %+v params %+v", r, addr, id, res.AssetHolding, res.AssetParams, wh, wp), lookups
				}
			} else {
				res, err := l.LookupApplication(r, addr, basics.AppIndex(id))
				lookups++
				if err != nil {
					return fmt.Sprintf("LookupApplication(%d, %v, %d): %v", r, addr, id, err), lookups
				}
				var wl *basics.AppLocalState
				var wp *basics.AppParams
				if h, ok := acct.AppLocals[basics.AppIndex(id)]; ok {
					wl = &h
				}
				if p, ok := acct.AppParams[basics.AppIndex(id)]; ok {
					wp = &p
				}
				if (res.AppLocalState == nil) != (wl == nil) || (res.AppParams == nil) != (wp == nil) ||
					!bytes.Equal(c09Enc(res.AppLocalState), c09Enc(wl)) || !bytes.Equal(c09Enc(res.AppParams), c09Enc(wp)) {
					return fmt.Sprintf("LookupApplication(%d, %v, %d) = local %+v params %+v, model local %+v params %+v", r, addr, id, res.AppLocalState, res.AppParams, wl, wp), lookups
				}
			}
		}
	}
	for _, id := range u.creatables {
		got, ok, err := l.GetCreatorForRound(r, id, u.ctypes[id])
		lookups++
		if err != nil {
			return fmt.Sprintf("GetCreatorForRound(%d, %d): %v", r, id, err), lookups
		}
		want, wok := s.Creator(id, u.ctypes[id])
		if ok != wok || got != want {
			return fmt.Sprintf("GetCreatorForRound(%d, %d) = %v %v, model %v %v", r, id, got, ok, want, wok), lookups
		}
	}
	for _, k := range u.kvKeys {
		got, err := l.LookupKv(r, k)
		lookups++
		if err != nil {
			return fmt.Sprintf("LookupKv(%d, %q): %v", r, k, err), lookups
		}
		want, ok := s.Kv[k]
		if (got != nil) != ok || !bytes.Equal(got, want) {
			return fmt.Sprintf("LookupKv(%d, %q) = %x (present %v), model %x (present %v)", r, k, got, got != nil, want, ok), lookups
		}
	}
	tot, err := l.Totals(r)
	lookups++
	if err != nil {
		return fmt.Sprintf("Totals(%d): %v", r, err), lookups
	}
	if want := c09Totals(s); tot != want {
		return fmt.Sprintf("Totals(%d) = %+v, sum over the model accounts %+v", r, tot, want), lookups
	}
	return "", lookups
}

// c09CompareWindow compares every round the ledger serves, [tracker DB round, latest].
func c09CompareWindow(l *Ledger, u *c09Universe, m *engcModel) (diff string, rounds, lookups int) {
	latest := l.Latest()
	d := l.LatestTrackerCommitted()
	for r := d; r <= latest; r++ {
		df, n := c09Compare(l, u, m.At(r), r)
		lookups += n
		rounds++
		if df != "" {
			return fmt.Sprintf("(tracker DB round %d, latest %d) %s", d, latest, df), rounds, lookups
		}
	}
	return "", rounds, lookups
}

// ---------------------------------------------------------------------------------------------------------------
// the check

type c09Case struct {
	tb     *testing.T
	vk     *vkCtx
	w      *engcWorld
	u      *c09Universe
	blocks []bookkeeping.Block // index = round (0 unused)
	encs   [][]byte
	n      basics.Round
	rig    *c09Rig
	trace  []string
	images int
	ntImgs int
}

func (c *c09Case) tracef(format string, args ...any) {
	c.trace = append(c.trace, fmt.Sprintf(format, args...))
}

func (c *c09Case) failf(t *rapid.T, format string, args ...any) {
	h := c.w.History
	if len(h) > 45 {
		h = h[len(h)-45:]
	}
	tr := c.trace
	if len(tr) > 60 {
		tr = tr[len(tr)-60:]
	}
	t.Fatalf("C09 VIOLATION: %s\n--- victim schedule (tail) ---\n%s\n--- history (tail) ---\n%s", fmt.Sprintf(format, args...), strings.Join(tr, "\n"), strings.Join(h, "\n"))
}

// evalImage reopens one crash image and applies the oracle (i)-(v).
func (c *c09Case) evalImage(t *rapid.T, img *c09Image) {
	defer os.RemoveAll(img.dir)
	vk := c.vk
	desc := fmt.Sprintf("image %s (confirmed durable: %d, handed to AddBlock: %d)", img.key, img.confirmed, img.upper)
	if img.faults != "" {
		desc += " after injected faults [" + img.faults + "]"
	}
	peek, err := c09PeekImage(img)
	if err != nil {
		c.failf(t, "%s: the copied databases cannot be read with a plain sqlite connection: %v", desc, err)
	}
	desc += fmt.Sprintf(" [image: tracker round %d, blocks %d..%d (%d rows)]", peek.trackerRound, peek.blockMin, peek.blockMax, peek.blocks)
	if int64(peek.trackerRound) > peek.blockMax {
		c.failf(t, "%s: the tracker DB of the image is at round %d, ahead of its block DB (max round %d)", desc, peek.trackerRound, peek.blockMax)
	}
	if peek.blocks != peek.blockMax-peek.blockMin+1 {
		c.failf(t, "%s: the block DB of the image has holes", desc)
	}
	l2, err := OpenLedger(engcLogger(), img.prefix, false, c.rig.genesis, c.rig.cfg)
	if err != nil {
		c.failf(t, "%s: OpenLedger on the crash image failed: %v", desc, err)
	}
	defer l2.Close()
	l2.verifiedTxnCache = verify.GetMockedCache(true)
	c09Quiesce(l2)
	c09Park(l2, true)
	k := l2.Latest()
	// (ii) every confirmed block is there, and nothing that was never added
	if k < img.confirmed {
		c.failf(t, "%s: reopened ledger is at round %d although the durable write of block %d had been confirmed before the crash", desc, k, img.confirmed)
	}
	if k > img.upper {
		c.failf(t, "%s: reopened ledger is at round %d although only %d blocks had been added", desc, k, img.upper)
	}
	// (i) contiguous, byte-identical prefix
	for r := basics.Round(1); r <= k; r++ {
		enc, _, err := l2.EncodedBlockCert(r)
		if err != nil {
			c.failf(t, "%s: reopened ledger (latest %d) cannot return block %d: %v", desc, k, r, err)
		}
		if !bytes.Equal(enc, c.encs[r]) {
			c.failf(t, "%s: block %d of the reopened ledger differs from the block that was added", desc, r)
		}
	}
	// (iii) tracker round never ahead of the blocks
	if d := l2.LatestTrackerCommitted(); d > k || peek.trackerRound > k {
		c.failf(t, "%s: tracker DB round %d (image: %d) is ahead of the latest block %d", desc, d, peek.trackerRound, k)
	}
	// (iv) the state of the prefix
	diff, rounds, lookups := c09CompareWindow(l2, c.u, c.w.Model)
	vk.Add("lookups", int64(lookups))
	vk.Add("rounds_compared_after_reopen", int64(rounds))
	if diff != "" {
		c.failf(t, "%s: reopened at round %d, state differs from replaying blocks 1..%d: %s", desc, k, k, diff)
	}
	// (v) continue on top of the recovered ledger
	for r := k + 1; r <= c.n; r++ {
		if err := l2.AddBlock(c.blocks[r], engcCert); err != nil {
			c.failf(t, "%s: reopened at round %d; adding block %d on top failed: %v", desc, k, r, err)
		}
	}
	c09Quiesce(l2)
	if l2.Latest() != c.n {
		c.failf(t, "%s: reopened at round %d; after adding the remaining blocks latest is %d, want %d", desc, k, l2.Latest(), c.n)
	}
	diff, _, lookups = c09CompareWindow(l2, c.u, c.w.Model)
	vk.Add("lookups", int64(lookups))
	if diff != "" {
		c.failf(t, "%s: reopened at round %d; after adding blocks %d..%d the state differs from the uncrashed history: %s", desc, k, k+1, c.n, diff)
	}
	c09Park(l2, false)
	l2.notifyCommit(l2.Latest())
	l2.trackers.waitAccountsWriting()
	c09Quiesce(l2)
	diff, _, lookups = c09CompareWindow(l2, c.u, c.w.Model)
	vk.Add("lookups", int64(lookups))
	if diff != "" {
		c.failf(t, "%s: reopened at round %d; after adding blocks %d..%d and a tracker commit the state differs from the uncrashed history: %s", desc, k, k+1, c.n, diff)
	}

	// ---- evidence
	nontrivial := false
	switch img.kind {
	case "blocks-flushed":
		nontrivial = int64(peek.trackerRound) < peek.blockMax
	case "prepareCommit-first", "prepareCommit-last", "in-tx-before-trackers", "in-tx-after-trackers":
		nontrivial = true
	case "postCommitUnlocked-before-catchpoint-work", "postCommitUnlocked-after-catchpoint-work", "postCommit", "after-tracker-db-transaction":
		nontrivial = img.firstStage
	}
	if strings.HasPrefix(img.kind, "stop-while-queued") {
		nontrivial = true
	}
	if img.faults != "" {
		nontrivial = true
		vk.Label("image-after-injected-commit-failure:" + img.kind)
		if strings.Contains(img.faults, "block-db") {
			vk.Label("image-after-failed-block-db-commit")
		}
		if strings.Contains(img.faults, "tracker-db") {
			vk.Label("image-after-failed-tracker-db-commit")
		}
	}
	c.images++
	if nontrivial {
		c.ntImgs++
	}
	vk.Case(nontrivial, strings.Join(c.w.History, "|")+"#"+strings.Join(c.trace, "|")+"#"+img.key)
	vk.Label("image:" + img.kind)
	if img.firstStage {
		vk.Label("image-around-catchpoint-first-stage:" + img.kind)
	}
	vk.Labelf("reopened-latest-vs-added:%s", c09Rel(int64(k), int64(img.upper)))
	vk.Labelf("image-tracker-round-behind-blocks:%s", c09Lag(peek.blockMax-int64(peek.trackerRound)))
	if int64(k) != peek.blockMax {
		vk.Label("reopened-latest-differs-from-image-block-max")
	}
	if k < c.n {
		vk.Label("continued-with-remaining-blocks")
	}
	if vk.WantSample(nontrivial) {
		vk.Sample(nontrivial, map[string]any{"image": img.key, "injected_faults": img.faults, "confirmed": img.confirmed, "added": img.upper, "image_tracker_round": peek.trackerRound,
			"image_block_max": peek.blockMax, "reopened_latest": k, "history_blocks": c.n, "victim_schedule": c.trace})
	}
}

func c09Rel(k, upper int64) string {
	if k == upper {
		return "equal"
	}
	return "fewer(added-but-not-durable)"
}

func c09Lag(d int64) string {
	switch {
	case d == 0:
		return "0"
	case d <= 2:
		return "1-2"
	case d <= 8:
		return "3-8"
	}
	return ">8"
}

func (c *c09Case) drain(t *rapid.T) {
	rig := c.rig
	rig.listMu.Lock()
	errs := rig.copyErrs
	rig.copyErrs = nil
	rig.listMu.Unlock()
	if len(errs) > 0 {
		t.Fatalf("ENGINE: copying ledger files failed: %v", errs)
	}
	for _, img := range rig.takePending() {
		c.tracef("  image %s", img.key)
		c.evalImage(t, img)
	}
}

// stopWhileQueued is the shutdown scenario "the block queue is stopped while blocks are queued": the block-DB flush is
// stalled by a write lock held on a second connection of the block DB (BEGIN IMMEDIATE), 1-3 blocks are added (they sit
// in the queue; the syncer is blocked beginning its transaction), one goroutine per added round calls WaitForCommit,
// then Close() or reloadLedger() is started on another goroutine (both begin with blockQueue.stop(), which does not
// drain the queue and waits for the syncer, i.e. for the stall). While everything stands still a crash image is taken
// (= the process is killed during shutdown); every round whose WaitForCommit had RETURNED by then counts as confirmed
// (oracle ii). Then the stall is released, the shutdown completes, a second image is taken, and the history continues on
// the reopened / reloaded ledger from whatever is durable. On the clean tree a waiter for a block that was never flushed
// does not return (it stays blocked on the closed ledger: the goroutine is left behind, by design of the scenario).
// Wall clock is used only to stop waiting for waiters, never for a verdict.
func (c *c09Case) stopWhileQueued(t *rapid.T, next *basics.Round) {
	rig, vk := c.rig, c.vk
	rig.quiesce()
	l := rig.l
	nAdd := rapid.IntRange(1, 3).Draw(t, "stop.blocks")
	useReload := rapid.IntRange(0, 2).Draw(t, "stop.reload") == 0
	lateWaiter := rapid.Bool().Draw(t, "stop.lateWaiter")
	if int(c.n-*next)+1 < nAdd {
		nAdd = int(c.n-*next) + 1
	}
	ctx := context.Background()
	conn, err := l.blockDBs.Wdb.Handle.Conn(ctx)
	if err != nil {
		t.Fatalf("ENGINE: block db connection: %v", err)
	}
	stall, err := conn.BeginTx(ctx, nil) // _txlock=immediate: takes the write lock now
	if err != nil {
		conn.Close()
		t.Fatalf("ENGINE: BEGIN IMMEDIATE on the block db: %v", err)
	}
	released := false
	release := func() {
		if !released {
			released = true
			stall.Rollback()
			conn.Close()
		}
	}
	defer release()
	first := *next
	returned := make([]atomic.Bool, nAdd+1)
	wait := func(i int, r basics.Round) {
		go func() {
			l.WaitForCommit(r)
			returned[i].Store(true)
		}()
	}
	for i := 0; i < nAdd; i++ {
		rig.upper.Store(uint64(*next))
		if err := l.AddBlock(c.blocks[*next], engcCert); err != nil {
			c.failf(t, "victim: adding block %d failed: %v", *next, err)
		}
		if !(lateWaiter && i == nAdd-1) {
			wait(i, *next)
		}
		*next++
	}
	last := *next - 1
	done := make(chan error, 1)
	go func() {
		if useReload {
			done <- l.reloadLedger()
		} else {
			l.Close()
			done <- nil
		}
	}()
	// wait until blockQueue.stop() has been entered (running == false). If the syncer had not yet picked the blocks up when
	// the stop came, it exits at once and reloadLedger() restarts the queue and returns before the poll sees running ==
	// false: then the call has simply finished (the restarted syncer is the one stalled by the lock).
	stopped, finished := false, false
	var doneErr error
	for deadline := time.Now().Add(10 * time.Second); time.Now().Before(deadline) && !stopped && !finished; time.Sleep(200 * time.Microsecond) {
		select {
		case doneErr = <-done:
			finished = true
		default:
		}
		l.blockQ.mu.Lock()
		stopped = !l.blockQ.running
		l.blockQ.mu.Unlock()
	}
	if !stopped && !finished {
		t.Fatalf("ENGINE: blockQueue.stop() was not entered within 10s")
	}
	if lateWaiter {
		wait(nAdd-1, last) // a caller that enters WaitForCommit after the stop
	}
	time.Sleep(150 * time.Millisecond) // give returning waiters the time to return; only used to stop waiting
	confirmed := func() (basics.Round, string) {
		var max basics.Round
		var which []string
		for i := 0; i < nAdd; i++ {
			if returned[i].Load() {
				r := first + basics.Round(i)
				which = append(which, fmt.Sprint(r))
				if r > max {
					max = r
				}
			}
		}
		return max, strings.Join(which, ",")
	}
	conf1, which1 := confirmed()
	if uint64(conf1) > rig.confirmed.Load() {
		rig.confirmed.Store(uint64(conf1))
	}
	what := "Close"
	if useReload {
		what = "reloadLedger"
	}
	if finished {
		// reloadLedger() already ran to completion with the added blocks still only in the queue (flush stalled): its replay
		// commits the trackers up to Latest()-lookback, which counts QUEUED blocks, so the tracker DB can now be ahead of
		// the block DB until the flush completes (observed: tracker round 4, blocks 0..3). No production caller reloads a
		// ledger that has unflushed queued blocks (OpenLedger: empty queue; catchpoint catchup: blocks are written to the DB
		// directly), so this state is excluded by construction instead of being imaged; see notes/C09.md.
		vk.Excluded("reloadLedger completed while added blocks were still unflushed in the queue (not a production interleaving): no image of that state")
	} else {
		rig.force.Store(1)
		rig.snap("stop-while-queued:"+what+"-in-progress", fmt.Sprintf("r%d..%d", first, last), c09RoleStopped, false)
		rig.force.Store(0)
	}
	release()
	if !finished {
		select {
		case doneErr = <-done:
		case <-time.After(c09FlushTimeout):
			t.Fatalf("ENGINE: %s did not return within %v after the stall was released", what, c09FlushTimeout)
		}
	}
	if doneErr != nil {
		c.failf(t, "%s with %d queued blocks failed: %v", what, nAdd, doneErr)
	}
	time.Sleep(20 * time.Millisecond)
	conf2, which2 := confirmed()
	if uint64(conf2) > rig.confirmed.Load() {
		rig.confirmed.Store(uint64(conf2))
	}
	if useReload {
		// the reloaded ledger restarts the block queue with the queue intact: everything gets flushed
		rig.installSpies()
		rig.quiesce()
		rig.confirmed.Store(uint64(rig.l.Latest()))
		rig.force.Store(1)
		rig.snap("stop-while-queued:after-reloadLedger", fmt.Sprintf("r%d..%d", first, last), c09RoleMain, false)
		rig.force.Store(0)
		if rig.l.Latest() != last {
			c.failf(t, "after reloadLedger with blocks %d..%d queued the ledger is at round %d", first, last, rig.l.Latest())
		}
	} else {
		// the ledger is closed: the files are at rest
		rig.force.Store(1)
		rig.snap("stop-while-queued:after-Close", fmt.Sprintf("r%d..%d", first, last), c09RoleStopped, false)
		rig.force.Store(0)
		rig.l = nil
		if err := rig.open(); err != nil {
			c.failf(t, "OpenLedger after Close with queued blocks failed: %v", err)
		}
		k := rig.l.Latest()
		if k < conf2 || k > last {
			c.failf(t, "after Close with blocks %d..%d queued (WaitForCommit returned for rounds [%s]) the reopened ledger is at round %d", first, last, which2, k)
		}
		if k < last {
			vk.Label("stop-while-queued:queued-blocks-lost-at-close(legitimate)")
		}
		*next = k + 1
		rig.upper.Store(uint64(k))
		rig.confirmed.Store(uint64(k))
	}
	c.tracef("stop-while-queued: stall, add %d..%d, %s; WaitForCommit returned during the stop for [%s], after it for [%s] -> latest %d", first, last, what, which1, which2, rig.l.Latest())
	vk.Label("victim:stop-while-queued:" + what)
	if which1 != "" {
		vk.Label("stop-while-queued:waiter-returned-during-stop")
	} else {
		vk.Label("stop-while-queued:no-waiter-returned-during-stop")
	}
	if lateWaiter {
		vk.Label("stop-while-queued:late-waiter")
	}
}

func c09Run(tb *testing.T, t *rapid.T, vk *vkCtx) {
	// ---- phase 1: the history (in-memory engine node; blocks, deltas and the model are kept)
	w := engcNewWorld(tb, t, engcOpts{ForceMem: true, MaxGroupsPerBlock: 5, Label: vk.Label,
		CfgHook: func(name string, cfg *config.Local) { cfg.DisableLedgerLRUCache = true }})
	defer w.Close()
	n := rapid.IntRange(10, vkN(26, 40)).Draw(t, "blocks")
	c := &c09Case{tb: tb, vk: vk, w: w, n: basics.Round(n)}
	c.blocks = make([]bookkeeping.Block, n+1)
	c.encs = make([][]byte, n+1)
	for r := 1; r <= n; r++ {
		info := w.StepBlock(t, -1)
		c.blocks[r] = info.Block
		c.encs[r] = protocol.Encode(&c.blocks[r])
	}
	c.u = c09MakeUniverse(w)

	// ---- phase 2: the victim
	dir, err := os.MkdirTemp("", "c09-")
	if err != nil {
		t.Fatalf("ENGINE: MkdirTemp: %v", err)
	}
	defer os.RemoveAll(dir)
	cfg := engcDrawCfg(t, "victim")
	cfg.DisableLedgerLRUCache = true
	cfg.MaxAcctLookback = uint64(rapid.IntRange(1, 6).Draw(t, "victim.lookback"))
	catchpoints := rapid.Bool().Draw(t, "victim.catchpoints")
	if catchpoints {
		cfg.CatchpointInterval = 4
		cfg.CatchpointTracking = int64(rapid.SampledFrom([]int{1, 2}).Draw(t, "victim.catchpointTracking"))
	}
	rig := &c09Rig{tb: tb, cfg: cfg, genesis: w.Genesis, dir: dir, prefix: filepath.Join(dir, "victim"), occ: map[string]int{}, skipped: map[string]int{},
		all: vkThorough(), seed: rapid.Uint64().Draw(t, "imageSeed"), maxTaken: vkN(20, 220), parked: rapid.IntRange(0, 3).Draw(t, "victim.parked") != 0,
		inject: rapid.IntRange(0, 2).Draw(t, "victim.faultInjection") != 0}
	c.rig = rig
	if err := rig.open(); err != nil {
		t.Fatalf("ENGINE: OpenLedger(victim): %v", err)
	}
	defer rig.close()
	c.tracef("victim lookback=%d archival=%v catchpoints=%v(tracking %d) parked=%v blocks=%d", cfg.MaxAcctLookback, cfg.Archival, catchpoints, cfg.CatchpointTracking, rig.parked, n)
	vk.Labelf("history:parked=%v", rig.parked)
	vk.Labelf("history:fault-injection=%v", rig.inject)

	next := basics.Round(1)
	stops := 0
	stopAt := basics.Round(rapid.IntRange(2, n).Draw(t, "stopWhileQueuedAt")) // every history has the shutdown scenario once, here
	for next <= c.n {
		if stops == 0 && next >= stopAt {
			stops++
			c.stopWhileQueued(t, &next)
			c.drain(t)
			continue
		}
		switch rapid.IntRange(0, 9).Draw(t, "step") {
		case 0, 1, 2:
			armed := 0
			if rig.inject && rapid.IntRange(0, 2).Draw(t, "failTrackerCommit") == 0 && c09OnlyFaults != "block" {
				// the n-th COMMIT of the tracker DB from now fails: 1 = the registry's transaction, 2.. = the catchpoint tracker's
				armed = rapid.SampledFrom([]int{1, 1, 1, 2, 3}).Draw(t, "failWhich")
				rig.armTracker.Store(int32(armed))
			}
			before := rig.firedTrack.Load()
			rig.commit()
			rig.armTracker.Store(0)
			rig.snap("after-forced-commit", fmt.Sprintf("r%d", rig.l.Latest()), c09RoleMain, false)
			rig.force.Store(0)
			c.tracef("commit (fail tracker COMMIT #%d: fired %v) -> tracker round %d (latest %d)", armed, rig.firedTrack.Load() > before, rig.l.LatestTrackerCommitted(), rig.l.Latest())
			vk.Label("victim:commit")
			if armed > 0 {
				vk.Labelf("victim:tracker-commit-failure-armed:fired=%v", rig.firedTrack.Load() > before)
			}
		case 4:
			if stops < 2 && rapid.IntRange(0, 1).Draw(t, "stopWhileQueued") == 0 {
				stops++
				c.stopWhileQueued(t, &next)
			}
		case 3:
			if rapid.IntRange(0, 3).Draw(t, "cleanReopen") == 0 {
				rig.quiesce()
				rig.close()
				if err := rig.open(); err != nil {
					c.failf(t, "clean close+OpenLedger of the victim failed: %v", err)
				}
				if rig.l.Latest() != next-1 {
					c.failf(t, "clean close+OpenLedger: latest %d, want %d", rig.l.Latest(), next-1)
				}
				c.tracef("clean reopen -> tracker round %d", rig.l.LatestTrackerCommitted())
				vk.Label("victim:clean-reopen")
			}
		default:
			burst := rapid.SampledFrom([]int{1, 1, 1, 2, 2, 3}).Draw(t, "burst")
			first := next
			failBlock, failTracker := false, false
			if rig.inject {
				failBlock = rapid.IntRange(0, 3).Draw(t, "failBlockCommit") == 0
				failTracker = !rig.parked && rapid.IntRange(0, 3).Draw(t, "failTrackerCommitInBurst") == 0
			}
			failBlock = failBlock && c09OnlyFaults != "tracker"
			failTracker = failTracker && c09OnlyFaults != "block"
			if failBlock {
				rig.armBlock.Store(1)
			}
			if failTracker {
				rig.armTracker.Store(1)
			}
			beforeB, beforeT := rig.firedBlock.Load(), rig.firedTrack.Load()
			for i := 0; i < burst && next <= c.n; i++ {
				rig.upper.Store(uint64(next))
				// AddBlock = evaluate + AddValidatedBlock (the delta is recomputed by this ledger, nothing is shared with the engine's node)
				if err := rig.l.AddBlock(c.blocks[next], engcCert); err != nil {
					c.failf(t, "victim: adding block %d failed: %v", next, err)
				}
				next++
				if i+1 < burst && next <= c.n {
					rig.snap("between-AddBlock-calls", fmt.Sprintf("r%d", next-1), c09RoleMain, false)
				}
			}
			last := next - 1
			if !rig.waitDurable(last, rapid.Bool().Draw(t, "waitChannel")) {
				// The flush does not complete (never seen on the clean tree: an injected COMMIT failure is one-shot and the
				// syncer retries at once). What the ledger itself reports as durable counts as confirmed; the block queue is
				// stopped the way Close() stops it, so that nothing writes any more, and the state is imaged and judged.
				committed, _ := rig.l.LatestCommitted()
				if uint64(committed) > rig.confirmed.Load() {
					rig.confirmed.Store(uint64(committed))
				}
				rig.l.blockQ.stop()
				rig.l.trackers.waitAccountsWriting()
				rig.force.Store(1)
				rig.snap("flush-stuck", fmt.Sprintf("r%d", last), c09RoleStopped, false)
				rig.force.Store(0)
				c.tracef("add %d..%d: flush of block %d did not complete; LatestCommitted() = %d", first, last, last, committed)
				c.drain(t)
				t.Fatalf("ENGINE: the block flush of round %d did not complete within %v (LatestCommitted %d, injected faults [%s]); the image of the stuck state passed the oracle\n%s",
					last, c09FlushTimeout, committed, rig.faults(), strings.Join(c.trace, "\n"))
			}
			rig.confirmed.Store(uint64(last))
			rig.snap("after-WaitForCommit", fmt.Sprintf("r%d", last), c09RoleMain, false)
			rig.quiesce()
			rig.snap("quiescent", fmt.Sprintf("r%d", last), c09RoleMain, false)
			rig.armBlock.Store(0)
			rig.armTracker.Store(0)
			rig.force.Store(0)
			c.tracef("add %d..%d (fail block COMMIT: %v fired %v; fail tracker COMMIT: %v fired %v) -> tracker round %d", first, last,
				failBlock, rig.firedBlock.Load() > beforeB, failTracker, rig.firedTrack.Load() > beforeT, rig.l.LatestTrackerCommitted())
			if failBlock {
				vk.Labelf("victim:block-commit-failure-armed:fired=%v", rig.firedBlock.Load() > beforeB)
			}
			if failTracker {
				vk.Labelf("victim:tracker-commit-failure-armed:fired=%v", rig.firedTrack.Load() > beforeT)
			}
		}
		c.drain(t)
	}
	rig.commit()
	c.tracef("final commit -> tracker round %d (latest %d)", rig.l.LatestTrackerCommitted(), rig.l.Latest())
	rig.force.Store(1)
	rig.snap("final", fmt.Sprintf("r%d", rig.l.Latest()), c09RoleMain, false) // the end state is always reopened, too
	rig.force.Store(0)
	c.drain(t)
	// the uncrashed victim itself
	if diff, _, _ := c09CompareWindow(rig.l, c.u, w.Model); diff != "" {
		c.failf(t, "the uncrashed on-disk ledger differs from the model: %s", diff)
	}
	rig.listMu.Lock()
	var sk []string
	for k, v := range rig.skipped {
		sk = append(sk, fmt.Sprintf("%s=%d", k, v))
		if k != "cap" {
			vk.Add("instants_skipped_unsafe_to_copy:"+k, int64(v))
		}
	}
	instants := 0
	for _, v := range rig.occ {
		instants += v
	}
	rig.listMu.Unlock()
	sort.Strings(sk)
	vk.Add("crash_instants_seen", int64(instants))
	vk.Add("images_reopened", int64(c.images))
	vk.Add("histories", 1)
	vk.Add("injected_block_db_commit_failures", int64(rig.firedBlock.Load()))
	vk.Add("injected_tracker_db_commit_failures", int64(rig.firedTrack.Load()))
	vk.Labelf("history:catchpoints=%v", catchpoints)
	vk.Labelf("history:images-%s", c09Bucket(c.images))
	if c.ntImgs == 0 {
		vk.Label("history:no-nontrivial-image")
	}
}

func c09Bucket(n int) string {
	switch {
	case n == 0:
		return "0"
	case n < 5:
		return "1-4"
	case n < 15:
		return "5-14"
	case n < 40:
		return "15-39"
	}
	return ">=40"
}

const c09Rule = "fault enumeration: Engine C histories of 10-26 (thorough: 10-40) blocks (general transaction mix) are fed to an on-disk ledger (drawn MaxAcctLookback 1-6, archival or not, catchpoint tracking off / interval 4 with or without data files) " +
	"in bursts of 1-3 AddBlock calls interleaved with forced tracker commits and clean reopens (flush timer parked for 3/4 of the histories, free running for the rest); two spy trackers (first and last in the registry's tracker list) take byte copies of all ledger files at: " +
	"block DB flushed (committedUpTo, before any tracker commit), prepareCommit (first/last), inside the tracker DB transaction before and after the real trackers' commitRound, right after every tracker DB transaction of a commit (wrapped store handle), postCommit, postCommitUnlocked before and after the catchpoint tracker's file work, " +
	"and the feeding goroutine after every WaitForCommit/Wait return, between AddBlock calls and at quiescence (thorough: every instant; quick: a keyed 1/5 of the instants inside commits, 1/7 of the block-flush instants, 1/10 of the others, at most 20 per history). A copy is only taken while no other goroutine can be writing a database. " +
	"Fault sequences: in 2/3 of the histories sqlite commit hooks are registered on the write connections of the block DB and the tracker DB (through database/sql Conn.Raw; the tracker store is rebuilt with the exported constructors and reloadLedger so that its handle is reachable) and drawn COMMITs are turned into rollbacks " +
	"(the block flush of a burst; the registry's commit transaction or the 2nd/3rd tracker-DB transaction of a commit); the 4 instants after a failed COMMIT, the instant after every forced commit (1/6) and the final state are imaged as well. " +
	"Shutdown scenario (up to 2 per history): the block-DB flush is stalled by a write lock held on a second connection, 1-3 blocks are added, one goroutine per round calls WaitForCommit (one of them possibly after the stop), Close() or reloadLedger() is started; " +
	"an image is taken while the stop is in progress and one after it; every round whose WaitForCommit had returned counts as confirmed. " +
	"One evaluation = one image reopened with OpenLedger and checked: contiguous byte-identical block prefix 1..k, k >= every confirmed durable round, tracker round <= k (read from the image before opening), all account/resource/kv/creator lookups and totals at every served round equal the model of the prefix, " +
	"remaining blocks added on top converge to the full history. Non-trivial: image taken after the block DB flush with the tracker DB behind, during prepareCommit, inside the tracker transaction, or around a catchpoint first stage, or after an injected COMMIT failure. Distinct: by history, victim schedule and instant."

func TestVerif_C09_Crash(t *testing.T) {
	vk := vkBegin(t, "C09")
	vk.Rule(c09Rule)
	vk.Assume("process-kill crash model: a crash preserves exactly the bytes written so far (sqlite's own atomic commit and WAL recovery are trusted; power-loss reordering inside the file system is not modelled)")
	vk.Assume("the StateDelta of each block as validated by the engine's ledger is the description of the block (model fold)")
	rapid.Check(t, func(rt *rapid.T) { c09Run(t, rt, vk) })
}
