package ledger

// C27 — Suspension and expiry lists are justified.
//
// Fresh ledgers with a drawn population of voters (stake shares, status, keys, VoteLastValid, IncentiveEligible,
// LastProposed/LastHeartbeat; all constructed directly in the genesis allocation) live through a short history (< 300
// rounds: proposals by drawn accounts, heartbeats, keyreg online with/without the go-online fee, keyreg offline,
// payments in/out, close-outs). At chosen rounds (steered to the first round at which some account becomes absent
// or expired, +-1) the block produced by the generating evaluator gets its ParticipationUpdates replaced by drawn
// candidate lists and is handed to Ledger.Validate (signature checks mocked).
//
// Oracle (written from the comments of validateExpiredOnlineAccounts / validateAbsentOnlineAccounts / isAbsent /
// generateKnockOfflineAccountsList, math/big): the block is accepted iff
//   * len(expired) <= MaxProposedExpiredOnlineAccounts, len(absent) <= Payouts.MaxMarkAbsent, no address twice in a list;
//   * every expired entry, in the state after the block's transactions, has a vote key and VoteLastValid < r;
//   * every absent entry, in that state, is Online, holds algos, is IncentiveEligible, has lastSeen =
//     max(LastProposed, LastHeartbeat) > 0 and  lastSeen + floor(20 * onlineStake / stake) < r,  where stake and
//     onlineStake are the account's and the total online stake at the balance round r-320, i.e. genesis for r <= 320
//     (an account that was not online at that round has stake 0 and is never absent).
// Histories stay below Payouts.ChallengeInterval (1000), so the "challenge absent" alternative is inactive.
// An address listed in BOTH lists is outside the assertions (the code expires first, then sees an Offline account).
//
// The state "after the block's transactions" is the ledger's committed state of the previous round plus a small
// model of the (few, simple) transactions the harness itself puts into the block; the model is cross-checked against
// the ledger after the block is committed (HARNESS-MODEL failures are harness bugs, not verdicts).

import (
	"fmt"
	"io"
	"math"
	"math/big"
	"sort"
	"strings"
	"sync"
	"sync/atomic"
	"testing"

	"github.com/algorand/go-deadlock"

	"github.com/algorand/go-algorand/agreement"
	"github.com/algorand/go-algorand/config"
	"github.com/algorand/go-algorand/crypto"
	"github.com/algorand/go-algorand/data/basics"
	"github.com/algorand/go-algorand/data/bookkeeping"
	"github.com/algorand/go-algorand/data/committee"
	"github.com/algorand/go-algorand/data/transactions"
	"github.com/algorand/go-algorand/data/transactions/logic"
	"github.com/algorand/go-algorand/data/txntest"
	"github.com/algorand/go-algorand/ledger/eval"
	"github.com/algorand/go-algorand/ledger/ledgercore"
	"github.com/algorand/go-algorand/logging"
	"github.com/algorand/go-algorand/protocol"
	"pgregory.net/rapid"
)

var (
	c27DeadlockOnce sync.Once
	c27LedgerCount  atomic.Uint64
)

const c27MaxRound = 300 // balance round stays 0 (lookback 320) and challenges (interval 1000) stay inactive

func c27B(x uint64) *big.Int { return new(big.Int).SetUint64(x) }

func c27Addr(tag byte, i int) basics.Address {
	var a basics.Address
	for k := range a {
		a[k] = tag
	}
	a[0], a[1] = byte(i+1), byte((i+1)>>8)
	a[31] = 0x27
	return a
}

func c27RegisterProto(t *testing.T, name string, base protocol.ConsensusVersion, f func(*config.ConsensusParams)) protocol.ConsensusVersion {
	p, ok := config.Consensus[base]
	if !ok {
		t.Fatalf("HARNESS: unknown base protocol %v", base)
	}
	p.ApprovedUpgrades = map[protocol.ConsensusVersion]uint64{}
	f(&p)
	cv := protocol.ConsensusVersion(name)
	if _, exists := config.Consensus[cv]; exists {
		t.Fatalf("HARNESS: protocol %v already registered", name)
	}
	config.Consensus[cv] = p
	t.Cleanup(func() { delete(config.Consensus, cv) })
	return cv
}

type c27World struct {
	t       *testing.T
	l       *Ledger
	cv      protocol.ConsensusVersion
	proto   config.ConsensusParams
	voters  []basics.Address
	names   map[basics.Address]string
	funder  basics.Address // rich offline account: pays, sends heartbeats
	neutral basics.Address // funded offline account used as an uninteresting proposer
	ghost   basics.Address // never funded
	sink    basics.Address
	pool    basics.Address
	gen     map[basics.Address]basics.AccountData
	total0  *big.Int // online stake at round 0
	noteN   uint64
	keyN    byte
	// keepLists: ordinary rounds of this case keep what the generator wants to knock offline (else dropped)
	keepLists bool
}

func (w *c27World) name(a basics.Address) string {
	if n, ok := w.names[a]; ok {
		return n
	}
	return a.String()[:6]
}

// stake0: the account's voting stake at the balance round (genesis): its balance if it was Online there, else 0.
func (w *c27World) stake0(a basics.Address) uint64 {
	if g, ok := w.gen[a]; ok && g.Status == basics.Online {
		return g.MicroAlgos.Raw
	}
	return 0
}

func c27Open(t *testing.T, cv protocol.ConsensusVersion, voters map[basics.Address]basics.AccountData, order []basics.Address, names map[basics.Address]string) (*c27World, error) {
	c27DeadlockOnce.Do(func() { deadlock.Opts.Disable = true })
	proto, ok := config.Consensus[cv]
	if !ok {
		return nil, fmt.Errorf("unknown protocol %v", cv)
	}
	w := &c27World{t: t, cv: cv, proto: proto, voters: order, names: names,
		funder: c27Addr('f', 0), neutral: c27Addr('n', 0), ghost: c27Addr('g', 0), sink: c27Addr('s', 0), pool: c27Addr('p', 0)}
	names[w.funder], names[w.neutral], names[w.ghost] = "funder", "neutral", "ghost"
	accts := map[basics.Address]basics.AccountData{}
	for a, d := range voters {
		accts[a] = d
	}
	accts[w.funder] = basics.AccountData{MicroAlgos: basics.MicroAlgos{Raw: 1_000_000_000_000_000}, Status: basics.Offline}
	accts[w.neutral] = basics.AccountData{MicroAlgos: basics.MicroAlgos{Raw: 10_000_000}, Status: basics.Offline}
	accts[w.sink] = basics.AccountData{MicroAlgos: basics.MicroAlgos{Raw: 1_000_000_000}, Status: basics.NotParticipating}
	accts[w.pool] = basics.AccountData{MicroAlgos: basics.MicroAlgos{Raw: proto.MinBalance}, Status: basics.NotParticipating} // rewards off
	w.gen = accts
	w.total0 = new(big.Int)
	for _, d := range accts {
		if d.Status == basics.Online {
			w.total0.Add(w.total0, c27B(d.MicroAlgos.Raw))
		}
	}
	gb := bookkeeping.MakeTimestampedGenesisBalances(accts, w.sink, w.pool, 1_700_000_000)
	var genHash crypto.Digest
	copy(genHash[:], "verif-C27-fixed-genesis-hash-000")
	genBlock, err := bookkeeping.MakeGenesisBlock(cv, gb, "c27", genHash)
	if err != nil {
		return nil, err
	}
	log := logging.NewLogger()
	log.SetOutput(io.Discard)
	dbName := fmt.Sprintf("c27-%s-%d-%d", strings.ReplaceAll(t.Name(), "/", "_"), vkShard(), c27LedgerCount.Add(1))
	cfg := config.GetDefaultLocal()
	cfg.Archival = true
	cfg.TxPoolSize, cfg.VerifiedTranscationsCacheSize = 8, 8
	cfg.MaxAcctLookback = 400 // nothing is flushed during a case: no tracker commit races with the lookups
	l, err := OpenLedger(log, dbName, true, ledgercore.InitState{Block: genBlock, Accounts: gb.Balances, GenesisHash: genHash}, cfg)
	if err != nil {
		return nil, err
	}
	w.l = l
	return w, nil
}

func (w *c27World) close() {
	if w.l != nil {
		w.l.Close()
		w.l = nil
	}
}

func (w *c27World) seed(r basics.Round) committee.Seed {
	var s committee.Seed
	s[0], s[1], s[2], s[31] = byte(r), byte(r>>8), 0x27, 1
	return s
}

func (w *c27World) startEval() (*eval.BlockEvaluator, error) {
	hdr, err := w.l.BlockHdr(w.l.Latest())
	if err != nil {
		return nil, err
	}
	nextHdr := bookkeeping.MakeBlock(hdr).BlockHeader
	nextHdr.TimeStamp = hdr.TimeStamp + 1
	return eval.StartEvaluator(w.l, nextHdr, eval.EvaluatorOptions{Generate: true, Validate: true, Tracer: logic.EvalErrorDetailsTracer{}})
}

func (w *c27World) validate(blk bookkeeping.Block) (*ledgercore.ValidatedBlock, error) {
	return validateWithoutSignatures(w.t, w.l, blk)
}

func (w *c27World) commit(blk bookkeeping.Block) error {
	vb, err := w.validate(blk)
	if err != nil {
		return fmt.Errorf("Validate: %w", err)
	}
	if err := w.l.AddValidatedBlock(*vb, agreement.Certificate{}); err != nil {
		return fmt.Errorf("AddValidatedBlock: %w", err)
	}
	w.l.WaitForCommit(w.l.Latest())
	return nil
}

func (w *c27World) state(a basics.Address) (ledgercore.AccountData, error) {
	ad, _, err := w.l.LookupWithoutRewards(w.l.Latest(), a)
	return ad, err
}

// ---------------------------------------------------------------------------------------------------------------
// The block's own transactions and their model

type c27Op struct {
	Kind   string // hb, keyreg-on, keyreg-on-fee, keyreg-off, pay-in, pay-in-double, pay-out, close
	Target basics.Address
	Last   basics.Round // keyreg-on: VoteLast
}

func (w *c27World) opString(o c27Op) string {
	if o.Kind == "keyreg-on" || o.Kind == "keyreg-on-fee" {
		return fmt.Sprintf("%s(%s,last=%d)", o.Kind, w.name(o.Target), o.Last)
	}
	return fmt.Sprintf("%s(%s)", o.Kind, w.name(o.Target))
}

// c27View: working copies of the accounts the block touches, starting from the committed state.
type c27View struct {
	w    *c27World
	r    basics.Round
	acct map[basics.Address]*ledgercore.AccountData
}

func (w *c27World) newView(r basics.Round) *c27View { return &c27View{w: w, r: r, acct: map[basics.Address]*ledgercore.AccountData{}} }

func (v *c27View) get(a basics.Address) *ledgercore.AccountData {
	if d, ok := v.acct[a]; ok {
		return d
	}
	d, err := v.w.state(a)
	if err != nil {
		panic(fmt.Sprintf("HARNESS: lookup %v: %v", a, err))
	}
	v.acct[a] = &d
	return &d
}

// credit models roundCowState.Move's receiving side incl. autoHeartbeat (doc: "an updated LastHeartbeat if after
// shows enough balance increase to risk a false positive suspension": Online, IncentiveEligible, balance doubled).
func (v *c27View) credit(a basics.Address, amt uint64) {
	d := v.get(a)
	before := d.MicroAlgos.Raw
	d.MicroAlgos.Raw += amt
	if amt != 0 && d.Status == basics.Online && d.IncentiveEligible && d.MicroAlgos.Raw >= 2*before {
		d.LastHeartbeat = v.r + 320
	}
}

func (v *c27View) debit(a basics.Address, amt uint64) { v.get(a).MicroAlgos.Raw -= amt }

// build makes the transaction of an op (nil: not applicable in the current state) and returns the model update to
// run if the evaluator accepts it.
func (v *c27View) build(o c27Op) (*txntest.Txn, func()) {
	w := v.w
	fee := w.proto.MinTxnFee
	cur := *v.get(o.Target)
	switch o.Kind {
	case "hb":
		if cur.VoteID.IsEmpty() || cur.VoteKeyDilution == 0 {
			return nil, nil
		}
		hdr, err := w.l.BlockHdr(w.l.Latest())
		if err != nil {
			panic(err)
		}
		tx := &txntest.Txn{Type: "hb", Sender: w.funder, FirstValid: w.l.Latest(), HbAddress: o.Target, HbSeed: hdr.Seed,
			HbVoteID: cur.VoteID, HbKeyDilution: cur.VoteKeyDilution, Fee: fee}
		tx.HbProof.Sig[0] = 1
		return tx, func() { v.debit(w.funder, fee); v.get(o.Target).LastHeartbeat = v.r }
	case "keyreg-on", "keyreg-on-fee":
		if cur.Status == basics.NotParticipating || cur.MicroAlgos.Raw < 3_000_000 {
			return nil, nil
		}
		if o.Kind == "keyreg-on-fee" {
			fee = w.proto.Payouts.GoOnlineFee
		}
		w.keyN++
		tx := &txntest.Txn{Type: "keyreg", Sender: o.Target, VoteFirst: v.r, VoteLast: o.Last, VoteKeyDilution: 100 + uint64(w.keyN), Fee: fee}
		tx.VotePK[0], tx.VotePK[1], tx.SelectionPK[0], tx.StateProofPK[0] = 0x71, w.keyN, 0x72, 0x73
		return tx, func() {
			d := v.get(o.Target)
			d.MicroAlgos.Raw -= fee
			d.Status = basics.Online
			d.LastHeartbeat = v.r + 320 // keyreg: "record.LastHeartbeat = round + lookback"
			d.VotingData = basics.VotingData{VoteID: tx.VotePK, SelectionID: tx.SelectionPK, StateProofID: tx.StateProofPK,
				VoteFirstValid: tx.VoteFirst, VoteLastValid: tx.VoteLast, VoteKeyDilution: tx.VoteKeyDilution}
			if fee >= w.proto.Payouts.GoOnlineFee {
				d.IncentiveEligible = true
			}
		}
	case "keyreg-off":
		if cur.Status == basics.NotParticipating || cur.MicroAlgos.Raw < 1_000_000 {
			return nil, nil
		}
		tx := &txntest.Txn{Type: "keyreg", Sender: o.Target, Fee: fee}
		return tx, func() {
			d := v.get(o.Target)
			d.MicroAlgos.Raw -= fee
			d.Status = basics.Offline
			d.VotingData = basics.VotingData{}
		}
	case "pay-in", "pay-in-double":
		amt := uint64(1234)
		if o.Kind == "pay-in-double" {
			amt = cur.MicroAlgos.Raw
			if amt == 0 || amt > 100_000_000_000_000 {
				return nil, nil
			}
		} else if cur.MicroAlgos.Raw == 0 {
			return nil, nil
		}
		tx := &txntest.Txn{Type: "pay", Sender: w.funder, Receiver: o.Target, Amount: amt, Fee: fee}
		return tx, func() { v.debit(w.funder, fee+amt); v.credit(o.Target, amt) }
	case "pay-out":
		if cur.MicroAlgos.Raw < 4_000_000 {
			return nil, nil
		}
		amt := cur.MicroAlgos.Raw / 2
		tx := &txntest.Txn{Type: "pay", Sender: o.Target, Receiver: w.funder, Amount: amt, Fee: fee}
		return tx, func() { v.debit(o.Target, fee+amt); v.credit(w.funder, amt) }
	case "close":
		if cur.MicroAlgos.Raw < 1_000_000 {
			return nil, nil
		}
		tx := &txntest.Txn{Type: "pay", Sender: o.Target, Receiver: w.funder, CloseRemainderTo: w.funder, Fee: fee}
		return tx, func() {
			d := v.get(o.Target)
			v.credit(w.funder, d.MicroAlgos.Raw-fee)
			*d = ledgercore.AccountData{}
		}
	}
	return nil, nil
}

// submit offers one op to the evaluator as a single-transaction group; the model follows only if it was accepted.
func (v *c27View) submit(ev *eval.BlockEvaluator, o c27Op) (applied bool, err error) {
	w := v.w
	tx, apply := v.build(o)
	if tx == nil {
		return false, nil
	}
	tx.GenesisHash = w.l.GenesisHash()
	if tx.FirstValid == 0 {
		tx.FirstValid = v.r
	}
	w.noteN++
	tx.Note = []byte(fmt.Sprintf("c27-%d", w.noteN))
	tx.FillDefaults(w.proto)
	err = ev.TransactionGroup(transactions.WrapSignedTxnsWithAD([]transactions.SignedTxn{tx.SignedTxn()})...)
	if err != nil {
		return false, err
	}
	apply()
	return true, nil
}

// ---------------------------------------------------------------------------------------------------------------
// Oracle

// c27AbsentRound: the first round at which the account is absent under the stake-proportional rule (0: never),
// given lastSeen and its share of the online stake at the balance round.
func (w *c27World) absentFrom(a basics.Address, lastSeen basics.Round) (first uint64, lag *big.Int) {
	st := w.stake0(a)
	if lastSeen == 0 || st == 0 {
		return 0, nil
	}
	lag = new(big.Int).Quo(new(big.Int).Mul(big.NewInt(20), w.total0), c27B(st))
	if lag.Cmp(big.NewInt(math.MaxUint32)) > 0 {
		return 0, lag // "just return false for overflow or a huge allowableLag"
	}
	return uint64(lastSeen) + lag.Uint64() + 1, lag
}

// expiredWhy: "" if an entry for this account in the expired list is justified in state d at round r.
func c27ExpiredWhy(d *ledgercore.AccountData, r basics.Round) string {
	if d.VoteID.IsEmpty() {
		return "no-vote-key"
	}
	if d.VoteLastValid >= r {
		return "not-expired"
	}
	return ""
}

// absentReasons: every documented condition an entry for this account in the absent list violates in state d at
// round r (empty: the entry is justified).
func (w *c27World) absentReasons(a basics.Address, d *ledgercore.AccountData, r basics.Round) []string {
	var out []string
	if d.Status != basics.Online {
		out = append(out, "not-online")
	}
	if d.MicroAlgos.Raw == 0 {
		out = append(out, "no-algos")
	}
	if !d.IncentiveEligible {
		out = append(out, "not-eligible")
	}
	lastSeen := d.LastProposed
	if d.LastHeartbeat > lastSeen {
		lastSeen = d.LastHeartbeat
	}
	switch {
	case lastSeen == 0:
		out = append(out, "never-seen")
	case w.stake0(a) == 0:
		out = append(out, "no-stake-at-balance-round")
	default:
		if first, _ := w.absentFrom(a, lastSeen); first == 0 || uint64(r) < first {
			out = append(out, "not-absent-yet")
		}
	}
	return out
}

// absentWhy: "" if an entry for this account in the absent list is justified in state d at round r.
func (w *c27World) absentWhy(a basics.Address, d *ledgercore.AccountData, r basics.Round) string {
	if rs := w.absentReasons(a, d, r); len(rs) > 0 {
		return rs[0]
	}
	return ""
}

type c27Cand struct {
	Mode    string
	Expired []basics.Address
	Absent  []basics.Address
}

func (w *c27World) listString(l []basics.Address) string {
	s := make([]string, len(l))
	for i, a := range l {
		s[i] = w.name(a)
	}
	return "[" + strings.Join(s, ",") + "]"
}

// verdict: must the block be accepted? reason = first failing rule. skip: an address sits in both lists.
func (w *c27World) verdict(v *c27View, c c27Cand, r basics.Round) (accept bool, reason string, skip bool) {
	in := map[basics.Address]bool{}
	for _, a := range c.Expired {
		in[a] = true
	}
	for _, a := range c.Absent {
		if in[a] {
			return false, "both-lists", true
		}
	}
	if len(c.Expired) > w.proto.MaxProposedExpiredOnlineAccounts {
		return false, "expired:over-max", false
	}
	if len(c.Absent) > w.proto.Payouts.MaxMarkAbsent {
		return false, "absent:over-max", false
	}
	seen := map[basics.Address]bool{}
	for _, a := range c.Expired {
		if seen[a] {
			return false, "expired:duplicate", false
		}
		seen[a] = true
		if why := c27ExpiredWhy(v.get(a), r); why != "" {
			return false, "expired:" + why, false
		}
	}
	seen = map[basics.Address]bool{}
	for _, a := range c.Absent {
		if seen[a] {
			return false, "absent:duplicate", false
		}
		seen[a] = true
		if why := w.absentWhy(a, v.get(a), r); why != "" {
			return false, "absent:" + why, false
		}
	}
	return true, "", false
}

// ---------------------------------------------------------------------------------------------------------------

type c27Pop struct {
	data  map[basics.Address]basics.AccountData
	order []basics.Address
	names map[basics.Address]string
}

func c27DrawPopulation(t *rapid.T, crowd int) c27Pop {
	p := c27Pop{data: map[basics.Address]basics.AccountData{}, names: map[basics.Address]string{}}
	n := rapid.IntRange(4, 9).Draw(t, "voters")
	// stake shares in percent-ish units of 10_000 Algos; a few whales so that lags are short
	shares := [][]uint64{{90, 5, 3, 1}, {60, 30, 5, 2}, {45, 30, 24}, {40, 35, 20, 4}, {34, 33, 32}, {50, 25, 24}, {70, 25}, {30, 28, 26, 15}}
	sh := rapid.SampledFrom(shares).Draw(t, "shares")
	for i := 0; i < n; i++ {
		a := c27Addr('v', i)
		var d basics.AccountData
		share := uint64(1)
		if i < len(sh) {
			share = sh[i]
		} else if rapid.Bool().Draw(t, "tiny") {
			share = 0
		}
		d.MicroAlgos.Raw = share*10_000_000_000 + uint64(rapid.IntRange(5_000_000, 9_000_000).Draw(t, "dust"))
		status := "online"
		if i >= 2 || rapid.IntRange(0, 5).Draw(t, "whaleOff") == 0 {
			status = rapid.SampledFrom([]string{"online", "online", "online", "online", "online", "offline", "suspended", "nonpart"}).Draw(t, "status")
		}
		keys := func() {
			d.VoteID[0], d.VoteID[1] = 0x41, byte(i+1)
			d.SelectionID[0], d.SelectionID[1] = 0x42, byte(i+1)
			d.StateProofID[0], d.StateProofID[1] = 0x43, byte(i+1)
			d.VoteKeyDilution = 10_000
			d.VoteLastValid = basics.Round(rapid.SampledFrom([]int{3, 6, 12, 30, 70, 150, 1_000_000, 1_000_000, 1_000_000, 1_000_000, 1_000_000, 1_000_000}).Draw(t, "voteLast"))
		}
		switch status {
		case "online":
			d.Status = basics.Online
			keys()
			d.IncentiveEligible = rapid.IntRange(0, 9).Draw(t, "eligible") < 8
		case "suspended": // offline but still holding keys
			d.Status = basics.Offline
			keys()
		case "offline":
			d.Status = basics.Offline
		case "nonpart":
			d.Status = basics.NotParticipating
		}
		if d.Status != basics.NotParticipating {
			d.LastProposed = basics.Round(rapid.SampledFrom([]int{0, 0, 1, 1, 2, 5}).Draw(t, "lastProposed"))
			d.LastHeartbeat = basics.Round(rapid.SampledFrom([]int{0, 0, 1, 3, 4, 4}).Draw(t, "lastHeartbeat"))
		}
		p.data[a] = d
		p.order = append(p.order, a)
		p.names[a] = fmt.Sprintf("v%d", i)
	}
	// crowd: many tiny online accounts whose keys expire at once (to exceed the expired-list maximum with justified entries)
	for i := 0; i < crowd; i++ {
		a := c27Addr('w', i)
		var d basics.AccountData
		d.MicroAlgos.Raw = 2_000_000
		d.Status = basics.Online
		d.VoteID[0], d.VoteID[1], d.VoteID[2] = 0x44, byte(i+1), 1
		d.SelectionID[0], d.StateProofID[0] = 0x45, 0x46
		d.VoteKeyDilution = 10_000
		d.VoteLastValid = 2
		p.data[a] = d
		p.order = append(p.order, a)
		p.names[a] = fmt.Sprintf("w%d", i)
	}
	return p
}

func (w *c27World) popString() string {
	var sb strings.Builder
	for _, a := range w.voters {
		d := w.gen[a]
		if strings.HasPrefix(w.names[a], "w") {
			continue
		}
		fmt.Fprintf(&sb, "%s{%v %d key=%v last=%d el=%v lp=%d lh=%d} ", w.names[a], d.Status, d.MicroAlgos.Raw/1_000_000, !d.VoteID.IsEmpty(), d.VoteLastValid, d.IncentiveEligible, d.LastProposed, d.LastHeartbeat)
	}
	return sb.String()
}

var c27OpKinds = []string{"hb", "hb", "keyreg-on", "keyreg-on-fee", "keyreg-off", "pay-in", "pay-in-double", "pay-out", "close"}

func (w *c27World) drawOp(t *rapid.T, r basics.Round, history bool) c27Op {
	o := c27Op{Kind: rapid.SampledFrom(c27OpKinds).Draw(t, "op")}
	nv := len(w.voters)
	if nv > 10 {
		nv = 10 // the crowd stays passive
	}
	lo := 0
	if history && nv > 3 && rapid.IntRange(0, 4).Draw(t, "spareWhales") != 0 {
		// keyreg / doubling payments push LastHeartbeat 320 rounds ahead: an account touched that way can never be
		// absent within a case, so the history mostly leaves the big accounts alone
		lo = 3
	}
	o.Target = w.voters[rapid.IntRange(lo, nv-1).Draw(t, "target")]
	o.Last = r + basics.Round(rapid.SampledFrom([]int{1, 2, 5, 20, 5000}).Draw(t, "voteLastD"))
	return o
}

func (w *c27World) drawProposer(t *rapid.T) basics.Address {
	if rapid.IntRange(0, 9).Draw(t, "prpNeutral") < 5 {
		return w.neutral
	}
	nv := len(w.voters)
	if nv > 10 {
		nv = 10
	}
	return w.voters[rapid.IntRange(0, nv-1).Draw(t, "prp")]
}

// fillerRound commits one ordinary round (rarely with one drawn op).
func (w *c27World) fillerRound(t *rapid.T, vk *vkCtx, hist *[]string) {
	r := w.l.Latest() + 1
	ev, err := w.startEval()
	if err != nil {
		t.Fatalf("HARNESS: %v", err)
	}
	v := w.newView(r)
	desc := ""
	if rapid.IntRange(0, 19).Draw(t, "fillerOp") == 0 {
		o := w.drawOp(t, r, true)
		if ok, _ := v.submit(ev, o); ok {
			desc = w.opString(o)
			vk.Label("history-op:" + o.Kind)
		}
	}
	prp := w.neutral
	if rapid.IntRange(0, 9).Draw(t, "fillerPrp") == 0 {
		prp = w.drawProposer(t)
	}
	if st := v.get(prp); st.MicroAlgos.Raw == 0 {
		prp = w.neutral
	}
	ub, err := ev.GenerateBlock(nil)
	if err != nil {
		t.Fatalf("C27 VIOLATION: GenerateBlock failed: the generate+validate evaluator refuses the participation lists it has just generated itself (round %d): %v", r, err)
	}
	blk := ub.UnfinishedBlock().WithProposer(w.seed(r), prp, false)
	if n := len(blk.ExpiredParticipationAccounts) + len(blk.AbsentParticipationAccounts); n > 0 {
		// Mostly drop what the generator wants to knock offline (the lists need not be complete), so that accounts
		// stay around until a test round; sometimes keep it (honest path).
		if !w.keepLists {
			blk.ParticipationUpdates = bookkeeping.ParticipationUpdates{}
			vk.Label("filler:generator-lists-dropped")
		} else {
			vk.Label("filler:generator-lists-kept")
		}
	}
	if err := w.commit(blk); err != nil {
		t.Fatalf("C27 VIOLATION: honest block of round %d (lists %s / %s made by the generator) refused: %v", r,
			w.listString(blk.ExpiredParticipationAccounts), w.listString(blk.AbsentParticipationAccounts), err)
	}
	if desc != "" || prp != w.neutral || len(blk.ExpiredParticipationAccounts)+len(blk.AbsentParticipationAccounts) > 0 {
		*hist = append(*hist, fmt.Sprintf("r%d:%s prp=%s exp=%s abs=%s", r, desc, w.name(prp), w.listString(blk.ExpiredParticipationAccounts), w.listString(blk.AbsentParticipationAccounts)))
	}
}

// nextTarget: a round (> latest) at which some voter crosses the absent or the expiry threshold (+-1), if one is in reach.
func (w *c27World) nextTarget(t *rapid.T) basics.Round {
	latest := uint64(w.l.Latest())
	var absOpts, expOpts, firsts []uint64
	add := func(l *[]uint64, vals ...uint64) {
		for _, o := range vals {
			if o > latest && o <= latest+150 && o <= c27MaxRound {
				*l = append(*l, o)
			}
		}
	}
	for _, a := range w.voters {
		d, err := w.state(a)
		if err != nil {
			t.Fatalf("HARNESS: %v", err)
		}
		if d.Status == basics.Online && d.IncentiveEligible {
			ls := d.LastProposed
			if d.LastHeartbeat > ls {
				ls = d.LastHeartbeat
			}
			if first, _ := w.absentFrom(a, ls); first != 0 {
				add(&absOpts, first-1, first, first, first+1, first+3, first+10, first+25)
				firsts = append(firsts, first)
			}
		}
		if !d.VoteID.IsEmpty() && d.VoteLastValid < c27MaxRound {
			e := uint64(d.VoteLastValid) + 1
			add(&expOpts, e-1, e, e+1)
		}
	}
	if len(firsts) >= 2 { // a round at which two accounts are absent at once (to exceed a small MaxMarkAbsent)
		sort.Slice(firsts, func(i, j int) bool { return firsts[i] < firsts[j] })
		add(&absOpts, firsts[1], firsts[1], firsts[1]+1, firsts[1]+1)
	}
	sort.Slice(absOpts, func(i, j int) bool { return absOpts[i] < absOpts[j] })
	sort.Slice(expOpts, func(i, j int) bool { return expOpts[i] < expOpts[j] })
	pick := rapid.IntRange(0, 9).Draw(t, "targetKind")
	switch {
	case len(absOpts) > 0 && (pick < 8 || len(expOpts) == 0):
		return basics.Round(rapid.SampledFrom(absOpts).Draw(t, "absentTarget"))
	case len(expOpts) > 0:
		return basics.Round(rapid.SampledFrom(expOpts).Draw(t, "expiryTarget"))
	}
	return basics.Round(latest + uint64(rapid.IntRange(1, 4).Draw(t, "step")))
}

func TestVerif_C27_Lists(t *testing.T) {
	vk := vkBegin(t, "C27")
	vk.Rule("per case: genesis population of 4..9 voters (stake shares with 1..4 whales, Online/Offline/offline-with-keys/NotParticipating, VoteLastValid 3..1e6, IncentiveEligible, " +
		"LastProposed/LastHeartbeat 0..5; optionally a crowd of 40 tiny accounts with expired keys), history < 300 rounds with drawn proposers and sparse heartbeat/keyreg/payment/close-out " +
		"operations, 2..3 test rounds steered to the first absent/expired round of some voter (+-1); per test round 0..3 operations inside the block and 5..8 candidate list pairs " +
		"(all justified / exactly one unjustified entry / duplicate / over the maximum / both lists / empty); non-trivial = test round with an accepted and a refused candidate " +
		"and at least one justified absent or expired entry; distinct by (protocol, population, history, round, candidates)")
	vk.Assume("rounds <= 300: the balance round is genesis (lookback 320) and heartbeat challenges (interval 1000) are inactive")
	small := c27RegisterProto(t, "c27-small-lists", protocol.ConsensusFuture, func(p *config.ConsensusParams) {
		p.MaxProposedExpiredOnlineAccounts = 3
		p.Payouts.MaxMarkAbsent = 1 // two simultaneously absent accounts are enough to exceed it with justified entries only
	})
	protos := []protocol.ConsensusVersion{protocol.ConsensusFuture, small, small, small, protocol.ConsensusCurrentVersion}
	rapid.Check(t, func(rt *rapid.T) {
		cv := rapid.SampledFrom(protos).Draw(rt, "proto")
		crowd := 0
		if cv != small && rapid.IntRange(0, 5).Draw(rt, "crowd") == 0 {
			crowd = 40
		}
		pop := c27DrawPopulation(rt, crowd)
		w, err := c27Open(t, cv, pop.data, pop.order, pop.names)
		if err != nil {
			rt.Fatalf("HARNESS: open: %v", err)
		}
		defer w.close()
		vk.Label("proto:" + string(cv))
		w.keepLists = rapid.IntRange(0, 4).Draw(rt, "keepGeneratorLists") == 0
		if crowd > 0 {
			vk.Label("crowd")
		}
		// the genesis allocation must be what the ledger serves at round 0
		for _, a := range w.voters {
			d, err := w.state(a)
			g := ledgercore.ToAccountData(w.gen[a])
			if err != nil || d != g {
				rt.Fatalf("HARNESS-MODEL: genesis state of %s: %+v vs %+v (%v)", w.name(a), d, g, err)
			}
		}
		var hist []string
		tests := rapid.IntRange(2, 3).Draw(rt, "tests")
		for ti := 0; ti < tests; ti++ {
			target := w.nextTarget(rt)
			for w.l.Latest()+1 < target {
				w.fillerRound(rt, vk, &hist)
			}
			if w.l.Latest() >= c27MaxRound {
				break
			}
			c27TestRound(rt, vk, w, &hist)
		}
	})
}

func c27TestRound(t *rapid.T, vk *vkCtx, w *c27World, hist *[]string) {
	r := w.l.Latest() + 1
	ev, err := w.startEval()
	if err != nil {
		t.Fatalf("HARNESS: %v", err)
	}
	v := w.newView(r)
	var ops []string
	for i, n := 0, rapid.SampledFrom([]int{0, 0, 1, 1, 2, 3}).Draw(t, "blockOps"); i < n; i++ {
		o := w.drawOp(t, r, false)
		if ok, _ := v.submit(ev, o); ok {
			ops = append(ops, w.opString(o))
			vk.Label("block-op:" + o.Kind)
		}
	}
	prp := w.drawProposer(t)
	if st := v.get(prp); st.MicroAlgos.Raw == 0 {
		prp = w.neutral
	}
	ub, err := ev.GenerateBlock(nil)
	if err != nil {
		t.Fatalf("C27 VIOLATION: GenerateBlock failed: the generate+validate evaluator refuses the participation lists it has just generated itself (round %d): %v", r, err)
	}
	gblk := ub.UnfinishedBlock().WithProposer(w.seed(r), prp, false)

	// ---- classify every known address in the end-of-transactions state
	universe := append(append([]basics.Address{}, w.voters...), w.funder, w.neutral, w.ghost, w.sink)
	var expOK, absOK []basics.Address
	expBad := map[string][]basics.Address{}
	absBad := map[string][]basics.Address{}
	absBad1 := map[string][]basics.Address{} // entries violating exactly one condition
	for _, a := range universe {
		d := v.get(a)
		if why := c27ExpiredWhy(d, r); why == "" {
			expOK = append(expOK, a)
		} else {
			expBad[why] = append(expBad[why], a)
		}
		if rs := w.absentReasons(a, d, r); len(rs) == 0 {
			absOK = append(absOK, a)
		} else {
			absBad[rs[0]] = append(absBad[rs[0]], a)
			if len(rs) == 1 {
				absBad1[rs[0]] = append(absBad1[rs[0]], a)
			}
		}
	}
	// closest to the threshold first
	sort.SliceStable(absBad1["not-absent-yet"], func(i, j int) bool {
		l := absBad1["not-absent-yet"]
		di, dj := v.get(l[i]), v.get(l[j])
		fi, _ := w.absentFrom(l[i], max(di.LastProposed, di.LastHeartbeat))
		fj, _ := w.absentFrom(l[j], max(dj.LastProposed, dj.LastHeartbeat))
		return fi < fj
	})
	sort.SliceStable(expBad["not-expired"], func(i, j int) bool {
		l := expBad["not-expired"]
		return v.get(l[i]).VoteLastValid < v.get(l[j]).VoteLastValid
	})
	if vkEnv("VERIF_C27_DEBUG", "") != "" {
		why := w.absentWhy(w.voters[0], v.get(w.voters[0]), r)
		vk.Label("debug-whale0:" + why)
		vk.Labelf("debug-round:%d", (int(r)/20)*20)
	}
	// boundary bookkeeping (labels only)
	for _, a := range w.voters {
		d := v.get(a)
		if d.Status == basics.Online && d.IncentiveEligible && d.MicroAlgos.Raw > 0 {
			ls := d.LastProposed
			if d.LastHeartbeat > ls {
				ls = d.LastHeartbeat
			}
			if first, _ := w.absentFrom(a, ls); first != 0 {
				switch {
				case uint64(r) == first:
					vk.Label("absent-boundary:first-absent-round")
				case uint64(r)+1 == first:
					vk.Label("absent-boundary:last-present-round")
				case uint64(r) > first:
					vk.Label("absent-boundary:well-past")
				}
				if cur := d.MicroAlgos.Raw; cur*2 < w.stake0(a) || cur > 2*w.stake0(a) {
					vk.Label("stake-now-differs-from-balance-round")
				}
			}
		}
		if !d.VoteID.IsEmpty() {
			switch {
			case d.VoteLastValid+1 == r:
				vk.Label("expiry-boundary:first-expired-round")
			case d.VoteLastValid == r:
				vk.Label("expiry-boundary:last-valid-round")
			}
		}
	}

	// ---- the generator's own lists must be acceptable and justified
	if acc, why, skip := w.verdict(v, c27Cand{Expired: gblk.ExpiredParticipationAccounts, Absent: gblk.AbsentParticipationAccounts}, r); !skip && !acc {
		t.Fatalf("C27 VIOLATION: the generating evaluator proposes unjustified lists at round %d (%s): expired %s absent %s\npopulation: %s\nhistory: %v\nblock ops: %v",
			r, why, w.listString(gblk.ExpiredParticipationAccounts), w.listString(gblk.AbsentParticipationAccounts), w.popString(), *hist, ops)
	}
	if len(gblk.ExpiredParticipationAccounts) > 0 {
		vk.Label("generator-listed-expired")
	}
	if len(gblk.AbsentParticipationAccounts) > 0 {
		vk.Label("generator-listed-absent")
	}

	// ---- candidates
	maxE, maxA := w.proto.MaxProposedExpiredOnlineAccounts, w.proto.Payouts.MaxMarkAbsent
	subset := func(name string, from []basics.Address, max int) []basics.Address {
		if len(from) == 0 || max <= 0 {
			return nil
		}
		perm := rapid.Permutation(c27Iota(len(from))).Draw(t, name+"Perm")
		hi := len(from)
		if hi > max {
			hi = max
		}
		k := rapid.IntRange(0, hi).Draw(t, name+"K")
		if k < hi && rapid.Bool().Draw(t, name+"Full") {
			k = hi
		}
		out := make([]basics.Address, k)
		for i := 0; i < k; i++ {
			out[i] = from[perm[i]]
		}
		return out
	}
	without := func(l []basics.Address, drop []basics.Address) []basics.Address {
		m := map[basics.Address]bool{}
		for _, a := range drop {
			m[a] = true
		}
		var out []basics.Address
		for _, a := range l {
			if !m[a] {
				out = append(out, a)
			}
		}
		return out
	}
	insert := func(name string, l []basics.Address, a basics.Address) []basics.Address {
		pos := rapid.IntRange(0, len(l)).Draw(t, name+"Pos")
		out := append([]basics.Address{}, l[:pos]...)
		out = append(out, a)
		return append(out, l[pos:]...)
	}
	pickBad := func(name string, bad, bad1 map[string][]basics.Address) (basics.Address, string, bool) {
		single := ""
		if len(bad1) > 0 && rapid.IntRange(0, 9).Draw(t, name+"Single") < 7 {
			bad, single = bad1, ":only"
		}
		var reasons []string
		for k, l := range bad {
			if len(l) > 0 {
				reasons = append(reasons, k)
			}
		}
		if len(reasons) == 0 {
			return basics.Address{}, "", false
		}
		sort.Strings(reasons)
		why := rapid.SampledFrom(reasons).Draw(t, name+"Why")
		l := bad[why]
		if (why == "not-absent-yet" || why == "not-expired") && rapid.IntRange(0, 9).Draw(t, name+"Closest") < 7 {
			return l[0], why + single, true // the entry closest to its threshold
		}
		return l[rapid.IntRange(0, len(l)-1).Draw(t, name+"Who")], why + single, true
	}
	justified := func() c27Cand {
		e := subset("je", expOK, maxE)
		a := subset("ja", without(absOK, e), maxA)
		return c27Cand{Mode: "justified", Expired: e, Absent: a}
	}
	modes := []string{"justified", "justified", "bad-expired", "bad-absent", "bad-absent", "dup-expired", "dup-absent", "over-expired", "over-absent", "empty", "both"}
	ncand := rapid.IntRange(5, 8).Draw(t, "ncand")
	var cands []c27Cand
	for i := 0; i < ncand; i++ {
		c := justified()
		c.Mode = rapid.SampledFrom(modes).Draw(t, "mode")
		switch c.Mode {
		case "empty":
			c.Expired, c.Absent = nil, nil
		case "bad-expired":
			a, why, ok := pickBad("be", expBad, nil)
			if !ok {
				c.Mode = "justified"
				break
			}
			if len(c.Expired) >= maxE && maxE > 0 {
				c.Expired = c.Expired[:maxE-1]
			}
			c.Absent = without(c.Absent, []basics.Address{a})
			c.Expired = insert("be", c.Expired, a)
			c.Mode += ":" + why
		case "bad-absent":
			a, why, ok := pickBad("ba", absBad, absBad1)
			if !ok {
				c.Mode = "justified"
				break
			}
			if len(c.Absent) >= maxA && maxA > 0 {
				c.Absent = c.Absent[:maxA-1]
			}
			c.Expired = without(c.Expired, []basics.Address{a})
			c.Absent = insert("ba", c.Absent, a)
			c.Mode += ":" + why
		case "dup-expired":
			if len(c.Expired) == 0 || len(c.Expired) >= maxE {
				if len(expOK) == 0 || maxE < 2 {
					c.Mode = "justified"
					break
				}
				c.Expired = []basics.Address{expOK[0]}
				c.Absent = without(c.Absent, c.Expired)
			}
			c.Expired = insert("de", c.Expired, c.Expired[rapid.IntRange(0, len(c.Expired)-1).Draw(t, "deWho")])
		case "dup-absent":
			if len(c.Absent) == 0 || len(c.Absent) >= maxA {
				if len(absOK) == 0 || maxA < 2 {
					c.Mode = "justified"
					break
				}
				c.Absent = []basics.Address{absOK[0]}
				c.Expired = without(c.Expired, c.Absent)
			}
			c.Absent = insert("da", c.Absent, c.Absent[rapid.IntRange(0, len(c.Absent)-1).Draw(t, "daWho")])
		case "over-expired":
			// maxE+1 distinct entries, justified ones first
			pool := append(append([]basics.Address{}, expOK...), without(universe, expOK)...)
			if len(pool) <= maxE {
				c.Mode = "justified"
				break
			}
			c.Expired = append([]basics.Address{}, pool[:maxE+1]...)
			c.Absent = without(c.Absent, c.Expired)
			if len(expOK) > maxE {
				c.Mode += ":all-justified"
			}
		case "over-absent":
			pool := append(append([]basics.Address{}, absOK...), without(universe, absOK)...)
			if len(pool) <= maxA {
				c.Mode = "justified"
				break
			}
			c.Absent = append([]basics.Address{}, pool[:maxA+1]...)
			c.Expired = without(c.Expired, c.Absent)
			if len(absOK) > maxA {
				c.Mode += ":all-justified"
			}
		case "both":
			both := append(append([]basics.Address{}, absOK...), expOK...)
			if len(both) == 0 {
				c.Mode = "justified"
				break
			}
			a := both[rapid.IntRange(0, len(both)-1).Draw(t, "bothWho")]
			c.Expired = insert("bothE", without(c.Expired, []basics.Address{a}), a)
			c.Absent = insert("bothA", without(c.Absent, []basics.Address{a}), a)
		}
		cands = append(cands, c)
	}

	// whenever enough justified entries exist, one candidate exceeds the maximum with justified entries only
	if len(absOK) > maxA {
		over := append([]basics.Address{}, absOK[:maxA+1]...)
		cands = append(cands, c27Cand{Mode: "over-absent:all-justified", Absent: over, Expired: subset("oae", without(expOK, over), maxE)})
	}
	if len(expOK) > maxE {
		over := append([]basics.Address{}, expOK[:maxE+1]...)
		cands = append(cands, c27Cand{Mode: "over-expired:all-justified", Expired: over, Absent: subset("oea", without(absOK, over), maxA)})
	}

	var fp strings.Builder
	fmt.Fprintf(&fp, "%s | %s| hist=%v | r=%d prp=%s ops=%v |", w.cv, w.popString(), *hist, r, w.name(prp), ops)
	accN, rejN := 0, 0
	var committable []bookkeeping.Block
	for _, c := range cands {
		blk := gblk
		blk.ParticipationUpdates = bookkeeping.ParticipationUpdates{ExpiredParticipationAccounts: c.Expired, AbsentParticipationAccounts: c.Absent}
		want, why, skip := w.verdict(v, c, r)
		_, verr := w.validate(blk)
		got := verr == nil
		fmt.Fprintf(&fp, " %s:E%s,A%s", c.Mode, w.listString(c.Expired), w.listString(c.Absent))
		res := "reject"
		if got {
			res = "accept"
		}
		vk.Label("cand:" + c.Mode + ":" + res)
		if skip {
			vk.Excluded("address in both lists (verdict not asserted): " + res)
			continue
		}
		if !want {
			vk.Label("model-reject:" + why)
		}
		for _, a := range c.Absent {
			if a == prp {
				vk.Label("proposer-listed-absent:" + res)
			}
		}
		if got != want {
			detail := func(l []basics.Address) string {
				var sb strings.Builder
				for _, a := range l {
					d := v.get(a)
					first, lag := w.absentFrom(a, max(d.LastProposed, d.LastHeartbeat))
					fmt.Fprintf(&sb, "\n    %s: status=%v algos=%d eligible=%v lastProposed=%d lastHeartbeat=%d hasKey=%v voteLastValid=%d stakeAtBalanceRound=%d onlineStake=%s lag=%v firstAbsentRound=%d",
						w.name(a), d.Status, d.MicroAlgos.Raw, d.IncentiveEligible, d.LastProposed, d.LastHeartbeat, !d.VoteID.IsEmpty(), d.VoteLastValid, w.stake0(a), w.total0, lag, first)
				}
				return sb.String()
			}
			if got {
				t.Fatalf("C27 VIOLATION: block of round %d accepted although its lists are not justified (%s)\n  expired %s%s\n  absent %s%s\n  limits %d/%d\n  population: %s\n  history: %v\n  block ops: %v",
					r, why, w.listString(c.Expired), detail(c.Expired), w.listString(c.Absent), detail(c.Absent), maxE, maxA, w.popString(), *hist, ops)
			}
			t.Fatalf("C27 VIOLATION: block of round %d refused although every entry of its lists is justified: %v\n  expired %s%s\n  absent %s%s\n  limits %d/%d\n  population: %s\n  history: %v\n  block ops: %v",
				r, verr, w.listString(c.Expired), detail(c.Expired), w.listString(c.Absent), detail(c.Absent), maxE, maxA, w.popString(), *hist, ops)
		}
		if got {
			accN++
			committable = append(committable, blk)
			if len(c.Absent) > 0 {
				vk.Label("accepted-with-absent-entries")
			}
			if len(c.Expired) > 0 {
				vk.Label("accepted-with-expired-entries")
			}
		} else {
			rejN++
		}
	}
	nt := accN > 0 && rejN > 0 && len(expOK)+len(absOK) > 0
	vk.Case(nt, fp.String())
	if vk.WantSample(nt) {
		vk.Sample(nt, map[string]any{"case": fp.String(), "justifiedExpired": w.listString(expOK), "justifiedAbsent": w.listString(absOK), "accepted": accN, "refused": rejN})
	}
	vk.Labelf("justified-absent-available:%d", min(len(absOK), 3))
	vk.Labelf("justified-expired-available:%d", min(len(expOK), 3))

	// ---- commit one accepted candidate and cross-check the model of this block against the ledger
	commit := gblk
	if len(committable) > 0 {
		commit = committable[rapid.IntRange(0, len(committable)-1).Draw(t, "commit")]
	}
	if err := w.commit(commit); err != nil {
		t.Fatalf("C27 VIOLATION: honest block of round %d refused: %v", r, err)
	}
	for _, a := range commit.ExpiredParticipationAccounts {
		d := v.get(a)
		d.Status = basics.Offline
		d.VotingData = basics.VotingData{}
	}
	for _, a := range commit.AbsentParticipationAccounts {
		d := v.get(a)
		d.Status = basics.Offline
		d.IncentiveEligible = false
	}
	if d := v.get(prp); !d.IsZero() {
		d.LastProposed = r
		if d.Status == basics.Offline && !d.VoteID.IsEmpty() {
			d.Status = basics.Online
		}
	}
	for _, a := range universe {
		if a == w.sink {
			continue
		}
		got, err := w.state(a)
		if want := *v.get(a); err != nil || got != want {
			t.Fatalf("HARNESS-MODEL: state of %s after round %d: ledger %+v, model %+v (%v)\n  ops %v expired %s absent %s prp %s", w.name(a), r, got, want, err,
				ops, w.listString(commit.ExpiredParticipationAccounts), w.listString(commit.AbsentParticipationAccounts), w.name(prp))
		}
	}
	*hist = append(*hist, fmt.Sprintf("r%d:TEST ops=%v prp=%s exp=%s abs=%s", r, ops, w.name(prp), w.listString(commit.ExpiredParticipationAccounts), w.listString(commit.AbsentParticipationAccounts)))
}

func c27Iota(n int) []int {
	out := make([]int, n)
	for i := range out {
		out[i] = i
	}
	return out
}
