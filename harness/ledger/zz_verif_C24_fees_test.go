package ledger

// C24 — Fees and proposer payouts stay within their limits.
//
// Unit GroupFees: one evaluator (generate+validate) is offered 6..12 drawn groups whose pooled fee total is steered
// around the documented requirement; afterwards the block is generated, validated and checked as a whole.
// Unit Payout: short histories; for each round the block made by the generating evaluator is turned into several
// candidate blocks (claimed ProposerPayout / FeesCollected / proposer varied) and each is validated.
// See zz_verif_C24_world_test.go for the world and the formulas of the oracle.

import (
	"fmt"
	"math"
	"math/big"
	"strings"
	"testing"

	"github.com/algorand/go-algorand/config"
	"github.com/algorand/go-algorand/crypto"
	"github.com/algorand/go-algorand/data/basics"
	"github.com/algorand/go-algorand/data/bookkeeping"
	"github.com/algorand/go-algorand/data/transactions"
	"github.com/algorand/go-algorand/data/txntest"
	"github.com/algorand/go-algorand/ledger/eval"
	"github.com/algorand/go-algorand/protocol"
	"pgregory.net/rapid"
)

type c24Inner struct {
	Fee     uint64
	HasFee  bool
	NoteLen int
}

type c24Member struct {
	Kind    string
	tx      *txntest.Txn
	LsigLen int
	PQ      bool
	Inner   []c24Inner
	Grouped bool
	Extra   uint64 // fee this member wants on top of its share (keyreg paying the go-online fee)
	closes  basics.Address
}

type c24Group struct {
	Members  []*c24Member
	Fees     []uint64
	NoGroup  bool // a singleton submitted with a zero Group field
	stxns    []transactions.SignedTxn
	usageTop *big.Int
	reqTop   *big.Int
	paidTop  *big.Int
	// regions
	mustReject bool // sum(fees) < requirement of the top-level group
	wcOK       bool // requirement met even if every inner group rounded up on its own and defaulted fees paid nothing
	hasInner   bool
	hasDefault bool     // some inner payment leaves its fee to the default
	reqAll     *big.Int // ceil(MinTxnFee * usage of the top-level group and all inner transactions)
	aggReject  bool     // mustReject only because of the aggregate requirement
	err        error
}

func (g *c24Group) render() string {
	var sb strings.Builder
	for i, m := range g.Members {
		fmt.Fprintf(&sb, "[%s fee=%d note=%d", m.Kind, g.Fees[i], len(g.stxns[i].Txn.Note))
		if m.LsigLen > 0 {
			fmt.Fprintf(&sb, " lsig=%d", m.LsigLen)
		}
		if m.PQ {
			sb.WriteString(" pq")
		}
		if len(m.Inner) > 0 {
			fmt.Fprintf(&sb, " inner(grouped=%v)=%v", m.Grouped, m.Inner)
		}
		if a := g.stxns[i].Txn.ApplicationArgs; len(a) > 0 && m.Kind == "appargs" {
			n := 0
			for _, x := range a {
				n += len(x)
			}
			fmt.Fprintf(&sb, " args=%d", n)
		}
		if p := len(g.stxns[i].Txn.ApprovalProgram); p > 0 {
			fmt.Fprintf(&sb, " prog=%d", p+len(g.stxns[i].Txn.ClearStateProgram))
		}
		sb.WriteString("]")
	}
	return fmt.Sprintf("nogroup=%v usage=%s req=%s paid=%s %s", g.NoGroup, g.usageTop, g.reqTop, g.paidTop, sb.String())
}

type c24Gen struct {
	w      *c24World
	vk     *vkCtx
	closed map[basics.Address]bool
	// comfortable: fees always cover everything (Payout unit); otherwise steered around the requirement.
	comfortable bool
}

func c24Around(t *rapid.T, name string, center, lo, hi int) int {
	v := center
	switch rapid.IntRange(0, 7).Draw(t, name+"K") {
	case 0:
		v = center - 1
	case 1:
		v = center
	case 2:
		v = center + 1
	case 3:
		v = center + 2
	case 4:
		v = center + rapid.IntRange(3, 30).Draw(t, name+"D")
	case 5:
		v = hi
	default:
		v = rapid.IntRange(lo, hi).Draw(t, name+"R")
	}
	if v < lo {
		v = lo
	}
	if v > hi {
		v = hi
	}
	return v
}

var c24Kinds = []string{"pay", "pay", "pay", "pay", "paynote", "paynote", "appargs", "appargs", "inner", "inner", "inner", "inner",
	"keyreg", "hb", "lsig", "lsig", "pq", "bigapp", "overspend", "tosink"}

func (g *c24Gen) member(t *rapid.T, i int) *c24Member {
	w := g.w
	p := &w.proto
	rich := func() basics.Address { return w.rich[rapid.IntRange(0, len(w.rich)-1).Draw(t, "sender")] }
	kind := rapid.SampledFrom(c24Kinds).Draw(t, "kind")
	sized := p.PerByteTxnSurcharge != 0
	m := &c24Member{Kind: kind}
	noteLen := rapid.IntRange(8, 40).Draw(t, "note")
	switch kind {
	case "pay":
		m.tx = &txntest.Txn{Type: "pay", Sender: rich(), Receiver: w.rich[0], Amount: uint64(rapid.IntRange(0, 5000).Draw(t, "amt"))}
	case "tosink":
		m.tx = &txntest.Txn{Type: "pay", Sender: rich(), Receiver: w.sink, Amount: uint64(rapid.IntRange(0, 4000).Draw(t, "amt"))}
	case "overspend":
		m.tx = &txntest.Txn{Type: "pay", Sender: w.small[rapid.IntRange(0, len(w.small)-1).Draw(t, "small")], Receiver: w.rich[0], Amount: uint64(10 * c24SmallBalance)}
	case "paynote":
		m.tx = &txntest.Txn{Type: "pay", Sender: rich(), Receiver: w.rich[1], Amount: uint64(1)}
		noteLen = c24Around(t, "bignote", p.MaxTxnNoteBytes, 8, p.MaxAbsoluteTxnNoteBytes)
	case "appargs":
		total := c24Around(t, "args", p.MaxAppTotalArgLen, 1, p.MaxAbsoluteTotalArgLen)
		args := [][]byte{[]byte("n")}
		for rest := total - 1; rest > 0; {
			n := rest
			if n > 4096 {
				n = 4096
			}
			args = append(args, make([]byte, n))
			rest -= n
		}
		m.tx = &txntest.Txn{Type: "appl", Sender: rich(), ApplicationID: w.app, ApplicationArgs: args}
	case "inner":
		k := rapid.IntRange(1, 4).Draw(t, "ninner")
		m.Grouped = rapid.Bool().Draw(t, "grouped")
		mode := "s"
		if m.Grouped {
			mode = "g"
		}
		args := [][]byte{[]byte(mode)}
		for j := 0; j < k; j++ {
			in := c24Inner{HasFee: rapid.IntRange(0, 9).Draw(t, "hasfee") < 7}
			if sized && rapid.Bool().Draw(t, "innernote") {
				in.NoteLen = c24Around(t, "inote", p.MaxTxnNoteBytes, 0, p.MaxAbsoluteTxnNoteBytes)
			} else {
				in.NoteLen = rapid.SampledFrom([]int{0, 0, 8, 100}).Draw(t, "inoteS")
			}
			if in.HasFee {
				mf := p.MinTxnFee
				own := c24CeilFee(p, c24InnerUsage(p, in.NoteLen)).Uint64()
				in.Fee = rapid.SampledFrom([]uint64{0, 0, mf - 1, mf, mf, mf + 1, 2 * mf, own, own, own + 1, own - 1, 3*mf + 7}).Draw(t, "ifee")
			}
			m.Inner = append(m.Inner, in)
			var spec []byte
			if in.HasFee {
				spec = make([]byte, 10)
				bePut64(spec, in.Fee)
				spec[8], spec[9] = byte(in.NoteLen>>8), byte(in.NoteLen)
			} else {
				spec = []byte{byte(in.NoteLen >> 8), byte(in.NoteLen)}
			}
			args = append(args, spec)
		}
		m.tx = &txntest.Txn{Type: "appl", Sender: rich(), ApplicationID: w.app, ApplicationArgs: args}
	case "keyreg":
		who := w.online[rapid.IntRange(0, len(w.online)-1).Draw(t, "who")]
		if rapid.Bool().Draw(t, "offline") {
			m.tx = &txntest.Txn{Type: "keyreg", Sender: who}
		} else {
			m.tx = &txntest.Txn{Type: "keyreg", Sender: who, VoteFirst: w.l.Latest() + 1, VoteLast: w.l.Latest() + 5000, VoteKeyDilution: 77}
			m.tx.VotePK[0], m.tx.SelectionPK[0], m.tx.StateProofPK[0] = 0x61, 0x62, 0x63
			if rapid.Bool().Draw(t, "goOnlineFee") {
				m.Extra = p.Payouts.GoOnlineFee
			}
		}
	case "hb":
		idx := rapid.IntRange(0, len(w.online)-1).Draw(t, "who")
		who := w.online[idx]
		hdr, err := w.l.BlockHdr(w.l.Latest())
		if err != nil {
			t.Fatalf("HARNESS: %v", err)
		}
		m.tx = &txntest.Txn{Type: "hb", Sender: rich(), FirstValid: w.l.Latest(), HbAddress: who, HbSeed: hdr.Seed,
			HbVoteID: w.gen[who].VoteID, HbKeyDilution: w.gen[who].VoteKeyDilution}
		m.tx.HbProof.Sig[0] = 1
	case "lsig":
		m.tx = &txntest.Txn{Type: "pay", Sender: rich(), Receiver: w.rich[2], Amount: uint64(2)}
		hi := 3000
		if !sized {
			hi = int(p.LogicSigMaxSize)
		}
		m.LsigLen = c24Around(t, "lsig", int(p.LogicSigMaxSize), 1, hi)
	case "pq":
		m.tx = &txntest.Txn{Type: "pay", Sender: rich(), Receiver: w.rich[2], Amount: uint64(3)}
		m.PQ = p.EnablePQSchemeFalcon1024
		if !m.PQ {
			m.Kind = "pay"
		}
	case "bigapp":
		if !sized || p.MaxAbsoluteExtraProgramPages <= p.MaxExtraAppProgramPages {
			m.Kind = "pay"
			m.tx = &txntest.Txn{Type: "pay", Sender: rich(), Receiver: w.rich[0], Amount: uint64(4)}
			break
		}
		k := rapid.SampledFrom([]int{8, 9, 9, 12, 15}).Draw(t, "chunks")
		m.tx = &txntest.Txn{Type: "appl", Sender: rich(), ApprovalProgram: c24BigProgram(p.LogicSigVersion, k), ClearStateProgram: c24BigProgram(p.LogicSigVersion, 0)}
	}
	m.tx.Fee = uint64(0)
	w.fill(m.tx, noteLen)
	return m
}

func bePut64(b []byte, v uint64) {
	for i := 0; i < 8; i++ {
		b[i] = byte(v >> (8 * (7 - i)))
	}
}

// c24InnerUsage: usage of one inner payment with a note of n bytes.
func c24InnerUsage(p *config.ConsensusParams, n int) *big.Int {
	u := new(big.Int).Set(c24Million)
	if n > p.MaxTxnNoteBytes {
		u.Add(u, new(big.Int).Mul(c24B(uint64(p.PerByteTxnSurcharge)), big.NewInt(int64(n-p.MaxTxnNoteBytes))))
	}
	return u
}

// innerGroups: the inner groups a member submits, in order.
func (m *c24Member) innerGroups() [][]c24Inner {
	if len(m.Inner) == 0 {
		return nil
	}
	if m.Grouped {
		return [][]c24Inner{m.Inner}
	}
	var out [][]c24Inner
	for _, in := range m.Inner {
		out = append(out, []c24Inner{in})
	}
	return out
}

func (g *c24Gen) assemble(grp *c24Group) {
	txs := make([]*txntest.Txn, len(grp.Members))
	for i, m := range grp.Members {
		m.tx.Fee = grp.Fees[i]
		m.tx.Group = crypto.Digest{}
		txs[i] = m.tx
	}
	if grp.NoGroup {
		grp.stxns = []transactions.SignedTxn{txs[0].SignedTxn()}
	} else {
		grp.stxns = txntest.Group(txs...)
	}
	for i, m := range grp.Members {
		if m.LsigLen > 0 {
			grp.stxns[i].Lsig.Logic = make([]byte, m.LsigLen)
			grp.stxns[i].Lsig.Logic[0] = 1
		}
		if m.PQ {
			grp.stxns[i].PQsig = transactions.PQSig{Scheme: protocol.PQSchemeFalcon1024, Signature: []byte{1}}
		}
	}
}

// group draws a group and its fee vector and classifies it (mustReject / wcOK / ambiguous).
func (g *c24Gen) group(t *rapid.T) *c24Group {
	p := &g.w.proto
	n := 1
	switch rapid.IntRange(0, 9).Draw(t, "size") {
	case 0, 1, 2:
		n = 1
	case 3, 4, 5:
		n = 2
	case 6, 7:
		n = 3
	case 8:
		n = 4
	default:
		n = rapid.IntRange(5, p.MaxTxGroupSize).Draw(t, "bigsize")
	}
	grp := &c24Group{}
	for i := 0; i < n; i++ {
		m := g.member(t, i)
		grp.Members = append(grp.Members, m)
		if len(m.Inner) > 0 {
			grp.hasInner = true
		}
	}
	grp.Fees = make([]uint64, n)
	onlyHb := n == 1 && grp.Members[0].Kind == "hb"
	grp.NoGroup = n == 1 && !onlyHb && rapid.Bool().Draw(t, "nogroup")
	g.assemble(grp)
	grp.usageTop = c24GroupUsage(p, grp.stxns)
	grp.reqTop = c24CeilFee(p, grp.usageTop)

	// what the inner groups need beyond their own explicit fees (each rounded up separately: an upper bound)
	innerNeed := new(big.Int)
	for _, m := range grp.Members {
		for _, ig := range m.innerGroups() {
			u, paid := new(big.Int), new(big.Int)
			for _, in := range ig {
				u.Add(u, c24InnerUsage(p, in.NoteLen))
				if in.HasFee {
					paid.Add(paid, c24B(in.Fee))
				}
			}
			if need := c24CeilFee(p, u); paid.Cmp(need) < 0 {
				innerNeed.Add(innerNeed, new(big.Int).Sub(need, paid))
			}
		}
	}
	// aggregate view: one round-up over the whole tree, explicit inner fees counted, defaulted ones as zero
	usageAll, innerExplicit := new(big.Int).Set(grp.usageTop), new(big.Int)
	for _, m := range grp.Members {
		for _, in := range m.Inner {
			usageAll.Add(usageAll, c24InnerUsage(p, in.NoteLen))
			if in.HasFee {
				innerExplicit.Add(innerExplicit, c24B(in.Fee))
			} else {
				grp.hasDefault = true
			}
		}
	}
	grp.reqAll = c24CeilFee(p, usageAll)
	agg := uint64(0)
	if d := new(big.Int).Sub(grp.reqAll, innerExplicit); d.Sign() > 0 {
		agg = d.Uint64()
	}
	req := grp.reqTop.Uint64()
	in := innerNeed.Uint64()
	var total uint64
	if g.comfortable {
		total = req + in + rapid.SampledFrom([]uint64{0, 0, 1, 999, 12345, 2_000_000}).Draw(t, "extra")
	} else {
		sub := func(a, b uint64) uint64 {
			if a < b {
				return 0
			}
			return a - b
		}
		opts := []uint64{sub(req, 1), sub(req, 1), req, req, req, req + 1, sub(req+in, 1), req + in, req + in, req + in + 1,
			0, 2 * req, sub(req, p.MinTxnFee), sub(req, 2), req + in + rapid.Uint64Range(0, 3000).Draw(t, "slack"),
			sub(agg, 1), agg, agg, agg + 1, req + in, req + in, req + in + 1, req + in + 2,
			rapid.Uint64Range(0, req+in+1).Draw(t, "anyTotal")}
		total = rapid.SampledFrom(opts).Draw(t, "total")
	}
	// split the total over the members (zero-fee members are common)
	remaining := total
	order := rapid.Permutation(c24Iota(n)).Draw(t, "payOrder")
	payers := rapid.IntRange(1, n).Draw(t, "payers")
	for k := 0; k < payers; k++ {
		idx := order[k]
		share := remaining
		if k < payers-1 {
			switch rapid.IntRange(0, 3).Draw(t, "splitK") {
			case 0:
				share = 0
			case 1:
				share = remaining
			default:
				share = rapid.Uint64Range(0, remaining).Draw(t, "share")
			}
		}
		grp.Fees[idx] += share
		remaining -= share
	}
	for i, m := range grp.Members {
		grp.Fees[i] += m.Extra
	}
	g.assemble(grp)

	grp.paidTop = new(big.Int)
	for _, f := range grp.Fees {
		grp.paidTop.Add(grp.paidTop, c24B(f))
	}
	grp.mustReject = grp.paidTop.Cmp(grp.reqTop) < 0
	if !grp.mustReject && grp.hasInner && !grp.hasDefault {
		// every inner fee is explicit: the aggregate requirement over the whole tree is known up front
		if all := new(big.Int).Add(grp.paidTop, innerExplicit); all.Cmp(grp.reqAll) < 0 {
			grp.mustReject, grp.aggReject = true, true
		}
	}
	if !grp.mustReject {
		credit := new(big.Int).Sub(grp.paidTop, grp.reqTop)
		grp.wcOK = true
	walk:
		for _, m := range grp.Members {
			for _, ig := range m.innerGroups() {
				u, paid := new(big.Int), new(big.Int)
				for _, in := range ig {
					u.Add(u, c24InnerUsage(p, in.NoteLen))
					if in.HasFee {
						paid.Add(paid, c24B(in.Fee))
					}
				}
				need := c24CeilFee(p, u)
				if paid.Cmp(need) < 0 {
					short := new(big.Int).Sub(need, paid)
					if credit.Cmp(short) < 0 {
						grp.wcOK = false
						break walk
					}
					credit.Sub(credit, short)
				} else {
					credit.Add(credit, new(big.Int).Sub(paid, need))
				}
			}
		}
	}
	return grp
}

func c24Iota(n int) []int {
	out := make([]int, n)
	for i := range out {
		out[i] = i
	}
	return out
}

// offer hands the group to the evaluator and applies the per-group part of the oracle.
func (g *c24Gen) offer(t *rapid.T, ev *eval.BlockEvaluator, grp *c24Group) {
	vk := g.vk
	cp := make([]transactions.SignedTxn, len(grp.stxns))
	for i := range grp.stxns {
		if err := protocol.Decode(protocol.Encode(&grp.stxns[i]), &cp[i]); err != nil {
			t.Fatalf("HARNESS: copy: %v", err)
		}
	}
	grp.err = ev.TransactionGroup(transactions.WrapSignedTxnsWithAD(cp)...)
	region := "ambiguous"
	switch {
	case grp.aggReject:
		region = "must-reject-aggregate"
	case grp.mustReject:
		region = "must-reject"
	case grp.wcOK:
		region = "met"
	}
	cls := c24ErrClass(grp.err)
	vk.Label("region:" + region)
	vk.Label("verdict:" + region + ":" + cls)
	for _, m := range grp.Members {
		vk.Label("kind:" + m.Kind)
	}
	if cls == "other" && vkEnv("VERIF_C24_DEBUG", "") != "" {
		msg := grp.err.Error()
		if len(msg) > 160 {
			msg = msg[len(msg)-160:]
		}
		vk.Label("other: " + msg)
	}
	if grp.mustReject && grp.err == nil {
		if grp.aggReject {
			t.Fatalf("C24 VIOLATION: group accepted although its fees (top level %s + explicit inner fees) are below ceil(MinTxnFee*usage) = %s of the whole tree of top-level and inner transactions (top level alone: %s; MinTxnFee %d)\n%s",
				grp.paidTop, grp.reqAll, grp.reqTop, g.w.proto.MinTxnFee, grp.render())
		}
		t.Fatalf("C24 VIOLATION: group accepted although its fees %s are below the requirement %s (usage %s micro-fees, MinTxnFee %d; whole tree incl. inner transactions: %s)\n%s",
			grp.paidTop, grp.reqTop, grp.usageTop, g.w.proto.MinTxnFee, grp.reqAll, grp.render())
	}
	if grp.wcOK && c24IsFeeError(grp.err) {
		t.Fatalf("C24 VIOLATION: group refused for its fees although they cover the requirement %s (paid %s) and every inner group: %v\n%s",
			grp.reqTop, grp.paidTop, grp.err, grp.render())
	}
}

// c24AuditBlock: block-level part of the oracle. accepted are the accepted groups in payset order.
func c24AuditBlock(t *rapid.T, vk *vkCtx, w *c24World, blk *bookkeeping.Block, accepted []*c24Group) (fees *big.Int, toSink *big.Int) {
	p := &w.proto
	fees, toSink = new(big.Int), new(big.Int)
	pos := 0
	for _, grp := range accepted {
		n := len(grp.Members)
		if pos+n > len(blk.Payset) {
			t.Fatalf("HARNESS: payset shorter (%d) than the accepted groups", len(blk.Payset))
		}
		all, usage := new(big.Int), new(big.Int).Set(grp.usageTop)
		inners := 0
		for i := 0; i < n; i++ {
			stib := &blk.Payset[pos+i]
			if stib.Txn.Fee.Raw != grp.Fees[i] || stib.Txn.Type != grp.stxns[i].Txn.Type {
				t.Fatalf("HARNESS: payset[%d] does not match the accepted group (%d vs %d)", pos+i, stib.Txn.Fee.Raw, grp.Fees[i])
			}
			all.Add(all, c24B(stib.Txn.Fee.Raw))
			c24InnerTotals(p, &stib.ApplyData, all, usage, &inners)
			if stib.Txn.Type == protocol.PaymentTx && stib.Txn.Receiver == w.sink {
				toSink.Add(toSink, c24B(stib.Txn.Amount.Raw))
			}
		}
		pos += n
		need := c24CeilFee(p, usage)
		if all.Cmp(need) < 0 {
			t.Fatalf("C24 VIOLATION: accepted group (with %d inner transactions) paid %s in total, below ceil(MinTxnFee*usage) = %s (usage %s)\n%s",
				inners, all, need, usage, grp.render())
		}
		if inners > 0 {
			vk.Label("accepted-with-inner")
			if all.Cmp(need) == 0 {
				vk.Label("accepted-with-inner:exact")
			}
			sep := new(big.Int).Set(grp.reqTop) // what separate round-ups would have charged
			for _, m := range grp.Members {
				for _, ig := range m.innerGroups() {
					u := new(big.Int)
					for _, in := range ig {
						u.Add(u, c24InnerUsage(p, in.NoteLen))
					}
					sep.Add(sep, c24CeilFee(p, u))
				}
			}
			if all.Cmp(sep) < 0 {
				vk.Label("accepted-with-inner:residue-saved-a-round-up")
			}
		}
		fees.Add(fees, all)
	}
	if pos != len(blk.Payset) {
		t.Fatalf("HARNESS: payset has %d transactions, accepted groups %d", len(blk.Payset), pos)
	}
	if blk.FeesCollected.Raw != fees.Uint64() || !fees.IsUint64() {
		t.Fatalf("C24 VIOLATION: header FeesCollected %d != sum of the fees of the block's transactions %s", blk.FeesCollected.Raw, fees)
	}
	return fees, toSink
}

func TestVerif_C24_GroupFees(t *testing.T) {
	vk := vkBegin(t, "C24")
	vk.Rule("per case: fresh ledger under a drawn protocol (MinTxnFee 1..2500, PerByteTxnSurcharge 0..1000), one evaluator offered 6..12 groups of 1..16 members " +
		"(pay, oversized note, oversized app args, oversized programs, LogicSig bytes, Falcon signature, keyreg, heartbeat, app calls issuing 1..4 inner payments " +
		"separately or as one inner group with explicit/default fees and oversized notes) whose pooled fee total is drawn around ceil(MinTxnFee*usage) (+-1, 0, " +
		"+inner need +-1) and split over a drawn subset of members; non-trivial = total within 1 of the top-level requirement, or inner transactions, or fractional usage; " +
		"distinct by (protocol, members, sizes, fee vector)")
	vk.Assume("signatures are not verified (mocked cache), so LogicSig/Falcon envelopes only contribute their size/price")
	protos := c24Protos(t)
	rapid.Check(t, func(rt *rapid.T) {
		cv := rapid.SampledFrom(protos).Draw(rt, "proto")
		w, err := c24Open(t, cv, 5_000_000_000, rapid.SampledFrom([]uint64{0, 1_000_000}).Draw(rt, "bonus"))
		if err != nil {
			rt.Fatalf("HARNESS: open: %v", err)
		}
		defer w.close()
		if err := w.setup(); err != nil {
			rt.Fatalf("HARNESS: %v", err)
		}
		vk.Label("proto:" + string(cv))
		gen := &c24Gen{w: w, vk: vk}
		ev, err := w.startEval()
		if err != nil {
			rt.Fatalf("HARNESS: %v", err)
		}
		ngroups := rapid.IntRange(6, 12).Draw(rt, "ngroups")
		var accepted []*c24Group
		for i := 0; i < ngroups; i++ {
			grp := gen.group(rt)
			gen.offer(rt, ev, grp)
			if grp.err == nil {
				accepted = append(accepted, grp)
			}
			d := new(big.Int).Sub(grp.paidTop, grp.reqTop)
			frac := new(big.Int).Mod(new(big.Int).Mul(c24B(w.proto.MinTxnFee), grp.usageTop), c24Million).Sign() != 0
			nt := d.CmpAbs(big.NewInt(1)) <= 0 || grp.hasInner || frac
			switch {
			case d.Sign() == 0:
				vk.Label("delta:0")
			case d.Cmp(big.NewInt(-1)) == 0:
				vk.Label("delta:-1")
			case d.Cmp(big.NewInt(1)) == 0:
				vk.Label("delta:+1")
			case d.Sign() < 0:
				vk.Label("delta:<-1")
			default:
				vk.Label("delta:>+1")
			}
			if frac {
				vk.Label("fractional-requirement")
			}
			zero := 0
			for _, f := range grp.Fees {
				if f == 0 {
					zero++
				}
			}
			if zero > 0 && len(grp.Fees) > 1 && grp.err == nil {
				vk.Label("accepted-with-zero-fee-member")
			}
			fp := string(cv) + " " + grp.render()
			vk.Case(nt, fp)
			if vk.WantSample(nt) {
				vk.Sample(nt, map[string]any{"group": fp, "verdict": c24ErrClass(grp.err)})
			}
		}
		ub, err := ev.GenerateBlock([]basics.Address{w.rich[3]})
		if err != nil {
			rt.Fatalf("C24: GenerateBlock failed after %d accepted groups: %v", len(accepted), err)
		}
		blk := ub.FinishBlock(w.seed(2), w.rich[3], false)
		c24AuditBlock(rt, vk, w, &blk, accepted)
		// validation re-runs every group in validate-only mode: what the generator accepted must be accepted again
		if _, err := w.validate(blk); err != nil {
			rt.Fatalf("C24 VIOLATION: block of %d groups accepted one by one is refused by validation: %v", len(accepted), err)
		}
		vk.Add("groups_accepted", int64(len(accepted)))
	})
}

// ---------------------------------------------------------------------------------------------------------------

// c24NextBonus: BonusPlan doc comment. BaseAmount (when non-zero) applies at round 1 here (BaseRound 0 has passed);
// the bonus decays by 1% (rounded down) whenever round % DecayInterval == 0.
func c24NextBonus(plan config.BonusPlan, r uint64, prev *big.Int) *big.Int {
	if plan.BaseAmount != 0 && r == 1 {
		return c24B(plan.BaseAmount)
	}
	if plan.DecayInterval != 0 && r%plan.DecayInterval == 0 {
		return new(big.Int).Quo(new(big.Int).Mul(prev, big.NewInt(99)), big.NewInt(100))
	}
	return new(big.Int).Set(prev)
}

type c24Cand struct {
	Kind     string
	Proposer string
	Payout   uint64
	FeesHdr  uint64
	prp      basics.Address
}

func TestVerif_C24_Payout(t *testing.T) {
	vk := vkBegin(t, "C24")
	vk.Rule("per case: fresh ledger with drawn Payouts.Percent (0,1,50,75,99,100), genesis bonus (0..2^62, decaying), fee sink balance around MinBalance; 2..4 rounds; " +
		"per round 0..5 fee-paying groups (incl. payments into the sink and inner fees), then 5..8 candidate blocks derived from the generated block: claimed " +
		"ProposerPayout in {0, limit-1, limit, limit+1, share+bonus, available+1, 2^63, MaxUint64, random}, FeesCollected +-1, proposer in {funded, online, " +
		"closed in this block, never funded, the sink, zero address}; non-trivial = round whose candidates straddle a positive limit; distinct by (protocol, sink, fees, bonus, candidates)")
	vk.Assume("eligibility of the proposer is agreement's business (validateForPayouts comment): the ledger accepts a payout to any existing account")
	protos := c24Protos(t)
	maxU := new(big.Int).SetUint64(math.MaxUint64)
	rapid.Check(t, func(rt *rapid.T) {
		cv := rapid.SampledFrom(protos).Draw(rt, "proto")
		minBal := config.Consensus[cv].MinBalance
		var sink0 uint64
		switch rapid.IntRange(0, 9).Draw(rt, "sinkK") {
		case 0:
			sink0 = 5_000_000_000_000
		case 1:
			sink0 = minBal + 10_000_000
		case 2:
			sink0 = minBal - 50_000
		default:
			sink0 = uint64(int64(minBal) + int64(rapid.IntRange(-6000, 9000).Draw(rt, "sinkD")))
		}
		bonus0 := rapid.SampledFrom([]uint64{0, 0, 1, 37, 999, 5000, 100_000, 10_000_000, 1_000_000_000_000_000, 1 << 62}).Draw(rt, "bonus")
		w, err := c24Open(t, cv, sink0, bonus0)
		if err != nil {
			rt.Fatalf("HARNESS: open: %v", err)
		}
		defer w.close()
		if err := w.setup(); err != nil {
			rt.Fatalf("HARNESS: %v", err)
		}
		p := &w.proto
		vk.Label("proto:" + string(cv))
		gen := &c24Gen{w: w, vk: vk, comfortable: true, closed: map[basics.Address]bool{}}
		bonus := c24NextBonus(p.Bonus, 1, c24B(bonus0)) // bonus of round 1
		sinkModel, err := w.sinkBalance()
		if err != nil {
			rt.Fatalf("HARNESS: %v", err)
		}
		rounds := rapid.IntRange(2, 4).Draw(rt, "rounds")
		for ri := 0; ri < rounds; ri++ {
			r := uint64(w.l.Latest()) + 1
			bonus = c24NextBonus(p.Bonus, r, bonus)
			sinkPre, err := w.sinkBalance()
			if err != nil || sinkPre != sinkModel {
				rt.Fatalf("HARNESS-MODEL: sink balance before round %d: ledger %d, model %d (%v)", r, sinkPre, sinkModel, err)
			}
			ev, err := w.startEval()
			if err != nil {
				rt.Fatalf("HARNESS: %v", err)
			}
			// the proposer (may be closed by a transaction of this very block)
			prpKind := rapid.SampledFrom([]string{"funded", "funded", "online", "closed", "closed", "ghost", "sink", "zero"}).Draw(rt, "proposer")
			var prp basics.Address
			exists := true
			var accepted []*c24Group
			switch prpKind {
			case "funded":
				prp = w.rich[1]
			case "online":
				prp = w.online[0]
			case "ghost":
				prp, exists = w.ghost, false
			case "sink":
				prp = w.sink
			case "zero":
				exists = false
			case "closed":
				prp, exists = w.small[ri%len(w.small)], false
				if !gen.closed[prp] {
					m := &c24Member{Kind: "close", tx: &txntest.Txn{Type: "pay", Sender: prp, Receiver: w.rich[0], CloseRemainderTo: w.rich[0]}}
					m.tx.Fee = uint64(0)
					w.fill(m.tx, 8)
					grp := &c24Group{Members: []*c24Member{m}, Fees: []uint64{c24CeilFee(p, c24Million).Uint64()}}
					gen.assemble(grp)
					grp.usageTop = c24GroupUsage(p, grp.stxns)
					grp.reqTop = c24CeilFee(p, grp.usageTop)
					grp.paidTop = c24B(grp.Fees[0])
					grp.wcOK = true
					gen.offer(rt, ev, grp)
					if grp.err != nil {
						rt.Fatalf("HARNESS: close-out of %v refused: %v", prp, grp.err)
					}
					accepted = append(accepted, grp)
					gen.closed[prp] = true
				}
			}
			ngroups := rapid.IntRange(0, 5).Draw(rt, "ngroups")
			for i := 0; i < ngroups; i++ {
				grp := gen.group(rt)
				gen.offer(rt, ev, grp)
				if grp.err == nil {
					accepted = append(accepted, grp)
				}
			}
			var part []basics.Address
			if prpKind != "zero" {
				part = []basics.Address{prp}
			}
			ub, err := ev.GenerateBlock(part)
			if err != nil {
				rt.Fatalf("C24: GenerateBlock: %v", err)
			}
			gblk := ub.UnfinishedBlock()
			fees, toSink := c24AuditBlock(rt, vk, w, &gblk, accepted)

			// ---- the documented limit, from the pre-state of the sink and the contents of the block
			if c24B(gblk.Bonus.Raw).Cmp(bonus) != 0 {
				rt.Fatalf("HARNESS-MODEL: header bonus %d, model %s (round %d, plan %+v)", gblk.Bonus.Raw, bonus, r, p.Bonus)
			}
			sinkMid := new(big.Int).Add(c24B(sinkPre), new(big.Int).Add(fees, toSink))
			avail := new(big.Int).Sub(sinkMid, c24B(p.MinBalance))
			if avail.Sign() < 0 {
				avail.SetInt64(0)
			}
			share := new(big.Int).Quo(new(big.Int).Mul(fees, c24B(p.Payouts.Percent)), big.NewInt(100))
			total := new(big.Int).Add(share, bonus)
			limit := new(big.Int).Set(total)
			limitBy := "share+bonus"
			if avail.Cmp(total) < 0 {
				limit.Set(avail)
				limitBy = "sink-minbalance"
			}
			if total.Cmp(avail) == 0 {
				limitBy = "both"
			}
			if limit.Sign() == 0 {
				limitBy += ":zero"
			}
			vk.Label("limit-by:" + limitBy)
			if fees.Sign() > 0 {
				vk.Label("fees>0")
			} else {
				vk.Label("fees=0")
			}
			lim := limit.Uint64()

			// ---- honest path: FinishBlock as agreement would call it
			if prpKind != "zero" {
				eligible := rapid.Bool().Draw(rt, "eligible")
				hblk := ub.FinishBlock(w.seed(basics.Round(r)), prp, eligible)
				hp := hblk.ProposerPayout().Raw
				if c24B(hp).Cmp(limit) > 0 {
					rt.Fatalf("C24 VIOLATION: generated block claims payout %d above the limit %s (share %s + bonus %s, available %s)", hp, limit, share, bonus, avail)
				}
				if (!eligible || !exists) && hp != 0 {
					rt.Fatalf("C24 VIOLATION: ineligible/closed proposer (%s, eligible=%v) keeps a payout of %d", prpKind, eligible, hp)
				}
				if _, err := w.validate(hblk); err != nil {
					rt.Fatalf("C24 VIOLATION: honest block (proposer %s, eligible=%v, payout %d, limit %s) refused: %v", prpKind, eligible, hp, limit, err)
				}
				if hp == lim {
					vk.Label("honest-payout:=limit")
				} else {
					vk.Label("honest-payout:zeroed")
				}
			}

			// ---- candidates
			menu := []c24Cand{
				{Kind: "zero", Payout: 0, FeesHdr: gblk.FeesCollected.Raw},
				{Kind: "limit", Payout: lim, FeesHdr: gblk.FeesCollected.Raw},
				{Kind: "limit+1", Payout: lim + 1, FeesHdr: gblk.FeesCollected.Raw},
				{Kind: "max-uint64", Payout: math.MaxUint64, FeesHdr: gblk.FeesCollected.Raw},
				{Kind: "2^63", Payout: 1 << 63, FeesHdr: gblk.FeesCollected.Raw},
				{Kind: "fees+1,payout0", Payout: 0, FeesHdr: gblk.FeesCollected.Raw + 1},
				{Kind: "fees+1,limit", Payout: lim, FeesHdr: gblk.FeesCollected.Raw + 1},
			}
			if lim > 0 {
				menu = append(menu, c24Cand{Kind: "limit-1", Payout: lim - 1, FeesHdr: gblk.FeesCollected.Raw},
					c24Cand{Kind: "below-limit", Payout: rapid.Uint64Range(0, lim).Draw(rt, "below"), FeesHdr: gblk.FeesCollected.Raw})
			}
			if total.Cmp(limit) > 0 && total.Cmp(maxU) <= 0 { // the sink is the binding constraint: claim the full share+bonus
				menu = append(menu, c24Cand{Kind: "share+bonus(>available)", Payout: total.Uint64(), FeesHdr: gblk.FeesCollected.Raw})
			}
			if avail.Cmp(limit) > 0 && avail.Cmp(maxU) <= 0 { // the share is binding: claim everything the sink can spare
				menu = append(menu, c24Cand{Kind: "available(>share+bonus)", Payout: avail.Uint64(), FeesHdr: gblk.FeesCollected.Raw})
			}
			if sinkMid.IsUint64() && sinkMid.Cmp(limit) > 0 {
				menu = append(menu, c24Cand{Kind: "whole-sink", Payout: sinkMid.Uint64(), FeesHdr: gblk.FeesCollected.Raw})
			}
			if gblk.FeesCollected.Raw > 0 {
				menu = append(menu, c24Cand{Kind: "fees-1,payout0", Payout: 0, FeesHdr: gblk.FeesCollected.Raw - 1})
			}
			if lim < math.MaxUint64-5000 {
				menu = append(menu, c24Cand{Kind: "above-limit", Payout: lim + rapid.Uint64Range(2, 5000).Draw(rt, "above"), FeesHdr: gblk.FeesCollected.Raw})
			}
			pick := rapid.Permutation(c24Iota(len(menu))).Draw(rt, "cands")
			ncand := rapid.IntRange(5, 8).Draw(rt, "ncand")
			if ncand > len(menu) {
				ncand = len(menu)
			}
			// "limit" and "limit+1" are always among them
			chosen := []c24Cand{menu[1], menu[2]}
			for _, i := range pick {
				if len(chosen) >= ncand {
					break
				}
				if i != 1 && i != 2 {
					chosen = append(chosen, menu[i])
				}
			}
			var fp strings.Builder
			fmt.Fprintf(&fp, "%s r=%d sink=%d fees=%s toSink=%s bonus=%s prp=%s:", cv, r, sinkPre, fees, toSink, bonus, prpKind)
			var committable []bookkeeping.Block
			accN, rejN := 0, 0
			for _, c := range chosen {
				cand := gblk.WithProposer(w.seed(basics.Round(r)), prp, true)
				cand.BlockHeader.ProposerPayout = basics.MicroAlgos{Raw: c.Payout}
				cand.BlockHeader.FeesCollected = basics.MicroAlgos{Raw: c.FeesHdr}
				want := c.FeesHdr == gblk.FeesCollected.Raw && c24B(c.Payout).Cmp(limit) <= 0 && prpKind != "zero" && (c.Payout == 0 || exists)
				_, verr := w.validate(cand)
				got := verr == nil
				fmt.Fprintf(&fp, " %s=%d/%d", c.Kind, c.Payout, c.FeesHdr)
				verdict := "reject"
				if got {
					verdict = "accept"
				}
				vk.Label("cand:" + c.Kind + ":" + verdict)
				vk.Label("proposer:" + prpKind + ":" + verdict)
				if got != want {
					if got {
						rt.Fatalf("C24 VIOLATION: block accepted but must be refused: candidate %s claims payout %d with FeesCollected %d (true fees %s); limit = min(floor(%d%%*fees)=%s + bonus %s, sink %s - MinBalance %d = %s) = %s; proposer %s (exists at end of block: %v)",
							c.Kind, c.Payout, c.FeesHdr, fees, p.Payouts.Percent, share, bonus, sinkMid, p.MinBalance, avail, limit, prpKind, exists)
					}
					rt.Fatalf("C24 VIOLATION: block refused but is within the documented limits: candidate %s claims payout %d with FeesCollected %d (true fees %s); limit = min(%s + %s, %s) = %s; proposer %s (exists: %v): %v",
						c.Kind, c.Payout, c.FeesHdr, fees, share, bonus, avail, limit, prpKind, exists, verr)
				}
				if got {
					accN++
					committable = append(committable, cand)
				} else {
					rejN++
				}
			}
			nt := lim > 0 && accN > 0 && rejN > 0
			vk.Case(nt, fp.String())
			if vk.WantSample(nt) {
				vk.Sample(nt, map[string]any{"case": fp.String(), "limit": limit.String(), "limitBy": limitBy, "accepted": accN, "rejected": rejN})
			}

			// ---- commit one accepted candidate (or the payout-free block) and check the sink afterwards
			var commit bookkeeping.Block
			if len(committable) > 0 {
				commit = committable[rapid.IntRange(0, len(committable)-1).Draw(rt, "commit")]
			} else {
				// zero-address proposer: nothing is acceptable while payouts are enabled; fall back to a funded proposer
				commit = gblk.WithProposer(w.seed(basics.Round(r)), w.rich[1], false)
				prp = w.rich[1]
			}
			if err := w.commit(commit); err != nil {
				rt.Fatalf("HARNESS: commit of an already validated block failed: %v", err)
			}
			paid := commit.ProposerPayout().Raw
			sinkPost := new(big.Int).Set(sinkMid)
			if prp != w.sink {
				sinkPost.Sub(sinkPost, c24B(paid))
			}
			got, err := w.sinkBalance()
			if err != nil {
				rt.Fatalf("HARNESS: %v", err)
			}
			if paid > 0 && got < p.MinBalance {
				rt.Fatalf("C24 VIOLATION: after a block paying %d to the proposer the fee sink holds %d < MinBalance %d", paid, got, p.MinBalance)
			}
			if floor := new(big.Int).Set(sinkMid); true {
				if floor.Cmp(c24B(p.MinBalance)) > 0 {
					floor = c24B(p.MinBalance)
				}
				if c24B(got).Cmp(floor) < 0 {
					rt.Fatalf("C24 VIOLATION: fee sink %d after the block is below min(balance before the payout %s, MinBalance %d)", got, sinkMid, p.MinBalance)
				}
			}
			if c24B(got).Cmp(sinkPost) != 0 {
				rt.Fatalf("C24 VIOLATION: fee sink holds %d after the block; expected pre %d + fees %s + payments %s - payout %d = %s", got, sinkPre, fees, toSink, paid, sinkPost)
			}
			if got < p.MinBalance {
				vk.Label("sink-after:<MinBalance")
			} else if got == p.MinBalance {
				vk.Label("sink-after:=MinBalance")
			} else {
				vk.Label("sink-after:>MinBalance")
			}
			sinkModel = got
		}
	})
}
