package ledger

// C14 — Catchpoint labels depend only on ledger history.
//
// One Engine C history (real evaluator) is replayed on 2-4 ledgers that differ in flush schedule, restart points
// (reloadLedger / close+OpenLedger, also between the first and the second catchpoint stage), MaxAcctLookback,
// LRU caches, in-memory vs on-disk sqlite, catchpoint tracking mode (labels only / files), catchpoint interval and
// the memory configuration of the balances trie.
//
// Oracles (all at quiescent points, after every block and every operational action):
//   1. pairwise: the label a node reports for catchpoint round R equals the label any other node reported for R, and a
//      node never changes its label for R;
//   2. pairwise: the persisted balances-trie root of a node whose tracker DB is at round d equals the root any other node
//      had at DB round d; the first-stage record of accounts round r (totals, trie root, state-proof / online-accounts /
//      online-round-params hashes) equals the record of every other node;
//   3. independent: the trie root at DB round d equals the root of a fresh in-memory merkletrie filled with the leaves
//      recomputed from the reference model at d (cpxModelLeaves); the first-stage totals equal the totals recomputed
//      from the model's accounts;
//   4. completeness: a node whose tracker DB passed catchpoint round R has reported a label for R, and holds the
//      first-stage record of every first-stage round r with r > dbRound - CatchpointLookback (derivation in notes/C14.md:
//      under the engine's serialisation every first/second-stage round forces a flush of its own, so none is skipped);
//   5. a node that stores catchpoint files serves a file for R whose header carries the label and the first-stage totals.

import (
	"fmt"
	"sort"
	"strings"
	"testing"

	"pgregory.net/rapid"

	"github.com/algorand/go-algorand/config"
	"github.com/algorand/go-algorand/crypto"
	"github.com/algorand/go-algorand/data/basics"
	"github.com/algorand/go-algorand/ledger/store/trackerdb"
	"github.com/algorand/go-algorand/protocol"
)

const c14Rule = "One random history (Engine C: real evaluator, general transaction mix incl. boxes, app state, asset and account closes) on a consensus version with CatchpointLookback 4 or 8 " +
	"(one variant also with a 16-round balance lookback), long enough for >=3 catchpoint rounds, replayed on 2-4 ledgers with drawn MaxAcctLookback 1-8, LRU on/off, memory/disk, parked or free-running flush timer, " +
	"catchpoint interval 4/8 (a node may use the other interval), tracking mode (labels only / stored files / automatic+archival), trie cache size and page size; after every block each node draws an operation " +
	"(forced commit, reload, reopen, park toggle, cache flush/prune). Non-trivial: at least two nodes committed different round ranges, at least one node restarted between a first and its second stage, " +
	"and at least 3 catchpoint rounds were labelled by two or more nodes. Distinct: by the full trace of blocks and operations."

type c14Node struct {
	n    *engcNode
	spec cpxNodeSpec

	dbSeq       []basics.Round // distinct tracker DB rounds observed, in order
	labels      map[basics.Round]string
	fsSeen      map[basics.Round]bool
	restarts    int
	betweenHits int // restarts performed while a first stage was done and its second stage still pending
	fileChecked map[basics.Round]bool
}

type c14Obs struct {
	who string
	val string
}

type c14Case struct {
	t     *rapid.T
	vk    *vkCtx
	w     *engcWorld
	proto cpxProto
	nodes []*c14Node

	labelOf   map[basics.Round]c14Obs // first reporter of each catchpoint round's label
	labelCnt  map[basics.Round]int    // nodes that reported a label for the round
	rootOf    map[basics.Round]c14Obs // first observed stored root per DB round
	fsOf      map[basics.Round]c14Obs // first observed first-stage record per accounts round
	modelRoot map[basics.Round]crypto.Digest
	rootCmp   int
	modelCmp  int
	fsCmp     int
	fileCmp   int
}

func (c *c14Case) failf(format string, args ...any) {
	c.t.Fatalf("C14 VIOLATION: %s\n--- history (tail) ---\n%s", fmt.Sprintf(format, args...), cpxTail(c.w, 80))
}

// withTrieCfg runs f with the node's trie cache size installed in the package-level memory configuration (the
// configuration is captured when a trie object is created: on open / reload / reopen).
func (c *c14Case) withTrieCfg(cn *c14Node, f func()) {
	trackerdb.TrieMemoryConfig.CachedNodesCount = cn.spec.TrieCache
	f()
}

func (c *c14Case) modelRootAt(r basics.Round) crypto.Digest {
	if d, ok := c.modelRoot[r]; ok {
		return d
	}
	d, _, err := cpxModelRoot(c.w.Model, r)
	if err != nil {
		c.t.Fatalf("HARNESS: model root at %d: %v", r, err)
	}
	c.modelRoot[r] = d
	return d
}

func c14FSString(fs trackerdb.CatchpointFirstStageInfo) string {
	return fmt.Sprintf("totals=%x root=%v spver=%v onlineaccts=%v onlineparams=%v", protocol.EncodeReflect(&fs.Totals), fs.TrieBalancesHash,
		fs.StateProofVerificationHash, fs.OnlineAccountsHash, fs.OnlineRoundParamsHash)
}

// isFirstStageRound: r is an accounts round at which a node with this interval runs the first stage.
func (c *c14Case) isFirstStageRound(r basics.Round, interval uint64) bool {
	return r >= 1 && interval > 0 && (uint64(r)+c.proto.Lookback)%interval == 0
}

// pendingSecondStage: some first stage of the node is done (accounts round <= dbRound) whose catchpoint round is not
// yet committed (> dbRound).
func (c *c14Case) pendingSecondStage(cn *c14Node) bool {
	d := cn.n.DBRound()
	for r := d; r+basics.Round(c.proto.Lookback) > d && r >= 1; r-- {
		if c.isFirstStageRound(r, cn.spec.Interval) && cn.fsSeen[r] {
			return true
		}
	}
	return false
}

// observe checks everything that can be read from a quiescent node.
func (c *c14Case) observe(cn *c14Node) {
	n := cn.n
	l := n.L
	d := n.DBRound()
	if len(cn.dbSeq) == 0 || cn.dbSeq[len(cn.dbSeq)-1] != d {
		if len(cn.dbSeq) > 0 && cn.dbSeq[len(cn.dbSeq)-1] > d {
			c.failf("%s: tracker DB round went backwards %d -> %d", n.Name, cn.dbSeq[len(cn.dbSeq)-1], d)
		}
		cn.dbSeq = append(cn.dbSeq, d)
	}

	// ---- balances trie root at DB round d
	root, hashRound, err := cpxStoredRoot(l)
	if err != nil {
		c.failf("%s: cannot read the persisted balances trie at DB round %d: %v", n.Name, d, err)
	}
	if hashRound != d {
		c.failf("%s: stored account-hash round %d differs from tracker DB round %d", n.Name, hashRound, d)
	}
	if prev, ok := c.rootOf[d]; ok {
		if prev.who != n.Name {
			c.rootCmp++
		}
		if prev.val != root.String() {
			c.failf("balances-trie roots differ at equal DB round %d: %s has %s, %s has %v", d, prev.who, prev.val, n.Name, root)
		}
	} else {
		c.rootOf[d] = c14Obs{n.Name, root.String()}
	}
	if want := c.modelRootAt(d); want != root {
		leaves, _ := cpxModelLeaves(c.w.Model, d)
		c.failf("%s: balances-trie root at DB round %d is %v; the trie over the %d leaves recomputed from the model has root %v", n.Name, d, root, len(leaves), want)
	}
	c.modelCmp++

	// ---- first-stage records still kept (accounts rounds in (d-lookback, d])
	for r := d; r+basics.Round(c.proto.Lookback) > d && r >= 1; r-- {
		if !c.isFirstStageRound(r, cn.spec.Interval) {
			continue
		}
		fs, exists, err := cpxFirstStage(l, r)
		if err != nil {
			c.failf("%s: reading first-stage record %d: %v", n.Name, r, err)
		}
		if !exists {
			c.failf("%s: tracker DB is at round %d but there is no first-stage record for accounts round %d (catchpoint round %d): its label cannot be produced",
				n.Name, d, r, r+basics.Round(c.proto.Lookback))
		}
		cn.fsSeen[r] = true
		s := c14FSString(fs)
		if prev, ok := c.fsOf[r]; ok {
			if prev.who != n.Name {
				c.fsCmp++
			}
			if prev.val != s {
				c.failf("first-stage records of accounts round %d differ:\n %s: %s\n %s: %s", r, prev.who, prev.val, n.Name, s)
			}
		} else {
			c.fsOf[r] = c14Obs{n.Name, s}
			snap := c.w.Model.At(r)
			if want := cpxModelTotals(snap); want != fs.Totals {
				c.failf("%s: first-stage totals of accounts round %d are %+v; recomputed from the model's accounts: %+v", n.Name, r, fs.Totals, want)
			}
			if want := c.modelRootAt(r); want != fs.TrieBalancesHash {
				c.failf("%s: first-stage trie root of accounts round %d is %v; recomputed from the model: %v", n.Name, r, fs.TrieBalancesHash, want)
			}
		}
		if cpxStores(n.Cfg) && (fs.TotalAccounts != uint64(len(c.w.Model.At(r).Accts)) || fs.TotalKVs != uint64(len(c.w.Model.At(r).Kv))) {
			c.failf("%s: catchpoint data file of accounts round %d has %d accounts / %d kvs; the model has %d / %d", n.Name, r, fs.TotalAccounts, fs.TotalKVs,
				len(c.w.Model.At(r).Accts), len(c.w.Model.At(r).Kv))
		}
	}

	// ---- label
	lab := l.GetLastCatchpointLabel()
	if R, ok := cpxLabelRound(lab); ok {
		if !cpxIsCatchpointRound(R, c.proto.Lookback, cn.spec.Interval) {
			c.failf("%s reports label %s for round %d, which is not a catchpoint round (interval %d, lookback %d)", n.Name, lab, R, cn.spec.Interval, c.proto.Lookback)
		}
		if R > d {
			c.failf("%s reports label %s for round %d beyond its tracker DB round %d", n.Name, lab, R, d)
		}
		if old, ok := cn.labels[R]; ok {
			if old != lab {
				c.failf("%s changed its label for round %d: %s -> %s", n.Name, R, old, lab)
			}
		} else {
			cn.labels[R] = lab
			c.labelCnt[R]++
			if prev, ok := c.labelOf[R]; ok {
				if prev.val != lab {
					c.failf("labels for catchpoint round %d differ: %s has %s, %s has %s", R, prev.who, prev.val, n.Name, lab)
				}
			} else {
				c.labelOf[R] = c14Obs{n.Name, lab}
			}
		}
		// a node always reports its most recent catchpoint round
		for q := range cn.labels {
			if q > R {
				c.failf("%s: last catchpoint label went back from round %d to %d", n.Name, q, R)
			}
		}
		if cpxStores(n.Cfg) && !cn.fileChecked[R] {
			cn.fileChecked[R] = true
			c.checkFile(cn, R, lab)
		}
	} else if lab != "" {
		c.failf("%s reports an unparsable label %q", n.Name, lab)
	}
}

// checkFile: the stored catchpoint file of round R carries the node's label and the first-stage totals.
func (c *c14Case) checkFile(cn *c14Node, R basics.Round, lab string) {
	secs, err := cpxReadCatchpointFile(cn.n.L, R)
	if err != nil {
		c.failf("%s stores catchpoint files and reported label %s, but GetCatchpointStream(%d) fails: %v", cn.n.Name, lab, R, err)
	}
	if len(secs) == 0 || secs[0].Name != CatchpointContentFileName {
		c.failf("%s: catchpoint file %d does not start with %s", cn.n.Name, R, CatchpointContentFileName)
	}
	var hdr CatchpointFileHeader
	if err := protocol.Decode(secs[0].Data, &hdr); err != nil {
		c.failf("%s: catchpoint file %d header: %v", cn.n.Name, R, err)
	}
	r := R - basics.Round(c.proto.Lookback)
	if hdr.Catchpoint != lab || hdr.BlocksRound != R || hdr.BalancesRound != r {
		c.failf("%s: catchpoint file %d header says label %s blocks round %d balances round %d; the node's label is %s (accounts round %d)", cn.n.Name, R,
			hdr.Catchpoint, hdr.BlocksRound, hdr.BalancesRound, lab, r)
	}
	if want := cpxModelTotals(c.w.Model.At(r)); hdr.Totals != want {
		c.failf("%s: catchpoint file %d header totals %+v; model totals at accounts round %d: %+v", cn.n.Name, R, hdr.Totals, r, want)
	}
	if want := crypto.Digest(c.w.Model.At(R).Hdr.Hash()); hdr.BlockHeaderDigest != want {
		c.failf("%s: catchpoint file %d header block digest %v; block %d has digest %v", cn.n.Name, R, hdr.BlockHeaderDigest, R, want)
	}
	c.fileCmp++
}

func c14DrawSpec(t *rapid.T, name string, interval uint64) cpxNodeSpec {
	s := cpxNodeSpec{Interval: interval}
	if rapid.IntRange(0, 3).Draw(t, name+".otherInterval") == 0 {
		s.Interval = 12 - interval // 4 <-> 8
	}
	s.Tracking = rapid.SampledFrom([]int64{config.CatchpointTrackingModeTracked, config.CatchpointTrackingModeTracked,
		config.CatchpointTrackingModeStored, config.CatchpointTrackingModeStored, config.CatchpointTrackingModeAutomatic}).Draw(t, name+".tracking")
	s.TrieCache = rapid.SampledFrom([]int{9000, 9000, 2, 24}).Draw(t, name+".trieCache")
	return s
}

func c14Run(tb *testing.T, t *rapid.T, vk *vkCtx, protos []cpxProto) {
	// the trie memory configuration is a package-level variable: restore it after every ledger of the case is closed
	oldTrieCfg := trackerdb.TrieMemoryConfig
	defer func() { trackerdb.TrieMemoryConfig = oldTrieCfg }()

	proto := protos[rapid.IntRange(0, len(protos)-1).Draw(t, "proto")]
	interval := rapid.SampledFrom([]uint64{4, 8}).Draw(t, "interval")
	trackerdb.TrieMemoryConfig.NodesCountPerPage = rapid.SampledFrom([]int64{116, 116, 116, 16, 8}).Draw(t, "trieNodesPerPage")
	nExtra := rapid.SampledFrom([]int{2, 1, 3, 2}).Draw(t, "nExtra")

	primarySpec := c14DrawSpec(t, "node", interval)
	primarySpec.Interval = interval
	trackerdb.TrieMemoryConfig.CachedNodesCount = primarySpec.TrieCache
	w := engcNewWorld(tb, t, engcOpts{Proto: proto.CV, Label: vk.Label, MaxGroupsPerBlock: 4,
		CfgHook: func(name string, cfg *config.Local) { primarySpec.apply(cfg) }})
	defer w.Close()

	c := &c14Case{t: t, vk: vk, w: w, proto: proto, labelOf: map[basics.Round]c14Obs{}, labelCnt: map[basics.Round]int{}, rootOf: map[basics.Round]c14Obs{},
		fsOf: map[basics.Round]c14Obs{}, modelRoot: map[basics.Round]crypto.Digest{}}
	mk := func(n *engcNode, spec cpxNodeSpec) *c14Node {
		return &c14Node{n: n, spec: spec, labels: map[basics.Round]string{}, fsSeen: map[basics.Round]bool{}, fileChecked: map[basics.Round]bool{}}
	}
	c.nodes = append(c.nodes, mk(w.Node, primarySpec))
	w.tracef("node catchpoints interval=%d tracking=%d triecache=%d nodesPerPage=%d proto=%v", primarySpec.Interval, primarySpec.Tracking, primarySpec.TrieCache,
		trackerdb.TrieMemoryConfig.NodesCountPerPage, proto.CV)
	lruUsed := !w.Node.Cfg.DisableLedgerLRUCache
	defer func() {
		for _, cn := range c.nodes[1:] {
			cpxCloseNode(cn.n)
		}
	}()
	for i := 0; i < nExtra; i++ {
		name := fmt.Sprintf("x%d", i+1)
		spec := c14DrawSpec(t, name, interval)
		cn := mk(nil, spec)
		c.withTrieCfg(cn, func() { cn.n = cpxAddNode(w, t, name, spec, lruUsed, cpxStoreDrawn) })
		lruUsed = lruUsed || !cn.n.Cfg.DisableLedgerLRUCache
		c.nodes = append(c.nodes, cn)
	}
	for _, cn := range c.nodes {
		c.observe(cn)
	}

	// long enough for three catchpoint rounds of the base interval to be committed by a node with MaxAcctLookback 8
	firstR := (proto.Lookback/interval + 1) * interval
	nBlocks := int(firstR+2*interval) + 8 + rapid.IntRange(0, 3).Draw(t, "extraBlocks")
	nBlocks = max(nBlocks, 26) // the last scripted step (round 17) is committed by every node (MaxAcctLookback <= 8)

	ops := []string{"none", "none", "none", "none", "commit", "commit", "reload", "reopen", "park", "flush", "prune"}
	var script cpxScript
	for b := 0; b < nBlocks; b++ {
		info := cpxScriptedBlock(w, t, &script, 4, vk.Excluded)
		for _, cn := range c.nodes[1:] {
			cpxFeed(t, cn.n, info.Block)
		}
		for _, cn := range c.nodes {
			c.observe(cn)
		}
		for _, cn := range c.nodes {
			op := ops[rapid.IntRange(0, len(ops)-1).Draw(t, cn.n.Name+".op")]
			if (op == "reload" || op == "reopen") && (!cn.n.ReloadBudgetLeft() || cn.restarts >= 5) {
				op = "commit"
			}
			if op == "reopen" && !cn.n.OnDisk {
				op = "reload"
			}
			switch op {
			case "none":
				continue
			case "commit":
				cn.n.OpCommit()
			case "reload", "reopen":
				between := c.pendingSecondStage(cn)
				var err error
				c.withTrieCfg(cn, func() {
					if op == "reload" {
						err = cn.n.OpReload()
					} else {
						err = cn.n.OpReopen()
					}
				})
				if err != nil {
					c.failf("%s: %s failed: %v", cn.n.Name, op, err)
				}
				cn.restarts++
				if between {
					cn.betweenHits++
					vk.Label("restart:between-stages")
				} else {
					vk.Label("restart:other")
				}
			case "park":
				cn.n.OpSetParked(!cn.n.parked)
			case "flush":
				cn.n.OpFlushCaches()
			case "prune":
				cn.n.OpPruneCaches()
			}
			c.observe(cn)
		}
	}

	// ---- completeness
	for _, cn := range c.nodes {
		d := cn.n.DBRound()
		for R := basics.Round(1); R <= d; R++ {
			if cpxIsCatchpointRound(R, proto.Lookback, cn.spec.Interval) {
				if _, ok := cn.labels[R]; !ok {
					c.failf("%s (interval %d): tracker DB is at round %d but no label was ever reported for catchpoint round %d (reported: %v)", cn.n.Name, cn.spec.Interval, d, R, c14Rounds(cn.labels))
				}
			}
		}
	}

	// ---- classification
	shared := 0
	for _, k := range c.labelCnt {
		if k >= 2 {
			shared++
		}
	}
	seqs := map[string]bool{}
	between := 0
	for _, cn := range c.nodes {
		seqs[fmt.Sprint(cn.dbSeq)] = true
		between += cn.betweenHits
	}
	nontrivial := shared >= 3 && len(seqs) >= 2 && between >= 1
	vk.Case(nontrivial, strings.Join(w.History, "|"))
	vk.Labelf("nodes=%d", len(c.nodes))
	vk.Labelf("proto=%s", strings.TrimPrefix(string(proto.CV), "verif-c14-"))
	vk.Labelf("interval=%d", interval)
	vk.Labelf("trieNodesPerPage=%d", trackerdb.TrieMemoryConfig.NodesCountPerPage)
	vk.Labelf("shared-catchpoint-rounds=%d", min(shared, 5))
	if len(seqs) >= 2 {
		vk.Label("schedules-differ")
	}
	if between >= 1 {
		vk.Label("case:restart-between-stages")
	}
	for _, cn := range c.nodes {
		if cn.spec.Interval != interval {
			vk.Label("node:other-interval")
		}
		if cpxStores(cn.n.Cfg) {
			vk.Label("node:stores-files")
		} else {
			vk.Label("node:labels-only")
		}
		if cn.n.OnDisk {
			vk.Label("node:on-disk")
		}
		if !cn.n.Cfg.DisableLedgerLRUCache {
			vk.Label("node:lru")
		}
		if cn.spec.TrieCache < 9000 {
			vk.Label("node:small-trie-cache")
		}
	}
	tip := w.Model.Tip()
	if len(tip.Kv) > 0 {
		vk.Label("state:has-kv")
	}
	kvDel, resDel := 0, 0
	for r := basics.Round(1); r <= w.Model.Latest(); r++ {
		ch := w.Model.At(r).Changes
		kvDel += ch.KvDeleted
		resDel += ch.Uncreated + ch.Closed
	}
	if kvDel > 0 {
		vk.Label("history:kv-deleted")
	}
	// a zero-length box that was in some node's tracker DB and whose deletion was committed by that node in a later flush
	emptyDel := 0
	for r := basics.Round(2); r <= w.Model.Latest(); r++ {
		pre, post := w.Model.At(r-1), w.Model.At(r)
		for k := range post.Changes.Kv {
			v, had := pre.Kv[k]
			if _, has := post.Kv[k]; !had || has || len(v) != 0 {
				continue
			}
			// k: zero-length before round r, deleted in round r; since when zero-length?
			since := r - 1
			for since > 0 {
				if pv, ok := w.Model.At(since - 1).Kv[k]; !ok || len(pv) != 0 {
					break
				}
				since--
			}
			for _, cn := range c.nodes {
				persisted, deleted := false, false
				for _, d := range cn.dbSeq {
					persisted = persisted || (d >= since && d < r)
					deleted = deleted || d >= r
				}
				if persisted && deleted {
					emptyDel++
				}
			}
		}
	}
	if emptyDel > 0 {
		vk.Label("history:persisted-empty-box-deleted-in-later-flush")
	}
	vk.Add("persisted-empty-box-deletions", int64(emptyDel))
	if resDel > 0 {
		vk.Label("history:account-closed-or-creatable-deleted")
	}
	vk.Add("root-pairwise-comparisons", int64(c.rootCmp))
	vk.Add("root-model-comparisons", int64(c.modelCmp))
	vk.Add("firststage-pairwise-comparisons", int64(c.fsCmp))
	vk.Add("file-header-checks", int64(c.fileCmp))
	vk.Add("labels-compared", int64(shared))
	if vk.WantSample(nontrivial) {
		type ns struct {
			Name     string
			Interval uint64
			Tracking int64
			Lookback uint64
			OnDisk   bool
			DBRounds []basics.Round
			Labels   []string
			Restarts int
			Between  int
		}
		var nodes []ns
		for _, cn := range c.nodes {
			var labs []string
			for _, R := range c14Rounds(cn.labels) {
				labs = append(labs, cn.labels[R])
			}
			nodes = append(nodes, ns{cn.n.Name, cn.spec.Interval, cn.spec.Tracking, cn.n.Cfg.MaxAcctLookback, cn.n.OnDisk, cn.dbSeq, labs, cn.restarts, cn.betweenHits})
		}
		vk.Sample(nontrivial, map[string]any{"proto": proto.CV, "blocks": nBlocks, "accounts": len(tip.Accts), "kvs": len(tip.Kv), "nodes": nodes})
	}
}

func c14Rounds(m map[basics.Round]string) []basics.Round {
	var out []basics.Round
	for r := range m {
		out = append(out, r)
	}
	sort.Slice(out, func(i, j int) bool { return out[i] < out[j] })
	return out
}

func TestVerif_C14_Labels(t *testing.T) {
	vk := vkBegin(t, "C14")
	vk.Rule(c14Rule)
	vk.Assume("the StateDelta of each validated block describes the block (Engine C model); SHA-512/256 collision resistance; steps are serialised (every node is quiescent between actions)")
	protos := cpxRegisterProtos(t, "c14")
	rapid.Check(t, func(rt *rapid.T) { c14Run(t, rt, vk, protos) })
}
