package ledger

// C28 (unit 2) — Only the current authorizer can authorize a transaction: the evaluator half.
//
// Short histories (1..3 blocks, several groups of 1..3 members each) on a fresh ledger in which accounts are
// rekeyed, rekeyed back (RekeyTo == Sender), rekeyed twice, rekeyed to an application account, rekeyed to an
// address that does not exist, rekeyed in the middle of a group before the next member spends, and rekeyed by
// an inner transaction. Every member claims a signer (SignedTxn.AuthAddr, or the sender when absent): the
// right one, an old key, a third party, the sender itself after a rekey, AuthAddr == Sender explicitly.
// Inner payments name an arbitrary account as their sender: the application may spend from it only if that
// account's current auth address is the application account.
//
// Oracle: a reference map address -> current auth address, updated by the rekeys of accepted members in order
// (group = all or nothing). BlockEvaluator.TransactionGroup must accept a group exactly when every member's
// claimed signer (and every inner sender's controller) equals the map's entry at that point of the block.
// After every committed block (which is also re-validated by Ledger.Validate) the AuthAddr stored in the
// ledger must equal the map.

import (
	"fmt"
	"strings"
	"testing"

	"github.com/algorand/go-algorand/agreement"
	"github.com/algorand/go-algorand/config"
	"github.com/algorand/go-algorand/crypto"
	"github.com/algorand/go-algorand/data/basics"
	"github.com/algorand/go-algorand/data/bookkeeping"
	"github.com/algorand/go-algorand/data/committee"
	"github.com/algorand/go-algorand/data/transactions"
	"github.com/algorand/go-algorand/data/transactions/logic"
	"github.com/algorand/go-algorand/data/txntest"
	"github.com/algorand/go-algorand/ledger/eval"
	"github.com/algorand/go-algorand/protocol"
	"pgregory.net/rapid"
)

// c28AppSource: ApplicationArgs = ["ipay", rekeyTo-or-empty]; Accounts = [innerSender, innerReceiver].
const c28AppSource = `
txn ApplicationID
bz ok
txn NumAppArgs
bz ok
itxn_begin
int pay; itxn_field TypeEnum
txn Accounts 1; itxn_field Sender
txn Accounts 2; itxn_field Receiver
int 1; itxn_field Amount
int 0; itxn_field Fee
txn ApplicationArgs 1; len; bz submit
txn ApplicationArgs 1; itxn_field RekeyTo
submit:
itxn_submit
ok:
int 1
`

type c28Model struct {
	auth map[basics.Address]basics.Address   // zero / absent = the address itself
	old  map[basics.Address][]basics.Address // previous controllers (for the "old key" choice)
}

func (m *c28Model) cur(a basics.Address) basics.Address {
	if x, ok := m.auth[a]; ok && !x.IsZero() {
		return x
	}
	return a
}

func (m *c28Model) rekey(a, to basics.Address) {
	m.old[a] = append(m.old[a], m.cur(a))
	if to == a {
		delete(m.auth, a)
	} else {
		m.auth[a] = to
	}
}

func (m *c28Model) clone() *c28Model {
	c := &c28Model{auth: map[basics.Address]basics.Address{}, old: map[basics.Address][]basics.Address{}}
	for k, v := range m.auth {
		c.auth[k] = v
	}
	for k, v := range m.old {
		c.old[k] = append([]basics.Address{}, v...)
	}
	return c
}

type c28Member struct {
	Type     string `json:"type"`
	Sender   string `json:"sender"`
	Claim    string `json:"claim"`
	Rekey    string `json:"rekey,omitempty"`
	Inner    string `json:"inner,omitempty"`
	InnerRk  string `json:"inner_rekey,omitempty"`
	AuthOK   bool   `json:"auth_ok"`
	InnerOK  bool   `json:"inner_ok"`
	WasRekey bool   `json:"sender_rekeyed"`
}

// c28Placed: a member of an accepted group, in payset order, with the auth address the model had for its sender
// at that point of the block.
type c28Placed struct {
	sender, right basics.Address
}

// c28Finish is evkWorld.finish plus a proposer-side attack: before the block is committed, a twin of it in which
// one transaction claims a signer that is not its sender's auth address (commitments recomputed) is handed to
// Ledger.Validate, which must refuse it. tamper returns the payset index and the AuthAddr to plant (ok=false:
// nothing to tamper with).
func c28Finish(w *evkWorld, ev *eval.BlockEvaluator, tamper func(n int) (int, basics.Address, bool)) (fin bookkeeping.Block, tampered bool, twinErr error, err error) {
	ub, err := ev.GenerateBlock(nil)
	if err != nil {
		return fin, false, nil, fmt.Errorf("GenerateBlock: %w", err)
	}
	blk := ub.UnfinishedBlock()
	prp := blk.BlockHeader.FeeSink
	if w.proto.Payouts.Enabled {
		fin = blk.WithProposer(committee.Seed(prp), prp, true)
	} else {
		fin = blk.WithProposer(committee.Seed(prp), basics.Address{}, false)
	}
	if k, claim, ok := tamper(len(fin.Payset)); ok {
		twin := fin
		twin.Payset = append(transactions.Payset{}, fin.Payset...)
		twin.Payset[k].SignedTxn.AuthAddr = claim
		twin.TxnCommitments, err = twin.PaysetCommit()
		if err != nil {
			return fin, false, nil, fmt.Errorf("PaysetCommit of the tampered twin: %w", err)
		}
		_, twinErr = validateWithoutSignatures(w.t, w.l, twin)
		tampered = true
	}
	vvb, err := validateWithoutSignatures(w.t, w.l, fin)
	if err != nil {
		return fin, tampered, twinErr, fmt.Errorf("Validate: %w", err)
	}
	if err = w.l.AddValidatedBlock(*vvb, agreement.Certificate{}); err != nil {
		return fin, tampered, twinErr, fmt.Errorf("AddValidatedBlock: %w", err)
	}
	w.l.WaitForCommit(w.l.Latest())
	return fin, tampered, twinErr, nil
}

func c28IsAuthErr(err error) bool {
	if err == nil {
		return false
	}
	s := err.Error()
	return strings.Contains(s, "should have been authorized by") || strings.Contains(s, "unauthorized")
}

func TestVerif_C28_Evaluator(t *testing.T) {
	vk := vkBegin(t, "C28")
	vk.Rule("histories of 1..3 blocks x 1..4 groups x 1..3 members (pay / keyreg-offline / application call with an inner payment) over 5 funded accounts, 2 non-existent addresses and an application account; members rekey (to another account, back to self, to the app, to a ghost), also mid-group and through inner transactions; each member claims the right signer / an old key / a third party / the bare sender / AuthAddr==Sender; oracle = reference auth-address map folded over accepted members; before each block is committed a twin in which one transaction claims a wrong signer (commitments recomputed) must be refused by Ledger.Validate; non-trivial = group in which some sender (or inner sender) is currently rekeyed or a member rekeys before a later member of the same group spends, or the claim is wrong; distinct by the rendered history")
	vk.Assume("txntest transactions carry no signatures: the evaluator is only asked whether the claimed signer is the sender's current auth address (signatures are C28 unit 1)")
	allVersions := []protocol.ConsensusVersion{protocol.ConsensusV42, protocol.ConsensusV40, protocol.ConsensusFuture, protocol.ConsensusV41}
	// two protocol versions per process (a ledger costs seconds to open); shards rotate through all four
	rot := (vkShard() + int(vkSeed()%4)) % 4
	versions := []protocol.ConsensusVersion{allVersions[rot], allVersions[(rot+1)%4]}

	// Opening a ledger costs seconds of CPU here (the account LRU caches pre-allocate large buffers), so one
	// ledger per protocol version is shared by consecutive cases. Cases stay independent: each one works on its
	// own freshly created and funded accounts and its own application; nothing it checks depends on rounds,
	// application ids or the other accounts of the ledger. A ledger is retired before its history outgrows the
	// in-memory delta window (cfg.MaxAcctLookback = 400 in evkOpenLedger), and after any abandoned case.
	worlds := map[protocol.ConsensusVersion]*evkWorld{}
	defer func() {
		for _, w := range worlds {
			w.close()
		}
	}()
	caseNo := 0

	rapid.Check(t, func(rt *rapid.T) {
		cv := rapid.SampledFrom(versions).Draw(rt, "proto")
		caseNo++
		w := worlds[cv]
		if w != nil && w.l.Latest() > 300 {
			w.close()
			w = nil
		}
		if w == nil {
			l, addrs, gb, err := evkOpenLedger(t, cv, true)
			if err != nil {
				rt.Fatalf("harness: open ledger: %v", err)
			}
			w = &evkWorld{t: t, l: l, cv: cv, proto: config.Consensus[cv], addrs: addrs, sink: gb.FeeSink, pool: gb.RewardsPool}
			worlds[cv] = w
			vk.Add("ledgers_opened", 1)
		}
		l, addrs := w.l, w.addrs
		clean := false
		defer func() {
			if !clean { // failed or abandoned case: do not let later cases build on this ledger
				w.close()
				delete(worlds, cv)
			}
		}()
		minFee := w.proto.MinTxnFee

		// setup: this case's application, its funded account and five fresh funded user accounts
		users := make([]basics.Address, 5)
		for i := range users {
			users[i] = basics.Address(crypto.Hash([]byte(fmt.Sprintf("verif-C28-user-%d-%d-%d", vkShard(), caseNo, i))))
		}
		// The application is created by the first transaction of the case's first block, so its id is the
		// transaction counter + 1 (checked against the committed block below); the funding group follows it.
		lastHdr, err := l.BlockHdr(l.Latest())
		if err != nil {
			rt.Fatalf("harness: BlockHdr: %v", err)
		}
		app := basics.AppIndex(lastHdr.TxnCounter + 1)
		appAddr := app.Address()

		ghosts := []basics.Address{ // never funded: these accounts do not exist
			basics.Address(crypto.Hash([]byte(fmt.Sprintf("verif-C28-ghost-%d-%d-0", vkShard(), caseNo)))),
			basics.Address(crypto.Hash([]byte(fmt.Sprintf("verif-C28-ghost-%d-%d-1", vkShard(), caseNo)))),
		}
		name := map[basics.Address]string{appAddr: "APP", ghosts[0]: "G0", ghosts[1]: "G1"}
		for i, u := range users {
			name[u] = fmt.Sprintf("U%d", i)
		}
		nm := func(a basics.Address) string {
			if a.IsZero() {
				return "-"
			}
			if s, ok := name[a]; ok {
				return s
			}
			return evkShort(a)
		}
		senders := append(append([]basics.Address{}, users...), appAddr) // accounts that can pay fees
		anyAddr := append(append(append([]basics.Address{}, users...), appAddr), ghosts...)
		model := &c28Model{auth: map[basics.Address]basics.Address{}, old: map[basics.Address][]basics.Address{}}

		pick := func(list []basics.Address, label string) basics.Address {
			return list[rapid.IntRange(0, len(list)-1).Draw(rt, label)]
		}
		drawRekey := func(self basics.Address, label string) basics.Address {
			switch rapid.SampledFrom([]string{"none", "none", "none", "user", "user", "self", "app", "ghost"}).Draw(rt, label) {
			case "user":
				return pick(users, label+"User")
			case "self":
				return self
			case "app":
				return appAddr
			case "ghost":
				return pick(ghosts, label+"Ghost")
			}
			return basics.Address{}
		}

		var history []string
		nontrivialCase := false
		nBlocks := rapid.IntRange(1, 3).Draw(rt, "blocks")
		for b := 0; b < nBlocks; b++ {
			ev, err := w.startEval(logic.EvalErrorDetailsTracer{})
			if err != nil {
				rt.Fatalf("harness: start evaluator: %v", err)
			}
			nGroups := rapid.IntRange(1, 4).Draw(rt, "groups")
			var placed []c28Placed
			if b == 0 {
				create := []*txntest.Txn{{Type: "appl", Sender: addrs[0], ApprovalProgram: evkSrc(c28AppSource), ClearStateProgram: "int 1"}}
				fund := []*txntest.Txn{{Type: "pay", Sender: addrs[0], Receiver: appAddr, Amount: 50_000_000}}
				for _, u := range users {
					fund = append(fund, &txntest.Txn{Type: "pay", Sender: addrs[0], Receiver: u, Amount: 50_000_000})
				}
				for _, sg := range [][]*txntest.Txn{create, fund} {
					if err := evkApply(ev, w.group(sg...), false); err != nil {
						rt.Fatalf("harness: setup group: %v", err)
					}
					for range sg {
						placed = append(placed, c28Placed{sender: addrs[0], right: addrs[0]})
					}
				}
			}
			for gI := 0; gI < nGroups; gI++ {
				tent := model.clone()
				n := rapid.SampledFrom([]int{1, 1, 2, 2, 3}).Draw(rt, "members")
				txns := make([]*txntest.Txn, n)
				claims := make([]basics.Address, n) // AuthAddr to put on the signed transaction (zero = absent)
				desc := make([]c28Member, n)
				rights := make([]c28Placed, n)
				expect := true
				nontrivial := false
				var prev basics.Address
				for i := 0; i < n; i++ {
					// sender: often the previous member's sender or an account that is currently rekeyed
					var s basics.Address
					switch k := rapid.IntRange(0, 9).Draw(rt, "senderMode"); {
					case k < 3 && i > 0:
						s = prev
					case k < 6:
						var rk []basics.Address
						for _, a := range senders {
							if tent.cur(a) != a {
								rk = append(rk, a)
							}
						}
						if len(rk) > 0 {
							s = pick(rk, "rekeyedSender")
						} else {
							s = pick(senders, "sender")
						}
					default:
						s = pick(senders, "sender")
					}
					prev = s
					right := tent.cur(s)
					d := c28Member{Sender: nm(s), WasRekey: right != s}
					rights[i] = c28Placed{sender: s, right: right}
					// claimed signer
					var claim basics.Address // as it goes on the wire
					switch rapid.SampledFrom([]string{"right", "right", "right", "right", "right", "old", "third", "bare", "explicit-self"}).Draw(rt, "claim") {
					case "right":
						if right != s {
							claim = right
						}
						d.Claim = "right"
					case "old":
						if o := tent.old[s]; len(o) > 0 {
							claim = o[rapid.IntRange(0, len(o)-1).Draw(rt, "oldIdx")]
							d.Claim = "old"
						} else {
							claim = pick(anyAddr, "third")
							d.Claim = "third"
						}
					case "third":
						claim = pick(anyAddr, "third")
						d.Claim = "third"
					case "bare":
						d.Claim = "bare"
					default:
						claim = s
						d.Claim = "explicit-self"
					}
					claimed := claim
					if claimed.IsZero() {
						claimed = s
					}
					d.Claim += "=" + nm(claimed)
					d.AuthOK = claimed == right
					d.InnerOK = true
					if right != s || !d.AuthOK {
						nontrivial = true
					}
					tx := &txntest.Txn{Sender: s, Fee: 10 * minFee}
					typ := rapid.SampledFrom([]string{"pay", "pay", "pay", "keyreg", "appl", "appl"}).Draw(rt, "type")
					if typ == "keyreg" && s == appAddr {
						typ = "pay"
					}
					d.Type = typ
					switch typ {
					case "pay":
						tx.Type = protocol.PaymentTx
						tx.Receiver = pick(users, "receiver")
						tx.Amount = uint64(rapid.IntRange(0, 5).Draw(rt, "amount"))
					case "keyreg":
						tx.Type = protocol.KeyRegistrationTx
					default:
						tx.Type = protocol.ApplicationCallTx
						tx.ApplicationID = app
						x := pick(senders, "innerSender")
						if rapid.IntRange(0, 2).Draw(rt, "innerRekeyedToApp") == 0 {
							// prefer an account the application currently controls
							var ctl []basics.Address
							for _, a := range senders {
								if tent.cur(a) == appAddr {
									ctl = append(ctl, a)
								}
							}
							if len(ctl) > 0 {
								x = pick(ctl, "innerControlled")
							}
						}
						irk := drawRekey(x, "innerRekey")
						tx.Accounts = []basics.Address{x, pick(users, "innerReceiver")}
						tx.ApplicationArgs = [][]byte{[]byte("ipay"), {}}
						if !irk.IsZero() {
							tx.ApplicationArgs[1] = append([]byte{}, irk[:]...)
						}
						d.Inner, d.InnerRk = nm(x), nm(irk)
					}
					tx.RekeyTo = drawRekey(s, "rekey")
					d.Rekey = nm(tx.RekeyTo)

					// fold the member into the tentative model
					if d.AuthOK && expect {
						if !tx.RekeyTo.IsZero() {
							tent.rekey(s, tx.RekeyTo)
							if i < n-1 {
								nontrivial = true
							}
						}
						if typ == "appl" {
							// The outer rekey is applied before the program runs (apply.Rekey precedes the type switch),
							// so an application call that rekeys its own sender to the app lets the inner spend from it.
							x := tx.Accounts[0]
							d.InnerOK = tent.cur(x) == appAddr
							if x != appAddr {
								nontrivial = true
							}
							if d.InnerOK {
								if len(tx.ApplicationArgs[1]) > 0 {
									var to basics.Address
									copy(to[:], tx.ApplicationArgs[1])
									tent.rekey(x, to)
								}
							} else {
								expect = false
							}
						}
					} else {
						expect = false
					}
					txns[i], claims[i], desc[i] = tx, claim, d
				}

				g := w.group(txns...)
				for i := range g {
					g[i].AuthAddr = claims[i]
				}
				gerr := evkApply(ev, g, rapid.Bool().Draw(rt, "pretest"))
				render := fmt.Sprintf("b%d g%d %+v expect=%v", b, gI, desc, expect)
				history = append(history, render)
				verdict := "accept"
				if !expect {
					verdict = "reject"
				}
				switch {
				case gerr == nil && !expect:
					rt.Fatalf("C28 evaluator accepted a group the reference auth-address model rejects\nproto=%s\nhistory:\n%s", cv, strings.Join(history, "\n"))
				case gerr != nil && expect:
					if c28IsAuthErr(gerr) {
						rt.Fatalf("C28 evaluator rejected a correctly authorized group: %v\nproto=%s\nhistory:\n%s", gerr, cv, strings.Join(history, "\n"))
					}
					// some other rule fired (not the mechanism under test): the model and the ledger may diverge, stop here
					vk.Excluded("expected-accept-but-other-error:" + evkErrClass(gerr))
					return
				case gerr != nil && !expect:
					if !c28IsAuthErr(gerr) {
						vk.Excluded("expected-reject-other-error-first:" + evkErrClass(gerr))
					}
				}
				if gerr == nil {
					model = tent
					placed = append(placed, rights...)
				}
				if nontrivial {
					nontrivialCase = true
				}
				for _, d := range desc {
					claimKind := d.Claim[:strings.Index(d.Claim, "=")]
					vk.Labelf("member %s rekeyed=%v claim=%s ok=%v", d.Type, d.WasRekey, claimKind, d.AuthOK)
					if d.Inner != "" && d.AuthOK {
						vk.Labelf("inner-sender-controlled=%v", d.InnerOK)
					}
					if d.Rekey != "-" {
						vk.Label("member-rekeys")
					}
					if d.InnerRk != "" && d.InnerRk != "-" {
						vk.Label("inner-rekeys")
					}
				}
				vk.Labelf("group size=%d verdict=%s", n, verdict)
			}
			tamperNote := ""
			fin, tampered, twinErr, err := c28Finish(w, ev, func(np int) (int, basics.Address, bool) {
				if np != len(placed) {
					rt.Fatalf("harness: payset has %d transactions, %d members were accepted", np, len(placed))
				}
				if np == 0 {
					return 0, basics.Address{}, false
				}
				k := rapid.IntRange(0, np-1).Draw(rt, "tamperIdx")
				cands := append(append([]basics.Address{}, anyAddr...), basics.Address{})
				off := rapid.IntRange(0, len(cands)-1).Draw(rt, "tamperClaim")
				for j := range cands {
					c := cands[(off+j)%len(cands)]
					claimed := c
					if claimed.IsZero() {
						claimed = placed[k].sender
					}
					if claimed != placed[k].right {
						tamperNote = fmt.Sprintf("b%d twin: payset[%d] sender=%s right=%s claims %s", b, k, nm(placed[k].sender), nm(placed[k].right), nm(claimed))
						return k, c, true
					}
				}
				return 0, basics.Address{}, false
			})
			if err != nil {
				rt.Fatalf("C28 block built from accepted groups does not generate/validate/commit: %v\nproto=%s\nhistory:\n%s", err, cv, strings.Join(history, "\n"))
			}
			if b == 0 && (len(fin.Payset) == 0 || fin.Payset[0].ApplyData.ApplicationID != app) {
				rt.Fatalf("harness: predicted application id %d is not the created one", app)
			}
			if tampered {
				history = append(history, tamperNote)
				switch {
				case twinErr == nil:
					rt.Fatalf("C28 Ledger.Validate accepted a block in which a transaction claims a signer that is not its sender's auth address\n%s\nproto=%s\nhistory:\n%s", tamperNote, cv, strings.Join(history, "\n"))
				case c28IsAuthErr(twinErr):
					vk.Label("tampered-twin-refused-by-authorizer-check")
				default:
					vk.Excluded("tampered-twin-refused-by-another-check:" + evkErrClass(twinErr))
				}
			}
			// the committed auth addresses are the model's
			for _, a := range anyAddr {
				ad, _, _, err := l.LookupLatest(a)
				if err != nil {
					rt.Fatalf("harness: LookupLatest(%s): %v", nm(a), err)
				}
				want := model.auth[a]
				if ad.AuthAddr != want {
					rt.Fatalf("C28 committed AuthAddr of %s is %s, reference model says %s\nproto=%s\nhistory:\n%s", nm(a), nm(ad.AuthAddr), nm(want), cv, strings.Join(history, "\n"))
				}
			}
		}
		rekeyedNow := 0
		for range model.auth {
			rekeyedNow++
		}
		vk.Labelf("accounts rekeyed at end=%d", rekeyedNow)
		vk.Labelf("proto=%s", cv)
		clean = true
		fp := string(cv) + strings.Join(history, "\n")
		vk.Case(nontrivialCase, fp)
		if vk.WantSample(nontrivialCase) {
			vk.Sample(nontrivialCase, map[string]any{"proto": string(cv), "history": history})
		}
	})
}
