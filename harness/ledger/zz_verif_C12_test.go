package ledger

// C12 — Reported account totals equal the sum over accounts.
//
// Oracle: for every round r the ledger serves, Totals(r) (and LatestTotals) must equal sums recomputed from the
// Engine C model's complete account list at r, written from the definition (see c12Sum and notes/C12.md).

import (
	"fmt"
	"math/big"
	"strings"
	"testing"

	"pgregory.net/rapid"

	"github.com/algorand/go-algorand/data/basics"
	"github.com/algorand/go-algorand/ledger/ledgercore"
)

type c12Class struct {
	Money *big.Int
	Units *big.Int
}

type c12Totals struct {
	Online, Offline, NotPart c12Class
	Level                    uint64
}

// c12Sum recomputes the totals of a round from the enumerated accounts.
//
// Definition used (documented in ledgercore/totals.go by AlgoCount / AddAccount / ApplyRewards):
//   - every account is counted in the class of its Status;
//   - Money of a class = sum over its accounts of the balance INCLUDING the rewards pending at the round's
//     RewardsLevel (AddAccount adds data.Money(rewardUnit, totals.RewardsLevel); ApplyRewards adds
//     RewardUnits*delta to Online and Offline when the level moves). NotParticipating accounts have no pending rewards;
//   - RewardUnits of a class = sum of floor(balance-without-pending-rewards / RewardUnit), for all three classes
//     (AddAccount adds MicroAlgos.RewardUnits for whatever status);
//   - RewardsLevel = the block header's RewardsLevel.
func c12Sum(s *engcSnap) c12Totals {
	z := func() c12Class { return c12Class{new(big.Int), new(big.Int)} }
	t := c12Totals{Online: z(), Offline: z(), NotPart: z(), Level: s.RewardsLevel}
	unit := s.Proto.RewardUnit
	for _, a := range s.Accts {
		d := a.Data
		var cl *c12Class
		switch d.Status {
		case basics.Online:
			cl = &t.Online
		case basics.Offline:
			cl = &t.Offline
		default:
			cl = &t.NotPart
		}
		money := new(big.Int).SetUint64(d.MicroAlgos.Raw)
		units := d.MicroAlgos.Raw / unit
		if d.Status != basics.NotParticipating {
			pending := new(big.Int).Mul(new(big.Int).SetUint64(units), new(big.Int).SetUint64(s.RewardsLevel-d.RewardsBase))
			money.Add(money, pending)
		}
		cl.Money.Add(cl.Money, money)
		cl.Units.Add(cl.Units, new(big.Int).SetUint64(units))
	}
	return t
}

func c12Diff(got ledgercore.AccountTotals, want c12Totals) string {
	var out []string
	cmp := func(name string, g ledgercore.AlgoCount, w c12Class) {
		if new(big.Int).SetUint64(g.Money.Raw).Cmp(w.Money) != 0 {
			out = append(out, fmt.Sprintf("%s.Money reported %d, sum over accounts %v", name, g.Money.Raw, w.Money))
		}
		if new(big.Int).SetUint64(g.RewardUnits).Cmp(w.Units) != 0 {
			out = append(out, fmt.Sprintf("%s.RewardUnits reported %d, sum over accounts %v", name, g.RewardUnits, w.Units))
		}
	}
	cmp("Online", got.Online, want.Online)
	cmp("Offline", got.Offline, want.Offline)
	cmp("NotParticipating", got.NotParticipating, want.NotPart)
	if got.RewardsLevel != want.Level {
		out = append(out, fmt.Sprintf("RewardsLevel reported %d, block header %d", got.RewardsLevel, want.Level))
	}
	return strings.Join(out, "; ")
}

type c12Checker struct {
	w          *engcWorld
	vk         *vkCtx
	cache      map[basics.Round]c12Totals
	checked    int
	ntRounds   map[basics.Round]bool // rounds whose block changed a status or closed an account, and that were checked
	afterOps   int
	levelMoved int
}

func (c *c12Checker) failf(t *rapid.T, format string, args ...any) {
	h := c.w.History
	if len(h) > 60 {
		h = h[len(h)-60:]
	}
	t.Fatalf("C12 VIOLATION: %s\n--- history (tail) ---\n%s", fmt.Sprintf(format, args...), strings.Join(h, "\n"))
}

func (c *c12Checker) want(r basics.Round) c12Totals {
	if t, ok := c.cache[r]; ok {
		return t
	}
	t := c12Sum(c.w.Model.At(r))
	c.cache[r] = t
	return t
}

// check compares Totals(r) for every served round (and the rounds just outside) on every node.
func (c *c12Checker) check(t *rapid.T) {
	m := c.w.Model
	latest := m.Latest()
	for _, n := range c.w.Nodes() {
		l := n.L
		d0 := n.DBRound()
		lo := d0.SubSaturate(2)
		for r := lo; r <= latest+1; r++ {
			got, err := l.Totals(r)
			d1 := n.DBRound()
			mustErr, mustOK := c08ServedC12(r, d0, d1, latest)
			if mustErr && err == nil {
				c.failf(t, "%s: Totals(%d) answered although the round is not served (dbRound %d, latest %d)", n.Name, r, d0, latest)
			}
			if mustOK && err != nil {
				c.failf(t, "%s: Totals(%d) failed although the round is served (dbRound %d, latest %d): %v", n.Name, r, d0, latest, err)
			}
			if err != nil {
				continue
			}
			if diff := c12Diff(got, c.want(r)); diff != "" {
				c.failf(t, "%s: Totals(%d) [dbRound %d, latest %d]: %s", n.Name, r, d0, latest, diff)
			}
			c.checked++
			ch := &m.At(r).Changes
			if r > 0 && (ch.StatusChanged > 0 || ch.Closed > 0) {
				c.ntRounds[r] = true
			}
			if r > 0 && m.At(r).RewardsLevel != m.At(r-1).RewardsLevel {
				c.levelMoved++
			}
			if n.Reloads+n.Reopens+n.Commits > 0 {
				c.afterOps++
			}
		}
		rnd, got, err := l.LatestTotals()
		if err != nil || rnd != latest {
			c.failf(t, "%s: LatestTotals() = round %d err %v, latest is %d", n.Name, rnd, err, latest)
		}
		if diff := c12Diff(got, c.want(latest)); diff != "" {
			c.failf(t, "%s: LatestTotals() at %d: %s", n.Name, latest, diff)
		}
	}
}

// c08ServedC12 is the schedule independent served-round rule (same rule as C08; duplicated so that the C12 unit
// does not need the C08 file).
func c08ServedC12(r, d0, d1, latest basics.Round) (mustErr, mustOK bool) {
	if r > latest || r < d0 {
		return true, false
	}
	if r >= d1 {
		return false, true
	}
	return false, false
}

func c12Run(tb *testing.T, t *rapid.T, vk *vkCtx, opts engcOpts) {
	opts.Label = vk.Label
	w := engcNewWorld(tb, t, opts)
	defer w.Close()
	c := &c12Checker{w: w, vk: vk, cache: map[basics.Round]c12Totals{}, ntRounds: map[basics.Round]bool{}}
	pickNode := func(t *rapid.T) *engcNode {
		ns := w.Nodes()
		return ns[rapid.IntRange(0, len(ns)-1).Draw(t, "node")]
	}
	block := func(t *rapid.T) { w.StepBlock(t, -1) }
	actions := map[string]func(*rapid.T){
		"Block1": block, "Block2": block, "Block3": block, "Block4": block, "Block5": block, "Block6": block,
		"Blocks": func(t *rapid.T) {
			for i, k := 0, rapid.IntRange(2, 5).Draw(t, "burst"); i < k; i++ {
				w.StepBlock(t, -1)
			}
		},
		"Commit": func(t *rapid.T) { pickNode(t).OpCommit(); vk.Label("op:commit") },
		"Park": func(t *rapid.T) {
			n := pickNode(t)
			n.OpSetParked(!n.parked)
			vk.Label("op:toggle-park")
		},
		"Reload": func(t *rapid.T) {
			n := pickNode(t)
			if !n.ReloadBudgetLeft() {
				n.OpCommit()
				vk.Label("op:commit")
				return
			}
			var err error
			if n.OnDisk && rapid.Bool().Draw(t, "reopen") {
				err = n.OpReopen()
				vk.Label("op:reopen")
			} else {
				err = n.OpReload()
				vk.Label("op:reload")
			}
			if err != nil {
				c.failf(t, "reload/reopen failed: %v", err)
			}
		},
		"": c.check,
	}
	t.Repeat(actions)
	for i := 0; i < 2; i++ {
		w.StepBlock(t, -1)
	}
	w.Node.OpCommit()
	c.check(t)

	nontrivial := len(c.ntRounds) > 0
	vk.Case(nontrivial, strings.Join(w.History, "|"))
	vk.Add("totals_compared", int64(c.checked))
	vk.Add("rounds_with_status_change_or_close_checked", int64(len(c.ntRounds)))
	vk.Add("totals_compared_after_commit_or_reload", int64(c.afterOps))
	vk.Add("totals_compared_where_level_moved", int64(c.levelMoved))
	if nontrivial {
		vk.Label("case:status-change-or-close-in-served-round")
	}
	if vk.WantSample(nontrivial) {
		vk.Sample(nontrivial, map[string]any{"history": w.History, "totals_compared": c.checked, "nontrivial_rounds": len(c.ntRounds)})
	}
}

const c12Rule = "Engine C histories with the status-heavy transaction mix (keyreg online/offline/non-participating with short key lifetimes so that expirations appear in block headers, " +
	"closes, payments, rewards level moving, proposer payouts) interleaved with commits/park/reload/reopen; after every step Totals(r) for every served round and LatestTotals are compared with " +
	"class sums recomputed with math/big from the model's enumerated accounts. Non-trivial: a compared round's block changed some account's status or emptied an account. Distinct: by the full trace."

func TestVerif_C12_Totals(t *testing.T) {
	vk := vkBegin(t, "C12")
	vk.Rule(c12Rule)
	vk.Assume("the model's account list is the fold of the validated blocks' StateDeltas (account records only); Totals themselves are never read from the delta by the oracle")
	rapid.Check(t, func(rt *rapid.T) {
		opts := engcOpts{Profile: "status"}
		if rapid.IntRange(0, 3).Draw(rt, "generalMix") == 0 {
			opts.Profile = ""
		}
		c12Run(t, rt, vk, opts)
	})
}
