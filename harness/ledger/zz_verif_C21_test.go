package ledger

// C21 — Accounts never end a transaction (group) below minimum balance.
//
// History of committed blocks (one group per block, sometimes several) on a fresh ledger. Every step picks a
// target account (a small "edge" account or an application account) and an operation that changes its
// minimum balance (asset opt-in/close/create/destroy, app create/opt-in/close-out/clear/delete/size-update,
// box create/delete/resize, inner asset opt-in / asset create / app create, plain spend, account close) and
// steers the target's balance to  newMin + eps  (eps around 0, both signs) with an adjusting payment.
// Oracle: after every committed block every known account is either empty or holds at least an independent
// minimum computed from *enumerated* resources (holdings, created apps with declared schema / extra pages /
// size sponsor, opt-ins with their local schemas, boxes enumerated by key prefix with name+value sizes) using
// the documented formula and the consensus parameters — never AccountData.MinBalance or the Total* counters.

import (
	"errors"
	"fmt"
	"runtime/debug"
	"sort"
	"strings"
	"testing"

	"github.com/algorand/go-algorand/data/basics"
	"github.com/algorand/go-algorand/data/transactions"
	"github.com/algorand/go-algorand/data/txntest"
	"github.com/algorand/go-algorand/ledger/ledgercore"
	"github.com/algorand/go-algorand/protocol"
	"pgregory.net/rapid"
)

type c21App struct {
	id      basics.AppIndex
	creator basics.Address
	swiss   bool // runs evkAppSource (can host boxes / inner transactions)
}

type c21State struct {
	w       *evkWorld
	edge    []basics.Address
	apps    []c21App
	assets  []basics.AssetIndex
	acct    map[basics.Address]basics.AccountData // LookupLatest of every known account (pending rewards applied)
	boxes   map[basics.AppIndex]map[string]int    // enumerated boxes: name -> value length
	ordered []basics.Address
	vk      *vkCtx
	// accounts that became SizeSponsor in a group accepted into the block under construction (not yet visible
	// through the committed-state lookups)
	pendingSponsor map[basics.Address]bool
	// model of AppParams.SizeSponsor (basics.AppParams doc + updateApplication comment: the account on the hook for
	// extra pages + global schema "begins as the creator, but changes whenever there is a sizeChange update"; stored
	// as zero when it is the creator): last accepted size-updater, zero if that was the creator
	sponsorModel map[basics.AppIndex]basics.Address
}

// checkSponsors compares the recorded SizeSponsor of every live known app with the model.
func (s *c21State) checkSponsors() error {
	for _, ap := range s.apps {
		prm, alive := s.acct[ap.creator].AppParams[ap.id]
		if !alive {
			continue
		}
		if want := s.sponsorModel[ap.id]; prm.SizeSponsor != want {
			return fmt.Errorf("app %d (creator %s) records SizeSponsor %s, but the last accepted size-changing update makes it %s (zero = creator)", ap.id, ap.creator, prm.SizeSponsor, want)
		}
	}
	return nil
}

// sponsors: does addr carry the size requirement of a live app it did not create?
func (s *c21State) sponsors(addr basics.Address) bool {
	if s.pendingSponsor[addr] {
		return true
	}
	for _, other := range s.ordered {
		for _, ap := range s.acct[other].AppParams {
			if ap.SizeSponsor == addr {
				return true
			}
		}
	}
	return false
}

func c21SchemaCost(w *evkWorld, s basics.StateSchema) uint64 {
	p := w.proto
	return p.SchemaMinBalancePerEntry*(s.NumUint+s.NumByteSlice) + p.SchemaUintMinBalance*s.NumUint + p.SchemaBytesMinBalance*s.NumByteSlice
}

func c21SizeCost(w *evkWorld, g basics.StateSchema, epp uint32) uint64 {
	return w.proto.AppFlatParamsMinBalance*uint64(epp) + c21SchemaCost(w, g)
}

func c21BoxCost(w *evkWorld, nameLen, valLen int) uint64 {
	return w.proto.BoxFlatMinBalance + w.proto.BoxByteMinBalance*uint64(nameLen+valLen)
}

func c21BoxPrefix(app basics.AppIndex) string {
	return "bx:" + string(evkItob(uint64(app)))
}

func (s *c21State) known() []basics.Address {
	seen := map[basics.Address]bool{}
	var out []basics.Address
	add := func(a basics.Address) {
		if !seen[a] {
			seen[a] = true
			out = append(out, a)
		}
	}
	for _, a := range s.w.addrs {
		add(a)
	}
	for _, a := range s.edge {
		add(a)
	}
	for _, ap := range s.apps {
		add(ap.id.Address())
	}
	return out
}

// refresh enumerates every known account and every box of every known app from the committed ledger.
func (s *c21State) refresh() error {
	s.acct = map[basics.Address]basics.AccountData{}
	s.pendingSponsor = map[basics.Address]bool{}
	s.ordered = s.known()
	for _, a := range s.ordered {
		ad, _, _, err := s.w.l.LookupLatest(a)
		if err != nil {
			return fmt.Errorf("LookupLatest %s: %w", a, err)
		}
		s.acct[a] = ad
	}
	s.boxes = map[basics.AppIndex]map[string]int{}
	rnd := s.w.l.Latest()
	for _, ap := range s.apps {
		prefix := c21BoxPrefix(ap.id)
		keys, err := s.w.l.LookupKeysByPrefix(rnd, prefix, 1_000_000) // not 0: see notes/C21.md (maxKeyNum==0 misbehaves once the DB round is > 0)
		if err != nil {
			return fmt.Errorf("LookupKeysByPrefix app %d: %w", ap.id, err)
		}
		m := map[string]int{}
		for _, k := range keys {
			if !strings.HasPrefix(k, prefix) {
				return fmt.Errorf("LookupKeysByPrefix returned foreign key %x", k)
			}
			v, err := s.w.l.LookupKv(rnd, k)
			if err != nil {
				return fmt.Errorf("LookupKv %x: %w", k, err)
			}
			m[k[len(prefix):]] = len(v)
		}
		s.boxes[ap.id] = m
	}
	return nil
}

// sponsorOf: who carries the schema / extra-page requirement of an app (its creator unless a size-changing
// update moved it).
func c21SponsorOf(creator basics.Address, p basics.AppParams) basics.Address {
	if p.SizeSponsor.IsZero() {
		return creator
	}
	return p.SizeSponsor
}

// indepMin: the documented minimum-balance formula over enumerated resources.
func (s *c21State) indepMin(addr basics.Address) (uint64, string) {
	w, p := s.w, s.w.proto
	ad := s.acct[addr]
	min := p.MinBalance
	min += p.MinBalance * uint64(len(ad.Assets))
	min += p.AppFlatParamsMinBalance * uint64(len(ad.AppParams))
	sized := 0
	for _, other := range s.ordered {
		for _, ap := range s.acct[other].AppParams {
			if c21SponsorOf(other, ap) == addr {
				min += c21SizeCost(w, ap.GlobalStateSchema, ap.ExtraProgramPages)
				sized++
			}
		}
	}
	for _, ls := range ad.AppLocalStates {
		min += p.AppFlatOptInMinBalance + c21SchemaCost(w, ls.Schema)
	}
	nbox, nbytes := 0, 0
	for _, ap := range s.apps {
		if ap.id.Address() != addr {
			continue
		}
		for name, vlen := range s.boxes[ap.id] {
			min += c21BoxCost(w, len(name), vlen)
			nbox++
			nbytes += len(name) + vlen
		}
	}
	return min, fmt.Sprintf("assets=%d created=%d sized=%d optins=%d boxes=%d boxbytes=%d", len(ad.Assets), len(ad.AppParams), sized, len(ad.AppLocalStates), nbox, nbytes)
}

// empty: "fully closed" judged on enumerated resources (no algos, holdings, creations, opt-ins, boxes, rekey).
func (s *c21State) empty(addr basics.Address) bool {
	ad := s.acct[addr]
	for _, ap := range s.apps {
		if ap.id.Address() == addr && len(s.boxes[ap.id]) > 0 {
			return false
		}
	}
	return ad.MicroAlgos.Raw == 0 && len(ad.Assets) == 0 && len(ad.AssetParams) == 0 && len(ad.AppParams) == 0 &&
		len(ad.AppLocalStates) == 0 && ad.AuthAddr.IsZero()
}

// learn records creatables made by a committed block (top level only; inner-created apps live on an app
// account that is enumerated through LookupLatest anyway).
func (s *c21State) learn(vb *ledgercore.ValidatedBlock) {
	for _, stib := range vb.Block().Payset {
		tx := stib.Txn
		switch tx.Type {
		case protocol.ApplicationCallTx:
			if tx.ApplicationID == 0 && stib.ApplyData.ApplicationID != 0 {
				s.apps = append(s.apps, c21App{id: stib.ApplyData.ApplicationID, creator: tx.Sender, swiss: true})
			}
		case protocol.AssetConfigTx:
			if tx.ConfigAsset == 0 && stib.ApplyData.ConfigAsset != 0 {
				s.assets = append(s.assets, stib.ApplyData.ConfigAsset)
			}
		}
	}
}

type c21Plan struct {
	target  basics.Address
	isApp   bool
	app     basics.AppIndex // when isApp
	op      string
	delta   int64 // predicted change of the target's minimum
	ops     []*txntest.Txn
	eps     int64
	descr   string
	predLow bool // steering predicts final balance < final minimum
	// size-changing update: which app, by whom
	sizeApp                  basics.AppIndex
	sizeUpdater, sizeCreator basics.Address
}

func c21Eps(rt *rapid.T) int64 {
	switch rapid.IntRange(0, 11).Draw(rt, "epsKind") {
	case 0, 1, 2:
		return 0
	case 3, 4, 5:
		return -1
	case 6:
		return 1
	case 7:
		return int64(rapid.IntRange(-1001, -2).Draw(rt, "epsNeg"))
	case 8:
		return int64(rapid.IntRange(2, 1001).Draw(rt, "epsPos"))
	case 9:
		return int64(rapid.SampledFrom([]int{999, 1000, 1001, -999, -1000, -1001}).Draw(rt, "eps1000"))
	case 10:
		return int64(rapid.IntRange(-100_000, 100_000).Draw(rt, "epsWide"))
	default:
		return int64(rapid.IntRange(1001, 2_000_000).Draw(rt, "epsSlack"))
	}
}

func c21Schema(rt *rapid.T, name string, max int) basics.StateSchema {
	return basics.StateSchema{NumUint: uint64(rapid.IntRange(0, max).Draw(rt, name+"U")), NumByteSlice: uint64(rapid.IntRange(0, max).Draw(rt, name+"B"))}
}

// plan draws a target and an operation that is feasible in the enumerated state.
func (s *c21State) plan(rt *rapid.T) c21Plan {
	w := s.w
	rich := w.addrs[rapid.IntRange(1, 5).Draw(rt, "rich")]
	var swiss []c21App
	for _, ap := range s.apps {
		if ap.swiss {
			if _, alive := s.acct[ap.creator].AppParams[ap.id]; alive {
				swiss = append(swiss, ap)
			}
		}
	}
	pl := c21Plan{}
	if rapid.IntRange(0, 9).Draw(rt, "targetKind") < 6 || len(swiss) == 0 {
		pl.target = s.edge[rapid.IntRange(0, len(s.edge)-1).Draw(rt, "edge")]
	} else {
		ap := swiss[rapid.IntRange(0, len(swiss)-1).Draw(rt, "appTarget")]
		pl.target, pl.isApp, pl.app = ap.id.Address(), true, ap.id
	}
	T := pl.target
	ad := s.acct[T]
	mb := int64(w.proto.MinBalance)
	pl.op = "spend"
	if pl.isApp {
		boxes := s.boxes[pl.app]
		var names []string
		for n := range boxes {
			names = append(names, n)
		}
		sort.Strings(names)
		switch op := rapid.SampledFrom([]string{"box-delete", "box-resize", "box-create", "box-create", "inner-asset-optin", "inner-asset-create", "inner-app-create", "spend", "app-close", "box-create"}).Draw(rt, "appOp"); op {
		case "box-create":
			name := fmt.Sprintf("n%d", rapid.IntRange(0, 40).Draw(rt, "boxName"))
			name += strings.Repeat("x", rapid.IntRange(0, 20).Draw(rt, "boxNamePad"))
			if _, exists := boxes[name]; exists {
				break
			}
			size := rapid.IntRange(0, 96).Draw(rt, "boxSize")
			tx := w.call(rich, pl.app, "bcreate", name, size)
			tx.Boxes = evkBox(name)
			pl.op, pl.ops, pl.delta = op, []*txntest.Txn{tx}, int64(c21BoxCost(w, len(name), size))
		case "box-delete":
			if len(names) == 0 {
				break
			}
			name := names[rapid.IntRange(0, len(names)-1).Draw(rt, "boxIdx")]
			tx := w.call(rich, pl.app, "bdel", name)
			tx.Boxes = evkBox(name)
			pl.op, pl.ops, pl.delta = op, []*txntest.Txn{tx}, -int64(c21BoxCost(w, len(name), boxes[name]))
		case "box-resize":
			if len(names) == 0 {
				break
			}
			name := names[rapid.IntRange(0, len(names)-1).Draw(rt, "boxIdx")]
			size := rapid.IntRange(0, 128).Draw(rt, "boxNewSize")
			tx := w.call(rich, pl.app, "bresize", name, size)
			tx.Boxes = evkBox(name)
			pl.op, pl.ops, pl.delta = op, []*txntest.Txn{tx}, int64(w.proto.BoxByteMinBalance)*int64(size-boxes[name])
		case "inner-asset-optin":
			var cands []basics.AssetIndex
			for _, a := range s.assets {
				if _, has := ad.Assets[a]; !has {
					cands = append(cands, a)
				}
			}
			if len(cands) == 0 {
				break
			}
			a := cands[rapid.IntRange(0, len(cands)-1).Draw(rt, "asset")]
			tx := w.call(rich, pl.app, "aoptin")
			tx.ForeignAssets = []basics.AssetIndex{a}
			pl.op, pl.ops, pl.delta = op, []*txntest.Txn{tx}, mb
		case "inner-asset-create":
			pl.op, pl.ops, pl.delta = op, []*txntest.Txn{w.call(rich, pl.app, "acreate")}, mb
		case "inner-app-create":
			g := c21Schema(rt, "innerG", 2)
			tx := w.call(rich, pl.app, "appcreate", w.tinyV, int(g.NumUint), int(g.NumByteSlice))
			pl.op, pl.ops, pl.delta = op, []*txntest.Txn{tx}, int64(w.proto.AppFlatParamsMinBalance+c21SchemaCost(w, g))
		case "app-close":
			tx := w.call(rich, pl.app, "payclose")
			tx.Accounts = []basics.Address{rich}
			pl.op, pl.ops = op, []*txntest.Txn{tx}
		}
	} else {
		switch op := rapid.SampledFrom([]string{"size-update", "app-delete", "size-update", "asset-closeout", "app-closeout", "app-clear", "asset-destroy", "asset-optin",
			"app-create", "app-optin", "asset-create", "spend", "close-account", "app-create", "app-optin"}).Draw(rt, "edgeOp"); op {
		case "asset-optin":
			var cands []basics.AssetIndex
			for _, a := range s.assets {
				if _, has := ad.Assets[a]; !has {
					cands = append(cands, a)
				}
			}
			if len(cands) == 0 {
				break
			}
			a := cands[rapid.IntRange(0, len(cands)-1).Draw(rt, "asset")]
			pl.op, pl.delta = op, mb
			pl.ops = []*txntest.Txn{{Type: "axfer", Sender: T, XferAsset: a, AssetReceiver: T}}
		case "asset-closeout":
			var cands []basics.AssetIndex
			for a := range ad.Assets {
				if _, mine := ad.AssetParams[a]; !mine {
					cands = append(cands, a)
				}
			}
			if len(cands) == 0 {
				break
			}
			sort.Slice(cands, func(i, j int) bool { return cands[i] < cands[j] })
			a := cands[rapid.IntRange(0, len(cands)-1).Draw(rt, "asset")]
			creator, ok, err := w.l.GetCreator(basics.CreatableIndex(a), basics.AssetCreatable)
			if err != nil || !ok {
				break
			}
			pl.op, pl.delta = op, -mb
			pl.ops = []*txntest.Txn{{Type: "axfer", Sender: T, XferAsset: a, AssetReceiver: creator, AssetCloseTo: creator}}
		case "asset-create":
			pl.op, pl.delta = op, mb
			pl.ops = []*txntest.Txn{{Type: "acfg", Sender: T, AssetParams: basics.AssetParams{Total: 10, UnitName: "e", Manager: T}}}
		case "asset-destroy":
			var cands []basics.AssetIndex
			for a, prm := range ad.AssetParams {
				if ad.Assets[a].Amount == prm.Total {
					cands = append(cands, a)
				}
			}
			if len(cands) == 0 {
				break
			}
			sort.Slice(cands, func(i, j int) bool { return cands[i] < cands[j] })
			a := cands[rapid.IntRange(0, len(cands)-1).Draw(rt, "asset")]
			pl.op, pl.delta = op, -mb
			pl.ops = []*txntest.Txn{{Type: "acfg", Sender: T, ConfigAsset: a}}
		case "app-create":
			g, l := c21Schema(rt, "g", 3), c21Schema(rt, "l", 2)
			epp := uint32(rapid.IntRange(0, 2).Draw(rt, "epp"))
			pl.op, pl.delta = op, int64(w.proto.AppFlatParamsMinBalance+c21SizeCost(w, g, epp))
			pl.ops = []*txntest.Txn{w.appCreate(T, g, l, epp)}
		case "app-optin":
			var cands []c21App
			for _, ap := range s.apps {
				if _, alive := s.acct[ap.creator].AppParams[ap.id]; !alive {
					continue
				}
				if _, in := ad.AppLocalStates[ap.id]; !in {
					cands = append(cands, ap)
				}
			}
			if len(cands) == 0 {
				break
			}
			ap := cands[rapid.IntRange(0, len(cands)-1).Draw(rt, "app")]
			ls := s.acct[ap.creator].AppParams[ap.id].LocalStateSchema
			pl.op, pl.delta = op, int64(w.proto.AppFlatOptInMinBalance+c21SchemaCost(w, ls))
			pl.ops = []*txntest.Txn{{Type: "appl", Sender: T, ApplicationID: ap.id, OnCompletion: transactions.OptInOC}}
		case "app-closeout", "app-clear":
			var cands []basics.AppIndex
			for id := range ad.AppLocalStates {
				cands = append(cands, id)
			}
			if len(cands) == 0 {
				break
			}
			sort.Slice(cands, func(i, j int) bool { return cands[i] < cands[j] })
			id := cands[rapid.IntRange(0, len(cands)-1).Draw(rt, "app")]
			oc := transactions.CloseOutOC
			if op == "app-clear" {
				oc = transactions.ClearStateOC
			}
			pl.op, pl.delta = op, -int64(w.proto.AppFlatOptInMinBalance+c21SchemaCost(w, ad.AppLocalStates[id].Schema))
			pl.ops = []*txntest.Txn{{Type: "appl", Sender: T, ApplicationID: id, OnCompletion: oc}}
		case "app-delete":
			var cands []basics.AppIndex
			for id := range ad.AppParams {
				cands = append(cands, id)
			}
			if len(cands) == 0 {
				break
			}
			sort.Slice(cands, func(i, j int) bool { return cands[i] < cands[j] })
			id := cands[rapid.IntRange(0, len(cands)-1).Draw(rt, "app")]
			prm := ad.AppParams[id]
			pl.op, pl.delta = op, -int64(w.proto.AppFlatParamsMinBalance)
			if c21SponsorOf(T, prm) == T {
				pl.delta -= int64(c21SizeCost(w, prm.GlobalStateSchema, prm.ExtraProgramPages))
			}
			pl.ops = []*txntest.Txn{{Type: "appl", Sender: T, ApplicationID: id, OnCompletion: transactions.DeleteApplicationOC}}
		case "size-update":
			if !w.proto.AppSizeUpdates {
				break
			}
			var cands []c21App
			for _, ap := range s.apps {
				if _, alive := s.acct[ap.creator].AppParams[ap.id]; alive {
					cands = append(cands, ap)
				}
			}
			if len(cands) == 0 {
				break
			}
			// apps that currently have a third-party sponsor first (rapid favours low indices): chains of
			// size updates of one app by different updaters (third party -> creator -> third party ...)
			sort.SliceStable(cands, func(i, j int) bool {
				si := !s.acct[cands[i].creator].AppParams[cands[i].id].SizeSponsor.IsZero()
				sj := !s.acct[cands[j].creator].AppParams[cands[j].id].SizeSponsor.IsZero()
				return si && !sj
			})
			ap := cands[rapid.IntRange(0, len(cands)-1).Draw(rt, "app")]
			prm := s.acct[ap.creator].AppParams[ap.id]
			updater := T
			if rapid.IntRange(0, 2).Draw(rt, "byCreator") == 0 {
				updater = ap.creator // the creator takes the size back (SizeSponsor must become zero again)
			}
			g := c21Schema(rt, "newG", 4)
			// keep room for the global state that already exists
			var usedU, usedB uint64
			for _, v := range prm.GlobalState {
				if v.Type == basics.TealUintType {
					usedU++
				} else {
					usedB++
				}
			}
			if g.NumUint < usedU {
				g.NumUint = usedU
			}
			if g.NumByteSlice < usedB {
				g.NumByteSlice = usedB
			}
			epp := uint32(rapid.IntRange(0, 2).Draw(rt, "newEpp"))
			if epp == 0 && g.NumUint+g.NumByteSlice == 0 {
				epp = 1
			}
			pl.op, pl.delta = op, 0
			if updater == T {
				pl.delta += int64(c21SizeCost(w, g, epp))
			} else {
				pl.op = "size-update-by-creator"
			}
			if c21SponsorOf(ap.creator, prm) == T {
				pl.delta -= int64(c21SizeCost(w, prm.GlobalStateSchema, prm.ExtraProgramPages))
			}
			pl.sizeApp, pl.sizeUpdater, pl.sizeCreator = ap.id, updater, ap.creator
			pl.ops = []*txntest.Txn{{Type: "appl", Sender: updater, ApplicationID: ap.id, OnCompletion: transactions.UpdateApplicationOC,
				ApprovalProgram: evkSrc(evkAppSource), ClearStateProgram: evkSrc(evkClearSource), GlobalStateSchema: g, ExtraProgramPages: epp}}
		case "close-account":
			if s.sponsors(T) {
				// finding C21 size-sponsor-close (reproduced by TestVerif_C21_KnownSponsorClose): an account that
				// sponsors another creator's app size can close and shed the requirement
				s.vk.Excluded("close-account of an account that is SizeSponsor of a live app (known finding size-sponsor-close)")
				break
			}
			pl.op = op
			pl.ops = []*txntest.Txn{{Type: "pay", Sender: T, Receiver: rich, CloseRemainderTo: rich}}
		}
	}

	// steer the balance to newMin + eps
	curMin, _ := s.indepMin(T)
	bal := int64(ad.MicroAlgos.Raw)
	pl.eps = c21Eps(rt)
	want := int64(curMin) + pl.delta + pl.eps
	if want < 0 {
		want = 0
	}
	need := want - bal
	sponsor := &txntest.Txn{Type: "pay", Sender: rich, Receiver: rich}
	var grp []*txntest.Txn
	closing := pl.op == "close-account" || pl.op == "app-close"
	switch {
	case closing:
		grp = append([]*txntest.Txn{sponsor}, pl.ops...)
	case need >= 0:
		sponsor.Receiver, sponsor.Amount = T, uint64(need)
		grp = append([]*txntest.Txn{sponsor}, pl.ops...)
	default:
		var down *txntest.Txn
		if pl.isApp {
			down = w.call(rich, pl.app, "pay", uint64(-need))
			down.Accounts = []basics.Address{rich}
		} else {
			down = &txntest.Txn{Type: "pay", Sender: T, Receiver: rich, Amount: uint64(-need)}
		}
		if pl.delta >= 0 {
			grp = append([]*txntest.Txn{sponsor, down}, pl.ops...)
		} else {
			grp = append(append([]*txntest.Txn{sponsor}, pl.ops...), down)
		}
	}
	// the sponsor pays every fee of the group (plus room for inner transactions), so the target's balance
	// moves only by the amounts above
	var fees uint64
	for _, tx := range grp {
		tx.Fee = nil
		w.fill(tx)
		fees += tx.Fee.(basics.MicroAlgos).Raw
	}
	for _, tx := range grp {
		tx.Fee = uint64(0)
	}
	sponsor.Fee = fees + 20*w.proto.MinTxnFee
	pl.ops = grp
	pl.predLow = !closing && pl.eps < 0
	pl.descr = fmt.Sprintf("%s/%s delta=%d eps=%d", map[bool]string{false: "edge", true: "app"}[pl.isApp], pl.op, pl.delta, pl.eps)
	return pl
}

func TestVerif_C21_MinBalance(t *testing.T) {
	vk := vkBegin(t, "C21")
	vk.Rule("fresh ledger (Future or v41; rewards on in 1/4 of the cases), 6..24 steps; each step = one group (sponsor payment + operation + adjusting payment) steering a target account (4 edge accounts, application accounts) to newMin+eps, eps in {0,-1,+1,+-<=1001,wide}; operations: asset opt-in/close/create/destroy, app create (schemas, extra pages)/opt-in/close-out/clear/delete/size-changing update, box create/delete/resize, inner asset opt-in/create, inner app create, spend, account close; after every committed block every known account is empty or >= independent minimum over enumerated resources. Non-trivial = an accepted group left its target within 1000 of the minimum or a group was rejected with MinBalanceError. Distinct by op/eps/verdict sequence.")
	vk.Assume("LookupLatest / LookupKeysByPrefix / LookupKv faithfully enumerate committed resources (C10/C13 check that)")
	defer debug.SetGCPercent(debug.SetGCPercent(400))
	rapid.Check(t, func(rt *rapid.T) {
		cv := rapid.SampledFrom([]protocol.ConsensusVersion{protocol.ConsensusFuture, protocol.ConsensusV41}).Draw(rt, "proto")
		rewardsOff := rapid.IntRange(0, 3).Draw(rt, "rewards") != 0
		w, err := evkNewWorld(t, cv, rewardsOff)
		if err != nil {
			rt.Fatalf("world: %v", err)
		}
		defer w.close()
		s := &c21State{w: w, vk: vk, sponsorModel: map[basics.AppIndex]basics.Address{}, assets: []basics.AssetIndex{w.asset},
			apps: []c21App{{id: w.app1, creator: w.addrs[0], swiss: true}, {id: w.app2, creator: w.addrs[0], swiss: true}}}
		for i := 0; i < 4; i++ {
			s.edge = append(s.edge, evkAddr(0xE0, i))
		}
		if err := s.refresh(); err != nil {
			rt.Fatalf("refresh: %v", err)
		}
		if err := s.checkAll(nil); err != nil {
			rt.Fatalf("after world setup: %v", err)
		}
		steps := rapid.IntRange(6, 24).Draw(rt, "steps")
		nt := false
		fp := &strings.Builder{}
		fmt.Fprintf(fp, "%s/%v|", cv, rewardsOff)
		var rendered []string
		for step := 0; step < steps; {
			ev, err := w.startEval(nil)
			if err != nil {
				rt.Fatalf("StartEvaluator: %v", err)
			}
			perBlock := 1
			if rapid.IntRange(0, 5).Draw(rt, "multi") == 0 {
				perBlock = rapid.IntRange(2, 3).Draw(rt, "perBlock")
			}
			var plans []c21Plan
			var accepted []bool
			for k := 0; k < perBlock && step < steps; k++ {
				step++
				pl := s.plan(rt)
				g := txntest.Group(pl.ops...)
				err := evkApply(ev, g, false)
				if err != nil && evkIsPanic(err) {
					rt.Fatalf("step %d %s: evaluator panicked: %v", step, pl.descr, err)
				}
				var mbe *ledgercore.MinBalanceError
				isMB := errors.As(err, &mbe)
				plans, accepted = append(plans, pl), append(accepted, err == nil)
				if err == nil && pl.sizeApp != 0 {
					if pl.sizeUpdater == pl.sizeCreator {
						s.sponsorModel[pl.sizeApp] = basics.Address{}
					} else {
						s.sponsorModel[pl.sizeApp] = pl.sizeUpdater
						s.pendingSponsor[pl.sizeUpdater] = true
					}
				}
				verdict := "accepted"
				switch {
				case isMB:
					verdict = "rejected-minbalance"
					nt = true
				case err != nil:
					verdict = "rejected-" + evkErrClass(err)
				}
				vk.Label(verdict)
				vk.Label("op " + pl.op + ": " + verdict)
				switch {
				case pl.predLow && err == nil:
					vk.Label("steered below min but accepted (post-state check decides)")
				case pl.predLow && isMB:
					vk.Label("steered below min, rejected for min-balance")
				case pl.predLow:
					vk.Label("steered below min, rejected otherwise")
				case err == nil:
					vk.Label("steered >= min, accepted")
				case isMB:
					vk.Label("steered >= min, rejected for min-balance")
				default:
					vk.Label("steered >= min, rejected otherwise")
				}
				fmt.Fprintf(fp, "%s:%s/", pl.descr, verdict)
				rendered = append(rendered, pl.descr+" -> "+verdict)
				if perBlock > 1 {
					// later groups of the same block are planned on the committed state; only the first
					// one is steered exactly, which is fine: the oracle does not depend on steering
					vk.Label("group shares a block")
				}
			}
			vb, err := w.finish(ev)
			if err != nil {
				rt.Fatalf("block after step %d did not commit: %v (%v)", step, err, rendered)
			}
			s.learn(vb)
			if err := s.refresh(); err != nil {
				rt.Fatalf("refresh: %v", err)
			}
			if err := s.checkAll(rendered); err != nil {
				rt.Fatalf("after step %d: %v", step, err)
			}
			if err := s.checkSponsors(); err != nil {
				rt.Fatalf("after step %d: %v; last steps: %v", step, err, rendered)
			}
			for i, pl := range plans {
				if !accepted[i] {
					continue
				}
				ad := s.acct[pl.target]
				if s.empty(pl.target) {
					vk.Label("accepted: target empty afterwards")
					continue
				}
				m, _ := s.indepMin(pl.target)
				switch slack := ad.MicroAlgos.Raw - m; {
				case slack == 0:
					vk.Label("accepted: target exactly at minimum")
					nt = true
				case slack <= 1000:
					vk.Label("accepted: target within 1000 of minimum")
					nt = true
				default:
					vk.Label("accepted: target slack > 1000")
				}
			}
		}
		vk.Labelf("rewardsOff=%v", rewardsOff)
		vk.Label("proto=" + string(cv))
		vk.Case(nt, fp.String())
		if vk.WantSample(nt) {
			vk.Sample(nt, map[string]any{"proto": string(cv), "rewardsOff": rewardsOff, "steps": rendered})
		}
	})
}

// checkAll: the C21 oracle over every known account (fee sink / rewards pool / state-proof sender are never
// in the known set).
func (s *c21State) checkAll(history []string) error {
	for _, a := range s.ordered {
		if a == s.w.sink || a == s.w.pool || a == transactions.StateProofSender {
			continue
		}
		ad := s.acct[a]
		if s.empty(a) {
			continue
		}
		m, detail := s.indepMin(a)
		if ad.MicroAlgos.Raw < m {
			tail := history
			if len(tail) > 6 {
				tail = tail[len(tail)-6:]
			}
			impl := "n/a"
			if lad, _, _, err := s.w.l.LookupAccount(s.w.l.Latest(), a); err == nil {
				// diagnostics only: what the implementation believes
				impl = fmt.Sprintf("implementation: MinBalance()=%d counters assets=%d schema=%+v params=%d optins=%d pages=%d boxes=%d boxbytes=%d",
					lad.MinBalance(&s.w.proto).Raw, lad.TotalAssets, lad.TotalAppSchema, lad.TotalAppParams, lad.TotalAppLocalStates, lad.TotalExtraAppPages, lad.TotalBoxes, lad.TotalBoxBytes)
			}
			return fmt.Errorf("account %s holds %d < independent minimum %d (%s; %s); last steps: %v", a, ad.MicroAlgos.Raw, m, detail, impl, tail)
		}
	}
	return nil
}

// TestVerif_C21_KnownSponsorClose reproduces, deterministically, the one class excluded from the generator:
// a size-changing application update makes the updater the SizeSponsor (it "must hold MBR for extra program
// pages, and the global schema"); the payment close-out path does not look at that obligation, so the sponsor
// can close its account and come back holding only the base minimum.
func TestVerif_C21_KnownSponsorClose(t *testing.T) {
	vk := vkBegin(t, "C21")
	vk.Rule("single deterministic scenario: fund E, E size-updates another creator's app (2 extra pages), E closes its account, E is re-funded with the base minimum")
	w, err := evkNewWorld(t, protocol.ConsensusFuture, true)
	if err != nil {
		t.Fatalf("world: %v", err)
	}
	defer w.close()
	if !w.proto.AppSizeUpdates {
		t.Skip("no size-changing updates in this protocol")
	}
	E, R := evkAddr(0xE0, 0), w.addrs[1]
	s := &c21State{w: w, vk: vk, assets: []basics.AssetIndex{w.asset}, edge: []basics.Address{E},
		apps: []c21App{{id: w.app1, creator: w.addrs[0], swiss: true}, {id: w.app2, creator: w.addrs[0], swiss: true}}}
	type stepT struct {
		name string
		txn  *txntest.Txn
	}
	steps := []stepT{
		{"fund E with 1 Algo", &txntest.Txn{Type: "pay", Sender: R, Receiver: E, Amount: 1_000_000}},
		{"E updates app1 (creator addrs[0]) to 2 extra pages -> E is SizeSponsor", &txntest.Txn{Type: "appl", Sender: E, ApplicationID: w.app1, OnCompletion: transactions.UpdateApplicationOC,
			ApprovalProgram: evkSrc(evkAppSource), ClearStateProgram: evkSrc(evkClearSource), ExtraProgramPages: 2}},
		{"E closes its account", &txntest.Txn{Type: "pay", Sender: E, Receiver: R, CloseRemainderTo: R}},
		{"E is re-funded with MinBalance", &txntest.Txn{Type: "pay", Sender: R, Receiver: E, Amount: w.proto.MinBalance}},
	}
	var trace []string
	for _, st := range steps {
		_, err := w.block([]*txntest.Txn{st.txn})
		if err != nil {
			// the scenario is not reachable (e.g. the close is refused): nothing to report
			t.Logf("scenario stops at %q: %v", st.name, err)
			vk.Case(true, "size-sponsor-close/unreachable")
			vk.Case(true, "size-sponsor-close/unreachable:"+st.name)
			vk.Sample(true, map[string]any{"steps": trace, "stoppedAt": st.name, "err": err.Error()})
			return
		}
		if err := s.refresh(); err != nil {
			t.Fatalf("refresh: %v", err)
		}
		m, detail := s.indepMin(E)
		trace = append(trace, fmt.Sprintf("%s: accepted; E holds %d, independent minimum %d (%s)", st.name, s.acct[E].MicroAlgos.Raw, m, detail))
	}
	vk.Case(true, "size-sponsor-close/0")
	vk.Case(true, "size-sponsor-close/1")
	vk.Sample(true, map[string]any{"steps": trace})
	if err := s.checkAll(trace); err != nil {
		vk.Known("size-sponsor-close", err.Error(), map[string]any{"steps": trace})
	}
}
