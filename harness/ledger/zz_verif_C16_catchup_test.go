package ledger

// C16 — Catchpoint catch-up reproduces the source state and rejects tampering.
//
// history (Engine C) -> producer ledger (stores catchpoint files) -> file of a drawn catchpoint round R read through
// Ledger.GetCatchpointStream -> fresh ledger + MakeCatchpointCatchupAccessor driven in the order of
// catchup/catchpointService.go: SetLabel, ResetStagingBalances, ProcessStagingBalances per tar member, BuildMerkleTrie,
// GetCatchupBlockRound, VerifyCatchpoint(block R), StoreBalancesRound, StoreFirstBlock, StoreBlock (older blocks),
// CompleteCatchup.
//
// Untampered: every step succeeds; the restored ledger answers account / resource / kv / creator / totals lookups at
// every round it serves up to R like the reference model, answers online-stake queries like the producer, its balances
// trie equals the model's at every DB round it passes afterwards, and the labels it produces for later catchpoint rounds
// equal the producer's.
// Tampered (one semantic change of the file, label unchanged): some step up to and including VerifyCatchpoint fails.

import (
	"bytes"
	"context"
	"fmt"
	"math"
	"sort"
	"strings"
	"testing"

	"github.com/algorand/msgp/msgp"
	"pgregory.net/rapid"

	"github.com/algorand/go-algorand/config"
	"github.com/algorand/go-algorand/data/basics"
	"github.com/algorand/go-algorand/data/bookkeeping"
	"github.com/algorand/go-algorand/data/transactions"
	"github.com/algorand/go-algorand/data/txntest"
	"github.com/algorand/go-algorand/ledger/encoded"
	"github.com/algorand/go-algorand/ledger/ledgercore"
	"github.com/algorand/go-algorand/ledger/store/trackerdb"
	"github.com/algorand/go-algorand/protocol"
)

const c16Rule = "Random Engine C history (general mix, plus a scripted application with boxes and an asset so that kvs and resources exist) on a producer that stores catchpoint files " +
	"(interval 4/8, CatchpointLookback 4/8, one protocol variant with a 16-round balance lookback); a drawn catchpoint round R with a later catchpoint round behind it; full catch-up of a fresh ledger " +
	"(drawn configuration) from the served file, then the remaining blocks are fed to it. Per case 4-6 single tamperings of the file (account balance/status/rewards base/auth address, holding amount, " +
	"app global/local value, kv value/key byte, online-account and online-round-params fields, header totals/version/blocks round, added state-proof context, record drop/duplicate, chunk drop/duplicate/truncate) " +
	"are replayed on fresh ledgers. Non-trivial: the file has >=2 balances chunks and holds kvs, resources and online accounts, and at least one tampering hit a chunk other than the first. " +
	"Distinct: by the trace of blocks, the chosen round and the tamperings."

// ---------------------------------------------------------------------------------------------------------------
// catch-up driver

// c16Catchup drives the accessor like catchup/catchpointService.go. It returns the stage that failed ("" = none).
// With complete == false it stops after VerifyCatchpoint.
func c16Catchup(l *Ledger, label string, secs []cpxSection, blocks []bookkeeping.Block, complete bool) (stage string, err error) {
	ctx := context.Background()
	acc := MakeCatchpointCatchupAccessor(l, l.log)
	if err = acc.SetLabel(ctx, label); err != nil {
		return "set-label", err
	}
	if err = acc.SetState(ctx, CatchpointCatchupStateLedgerDownload); err != nil {
		return "set-state", err
	}
	if err = acc.ResetStagingBalances(ctx, true); err != nil {
		return "reset", err
	}
	var progress CatchpointCatchupAccessorProgress
	for _, s := range secs {
		if len(s.Data) < 1 {
			return "download:" + s.Name, fmt.Errorf("tar member of size 0 (ledgerFetcher rejects it)")
		}
		if err = acc.ProcessStagingBalances(ctx, s.Name, s.Data, &progress); err != nil {
			return "process:" + s.Name, err
		}
	}
	if err = acc.BuildMerkleTrie(ctx, nil); err != nil {
		return "build-trie", err
	}
	if err = acc.SetState(ctx, CatchpointCatchupStateLatestBlockDownload); err != nil {
		return "set-state", err
	}
	blockRound, err := acc.GetCatchupBlockRound(ctx)
	if err != nil {
		return "block-round", err
	}
	if blockRound == 0 || int(blockRound) >= len(blocks) {
		return "fetch-block", fmt.Errorf("file names block round %d, which no peer has", blockRound)
	}
	blk := blocks[blockRound]
	if err = acc.VerifyCatchpoint(ctx, &blk); err != nil {
		return "verify", err
	}
	if !complete {
		return "", nil
	}
	if err = acc.StoreBalancesRound(ctx, &blk); err != nil {
		return "store-balances-round", err
	}
	cert := engcCert
	if err = acc.StoreFirstBlock(ctx, &blk, &cert); err != nil {
		return "store-first-block", err
	}
	if err = acc.SetState(ctx, CatchpointCatchupStateBlocksDownload); err != nil {
		return "set-state", err
	}
	top, err := acc.EnsureFirstBlock(ctx)
	if err != nil {
		return "ensure-first-block", err
	}
	proto := config.Consensus[top.CurrentProtocol]
	lookback := max(proto.MaxTxnLife+proto.DeeperBlockHeaderHistory+proto.CatchpointLookback, proto.MaxBalLookback)
	if lookback >= uint64(top.Round()) {
		lookback = uint64(top.Round() - 1)
	}
	prev := &top
	for i := uint64(1); i <= lookback; i++ {
		b := blocks[top.Round()-basics.Round(i)]
		if prev.BlockHeader.Branch != b.Hash() {
			return "store-block", fmt.Errorf("HARNESS: block %d is not the predecessor of %d", b.Round(), prev.Round())
		}
		if err = acc.StoreBlock(ctx, &b, &cert); err != nil {
			return "store-block", err
		}
		prev = &b
	}
	if err = acc.SetState(ctx, CatchpointCatchupStateSwitch); err != nil {
		return "set-state", err
	}
	if err = acc.CompleteCatchup(ctx); err != nil {
		return "complete", err
	}
	return "", nil
}

// c16CatchupFresh opens a fresh on-disk ledger and catches it up from the sections. Catching-up ledgers are always
// on disk: on an in-memory (shared-cache) database processStagingBalances runs its kv / online-account /
// online-round-params writers concurrently and fails at random with "database table is locked" when the machine is
// loaded - a configuration only tests use (production ledgers are on disk). Should a lock error still surface, the
// attempt says nothing about the file and is repeated on another fresh ledger.
func c16CatchupFresh(w *engcWorld, t *rapid.T, name string, spec cpxNodeSpec, forceNoLRU bool, label string, secs []cpxSection, blocks []bookkeeping.Block, complete bool) (n *engcNode, stage string, err error) {
	for attempt := 1; ; attempt++ {
		n = cpxAddNode(w, t, fmt.Sprintf("%s.%d", name, attempt), spec, forceNoLRU, cpxStoreDisk)
		stage, err = c16Catchup(n.L, label, secs, blocks, complete)
		if err == nil || attempt == 3 || !strings.Contains(err.Error(), "locked") {
			return n, stage, err
		}
		w.tracef("%s: catch-up attempt %d hit a database lock error at %s (%v), repeated", name, attempt, stage, err)
		cpxCloseNode(n)
	}
}

// ---------------------------------------------------------------------------------------------------------------
// tampering

type c16Tamper struct {
	Kind     string
	Desc     string
	Section  int  // index of the tar member that was changed (-1: members dropped/reordered)
	NonFirst bool // the change hit a balances chunk other than the first one
}

var c16TamperKinds = []string{
	"acct-balance", "acct-balance", "acct-status", "acct-rewardsbase", "acct-authaddr", "acct-drop", "acct-dup", "acct-dup",
	"res-holding", "res-holding", "res-appstate", "res-appstate", "res-drop",
	"kv-value", "kv-value", "kv-key", "kv-drop", "kv-dup", "kv-shift", "acct-split",
	"oa-field", "oa-field", "oa-drop", "oa-dup", "orp-field", "orp-drop",
	"hdr-totals", "hdr-totals", "hdr-version", "hdr-blocksround", "spver-add",
	"chunk-drop", "chunk-dup", "truncate",
}

func c16CloneSecs(secs []cpxSection) []cpxSection {
	out := make([]cpxSection, len(secs))
	for i, s := range secs {
		out[i] = cpxSection{Name: s.Name, Data: bytes.Clone(s.Data)}
	}
	return out
}

func c16PickIdx(t *rapid.T, n int, name string) int { return rapid.IntRange(0, n-1).Draw(t, name) }

// c16ApplyTamper applies one tampering of the drawn kind. ok == false: the kind is not applicable to this file.
// catchpointRounds are the other catchpoint rounds with a block available (for hdr-blocksround).
func c16ApplyTamper(t *rapid.T, kind string, orig []cpxSection, otherRounds []basics.Round) (out []cpxSection, tm c16Tamper, ok bool) {
	out = c16CloneSecs(orig)
	tm = c16Tamper{Kind: kind, Section: -1}
	var balIdx []int // indices of balances sections, in file order
	chunks := map[int]*CatchpointSnapshotChunkV6{}
	for i, s := range out {
		if cpxIsBalancesSection(s.Name) {
			var ch CatchpointSnapshotChunkV6
			if err := protocol.Decode(s.Data, &ch); err != nil {
				t.Fatalf("HARNESS: producer's chunk %s does not decode: %v", s.Name, err)
			}
			balIdx = append(balIdx, i)
			chunks[i] = &ch
		}
	}
	// sections holding a given kind of record
	with := func(pred func(*CatchpointSnapshotChunkV6) bool) []int {
		var r []int
		for _, i := range balIdx {
			if pred(chunks[i]) {
				r = append(r, i)
			}
		}
		return r
	}
	commit := func(i int, desc string) {
		out[i].Data = protocol.Encode(chunks[i])
		tm.Section, tm.Desc = i, desc
		tm.NonFirst = len(balIdx) > 0 && i != balIdx[0]
	}
	switch {
	case strings.HasPrefix(kind, "acct-"):
		cand := with(func(c *CatchpointSnapshotChunkV6) bool { return len(c.Balances) > 0 })
		if len(cand) == 0 {
			return nil, tm, false
		}
		si := cand[c16PickIdx(t, len(cand), "sec")]
		ch := chunks[si]
		ri := c16PickIdx(t, len(ch.Balances), "rec")
		rec := &ch.Balances[ri]
		switch kind {
		case "acct-drop":
			ch.Balances = append(ch.Balances[:ri:ri], ch.Balances[ri+1:]...)
			if ch.empty() {
				return nil, tm, false
			}
			commit(si, fmt.Sprintf("dropped account record %v", rec.Address))
			return out, tm, true
		case "acct-dup":
			ch.Balances = append(ch.Balances, *rec)
			commit(si, fmt.Sprintf("duplicated account record %v", rec.Address))
			return out, tm, true
		}
		var bad trackerdb.BaseAccountData
		if err := protocol.Decode(rec.AccountData, &bad); err != nil {
			t.Fatalf("HARNESS: account data of %v does not decode: %v", rec.Address, err)
		}
		switch kind {
		case "acct-balance":
			d := rapid.Uint64Range(1, 1_000_000).Draw(t, "delta")
			bad.MicroAlgos.Raw += d
			tm.Desc = fmt.Sprintf("balance of %v +%d", rec.Address, d)
		case "acct-status":
			old := bad.Status
			bad.Status = basics.Status((uint64(old) + 1 + uint64(rapid.IntRange(0, 1).Draw(t, "st"))) % 3)
			tm.Desc = fmt.Sprintf("status of %v %v -> %v", rec.Address, old, bad.Status)
		case "acct-rewardsbase":
			bad.RewardsBase++
			tm.Desc = fmt.Sprintf("rewards base of %v +1", rec.Address)
		case "acct-authaddr":
			bad.AuthAddr[3] ^= 0x40
			tm.Desc = fmt.Sprintf("auth address of %v changed", rec.Address)
		}
		rec.AccountData = msgp.Raw(protocol.Encode(&bad))
		desc := tm.Desc
		commit(si, desc)
		return out, tm, true

	case strings.HasPrefix(kind, "res-"):
		type loc struct{ si, ri int }
		var locs []loc
		for _, si := range balIdx {
			for ri, r := range chunks[si].Balances {
				if len(r.Resources) > 0 {
					locs = append(locs, loc{si, ri})
				}
			}
		}
		if len(locs) == 0 {
			return nil, tm, false
		}
		// prefer a record whose resources fit the kind
		fits := func(rd *trackerdb.ResourcesData) bool {
			switch kind {
			case "res-holding":
				return rd.IsAsset()
			case "res-appstate":
				return rd.IsApp() && (len(rd.GlobalState) > 0 || len(rd.KeyValue) > 0)
			}
			return true
		}
		type pick struct {
			loc
			cidx uint64
		}
		var picks []pick
		for _, lc := range locs {
			rec := chunks[lc.si].Balances[lc.ri]
			var ids []uint64
			for id := range rec.Resources {
				ids = append(ids, id)
			}
			sort.Slice(ids, func(i, j int) bool { return ids[i] < ids[j] })
			for _, id := range ids {
				var rd trackerdb.ResourcesData
				if err := protocol.Decode(rec.Resources[id], &rd); err != nil {
					t.Fatalf("HARNESS: resource %d of %v does not decode: %v", id, rec.Address, err)
				}
				if fits(&rd) {
					picks = append(picks, pick{lc, id})
				}
			}
		}
		if len(picks) == 0 {
			return nil, tm, false
		}
		p := picks[c16PickIdx(t, len(picks), "res")]
		rec := &chunks[p.si].Balances[p.ri]
		var rd trackerdb.ResourcesData
		_ = protocol.Decode(rec.Resources[p.cidx], &rd)
		switch kind {
		case "res-drop":
			delete(rec.Resources, p.cidx)
			commit(p.si, fmt.Sprintf("dropped resource %d of %v", p.cidx, rec.Address))
			return out, tm, true
		case "res-holding":
			if rd.IsHolding() && rapid.Bool().Draw(t, "frozen") {
				rd.Frozen = !rd.Frozen
				tm.Desc = fmt.Sprintf("asset %d of %v: frozen flag flipped", p.cidx, rec.Address)
			} else if rd.IsHolding() {
				rd.Amount++
				tm.Desc = fmt.Sprintf("asset %d of %v: holding amount +1", p.cidx, rec.Address)
			} else {
				rd.Total++
				tm.Desc = fmt.Sprintf("asset %d of %v: params total +1", p.cidx, rec.Address)
			}
		case "res-appstate":
			kvm, what := rd.GlobalState, "global"
			if len(kvm) == 0 || (len(rd.KeyValue) > 0 && rapid.Bool().Draw(t, "local")) {
				kvm, what = rd.KeyValue, "local"
			}
			var keys []string
			for k := range kvm {
				keys = append(keys, k)
			}
			sort.Strings(keys)
			k := keys[c16PickIdx(t, len(keys), "key")]
			v := kvm[k]
			if v.Type == basics.TealUintType {
				v.Uint++
			} else {
				v.Bytes += "!"
			}
			kvm = kvm.Clone()
			kvm[k] = v
			if what == "global" {
				rd.GlobalState = kvm
			} else {
				rd.KeyValue = kvm
			}
			tm.Desc = fmt.Sprintf("app %d of %v: %s state value of key %q changed", p.cidx, rec.Address, what, k)
		}
		rec.Resources[p.cidx] = msgp.Raw(protocol.Encode(&rd))
		desc := tm.Desc
		commit(p.si, desc)
		return out, tm, true

	case strings.HasPrefix(kind, "kv-"):
		cand := with(func(c *CatchpointSnapshotChunkV6) bool { return len(c.KVs) > 0 })
		if len(cand) == 0 {
			return nil, tm, false
		}
		si := cand[c16PickIdx(t, len(cand), "sec")]
		ch := chunks[si]
		ri := c16PickIdx(t, len(ch.KVs), "rec")
		rec := &ch.KVs[ri]
		switch kind {
		case "kv-drop":
			key := string(rec.Key)
			ch.KVs = append(ch.KVs[:ri:ri], ch.KVs[ri+1:]...)
			if ch.empty() {
				return nil, tm, false
			}
			commit(si, fmt.Sprintf("dropped kv %q", key))
		case "kv-dup":
			ch.KVs = append(ch.KVs, *rec)
			commit(si, fmt.Sprintf("duplicated kv %q", rec.Key))
		case "kv-key":
			// a byte of the key changed in place: lengths unchanged, so key||value differs (not the F1 class)
			rec.Key = bytes.Clone(rec.Key)
			rec.Key[len(rec.Key)-1] ^= byte(1 << rapid.IntRange(0, 6).Draw(t, "bit"))
			commit(si, fmt.Sprintf("kv key changed in place to %q", rec.Key))
		default: // kv-value: the key is untouched, so key||value differs whenever the value does (not the F1 class)
			old := rec.Value
			switch m := rapid.IntRange(0, 2).Draw(t, "how"); {
			case len(old) == 0 || m == 0:
				rec.Value = append(bytes.Clone(old), 0x5a)
			case m == 1:
				rec.Value = bytes.Clone(old)
				rec.Value[c16PickIdx(t, len(old), "pos")] ^= 0x01
			default:
				rec.Value = bytes.Clone(old[:len(old)-1])
				if len(rec.Value) == 0 {
					rec.Value = []byte{} // empty box, still present
				}
			}
			commit(si, fmt.Sprintf("kv %q value %x -> %x", rec.Key, old, rec.Value))
		}
		return out, tm, true

	case kind == "oa-field" || kind == "oa-drop" || kind == "oa-dup":
		cand := with(func(c *CatchpointSnapshotChunkV6) bool { return len(c.OnlineAccounts) > 0 })
		if len(cand) == 0 {
			return nil, tm, false
		}
		si := cand[c16PickIdx(t, len(cand), "sec")]
		ch := chunks[si]
		ri := c16PickIdx(t, len(ch.OnlineAccounts), "rec")
		rec := &ch.OnlineAccounts[ri]
		switch kind {
		case "oa-drop":
			addr := rec.Address
			ch.OnlineAccounts = append(ch.OnlineAccounts[:ri:ri], ch.OnlineAccounts[ri+1:]...)
			if ch.empty() {
				return nil, tm, false
			}
			commit(si, fmt.Sprintf("dropped online-account row of %v", addr))
		case "oa-dup":
			ch.OnlineAccounts = append(ch.OnlineAccounts, *rec)
			commit(si, fmt.Sprintf("duplicated online-account row of %v", rec.Address))
		default:
			switch rapid.IntRange(0, 3).Draw(t, "field") {
			case 0:
				rec.NormalizedOnlineBalance++
				tm.Desc = "normalized online balance +1"
			case 1:
				rec.VoteLastValid++
				tm.Desc = "vote last valid +1"
			case 2:
				rec.UpdateRound++
				tm.Desc = "update round +1"
			default:
				var d trackerdb.BaseOnlineAccountData
				if err := protocol.Decode(rec.Data, &d); err != nil {
					t.Fatalf("HARNESS: online account data does not decode: %v", err)
				}
				d.MicroAlgos.Raw++
				rec.Data = msgp.Raw(protocol.Encode(&d))
				tm.Desc = "online stake +1"
			}
			commit(si, fmt.Sprintf("online-account row of %v: %s", rec.Address, tm.Desc))
		}
		return out, tm, true

	case kind == "orp-field" || kind == "orp-drop":
		cand := with(func(c *CatchpointSnapshotChunkV6) bool { return len(c.OnlineRoundParams) > 0 })
		if len(cand) == 0 {
			return nil, tm, false
		}
		si := cand[c16PickIdx(t, len(cand), "sec")]
		ch := chunks[si]
		ri := c16PickIdx(t, len(ch.OnlineRoundParams), "rec")
		rec := &ch.OnlineRoundParams[ri]
		if kind == "orp-drop" {
			rnd := rec.Round
			ch.OnlineRoundParams = append(ch.OnlineRoundParams[:ri:ri], ch.OnlineRoundParams[ri+1:]...)
			if ch.empty() {
				return nil, tm, false
			}
			commit(si, fmt.Sprintf("dropped online-round-params row %d", rnd))
			return out, tm, true
		}
		var d ledgercore.OnlineRoundParamsData
		if err := protocol.Decode(rec.Data, &d); err != nil {
			t.Fatalf("HARNESS: online round params do not decode: %v", err)
		}
		if rapid.Bool().Draw(t, "supply") {
			d.OnlineSupply++
		} else {
			d.RewardsLevel++
		}
		rec.Data = msgp.Raw(protocol.Encode(&d))
		commit(si, fmt.Sprintf("online-round-params row %d changed", rec.Round))
		return out, tm, true

	case strings.HasPrefix(kind, "hdr-"):
		if len(out) == 0 || out[0].Name != CatchpointContentFileName {
			return nil, tm, false
		}
		var hdr CatchpointFileHeader
		if err := protocol.Decode(out[0].Data, &hdr); err != nil {
			t.Fatalf("HARNESS: header does not decode: %v", err)
		}
		switch kind {
		case "hdr-totals":
			switch rapid.IntRange(0, 4).Draw(t, "field") {
			case 0:
				hdr.Totals.Online.Money.Raw++
			case 1:
				hdr.Totals.Offline.Money.Raw++
			case 2:
				hdr.Totals.NotParticipating.Money.Raw++
			case 3:
				hdr.Totals.Offline.RewardUnits++
			default:
				hdr.Totals.RewardsLevel++
			}
			tm.Desc = "header totals changed"
		case "hdr-version":
			if hdr.Version != CatchpointFileVersionV8 {
				return nil, tm, false
			}
			hdr.Version = CatchpointFileVersionV7
			tm.Desc = "header version V8 -> V7 (online tables would be ignored)"
		case "hdr-blocksround":
			if len(otherRounds) == 0 {
				return nil, tm, false
			}
			hdr.BlocksRound = otherRounds[c16PickIdx(t, len(otherRounds), "round")]
			tm.Desc = fmt.Sprintf("header blocks round -> %d", hdr.BlocksRound)
		}
		out[0].Data = protocol.Encode(&hdr)
		tm.Section = 0
		return out, tm, true

	case kind == "spver-add":
		for i, s := range out {
			if s.Name != catchpointSPVerificationFileName {
				continue
			}
			var d catchpointStateProofVerificationContext
			if err := protocol.Decode(s.Data, &d); err != nil {
				t.Fatalf("HARNESS: state proof verification section does not decode: %v", err)
			}
			d.Data = append(d.Data, ledgercore.StateProofVerificationContext{LastAttestedRound: basics.Round(256 * (1 + len(d.Data))),
				OnlineTotalWeight: basics.MicroAlgos{Raw: 1}, Version: protocol.ConsensusCurrentVersion})
			out[i].Data = protocol.Encode(&d)
			tm.Section, tm.Desc = i, "added a state-proof verification context"
			return out, tm, true
		}
		return nil, tm, false

	case kind == "chunk-drop" || kind == "chunk-dup":
		if len(balIdx) == 0 {
			return nil, tm, false
		}
		k := c16PickIdx(t, len(balIdx), "chunk")
		si := balIdx[k]
		tm.NonFirst = k > 0
		tm.Section = si
		if kind == "chunk-drop" {
			tm.Desc = "dropped " + out[si].Name
			out = append(out[:si:si], out[si+1:]...)
		} else {
			tm.Desc = "duplicated " + out[si].Name
			out = append(out[:si+1:si+1], append([]cpxSection{out[si]}, out[si+1:]...)...)
		}
		return out, tm, true

	case kind == "truncate":
		if len(balIdx) < 1 {
			return nil, tm, false
		}
		k := rapid.IntRange(1, len(balIdx)).Draw(t, "cut") // number of balances sections cut off the end
		cutAt := balIdx[len(balIdx)-k]
		tm.NonFirst = true
		tm.Section = cutAt
		tm.Desc = fmt.Sprintf("file truncated before %s", out[cutAt].Name)
		return out[:cutAt], tm, true
	}
	return nil, tm, false
}

// ---------------------------------------------------------------------------------------------------------------
// history

type c16History struct {
	w        *engcWorld
	proto    cpxProto
	interval uint64
	blocks   []bookkeeping.Block     // index == round
	labels   map[basics.Round]string // producer's label per catchpoint round
	scr      cpxScript
	excluded func(string)
	rootOK   map[basics.Round]bool // DB rounds at which the producer's trie root was compared with the model
	hadOps   int
}

func c16BuildHistory(tb *testing.T, t *rapid.T, vk *vkCtx, proto cpxProto, profile string, scripted bool) *c16History {
	h := &c16History{proto: proto, labels: map[basics.Round]string{}, excluded: vk.Excluded}
	h.interval = rapid.SampledFrom([]uint64{4, 8, 4}).Draw(t, "interval")
	spec := cpxNodeSpec{Interval: h.interval, Tracking: config.CatchpointTrackingModeStored, TrieCache: 9000}
	w := engcNewWorld(tb, t, engcOpts{Proto: proto.CV, Profile: profile, Label: vk.Label, MaxGroupsPerBlock: 4,
		CfgHook: func(name string, cfg *config.Local) { spec.apply(cfg) }})
	h.w = w
	h.blocks = []bookkeeping.Block{w.Genesis.Block}
	w.OnBlock(func(info *engcBlockInfo) { h.blocks = append(h.blocks, info.Block) })
	return h
}

// run adds n blocks; after each one the producer draws an operation and its label is recorded.
func (h *c16History) run(t *rapid.T, n int, scripted bool) {
	w := h.w
	ops := []string{"none", "none", "none", "none", "commit", "reload", "park", "prune"}
	for i := 0; i < n; i++ {
		var sc *cpxScript
		if scripted {
			sc = &h.scr
		}
		cpxScriptedBlock(w, t, sc, 4, h.excluded)
		switch op := ops[rapid.IntRange(0, len(ops)-1).Draw(t, "producer.op")]; op {
		case "commit":
			w.Node.OpCommit()
		case "reload":
			if w.Node.ReloadBudgetLeft() && h.hadOps < 4 {
				if err := w.Node.OpReload(); err != nil {
					t.Fatalf("ENGINE: producer reload: %v", err)
				}
				h.hadOps++
			}
		case "park":
			w.Node.OpSetParked(!w.Node.parked)
		case "prune":
			w.Node.OpPruneCaches()
		}
		h.note(t)
	}
}

func (h *c16History) note(t *rapid.T) {
	// the producer's persisted balances trie equals the trie recomputed from the model (the C14 oracle, per DB round):
	// a producer whose trie left its state is reported where it happens, not later as a file that cannot be verified
	if d := h.w.Node.DBRound(); !h.rootOK[d] {
		root, hashRound, err := cpxStoredRoot(h.w.Node.L)
		want, nl, merr := cpxModelRoot(h.w.Model, d)
		if merr != nil {
			t.Fatalf("HARNESS: model root: %v", merr)
		}
		if err != nil || hashRound != d || root != want {
			t.Fatalf("C16 VIOLATION: producer's balances trie at DB round %d: root %v (hash round %d, %v); the trie over the %d leaves recomputed from the model has root %v\n%s",
				d, root, hashRound, err, nl, want, cpxTail(h.w, 40))
		}
		if h.rootOK == nil {
			h.rootOK = map[basics.Round]bool{}
		}
		h.rootOK[d] = true
	}
	lab := h.w.Node.L.GetLastCatchpointLabel()
	if R, ok := cpxLabelRound(lab); ok {
		if old, ok := h.labels[R]; ok && old != lab {
			t.Fatalf("C16 VIOLATION: the producer changed its label for round %d: %s -> %s\n%s", R, old, lab, cpxTail(h.w, 40))
		}
		h.labels[R] = lab
	}
}

func (h *c16History) rounds() []basics.Round {
	var out []basics.Round
	for r := range h.labels {
		out = append(out, r)
	}
	sort.Slice(out, func(i, j int) bool { return out[i] < out[j] })
	return out
}

// ---------------------------------------------------------------------------------------------------------------
// restored-state oracle

// c16CompareState compares every lookup the restored ledger serves at round q with the model.
func c16CompareState(t *rapid.T, w *engcWorld, name string, l *Ledger, q basics.Round, fail func(string, ...any)) (lookups int) {
	want := w.Model.At(q)
	for _, addr := range w.Addrs() {
		got, _, err := l.LookupWithoutRewards(q, addr)
		if err != nil {
			fail("%s: LookupWithoutRewards(%d, %v): %v", name, q, addr, err)
		}
		if wd := want.Acct(addr).Data; got != wd {
			fail("%s: LookupWithoutRewards(%d, %v) = %+v; model %+v", name, q, addr, got, wd)
		}
		lookups++
	}
	ids, types := w.Model.EverCreatables()
	// creator index: every id from just below the first to just above the last creatable that ever existed (live,
	// deleted and never-existing ids), asked as an asset AND as an application
	if len(ids) > 0 {
		for id := ids[0] - 2; id <= ids[len(ids)-1]+3; id++ {
			for _, ct := range []basics.CreatableType{basics.AssetCreatable, basics.AppCreatable} {
				gc, ok, err := l.GetCreatorForRound(q, id, ct)
				wc, wok := want.Creator(id, ct)
				if err != nil || ok != wok || gc != wc {
					fail("%s: GetCreatorForRound(%d, %d, type %d) = %v exists=%v err=%v; model %v exists=%v (id ever was a creatable: %v)", name, q, id, ct, gc, ok, err, wc, wok, func() bool { _, ever := types[id]; return ever }())
				}
				if q == l.Latest() {
					gc, ok, err := l.GetCreator(id, ct)
					if err != nil || ok != wok || gc != wc {
						fail("%s: GetCreator(%d, type %d) = %v exists=%v err=%v; model %v exists=%v", name, id, ct, gc, ok, err, wc, wok)
					}
				}
				lookups++
			}
		}
	}
	for _, id := range ids {
		ct := types[id]
		for _, addr := range w.Addrs() {
			a := want.Acct(addr)
			if ct == basics.AssetCreatable {
				h, hok := a.Assets[basics.AssetIndex(id)]
				p, pok := a.AssetParams[basics.AssetIndex(id)]
				got, err := l.LookupAsset(q, addr, basics.AssetIndex(id))
				if err != nil {
					fail("%s: LookupAsset(%d, %v, %d): %v", name, q, addr, id, err)
				}
				if (got.AssetHolding != nil) != hok || (got.AssetParams != nil) != pok ||
					(hok && *got.AssetHolding != h) || (pok && !bytes.Equal(protocol.Encode(got.AssetParams), protocol.Encode(&p))) {
					fail("%s: LookupAsset(%d, %v, %d) = holding %+v params %+v; model holding %+v (%v) params %+v (%v)", name, q, addr, id, got.AssetHolding, got.AssetParams, h, hok, p, pok)
				}
			} else {
				ls, lok := a.AppLocals[basics.AppIndex(id)]
				p, pok := a.AppParams[basics.AppIndex(id)]
				got, err := l.LookupApplication(q, addr, basics.AppIndex(id))
				if err != nil {
					fail("%s: LookupApplication(%d, %v, %d): %v", name, q, addr, id, err)
				}
				if (got.AppLocalState != nil) != lok || (got.AppParams != nil) != pok ||
					(lok && !bytes.Equal(protocol.Encode(got.AppLocalState), protocol.Encode(&ls))) || (pok && !bytes.Equal(protocol.Encode(got.AppParams), protocol.Encode(&p))) {
					fail("%s: LookupApplication(%d, %v, %d) = local %+v params %+v; model local %+v (%v) params %+v (%v)", name, q, addr, id, got.AppLocalState, got.AppParams, ls, lok, p, pok)
				}
			}
			lookups++
		}
	}
	for _, k := range w.Model.EverKvKeys() {
		got, err := l.LookupKv(q, k)
		wv, ok := want.Kv[k]
		if err != nil || (got != nil) != ok || !bytes.Equal(got, wv) {
			fail("%s: LookupKv(%d, %q) = %x (present %v) %v; model %x (present %v)", name, q, k, got, got != nil, err, wv, ok)
		}
		lookups++
	}
	keys, err := l.LookupKeysByPrefix(q, "bx:", math.MaxUint64)
	sort.Strings(keys)
	if wk := want.KvKeys("bx:"); err != nil || strings.Join(keys, "\x00") != strings.Join(wk, "\x00") {
		fail("%s: LookupKeysByPrefix(%d, bx:) = %q %v; model %q", name, q, keys, err, wk)
	}
	tot, err := l.Totals(q)
	if wt := cpxModelTotals(want); err != nil || tot != wt {
		fail("%s: Totals(%d) = %+v %v; recomputed from the model's accounts %+v", name, q, tot, err, wt)
	}
	return lookups + 2
}

// c16CompareOnline compares the online-stake queries of the restored ledger with the producer's for round q.
// required: q lies in the window the catchpoint must cover.
func c16CompareOnline(w *engcWorld, rest, prod *Ledger, q basics.Round, required bool, maxBalLookback uint64, fail func(string, ...any)) (compared int) {
	for _, addr := range w.Addrs() {
		g, gerr := rest.LookupAgreement(q, addr)
		p, perr := prod.LookupAgreement(q, addr)
		if perr != nil {
			continue
		}
		if gerr != nil {
			if required {
				fail("restored ledger: LookupAgreement(%d, %v) fails: %v (the producer answers %+v)", q, addr, gerr, p)
			}
			continue
		}
		if g != p {
			fail("LookupAgreement(%d, %v): restored %+v, producer %+v", q, addr, g, p)
		}
		compared++
	}
	vr := q + basics.Round(maxBalLookback)
	g, gerr := rest.OnlineCirculation(q, vr)
	p, perr := prod.OnlineCirculation(q, vr)
	if perr == nil {
		if gerr != nil {
			if required {
				fail("restored ledger: OnlineCirculation(%d, %d) fails: %v (the producer answers %d)", q, vr, gerr, p.Raw)
			}
		} else if g != p {
			fail("OnlineCirculation(%d, %d): restored %d, producer %d", q, vr, g.Raw, p.Raw)
		} else {
			compared++
		}
	}
	return compared
}

// ---------------------------------------------------------------------------------------------------------------
// the property

func c16Run(tb *testing.T, t *rapid.T, vk *vkCtx, protos []cpxProto) {
	proto := protos[rapid.IntRange(0, len(protos)-1).Draw(t, "proto")]
	h := c16BuildHistory(tb, t, vk, proto, "", true)
	w := h.w
	defer w.Close()
	fail := func(format string, args ...any) {
		t.Fatalf("C16 VIOLATION: %s\n--- history (tail) ---\n%s", fmt.Sprintf(format, args...), cpxTail(w, 60))
	}

	// history: long enough for two catchpoint rounds with files on a producer with MaxAcctLookback <= 8
	firstR := (proto.Lookback/h.interval + 1) * h.interval
	n1 := int(firstR+h.interval) + int(w.Node.Cfg.MaxAcctLookback) + 1 + rapid.IntRange(0, 2).Draw(t, "extraBlocks")
	h.run(t, n1, true)
	rounds := h.rounds()
	if len(rounds) < 2 {
		fail("the producer (interval %d, lookback %d, MaxAcctLookback %d, DB round %d, latest %d) reported labels only for rounds %v", h.interval, proto.Lookback,
			w.Node.Cfg.MaxAcctLookback, w.Node.DBRound(), w.Ledger.Latest(), rounds)
	}
	// target: any labelled round but the last one (a later label must exist to compare the restored node's next label)
	R := rounds[rapid.IntRange(0, len(rounds)-2).Draw(t, "target")]
	label := h.labels[R]
	secs, err := cpxReadCatchpointFile(w.Ledger, R)
	if err != nil {
		fail("producer stores catchpoint files and reported %s, but GetCatchpointStream(%d): %v", label, R, err)
	}
	accountsRound := R - basics.Round(proto.Lookback)

	// ---- what is in the file
	var nBal, nKV, nRes, nOA, nORP, nChunks int
	for _, s := range secs {
		if !cpxIsBalancesSection(s.Name) {
			continue
		}
		var ch CatchpointSnapshotChunkV6
		if err := protocol.Decode(s.Data, &ch); err != nil {
			fail("chunk %s of the producer's file does not decode: %v", s.Name, err)
		}
		if !bytes.Equal(protocol.Encode(&ch), s.Data) {
			t.Fatalf("HARNESS: chunk %s does not re-encode to itself", s.Name)
		}
		nChunks++
		nBal += len(ch.Balances)
		nKV += len(ch.KVs)
		nOA += len(ch.OnlineAccounts)
		nORP += len(ch.OnlineRoundParams)
		for _, b := range ch.Balances {
			nRes += len(b.Resources)
		}
	}
	snap := w.Model.At(accountsRound)
	if nBal != len(snap.Accts) || nKV != len(snap.Kv) {
		fail("catchpoint file %d holds %d accounts and %d kvs; the model at accounts round %d has %d and %d", R, nBal, nKV, accountsRound, len(snap.Accts), len(snap.Kv))
	}
	rich := nChunks >= 2 && nKV > 0 && nRes > 0 && nOA > 0

	// ---- untampered catch-up on a fresh ledger with its own configuration
	rspec := cpxNodeSpec{Interval: h.interval, Tracking: rapid.SampledFrom([]int64{config.CatchpointTrackingModeTracked, config.CatchpointTrackingModeStored}).Draw(t, "restored.tracking"), TrieCache: 9000}
	rn, stage, err := c16CatchupFresh(w, t, "restored", rspec, !w.Node.Cfg.DisableLedgerLRUCache, label, secs, h.blocks, true)
	defer cpxCloseNode(rn)
	if err != nil {
		fail("catch-up from the untampered file of round %d (label %s) failed at stage %s: %v", R, label, stage, err)
	}
	rn.Quiesce()
	w.tracef("restored from catchpoint %d (accounts round %d): latest %d db %d", R, accountsRound, rn.L.Latest(), rn.DBRound())
	if rn.L.Latest() != R {
		fail("restored ledger is at round %d after catching up to catchpoint %d", rn.L.Latest(), R)
	}
	if d := rn.DBRound(); d < accountsRound || d > R {
		fail("restored ledger's tracker DB is at round %d (accounts round %d, catchpoint round %d)", d, accountsRound, R)
	}
	lookups := 0
	for q := rn.DBRound(); q <= R; q++ {
		lookups += c16CompareState(t, w, "restored ledger", rn.L, q, fail)
	}
	// the file carries MaxBalLookback rounds of online history before the accounts round; what must still be served is
	// the window of the restored node's present tracker DB round (it may have flushed after the replay)
	horizon := (rn.DBRound() + 1).SubSaturate(basics.Round(w.Proto.MaxBalLookback))
	onlineCmp := 0
	for q := (accountsRound + 1).SubSaturate(basics.Round(w.Proto.MaxBalLookback)); q <= R; q++ {
		onlineCmp += c16CompareOnline(w, rn.L, w.Ledger, q, q >= horizon, w.Proto.MaxBalLookback, fail)
	}
	checkRoot := func() {
		d := rn.DBRound()
		root, hashRound, err := cpxStoredRoot(rn.L)
		if err != nil || hashRound != d {
			fail("restored ledger: persisted balances trie at DB round %d: hash round %d, %v", d, hashRound, err)
		}
		want, nl, err := cpxModelRoot(w.Model, d)
		if err != nil {
			t.Fatalf("HARNESS: model root: %v", err)
		}
		if root != want {
			fail("restored ledger: balances-trie root at DB round %d is %v; the trie over the %d leaves recomputed from the model has root %v", d, root, nl, want)
		}
	}
	checkRoot()

	// ---- the restored node follows the chain: remaining blocks, then new ones, until it labelled a later catchpoint round
	restLabels := map[basics.Round]string{}
	noteRest := func() {
		if q, ok := cpxLabelRound(rn.L.GetLastCatchpointLabel()); ok {
			restLabels[q] = rn.L.GetLastCatchpointLabel()
		}
	}
	for q := R + 1; int(q) < len(h.blocks); q++ {
		cpxFeed(t, rn, h.blocks[q])
		checkRoot()
		noteRest()
	}
	nextR := R + basics.Round(h.interval)
	need := int(nextR) + int(max(rn.Cfg.MaxAcctLookback, w.Node.Cfg.MaxAcctLookback)) + 1 - (len(h.blocks) - 1)
	w.OnBlock(func(info *engcBlockInfo) {
		cpxFeed(t, rn, info.Block)
		checkRoot()
		noteRest()
	})
	if need > 0 {
		h.run(t, need, false)
	}
	common := 0
	for q, lab := range restLabels {
		if q <= R {
			fail("restored ledger reports label %s for round %d, not after the catchpoint %d it was restored from", lab, q, R)
		}
		if pl, ok := h.labels[q]; ok {
			common++
			if pl != lab {
				fail("label of catchpoint round %d: producer %s, ledger restored from catchpoint %d %s", q, pl, R, lab)
			}
		}
	}
	if common == 0 {
		fail("after %d blocks the ledger restored from catchpoint %d (DB round %d, interval %d) reported labels %v, the producer %v: no later catchpoint round in common",
			rn.L.Latest(), R, rn.DBRound(), h.interval, restLabels, h.rounds())
	}
	tipRound := w.Model.Latest()
	lookups += c16CompareState(t, w, "restored ledger (after following the chain)", rn.L, tipRound, fail)

	// ---- tampering, each on a fresh ledger
	var other []basics.Round
	for _, q := range h.rounds() {
		if q != R {
			other = append(other, q)
		}
	}
	nT := rapid.IntRange(4, 6).Draw(t, "nTampers")
	var applied []c16Tamper
	nonFirst := false
	for i := 0; i < nT; i++ {
		kind := c16TamperKinds[rapid.IntRange(0, len(c16TamperKinds)-1).Draw(t, "tamper")]
		if kind == "kv-shift" {
			// the known F1 class (bytes moved across the key|value boundary of a box) is excluded by construction and
			// reproduced in TestVerif_C16_KnownF1
			vk.Excluded("kv-boundary-shift (known finding F1)")
			kind = "kv-value"
		}
		if kind == "acct-split" {
			// the known class split-account-base-unhashed (an account re-split into records marked ExpectingMoreEntries whose
			// base data is stored but never hashed) is excluded by construction and reproduced in TestVerif_C16_KnownSplit
			vk.Excluded("split-account-base-unhashed (known finding)")
			kind = "acct-balance"
		}
		tsecs, tm, ok := c16ApplyTamper(t, kind, secs, other)
		if !ok {
			vk.Label("tamper-n/a:" + kind)
			continue
		}
		same := len(tsecs) == len(secs)
		for j := 0; same && j < len(secs); j++ {
			same = tsecs[j].Name == secs[j].Name && bytes.Equal(tsecs[j].Data, secs[j].Data)
		}
		if same {
			t.Fatalf("HARNESS: tampering %s (%s) left the file unchanged", tm.Kind, tm.Desc)
		}
		tn, stage, err := c16CatchupFresh(w, t, fmt.Sprintf("tamper%d", i+1), cpxNodeSpec{Interval: h.interval, Tracking: config.CatchpointTrackingModeTracked, TrieCache: 9000}, true, label, tsecs, h.blocks, false)
		cpxCloseNode(tn)
		if err != nil && strings.Contains(err.Error(), "locked") {
			vk.Label("tamper-inconclusive:db-lock")
			continue
		}
		if err == nil {
			fail("a tampered catchpoint file passed VerifyCatchpoint against the untouched label %s: %s [%s]", label, tm.Desc, tm.Kind)
		}
		if i := strings.Index(stage, ":"); i > 0 {
			stage = stage[:i]
		}
		vk.Label("tamper:" + tm.Kind)
		vk.Label("rejected-at:" + stage)
		w.tracef("tamper %s (%s) rejected at %s", tm.Kind, tm.Desc, stage)
		applied = append(applied, tm)
		nonFirst = nonFirst || tm.NonFirst
	}

	nontrivial := rich && nonFirst && len(applied) > 0
	var fp []string
	for _, tm := range applied {
		fp = append(fp, tm.Kind+":"+tm.Desc)
	}
	vk.Case(nontrivial, strings.Join(w.History, "|")+fmt.Sprintf("|R=%d|", R)+strings.Join(fp, "|"))
	vk.Labelf("proto=%s", strings.TrimPrefix(string(proto.CV), "verif-c16-"))
	vk.Labelf("interval=%d", h.interval)
	vk.Labelf("chunks=%d", nChunks)
	if nKV > 0 {
		vk.Label("file:has-kv")
	}
	if nRes > 0 {
		vk.Label("file:has-resources")
	}
	if nOA > 0 {
		vk.Label("file:has-online-accounts")
	}
	if rich {
		vk.Label("file:rich")
	}
	if horizon > 0 {
		vk.Label("online-history-horizon>0")
	}
	vk.Labelf("later-labels-compared=%d", min(common, 3))
	vk.Add("restored-lookups", int64(lookups))
	vk.Add("online-comparisons", int64(onlineCmp))
	vk.Add("tampers", int64(len(applied)))
	if vk.WantSample(nontrivial) {
		vk.Sample(nontrivial, map[string]any{"proto": proto.CV, "interval": h.interval, "catchpoint": label, "accountsRound": accountsRound, "chunks": nChunks,
			"accounts": nBal, "resources": nRes, "kvs": nKV, "onlineAccounts": nOA, "onlineRoundParams": nORP, "tampers": applied,
			"restoredLabels": restLabels, "blocks": len(h.blocks) - 1})
	}
}

func TestVerif_C16_Catchup(t *testing.T) {
	vk := vkBegin(t, "C16")
	vk.Rule(c16Rule)
	vk.Assume("SHA-512/256 collision resistance; the catchpoint label given to the catching-up node is the producer's (C14 checks that it depends on the history only); block download and certificate checks are the catchup service's business (C30)")
	protos := cpxRegisterProtos(t, "c16")
	rapid.Check(t, func(rt *rapid.T) { c16Run(t, rt, vk, protos) })
}

// TestVerif_C16_KnownF1 reproduces the known finding kv-boundary-shift in its catch-up form: a catchpoint file in
// which box ("ab" -> "c") of an application is replaced by box ("a" -> "bc") of the same application passes
// VerifyCatchpoint against the honest label, and the node adopts the substituted state.
func TestVerif_C16_KnownF1(t *testing.T) {
	vk := vkBegin(t, "C16")
	vk.Rule("scripted history: an application is created and funded and stores box \"ab\" -> \"c\"; payments around it are drawn; the producer's catchpoint file of the first catchpoint round whose accounts round holds the box " +
		"is tampered by moving the byte 'b' from the box name to the box value (kv key||value unchanged) and replayed on a fresh ledger. Non-trivial: the box is in the file. Distinct: by world and trace.")
	protos := cpxRegisterProtos(t, "c16f1")
	reproduced := 0
	var firstReplay any
	rapid.Check(t, func(rt *rapid.T) {
		proto := protos[rapid.IntRange(0, len(protos)-1).Draw(rt, "proto")]
		h := c16BuildHistory(t, rt, vk, proto, "pay", false)
		w := h.w
		defer w.Close()
		tip := w.Model.Tip()
		rich := w.Users[0]
		for _, u := range w.Users {
			if tip.Acct(u).Data.MicroAlgos.Raw > tip.Acct(rich).Data.MicroAlgos.Raw {
				rich = u
			}
		}
		a, _, cl := engcPrograms()
		step := func(kind string, tx *txntest.Txn) {
			b := w.BeginBlock(rt)
			if err := b.Submit([]string{kind}, tx); err != nil {
				rt.Skipf("scripted transaction %s rejected: %v", kind, err)
			}
			b.RandomGroups(rt, rapid.IntRange(0, 2).Draw(rt, "ngroups"))
			b.Finish(rt)
			h.note(rt)
		}
		step("app-create", &txntest.Txn{Type: protocol.ApplicationCallTx, Sender: rich, ApprovalProgram: a, ClearStateProgram: cl})
		ids := w.Model.Tip().CreatableIDs(basics.AppCreatable)
		if len(ids) != 1 {
			rt.Fatalf("HARNESS: expected one application, have %v", ids)
		}
		app := basics.AppIndex(ids[0])
		step("app-fund", &txntest.Txn{Type: protocol.PaymentTx, Sender: rich, Receiver: app.Address(), Amount: 1_000_000})
		step("app-call", &txntest.Txn{Type: protocol.ApplicationCallTx, Sender: rich, ApplicationID: app,
			ApplicationArgs: [][]byte{[]byte("bput"), []byte("ab"), []byte("c")}, Boxes: []transactions.BoxRef{{Index: 0, Name: []byte("ab")}}})
		boxRound := w.Model.Latest()
		// first catchpoint round whose accounts round is >= boxRound
		R := basics.Round(0)
		for q := boxRound + basics.Round(proto.Lookback); ; q++ {
			if cpxIsCatchpointRound(q, proto.Lookback, h.interval) {
				R = q
				break
			}
		}
		h.run(rt, int(R)+int(w.Node.Cfg.MaxAcctLookback)+1-int(w.Model.Latest()), false)
		label, ok := h.labels[R]
		if !ok {
			rt.Fatalf("C16 VIOLATION: the producer (DB round %d) has no label for catchpoint round %d; labels %v\n%s", w.Node.DBRound(), R, h.rounds(), cpxTail(w, 40))
		}
		secs, err := cpxReadCatchpointFile(w.Ledger, R)
		if err != nil {
			rt.Fatalf("C16 VIOLATION: GetCatchpointStream(%d): %v", R, err)
		}
		keyAB, keyA := engcBoxKey(app, "ab"), engcBoxKey(app, "a")
		tsecs := c16CloneSecs(secs)
		hit := false
		for i, s := range tsecs {
			if !cpxIsBalancesSection(s.Name) {
				continue
			}
			var ch CatchpointSnapshotChunkV6
			if err := protocol.Decode(s.Data, &ch); err != nil {
				rt.Fatalf("HARNESS: %v", err)
			}
			for j := range ch.KVs {
				if string(ch.KVs[j].Key) == keyAB && string(ch.KVs[j].Value) == "c" {
					ch.KVs[j] = encoded.KVRecordV6{Key: []byte(keyA), Value: []byte("bc")}
					hit = true
				}
			}
			tsecs[i].Data = protocol.Encode(&ch)
		}
		fp := strings.Join(w.History, "|")
		if !hit {
			vk.Case(false, fp)
			rt.Fatalf("HARNESS: box ab -> c is not in the catchpoint file of round %d (box written in round %d)", R, boxRound)
		}
		tn, stage, err := c16CatchupFresh(w, rt, "victim", cpxNodeSpec{Interval: h.interval, Tracking: config.CatchpointTrackingModeTracked, TrieCache: 9000}, true, label, tsecs, h.blocks, true)
		defer cpxCloseNode(tn)
		if err != nil {
			// the substitution is rejected: the finding does not reproduce on this tree
			vk.Case(false, fp)
			vk.Label("f1-rejected-at:" + stage)
			return
		}
		tn.Quiesce()
		gotA, errA := tn.L.LookupKv(R, keyA)
		gotAB, errAB := tn.L.LookupKv(R, keyAB)
		if errA != nil || errAB != nil || string(gotA) != "bc" || gotAB != nil {
			rt.Fatalf("HARNESS: tampered file accepted but the victim answers box a = %q (%v), box ab = %q (%v)", gotA, errA, gotAB, errAB)
		}
		if wv := w.Model.At(R).Kv[keyAB]; string(wv) != "c" {
			rt.Fatalf("HARNESS: the model does not hold box ab -> c at round %d", R)
		}
		reproduced++
		vk.Case(true, fp)
		vk.Label("f1-accepted")
		rep := map[string]any{"proto": proto.CV, "label": label, "catchpointRound": R, "app": app, "original": "box ab -> c", "substituted": "box a -> bc", "history": w.History}
		if firstReplay == nil {
			firstReplay = rep
		}
		if vk.WantSample(true) {
			vk.Sample(true, rep)
		}
	})
	if reproduced > 0 {
		vk.Known("kv-boundary-shift", fmt.Sprintf("a catchpoint file in which box (name \"ab\", value \"c\") of an application is replaced by box (name \"a\", value \"bc\") passes BuildMerkleTrie and VerifyCatchpoint against the honest label; "+
			"after CompleteCatchup the node serves box \"a\" = \"bc\" and no box \"ab\" (KvHashBuilderV6 hashes key||value unseparated; %d reproductions)", reproduced), firstReplay)
	}
}

// c16SplitAccount re-splits the record of one account of the file into two records of the same address: a first one
// marked ExpectingMoreEntries with CHANGED base account data (balance + delta) and the first half of the resources,
// and a final one with the honest base data and the remaining resources. ok == false: no balances chunk.
func c16SplitAccount(t *rapid.T, orig []cpxSection, prefer func(basics.Address) bool, delta uint64) (out []cpxSection, addr basics.Address, nres int, ok bool) {
	out = c16CloneSecs(orig)
	for i, s := range out {
		if !cpxIsBalancesSection(s.Name) {
			continue
		}
		var ch CatchpointSnapshotChunkV6
		if err := protocol.Decode(s.Data, &ch); err != nil {
			t.Fatalf("HARNESS: %v", err)
		}
		if len(ch.Balances) == 0 {
			continue
		}
		var cand []int
		for j, b := range ch.Balances {
			if prefer(b.Address) {
				cand = append(cand, j)
			}
		}
		if len(cand) == 0 {
			for j := range ch.Balances {
				cand = append(cand, j)
			}
		}
		j := cand[c16PickIdx(t, len(cand), "splitRec")]
		rec := ch.Balances[j]
		var bad trackerdb.BaseAccountData
		if err := protocol.Decode(rec.AccountData, &bad); err != nil {
			t.Fatalf("HARNESS: %v", err)
		}
		bad.MicroAlgos.Raw += delta
		var ids []uint64
		for id := range rec.Resources {
			ids = append(ids, id)
		}
		sort.Slice(ids, func(a, b int) bool { return ids[a] < ids[b] })
		first := encoded.BalanceRecordV6{Address: rec.Address, AccountData: msgp.Raw(protocol.Encode(&bad)), ExpectingMoreEntries: true}
		last := encoded.BalanceRecordV6{Address: rec.Address, AccountData: rec.AccountData}
		for k, id := range ids {
			if k < len(ids)/2 {
				if first.Resources == nil {
					first.Resources = map[uint64]msgp.Raw{}
				}
				first.Resources[id] = rec.Resources[id]
			} else {
				if last.Resources == nil {
					last.Resources = map[uint64]msgp.Raw{}
				}
				last.Resources[id] = rec.Resources[id]
			}
		}
		nb := append([]encoded.BalanceRecordV6{}, ch.Balances[:j]...)
		nb = append(nb, first, last)
		nb = append(nb, ch.Balances[j+1:]...)
		ch.Balances = nb
		out[i].Data = protocol.Encode(&ch)
		return out, rec.Address, len(ids), true
	}
	return nil, addr, 0, false
}

// TestVerif_C16_KnownSplit probes / reproduces the class split-account-base-unhashed: the base record of an account whose
// records are marked ExpectingMoreEntries is stored (first record wins) but never hashed (only the final record's base
// data goes into the trie), so a file in which an account is re-split into a changed first record and an honest final
// record would verify against the honest label.
func TestVerif_C16_KnownSplit(t *testing.T) {
	vk := vkBegin(t, "C16")
	vk.Rule("random history with the scripted prelude; the producer's catchpoint file of a drawn catchpoint round is changed by re-splitting one account record into a first record " +
		"(ExpectingMoreEntries, balance + 1 Algo, first half of its resources) and a final record (honest base data, remaining resources); full catch-up of a fresh on-disk ledger with the honest label. " +
		"Non-trivial: the tampered file was accepted and the restored ledger serves the changed balance. Distinct: by world, trace and account.")
	protos := cpxRegisterProtos(t, "c16split")
	reproduced := 0
	var firstReplay any
	rapid.Check(t, func(rt *rapid.T) {
		proto := protos[rapid.IntRange(0, len(protos)-1).Draw(rt, "proto")]
		h := c16BuildHistory(t, rt, vk, proto, "", true)
		w := h.w
		defer w.Close()
		firstR := (proto.Lookback/h.interval + 1) * h.interval
		h.run(rt, int(firstR)+int(w.Node.Cfg.MaxAcctLookback)+1, true)
		rounds := h.rounds()
		if len(rounds) == 0 {
			rt.Fatalf("C16 VIOLATION: the producer reported no label after %d blocks\n%s", w.Model.Latest(), cpxTail(w, 40))
		}
		R := rounds[len(rounds)-1]
		label := h.labels[R]
		secs, err := cpxReadCatchpointFile(w.Ledger, R)
		if err != nil {
			rt.Fatalf("C16 VIOLATION: GetCatchpointStream(%d): %v", R, err)
		}
		accountsRound := R - basics.Round(proto.Lookback)
		// prefer an account with resources that no block after the accounts round touches (its stored record stays as restored)
		quiet := func(a basics.Address) bool {
			if len(w.Model.At(accountsRound).Acct(a).Assets)+len(w.Model.At(accountsRound).Acct(a).AppLocals)+len(w.Model.At(accountsRound).Acct(a).AssetParams)+len(w.Model.At(accountsRound).Acct(a).AppParams) == 0 {
				return false
			}
			return w.Model.LastChange(accountsRound, w.Model.Latest(), func(c *engcChanges) bool { return c.Accts[a] }) == 0
		}
		const delta = 1_000_000
		tsecs, addr, nres, ok := c16SplitAccount(rt, secs, quiet, delta)
		if !ok {
			rt.Fatalf("HARNESS: no balances chunk in the file of round %d", R)
		}
		fp := strings.Join(w.History, "|") + "|" + addr.String()
		vn, stage, err := c16CatchupFresh(w, rt, "victim", cpxNodeSpec{Interval: h.interval, Tracking: config.CatchpointTrackingModeTracked, TrieCache: 9000}, true, label, tsecs, h.blocks, true)
		defer cpxCloseNode(vn)
		if err != nil {
			vk.Case(false, fp)
			if i := strings.Index(stage, ":"); i > 0 {
				stage = stage[:i]
			}
			vk.Label("split-rejected-at:" + stage)
			w.tracef("re-split account %v rejected at %s: %v", addr, stage, err)
			if vk.WantSample(false) {
				vk.Sample(false, map[string]any{"account": addr.String(), "resources": nres, "rejectedAt": stage, "error": err.Error()})
			}
			return
		}
		vn.Quiesce()
		got, _, lerr := vn.L.LookupWithoutRewards(R, addr)
		want := w.Model.At(R).Acct(addr).Data
		if lerr != nil {
			rt.Fatalf("HARNESS: victim LookupWithoutRewards: %v", lerr)
		}
		if got == want {
			// accepted but harmless: the stored record is the honest one
			vk.Case(false, fp)
			vk.Label("split-accepted-state-honest")
			return
		}
		reproduced++
		vk.Case(true, fp)
		vk.Label("split-accepted-state-changed")
		vk.Labelf("split-resources=%d", min(nres, 3))
		tot, _ := vn.L.Totals(R)
		rep := map[string]any{"proto": proto.CV, "label": label, "catchpointRound": R, "account": addr.String(), "resourcesOfAccount": nres,
			"servedBalance": got.MicroAlgos.Raw, "trueBalance": want.MicroAlgos.Raw, "victimTotalsAll": tot.All().Raw, "history": w.History}
		if firstReplay == nil {
			firstReplay = rep
		}
		if vk.WantSample(true) {
			vk.Sample(true, rep)
		}
	})
	if reproduced > 0 {
		vk.Known("split-account-base-unhashed", fmt.Sprintf("a catchpoint file in which one account record is re-split into a first record (ExpectingMoreEntries=true, balance +1 Algo) and a final record "+
			"(honest base data) passes ProcessStagingBalances, BuildMerkleTrie and VerifyCatchpoint against the honest label; after CompleteCatchup the node serves the changed balance "+
			"(WriteCatchpointStagingBalances stores the first record's base data, only the final record's base data is hashed; %d reproductions)", reproduced), firstReplay)
	}
}
