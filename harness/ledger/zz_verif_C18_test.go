package ledger

// C18 — Blocks neither create nor destroy Algos.
//
// Oracle: S(state) = sum over ALL accounts of the model (fee sink and rewards pool included) of the balance with the
// rewards pending at the state's RewardsLevel, computed with math/big from the enumerated accounts. S must be the
// same before and after every block (hence equal to the genesis supply for the whole history). See notes/C18.md.

import (
	"context"
	"fmt"
	"math/big"
	"strings"
	"testing"

	"pgregory.net/rapid"

	"github.com/algorand/go-algorand/data/basics"
	"github.com/algorand/go-algorand/ledger/eval"
)

// c18Supply sums balances with pending rewards materialised at the snapshot's own rewards level.
func c18Supply(s *engcSnap) *big.Int {
	sum := new(big.Int)
	unit := s.Proto.RewardUnit
	for _, a := range s.Accts {
		d := a.Data
		sum.Add(sum, new(big.Int).SetUint64(d.MicroAlgos.Raw))
		if d.Status != basics.NotParticipating {
			units := new(big.Int).SetUint64(d.MicroAlgos.Raw / unit)
			sum.Add(sum, units.Mul(units, new(big.Int).SetUint64(s.RewardsLevel-d.RewardsBase)))
		}
	}
	return sum
}

func c18Run(tb *testing.T, t *rapid.T, vk *vkCtx, opts engcOpts) {
	opts.Label = vk.Label
	w := engcNewWorld(tb, t, opts)
	defer w.Close()
	failf := func(format string, args ...any) {
		h := w.History
		if len(h) > 40 {
			h = h[len(h)-40:]
		}
		t.Fatalf("C18 VIOLATION: %s\n--- history (tail) ---\n%s", fmt.Sprintf(format, args...), strings.Join(h, "\n"))
	}
	genesis := c18Supply(w.Model.At(0))
	blocks, nt := 0, 0

	// before the block is added: the ledger is still at the pre-block state
	w.OnValidated(func(info *engcBlockInfo) {
		pre := info.Pre
		post, err := w.Model.Preview(pre, info.Block, info.Delta)
		if err != nil {
			failf("block %d: %v", info.Round, err)
		}
		before, after := c18Supply(pre), c18Supply(post)
		if before.Cmp(after) != 0 {
			failf("block %d changes the total supply (pending rewards included): before %v (level %d), after %v (level %d), difference %v; groups %s",
				info.Round, before, pre.RewardsLevel, after, post.RewardsLevel, new(big.Int).Sub(after, before), c18Groups(info))
		}
		if after.Cmp(genesis) != 0 {
			failf("after block %d the total supply is %v, genesis supply was %v", info.Round, after, genesis)
		}
		// the same block evaluated again without validation (the AddBlock / catch-up / replay path) must describe the same state
		d2, err := eval.Eval(context.Background(), w.Node.L, info.Block, false, w.Node.L.verifiedTxnCache, nil, w.Node.L.tracer)
		if err != nil {
			failf("block %d accepted by Validate is rejected by Eval(validate=false): %v", info.Round, err)
		}
		post2, err := w.Model.Preview(pre, info.Block, d2)
		if err != nil {
			failf("block %d (Eval validate=false): %v", info.Round, err)
		}
		if diff := engcSnapEqual(post, post2); diff != "" {
			failf("block %d: validate-mode and apply-mode evaluation disagree on the resulting state: %s", info.Round, diff)
		}
	})
	// after the block is added: the reported grand total must be the same number
	w.OnBlock(func(info *engcBlockInfo) {
		blocks++
		rnd, tot, err := w.Node.L.LatestTotals()
		if err != nil || rnd != info.Round {
			failf("LatestTotals after block %d: round %d err %v", info.Round, rnd, err)
		}
		online, offline, np := tot.Online.Money.Raw, tot.Offline.Money.Raw, tot.NotParticipating.Money.Raw
		all := new(big.Int).SetUint64(online)
		all.Add(all, new(big.Int).SetUint64(offline))
		all.Add(all, new(big.Int).SetUint64(np))
		if all.Cmp(genesis) != 0 {
			failf("after block %d LatestTotals sums to %v, the supply enumerated from accounts is %v", info.Round, all, genesis)
		}
		closes := info.Post.Changes.Closed > 0
		payout := info.Block.ProposerPayout().Raw > 0
		level := info.Post.RewardsLevel != info.Pre.RewardsLevel
		inner := false
		for i := range info.Block.Payset {
			if len(info.Block.Payset[i].ApplyData.EvalDelta.InnerTxns) > 0 {
				inner = true
			}
		}
		closeTxn := false
		for i := range info.Block.Payset {
			tx := info.Block.Payset[i].Txn
			if !tx.CloseRemainderTo.IsZero() {
				closeTxn = true
			}
		}
		nontrivial := closes || closeTxn || payout || level || inner
		if nontrivial {
			nt++
		}
		vk.Case(nontrivial, fmt.Sprintf("%v", info.Block.Hash()))
		for name, b := range map[string]bool{"blk:account-emptied": closes, "blk:close-remainder-txn": closeTxn, "blk:proposer-payout": payout, "blk:rewards-level-moved": level, "blk:inner-payment": inner} {
			if b {
				vk.Label(name)
			}
		}
		vk.Labelf("blk:txns:%s", c18Bucket(len(info.Block.Payset)))
		if vk.WantSample(nontrivial) {
			vk.Sample(nontrivial, map[string]any{"round": info.Round, "txns": len(info.Block.Payset), "groups": c18Groups(info), "payout": info.Block.ProposerPayout().Raw,
				"level_before": info.Pre.RewardsLevel, "level_after": info.Post.RewardsLevel, "supply": genesis.String()})
		}
	})

	block := func(t *rapid.T) { w.StepBlock(t, -1) }
	actions := map[string]func(*rapid.T){
		"Block1": block, "Block2": block, "Block3": block, "Block4": block, "Block5": block, "Block6": block, "Block7": block,
		"Commit": func(t *rapid.T) { w.Node.OpCommit(); vk.Label("op:commit") },
		"Reload": func(t *rapid.T) {
			if !w.Node.ReloadBudgetLeft() {
				w.Node.OpCommit()
				return
			}
			if err := w.Node.OpReload(); err != nil {
				failf("reload failed: %v", err)
			}
			vk.Label("op:reload")
		},
		"": func(t *rapid.T) {},
	}
	t.Repeat(actions)
	for i := 0; i < 2; i++ {
		w.StepBlock(t, -1)
	}
	vk.Add("blocks", int64(blocks))
	vk.Add("nontrivial_blocks", int64(nt))
}

func c18Groups(info *engcBlockInfo) string {
	var parts []string
	for _, g := range info.Groups {
		s := strings.Join(g.Kinds, "+")
		if g.Err != nil {
			s += "(rejected)"
		}
		parts = append(parts, s)
	}
	return strings.Join(parts, ",")
}

func c18Bucket(n int) string {
	switch {
	case n == 0:
		return "0"
	case n < 4:
		return "1-3"
	case n < 10:
		return "4-9"
	}
	return ">=10"
}

const c18Rule = "every block of Engine C histories (real evaluator; pay/close/rekey/keyreg with fees/asset and app lifecycle/inner payments/boxes; payout-enabled headers, rewards level moving, expirations) is a case: " +
	"the supply summed with math/big over all enumerated model accounts with pending rewards at the state's level is compared before/after the block and with genesis, the block is re-evaluated without validation and must give the same state, " +
	"and LatestTotals must sum to the same number. Non-trivial: the block empties an account or carries a close-remainder transaction, an inner payment, a non-zero proposer payout or a rewards level change. Distinct: by block hash."

func TestVerif_C18_Conservation(t *testing.T) {
	vk := vkBegin(t, "C18")
	vk.Rule(c18Rule)
	vk.Assume("account records of the validated block's StateDelta describe the post-block accounts (resources, kv and creatables are not used by this oracle); Totals are only compared, never used to compute the supply")
	rapid.Check(t, func(rt *rapid.T) {
		opts := engcOpts{}
		switch rapid.IntRange(0, 4).Draw(rt, "mix") {
		case 0:
			opts.Profile = "status"
		case 1:
			opts.Profile = "pay"
		case 2, 3:
			opts.Profile = "money"
		}
		c18Run(t, rt, vk, opts)
	})
}
