package ledger

// C29 (evaluator part) — a transaction group is accepted by the block evaluator only when every member carries the
// group ID equal to the hash of all members' IDs in order; and a block is validated only if its transactions match the
// header's commitment and the header links to the previous block.
//
// The group ID is computed here from scratch: SHA-512/256("TG" || msgpack{txlist:[ids]}) with a hand-written msgpack
// encoding and ids = SHA-512/256("TX" || msgpack(txn with Group cleared)). The untouched group must be accepted by both
// TestTransactionGroup and TransactionGroup; every single mutation must be rejected by both with a group-malformed error.

import (
	"crypto/sha512"
	"errors"
	"fmt"
	"io"
	"sort"
	"testing"

	"github.com/algorand/go-algorand/agreement"
	"github.com/algorand/go-algorand/config"
	"github.com/algorand/go-algorand/crypto"
	"github.com/algorand/go-algorand/data/basics"
	"github.com/algorand/go-algorand/data/bookkeeping"
	"github.com/algorand/go-algorand/data/committee"
	"github.com/algorand/go-algorand/data/transactions"
	"github.com/algorand/go-algorand/data/txntest"
	"github.com/algorand/go-algorand/ledger/eval"
	"github.com/algorand/go-algorand/ledger/ledgercore"
	ledgertesting "github.com/algorand/go-algorand/ledger/testing"
	"github.com/algorand/go-algorand/logging"
	"github.com/algorand/go-algorand/protocol"
	"pgregory.net/rapid"
)

func c29gTxID(tx transactions.Transaction) crypto.Digest {
	tx.Group = crypto.Digest{}
	return sha512.Sum512_256(append([]byte("TX"), protocol.Encode(&tx)...))
}

// hand-written canonical msgpack of TxGroup{TxGroupHashes: ids}: {"txlist": [bin32, ...]}
func c29gGroupID(prefix string, ids []crypto.Digest) crypto.Digest {
	buf := []byte(prefix)
	buf = append(buf, 0x81, 0xa6)
	buf = append(buf, "txlist"...)
	if len(ids) < 16 {
		buf = append(buf, 0x90|byte(len(ids)))
	} else {
		buf = append(buf, 0xdc, byte(len(ids)>>8), byte(len(ids)))
	}
	for _, id := range ids {
		buf = append(buf, 0xc4, 0x20)
		buf = append(buf, id[:]...)
	}
	return sha512.Sum512_256(buf)
}

func c29gAssign(txs []transactions.Transaction) ([]transactions.SignedTxn, crypto.Digest) {
	ids := make([]crypto.Digest, len(txs))
	for i, tx := range txs {
		ids[i] = c29gTxID(tx)
	}
	gid := c29gGroupID("TG", ids)
	out := make([]transactions.SignedTxn, len(txs))
	for i, tx := range txs {
		tx.Group = gid
		out[i] = transactions.SignedTxn{Txn: tx}
	}
	return out, gid
}

func c29gWithGroup(g []transactions.SignedTxn, gid crypto.Digest) []transactions.SignedTxn {
	out := append([]transactions.SignedTxn(nil), g...)
	for i := range out {
		out[i].Txn.Group = gid
	}
	return out
}

type c29gMutant struct {
	name string
	g    []transactions.SignedTxn
}

func TestVerif_C29_Group(t *testing.T) {
	vk := vkBegin(t, "C29")
	vk.Rule("groups of 1-16 payments between funded genesis accounts (unique notes) on a real ledger/evaluator (current protocol), group ID computed from scratch; per group 8 drawn single mutations out of: drop/add a member, swap/rotate members, alter one field of one member after grouping, flip a bit of the group ID on all or on one member, zero the ID on one/all members, ID over the sorted or reversed ID list, ID without domain prefix; then the untouched group. Every ~25 groups the block is finished: mutated blocks (two ungrouped entries swapped, last entry dropped, bit flipped in each commitment, Branch flipped) must fail Validate, the real block must pass. Non-trivial = group of >=2 members; distinct by group ID")
	vk.Assume("msgpack of a Transaction comes from protocol.Encode; the TxGroup encoding and all hashing are re-implemented")
	gen, addrs, _ := ledgertesting.NewTestGenesis()
	tt := t
	quiet := logging.NewLogger()
	quiet.SetOutput(io.Discard)
	cv := protocol.ConsensusCurrentVersion
	proto := config.Consensus[cv]
	l := newSimpleLedgerWithConsensusVersion(tt, gen, cv, config.GetDefaultLocal(), simpleLedgerLogger(quiet))
	defer l.Close()

	genHdr, err := l.BlockHdr(0)
	if err != nil {
		t.Fatalf("BlockHdr(0): %v", err)
	}
	genesisID := genHdr.GenesisID
	serial := 0
	ev := nextBlock(tt, l)
	inBlock := 0
	var singles []int // payset indexes of ungrouped single transactions in the current block

	mkTxn := func(t *rapid.T, e *eval.BlockEvaluator) transactions.Transaction {
		serial++
		from := rapid.IntRange(0, len(addrs)-1).Draw(t, "from")
		to := rapid.IntRange(0, len(addrs)-1).Draw(t, "to")
		tx := &txntest.Txn{Type: "pay", Sender: addrs[from], Receiver: addrs[to], Amount: uint64(rapid.IntRange(0, 1000).Draw(t, "amt")),
			Note: fmt.Sprintf("c29g-%d", serial)}
		if rapid.Bool().Draw(t, "withGenesisID") {
			tx.GenesisID = genesisID // stored in the block as HasGenesisID
		}
		fillDefaults(tt, l, e, tx)
		return tx.Txn()
	}

	// A block-level failure leaves the shared evaluator finished; remember it so that rapid's re-runs (shrinking)
	// report the same failure instead of tripping over the used evaluator.
	sticky := ""
	// finishBlock: mutated blocks must be refused, the real one accepted and appended
	finishBlock := func(t *rapid.T) {
		ub, err := ev.GenerateBlock(nil)
		if err != nil {
			tt.Fatalf("GenerateBlock: %v", err)
		}
		prp := ub.UnfinishedBlock().BlockHeader.FeeSink
		blk := ub.FinishBlock(committee.Seed(prp), prp, true)
		validate := func(b bookkeeping.Block) error {
			save := l.verifiedTxnCache
			defer func() { l.verifiedTxnCache = save }()
			_, err := validateWithoutSignatures(tt, l, b)
			return err
		}
		reject := func(what string, b bookkeeping.Block) {
			vk.Label("block-reject:" + what)
			if err := validate(b); err == nil {
				sticky = fmt.Sprintf("Validate accepted a block with %s (round %d, %d txns); ContentsMatchHeader()=%v for the accepted bytes", what, b.Round(), len(b.Payset), b.ContentsMatchHeader())
				t.Fatalf("%s", sticky)
			}
		}
		n := len(blk.Payset)
		if len(singles) >= 2 {
			m := blk
			m.Payset = append(transactions.Payset(nil), blk.Payset...)
			i, j := singles[0], singles[len(singles)-1]
			m.Payset[i], m.Payset[j] = m.Payset[j], m.Payset[i]
			reject("two ungrouped entries swapped", m)
		}
		if len(singles) >= 1 && singles[len(singles)-1] == n-1 {
			m := blk
			m.Payset = append(transactions.Payset(nil), blk.Payset[:n-1]...)
			reject("last entry dropped", m)
		}
		if n >= 1 {
			m := blk
			m.Payset = append(append(transactions.Payset(nil), blk.Payset...), blk.Payset[n-1])
			reject("last entry duplicated", m)
		}
		// Payset ENTRY-ENCODING tampering, header untouched. The header commits to the encoded SignedTxnInBlock entries,
		// so an entry that decodes to the same transaction but is encoded differently does not match the header; the
		// block must be refused (DecodeSignedTxn documents each of these as an error or they change the decoded txn).
		if n >= 1 {
			i := rapid.IntRange(0, n-1).Draw(t, "encEntry")
			tamper := func(what string, f func(e *transactions.SignedTxnInBlock)) {
				m := blk
				m.Payset = append(transactions.Payset(nil), blk.Payset...)
				f(&m.Payset[i])
				vk.Label("block-reject:" + what)
				if err := validate(m); err == nil {
					sticky = fmt.Sprintf("Validate accepted a block whose payset entry %d has %s, header untouched (round %d, %d txns); ContentsMatchHeader()=%v for the accepted bytes",
						i, what, m.Round(), n, m.ContentsMatchHeader())
					t.Fatalf("%s", sticky)
				}
			}
			tamper("HasGenesisHash set although the protocol implies the genesis hash", func(e *transactions.SignedTxnInBlock) { e.HasGenesisHash = true })
			tamper("HasGenesisID flipped", func(e *transactions.SignedTxnInBlock) { e.HasGenesisID = !e.HasGenesisID })
			tamper("the genesis hash spelled out in the transaction body", func(e *transactions.SignedTxnInBlock) { e.SignedTxn.Txn.GenesisHash = blk.BlockHeader.GenesisHash })
			tamper("the genesis id spelled out in the transaction body (flag cleared)", func(e *transactions.SignedTxnInBlock) {
				e.SignedTxn.Txn.GenesisID = blk.BlockHeader.GenesisID
				e.HasGenesisID = false
			})
			tamper("the genesis id spelled out in the transaction body (flag set)", func(e *transactions.SignedTxnInBlock) {
				e.SignedTxn.Txn.GenesisID = blk.BlockHeader.GenesisID
				e.HasGenesisID = true
			})
			mAll := blk
			mAll.Payset = append(transactions.Payset(nil), blk.Payset...)
			for k := range mAll.Payset {
				mAll.Payset[k].HasGenesisHash = true
			}
			reject("HasGenesisHash set on every entry", mAll)
		}
		m := blk
		m.NativeSha512_256Commitment[rapid.IntRange(0, 31).Draw(t, "cb")] ^= 1
		reject("bit flipped in the SHA-512/256 commitment", m)
		if proto.EnableSHA256TxnCommitmentHeader {
			m = blk
			m.Sha256Commitment[rapid.IntRange(0, 31).Draw(t, "cb256")] ^= 1
			reject("bit flipped in the SHA-256 commitment", m)
		}
		if proto.EnableSha512BlockHash {
			m = blk
			m.Sha512Commitment[rapid.IntRange(0, 63).Draw(t, "cb512")] ^= 1
			reject("bit flipped in the SHA-512 commitment", m)
			m = blk
			m.Branch512[rapid.IntRange(0, 63).Draw(t, "bb512")] ^= 1
			reject("bit flipped in Branch512", m)
		}
		m = blk
		m.Branch[rapid.IntRange(0, 31).Draw(t, "bb")] ^= 1
		reject("bit flipped in Branch", m)
		if !blk.ContentsMatchHeader() {
			sticky = "generated block does not match its own header"
			t.Fatalf("%s", sticky)
		}
		vvb, err := validateWithoutSignatures(tt, l, blk)
		if err != nil {
			sticky = fmt.Sprintf("Validate refused the untouched block: %v", err)
			t.Fatalf("%s", sticky)
		}
		if err := l.AddValidatedBlock(*vvb, agreement.Certificate{}); err != nil {
			tt.Fatalf("AddValidatedBlock: %v", err)
		}
		l.WaitForCommit(l.Latest())
		if stored, err := l.Block(l.Latest()); err != nil || !stored.ContentsMatchHeader() {
			sticky = fmt.Sprintf("stored block %d does not match its header (err %v)", l.Latest(), err)
			t.Fatalf("%s", sticky)
		}
		vk.Label("block-accepted")
		ev = nextBlock(tt, l)
		inBlock = 0
		singles = nil
	}

	rapid.Check(t, func(t *rapid.T) {
		if sticky != "" {
			t.Fatalf("%s", sticky)
		}
		if inBlock >= 25 {
			finishBlock(t)
		}
		var n int
		switch k := rapid.IntRange(0, 19).Draw(t, "sizeKind"); {
		case k < 3:
			n = 1
		case k < 15:
			n = rapid.IntRange(2, 5).Draw(t, "nSmall")
		case k < 18:
			n = rapid.IntRange(6, 15).Draw(t, "nMid")
		default:
			n = proto.MaxTxGroupSize
		}
		txs := make([]transactions.Transaction, n)
		for i := range txs {
			txs[i] = mkTxn(t, ev)
		}
		good, gid := c29gAssign(txs)
		ids := make([]crypto.Digest, n)
		for i := range txs {
			ids[i] = c29gTxID(txs[i])
		}

		expectReject := func(m c29gMutant) {
			vk.Label("reject:" + m.name)
			var gm *ledgercore.TxGroupMalformedError
			err := ev.TestTransactionGroup(m.g)
			if err == nil {
				t.Fatalf("TestTransactionGroup accepted a group with %s (size %d -> %d)", m.name, n, len(m.g))
			}
			if !errors.As(err, &gm) {
				t.Fatalf("TestTransactionGroup refused %s for an unrelated reason: %v", m.name, err)
			}
			before := ev.PaySetSize()
			err = ev.TransactionGroup(transactions.WrapSignedTxnsWithAD(m.g)...)
			if err == nil {
				t.Fatalf("TransactionGroup accepted a group with %s (size %d -> %d)", m.name, n, len(m.g))
			}
			if !errors.As(err, &gm) {
				t.Fatalf("TransactionGroup refused %s for an unrelated reason: %v", m.name, err)
			}
			if ev.PaySetSize() != before {
				t.Fatalf("a refused group changed the payset")
			}
		}

		pick := func(name string) int { return rapid.IntRange(0, n-1).Draw(t, name) }
		clone := func() []transactions.SignedTxn { return append([]transactions.SignedTxn(nil), good...) }
		for round := 0; round < 8; round++ {
			var m c29gMutant
			switch k := rapid.IntRange(0, 12).Draw(t, "mutation"); k {
			case 0: // drop a member
				if n < 2 {
					continue
				}
				i := pick("drop")
				g := clone()
				m = c29gMutant{"a member dropped", append(g[:i], g[i+1:]...)}
			case 1: // add a member carrying the same group id
				extra := mkTxn(t, ev)
				extra.Group = gid
				pos := rapid.IntRange(0, n).Draw(t, "addAt")
				g := clone()
				g = append(g[:pos], append([]transactions.SignedTxn{{Txn: extra}}, g[pos:]...)...)
				m = c29gMutant{"a member added", g}
			case 2: // swap two members
				if n < 2 {
					continue
				}
				i := pick("swapA")
				j := rapid.IntRange(0, n-2).Draw(t, "swapB")
				if j >= i {
					j++
				}
				g := clone()
				g[i], g[j] = g[j], g[i]
				m = c29gMutant{"two members swapped", g}
			case 3: // rotate
				if n < 3 {
					continue
				}
				g := clone()
				m = c29gMutant{"members rotated", append(g[1:], g[0])}
			case 4, 5: // alter one field of one member after the id was fixed
				i := pick("alter")
				g := clone()
				switch f := rapid.IntRange(0, 5).Draw(t, "field"); f {
				case 0:
					g[i].Txn.Amount.Raw++
				case 1:
					g[i].Txn.Note = append(append([]byte{}, g[i].Txn.Note...), '!')
				case 2:
					g[i].Txn.Fee.Raw++
				case 3:
					g[i].Txn.Receiver = addrs[(rapid.IntRange(1, len(addrs)-1).Draw(t, "newRcv")+c29gIndexOf(addrs, g[i].Txn.Receiver))%len(addrs)]
				case 4:
					g[i].Txn.LastValid--
				default:
					g[i].Txn.Lease[0] ^= 1
				}
				if n == 1 {
					m = c29gMutant{"the only member altered", g}
				} else {
					m = c29gMutant{"one member altered", g}
				}
			case 6: // group id altered on every member
				bad := gid
				bad[rapid.IntRange(0, 31).Draw(t, "gidByte")] ^= 1 << uint(rapid.IntRange(0, 7).Draw(t, "gidBit"))
				m = c29gMutant{"the group ID altered on all members", c29gWithGroup(good, bad)}
			case 7: // group id altered on one member
				if n < 2 {
					continue
				}
				g := clone()
				g[pick("oneGid")].Txn.Group[31] ^= 0x80
				m = c29gMutant{"the group ID altered on one member", g}
			case 8: // group id missing on one member
				if n < 2 {
					continue
				}
				g := clone()
				g[pick("zeroGid")].Txn.Group = crypto.Digest{}
				m = c29gMutant{"the group ID missing on one member", g}
			case 9: // no group id at all but submitted together
				if n < 2 {
					continue
				}
				m = c29gMutant{"no group ID on a multi-member group", c29gWithGroup(good, crypto.Digest{})}
			case 10: // id over the sorted list of member ids (a set, not a sequence)
				if n < 2 {
					continue
				}
				sorted := append([]crypto.Digest(nil), ids...)
				sort.Slice(sorted, func(a, b int) bool { return string(sorted[a][:]) < string(sorted[b][:]) })
				same := true
				for i := range ids {
					same = same && sorted[i] == ids[i]
				}
				if same {
					continue
				}
				m = c29gMutant{"the group ID computed over the sorted ID set", c29gWithGroup(good, c29gGroupID("TG", sorted))}
			case 11: // id over the reversed list
				if n < 2 {
					continue
				}
				rev := make([]crypto.Digest, n)
				for i := range ids {
					rev[n-1-i] = ids[i]
				}
				m = c29gMutant{"the group ID computed over the reversed ID list", c29gWithGroup(good, c29gGroupID("TG", rev))}
			default: // no domain separation
				m = c29gMutant{"the group ID computed without the TG prefix", c29gWithGroup(good, c29gGroupID("", ids))}
			}
			expectReject(m)
		}

		// the untouched group (or the plain single transaction) goes through
		final := good
		kind := "grouped"
		if n == 1 && rapid.Bool().Draw(t, "plainSingle") {
			final = c29gWithGroup(good, crypto.Digest{})
			kind = "single-ungrouped"
		}
		if err := ev.TestTransactionGroup(final); err != nil {
			t.Fatalf("TestTransactionGroup refused a correct group of %d (%s): %v", n, kind, err)
		}
		at := ev.PaySetSize()
		if err := ev.TransactionGroup(transactions.WrapSignedTxnsWithAD(final)...); err != nil {
			t.Fatalf("TransactionGroup refused a correct group of %d (%s): %v", n, kind, err)
		}
		if ev.PaySetSize() != at+n {
			t.Fatalf("accepted group of %d added %d entries", n, ev.PaySetSize()-at)
		}
		if kind == "single-ungrouped" {
			singles = append(singles, at)
		}
		inBlock++
		vk.Labelf("accept:size=%s", map[bool]string{true: "1", false: map[bool]string{true: "2-5", false: map[bool]string{true: "6-15", false: "16"}[n < 16]}[n <= 5]}[n == 1])
		vk.Case(n >= 2, gid.String())
		if vk.WantSample(n >= 2) {
			vk.Sample(n >= 2, map[string]interface{}{"size": n, "group": gid.String(), "round": uint64(ev.Round())})
		}
	})
	// finish the last block through the same checks (outside rapid: fixed draws are not needed any more)
	if inBlock > 0 && sticky == "" && !t.Failed() {
		endBlock(tt, l, ev)
	}
}

func c29gIndexOf(addrs []basics.Address, a basics.Address) int {
	for i := range addrs {
		if addrs[i] == a {
			return i
		}
	}
	return 0
}
